(** Proofs about Model/Dendrogram.v and Model/Cuts.v (property C08). *)
From SKN Require Import Base.Util Model.Dendrogram Model.Cuts.
From Coq Require Import Permutation Sorted SetoidList Lia Lqa Psatz Qreduction.
Close Scope Q_scope.
Open Scope nat_scope.

(** * Lists *)
Lemma NoDup_snoc {A} (l : list A) x : NoDup l -> ~ In x l -> NoDup (l ++ [x]).
Proof.
  intros H Hn. apply (Permutation_NoDup (Permutation_cons_append l x)). now constructor.
Qed.

Lemma NoDup_app_remove_aux {A} (l1 l2 : list A) :
  NoDup (l1 ++ l2) -> NoDup l1 /\ NoDup l2 /\ (forall x, In x l1 -> ~ In x l2).
Proof.
  induction l1 as [|a l1 IH]; simpl; intros H.
  - split; [constructor|]. split; [assumption|tauto].
  - inversion H as [|? ? Hn Hnd]; subst. destruct (IH Hnd) as (H1 & H2 & H3). split; [|split].
    + constructor; [|assumption]. intros Hc. apply Hn. apply in_app_iff. now left.
    + assumption.
    + intros x [->|Hx]; [intros Hc; apply Hn; apply in_app_iff; now right | now apply H3].
Qed.

Lemma fold_right_permutation_sum (l l' : list nat) :
  Permutation l l' -> fold_right Nat.add 0 l = fold_right Nat.add 0 l'.
Proof. induction 1; simpl; lia. Qed.

Lemma fold_right_add_acc (l : list nat) a : fold_right Nat.add a l = fold_right Nat.add 0 l + a.
Proof. induction l; simpl; lia. Qed.

Lemma nth_repeat_lt_aux (a : nat) n x : x < n -> nth x (repeat a n) 0 = a.
Proof. revert x. induction n as [|n IH]; intros x H; [lia|]. destruct x; simpl; [reflexivity | apply IH; lia]. Qed.

Lemma firstn_In_aux {A} (l : list A) k x : In x (firstn k l) -> In x l.
Proof. revert l. induction k as [|k IH]; intros [|a l]; simpl; try tauto. intros [H|H]; [now left | right; now apply IH]. Qed.

Lemma In_firstn_nth_error {A} (l : list A) k x : In x (firstn k l) -> exists i, i < k /\ nth_error l i = Some x.
Proof.
  revert l. induction k as [|k IH]; intros [|a l]; simpl; try tauto. intros [H|H].
  - exists 0. split; [lia | now subst].
  - destruct (IH l H) as [i [Hi E]]. exists (S i). split; [lia | exact E].
Qed.

Lemma nth_error_firstn_lt {A} (l : list A) k i : i < k -> nth_error (firstn k l) i = nth_error l i.
Proof.
  revert l i. induction k as [|k IH]; intros l i H; [lia|]. destruct l as [|a l]; [now destruct i|].
  destruct i as [|i]; [reflexivity|]. simpl. apply IH. lia.
Qed.

(** * Association lists *)
Section Alist.
Context {A : Type}.
Implicit Types l : list (nat * A).

Lemma alookup_In k l v : alookup k l = Some v -> In (k, v) l.
Proof.
  induction l as [|[k' v'] t IH]; simpl; [discriminate|].
  destruct (Nat.eqb k k') eqn:E.
  - intros H; inversion H; subst. apply Nat.eqb_eq in E. subst. now left.
  - intros H. right. now apply IH.
Qed.

Lemma alookup_key k l v : alookup k l = Some v -> In k (akeys l).
Proof. intros H. apply alookup_In in H. unfold akeys. apply in_map_iff. now exists (k, v). Qed.

Lemma alookup_None k l : alookup k l = None <-> ~ In k (akeys l).
Proof.
  induction l as [|[k' v'] t IH]; simpl; [tauto|].
  destruct (Nat.eqb k k') eqn:E.
  - apply Nat.eqb_eq in E. subst. split; [discriminate | intros H; exfalso; apply H; now left].
  - apply Nat.eqb_neq in E. rewrite IH. split; intros H; [intros [H1|H1]; [congruence|tauto] | tauto].
Qed.

Lemma In_alookup k v l : NoDup (akeys l) -> In (k, v) l -> alookup k l = Some v.
Proof.
  induction l as [|[k' v'] t IH]; simpl; [tauto|].
  intros Hnd [H|H].
  - inversion H; subst. now rewrite Nat.eqb_refl.
  - inversion Hnd as [|? ? Hn Hnd']; subst.
    destruct (Nat.eqb k k') eqn:E.
    + apply Nat.eqb_eq in E. subst. exfalso. apply Hn. unfold akeys. apply in_map_iff. now exists (k', v).
    + now apply IH.
Qed.

Lemma In_key_alookup k l : In k (akeys l) -> exists v, alookup k l = Some v.
Proof.
  intros H. destruct (alookup k l) eqn:E; [eauto|]. apply alookup_None in E. tauto.
Qed.

Lemma aremove_In x l k : In x (aremove k l) -> In x l.
Proof.
  induction l as [|[k' v'] t IH]; simpl; [tauto|].
  destruct (Nat.eqb k k'); [tauto|]. intros [H|H]; [now left | right; now apply IH].
Qed.

Lemma akeys_aremove_In x l k : In x (akeys (aremove k l)) -> In x (akeys l).
Proof.
  unfold akeys. intros H. apply in_map_iff in H. destruct H as [[a b] [H1 H2]].
  apply in_map_iff. exists (a, b). split; [exact H1|]. now apply aremove_In in H2.
Qed.

Lemma NoDup_aremove l k : NoDup (akeys l) -> NoDup (akeys (aremove k l)).
Proof.
  induction l as [|[k' v'] t IH]; simpl; [auto|].
  intros H. inversion H as [|? ? Hn Hnd]; subst.
  destruct (Nat.eqb k k'); [exact Hnd|]. simpl. constructor; [|now apply IH].
  intros Hc. apply Hn. now apply akeys_aremove_In in Hc.
Qed.

Lemma aremove_not_key l k : NoDup (akeys l) -> ~ In k (akeys (aremove k l)).
Proof.
  induction l as [|[k' v'] t IH]; simpl; [tauto|].
  intros H. inversion H as [|? ? Hn Hnd]; subst.
  destruct (Nat.eqb k k') eqn:E.
  - apply Nat.eqb_eq in E. now subst.
  - apply Nat.eqb_neq in E. simpl. intros [Hc|Hc]; [congruence|]. now apply IH.
Qed.

Lemma aremove_In_neq k' v l k : In (k', v) l -> k' <> k -> In (k', v) (aremove k l).
Proof.
  induction l as [|[k2 v2] t IH]; simpl; [tauto|].
  intros [H|H] Hne.
  - inversion H; subst. destruct (Nat.eqb k k') eqn:E; [apply Nat.eqb_eq in E; congruence | now left].
  - destruct (Nat.eqb k k2); [exact H | right; now apply IH].
Qed.

Lemma akeys_aremove_neq x l k : In x (akeys l) -> x <> k -> In x (akeys (aremove k l)).
Proof.
  unfold akeys. intros H Hne. apply in_map_iff in H. destruct H as [[a b] [H1 H2]]. simpl in H1. subst.
  apply in_map_iff. exists (x, b). split; [reflexivity|]. now apply aremove_In_neq.
Qed.

Lemma alookup_aremove_neq k k' l : k <> k' -> alookup k (aremove k' l) = alookup k l.
Proof.
  intros Hne. induction l as [|[k2 v2] t IH]; simpl; [reflexivity|].
  destruct (Nat.eqb k' k2) eqn:E.
  - apply Nat.eqb_eq in E. subst. destruct (Nat.eqb k k2) eqn:E2; [apply Nat.eqb_eq in E2; congruence | reflexivity].
  - simpl. now rewrite IH.
Qed.

Lemma alookup_aremove_eq k l : NoDup (akeys l) -> alookup k (aremove k l) = None.
Proof. intros H. apply alookup_None. now apply aremove_not_key. Qed.

Lemma alookup_app k l1 l2 :
  alookup k (l1 ++ l2) = match alookup k l1 with Some v => Some v | None => alookup k l2 end.
Proof.
  induction l1 as [|[k' v'] t IH]; simpl; [reflexivity|]. destruct (Nat.eqb k k'); [reflexivity | exact IH].
Qed.

Lemma akeys_app l1 l2 : akeys (l1 ++ l2) = akeys l1 ++ akeys l2.
Proof. unfold akeys. apply map_app. Qed.

Lemma aremove_perm k l v : alookup k l = Some v -> Permutation l ((k, v) :: aremove k l).
Proof.
  induction l as [|[k' v'] t IH]; simpl; [discriminate|].
  destruct (Nat.eqb k k') eqn:E.
  - intros H. inversion H; subst. apply Nat.eqb_eq in E. subst. reflexivity.
  - intros H. apply IH in H. rewrite perm_swap. now constructor.
Qed.

Lemma aremove_length k l v : alookup k l = Some v -> S (length (aremove k l)) = length l.
Proof. intros H. apply aremove_perm in H. apply Permutation_length in H. simpl in H. lia. Qed.

Lemma NoDup_akeys_app_fresh l k v : NoDup (akeys l) -> ~ In k (akeys l) -> NoDup (akeys (l ++ [(k, v)])).
Proof.
  intros H Hn. rewrite akeys_app. simpl. now apply NoDup_snoc.
Qed.
End Alist.

(** * Leaf sets *)
Definition ids_lt (n : nat) (D : dendrogram) : Prop :=
  forall t r, nth_error D t = Some r -> r_left r < n + t /\ r_right r < n + t.

Lemma leaves_f_indep n D : ids_lt n D ->
  forall k f1 f2, k < f1 -> k < f2 -> leaves_f f1 n D k = leaves_f f2 n D k.
Proof.
  intros Hids k. induction k as [k IH] using lt_wf_ind. intros f1 f2 H1 H2.
  destruct f1 as [|f1]; [lia|]. destruct f2 as [|f2]; [lia|]. simpl.
  destruct (Nat.ltb k n) eqn:E; [reflexivity|]. apply Nat.ltb_ge in E.
  destruct (nth_error D (k - n)) as [r|] eqn:Er; [|reflexivity].
  destruct (Hids _ _ Er) as [Hl Hr].
  rewrite (IH (r_left r)) with (f2 := f2) by lia.
  rewrite (IH (r_right r)) with (f2 := f2) by lia. reflexivity.
Qed.

Lemma leaves_leaf n D k : k < n -> leaves n D k = [k].
Proof. intros H. unfold leaves. simpl. apply Nat.ltb_lt in H. now rewrite H. Qed.

Lemma leaves_node n D t r : ids_lt n D -> nth_error D t = Some r ->
  leaves n D (n + t) = leaves n D (r_left r) ++ leaves n D (r_right r).
Proof.
  intros Hids Hr. unfold leaves at 1. simpl.
  replace (Nat.ltb (n + t) n) with false by (symmetry; apply Nat.ltb_ge; lia).
  replace (n + t - n) with t by lia. rewrite Hr.
  destruct (Hids _ _ Hr) as [Hl Hrr]. unfold leaves.
  rewrite (leaves_f_indep n D Hids (r_left r) (n + t) (S (r_left r))) by lia.
  rewrite (leaves_f_indep n D Hids (r_right r) (n + t) (S (r_right r))) by lia. reflexivity.
Qed.

(** * What validity gives *)
Definition children (r : drow) : list nat := [r_left r; r_right r].

Definition row_ok (k : nat) (D : dendrogram) (t : nat) (r : drow) : Prop :=
  r_left r <> r_right r /\ r_left r < k + t /\ r_right r < k + t /\
  ~ In (r_left r) (flat_map children (firstn t D)) /\ ~ In (r_right r) (flat_map children (firstn t D)).

Definition linv (k : nat) (done : dendrogram) (live : list (nat * nat)) : Prop :=
  NoDup (akeys live) /\
  (forall x, In x (akeys live) <-> x < k + length done /\ ~ In x (flat_map children done)) /\
  (forall c, In c (flat_map children done) -> c < k + length done).

Lemma akeys_aremove_iff {A} (l : list (nat * A)) k x :
  NoDup (akeys l) -> (In x (akeys (aremove k l)) <-> In x (akeys l) /\ x <> k).
Proof.
  intros H. split.
  - intros Hx. split; [now apply akeys_aremove_In in Hx|]. intros ->. now apply (aremove_not_key l k).
  - intros [H1 H2]. now apply akeys_aremove_neq.
Qed.

Lemma flat_map_app {A B} (f : A -> list B) l1 l2 : flat_map f (l1 ++ l2) = flat_map f l1 ++ flat_map f l2.
Proof. induction l1; simpl; [reflexivity|]. now rewrite IHl1, app_assoc. Qed.

Lemma firstn_app_length {A} (l1 l2 : list A) : firstn (length l1) (l1 ++ l2) = l1.
Proof. induction l1; simpl; [now destruct l2 | now rewrite IHl1]. Qed.

Lemma nth_error_app_length {A} (l1 l2 : list A) x : nth_error (l1 ++ x :: l2) (length l1) = Some x.
Proof. induction l1; simpl; auto. Qed.

Lemma valid_run_step k done live r :
  linv k done live ->
  forall si sj, alookup (r_left r) live = Some si -> alookup (r_right r) live = Some sj ->
  r_left r <> r_right r ->
  forall s, linv k (done ++ [r]) (aremove (r_right r) (aremove (r_left r) live) ++ [(k + length done, s)]).
Proof.
  intros (Hnd & Hkeys & Hch) si sj Hi Hj Hne s.
  assert (Hik := alookup_key _ _ _ Hi). assert (Hjk := alookup_key _ _ _ Hj).
  apply Hkeys in Hik. apply Hkeys in Hjk.
  assert (Hnd1 : NoDup (akeys (aremove (r_left r) live))) by now apply NoDup_aremove.
  assert (Hnd2 : NoDup (akeys (aremove (r_right r) (aremove (r_left r) live)))) by now apply NoDup_aremove.
  assert (Hkeys2 : forall x, In x (akeys (aremove (r_right r) (aremove (r_left r) live))) <->
                             In x (akeys live) /\ x <> r_left r /\ x <> r_right r).
  { intros x. rewrite akeys_aremove_iff by assumption. rewrite akeys_aremove_iff by assumption. tauto. }
  split; [|split].
  - apply NoDup_akeys_app_fresh; [assumption|]. rewrite Hkeys2, Hkeys. lia.
  - intros x. rewrite akeys_app, in_app_iff, Hkeys2, Hkeys, flat_map_app, in_app_iff, app_length. simpl.
    split.
    + intros [[[H1 H2] [H3 H4]]|[H|[]]].
      * split; [lia|]. intros [Hc|[Hc|[Hc|[]]]]; [tauto|congruence|congruence].
      * subst x. split; [lia|]. intros [Hc|[Hc|[Hc|[]]]]; [apply Hch in Hc; lia | lia | lia].
    + intros [Hlt Hnot].
      destruct (Nat.eq_dec x (k + length done)) as [->|Hx]; [right; now left|].
      left. repeat split; try lia; try tauto; intros ->; apply Hnot; right; simpl; tauto.
  - intros c. rewrite flat_map_app, in_app_iff, app_length. simpl.
    intros [H|[H|[H|[]]]]; [apply Hch in H; lia | subst c; lia | subst c; lia].
Qed.

Lemma valid_run_rows k D :
  forall rows done live live',
    D = done ++ rows -> linv k done live ->
    valid_run (k + length done) rows live = Some live' ->
    (forall t r, length done <= t -> nth_error D t = Some r -> row_ok k D t r) /\ linv k D live'.
Proof.
  induction rows as [|r rows IH]; intros done live live' HD Hinv Hrun.
  - simpl in Hrun. inversion Hrun; subst. rewrite app_nil_r. split; [|assumption].
    intros t r Ht Hr. assert (t < length done) by (apply nth_error_Some; congruence). lia.
  - simpl in Hrun. destruct r as [[[i j] h] s] eqn:Er.
    destruct (alookup i live) as [si|] eqn:Hi; [|discriminate].
    destruct (alookup j live) as [sj|] eqn:Hj; [|discriminate].
    destruct (negb (Nat.eqb i j) && Nat.eqb s (si + sj)) eqn:Hc; [|discriminate].
    apply andb_true_iff in Hc. destruct Hc as [Hne _]. apply negb_true_iff, Nat.eqb_neq in Hne.
    assert (Hstep := valid_run_step k done live r Hinv si sj).
    subst r. unfold r_left, r_right in Hstep. simpl in Hstep. specialize (Hstep Hi Hj Hne s).
    specialize (IH (done ++ [(i, j, h, s)]) (aremove j (aremove i live) ++ [(k + length done, s)]) live').
    rewrite app_length in IH. simpl in IH. replace (k + (length done + 1)) with (S (k + length done)) in IH by lia.
    rewrite <- app_assoc in IH. simpl in IH. specialize (IH HD Hstep Hrun).
    destruct IH as [IH1 IH2]. split; [|assumption].
    intros t r Ht Hr. destruct (Nat.eq_dec t (length done)) as [->|Hneq]; [|apply IH1; [lia|assumption]].
    rewrite HD, nth_error_app_length in Hr. inversion Hr; subst r.
    destruct Hinv as (Hnd & Hkeys & Hch).
    assert (Hik := alookup_key _ _ _ Hi). assert (Hjk := alookup_key _ _ _ Hj).
    apply Hkeys in Hik. apply Hkeys in Hjk. unfold row_ok. rewrite HD, firstn_app_length.
    unfold r_left, r_right. simpl. tauto.
Qed.

Lemma init_live_keys ws : akeys (init_live ws) = seq 0 (length ws).
Proof.
  unfold akeys, init_live.
  assert (H : forall (a : list nat) (b : list nat), length a = length b -> map fst (combine a b) = a).
  { induction a as [|x a IH]; intros [|y b]; simpl; intros E; try discriminate; [reflexivity|].
    f_equal. apply IH. lia. }
  apply H. now rewrite seq_length.
Qed.

Lemma linv_init ws : linv (length ws) [] (init_live ws).
Proof.
  unfold linv. rewrite init_live_keys. simpl. split; [apply seq_NoDup|]. split.
  - intros x. rewrite in_seq. lia.
  - tauto.
Qed.

Lemma validw_rows ws D : validw ws D = true ->
  S (length D) = length ws /\ forall t r, nth_error D t = Some r -> row_ok (length ws) D t r.
Proof.
  unfold validw. intros H. apply andb_true_iff in H. destruct H as [H _].
  apply andb_true_iff in H. destruct H as [Hlen Hrun]. apply Nat.eqb_eq in Hlen. split; [exact Hlen|].
  destruct (valid_run (length ws) D (init_live ws)) as [live'|] eqn:E; [|discriminate].
  destruct (valid_run_rows (length ws) D D [] (init_live ws) live' eq_refl (linv_init ws)) as [H1 _].
  { simpl. now rewrite Nat.add_0_r. }
  intros t r Hr. apply H1; [simpl; lia | exact Hr].
Qed.

Lemma valid_rows n D : valid n D = true ->
  S (length D) = n /\ forall t r, nth_error D t = Some r -> row_ok n D t r.
Proof.
  unfold valid. intros H. apply validw_rows in H. now rewrite repeat_length in H.
Qed.

Lemma valid_ids_lt n D : valid n D = true -> ids_lt n D.
Proof.
  intros H t r Hr. destruct (valid_rows n D H) as [_ H2]. specialize (H2 t r Hr). unfold row_ok in H2. tauto.
Qed.

(** * The replay of the cuts: every cluster of the dict is the leaf set of its key *)
Lemma Permutation_concat {A} (l1 l2 : list (list A)) : Permutation l1 l2 -> Permutation (concat l1) (concat l2).
Proof.
  induction 1; simpl.
  - reflexivity.
  - now apply Permutation_app_head.
  - rewrite !app_assoc. apply Permutation_app_tail. apply Permutation_app_comm.
  - etransitivity; eassumption.
Qed.

Definition cinv (n : nat) (D : dendrogram) (t : nat) (st : cstate) : Prop :=
  NoDup (akeys st) /\
  (forall k c, In (k, c) st -> k < n + t /\ c = leaves n D k /\ c <> []) /\
  Permutation (concat (map snd st)) (seq 0 n).

Lemma cinv_init n D : cinv n D 0 (init_clusters n).
Proof.
  unfold cinv, init_clusters, akeys. rewrite !map_map. simpl. rewrite map_id. split; [apply seq_NoDup|]. split.
  - intros k c H. apply in_map_iff in H. destruct H as [i [H1 H2]]. inversion H1; subst.
    apply in_seq in H2. split; [lia|]. split; [|discriminate]. symmetry. apply leaves_leaf. lia.
  - assert (H : forall s m, concat (map (fun x : nat => [x]) (seq s m)) = seq s m).
    { intros s m. revert s. induction m; simpl; intros s; [reflexivity | now rewrite IHm]. }
    now rewrite H.
Qed.

Lemma cut_step_cinv guard n D t r st st' :
  ids_lt n D -> nth_error D t = Some r -> cinv n D t st ->
  cut_step guard (n + t) r st = Ok st' -> cinv n D (S t) st'.
Proof.
  intros Hids Hr (Hnd & Hcl & Hperm) Hstep. unfold cut_step in Hstep.
  assert (Hsame : cinv n D (S t) st).
  { split; [assumption|]. split; [|assumption]. intros k c H. destruct (Hcl k c H) as (H1 & H2 & H3).
    split; [lia|]. now split. }
  destruct (alookup (r_left r) st) as [ci|] eqn:Hi; [|inversion Hstep; now subst].
  destruct (alookup (r_right r) st) as [cj|] eqn:Hj; [|inversion Hstep; now subst].
  destruct (guard r ci cj); [|inversion Hstep; now subst].
  destruct (alookup (r_right r) (aremove (r_left r) st)) as [cj'|] eqn:Hj'; [|discriminate].
  inversion Hstep; subst st'. clear Hstep Hsame.
  assert (Hci := alookup_In _ _ _ Hi). assert (Hcj' := alookup_In _ _ _ Hj'). apply aremove_In in Hcj'.
  destruct (Hcl _ _ Hci) as (Hi1 & Hi2 & Hi3). destruct (Hcl _ _ Hcj') as (Hj1 & Hj2 & Hj3).
  assert (Hnd1 : NoDup (akeys (aremove (r_left r) st))) by now apply NoDup_aremove.
  split; [|split].
  - apply NoDup_akeys_app_fresh; [now apply NoDup_aremove|]. intros Hc.
    apply akeys_aremove_In, akeys_aremove_In in Hc. unfold akeys in Hc. apply in_map_iff in Hc.
    destruct Hc as [[k c] [E Hin]]. simpl in E. subst k. apply Hcl in Hin. lia.
  - intros k c H. apply in_app_iff in H. destruct H as [H|[H|[]]].
    + apply aremove_In, aremove_In in H. destruct (Hcl k c H) as (H1 & H2 & H3). split; [lia|]. now split.
    + inversion H; subst k c. split; [lia|]. split.
      * rewrite (leaves_node n D t r Hids Hr). now rewrite <- Hi2, <- Hj2.
      * destruct ci; [congruence|discriminate].
  - rewrite map_app, concat_app. simpl. rewrite app_nil_r.
    rewrite <- Hperm.
    assert (P1 := aremove_perm _ _ _ Hi). assert (P2 := aremove_perm _ _ _ Hj').
    apply (Permutation_map snd), Permutation_concat in P1.
    apply (Permutation_map snd), Permutation_concat in P2. simpl in P1, P2.
    rewrite P1, P2. rewrite Permutation_app_comm. now rewrite app_assoc.
Qed.

Lemma replay_cinv guard n D : ids_lt n D ->
  forall rows done st st', D = done ++ rows -> cinv n D (length done) st ->
    replay guard (n + length done) rows st = Ok st' -> cinv n D (length D) st'.
Proof.
  intros Hids. induction rows as [|r rows IH]; intros done st st' HD Hinv Hrun.
  - simpl in Hrun. inversion Hrun; subst. rewrite app_nil_r in *. exact Hinv.
  - simpl in Hrun. destruct (cut_step guard (n + length done) r st) as [st1|] eqn:Hs; [|discriminate].
    assert (Hr : nth_error D (length done) = Some r) by (rewrite HD; apply nth_error_app_length).
    assert (H1 := cut_step_cinv guard n D (length done) r st st1 Hids Hr Hinv Hs).
    apply (IH (done ++ [r]) st1 st').
    + now rewrite <- app_assoc.
    + rewrite app_length. simpl. now rewrite Nat.add_1_r.
    + rewrite app_length. simpl. now rewrite Nat.add_1_r, <- plus_n_Sm.
Qed.

(** * Labels *)

Lemma map_nth_seq {A} (l : list A) d : map (fun i => nth i l d) (seq 0 (length l)) = l.
Proof.
  induction l as [|a l IH]; simpl; [reflexivity|]. f_equal.
  rewrite <- seq_shift, map_map. exact IH.
Qed.

Lemma map_nth_perm {A} (l : list A) d index :
  Permutation index (seq 0 (length l)) -> Permutation (map (fun i => nth i l d) index) l.
Proof.
  intros H. apply (Permutation_map (fun i => nth i l d)) in H. now rewrite map_nth_seq in H.
Qed.

Definition negsizes (st : cstate) : list Z := map (fun c => (- Z.of_nat (length c))%Z) (map snd st).

(** The cluster dict in label order. *)
Definition pstate (argsort : list Z -> list nat) (st : cstate) (sort : bool) : cstate :=
  if sort then map (fun i => nth i st (0, [])) (argsort (negsizes st)) else st.

Lemma pstate_perm argsort st sort : argsort_ok argsort -> Permutation (pstate argsort st sort) st.
Proof.
  intros H. unfold pstate. destruct sort; [|reflexivity]. apply map_nth_perm.
  destruct (H (negsizes st)) as [H1 _]. unfold negsizes in H1 at 2. now rewrite !map_length in H1.
Qed.

Lemma get_labels_labels argsort D st sort ret labels od :
  get_labels argsort D st sort ret = Ok (labels, od) ->
  labels = labels_of (S (length D)) (map snd (pstate argsort st sort)).
Proof.
  unfold get_labels, pstate, negsizes. intros H.
  assert (E : (if sort then map (fun i => nth i (map snd st) []) (argsort (map (fun c => (- Z.of_nat (length c))%Z) (map snd st)))
               else map snd st) =
              map snd (if sort then map (fun i => nth i st (0, [])) (argsort (map (fun c => (- Z.of_nat (length c))%Z) (map snd st))) else st)).
  { destruct sort; [|reflexivity]. etransitivity; [|symmetry; apply map_map]. apply map_ext. intros i.
    exact (map_nth snd st (0, []) i). }
  rewrite E in H. clear E.
  destruct ret.
  - match type of H with match ?X with _ => _ end = _ => destruct X end; [|discriminate]. now inversion H.
  - now inversion H.
Qed.

Definition cpart (n : nat) (D : dendrogram) (pst : cstate) : Prop :=
  NoDup (akeys pst) /\
  (forall k c, In (k, c) pst -> c = leaves n D k /\ c <> []) /\
  Permutation (concat (map snd pst)) (seq 0 n).

Lemma cinv_cpart n D t st pst : cinv n D t st -> Permutation pst st -> cpart n D pst.
Proof.
  intros (H1 & H2 & H3) P. split; [|split].
  - apply (Permutation_map fst) in P. symmetry in P. exact (Permutation_NoDup P H1).
  - intros k c H. apply (Permutation_in _ P) in H. destruct (H2 k c H) as (_ & Ha & Hb). now split.
  - rewrite <- H3. apply Permutation_concat, Permutation_map, P.
Qed.

Lemma label_of_none cs b v acc : (forall c, In c cs -> ~ In v c) -> label_of cs b v acc = acc.
Proof.
  revert b acc. induction cs as [|c cs IH]; intros b acc H; simpl; [reflexivity|].
  rewrite IH by (intros c' Hc'; apply H; now right).
  destruct (memn v c) eqn:E; [|reflexivity]. apply memn_In in E. exfalso. apply (H c); [now left | exact E].
Qed.

Lemma label_of_spec cs : NoDup (concat cs) ->
  forall l v b acc, l < length cs -> In v (nth l cs []) -> label_of cs b v acc = b + l.
Proof.
  induction cs as [|c cs IH]; intros Hnd l v b acc Hl Hv; simpl in *; [lia|].
  apply NoDup_app_remove_aux in Hnd. destruct Hnd as (Hndc & Hndcs & Hdisj).
  destruct l as [|l].
  - rewrite label_of_none.
    + assert (E : memn v c = true) by now apply memn_In. rewrite E. lia.
    + intros c' Hc' Hvc'. apply (Hdisj v Hv). apply in_concat. now exists c'.
  - rewrite (IH Hndcs l v (S b)); [lia | lia | exact Hv].
Qed.

Lemma nth_map_seq {A} (f : nat -> A) n v d : v < n -> nth v (map f (seq 0 n)) d = f v.
Proof.
  intros H. rewrite (nth_indep _ d (f 0)) by (now rewrite map_length, seq_length).
  rewrite map_nth, seq_nth by assumption. reflexivity.
Qed.

Lemma labels_of_nth n cs v : v < n -> nth v (labels_of n cs) 0 = label_of cs 0 v 0.
Proof. intros H. unfold labels_of. now rewrite nth_map_seq. Qed.

Lemma NoDup_concat_In {A} (cs : list (list A)) c : NoDup (concat cs) -> In c cs -> NoDup c.
Proof.
  induction cs as [|c' cs IH]; simpl; [tauto|]. intros H [->|Hc].
  - now apply NoDup_app_remove_aux in H.
  - apply NoDup_app_remove_aux in H. apply IH; tauto.
Qed.

Lemma cpart_clusters n D pst : cpart n D pst ->
  NoDup (concat (map snd pst)) /\
  (forall v, v < n -> exists l, l < length pst /\ In v (nth l (map snd pst) [])) /\
  (forall l v, l < length pst -> In v (nth l (map snd pst) []) -> v < n) /\
  (forall l, l < length pst ->
     nth l (map snd pst) [] = leaves n D (fst (nth l pst (0, []))) /\ nth l (map snd pst) [] <> []).
Proof.
  intros (Hnd & Hcl & Hperm). split; [|split; [|split]].
  - symmetry in Hperm. exact (Permutation_NoDup Hperm (seq_NoDup n 0)).
  - intros v Hv. assert (Hin : In v (concat (map snd pst))).
    { symmetry in Hperm. apply (Permutation_in _ Hperm). apply in_seq. lia. }
    apply in_concat in Hin. destruct Hin as [c [Hc Hvc]].
    destruct (In_nth _ _ [] Hc) as [l [Hl El]]. rewrite map_length in Hl. exists l. split; [exact Hl|]. now rewrite El.
  - intros l v Hl Hv. assert (Hin : In v (concat (map snd pst))).
    { apply in_concat. exists (nth l (map snd pst) []). split; [|exact Hv]. apply nth_In. now rewrite map_length. }
    apply (Permutation_in _ Hperm) in Hin. apply in_seq in Hin. lia.
  - intros l Hl. change (@nil nat) with (snd (0, @nil nat)) at 1 3. rewrite map_nth.
    assert (Hin : In (nth l pst (0, [])) pst) by now apply nth_In.
    destruct (nth l pst (0, [])) as [k c] eqn:E. simpl. exact (Hcl k c Hin).
Qed.

Lemma cpart_labels n D pst : cpart n D pst ->
  let labels := labels_of n (map snd pst) in
  length labels = n /\
  (forall v, v < n -> nth v labels 0 < length pst) /\
  (forall l v, l < length pst -> v < n ->
     (nth v labels 0 = l <-> In v (leaves n D (fst (nth l pst (0, [])))))) /\
  (forall l, l < length pst -> exists v, v < n /\ nth v labels 0 = l).
Proof.
  intros Hc. destruct (cpart_clusters n D pst Hc) as (Hnd & Hcov & Hlt & Hleaves). simpl.
  assert (Hlab : forall l v, l < length pst -> In v (nth l (map snd pst) []) -> nth v (labels_of n (map snd pst)) 0 = l).
  { intros l v Hl Hv. rewrite labels_of_nth by (eapply Hlt; eassumption).
    rewrite (label_of_spec _ Hnd l v 0 0); [reflexivity | now rewrite map_length | exact Hv]. }
  split; [|split; [|split]].
  - unfold labels_of. now rewrite map_length, seq_length.
  - intros v Hv. destruct (Hcov v Hv) as [l [Hl Hin]]. now rewrite (Hlab l v Hl Hin).
  - intros l v Hl Hv. destruct (Hleaves l Hl) as [El _]. rewrite <- El. split.
    + intros E. destruct (Hcov v Hv) as [l' [Hl' Hin]]. rewrite (Hlab l' v Hl' Hin) in E. now subst l'.
    + intros Hin. now apply Hlab.
  - intros l Hl. destruct (Hleaves l Hl) as [_ Hne].
    destruct (nth l (map snd pst) []) as [|v c] eqn:E; [congruence|].
    assert (Hin : In v (nth l (map snd pst) [])) by (rewrite E; now left).
    exists v. split; [eapply Hlt; eassumption | now apply Hlab].
Qed.

Lemma count_occ_map_filter (f : nat -> nat) L l :
  count_occ Nat.eq_dec (map f L) l = length (filter (fun v => Nat.eqb (f v) l) L).
Proof.
  induction L as [|a L IH]; simpl; [reflexivity|].
  destruct (Nat.eq_dec (f a) l) as [E|E].
  - apply Nat.eqb_eq in E. rewrite E. simpl. now rewrite IH.
  - apply Nat.eqb_neq in E. now rewrite E.
Qed.

Lemma cpart_sizes n D pst l : cpart n D pst -> l < length pst ->
  cluster_size (labels_of n (map snd pst)) l = length (nth l (map snd pst) []).
Proof.
  intros Hc Hl. destruct (cpart_clusters n D pst Hc) as (Hnd & Hcov & Hlt & Hleaves).
  destruct (cpart_labels n D pst Hc) as (_ & _ & Hiff & _).
  unfold cluster_size, labels_of. rewrite count_occ_map_filter. apply Permutation_length.
  apply NoDup_Permutation.
  - apply NoDup_filter, seq_NoDup.
  - apply (NoDup_concat_In _ _ Hnd). apply nth_In. now rewrite map_length.
  - intros v. rewrite filter_In, in_seq, Nat.eqb_eq. destruct (Hleaves l Hl) as [El _]. rewrite El. split.
    + intros [Hv E]. apply Hiff; [assumption | lia |]. now rewrite labels_of_nth by lia.
    + intros Hin. assert (Hv : v < n) by (apply (Hlt l v Hl); now rewrite El).
      split; [lia|]. apply Hiff in Hin; [|assumption|assumption]. now rewrite labels_of_nth in Hin by lia.
Qed.

Lemma subtree_partition_num n D labels ids :
  subtree_partition n D labels ids -> num_clusters labels = length ids.
Proof.
  intros (Hlen & Hlt & _ & Hsur). unfold num_clusters.
  rewrite <- (seq_length (length ids) 0). apply Permutation_length, NoDup_Permutation.
  - apply NoDup_nodup.
  - apply seq_NoDup.
  - intros x. rewrite nodup_In, in_seq. split.
    + intros Hin. destruct (In_nth _ _ 0 Hin) as [v [Hv E]]. rewrite Hlen in Hv. specialize (Hlt v Hv). lia.
    + intros [_ Hx]. destruct (Hsur x Hx) as [v [Hv E]]. rewrite <- E. apply nth_In. lia.
Qed.

(** Everything the two cuts share: replay, then get_labels. *)
Lemma cut_generic guard argsort n D st sort ret labels od :
  valid n D = true -> argsort_ok argsort ->
  replay guard n D (init_clusters n) = Ok st ->
  get_labels argsort D st sort ret = Ok (labels, od) ->
  let pst := pstate argsort st sort in
  cpart n D pst /\ Permutation pst st /\ labels = labels_of n (map snd pst) /\
  subtree_partition n D labels (akeys pst) /\
  (forall l, l < length pst -> cluster_size labels l = length (snd (nth l pst (0, [])))).
Proof.
  intros Hv Hargs Hrep Hlab. simpl.
  assert (Hids := valid_ids_lt n D Hv). destruct (valid_rows n D Hv) as [Hlen _].
  assert (Hc : cinv n D (length D) st).
  { apply (replay_cinv guard n D Hids D [] (init_clusters n) st eq_refl).
    - apply cinv_init.
    - simpl. now rewrite Nat.add_0_r. }
  assert (P := pstate_perm argsort st sort Hargs).
  assert (Hcp := cinv_cpart n D _ st _ Hc P).
  apply get_labels_labels in Hlab. rewrite Hlen in Hlab.
  split; [exact Hcp|]. split; [exact P|]. split; [exact Hlab|].
  destruct (cpart_labels n D _ Hcp) as (H1 & H2 & H3 & H4). rewrite <- Hlab in *.
  split.
  - unfold subtree_partition, akeys. rewrite map_length. split; [exact H1|]. split; [exact H2|]. split; [|exact H4].
    intros l v Hl Hvn. change 0 with (fst (0, @nil nat)) at 2. rewrite map_nth. now apply H3.
  - intros l Hl. rewrite Hlab, (cpart_sizes n D _ l Hcp Hl).
    change (@nil nat) with (snd (0, @nil nat)) at 1. now rewrite map_nth.
Qed.

Lemma pstate_sorted argsort st : argsort_ok argsort ->
  let pst := pstate argsort st true in
  forall a b, a <= b -> b < length pst ->
    length (snd (nth b pst (0, []))) <= length (snd (nth a pst (0, []))).
Proof.
  intros Hargs pst a b Hab Hb. unfold pst, pstate in *.
  destruct (Hargs (negsizes st)) as [Hperm Hsort].
  assert (Hlen : length (argsort (negsizes st)) = length st).
  { apply Permutation_length in Hperm. rewrite seq_length in Hperm. unfold negsizes in Hperm at 2.
    now rewrite !map_length in Hperm. }
  rewrite map_length in Hb.
  assert (Hns : length (negsizes st) = length st) by (unfold negsizes; now rewrite !map_length).
  specialize (Hsort a b Hab). rewrite Hns, <- Hlen in Hsort. specialize (Hsort Hb).
  set (idx := argsort (negsizes st)) in *.
  assert (Hnth : forall i, i < length idx -> nth i (map (fun i => nth i st (0, [])) idx) (0, []) = nth (nth i idx 0) st (0, [])).
  { intros i Hi. rewrite (nth_indep _ (0, []) (nth 0 st (0, []))) by now rewrite map_length.
    now rewrite (map_nth (fun i => nth i st (0, []))). }
  rewrite (Hnth a) by lia. rewrite (Hnth b) by lia.
  assert (Hin : forall i, i < length idx -> nth i idx 0 < length st).
  { intros i Hi. assert (H : In (nth i idx 0) idx) by now apply nth_In.
    apply (Permutation_in _ Hperm) in H. apply in_seq in H. lia. }
  assert (Hneg : forall j, j < length st -> nth j (negsizes st) 0%Z = (- Z.of_nat (length (snd (nth j st (0%nat, [])))))%Z).
  { intros j Hj. unfold negsizes. rewrite map_map.
    rewrite (nth_indep _ 0%Z ((fun x : nat * list nat => (- Z.of_nat (length (snd x)))%Z) (0%nat, []))) by now rewrite map_length.
    now rewrite (map_nth (fun x : nat * list nat => (- Z.of_nat (length (snd x)))%Z)). }
  rewrite (Hneg _ (Hin a ltac:(lia))), (Hneg _ (Hin b Hb)) in Hsort. lia.
Qed.

(** * cut_straight / cut_balanced: clusters are subtrees, labels ordered by size, size cap *)
Lemma straight_state_inv D0 nc th ret D st :
  straight_state D0 nc th ret = Ok (D, st) ->
  cut_input D0 ret = Ok D /\
  exists cut, cut_height D nc th = Ok cut /\
              replay (straight_guard cut) (S (length D)) D (init_clusters (S (length D))) = Ok st.
Proof.
  unfold straight_state, straight_state_with. destruct (cut_input D0 ret) as [D1|] eqn:E1; [|discriminate].
  destruct (cut_height D1 nc th) as [cut|] eqn:E2; [|discriminate].
  destruct (replay (straight_guard cut) (S (length D1)) D1 (init_clusters (S (length D1)))) as [st1|] eqn:E3; [|discriminate].
  intros H. inversion H; subst. split; [reflexivity|]. exists cut. now split.
Qed.

Lemma cut_straight_inv argsort D0 nc th sort ret labels od :
  cut_straight argsort D0 nc th sort ret = Ok (labels, od) ->
  exists D st, straight_state D0 nc th ret = Ok (D, st) /\ get_labels argsort D st sort ret = Ok (labels, od).
Proof.
  unfold cut_straight. destruct (straight_state D0 nc th ret) as [[D st]|] eqn:E; [|discriminate].
  intros H. now exists D, st.
Qed.

Lemma cut_balanced_inv argsort D m sort ret labels od :
  cut_balanced argsort D m sort ret = Ok (labels, od) ->
  2 <= m <= S (length D) /\
  exists st, replay (balanced_guard m) (S (length D)) D (init_clusters (S (length D))) = Ok st /\
             get_labels argsort D st sort ret = Ok (labels, od).
Proof.
  unfold cut_balanced, balanced_state.
  destruct (Nat.ltb m 2 || Nat.ltb (S (length D)) m) eqn:E; [discriminate|].
  apply orb_false_iff in E. destruct E as [E1 E2]. apply Nat.ltb_ge in E1, E2.
  destruct (replay (balanced_guard m) (S (length D)) D (init_clusters (S (length D)))) as [st|] eqn:E3; [|discriminate].
  intros H. split; [lia|]. now exists st.
Qed.

Lemma sorted_from_generic argsort st labels pst :
  argsort_ok argsort -> pst = pstate argsort st true ->
  (forall l, l < length pst -> cluster_size labels l = length (snd (nth l pst (0, [])))) ->
  sizes_sorted labels (length pst).
Proof.
  intros Hargs -> Hsz a b Hab Hb. rewrite (Hsz a) by lia. rewrite (Hsz b) by lia.
  now apply pstate_sorted.
Qed.

Lemma cut_straight_subtrees argsort n D0 D nc th sort ret labels od :
  cut_input D0 ret = Ok D -> valid n D = true -> argsort_ok argsort ->
  cut_straight argsort D0 nc th sort ret = Ok (labels, od) ->
  exists ids, subtree_partition n D labels ids /\ (sort = true -> sizes_sorted labels (length ids)).
Proof.
  intros Hin Hv Hargs Hcut. apply cut_straight_inv in Hcut. destruct Hcut as (D' & st & Hst & Hlab).
  apply straight_state_inv in Hst. destruct Hst as (Hin' & cut & _ & Hrep).
  rewrite Hin in Hin'. inversion Hin'; subst D'. destruct (valid_rows n D Hv) as [Hlen _]. rewrite Hlen in Hrep.
  destruct (cut_generic _ argsort n D st sort ret labels od Hv Hargs Hrep Hlab) as (_ & _ & _ & Hsub & Hsz).
  exists (akeys (pstate argsort st sort)). split; [exact Hsub|]. intros ->.
  unfold akeys. rewrite map_length. eapply sorted_from_generic; [exact Hargs | reflexivity | exact Hsz].
Qed.

Lemma replay_cap m n D : ids_lt n D ->
  forall rows done st st', D = done ++ rows -> cinv n D (length done) st ->
    Forall (fun kc : nat * list nat => length (snd kc) <= m) st ->
    replay (balanced_guard m) (n + length done) rows st = Ok st' ->
    Forall (fun kc : nat * list nat => length (snd kc) <= m) st'.
Proof.
  intros Hids. induction rows as [|r rows IH]; intros done st st' HD Hinv Hall Hrun; simpl in Hrun.
  - now inversion Hrun; subst.
  - destruct (cut_step (balanced_guard m) (n + length done) r st) as [st1|] eqn:Hs; [|discriminate].
    assert (Hr : nth_error D (length done) = Some r) by (rewrite HD; apply nth_error_app_length).
    assert (H1 := cut_step_cinv _ n D (length done) r st st1 Hids Hr Hinv Hs).
    apply (IH (done ++ [r]) st1 st').
    + now rewrite <- app_assoc.
    + rewrite app_length. simpl. now rewrite Nat.add_1_r.
    + clear IH Hrun H1. unfold cut_step in Hs.
      destruct (alookup (r_left r) st) as [ci|] eqn:Hi; [|inversion Hs; now subst].
      destruct (alookup (r_right r) st) as [cj|] eqn:Hj; [|inversion Hs; now subst].
      destruct (balanced_guard m r ci cj) eqn:Hg; [|inversion Hs; now subst].
      destruct (alookup (r_right r) (aremove (r_left r) st)) as [cj'|] eqn:Hj'; [|discriminate].
      inversion Hs; subst st1. rewrite Forall_forall in *. intros x Hx. apply in_app_iff in Hx.
      destruct Hx as [Hx|[Hx|[]]].
      * apply Hall. now apply aremove_In, aremove_In in Hx.
      * subst x. simpl. unfold balanced_guard in Hg. apply Nat.leb_le in Hg.
        assert (E : cj' = cj).
        { destruct Hinv as (Hnd & _). destruct (Nat.eq_dec (r_right r) (r_left r)) as [E|E].
          - rewrite E, alookup_aremove_eq in Hj' by assumption. discriminate.
          - rewrite alookup_aremove_neq in Hj' by assumption. congruence. }
        subst. now rewrite app_length.
    + rewrite app_length. simpl. now rewrite Nat.add_1_r, <- plus_n_Sm.
Qed.

Lemma cut_balanced_subtrees argsort n D m sort ret labels od :
  valid n D = true -> argsort_ok argsort ->
  cut_balanced argsort D m sort ret = Ok (labels, od) ->
  exists ids, subtree_partition n D labels ids /\ (sort = true -> sizes_sorted labels (length ids)) /\
              (forall l, cluster_size labels l <= m).
Proof.
  intros Hv Hargs Hcut. apply cut_balanced_inv in Hcut. destruct Hcut as (Hm & st & Hrep & Hlab).
  destruct (valid_rows n D Hv) as [Hlen _]. rewrite Hlen in Hrep.
  destruct (cut_generic _ argsort n D st sort ret labels od Hv Hargs Hrep Hlab) as (_ & P & _ & Hsub & Hsz).
  exists (akeys (pstate argsort st sort)). split; [exact Hsub|]. split.
  - intros ->. unfold akeys. rewrite map_length. eapply sorted_from_generic; [exact Hargs | reflexivity | exact Hsz].
  - assert (Hcap : Forall (fun kc : nat * list nat => length (snd kc) <= m) st).
    { apply (replay_cap m n D (valid_ids_lt n D Hv) D [] (init_clusters n) st eq_refl).
      - apply cinv_init.
      - unfold init_clusters. apply Forall_forall. intros x Hx. apply in_map_iff in Hx.
        destruct Hx as [i [<- _]]. simpl. lia.
      - simpl. now rewrite Nat.add_0_r. }
    intros l. destruct (Nat.lt_ge_cases l (length (pstate argsort st sort))) as [Hl|Hl].
    + rewrite (Hsz l Hl). rewrite Forall_forall in Hcap. apply Hcap.
      apply (Permutation_in _ P). now apply nth_In.
    + unfold cluster_size. rewrite (proj1 (count_occ_not_In Nat.eq_dec labels l)); [lia|].
      intros Hin. destruct Hsub as (Hl1 & Hl2 & _). destruct (In_nth _ _ 0 Hin) as [v [Hv' E]].
      rewrite Hl1 in Hv'. specialize (Hl2 v Hv'). unfold akeys in Hl2. rewrite map_length in Hl2. lia.
Qed.

(** * Sorting the heights *)
Lemma qltb_lt a b : qltb a b = true <-> (a < b)%Q.
Proof.
  unfold qltb. rewrite negb_true_iff. split.
  - intros H. apply Qnot_le_lt. intros Hc. apply Qle_bool_iff in Hc. congruence.
  - intros H. destruct (Qle_bool b a) eqn:E; [|reflexivity]. apply Qle_bool_iff in E.
    exfalso. exact (Qlt_not_le _ _ H E).
Qed.

Lemma insq_perm x l : Permutation (insq x l) (x :: l).
Proof.
  induction l as [|y t IH]; simpl; [reflexivity|]. destruct (Qle_bool x y); [reflexivity|].
  rewrite IH. apply perm_swap.
Qed.

Lemma sortq_perm l : Permutation (sortq l) l.
Proof. induction l as [|x l IH]; simpl; [reflexivity|]. rewrite insq_perm. now constructor. Qed.

Lemma insq_sorted x l : StronglySorted Qle l -> StronglySorted Qle (insq x l).
Proof.
  induction l as [|y t IH]; simpl; intros H.
  - constructor; constructor.
  - inversion H as [|? ? Hs Hall]; subst. destruct (Qle_bool x y) eqn:E.
    + apply Qle_bool_iff in E. constructor; [exact H|]. constructor; [exact E|].
      rewrite Forall_forall in *. intros z Hz. eapply Qle_trans; [exact E | now apply Hall].
    + constructor; [now apply IH|].
      assert (Hyx : (y <= x)%Q).
      { apply Qlt_le_weak, Qnot_le_lt. intros Hc. apply Qle_bool_iff in Hc. congruence. }
      rewrite Forall_forall in *. intros z Hz. apply (Permutation_in _ (insq_perm x t)) in Hz.
      destruct Hz as [<-|Hz]; [exact Hyx | now apply Hall].
Qed.

Lemma sortq_sorted l : StronglySorted Qle (sortq l).
Proof. induction l as [|x l IH]; simpl; [constructor | now apply insq_sorted]. Qed.

Definition count_lt (c : Q) (l : list Q) : nat := length (filter (fun x => qltb x c) l).

Lemma filter_perm {A} (f : A -> bool) l l' : Permutation l l' -> Permutation (filter f l) (filter f l').
Proof.
  induction 1; simpl.
  - reflexivity.
  - destruct (f x); [now constructor | assumption].
  - destruct (f x), (f y); try reflexivity. apply perm_swap.
  - etransitivity; eassumption.
Qed.

Lemma count_lt_perm c l l' : Permutation l l' -> count_lt c l = count_lt c l'.
Proof. intros H. unfold count_lt. apply Permutation_length. now apply filter_perm. Qed.

Lemma count_lt_none c l : Forall (Qle c) l -> count_lt c l = 0.
Proof.
  unfold count_lt. induction l as [|x l IH]; simpl; intros H; [reflexivity|].
  inversion H as [|? ? Hx Hl]; subst. destruct (qltb x c) eqn:E.
  - apply qltb_lt in E. exfalso. exact (Qlt_not_le _ _ E Hx).
  - now apply IH.
Qed.

Lemma sorted_count_le s : StronglySorted Qle s -> forall m c, nth_error s m = Some c -> count_lt c s <= m.
Proof.
  induction 1 as [|a s Hs IH Hall]; intros m c Hm; [destruct m; discriminate|].
  destruct m as [|m]; simpl in Hm.
  - inversion Hm; subst c. unfold count_lt. simpl.
    replace (qltb a a) with false by (symmetry; unfold qltb; apply negb_false_iff, Qle_bool_iff, Qle_refl).
    fold (count_lt a s). now rewrite count_lt_none.
  - specialize (IH m c Hm). unfold count_lt in *. simpl. destruct (qltb a c); simpl; lia.
Qed.

Lemma InA_Qeq_In x l : InA Qeq x l <-> exists y, (x == y)%Q /\ In y l.
Proof. apply InA_alt. Qed.

Lemma sorted_count_eq s : StronglySorted Qle s -> NoDupA Qeq s ->
  forall m c, nth_error s m = Some c -> count_lt c s = m.
Proof.
  induction 1 as [|a s Hs IH Hall]; intros Hnd m c Hm; [destruct m; discriminate|].
  inversion Hnd as [|? ? Hn Hnd']; subst.
  destruct m as [|m]; simpl in Hm.
  - inversion Hm; subst c. unfold count_lt. simpl.
    replace (qltb a a) with false by (symmetry; unfold qltb; apply negb_false_iff, Qle_bool_iff, Qle_refl).
    fold (count_lt a s). now rewrite count_lt_none.
  - specialize (IH Hnd' m c Hm). unfold count_lt in *. simpl.
    assert (Hin : In c s) by (eapply nth_error_In; eassumption).
    assert (Hlt : (a < c)%Q).
    { rewrite Forall_forall in Hall. specialize (Hall c Hin). apply Qle_lt_or_eq in Hall.
      destruct Hall as [Hl|He]; [exact Hl|]. exfalso. apply Hn. apply InA_Qeq_In. now exists c. }
    apply qltb_lt in Hlt. rewrite Hlt. simpl. now rewrite IH.
Qed.

Lemma NoDupA_Qeq_perm l l' : Permutation l l' -> NoDupA Qeq l -> NoDupA Qeq l'.
Proof.
  assert (HinA : forall l l' x, Permutation l l' -> InA Qeq x l -> InA Qeq x l').
  { intros l0 l0' x P H. apply InA_Qeq_In in H. destruct H as [y [E Hy]]. apply InA_Qeq_In.
    exists y. split; [exact E|]. now apply (Permutation_in _ P). }
  intros P. induction P as [|x l0 l0' P IH|x y l0|l0 l1 l2 P1 IH1 P2 IH2]; intros Hnd.
  - constructor.
  - inversion Hnd as [|? ? Hn Hnd']; subst. constructor; [|now apply IH].
    intros Hc. apply (HinA _ _ _ (Permutation_sym P)) in Hc. tauto.
  - inversion Hnd as [|? ? Hn1 H1]; subst. inversion H1 as [|? ? Hn2 H2]; subst.
    constructor; [|constructor; [|assumption]].
    + intros Hc. inversion Hc; subst; [apply Hn1; left; now symmetry | tauto].
    + intros Hc. apply Hn1. now right.
  - auto.
Qed.

Lemma distinct_heights_NoDupA D : distinct_heights D -> NoDupA Qeq (heights D).
Proof.
  induction D as [|r D IH]; intros H; simpl; [constructor|]. constructor.
  - intros Hc. apply InA_Qeq_In in Hc. destruct Hc as [y [E Hy]]. unfold heights in Hy.
    apply in_map_iff in Hy. destruct Hy as [r2 [<- Hr2]]. destruct (In_nth_error _ _ Hr2) as [t2 Ht2].
    apply (H 0 (S t2) r r2); simpl; auto.
  - apply IH. intros t1 t2 r1 r2 H1 H2 Hne. apply (H (S t1) (S t2) r1 r2); simpl; auto.
Qed.

Lemma below_count cut D : below (Some cut) D = count_lt cut (heights D).
Proof.
  unfold below, count_lt, heights. induction D as [|r D IH]; simpl; [reflexivity|].
  destruct (qltb (r_height r) cut); simpl; now rewrite IH.
Qed.

Lemma below_none D : below None D = length D.
Proof. unfold below. induction D as [|r D IH]; simpl; [reflexivity | now rewrite IH]. Qed.

Lemma below_cut_lt c r : below_cut (Some c) r = true <-> (r_height r < c)%Q.
Proof. simpl. apply qltb_lt. Qed.

Lemma below_cut_mono cut r r' : (r_height r' <= r_height r)%Q -> below_cut cut r = true -> below_cut cut r' = true.
Proof.
  destruct cut as [c|]; simpl; [|auto]. intros Hle H. apply qltb_lt. apply qltb_lt in H.
  eapply Qle_lt_trans; eassumption.
Qed.

Lemma below_sorted_le D m c : nth_error (sortq (heights D)) m = Some c -> below (Some c) D <= m.
Proof.
  intros H. rewrite below_count, <- (count_lt_perm c _ _ (sortq_perm (heights D))).
  exact (sorted_count_le _ (sortq_sorted _) m c H).
Qed.

Lemma below_sorted_eq D m c : distinct_heights D -> nth_error (sortq (heights D)) m = Some c -> below (Some c) D = m.
Proof.
  intros Hd H. rewrite below_count, <- (count_lt_perm c _ _ (sortq_perm (heights D))).
  apply (sorted_count_eq _ (sortq_sorted _)); [|exact H].
  apply (NoDupA_Qeq_perm (heights D)); [symmetry; apply sortq_perm | now apply distinct_heights_NoDupA].
Qed.

(** * cut_straight: how many merges are applied *)
Lemma firstn_S_nth {A} (l : list A) t r : nth_error l t = Some r -> firstn (S t) l = firstn t l ++ [r].
Proof.
  revert t. induction l as [|a l IH]; intros [|t] H; simpl in *; try discriminate.
  - now inversion H.
  - f_equal. now apply IH.
Qed.

Lemma below_app cut l1 l2 : below cut (l1 ++ l2) = below cut l1 + below cut l2.
Proof. unfold below. now rewrite filter_app, app_length. Qed.

Lemma replay_count_ge cut : forall rows key st st',
  replay (straight_guard cut) key rows st = Ok st' -> length st <= length st' + below cut rows.
Proof.
  induction rows as [|r rows IH]; intros key st st' Hrun; simpl in Hrun.
  - inversion Hrun; subst. lia.
  - destruct (cut_step (straight_guard cut) key r st) as [st1|] eqn:Hs; [|discriminate].
    specialize (IH _ _ _ Hrun). change (r :: rows) with ([r] ++ rows). rewrite below_app.
    unfold cut_step in Hs.
    destruct (alookup (r_left r) st) as [ci|] eqn:Hi; [|inversion Hs; subst; lia].
    destruct (alookup (r_right r) st) as [cj|] eqn:Hj; [|inversion Hs; subst; lia].
    destruct (straight_guard cut r ci cj) eqn:Hg; [|inversion Hs; subst; lia].
    destruct (alookup (r_right r) (aremove (r_left r) st)) as [cj'|] eqn:Hj'; [|discriminate].
    inversion Hs; subst st1. rewrite app_length in IH. simpl in IH.
    apply aremove_length in Hi. apply aremove_length in Hj'.
    unfold below at 1. simpl. unfold straight_guard in Hg. rewrite Hg. simpl. lia.
Qed.

Lemma hmono_child n D t r c : hmono n D = true -> nth_error D t = Some r -> In c (children r) -> n <= c ->
  exists r', nth_error D (c - n) = Some r' /\ (r_height r' <= r_height r)%Q.
Proof.
  intros Hm Hr Hc Hn. unfold hmono in Hm. rewrite forallb_forall in Hm.
  specialize (Hm r (nth_error_In _ _ Hr)). apply andb_true_iff in Hm. destruct Hm as [H1 H2].
  assert (H : child_height_ok n D (r_height r) c = true) by (destruct Hc as [<-|[<-|[]]]; assumption).
  unfold child_height_ok in H. replace (Nat.ltb c n) with false in H by (symmetry; apply Nat.ltb_ge; lia).
  destruct (nth_error D (c - n)) as [r'|]; [|discriminate]. exists r'. split; [reflexivity|].
  now apply Qle_bool_iff.
Qed.

Section StraightExact.
Context (n : nat) (D : dendrogram) (cut : option Q) (Hv : valid n D = true) (Hm : hmono n D = true).

Definition is_below (x : nat) : Prop :=
  x < n \/ exists r, nth_error D (x - n) = Some r /\ below_cut cut r = true.

Definition sinv (t : nat) (st : cstate) : Prop :=
  cinv n D t st /\
  (forall x, x < n + t -> ~ In x (flat_map children (firstn t D)) -> is_below x -> In x (akeys st)) /\
  length st + below cut (firstn t D) = n /\
  (forall t' r', t' < t -> nth_error D t' = Some r' -> below_cut cut r' = true ->
                 exists k c, In (k, c) st /\ incl (leaves n D (n + t')) c).

Lemma sinv_init : sinv 0 (init_clusters n).
Proof.
  split; [apply cinv_init|]. split; [|split].
  - intros x Hx _ _. unfold init_clusters, akeys. rewrite map_map. simpl. rewrite map_id. apply in_seq. lia.
  - simpl. unfold init_clusters. rewrite map_length, seq_length. unfold below. simpl. lia.
  - intros t' r' Ht'. lia.
Qed.

Lemma sinv_step t r st : nth_error D t = Some r -> sinv t st ->
  exists st', cut_step (straight_guard cut) (n + t) r st = Ok st' /\ sinv (S t) st'.
Proof.
  intros Hr (Hc & HK & HL & HT).
  assert (Hids := valid_ids_lt n D Hv).
  destruct (valid_rows n D Hv) as [_ Hrows]. specialize (Hrows t r Hr).
  destruct Hrows as (Hne & Hil & Hjl & Hiu & Hju).
  assert (Hfs := firstn_S_nth D t r Hr). unfold cut_step, straight_guard.
  destruct (below_cut cut r) eqn:Hg.
  - (* applied *)
    assert (Hbel : forall c, In c (children r) -> is_below c).
    { intros c Hcin. destruct (Nat.lt_ge_cases c n) as [Hlt|Hge]; [now left|]. right.
      destruct (hmono_child n D t r c Hm Hr Hcin Hge) as [r' [Hr' Hle]]. exists r'. split; [exact Hr'|].
      eapply below_cut_mono; eassumption. }
    assert (Hik : In (r_left r) (akeys st)) by (apply HK; [lia | exact Hiu | apply Hbel; now left]).
    assert (Hjk : In (r_right r) (akeys st)) by (apply HK; [lia | exact Hju | apply Hbel; right; now left]).
    destruct (In_key_alookup _ _ Hik) as [ci Hi]. destruct (In_key_alookup _ _ Hjk) as [cj Hj].
    rewrite Hi, Hj. rewrite alookup_aremove_neq by auto. rewrite Hj.
    eexists. split; [reflexivity|]. unfold sinv. rewrite Hfs.
    assert (Hstep : cut_step (straight_guard cut) (n + t) r st =
                    Ok (aremove (r_right r) (aremove (r_left r) st) ++ [(n + t, ci ++ cj)])).
    { unfold cut_step, straight_guard. rewrite Hi, Hj, Hg. rewrite alookup_aremove_neq by auto. now rewrite Hj. }
    assert (Hc' := cut_step_cinv _ n D t r st _ Hids Hr Hc Hstep).
    destruct Hc as (Hnd & Hcl & _).
    split; [exact Hc'|]. split; [|split].
    + intros x Hx Hnot Hb. rewrite flat_map_app, in_app_iff in Hnot. simpl in Hnot.
      rewrite akeys_app, in_app_iff. simpl.
      destruct (Nat.eq_dec x (n + t)) as [->|Hxn]; [right; now left|]. left.
      apply akeys_aremove_neq; [apply akeys_aremove_neq|].
      * apply HK; [lia | tauto | exact Hb].
      * intros ->. apply Hnot. auto.
      * intros ->. apply Hnot. auto.
    + rewrite app_length, below_app. simpl. unfold below at 2. simpl. rewrite Hg. simpl.
      apply aremove_length in Hi. assert (Hj2 : alookup (r_right r) (aremove (r_left r) st) = Some cj).
      { rewrite alookup_aremove_neq by auto. exact Hj. }
      apply aremove_length in Hj2. lia.
    + intros t' r' Ht' Hr' Hg'. destruct (Nat.eq_dec t' t) as [->|Hne'].
      * exists (n + t), (ci ++ cj). split; [apply in_app_iff; right; now left|].
        rewrite (leaves_node n D t r Hids Hr).
        destruct (Hcl _ _ (alookup_In _ _ _ Hi)) as (_ & -> & _).
        destruct (Hcl _ _ (alookup_In _ _ _ Hj)) as (_ & -> & _). apply incl_refl.
      * destruct (HT t' r' ltac:(lia) Hr' Hg') as (k & c & Hin & Hincl).
        destruct (Nat.eq_dec k (r_left r)) as [->|Hk1].
        { exists (n + t), (ci ++ cj). split; [apply in_app_iff; right; now left|].
          assert (c = ci) by (apply (In_alookup _ _ _ Hnd) in Hin; congruence). subst c.
          now apply incl_appl. }
        destruct (Nat.eq_dec k (r_right r)) as [->|Hk2].
        { exists (n + t), (ci ++ cj). split; [apply in_app_iff; right; now left|].
          assert (c = cj) by (apply (In_alookup _ _ _ Hnd) in Hin; congruence). subst c.
          now apply incl_appr. }
        exists k, c. split; [|exact Hincl]. apply in_app_iff. left.
        apply aremove_In_neq; [apply aremove_In_neq|]; assumption.
  - (* not applied *)
    exists st. split.
    { destruct (alookup (r_left r) st); [|reflexivity]. destruct (alookup (r_right r) st); reflexivity. }
    unfold sinv. rewrite Hfs.
    assert (Hstep : cut_step (straight_guard cut) (n + t) r st = Ok st).
    { unfold cut_step, straight_guard. rewrite Hg.
      destruct (alookup (r_left r) st); [|reflexivity]. destruct (alookup (r_right r) st); reflexivity. }
    split; [exact (cut_step_cinv _ n D t r st _ Hids Hr Hc Hstep)|]. split; [|split].
    + intros x Hx Hnot Hb. rewrite flat_map_app, in_app_iff in Hnot.
      destruct (Nat.eq_dec x (n + t)) as [->|Hxn].
      * exfalso. destruct Hb as [Hb|[r' [Hr' Hg']]]; [lia|].
        replace (n + t - n) with t in Hr' by lia. congruence.
      * apply HK; [lia | tauto | exact Hb].
    + rewrite below_app. unfold below at 2. simpl. rewrite Hg. simpl. lia.
    + intros t' r' Ht' Hr' Hg'. destruct (Nat.eq_dec t' t) as [->|Hne']; [congruence|].
      apply (HT t' r'); [lia | assumption | assumption].
Qed.

Lemma sinv_replay : forall rows done st, D = done ++ rows -> sinv (length done) st ->
  exists st', replay (straight_guard cut) (n + length done) rows st = Ok st' /\ sinv (length D) st'.
Proof.
  induction rows as [|r rows IH]; intros done st HD Hinv.
  - exists st. split; [reflexivity|]. rewrite HD, app_nil_r. exact Hinv.
  - assert (Hr : nth_error D (length done) = Some r) by (rewrite HD; apply nth_error_app_length).
    destruct (sinv_step (length done) r st Hr Hinv) as [st1 [Hs Hinv1]].
    destruct (IH (done ++ [r]) st1) as [st' [Hrun Hfin]].
    + now rewrite <- app_assoc.
    + rewrite app_length. simpl. now rewrite Nat.add_1_r.
    + exists st'. split; [|exact Hfin]. simpl. rewrite Hs.
      rewrite app_length in Hrun. simpl in Hrun. now rewrite Nat.add_1_r, <- plus_n_Sm in Hrun.
Qed.
End StraightExact.

Lemma qmax_ge_r a b : (b <= qmax a b)%Q.
Proof.
  unfold qmax. destruct (Qle_bool a b) eqn:E; [apply Qle_refl|].
  apply Qlt_le_weak, Qnot_le_lt. intros Hc. apply Qle_bool_iff in Hc. congruence.
Qed.

Lemma resolve_inv n nc th k : resolve_n_clusters n nc th = Ok k ->
  k = match nc with Some k => k | None => match th with None => 2 | Some _ => n end end /\
  match nc with Some k => 1 <= k <= n | None => True end.
Proof.
  unfold resolve_n_clusters. destruct nc as [k0|].
  - unfold check_n_clusters. destruct (Nat.ltb n k0) eqn:E1; [discriminate|].
    destruct (Nat.ltb k0 1) eqn:E2; [discriminate|]. apply Nat.ltb_ge in E1, E2.
    intros H. inversion H; subst. split; [reflexivity|lia].
  - destruct th; intros H; inversion H; auto.
Qed.

Lemma cut_height_inv D nc th cut : cut_height D nc th = Ok cut ->
  exists k, resolve_n_clusters (S (length D)) nc th = Ok k /\
    ((k = 1 /\ cut = None) \/
     (k <> 1 /\ exists c, nth_error (sortq (heights D)) (S (length D) - k) = Some c /\
                          cut = Some (match th with None => c | Some t => qmax c t end))).
Proof.
  unfold cut_height. destruct (resolve_n_clusters (S (length D)) nc th) as [k|] eqn:Ek; [|discriminate].
  intros H. exists k. split; [reflexivity|]. destruct (Nat.eqb k 1) eqn:E1.
  - apply Nat.eqb_eq in E1. left. now inversion H.
  - apply Nat.eqb_neq in E1. right. split; [exact E1|].
    destruct (nth_error (sortq (heights D)) (S (length D) - k)) as [c|]; [|discriminate].
    exists c. split; [reflexivity|]. now inversion H.
Qed.

Lemma pstate_length argsort st sort : argsort_ok argsort -> length (pstate argsort st sort) = length st.
Proof. intros H. apply Permutation_length. now apply pstate_perm. Qed.

(** With threshold = None the cut leaves at most n - n_clusters merges strictly below it. *)
Lemma cut_height_below n D nc cut : S (length D) = n ->
  cut_height D (Some nc) None = Ok cut -> 1 <= nc <= n /\ below cut D <= n - nc.
Proof.
  intros Hlen H. apply cut_height_inv in H. destruct H as (k & Hk & Hc). rewrite Hlen in *.
  apply resolve_inv in Hk. destruct Hk as [-> Hk]. split; [exact Hk|].
  destruct Hc as [[-> ->]|[_ (c & Hc & ->)]].
  - rewrite below_none. lia.
  - now apply below_sorted_le.
Qed.

Lemma cut_straight_count_ge argsort n D0 D nc sort ret labels od :
  cut_input D0 ret = Ok D -> valid n D = true -> argsort_ok argsort ->
  cut_straight argsort D0 (Some nc) None sort ret = Ok (labels, od) ->
  nc <= num_clusters labels.
Proof.
  intros Hin Hv Hargs Hcut. apply cut_straight_inv in Hcut. destruct Hcut as (D' & st & Hst & Hlab).
  apply straight_state_inv in Hst. destruct Hst as (Hin' & cut & Hcut & Hrep).
  rewrite Hin in Hin'. inversion Hin'; subst D'. destruct (valid_rows n D Hv) as [Hlen _]. rewrite Hlen in *.
  destruct (cut_generic _ argsort n D st sort ret labels od Hv Hargs Hrep Hlab) as (_ & _ & _ & Hsub & _).
  rewrite (subtree_partition_num _ _ _ _ Hsub). unfold akeys. rewrite map_length, pstate_length by assumption.
  destruct (cut_height_below n D nc cut Hlen Hcut) as [Hk Hb].
  apply replay_count_ge in Hrep.
  unfold init_clusters in Hrep. rewrite map_length, seq_length in Hrep. lia.
Qed.

Lemma cut_straight_exact argsort n D0 D nc th sort ret labels od cut :
  cut_input D0 ret = Ok D -> valid n D = true -> hmono n D = true -> argsort_ok argsort ->
  cut_height D nc th = Ok cut ->
  cut_straight argsort D0 nc th sort ret = Ok (labels, od) ->
  num_clusters labels + below cut D = n /\
  (forall t r, nth_error D t = Some r -> below_cut cut r = true ->
     forall u v, In u (leaves n D (n + t)) -> In v (leaves n D (n + t)) -> nth u labels 0 = nth v labels 0).
Proof.
  intros Hin Hv Hm Hargs Hcut Hres. apply cut_straight_inv in Hres. destruct Hres as (D' & st & Hst & Hlab).
  apply straight_state_inv in Hst. destruct Hst as (Hin' & cut' & Hcut' & Hrep).
  rewrite Hin in Hin'. inversion Hin'; subst D'. rewrite Hcut in Hcut'. inversion Hcut'; subst cut'.
  destruct (valid_rows n D Hv) as [Hlen _]. rewrite Hlen in *.
  destruct (sinv_replay n D cut Hv Hm D [] (init_clusters n) eq_refl (sinv_init n D cut)) as [st' [Hrep' Hfin]].
  simpl in Hrep'. rewrite Nat.add_0_r, Hrep in Hrep'. inversion Hrep'; subst st'.
  destruct Hfin as (Hc & _ & HL & HT). rewrite firstn_all in HL.
  destruct (cut_generic _ argsort n D st sort ret labels od Hv Hargs Hrep Hlab) as (Hcp & P & El & Hsub & _).
  split.
  - rewrite (subtree_partition_num _ _ _ _ Hsub). unfold akeys. rewrite map_length, pstate_length by assumption. exact HL.
  - intros t r Hr Hlt u v Hu Hv'.
    assert (Ht : t < length D) by (apply nth_error_Some; congruence).
    destruct (HT t r Ht Hr Hlt) as (k & c & Hkc & Hincl).
    symmetry in P. apply (Permutation_in _ P) in Hkc. destruct (In_nth _ _ (0, []) Hkc) as [l [Hl Enth]].
    destruct (cpart_labels n D _ Hcp) as (_ & _ & H3 & _). rewrite <- El in H3.
    destruct (cpart_clusters n D _ Hcp) as (_ & _ & Hlt' & Hleaves).
    destruct Hcp as (_ & Hcl & _). destruct (Hcl k c Hkc) as [Ec _].
    assert (Hw : forall w, In w (leaves n D (n + t)) -> nth w labels 0 = l).
    { intros w Hw. assert (Hwc : In w c) by now apply Hincl.
      assert (Hwn : w < n).
      { apply (Hlt' l w Hl). destruct (Hleaves l Hl) as [-> _]. rewrite Enth. simpl. now rewrite <- Ec. }
      apply H3; [exact Hl | exact Hwn |]. rewrite Enth. simpl. now rewrite <- Ec. }
    now rewrite (Hw u Hu), (Hw v Hv').
Qed.

Lemma replay_total guard : forall rows key st,
  (forall r, In r rows -> r_left r <> r_right r) -> exists st', replay guard key rows st = Ok st'.
Proof.
  induction rows as [|r rows IH]; intros key st Hne; simpl; [now exists st|].
  assert (Hs : exists st1, cut_step guard key r st = Ok st1).
  { unfold cut_step. destruct (alookup (r_left r) st) as [ci|]; [|now eexists].
    destruct (alookup (r_right r) st) as [cj|] eqn:Hj; [|now eexists].
    destruct (guard r ci cj); [|now eexists].
    rewrite alookup_aremove_neq by (intros E; apply (Hne r); [now left | now symmetry]). rewrite Hj. now eexists. }
  destruct Hs as [st1 Hs]. rewrite Hs. apply IH. intros r' Hr'. apply Hne. now right.
Qed.

Lemma sortq_length l : length (sortq l) = length l.
Proof. apply Permutation_length, sortq_perm. Qed.

(** Every admissible call (n_clusters in 1..n, any threshold) returns a labelling. *)
Lemma cut_straight_total argsort n D nc th sort :
  valid n D = true -> 2 <= n ->
  match nc with Some k => 1 <= k <= n | None => True end ->
  exists labels, cut_straight argsort D nc th sort false = Ok (labels, None).
Proof.
  intros Hv Hn Hnc. destruct (valid_rows n D Hv) as [Hlen Hrows].
  unfold cut_straight, straight_state, straight_state_with, cut_input. simpl. rewrite Hlen.
  assert (Hcut : exists cut, cut_height D nc th = Ok cut).
  { unfold cut_height. rewrite Hlen.
    set (k := match nc with Some k => k | None => match th with None => 2 | Some _ => n end end).
    assert (Hk : resolve_n_clusters n nc th = Ok k).
    { unfold k, resolve_n_clusters. destruct nc as [k0|]; [|now destruct th]. unfold check_n_clusters.
      replace (Nat.ltb n k0) with false by (symmetry; apply Nat.ltb_ge; lia).
      now replace (Nat.ltb k0 1) with false by (symmetry; apply Nat.ltb_ge; lia). }
    rewrite Hk. destruct (Nat.eqb k 1) eqn:E1; [now eexists|]. apply Nat.eqb_neq in E1.
    assert (Hlt : n - k < length (sortq (heights D))).
    { rewrite sortq_length. unfold heights. rewrite map_length. unfold k in *. destruct nc; [lia|]. destruct th; lia. }
    apply nth_error_Some in Hlt. destruct (nth_error (sortq (heights D)) (n - k)) as [c|]; [|congruence].
    eexists. reflexivity. }
  destruct Hcut as [cut Hcut]. rewrite Hcut.
  destruct (replay_total (straight_guard cut) D n (init_clusters n)) as [st Hst].
  { intros r Hr. destruct (In_nth_error _ _ Hr) as [t Ht]. destruct (Hrows t r Ht) as [H _]. exact H. }
  rewrite Hst. unfold get_labels. eexists. reflexivity.
Qed.

(** D6 (before fix 130034d8): n_clusters = 1 raised IndexError on every dendrogram
    (index n - 1 of the n - 1 sorted heights). *)
Lemma legacy_cut_straight_one_cluster_fails argsort D th sort :
  legacy_cut_straight argsort D (Some 1) th sort false = Err IndexError.
Proof.
  unfold legacy_cut_straight, straight_state_with, cut_input. simpl.
  unfold legacy_cut_height, resolve_n_clusters, check_n_clusters. simpl.
  replace (length D - 0) with (length D) by lia.
  assert (H : nth_error (sortq (heights D)) (length D) = None).
  { apply nth_error_None. rewrite sortq_length. unfold heights. now rewrite map_length. }
  now rewrite H.
Qed.

Lemma cut_straight_sorted argsort n D0 D nc th ret labels od :
  cut_input D0 ret = Ok D -> valid n D = true -> argsort_ok argsort ->
  cut_straight argsort D0 nc th true ret = Ok (labels, od) ->
  sizes_sorted labels (num_clusters labels).
Proof.
  intros Hin Hv Hargs Hcut.
  destruct (cut_straight_subtrees argsort n D0 D nc th true ret labels od Hin Hv Hargs Hcut) as [ids [Hsub Hs]].
  rewrite (subtree_partition_num _ _ _ _ Hsub). now apply Hs.
Qed.

Lemma cut_balanced_sorted argsort n D m ret labels od :
  valid n D = true -> argsort_ok argsort ->
  cut_balanced argsort D m true ret = Ok (labels, od) ->
  sizes_sorted labels (num_clusters labels).
Proof.
  intros Hv Hargs Hcut.
  destruct (cut_balanced_subtrees argsort n D m true ret labels od Hv Hargs Hcut) as [ids [Hsub [Hs _]]].
  rewrite (subtree_partition_num _ _ _ _ Hsub). now apply Hs.
Qed.

Lemma cut_straight_result_height argsort D0 D nc th sort ret labels od :
  cut_input D0 ret = Ok D -> cut_straight argsort D0 nc th sort ret = Ok (labels, od) ->
  exists cut, cut_height D nc th = Ok cut.
Proof.
  intros Hin Hcut. apply cut_straight_inv in Hcut. destruct Hcut as (D' & st & Hst & _).
  apply straight_state_inv in Hst. destruct Hst as (Hin' & cut & Hc & _).
  rewrite Hin in Hin'. inversion Hin'; subst. now exists cut.
Qed.

Lemma cut_straight_count_distinct argsort n D0 D nc sort ret labels od :
  cut_input D0 ret = Ok D -> valid n D = true -> hmono n D = true -> distinct_heights D ->
  argsort_ok argsort ->
  cut_straight argsort D0 (Some nc) None sort ret = Ok (labels, od) ->
  num_clusters labels = nc.
Proof.
  intros Hin Hv Hm Hd Hargs Hcut.
  destruct (cut_straight_result_height _ _ _ _ _ _ _ _ _ Hin Hcut) as [cut Hc].
  destruct (cut_straight_exact argsort n D0 D (Some nc) None sort ret labels od cut Hin Hv Hm Hargs Hc Hcut) as [Hnum _].
  destruct (valid_rows n D Hv) as [Hlen _].
  apply cut_height_inv in Hc. destruct Hc as (k & Hk & Hc). rewrite Hlen in *.
  apply resolve_inv in Hk. destruct Hk as [-> Hk].
  destruct Hc as [[-> ->]|[_ (c & Hc & ->)]].
  - rewrite below_none in Hnum. lia.
  - rewrite (below_sorted_eq D _ c Hd Hc) in Hnum. lia.
Qed.

Lemma cut_straight_threshold argsort n D0 D nc theta sort ret labels od :
  cut_input D0 ret = Ok D -> valid n D = true -> hmono n D = true -> argsort_ok argsort ->
  cut_straight argsort D0 nc (Some theta) sort ret = Ok (labels, od) ->
  forall t r, nth_error D t = Some r -> (r_height r < theta)%Q ->
    forall u v, In u (leaves n D (n + t)) -> In v (leaves n D (n + t)) -> nth u labels 0 = nth v labels 0.
Proof.
  intros Hin Hv Hm Hargs Hcut t r Hr Hlt.
  destruct (cut_straight_result_height _ _ _ _ _ _ _ _ _ Hin Hcut) as [cut Hc].
  destruct (cut_straight_exact argsort n D0 D nc (Some theta) sort ret labels od cut Hin Hv Hm Hargs Hc Hcut) as [_ H].
  apply (H t r Hr). apply cut_height_inv in Hc. destruct Hc as (k & _ & [[_ ->]|[_ (c & _ & ->)]]).
  - reflexivity.
  - apply below_cut_lt. eapply Qlt_le_trans; [exact Hlt | apply qmax_ge_r].
Qed.

(** * The stable argsort satisfies the contract *)
Lemma ins_z_perm x l : Permutation (ins_z x l) (x :: l).
Proof.
  induction l as [|y t IH]; simpl; [reflexivity|]. destruct (snd x <=? snd y)%Z; [reflexivity|].
  rewrite IH. apply perm_swap.
Qed.

Lemma sortz_perm l : Permutation (fold_right ins_z [] l) l.
Proof. induction l as [|x l IH]; simpl; [reflexivity|]. rewrite ins_z_perm. now constructor. Qed.

Definition zle2 (p q : nat * Z) : Prop := (snd p <= snd q)%Z.

Lemma ins_z_sorted x l : StronglySorted zle2 l -> StronglySorted zle2 (ins_z x l).
Proof.
  induction l as [|y t IH]; simpl; intros H.
  - constructor; constructor.
  - inversion H as [|? ? Hs Hall]; subst. destruct (snd x <=? snd y)%Z eqn:E.
    + apply Z.leb_le in E. constructor; [exact H|]. constructor; [exact E|].
      rewrite Forall_forall in *. intros z Hz. unfold zle2 in *. specialize (Hall z Hz). lia.
    + apply Z.leb_gt in E. constructor; [now apply IH|].
      rewrite Forall_forall in *. intros z Hz. apply (Permutation_in _ (ins_z_perm x t)) in Hz.
      destruct Hz as [<-|Hz]; [unfold zle2; lia | now apply Hall].
Qed.

Lemma sortz_sorted l : StronglySorted zle2 (fold_right ins_z [] l).
Proof. induction l as [|x l IH]; simpl; [constructor | now apply ins_z_sorted]. Qed.

Lemma StronglySorted_nth {A} (R : A -> A -> Prop) l d :
  (forall x, R x x) -> StronglySorted R l -> forall a b, a <= b -> b < length l -> R (nth a l d) (nth b l d).
Proof.
  intros Hrefl. induction 1 as [|x l Hs IH Hall]; intros a b Hab Hb; simpl in Hb; [lia|].
  destruct a as [|a], b as [|b]; simpl; try lia.
  - apply Hrefl.
  - rewrite Forall_forall in Hall. apply Hall, nth_In. lia.
  - apply IH; lia.
Qed.

Lemma map_fst_combine {A B} (a : list A) (b : list B) : length a = length b -> map fst (combine a b) = a.
Proof.
  revert b. induction a as [|x a IH]; intros [|y b]; simpl; intros E; try discriminate; [reflexivity|].
  f_equal. apply IH. lia.
Qed.

Lemma combine_seq_In (l : list Z) s i z : In (i, z) (combine (seq s (length l)) l) -> nth (i - s) l 0%Z = z /\ s <= i.
Proof.
  revert s. induction l as [|y l IH]; intros s H; simpl in H; [tauto|].
  destruct H as [H|H].
  - inversion H; subst. now rewrite Nat.sub_diag.
  - apply IH in H. destruct H as [H1 H2]. split; [|lia].
    replace (i - s) with (S (i - S s)) by lia. exact H1.
Qed.

Lemma stable_argsort_ok : argsort_ok stable_argsort.
Proof.
  intros l. unfold stable_argsort. set (sp := fold_right ins_z [] (combine (seq 0 (length l)) l)).
  assert (P : Permutation sp (combine (seq 0 (length l)) l)) by apply sortz_perm.
  assert (Hlen : length sp = length l).
  { rewrite (Permutation_length P), combine_length, seq_length. lia. }
  split.
  - assert (E := map_fst_combine (seq 0 (length l)) l ltac:(now rewrite seq_length)).
    rewrite <- E. now apply Permutation_map.
  - intros a b Hab Hb.
    assert (Hnth : forall i, i < length l -> nth (nth i (map fst sp) 0) l 0%Z = snd (nth i sp (0, 0%Z))).
    { intros i Hi. change 0 with (fst (0, 0%Z)) at 1. rewrite map_nth.
      assert (Hin : In (nth i sp (0, 0%Z)) sp) by (apply nth_In; lia).
      apply (Permutation_in _ P) in Hin. destruct (nth i sp (0, 0%Z)) as [j z]. simpl.
      apply combine_seq_In in Hin. destruct Hin as [Hin _]. now rewrite Nat.sub_0_r in Hin. }
    rewrite (Hnth a) by lia. rewrite (Hnth b) by lia.
    apply (StronglySorted_nth zle2 sp (0, 0%Z)); [intros x; unfold zle2; lia | apply sortz_sorted | exact Hab | lia].
Qed.

(** * More about validity: sums, sizes, and a static criterion *)
Lemma valid_run_sum : forall rows next live live',
  valid_run next rows live = Some live' ->
  sumn (map snd live') = sumn (map snd live) /\ length live' + length rows = length live.
Proof.
  induction rows as [|r rows IH]; intros next live live' H; simpl in H.
  - inversion H; subst. simpl. lia.
  - destruct r as [[[i j] h] s].
    destruct (alookup i live) as [si|] eqn:Hi; [|discriminate].
    destruct (alookup j live) as [sj|] eqn:Hj; [|discriminate].
    destruct (negb (Nat.eqb i j) && Nat.eqb s (si + sj)) eqn:Hc; [|discriminate].
    apply andb_true_iff in Hc. destruct Hc as [Hne Hs]. apply negb_true_iff, Nat.eqb_neq in Hne.
    apply Nat.eqb_eq in Hs. apply IH in H. destruct H as [H1 H2].
    assert (Hj2 : alookup j (aremove i live) = Some sj) by (rewrite alookup_aremove_neq by auto; exact Hj).
    assert (P1 := aremove_perm _ _ _ Hi). assert (P2 := aremove_perm _ _ _ Hj2).
    assert (S1 : sumn (map snd live) = si + sumn (map snd (aremove i live))).
    { apply (Permutation_map snd) in P1. simpl in P1. unfold sumn.
      rewrite (fold_right_permutation_sum _ _ P1). reflexivity. }
    assert (S2 : sumn (map snd (aremove i live)) = sj + sumn (map snd (aremove j (aremove i live)))).
    { apply (Permutation_map snd) in P2. simpl in P2. unfold sumn.
      rewrite (fold_right_permutation_sum _ _ P2). reflexivity. }
    rewrite map_app in H1. unfold sumn in *. rewrite fold_right_app in H1. simpl in H1.
    rewrite app_length in H2. simpl in *.
    apply aremove_length in Hi. apply aremove_length in Hj2.
    rewrite (fold_right_add_acc _ (s + 0)) in H1. lia.
Qed.

Definition wsz (k : nat) (ws : list nat) (D : dendrogram) (x : nat) : nat :=
  if Nat.ltb x k then nth x ws 0 else r_size (nth (x - k) D drow0).

Lemma combine_seq_In_gen {A} (l : list A) d s i z :
  In (i, z) (combine (seq s (length l)) l) -> nth (i - s) l d = z /\ s <= i < s + length l.
Proof.
  revert s. induction l as [|y l IH]; intros s H; simpl in H; [tauto|].
  destruct H as [H|H].
  - inversion H; subst. rewrite Nat.sub_diag. simpl. split; [reflexivity|lia].
  - apply IH in H. destruct H as [H1 H2]. simpl. split; [|lia].
    replace (i - s) with (S (i - S s)) by lia. exact H1.
Qed.

Lemma init_live_sizes ws D x s : In (x, s) (init_live ws) -> s = wsz (length ws) ws D x.
Proof.
  unfold init_live. intros H. apply (combine_seq_In_gen ws 0) in H. destruct H as [H1 H2].
  unfold wsz. replace (Nat.ltb x (length ws)) with true by (symmetry; apply Nat.ltb_lt; lia).
  now rewrite Nat.sub_0_r in H1.
Qed.

Lemma nth_error_nth' {A} (l : list A) t r d : nth_error l t = Some r -> nth t l d = r.
Proof. intros H. now apply nth_error_nth. Qed.

Lemma valid_run_sizes k ws D : forall rows done live live',
  D = done ++ rows ->
  (forall x s, In (x, s) live -> s = wsz k ws D x) ->
  valid_run (k + length done) rows live = Some live' ->
  (forall t r, length done <= t -> nth_error D t = Some r ->
               r_size r = wsz k ws D (r_left r) + wsz k ws D (r_right r)) /\
  (forall x s, In (x, s) live' -> s = wsz k ws D x).
Proof.
  induction rows as [|r rows IH]; intros done live live' HD Hsz Hrun.
  - simpl in Hrun. inversion Hrun; subst. split; [|assumption].
    intros t r Ht Hr. rewrite app_nil_r in Hr. assert (t < length done) by (apply nth_error_Some; congruence). lia.
  - simpl in Hrun. destruct r as [[[i j] h] s] eqn:Er.
    destruct (alookup i live) as [si|] eqn:Hi; [|discriminate].
    destruct (alookup j live) as [sj|] eqn:Hj; [|discriminate].
    destruct (negb (Nat.eqb i j) && Nat.eqb s (si + sj)) eqn:Hc; [|discriminate].
    apply andb_true_iff in Hc. destruct Hc as [_ Hs]. apply Nat.eqb_eq in Hs.
    assert (Hr : nth_error D (length done) = Some r) by (rewrite HD, Er; apply nth_error_app_length).
    specialize (IH (done ++ [r]) (aremove j (aremove i live) ++ [(k + length done, s)]) live').
    rewrite app_length in IH. simpl in IH. replace (k + (length done + 1)) with (S (k + length done)) in IH by lia.
    rewrite <- app_assoc, Er in IH. simpl in IH.
    destruct (IH HD) as [IH1 IH2]; [|exact Hrun|].
    + intros x s' Hin. apply in_app_iff in Hin. destruct Hin as [Hin|[Hin|[]]].
      * apply Hsz. now apply aremove_In, aremove_In in Hin.
      * inversion Hin; subst x s'. unfold wsz.
        replace (Nat.ltb (k + length done) k) with false by (symmetry; apply Nat.ltb_ge; lia).
        replace (k + length done - k) with (length done) by lia.
        rewrite (nth_error_nth' _ _ _ drow0 Hr), Er. reflexivity.
    + split; [|exact IH2]. intros t r' Ht Hr'.
      destruct (Nat.eq_dec t (length done)) as [->|Hneq]; [|apply (IH1 t r'); [lia|assumption]].
      rewrite Hr in Hr'. inversion Hr'; subst r'. rewrite Er. unfold r_size, r_left, r_right. simpl.
      rewrite <- (Hsz i si (alookup_In _ _ _ Hi)), <- (Hsz j sj (alookup_In _ _ _ Hj)). exact Hs.
Qed.

Lemma validw_sizes ws D : validw ws D = true ->
  forall t r, nth_error D t = Some r ->
    r_size r = wsz (length ws) ws D (r_left r) + wsz (length ws) ws D (r_right r).
Proof.
  unfold validw. intros H. apply andb_true_iff in H. destruct H as [H _].
  apply andb_true_iff in H. destruct H as [_ Hrun].
  destruct (valid_run (length ws) D (init_live ws)) as [live'|] eqn:E; [|discriminate].
  destruct (valid_run_sizes (length ws) ws D D [] (init_live ws) live' eq_refl) as [H1 _].
  - intros x s. apply init_live_sizes.
  - simpl. now rewrite Nat.add_0_r.
  - intros t r Hr. apply (H1 t r); [simpl; lia | exact Hr].
Qed.

Lemma static_run k ws D :
  (forall t r, nth_error D t = Some r ->
     row_ok k D t r /\ r_size r = wsz k ws D (r_left r) + wsz k ws D (r_right r)) ->
  forall rows done live,
  D = done ++ rows -> linv k done live -> (forall x s, In (x, s) live -> s = wsz k ws D x) ->
  exists live', valid_run (k + length done) rows live = Some live'.
Proof.
  intros Hrows. induction rows as [|r rows IH]; intros done live HD Hinv Hsz; simpl; [now eexists|].
  assert (Hr : nth_error D (length done) = Some r) by (rewrite HD; apply nth_error_app_length).
  destruct (Hrows _ _ Hr) as [(Hne & Hil & Hjl & Hiu & Hju) Hs].
  rewrite HD, firstn_app_length in Hiu, Hju.
  destruct r as [[[i j] h] s] eqn:Er. unfold r_left, r_right, r_size in *. simpl in *.
  destruct Hinv as (Hnd & Hkeys & Hch).
  assert (Hik : In i (akeys live)) by (apply Hkeys; split; assumption).
  assert (Hjk : In j (akeys live)) by (apply Hkeys; split; assumption).
  destruct (In_key_alookup _ _ Hik) as [si Hi]. destruct (In_key_alookup _ _ Hjk) as [sj Hj].
  rewrite Hi, Hj.
  assert (Esi := Hsz _ _ (alookup_In _ _ _ Hi)). assert (Esj := Hsz _ _ (alookup_In _ _ _ Hj)).
  replace (negb (Nat.eqb i j)) with true by (symmetry; apply negb_true_iff, Nat.eqb_neq; exact Hne).
  replace (Nat.eqb s (si + sj)) with true by (symmetry; apply Nat.eqb_eq; lia). simpl.
  assert (Hstep := valid_run_step k done live r (conj Hnd (conj Hkeys Hch)) si sj).
  rewrite Er in Hstep. unfold r_left, r_right in Hstep. simpl in Hstep. specialize (Hstep Hi Hj Hne s).
  destruct (IH (done ++ [(i, j, h, s)]) (aremove j (aremove i live) ++ [(k + length done, s)])) as [live' Hl].
  - rewrite <- app_assoc. exact HD.
  - exact Hstep.
  - intros x s' Hin. apply in_app_iff in Hin. destruct Hin as [Hin|[Hin|[]]].
    + apply Hsz. now apply aremove_In, aremove_In in Hin.
    + inversion Hin; subst x s'. unfold wsz.
      replace (Nat.ltb (k + length done) k) with false by (symmetry; apply Nat.ltb_ge; lia).
      replace (k + length done - k) with (length done) by lia.
      now rewrite (nth_error_nth' _ _ _ drow0 Hr).
  - exists live'. rewrite app_length in Hl. simpl in Hl. now rewrite Nat.add_1_r, <- plus_n_Sm in Hl.
Qed.

Lemma valid_run_app : forall r1 r2 next live,
  valid_run next (r1 ++ r2) live =
  match valid_run next r1 live with Some l1 => valid_run (next + length r1) r2 l1 | None => None end.
Proof.
  induction r1 as [|r r1 IH]; intros r2 next live; simpl; [now rewrite Nat.add_0_r|].
  destruct r as [[[i j] h] s]. destruct (alookup i live); [|reflexivity]. destruct (alookup j live); [|reflexivity].
  destruct (negb (Nat.eqb i j) && Nat.eqb s (n + n0)); [|reflexivity].
  rewrite IH. now rewrite <- plus_n_Sm.
Qed.

Lemma map_snd_combine {A B} (a : list A) (b : list B) : length a = length b -> map snd (combine a b) = b.
Proof.
  revert b. induction a as [|x a IH]; intros [|y b]; simpl; intros E; try discriminate; [reflexivity|].
  f_equal. apply IH. lia.
Qed.

(** Static criterion: rows that are locally well-formed with consistent sizes make a valid dendrogram. *)
Lemma static_validw ws D :
  S (length D) = length ws ->
  (forall t r, nth_error D t = Some r ->
     row_ok (length ws) D t r /\
     r_size r = wsz (length ws) ws D (r_left r) + wsz (length ws) ws D (r_right r)) ->
  validw ws D = true.
Proof.
  intros Hlen Hrows. unfold validw. rewrite Hlen, Nat.eqb_refl. simpl.
  destruct (static_run (length ws) ws D Hrows D [] (init_live ws) eq_refl (linv_init ws)) as [live' Hrun].
  { intros x s. apply init_live_sizes. }
  simpl in Hrun. rewrite Nat.add_0_r in Hrun. rewrite Hrun. simpl.
  destruct D as [|r0 D0] eqn:ED; [reflexivity|]. rewrite <- ED in *.
  assert (Hne : D <> []) by (rewrite ED; discriminate).
  destruct (exists_last Hne) as [D1 [r Er]].
  assert (Hfull := Hrun). rewrite Er in Hrun. rewrite Er at 1. rewrite last_last.
  rewrite valid_run_app in Hrun.
  destruct (valid_run (length ws) D1 (init_live ws)) as [l1|] eqn:E1; [|discriminate].
  assert (Hlast : exists l0, live' = l0 ++ [(length ws + length D1, r_size r)]).
  { simpl in Hrun. destruct r as [[[i j] h] s]. destruct (alookup i l1) as [si|]; [|discriminate].
    destruct (alookup j l1) as [sj|]; [|discriminate].
    destruct (negb (Nat.eqb i j) && Nat.eqb s (si + sj)); [|discriminate]. inversion Hrun. eexists. reflexivity. }
  destruct Hlast as [l0 ->]. apply valid_run_sum in Hfull. destruct Hfull as [S1 S2].
  unfold init_live in S1, S2. rewrite map_snd_combine in S1 by now rewrite seq_length.
  rewrite combine_length, seq_length, Nat.min_id, <- Hlen, app_length in S2. simpl in S2.
  assert (Hl0 : l0 = []) by (destruct l0; [reflexivity | simpl in S2; lia]).
  subst l0. simpl in S1. apply Nat.eqb_eq. lia.
Qed.

(** * aggregate_dendrogram *)
Definition member (ids : list nat) (y : nat) : bool := memn y ids.
Definition rank (ids : list nat) (x : nat) : nat := length (filter (member ids) (seq 0 x)).

Lemma pos_app_here x l1 l2 : ~ In x l1 -> pos x (l1 ++ x :: l2) = length l1.
Proof.
  induction l1 as [|y l1 IH]; simpl; intros H.
  - now rewrite Nat.eqb_refl.
  - destruct (Nat.eqb x y) eqn:E; [apply Nat.eqb_eq in E; subst; tauto|]. rewrite IH; tauto.
Qed.

Lemma seq_split s a b : seq s (a + b) = seq s a ++ seq (s + a) b.
Proof. apply seq_app. Qed.

Lemma In_le_list_max x l : In x l -> x <= list_max l.
Proof.
  intros H. assert (Hf := proj1 (list_max_le l (list_max l)) (Nat.le_refl _)).
  rewrite Forall_forall in Hf. now apply Hf.
Qed.

Lemma pos_sorted_ids ids x : In x ids -> pos x (sorted_ids ids) = rank ids x.
Proof.
  intros Hin. assert (Hle := In_le_list_max x ids Hin). unfold sorted_ids, rank.
  replace (S (list_max ids)) with (x + S (list_max ids - x)) by lia.
  rewrite seq_split, filter_app. simpl.
  assert (Hm : memn x ids = true) by now apply memn_In. rewrite Hm.
  apply pos_app_here. intros Hc. apply filter_In in Hc. destruct Hc as [Hc _]. apply in_seq in Hc. lia.
Qed.

Lemma rank_le ids x y : x <= y -> rank ids x <= rank ids y.
Proof.
  intros H. unfold rank. replace y with (x + (y - x)) by lia. rewrite seq_split, filter_app, app_length. lia.
Qed.

Lemma rank_lt ids x y : In x ids -> x < y -> rank ids x < rank ids y.
Proof.
  intros Hin H. apply Nat.lt_le_trans with (rank ids (S x)); [|apply rank_le; lia].
  unfold rank. replace (S x) with (x + 1) by lia. rewrite seq_split, filter_app, app_length. simpl.
  unfold member. replace (memn x ids) with true by (symmetry; now apply memn_In). simpl. lia.
Qed.

Lemma rank_inj ids x y : In x ids -> In y ids -> rank ids x = rank ids y -> x = y.
Proof.
  intros Hx Hy E. destruct (Nat.lt_trichotomy x y) as [H|[H|H]]; [|exact H|].
  - apply (rank_lt ids x y Hx) in H. lia.
  - apply (rank_lt ids y x Hy) in H. lia.
Qed.

Lemma sorted_ids_In ids x : In x (sorted_ids ids) <-> In x ids.
Proof.
  unfold sorted_ids. rewrite filter_In, in_seq, memn_In. split; [tauto|]. intros H. split; [|exact H].
  apply In_le_list_max in H. lia.
Qed.

Lemma nth_pos x l d : In x l -> nth (pos x l) l d = x.
Proof.
  induction l as [|y l IH]; simpl; [tauto|]. intros H. destruct (Nat.eqb x y) eqn:E.
  - apply Nat.eqb_eq in E. now subst.
  - apply Nat.eqb_neq in E. destruct H as [H|H]; [congruence|]. now apply IH.
Qed.

Lemma nth_rank_sorted_ids ids x : In x ids -> nth (rank ids x) (sorted_ids ids) 0 = x.
Proof.
  intros H. rewrite <- (pos_sorted_ids ids x H). apply nth_pos. now apply sorted_ids_In.
Qed.

Lemma sorted_ids_NoDup ids : NoDup (sorted_ids ids).
Proof. unfold sorted_ids. apply NoDup_filter, seq_NoDup. Qed.

(** Counting the members below a bound through a duplicate-free list of them. *)
Lemma filter_seq_length (f : nat -> bool) (keys : list nat) m :
  NoDup keys -> (forall y, In y keys <-> y < m /\ f y = true) ->
  length (filter f (seq 0 m)) = length keys.
Proof.
  intros Hnd Hiff. apply Permutation_length, NoDup_Permutation.
  - apply NoDup_filter, seq_NoDup.
  - exact Hnd.
  - intros y. rewrite filter_In, in_seq, Hiff. split; intros [H1 H2]; split; try lia; assumption.
Qed.

Lemma ids_children L c : In c (map r_left L ++ map r_right L) <-> In c (flat_map children L).
Proof.
  rewrite in_app_iff, !in_map_iff, in_flat_map. unfold children. split.
  - intros [[r [E H]]|[r [E H]]]; exists r; simpl; auto.
  - intros [r [H [E|[E|[]]]]]; [left|right]; now exists r.
Qed.

Lemma nth_skipn' {A} (l : list A) t s d : nth s (skipn t l) d = nth (t + s) l d.
Proof. revert l. induction t as [|t IH]; intros [|a l]; simpl; auto. now destruct s. Qed.

Lemma nth_error_skipn {A} (l : list A) t s : nth_error (skipn t l) s = nth_error l (t + s).
Proof. revert l. induction t as [|t IH]; intros [|a l]; simpl; auto. now destruct s. Qed.

Lemma nth_firstn' {A} (l : list A) k y d : y < k -> nth y (firstn k l) d = nth y l d.
Proof.
  revert l y. induction k as [|k IH]; intros l y H; [lia|]. destruct l as [|a l]; simpl; [now destruct y|].
  destruct y as [|y]; [reflexivity|]. apply IH. lia.
Qed.

Lemma firstn_app_exact {A} (l1 l2 : list A) s : firstn (length l1 + s) (l1 ++ l2) = l1 ++ firstn s l2.
Proof. induction l1 as [|a l1 IH]; simpl; [reflexivity | now rewrite IH]. Qed.

Lemma mapr_ok {A B} (f : A -> result B) (g : A -> B) l :
  (forall a, In a l -> f a = Ok (g a)) -> mapr f l = Ok (map g l).
Proof.
  induction l as [|a l IH]; simpl; intros H; [reflexivity|].
  rewrite (H a) by now left. rewrite IH; [reflexivity|]. intros a' Ha'. apply H. now right.
Qed.

Lemma wsz_unit n D x : wsz n (repeat 1 n) D x = true_count n D x.
Proof.
  unfold wsz, true_count. destruct (Nat.ltb x n) eqn:E; [|reflexivity]. apply Nat.ltb_lt in E.
  apply nth_repeat_lt_aux; assumption.
Qed.

Section Aggregate.
Context (n : nat) (D : dendrogram) (nc : nat) (Hv : valid n D = true) (Hnc : 2 <= nc <= n).

Let t0 := n - nc.
Let newD := skipn t0 D.
Let ids := map r_left newD ++ map r_right newD.
Let NI := sorted_ids ids.
Let fr := fun r : drow => (pos (r_left r) NI, pos (r_right r) NI, r_height r, r_size r).
Let out := map fr newD.
Let ws := map (true_count n D) (firstn nc NI).

Lemma agg_len : S (length D) = n /\ length newD = nc - 1 /\ length (firstn t0 D) = t0 /\ D = firstn t0 D ++ newD.
Proof.
  destruct (valid_rows n D Hv) as [Hlen _]. unfold newD, t0. rewrite skipn_length, firstn_length.
  repeat split; try lia. symmetry. apply firstn_skipn.
Qed.

Lemma agg_rows s r : nth_error newD s = Some r -> nth_error D (t0 + s) = Some r /\ row_ok n D (t0 + s) r.
Proof.
  intros H. unfold newD in H. rewrite nth_error_skipn in H. split; [exact H|].
  destruct (valid_rows n D Hv) as [_ Hr]. now apply Hr.
Qed.

Lemma agg_runs : exists l0 lf,
  valid_run n (firstn t0 D) (init_live (repeat 1 n)) = Some l0 /\
  valid_run n D (init_live (repeat 1 n)) = Some lf /\
  linv n (firstn t0 D) l0 /\ linv n D lf /\ length l0 = nc /\ length lf = 1.
Proof.
  destruct agg_len as (Hlen & Hm & Hf & HD).
  assert (H := Hv). unfold valid, validw in H. rewrite repeat_length in H.
  apply andb_true_iff in H. destruct H as [H _]. apply andb_true_iff in H. destruct H as [_ H].
  destruct (valid_run n D (init_live (repeat 1 n))) as [lf|] eqn:Ef; [|discriminate].
  assert (Ef' := Ef). rewrite HD, valid_run_app in Ef'.
  destruct (valid_run n (firstn t0 D) (init_live (repeat 1 n))) as [l0|] eqn:E0; [|discriminate].
  exists l0, lf. split; [reflexivity|]. split; [reflexivity|].
  assert (Hinit : linv n [] (init_live (repeat 1 n))).
  { assert (H0 := linv_init (repeat 1 n)). now rewrite repeat_length in H0. }
  split; [|split; [|split]].
  - apply (valid_run_rows n (firstn t0 D) (firstn t0 D) [] _ l0 eq_refl Hinit). simpl. now rewrite Nat.add_0_r.
  - apply (valid_run_rows n D D [] _ lf eq_refl Hinit). simpl. now rewrite Nat.add_0_r.
  - apply valid_run_sum in E0. destruct E0 as [_ E0]. unfold init_live in E0.
    rewrite combine_length, seq_length, !repeat_length, Nat.min_id, Hf in E0. unfold t0 in *. lia.
  - apply valid_run_sum in Ef. destruct Ef as [_ Ef]. unfold init_live in Ef.
    rewrite combine_length, seq_length, !repeat_length, Nat.min_id in Ef. lia.
Qed.

Lemma agg_member_cases c : In c ids ->
  exists s r, nth_error newD s = Some r /\ In c (children r) /\ c < n + t0 + s /\
              ~ In c (flat_map children (firstn (t0 + s) D)).
Proof.
  intros H. unfold ids in H. apply ids_children, in_flat_map in H. destruct H as [r [Hr Hc]].
  destruct (In_nth_error _ _ Hr) as [s Hs]. exists s, r. split; [exact Hs|]. split; [exact Hc|].
  destruct (agg_rows s r Hs) as [_ (Hne & Hil & Hjl & Hiu & Hju)].
  destruct Hc as [<-|[<-|[]]]; split; try lia; assumption.
Qed.

Lemma agg_C1 c l0 : linv n (firstn t0 D) l0 -> In c ids ->
  (c < n + t0 /\ In c (akeys l0)) \/ (exists s, c = n + t0 + s /\ s + 1 < length newD).
Proof.
  intros (_ & Hkeys & _) H. destruct agg_len as (Hlen & Hm & Hf & HD).
  destruct (agg_member_cases c H) as (s & r & Hs & Hc & Hlt & Hnot).
  assert (Hsm : s < length newD) by (apply nth_error_Some; congruence).
  destruct (Nat.lt_ge_cases c (n + t0)) as [Hc0|Hc0].
  - left. split; [exact Hc0|]. apply Hkeys. rewrite Hf. split; [exact Hc0|]. intros Hin. apply Hnot.
    rewrite HD, <- Hf at 1. rewrite firstn_app_exact, flat_map_app, in_app_iff. now left.
  - right. exists (c - (n + t0)). split; lia.
Qed.

Lemma agg_root_only lf x : linv n D lf -> length lf = 1 -> x + 1 < n + length D ->
  In x (flat_map children D).
Proof.
  intros (Hnd & Hkeys & Hch) Hl Hx. destruct (valid_rows n D Hv) as [Hlen Hrows].
  assert (Hroot : In (n + length D - 1) (akeys lf)).
  { apply Hkeys. split; [lia|]. intros Hin. apply in_flat_map in Hin. destruct Hin as [r [Hr Hc]].
    destruct (In_nth_error _ _ Hr) as [t Ht]. destruct (Hrows t r Ht) as (_ & Hil & Hjl & _).
    assert (t < length D) by (apply nth_error_Some; congruence).
    destruct Hc as [E|[E|[]]]; lia. }
  destruct (in_dec Nat.eq_dec x (flat_map children D)) as [Hin|Hnin]; [exact Hin|]. exfalso.
  assert (Hxk : In x (akeys lf)) by (apply Hkeys; split; [lia | exact Hnin]).
  unfold akeys in *. destruct lf as [|a [|b lf]]; simpl in *; lia.
Qed.

Lemma agg_C2 l0 lf x : linv n (firstn t0 D) l0 -> linv n D lf -> length lf = 1 ->
  (In x (akeys l0) \/ (exists s, x = n + t0 + s /\ s + 1 < length newD)) -> In x ids.
Proof.
  intros (Hnd0 & Hk0 & Hch0) Hlf Hl Hx. destruct agg_len as (Hlen & Hm & Hf & HD).
  assert (Hnot : ~ In x (flat_map children (firstn t0 D))).
  { destruct Hx as [Hx|[s [-> Hs]]]; [apply Hk0 in Hx; tauto|]. intros Hc. apply Hch0 in Hc. lia. }
  assert (Hlt : x + 1 < n + length D).
  { destruct Hx as [Hx|[s [-> Hs]]]; [apply Hk0 in Hx; rewrite Hf in Hx; unfold t0 in *; lia | unfold t0 in *; lia]. }
  assert (Hin := agg_root_only lf x Hlf Hl Hlt). rewrite HD, flat_map_app, in_app_iff in Hin.
  destruct Hin as [Hin|Hin]; [tauto|]. unfold ids. now apply ids_children.
Qed.

Lemma agg_rank : forall s, s + 1 <= length newD -> rank ids (n + t0 + s) = nc + s.
Proof.
  destruct agg_runs as (l0 & lf & _ & _ & Hl0 & Hlf & Hn0 & Hn1).
  assert (Hbase : rank ids (n + t0) = nc).
  { unfold rank. rewrite <- Hn0. rewrite <- (map_length fst l0). apply filter_seq_length.
    - destruct Hl0 as [H _]. exact H.
    - intros y. fold (akeys l0). split.
      + intros Hy. split.
        * destruct Hl0 as (_ & Hk & _). apply Hk in Hy. destruct agg_len as (_ & _ & Hf & _). rewrite Hf in Hy. lia.
        * unfold member. apply memn_In. apply (agg_C2 l0 lf y Hl0 Hlf Hn1). now left.
      + intros [Hy Hm]. unfold member in Hm. apply memn_In in Hm.
        destruct (agg_C1 y l0 Hl0 Hm) as [[_ H]|[s [-> _]]]; [exact H | lia]. }
  induction s as [|s IH]; intros Hs.
  - now rewrite !Nat.add_0_r.
  - replace (n + t0 + S s) with ((n + t0 + s) + 1) by lia. unfold rank in *.
    rewrite seq_split, filter_app, app_length, IH by lia. simpl.
    assert (Hm : member ids (n + t0 + s) = true).
    { unfold member. apply memn_In. apply (agg_C2 l0 lf _ Hl0 Hlf Hn1). right. exists s. split; [reflexivity | lia]. }
    rewrite Hm. simpl. lia.
Qed.

Lemma agg_child_rank s r c : nth_error newD s = Some r -> In c (children r) ->
  In c ids /\ pos c NI = rank ids c /\ rank ids c < nc + s.
Proof.
  intros Hs Hc. assert (Hin : In c ids).
  { unfold ids. apply ids_children, in_flat_map. exists r. split; [eapply nth_error_In; eassumption | exact Hc]. }
  split; [exact Hin|]. split; [now apply pos_sorted_ids|].
  assert (Hsm : s < length newD) by (apply nth_error_Some; congruence).
  rewrite <- (agg_rank s) by lia. apply rank_lt; [exact Hin|].
  destruct (agg_rows s r Hs) as [_ (Hne & Hil & Hjl & _)]. destruct Hc as [<-|[<-|[]]]; lia.
Qed.

Lemma agg_ws_length : length ws = nc.
Proof.
  unfold ws. rewrite map_length, firstn_length. apply Nat.min_l.
  destruct agg_runs as (l0 & lf & _ & _ & Hl0 & Hlf & Hn0 & Hn1).
  rewrite <- Hn0, <- (map_length fst l0). apply NoDup_incl_length; [destruct Hl0 as [H _]; exact H|].
  intros y Hy. apply sorted_ids_In. apply (agg_C2 l0 lf y Hl0 Hlf Hn1). now left.
Qed.

Lemma agg_wsz c : In c ids -> wsz nc ws out (rank ids c) = true_count n D c.
Proof.
  intros Hin. destruct agg_runs as (l0 & lf & _ & _ & Hl0 & Hlf & Hn0 & Hn1).
  destruct agg_len as (Hlen & Hm & Hf & HD). unfold wsz.
  destruct (agg_C1 c l0 Hl0 Hin) as [[Hc _]|[s [-> Hs]]].
  - assert (Hr : rank ids c < nc).
    { assert (H0 := agg_rank 0 ltac:(lia)). rewrite !Nat.add_0_r in H0. rewrite <- H0. now apply rank_lt. }
    replace (Nat.ltb (rank ids c) nc) with true by (symmetry; now apply Nat.ltb_lt).
    unfold ws. rewrite (nth_indep _ 0 (true_count n D 0)) by (fold ws; now rewrite agg_ws_length).
    rewrite map_nth, nth_firstn' by assumption. unfold NI. now rewrite nth_rank_sorted_ids.
  - rewrite agg_rank by lia.
    replace (Nat.ltb (nc + s) nc) with false by (symmetry; apply Nat.ltb_ge; lia).
    replace (nc + s - nc) with s by lia. unfold out.
    rewrite (nth_indep _ drow0 (fr drow0)) by (rewrite map_length; lia). rewrite map_nth. unfold fr at 1. unfold r_size at 1. simpl.
    unfold true_count. replace (Nat.ltb (n + t0 + s) n) with false by (symmetry; apply Nat.ltb_ge; lia).
    unfold newD. rewrite nth_skipn'. f_equal. f_equal. lia.
Qed.

Lemma agg_valid : validw ws out = true.
Proof.
  destruct agg_len as (Hlen & Hm & Hf & HD).
  apply static_validw.
  - unfold out. rewrite map_length, agg_ws_length. lia.
  - intros s r' Hr'. unfold out in Hr'. rewrite nth_error_map in Hr'.
    destruct (nth_error newD s) as [r|] eqn:Hs; [|discriminate]. simpl in Hr'. inversion Hr'; subst r'. clear Hr'.
    destruct (agg_rows s r Hs) as [HDs (Hne & Hil & Hjl & Hiu & Hju)].
    destruct (agg_child_rank s r (r_left r) Hs ltac:(now left)) as (Hini & Epi & Hri).
    destruct (agg_child_rank s r (r_right r) Hs ltac:(right; now left)) as (Hinj & Epj & Hrj).
    rewrite agg_ws_length. unfold fr. unfold r_left at 1 2 3 4, r_right at 1 2 3 4, r_size at 1. simpl.
    fold (r_left r) (r_right r). rewrite Epi, Epj.
    assert (Hnotin : forall c, In c (children r) -> ~ In (rank ids c) (flat_map children (firstn s out))).
    { intros c Hc Hin. unfold out in Hin. rewrite firstn_map in Hin. apply in_flat_map in Hin.
      destruct Hin as [r2 [Hr2 Hc2]]. apply in_map_iff in Hr2. destruct Hr2 as [r1 [<- Hr1]].
      destruct (In_firstn_nth_error _ _ _ Hr1) as [s1 [_ Hs1']].
      assert (exists c1, In c1 (children r1) /\ rank ids c = pos c1 NI).
      { unfold fr, children, r_left, r_right in Hc2. simpl in Hc2.
        destruct Hc2 as [E|[E|[]]]; [exists (fst (fst (fst r1))) | exists (snd (fst (fst r1)))];
          (split; [unfold children, r_left, r_right; simpl; auto | now symmetry]). }
      destruct H as [c1 [Hc1 E]].
      destruct (agg_child_rank s1 r1 c1 Hs1' Hc1) as (Hin1 & Ep1 & _). rewrite Ep1 in E.
      destruct (agg_child_rank s r c Hs Hc) as (Hinc & _ & _).
      apply rank_inj in E; [|assumption|assumption]. subst c1.
      assert (Hbad : In c (flat_map children (firstn (t0 + s) D))).
      { rewrite HD, <- Hf at 1. rewrite firstn_app_exact, flat_map_app, in_app_iff. right.
        apply in_flat_map. exists r1. split; [exact Hr1 | exact Hc1]. }
      destruct Hc as [<-|[<-|[]]]; tauto. }
    split.
    + unfold row_ok, r_left, r_right. simpl. fold (r_left r) (r_right r).
      split; [intros E; apply rank_inj in E; [congruence|assumption|assumption]|].
      split; [exact Hri|]. split; [exact Hrj|].
      split; [apply Hnotin; now left | apply Hnotin; right; now left].
    + rewrite (agg_wsz _ Hini), (agg_wsz _ Hinj).
      assert (Hsz := validw_sizes (repeat 1 n) D Hv (t0 + s) r HDs).
      now rewrite repeat_length, !wsz_unit in Hsz.
Qed.

Lemma agg_counts : mapr (leaf_count n D) (firstn nc NI) = Ok ws.
Proof.
  unfold ws. apply mapr_ok. intros l Hl. assert (Hin : In l ids).
  { apply sorted_ids_In. eapply firstn_In_aux; eassumption. }
  unfold leaf_count, true_count. destruct (Nat.ltb l n) eqn:E; [reflexivity|]. apply Nat.ltb_ge in E.
  destruct (agg_member_cases l Hin) as (s & r & Hs & _ & Hlt & _).
  assert (Hsm : s < length newD) by (apply nth_error_Some; congruence).
  destruct agg_len as (Hlen & Hm & Hf & HD).
  assert (Hl2 : l - n < length D) by (unfold t0 in *; lia).
  apply nth_error_Some in Hl2. destruct (nth_error D (l - n)) as [r'|] eqn:Er; [|congruence].
  now rewrite (nth_error_nth' _ _ _ drow0 Er).
Qed.
End Aggregate.

Lemma last_map' {A B} (f : A -> B) l d d' : l <> [] -> last (map f l) d' = f (last l d).
Proof.
  induction l as [|a l IH]; [congruence|]. intros _. destruct l as [|b l]; [reflexivity|].
  change (last (map f (a :: b :: l)) d') with (last (map f (b :: l)) d').
  change (last (a :: b :: l) d) with (last (b :: l) d). apply IH. discriminate.
Qed.

Lemma last_skipn' {A} (l : list A) t d : t < length l -> last (skipn t l) d = last l d.
Proof.
  revert l. induction t as [|t IH]; intros l H; [reflexivity|].
  destruct l as [|a l]; simpl in H; [lia|]. simpl skipn. rewrite IH by lia.
  destruct l; [simpl in H; lia | reflexivity].
Qed.

Lemma aggregate_dendrogram_ok n D nc rc out oc :
  valid n D = true -> aggregate_dendrogram D nc rc = Ok (out, oc) ->
  1 <= nc <= n /\
  let ws := if Nat.eqb nc 1 then [n] else map (true_count n D) (kept_ids n D nc) in
  validw ws out = true /\ length ws = nc /\ sumn ws = n /\
  heights out = heights (skipn (n - nc) D) /\ (rc = true -> oc = Some ws).
Proof.
  intros Hv H. destruct (valid_rows n D Hv) as [Hlen _].
  unfold aggregate_dendrogram, aggregate_dendrogram_with in H. rewrite Hlen in H.
  unfold check_n_clusters in H.
  destruct (Nat.ltb n nc) eqn:E1; [discriminate|]. destruct (Nat.ltb nc 1) eqn:E2; [discriminate|].
  apply Nat.ltb_ge in E1, E2. split; [lia|].
  assert (Hh : forall g : drow -> nat, heights (map (fun r => (g r, g r, r_height r, r_size r)) (skipn (n - nc) D)) = heights (skipn (n - nc) D)) by
    (intros g; unfold heights; rewrite map_map; reflexivity).
  destruct (Nat.eqb nc 1) eqn:E3.
  - apply Nat.eqb_eq in E3. subst nc. simpl.
    assert (Hnil : skipn (n - 1) D = []) by (apply skipn_all2; lia). rewrite Hnil in H. simpl in H.
    assert (Hout : out = []) by (destruct rc; inversion H; reflexivity). subst out.
    split; [reflexivity|]. split; [reflexivity|]. split; [simpl; lia|]. split; [now rewrite Hnil|].
    intros ->. now inversion H.
  - apply Nat.eqb_neq in E3. assert (Hnc : 2 <= nc <= n) by lia. cbv zeta.
    assert (Hval := agg_valid n D nc Hv Hnc). assert (Hwl := agg_ws_length n D nc Hv Hnc).
    assert (Hcnt := agg_counts n D nc Hv Hnc). fold (kept_ids n D nc) in Hval, Hwl, Hcnt.
    set (out' := map (fun r : drow => (pos (r_left r) (sorted_ids (map r_left (skipn (n - nc) D) ++ map r_right (skipn (n - nc) D))),
                                       pos (r_right r) (sorted_ids (map r_left (skipn (n - nc) D) ++ map r_right (skipn (n - nc) D))),
                                       r_height r, r_size r)) (skipn (n - nc) D)) in *.
    assert (Hout : out = out' /\ (rc = true -> oc = Some (map (true_count n D) (kept_ids n D nc)))).
    { destruct rc.
      - simpl in H. unfold kept_ids in Hcnt. cbv zeta in Hcnt. rewrite Hcnt in H. inversion H. split; [reflexivity|]. reflexivity.
      - inversion H. split; [reflexivity | discriminate]. }
    destruct Hout as [-> Hoc]. split; [exact Hval|]. split; [exact Hwl|]. split; [|split; [|exact Hoc]].
    + unfold validw in Hval. apply andb_true_iff in Hval. destruct Hval as [_ Hlast].
      assert (Hne : skipn (n - nc) D <> []).
      { intros E. apply (f_equal (@length drow)) in E. rewrite skipn_length in E. simpl in E. lia. }
      destruct out' as [|r0 o] eqn:Eo.
      { unfold out' in Eo. apply map_eq_nil in Eo. congruence. }
      apply Nat.eqb_eq in Hlast. rewrite <- Hlast, <- Eo. unfold out'.
      rewrite (last_map' _ _ drow0 drow0 Hne). unfold r_size at 1. simpl.
      rewrite last_skipn' by lia.
      assert (Hv' := Hv). unfold valid, validw in Hv'. apply andb_true_iff in Hv'. destruct Hv' as [_ Hl].
      destruct D as [|d0 D']; [simpl in Hlen; lia|]. apply Nat.eqb_eq in Hl. rewrite Hl.
      clear. induction n; simpl; auto.
    + unfold out', heights. rewrite map_map. reflexivity.
Qed.

Lemma aggregate_dendrogram_total n D nc rc :
  valid n D = true -> 1 <= nc <= n -> exists out oc, aggregate_dendrogram D nc rc = Ok (out, oc).
Proof.
  intros Hv Hnc. destruct (valid_rows n D Hv) as [Hlen _].
  unfold aggregate_dendrogram, aggregate_dendrogram_with. rewrite Hlen. unfold check_n_clusters.
  replace (Nat.ltb n nc) with false by (symmetry; apply Nat.ltb_ge; lia).
  replace (Nat.ltb nc 1) with false by (symmetry; apply Nat.ltb_ge; lia).
  destruct rc; [|now eexists; eexists].
  destruct (Nat.eqb nc 1) eqn:E; simpl; [now eexists; eexists|]. apply Nat.eqb_neq in E.
  assert (Hcnt := agg_counts n D nc Hv ltac:(lia)). rewrite Hcnt. now eexists; eexists.
Qed.

(** * Which merges a replay applies (any guard) *)
Lemma leaves_nonempty n D : ids_lt n D -> forall x, x < n + length D -> leaves n D x <> [].
Proof.
  intros Hids x. induction x as [x IH] using lt_wf_ind. intros Hx.
  destruct (Nat.lt_ge_cases x n) as [Hlt|Hge]; [rewrite leaves_leaf by assumption; discriminate|].
  assert (Ht : x - n < length D) by lia. apply nth_error_Some in Ht.
  destruct (nth_error D (x - n)) as [r|] eqn:Er; [|congruence].
  replace x with (n + (x - n)) by lia. rewrite (leaves_node n D (x - n) r Hids Er).
  destruct (Hids _ _ Er) as [Hl _]. intros E. apply app_eq_nil in E. destruct E as [E _].
  apply (IH (r_left r)); [lia | lia | exact E].
Qed.

Definition inside (n : nat) (fl : nat -> bool) (x : nat) : Prop := x < n \/ fl (x - n) = true.
Definition achildren (fl : nat -> bool) (D : dendrogram) (t : nat) : list nat :=
  flat_map (fun t' => if fl t' then children (nth t' D drow0) else []) (seq 0 t).
Definition cntT (fl : nat -> bool) (t : nat) : nat := length (filter fl (seq 0 t)).

Lemma achildren_S fl D t : achildren fl D (S t) = achildren fl D t ++ (if fl t then children (nth t D drow0) else []).
Proof. unfold achildren. rewrite seq_S, flat_map_app. simpl. now rewrite app_nil_r. Qed.

Lemma achildren_ext fl fl' D t : (forall t', t' < t -> fl t' = fl' t') -> achildren fl D t = achildren fl' D t.
Proof.
  intros H. unfold achildren. induction t as [|t IH]; [reflexivity|].
  rewrite seq_S, !flat_map_app. simpl. rewrite IH by (intros; apply H; lia). now rewrite (H t) by lia.
Qed.

Lemma cntT_S fl t : cntT fl (S t) = cntT fl t + (if fl t then 1 else 0).
Proof. unfold cntT. rewrite seq_S, filter_app, app_length. simpl. destruct (fl t); reflexivity. Qed.

Lemma cntT_ext fl fl' t : (forall t', t' < t -> fl t' = fl' t') -> cntT fl t = cntT fl' t.
Proof.
  intros H. induction t as [|t IH]; [reflexivity|]. rewrite !cntT_S, IH by (intros; apply H; lia).
  now rewrite (H t) by lia.
Qed.

Lemma achildren_lt n D fl t c : (forall t r, nth_error D t = Some r -> row_ok n D t r) -> t <= length D ->
  In c (achildren fl D t) -> c < n + t.
Proof.
  intros Hrows Ht H. unfold achildren in H. apply in_flat_map in H. destruct H as [t' [Ht' Hc]].
  apply in_seq in Ht'. destruct (fl t'); [|contradiction].
  assert (Hlt : t' < length D) by lia. apply nth_error_Some in Hlt.
  destruct (nth_error D t') as [r|] eqn:Er; [|congruence].
  rewrite (nth_error_nth' _ _ _ drow0 Er) in Hc. destruct (Hrows _ _ Er) as (_ & Hil & Hjl & _).
  destruct Hc as [<-|[<-|[]]]; lia.
Qed.

Definition ginv (n : nat) (D : dendrogram) (t : nat) (fl : nat -> bool) (st : cstate) : Prop :=
  cinv n D t st /\
  (forall x, In x (akeys st) <-> x < n + t /\ inside n fl x /\ ~ In x (achildren fl D t)) /\
  (forall t' r, t' < t -> nth_error D t' = Some r -> fl t' = true ->
                inside n fl (r_left r) /\ inside n fl (r_right r) /\
                exists k c, In (k, c) st /\ incl (leaves n D (n + t')) c) /\
  length st + cntT fl t = n /\
  (forall t', t <= t' -> fl t' = false).

Lemma ginv_init n D : ginv n D 0 (fun _ => false) (init_clusters n).
Proof.
  split; [apply cinv_init|]. split; [|split; [|split]].
  - intros x. unfold init_clusters, akeys. rewrite map_map. simpl. rewrite map_id, in_seq. unfold inside. simpl.
    split; [intros H; split; [lia|split; [left; lia|tauto]] | intros [H _]; lia].
  - intros t' r Ht'. lia.
  - unfold init_clusters, cntT. rewrite map_length, seq_length. simpl. lia.
  - reflexivity.
Qed.

Lemma ginv_step guard n D t r fl st st' :
  valid n D = true -> nth_error D t = Some r -> ginv n D t fl st ->
  cut_step guard (n + t) r st = Ok st' ->
  exists fl', ginv n D (S t) fl' st' /\ (forall t', t' < t -> fl' t' = fl t').
Proof.
  intros Hv Hr (Hc & HK & HF & HL & HZ) Hstep.
  assert (Hids := valid_ids_lt n D Hv). destruct (valid_rows n D Hv) as [Hlen Hrows].
  assert (Ht : t < length D) by (apply nth_error_Some; congruence).
  assert (Hc' := cut_step_cinv guard n D t r st st' Hids Hr Hc Hstep).
  assert (Hsame : st' = st -> exists fl', ginv n D (S t) fl' st' /\ (forall t', t' < t -> fl' t' = fl t')).
  { intros ->. exists fl. split; [|reflexivity]. split; [exact Hc'|]. split; [|split; [|split]].
    - intros x. rewrite achildren_S, (HZ t) by lia. rewrite app_nil_r, HK. unfold inside.
      split; [intros (H1 & H2 & H3); split; [lia|tauto]|].
      intros (H1 & H2 & H3). split; [|tauto]. destruct H2 as [H2|H2]; [lia|].
      destruct (Nat.eq_dec x (n + t)) as [->|Hne]; [|lia].
      replace (n + t - n) with t in H2 by lia. rewrite HZ in H2 by lia. discriminate.
    - intros t' r' Ht' Hr' Hfl. destruct (Nat.eq_dec t' t) as [->|Hne]; [rewrite HZ in Hfl by lia; discriminate|].
      apply (HF t' r'); [lia | assumption | assumption].
    - rewrite cntT_S, (HZ t) by lia. lia.
    - intros t' Ht'. apply HZ. lia. }
  unfold cut_step in Hstep.
  destruct (alookup (r_left r) st) as [ci|] eqn:Hi; [|inversion Hstep; now apply Hsame].
  destruct (alookup (r_right r) st) as [cj|] eqn:Hj; [|inversion Hstep; now apply Hsame].
  destruct (guard r ci cj); [|inversion Hstep; now apply Hsame].
  destruct (alookup (r_right r) (aremove (r_left r) st)) as [cj'|] eqn:Hj'; [|discriminate].
  inversion Hstep; subst st'. clear Hstep Hsame.
  destruct (Hrows t r Hr) as (Hne & Hil & Hjl & Hiu & Hju).
  rewrite alookup_aremove_neq in Hj' by auto. rewrite Hj in Hj'. inversion Hj'; subst cj'. clear Hj'.
  set (fl' := fun t' => if Nat.eqb t' t then true else fl t').
  assert (Hext : forall t', t' < t -> fl' t' = fl t').
  { intros t' Ht'. unfold fl'. destruct (Nat.eqb t' t) eqn:E; [apply Nat.eqb_eq in E; lia | reflexivity]. }
  assert (Hins : forall x, x < n + t -> (inside n fl' x <-> inside n fl x)).
  { intros x Hx. unfold inside. destruct (Nat.lt_ge_cases x n) as [Hlt|Hge]; [tauto|].
    rewrite Hext by lia. tauto. }
  destruct Hc as (Hnd & Hcl & _).
  assert (Hik := alookup_key _ _ _ Hi). assert (Hjk := alookup_key _ _ _ Hj).
  exists fl'. split; [|intros t' Ht'; now apply Hext]. split; [exact Hc'|]. split; [|split; [|split]].
  - intros x. assert (Eflt : fl' t = true) by (unfold fl'; now rewrite Nat.eqb_refl).
    rewrite achildren_S, Eflt, (nth_error_nth' _ _ _ drow0 Hr).
    rewrite (achildren_ext fl' fl D t) by (intros; now apply Hext).
    rewrite akeys_app, in_app_iff. simpl.
    assert (Hk2 : In x (akeys (aremove (r_right r) (aremove (r_left r) st))) <->
                  In x (akeys st) /\ x <> r_left r /\ x <> r_right r).
    { rewrite akeys_aremove_iff by now apply NoDup_aremove. rewrite akeys_aremove_iff by assumption. tauto. }
    rewrite Hk2, HK, in_app_iff. unfold children. simpl. split.
    + intros [((H1 & H2 & H3) & H4 & H5)|[<-|[]]].
      * split; [lia|]. split; [now apply Hins|]. intros [H|[H|[H|[]]]]; [tauto|congruence|congruence].
      * split; [lia|]. split; [right; replace (n + t - n) with t by lia; unfold fl'; now rewrite Nat.eqb_refl|].
        intros [H|[H|[H|[]]]]; [|lia|lia].
        apply (achildren_lt n D fl t _ Hrows) in H; lia.
    + intros (H1 & H2 & H3). destruct (Nat.eq_dec x (n + t)) as [->|Hx]; [right; now left|]. left.
      split; [split; [lia|split; [apply Hins; [lia|exact H2] | tauto]]|].
      split; intros ->; apply H3; right; simpl; tauto.
  - intros t' r' Ht' Hr' Hfl. destruct (Nat.eq_dec t' t) as [->|Hne'].
    + rewrite Hr in Hr'. inversion Hr'; subst r'.
      apply HK in Hik. apply HK in Hjk. split; [apply Hins; tauto|]. split; [apply Hins; tauto|].
      exists (n + t), (ci ++ cj). split; [apply in_app_iff; right; now left|].
      rewrite (leaves_node n D t r Hids Hr).
      destruct (Hcl _ _ (alookup_In _ _ _ Hi)) as (_ & -> & _).
      destruct (Hcl _ _ (alookup_In _ _ _ Hj)) as (_ & -> & _). apply incl_refl.
    + rewrite Hext in Hfl by lia. destruct (HF t' r' ltac:(lia) Hr' Hfl) as (Hi1 & Hi2 & k & c & Hin & Hincl).
      destruct (Hrows t' r' Hr') as (_ & Hil' & Hjl' & _).
      split; [apply Hins; [lia|exact Hi1]|]. split; [apply Hins; [lia|exact Hi2]|].
      destruct (Nat.eq_dec k (r_left r)) as [->|Hk1].
      { exists (n + t), (ci ++ cj). split; [apply in_app_iff; right; now left|].
        assert (c = ci) by (apply (In_alookup _ _ _ Hnd) in Hin; congruence). subst c. now apply incl_appl. }
      destruct (Nat.eq_dec k (r_right r)) as [->|Hk2'].
      { exists (n + t), (ci ++ cj). split; [apply in_app_iff; right; now left|].
        assert (c = cj) by (apply (In_alookup _ _ _ Hnd) in Hin; congruence). subst c. now apply incl_appr. }
      exists k, c. split; [|exact Hincl]. apply in_app_iff. left.
      apply aremove_In_neq; [apply aremove_In_neq|]; assumption.
  - assert (Eflt : fl' t = true) by (unfold fl'; now rewrite Nat.eqb_refl).
    rewrite cntT_S, (cntT_ext fl' fl t), Eflt by (intros; now apply Hext).
    rewrite app_length. simpl. apply aremove_length in Hi.
    assert (Hj2 : alookup (r_right r) (aremove (r_left r) st) = Some cj) by (rewrite alookup_aremove_neq by auto; exact Hj).
    apply aremove_length in Hj2. lia.
  - intros t' Ht'. unfold fl'. destruct (Nat.eqb t' t) eqn:E; [apply Nat.eqb_eq in E; lia|]. apply HZ. lia.
Qed.

Lemma ginv_replay guard n D : valid n D = true ->
  forall rows done fl st st', D = done ++ rows -> ginv n D (length done) fl st ->
    replay guard (n + length done) rows st = Ok st' ->
    exists fl', ginv n D (length D) fl' st'.
Proof.
  intros Hv. induction rows as [|r rows IH]; intros done fl st st' HD Hinv Hrun.
  - simpl in Hrun. inversion Hrun; subst. rewrite app_nil_r in *. now exists fl.
  - simpl in Hrun. destruct (cut_step guard (n + length done) r st) as [st1|] eqn:Hs; [|discriminate].
    assert (Hr : nth_error D (length done) = Some r) by (rewrite HD; apply nth_error_app_length).
    destruct (ginv_step guard n D (length done) r fl st st1 Hv Hr Hinv Hs) as [fl1 [H1 _]].
    apply (IH (done ++ [r]) fl1 st1 st').
    + now rewrite <- app_assoc.
    + rewrite app_length. simpl. now rewrite Nat.add_1_r.
    + rewrite app_length. simpl. now rewrite Nat.add_1_r, <- plus_n_Sm.
Qed.

(** * The reduced dendrogram of get_labels *)
Lemma reduce_loop_valid_run : forall rows cindex csize cur cur_new out,
  reduce_loop rows cindex csize cur cur_new = Ok out ->
  exists live', valid_run cur_new out csize = Some live'.
Proof.
  induction rows as [|r rows IH]; intros cindex csize cur cur_new out H; simpl in H.
  - inversion H; subst. simpl. now eexists.
  - destruct (alookup (r_left r) cindex) as [i_new|]; [|discriminate].
    destruct (alookup (r_right r) (aremove (r_left r) cindex)) as [j_new|]; [|discriminate].
    destruct (negb (Nat.eqb i_new j_new)) eqn:Hne.
    + destruct (alookup i_new csize) as [si|] eqn:Hi; [|discriminate].
      destruct (alookup j_new (aremove i_new csize)) as [sj|] eqn:Hj; [|discriminate].
      match type of H with match ?X with _ => _ end = _ => destruct X as [out'|] eqn:Hrec end; [|discriminate].
      inversion H; subst out. apply IH in Hrec. destruct Hrec as [live' Hl]. exists live'. simpl.
      rewrite Hi. apply negb_true_iff, Nat.eqb_neq in Hne.
      rewrite alookup_aremove_neq in Hj by auto. rewrite Hj.
      replace (negb (Nat.eqb i_new j_new)) with true by (symmetry; apply negb_true_iff, Nat.eqb_neq; exact Hne).
      rewrite Nat.eqb_refl. simpl. exact Hl.
    + now apply IH in H.
Qed.

Lemma valid_run_last_size ws D live' :
  S (length D) = length ws -> valid_run (length ws) D (init_live ws) = Some live' -> D <> [] ->
  r_size (last D drow0) = sumn ws.
Proof.
  intros Hlen Hrun Hne. destruct (exists_last Hne) as [D1 [r Er]].
  assert (Hfull := Hrun). rewrite Er in Hrun. rewrite Er, last_last. rewrite valid_run_app in Hrun.
  destruct (valid_run (length ws) D1 (init_live ws)) as [l1|] eqn:E1; [|discriminate].
  assert (Hlast : exists l0, live' = l0 ++ [(length ws + length D1, r_size r)]).
  { simpl in Hrun. destruct r as [[[i j] h] s]. destruct (alookup i l1) as [si|]; [|discriminate].
    destruct (alookup j l1) as [sj|]; [|discriminate].
    destruct (negb (Nat.eqb i j) && Nat.eqb s (si + sj)); [|discriminate]. inversion Hrun. eexists. reflexivity. }
  destruct Hlast as [l0 ->]. apply valid_run_sum in Hfull. destruct Hfull as [S1 S2].
  unfold init_live in S1, S2. rewrite map_snd_combine in S1 by now rewrite seq_length.
  rewrite combine_length, seq_length, Nat.min_id, <- Hlen, app_length in S2. simpl in S2.
  assert (Hl0 : l0 = []) by (destruct l0; [reflexivity | simpl in S2; lia]).
  subst l0. simpl in S1. lia.
Qed.

Lemma child_unique n D t1 t2 r1 r2 c :
  (forall t r, nth_error D t = Some r -> row_ok n D t r) ->
  nth_error D t1 = Some r1 -> nth_error D t2 = Some r2 -> In c (children r1) -> In c (children r2) -> t1 = t2.
Proof.
  intros Hrows H1 H2 Hc1 Hc2.
  assert (Haux : forall ta tb ra rb, ta < tb -> nth_error D ta = Some ra -> nth_error D tb = Some rb ->
                                     In c (children ra) -> In c (children rb) -> False).
  { intros ta tb ra rb Hlt Ha Hb Hca Hcb. destruct (Hrows tb rb Hb) as (_ & _ & _ & Hiu & Hju).
    assert (Hin : In c (flat_map children (firstn tb D))).
    { apply in_flat_map. exists ra. split; [|exact Hca].
      apply (nth_error_In _ ta). rewrite nth_error_firstn_lt by assumption. exact Ha. }
    destruct Hcb as [<-|[<-|[]]]; tauto. }
  destruct (Nat.lt_trichotomy t1 t2) as [H|[H|H]]; [exfalso; eauto | exact H | exfalso; eauto].
Qed.

Lemma alookup_aremove_Some {A} (l : list (nat * A)) x y v :
  NoDup (akeys l) -> alookup x (aremove y l) = Some v -> x <> y /\ alookup x l = Some v.
Proof.
  intros Hnd H. destruct (Nat.eq_dec x y) as [->|Hne].
  - rewrite alookup_aremove_eq in H by assumption. discriminate.
  - split; [exact Hne|]. now rewrite alookup_aremove_neq in H.
Qed.

Definition cntU (fl : nat -> bool) (t : nat) : nat := length (filter (fun t' => negb (fl t')) (seq 0 t)).

Lemma cntU_S fl t : cntU fl (S t) = cntU fl t + (if fl t then 0 else 1).
Proof. unfold cntU. rewrite seq_S, filter_app, app_length. simpl. destruct (fl t); reflexivity. Qed.

Lemma cntU_le fl a b : a <= b -> cntU fl a <= cntU fl b.
Proof. intros H. unfold cntU. replace b with (a + (b - a)) by lia. rewrite seq_split, filter_app, app_length. lia. Qed.

Lemma cntU_inj fl a b : fl a = false -> fl b = false -> cntU fl a = cntU fl b -> a = b.
Proof.
  assert (Haux : forall a b, a < b -> fl a = false -> cntU fl a < cntU fl b).
  { intros a0 b0 Hlt Ha. apply Nat.lt_le_trans with (cntU fl (S a0)); [rewrite cntU_S, Ha; lia | apply cntU_le; lia]. }
  intros Ha Hb E. destruct (Nat.lt_trichotomy a b) as [H|[H|H]]; [|exact H|].
  - apply (Haux a b H) in Ha. lia.
  - apply (Haux b a H) in Hb. lia.
Qed.

Lemma cntT_cntU fl t : cntT fl t + cntU fl t = t.
Proof. induction t as [|t IH]; [reflexivity|]. rewrite cntT_S, cntU_S. destruct (fl t); lia. Qed.

Lemma urows_length fl rows : forall t, length (urows fl t rows) + cntU fl t = cntU fl (t + length rows).
Proof.
  induction rows as [|r rows IH]; intros t; simpl; [now rewrite Nat.add_0_r|].
  specialize (IH (S t)). rewrite cntU_S in IH. replace (t + S (length rows)) with (S t + length rows) by lia.
  destruct (fl t); simpl in *; lia.
Qed.

Section Reduced.
Context (n : nat) (D : dendrogram) (Hv : valid n D = true) (fl : nat -> bool) (K : cstate)
        (HG : ginv n D (length D) fl K) (pst : cstate) (HP : Permutation pst K).

Let labels := labels_of n (map snd pst).
Let k := length pst.
Let lab := fun x => nth (hd 0 (leaves n D x)) labels 0.
Let inside_b := fun x => Nat.ltb x n || fl (x - n).
Let phi := fun x => if inside_b x then lab x else k + cntU fl (x - n).

Lemma red_cpart : cpart n D pst.
Proof. destruct HG as (Hc & _). exact (cinv_cpart n D _ K pst Hc HP). Qed.

Lemma inside_b_iff x : inside_b x = true <-> inside n fl x.
Proof. unfold inside_b, inside. rewrite orb_true_iff, Nat.ltb_lt. tauto. Qed.

Lemma red_same_label k0 c : In (k0, c) K ->
  exists l, l < k /\ nth l pst (0, []) = (k0, c) /\ forall u, In u c -> nth u labels 0 = l.
Proof.
  intros Hin. assert (Hcp := red_cpart). assert (HP' := Permutation_sym HP). apply (Permutation_in _ HP') in Hin.
  destruct (In_nth _ _ (0, []) Hin) as [l [Hl Enth]]. exists l. split; [exact Hl|]. split; [exact Enth|].
  intros u Hu.
  destruct (cpart_labels n D _ Hcp) as (_ & _ & H3 & _).
  destruct (cpart_clusters n D _ Hcp) as (_ & _ & Hlt & Hleaves).
  destruct Hcp as (_ & Hcl & _). destruct (Hcl k0 c Hin) as [Ec _].
  assert (Hun : u < n).
  { apply (Hlt l u Hl). destruct (Hleaves l Hl) as [-> _]. rewrite Enth. simpl. now rewrite <- Ec. }
  apply H3; [exact Hl | exact Hun |]. rewrite Enth. simpl. now rewrite <- Ec.
Qed.

Lemma red_root_lab r : In r (akeys K) ->
  exists c, In (r, c) K /\ c = leaves n D r /\ lab r < k /\ nth (lab r) pst (0, []) = (r, c).
Proof.
  intros Hr. unfold akeys in Hr. apply in_map_iff in Hr. destruct Hr as [[r' c] [E Hin]]. simpl in E. subst r'.
  destruct HG as ((_ & Hcl & _) & _). destruct (Hcl r c Hin) as (_ & Ec & Hne).
  exists c. split; [exact Hin|]. split; [exact Ec|].
  assert (Hhd : In (hd 0 (leaves n D r)) c) by (rewrite <- Ec; destruct c; [congruence | now left]).
  destruct (red_same_label r c Hin) as (l & Hl & Enth & El). unfold lab. rewrite (El _ Hhd). split; assumption.
Qed.

Lemma red_root_inj r1 r2 : In r1 (akeys K) -> In r2 (akeys K) -> lab r1 = lab r2 -> r1 = r2.
Proof.
  intros H1 H2 E. destruct (red_root_lab r1 H1) as (c1 & _ & _ & _ & E1).
  destruct (red_root_lab r2 H2) as (c2 & _ & _ & _ & E2). rewrite E, E2 in E1. now inversion E1.
Qed.

Lemma red_applied t r : nth_error D t = Some r -> fl t = true ->
  inside_b (r_left r) = true /\ inside_b (r_right r) = true /\
  lab (r_left r) = lab (n + t) /\ lab (r_right r) = lab (n + t).
Proof.
  intros Hr Hfl. assert (Hids := valid_ids_lt n D Hv).
  assert (Ht : t < length D) by (apply nth_error_Some; congruence).
  destruct HG as (_ & _ & HF & _). destruct (HF t r Ht Hr Hfl) as (Hi & Hj & k0 & c & Hin & Hincl).
  split; [now apply inside_b_iff|]. split; [now apply inside_b_iff|].
  destruct (Hids _ _ Hr) as [Hil Hjl].
  assert (Hni : leaves n D (r_left r) <> []) by (apply leaves_nonempty; [assumption | lia]).
  assert (Hnj : leaves n D (r_right r) <> []) by (apply leaves_nonempty; [assumption | lia]).
  assert (Hnode := leaves_node n D t r Hids Hr).
  destruct (red_same_label k0 c Hin) as (l & _ & _ & Hl).
  assert (Hall : forall u, In u (leaves n D (n + t)) -> nth u labels 0 = l) by (intros u Hu; apply Hl, Hincl, Hu).
  assert (Hh : In (hd 0 (leaves n D (n + t))) (leaves n D (n + t))).
  { rewrite Hnode. destruct (leaves n D (r_left r)); [congruence | now left]. }
  unfold lab. rewrite (Hall _ Hh). split; apply Hall; rewrite Hnode; apply in_app_iff.
  - left. destruct (leaves n D (r_left r)); [congruence | now left].
  - right. destruct (leaves n D (r_right r)); [congruence | now left].
Qed.

(** A child of a merge that was not applied is either a cluster root or itself a merge that was not applied. *)
Lemma red_top t r c : nth_error D t = Some r -> fl t = false -> In c (children r) ->
  inside_b c = true -> In c (akeys K).
Proof.
  intros Hr Hfl Hc Hins. destruct (valid_rows n D Hv) as [Hlen Hrows].
  assert (Ht : t < length D) by (apply nth_error_Some; congruence).
  destruct HG as (_ & HK & _). apply HK. destruct (Hrows t r Hr) as (_ & Hil & Hjl & _).
  split; [destruct Hc as [<-|[<-|[]]]; lia|]. split; [now apply inside_b_iff|].
  intros Hin. unfold achildren in Hin. apply in_flat_map in Hin. destruct Hin as [t' [Ht' Hc']].
  apply in_seq in Ht'. destruct (fl t') eqn:Hfl'; [|contradiction].
  assert (Hlt' : t' < length D) by lia. apply nth_error_Some in Hlt'.
  destruct (nth_error D t') as [r'|] eqn:Er'; [|congruence].
  rewrite (nth_error_nth' _ _ _ drow0 Er') in Hc'.
  assert (t' = t) by (eapply (child_unique n D t' t r' r c); eassumption). subst t'. congruence.
Qed.

Definition rinv (t : nat) (cindex csize : list (nat * nat)) : Prop :=
  linv n (firstn t D) cindex /\
  (forall x v, alookup x cindex = Some v -> v = phi x) /\
  NoDup (akeys csize) /\
  (forall m, In m (akeys csize) -> m < k + cntU fl t) /\
  (forall r, In r (akeys K) -> ~ In r (flat_map children (firstn t D)) ->
             alookup (lab r) csize = Some (length (leaves n D r))) /\
  (forall x, In x (akeys cindex) -> inside_b x = false ->
             alookup (phi x) csize = Some (length (leaves n D x))).

(** phi separates the two children of a merge that was not applied, and any other live id. *)
Lemma red_phi_neq x y : x <> y ->
  (inside_b x = true -> In x (akeys K)) -> (inside_b y = true -> In y (akeys K)) -> phi x <> phi y.
Proof.
  intros Hne Hx Hy E. unfold phi in E.
  destruct (inside_b x) eqn:Ex, (inside_b y) eqn:Ey.
  - apply Hne. apply red_root_inj; auto.
  - destruct (red_root_lab x (Hx eq_refl)) as (_ & _ & _ & Hl & _). lia.
  - destruct (red_root_lab y (Hy eq_refl)) as (_ & _ & _ & Hl & _). lia.
  - unfold inside_b in Ex, Ey. apply orb_false_iff in Ex, Ey. destruct Ex as [Ex1 Ex2], Ey as [Ey1 Ey2].
    apply Nat.ltb_ge in Ex1, Ey1. assert (x - n = y - n) by (apply (cntU_inj fl); [assumption|assumption|lia]). lia.
Qed.

Lemma red_loop : forall rows done cindex csize,
  D = done ++ rows -> rinv (length done) cindex csize ->
  exists out, reduce_loop rows cindex csize (n + length done) (k + cntU fl (length done)) = Ok out /\
              heights out = heights (urows fl (length done) rows).
Proof.
  assert (Hids := valid_ids_lt n D Hv). destruct (valid_rows n D Hv) as [Hlen Hrows].
  induction rows as [|r rows IH]; intros done cindex csize HD Hinv; [exists []; now split|].
  set (t := length done) in *.
  assert (Hr : nth_error D t = Some r) by (rewrite HD; apply nth_error_app_length).
  assert (Hfn : firstn t D = done) by (rewrite HD; apply firstn_app_length).
  assert (Hfs : firstn (S t) D = done ++ [r]) by (rewrite (firstn_S_nth D t r Hr), Hfn; reflexivity).
  destruct Hinv as (R1 & R2 & R3 & R4 & R5 & R6). rewrite Hfn in R1, R5.
  destruct (Hrows t r Hr) as (Hne & Hil & Hjl & Hiu & Hju). rewrite Hfn in Hiu, Hju.
  assert (R1' := R1). destruct R1' as (Hnd & Hkeys & Hch).
  assert (Hik : In (r_left r) (akeys cindex)) by (apply Hkeys; fold t; tauto).
  assert (Hjk : In (r_right r) (akeys cindex)) by (apply Hkeys; fold t; tauto).
  destruct (In_key_alookup _ _ Hik) as [vi Hi]. destruct (In_key_alookup _ _ Hjk) as [vj Hj].
  assert (Evi := R2 _ _ Hi). assert (Evj := R2 _ _ Hj). subst vi vj.
  assert (Hj1 : alookup (r_right r) (aremove (r_left r) cindex) = Some (phi (r_right r)))
    by (rewrite alookup_aremove_neq by auto; exact Hj).
  assert (Hnode := leaves_node n D t r Hids Hr).
  assert (Hstep : forall s, linv n (done ++ [r]) (aremove (r_right r) (aremove (r_left r) cindex) ++ [(n + t, s)]))
    by (intros s; exact (valid_run_step n done cindex r R1 _ _ Hi Hj Hne s)).
  assert (Hold : forall x v s, alookup x (aremove (r_right r) (aremove (r_left r) cindex) ++ [(n + t, s)]) = Some v ->
                               (x <> r_left r /\ x <> r_right r /\ alookup x cindex = Some v) \/ (x = n + t /\ v = s)).
  { intros x v s H. rewrite alookup_app in H.
    destruct (alookup x (aremove (r_right r) (aremove (r_left r) cindex))) as [v'|] eqn:E.
    - inversion H; subst v'. apply alookup_aremove_Some in E; [|now apply NoDup_aremove].
      destruct E as [E1 E]. apply alookup_aremove_Some in E; [|assumption]. left. tauto.
    - simpl in H. destruct (Nat.eqb x (n + t)) eqn:E2; [|discriminate]. apply Nat.eqb_eq in E2. inversion H. now right. }
  simpl. rewrite Hi, Hj1.
  destruct (fl t) eqn:Hfl.
  - (* applied: both children carry the same label, nothing is emitted *)
    destruct (red_applied t r Hr Hfl) as (Hbi & Hbj & Eli & Elj).
    assert (Ephi : phi (r_left r) = phi (r_right r)) by (unfold phi; rewrite Hbi, Hbj; congruence).
    rewrite Ephi, Nat.eqb_refl. simpl.
    destruct (IH (done ++ [r]) (aremove (r_right r) (aremove (r_left r) cindex) ++ [(n + t, phi (r_left r))]) csize) as [out [Hout Hh]].
    + now rewrite <- app_assoc.
    + rewrite app_length. simpl. rewrite Nat.add_1_r. fold t. unfold rinv. rewrite Hfs, cntU_S, Hfl, Nat.add_0_r.
      split; [apply Hstep|]. split; [|split; [exact R3|split; [exact R4|split]]].
      * intros x v H. apply Hold in H. destruct H as [(_ & _ & H)|[-> ->]]; [now apply R2|].
        unfold phi at 2. unfold inside_b. replace (n + t - n) with t by lia. rewrite Hfl, orb_true_r.
        unfold phi. now rewrite Hbi.
      * intros r0 Hr0 Hnot. apply R5; [exact Hr0|]. intros Hc. apply Hnot. rewrite flat_map_app, in_app_iff. now left.
      * intros x Hx Hout'. rewrite akeys_app, in_app_iff in Hx. cbn [akeys map fst] in Hx. destruct Hx as [Hx|[<-|[]]].
        -- apply R6; [|exact Hout']. now apply akeys_aremove_In, akeys_aremove_In in Hx.
        -- unfold inside_b in Hout'. replace (n + t - n) with t in Hout' by lia. rewrite Hfl, orb_true_r in Hout'. discriminate.
    + exists out. rewrite app_length in Hout, Hh. simpl in Hout, Hh. rewrite Nat.add_1_r in Hout, Hh. fold t in Hout, Hh.
      rewrite cntU_S, Hfl, Nat.add_0_r, <- plus_n_Sm in Hout. rewrite <- Ephi. split; [exact Hout|exact Hh].
  - (* not applied: a row is emitted *)
    assert (Hti : inside_b (r_left r) = true -> In (r_left r) (akeys K))
      by (apply (red_top t r _ Hr Hfl); now left).
    assert (Htj : inside_b (r_right r) = true -> In (r_right r) (akeys K))
      by (apply (red_top t r _ Hr Hfl); right; now left).
    assert (Hneq : phi (r_left r) <> phi (r_right r)) by (apply red_phi_neq; assumption).
    replace (Nat.eqb (phi (r_left r)) (phi (r_right r))) with false by (symmetry; now apply Nat.eqb_neq). simpl.
    assert (Hsz : forall c, In c (children r) -> alookup (phi c) csize = Some (length (leaves n D c))).
    { intros c Hc. assert (Hck : In c (akeys cindex)) by (destruct Hc as [<-|[<-|[]]]; assumption).
      assert (Hcu : ~ In c (flat_map children done)) by (destruct Hc as [<-|[<-|[]]]; assumption).
      destruct (inside_b c) eqn:Ec.
      - unfold phi. rewrite Ec. apply R5; [|exact Hcu]. apply (red_top t r c Hr Hfl Hc Ec).
      - now apply R6. }
    rewrite (Hsz (r_left r)) by now left.
    rewrite alookup_aremove_neq by auto. rewrite (Hsz (r_right r)) by (right; now left).
    set (cn := k + cntU fl t). set (sz := length (leaves n D (r_left r)) + length (leaves n D (r_right r))).
    assert (Hcn_fresh : ~ In cn (akeys csize)) by (intros Hc; apply R4 in Hc; unfold cn in Hc; lia).
    assert (Hphi_lt : forall x, In x (akeys cindex) -> (inside_b x = true -> In x (akeys K)) -> phi x < cn).
    { intros x Hx Hxt. destruct (inside_b x) eqn:Ex.
      - unfold phi. rewrite Ex. destruct (red_root_lab x (Hxt eq_refl)) as (_ & _ & _ & Hl & _). unfold cn. lia.
      - assert (H6 := R6 x Hx Ex). apply alookup_key, R4 in H6. exact H6. }
    destruct (IH (done ++ [r]) (aremove (r_right r) (aremove (r_left r) cindex) ++ [(n + t, cn)])
                 (aremove (phi (r_right r)) (aremove (phi (r_left r)) csize) ++ [(cn, sz)])) as [out [Hout Hh]].
    + now rewrite <- app_assoc.
    + rewrite app_length. simpl. rewrite Nat.add_1_r. fold t. unfold rinv. rewrite Hfs, cntU_S, Hfl.
      assert (Hcs_keys : forall m, In m (akeys (aremove (phi (r_right r)) (aremove (phi (r_left r)) csize))) ->
                                   In m (akeys csize)) by (intros m Hm; now apply akeys_aremove_In, akeys_aremove_In in Hm).
      assert (Hkeep : forall m, m <> phi (r_left r) -> m <> phi (r_right r) -> m <> cn ->
                alookup m (aremove (phi (r_right r)) (aremove (phi (r_left r)) csize) ++ [(cn, sz)]) = alookup m csize).
      { intros m H1 H2 H3. rewrite alookup_app, !alookup_aremove_neq by assumption.
        destruct (alookup m csize); [reflexivity|]. simpl.
        destruct (Nat.eqb m cn) eqn:E; [apply Nat.eqb_eq in E; congruence | reflexivity]. }
      split; [apply Hstep|]. split; [|split; [|split; [|split]]].
      * intros x v H. apply Hold in H. destruct H as [(_ & _ & H)|[-> ->]]; [now apply R2|].
        unfold phi, inside_b. replace (n + t - n) with t by lia. rewrite Hfl, orb_false_r.
        replace (Nat.ltb (n + t) n) with false by (symmetry; apply Nat.ltb_ge; lia). reflexivity.
      * apply NoDup_akeys_app_fresh; [apply NoDup_aremove, NoDup_aremove, R3|]. intros Hc. apply Hcn_fresh. now apply Hcs_keys.
      * intros m Hm. rewrite akeys_app, in_app_iff in Hm. cbn [akeys map fst] in Hm. destruct Hm as [Hm|[<-|[]]].
        -- apply Hcs_keys, R4 in Hm. lia.
        -- unfold cn. lia.
      * intros r0 Hr0 Hnot. rewrite flat_map_app, in_app_iff in Hnot. simpl in Hnot.
        assert (Hr0i : r0 <> r_left r) by (intros ->; apply Hnot; right; now left).
        assert (Hr0j : r0 <> r_right r) by (intros ->; apply Hnot; right; right; now left).
        destruct (red_root_lab r0 Hr0) as (_ & _ & _ & Hl0 & _).
        rewrite Hkeep; [apply R5; [exact Hr0 | tauto] | | | unfold cn; lia].
        -- destruct (inside_b (r_left r)) eqn:Ei.
           ++ unfold phi. rewrite Ei. intros E. apply Hr0i. apply red_root_inj; auto.
           ++ unfold phi. rewrite Ei. lia.
        -- destruct (inside_b (r_right r)) eqn:Ej.
           ++ unfold phi. rewrite Ej. intros E. apply Hr0j. apply red_root_inj; auto.
           ++ unfold phi. rewrite Ej. lia.
      * intros x Hx Hxo. rewrite akeys_app, in_app_iff in Hx. cbn [akeys map fst] in Hx. destruct Hx as [Hx|[<-|[]]].
        -- assert (Hx' : In x (akeys cindex) /\ x <> r_left r /\ x <> r_right r).
           { rewrite akeys_aremove_iff in Hx by now apply NoDup_aremove. rewrite akeys_aremove_iff in Hx by assumption. tauto. }
           destruct Hx' as (Hxk & Hxi & Hxj).
           assert (Hxt : inside_b x = true -> In x (akeys K)) by (rewrite Hxo; discriminate).
           rewrite Hkeep; [now apply R6 | | |].
           ++ apply red_phi_neq; assumption.
           ++ apply red_phi_neq; assumption.
           ++ assert (H := Hphi_lt x Hxk Hxt). lia.
        -- assert (Ephi : phi (n + t) = cn).
           { unfold phi, inside_b. replace (n + t - n) with t by lia. rewrite Hfl, orb_false_r.
             replace (Nat.ltb (n + t) n) with false by (symmetry; apply Nat.ltb_ge; lia). reflexivity. }
           rewrite Ephi, alookup_app.
           assert (Hnone : alookup cn (aremove (phi (r_right r)) (aremove (phi (r_left r)) csize)) = None).
           { apply alookup_None. intros Hc. apply Hcn_fresh. now apply Hcs_keys. }
           rewrite Hnone. simpl. rewrite Nat.eqb_refl. f_equal. rewrite Hnode, app_length. reflexivity.
    + rewrite app_length in Hout, Hh. simpl in Hout, Hh. rewrite Nat.add_1_r in Hout, Hh. fold t in Hout, Hh.
      rewrite cntU_S, Hfl, <- !plus_n_Sm, Nat.add_0_r in Hout. fold cn in Hout. rewrite Hout.
      eexists. split; [reflexivity|]. unfold heights in *. simpl. now rewrite Hh.
Qed.
(** A merge that was not applied joins leaves carrying different labels. *)
Lemma red_unapplied_diff : forall t r, nth_error D t = Some r -> fl t = false ->
  exists u v, In u (leaves n D (n + t)) /\ In v (leaves n D (n + t)) /\ nth u labels 0 <> nth v labels 0.
Proof.
  assert (Hids := valid_ids_lt n D Hv). destruct (valid_rows n D Hv) as [Hlen Hrows].
  intros t. induction t as [t IH] using lt_wf_ind. intros r Hr Hfl.
  assert (Ht : t < length D) by (apply nth_error_Some; congruence).
  destruct (Hrows t r Hr) as (Hne & Hil & Hjl & _).
  assert (Hnode := leaves_node n D t r Hids Hr).
  assert (Hsub : forall c, In c (children r) -> inside_b c = false ->
                 exists u v, In u (leaves n D c) /\ In v (leaves n D c) /\ nth u labels 0 <> nth v labels 0).
  { intros c Hc Hcb. unfold inside_b in Hcb. apply orb_false_iff in Hcb. destruct Hcb as [Hc1 Hc2].
    apply Nat.ltb_ge in Hc1. assert (Hct : c - n < t) by (destruct Hc as [<-|[<-|[]]]; lia).
    assert (Hcl : c - n < length D) by lia. apply nth_error_Some in Hcl.
    destruct (nth_error D (c - n)) as [rc|] eqn:Erc; [|congruence].
    destruct (IH (c - n) Hct rc Erc Hc2) as (u & v & Hu & Hv' & Huv).
    replace (n + (c - n)) with c in Hu, Hv' by lia. now exists u, v. }
  assert (Hhd : forall c, c < n + t -> In (hd 0 (leaves n D c)) (leaves n D c)).
  { intros c Hc. assert (Hn : leaves n D c <> []) by (apply leaves_nonempty; [assumption|lia]).
    destruct (leaves n D c); [congruence | now left]. }
  destruct (inside_b (r_left r)) eqn:Ei.
  - destruct (inside_b (r_right r)) eqn:Ej.
    + exists (hd 0 (leaves n D (r_left r))), (hd 0 (leaves n D (r_right r))).
      rewrite Hnode. split; [apply in_app_iff; left; now apply Hhd|]. split; [apply in_app_iff; right; now apply Hhd|].
      intros E. apply Hne. apply red_root_inj; [| |exact E].
      * apply (red_top t r _ Hr Hfl); [now left | exact Ei].
      * apply (red_top t r _ Hr Hfl); [right; now left | exact Ej].
    + destruct (Hsub (r_right r) ltac:(right; now left) Ej) as (u & v & Hu & Hv' & Huv).
      exists u, v. rewrite Hnode. split; [apply in_app_iff; now right|]. split; [apply in_app_iff; now right|exact Huv].
  - destruct (Hsub (r_left r) ltac:(now left) Ei) as (u & v & Hu & Hv' & Huv).
    exists u, v. rewrite Hnode. split; [apply in_app_iff; now left|]. split; [apply in_app_iff; now left|exact Huv].
Qed.
End Reduced.

Lemma alookup_init_live ws l : l < length ws -> alookup l (init_live ws) = Some (nth l ws 0).
Proof.
  intros Hl. apply In_alookup; [rewrite init_live_keys; apply seq_NoDup|].
  unfold init_live. assert (H : forall (w : list nat) s i, i < length w -> In (s + i, nth i w 0) (combine (seq s (length w)) w)).
  { induction w as [|a w IH]; intros s i Hi; simpl in *; [lia|]. destruct i as [|i].
    - left. now rewrite Nat.add_0_r.
    - right. replace (s + S i) with (S s + i) by lia. apply IH. lia. }
  exact (H ws 0 l Hl).
Qed.

Lemma sumn_lengths_concat (cs : list (list nat)) : sumn (map (@length nat) cs) = length (concat cs).
Proof. induction cs as [|c cs IH]; simpl; [reflexivity|]. now rewrite app_length, IH. Qed.

Lemma urows_ext fl g rows : forall t,
  (forall t', t <= t' < t + length rows -> fl t' = g t') -> urows fl t rows = urows g t rows.
Proof.
  induction rows as [|r rows IH]; intros t H; simpl; [reflexivity|].
  rewrite (H t) by (simpl; lia). rewrite (IH (S t)) by (intros t' Ht'; apply H; simpl; lia). reflexivity.
Qed.

Lemma get_labels_reduced guard argsort n D st sort :
  valid n D = true -> argsort_ok argsort ->
  replay guard n D (init_clusters n) = Ok st ->
  exists labels Dnew,
    get_labels argsort D st sort true = Ok (labels, Some Dnew) /\
    let ws := map (cluster_size labels) (seq 0 (num_clusters labels)) in
    validw ws Dnew = true /\ sumn ws = n /\
    heights Dnew = heights (unmerged_rows n D labels).
Proof.
  intros Hv Hargs Hrep. destruct (valid_rows n D Hv) as [Hlen Hrows]. assert (Hids := valid_ids_lt n D Hv).
  destruct (ginv_replay guard n D Hv D [] (fun _ => false) (init_clusters n) st eq_refl (ginv_init n D)) as [fl HG].
  { simpl. now rewrite Nat.add_0_r. }
  set (pst := pstate argsort st sort). assert (P : Permutation pst st) by now apply pstate_perm.
  set (labels := labels_of n (map snd pst)).
  assert (Hcp := red_cpart n D fl st HG pst P).
  destruct (cpart_labels n D pst Hcp) as (Hl1 & Hl2 & Hl3 & Hl4). fold labels in Hl1, Hl2, Hl3, Hl4.
  set (clusters := map snd pst). set (ws0 := map (@length nat) clusters).
  (* the loop starts in a state satisfying the invariant *)
  assert (Hr0 : rinv n D fl st pst 0 (combine (seq 0 n) labels) (init_live ws0)).
  { unfold rinv. simpl firstn. split; [|split; [|split; [|split; [|split]]]].
    - assert (H0 := linv_init labels). unfold init_live in H0. now rewrite Hl1 in H0.
    - intros x v H. apply alookup_In in H. rewrite <- Hl1 in H at 1. apply (combine_seq_In_gen labels 0) in H.
      destruct H as [H1 H2]. rewrite Nat.sub_0_r in H1. rewrite Hl1 in H2.
      replace (Nat.ltb x n) with true by (symmetry; apply Nat.ltb_lt; lia). simpl.
      rewrite leaves_leaf by lia. simpl. now symmetry.
    - rewrite init_live_keys. apply seq_NoDup.
    - intros m Hm. rewrite init_live_keys in Hm. apply in_seq in Hm. unfold ws0, clusters in Hm.
      rewrite !map_length in Hm. unfold cntU. simpl. lia.
    - intros r Hr _. destruct (red_root_lab n D fl st HG pst P r Hr) as (c & _ & Ec & Hlt & Enth).
      fold labels in Hlt, Enth. rewrite alookup_init_live by (unfold ws0, clusters; now rewrite !map_length).
      f_equal. unfold ws0, clusters. rewrite map_map.
      rewrite (nth_indep _ 0 ((fun x : nat * list nat => length (snd x)) (0, []))) by now rewrite map_length.
      fold labels. rewrite (map_nth (fun x : nat * list nat => length (snd x))), Enth. simpl. now rewrite Ec.
    - intros x Hx Hout. exfalso. unfold akeys in Hx. rewrite map_fst_combine in Hx by now rewrite seq_length.
      apply in_seq in Hx. apply orb_false_iff in Hout. destruct Hout as [Hout _]. apply Nat.ltb_ge in Hout. lia. }
  destruct (red_loop n D Hv fl st HG pst P D [] _ _ eq_refl Hr0) as [out [Hout Hh]].
  simpl in Hout, Hh. rewrite Nat.add_0_r in Hout. unfold cntU in Hout at 1. simpl in Hout. rewrite Nat.add_0_r in Hout.
  exists labels, out.
  assert (Hget : get_labels argsort D st sort true = Ok (labels, Some out)).
  { unfold get_labels. rewrite Hlen.
    assert (E : (if sort then map (fun i => nth i (map snd st) []) (argsort (map (fun c => (- Z.of_nat (length c))%Z) (map snd st)))
                 else map snd st) = clusters).
    { unfold clusters, pst, pstate, negsizes. destruct sort; [|reflexivity]. etransitivity; [|symmetry; apply map_map].
      apply map_ext. intros i. exact (map_nth snd st (0, []) i). }
    assert (Hlw' : length ws0 = length pst) by (unfold ws0, clusters; now rewrite !map_length).
    rewrite E. change (labels_of n clusters) with labels. rewrite Hl1.
    replace (length clusters) with (length pst) by (unfold clusters; now rewrite map_length).
    change (map (@length nat) clusters) with ws0.
    replace (combine (seq 0 (length pst)) ws0) with (init_live ws0) by (unfold init_live; now rewrite Hlw').
    rewrite Hout. reflexivity. }
  split; [exact Hget|].
  destruct HG as (Hc & HK & HF & HL & HZ).
  assert (Hsub : subtree_partition n D labels (akeys pst)).
  { unfold subtree_partition, akeys. rewrite map_length. split; [exact Hl1|]. split; [exact Hl2|]. split; [|exact Hl4].
    intros l v Hl Hvn. change 0 with (fst (0, @nil nat)) at 2. rewrite map_nth. now apply Hl3. }
  assert (Hnum : num_clusters labels = length pst).
  { rewrite (subtree_partition_num _ _ _ _ Hsub). unfold akeys. now rewrite map_length. }
  assert (Hws : map (cluster_size labels) (seq 0 (num_clusters labels)) = ws0).
  { rewrite Hnum. unfold ws0, clusters. rewrite <- (map_nth_seq (map (@length nat) (map snd pst)) 0) at 1.
    rewrite !map_length. apply map_ext_in. intros l Hl. apply in_seq in Hl.
    unfold labels. rewrite (cpart_sizes n D pst l Hcp) by lia.
    rewrite (nth_indep _ 0 (length (@nil nat))) by (rewrite !map_length; lia). now rewrite map_nth. }
  cbv zeta. rewrite Hws.
  assert (Hk : length st + cntT fl (length D) = n) by exact HL.
  assert (Hlo : S (length out) = length ws0).
  { assert (E := urows_length fl D 0). simpl in E. unfold cntU in E at 1. simpl in E. rewrite Nat.add_0_r in E.
    assert (Elen : length out = length (urows fl 0 D)).
    { apply (f_equal (@length Q)) in Hh. unfold heights in Hh. now rewrite !map_length in Hh. }
    assert (E3 := cntT_cntU fl (length D)). unfold ws0, clusters. rewrite !map_length.
    rewrite (Permutation_length P). lia. }
  assert (Hrun := reduce_loop_valid_run _ _ _ _ _ _ Hout). destruct Hrun as [live' Hrun].
  assert (Hlw : length ws0 = length pst) by (unfold ws0, clusters; now rewrite !map_length).
  rewrite <- Hlw in Hrun.
  split; [|split].
  - unfold validw. rewrite Hlo, Nat.eqb_refl, Hrun. simpl.
    destruct out as [|r0 o] eqn:Eo; [reflexivity|]. rewrite <- Eo in *. apply Nat.eqb_eq.
    apply (valid_run_last_size ws0 out live' Hlo Hrun). rewrite Eo. discriminate.
  - unfold ws0. rewrite sumn_lengths_concat. destruct Hcp as (_ & _ & Hperm).
    fold clusters in Hperm. rewrite (Permutation_length Hperm). apply seq_length.
  - rewrite Hh. unfold unmerged_rows. f_equal. apply urows_ext. intros t [_ Ht]. simpl in Ht.
    assert (HG' : ginv n D (length D) fl st) by (split; [exact Hc|split; [exact HK|split; [exact HF|split; [exact HL|exact HZ]]]]).
    assert (Ht2 := Ht). apply nth_error_Some in Ht2. destruct (nth_error D t) as [r|] eqn:Er; [|congruence].
    assert (Hne : leaves n D (n + t) <> []) by (apply leaves_nonempty; [assumption|lia]).
    destruct (fl t) eqn:Hfl; symmetry.
    + destruct (HF t r Ht Er Hfl) as (_ & _ & k0 & c & Hin & Hincl).
      destruct (red_same_label n D fl st HG' pst P k0 c Hin) as (l & _ & _ & Hl). fold labels in Hl.
      unfold all_same. apply forallb_forall. intros u Hu. apply Nat.eqb_eq.
      rewrite (Hl u (Hincl u Hu)). symmetry. apply Hl, Hincl. destruct (leaves n D (n + t)); [congruence | now left].
    + destruct (red_unapplied_diff n D Hv fl st HG' pst P t r Er Hfl) as (u & v & Hu & Hv' & Huv). fold labels in Huv.
      destruct (all_same labels (leaves n D (n + t))) eqn:Eall; [|reflexivity]. exfalso.
      unfold all_same in Eall. rewrite forallb_forall in Eall.
      apply Huv. assert (E1 := Eall u Hu). assert (E2 := Eall v Hv'). apply Nat.eqb_eq in E1, E2. congruence.
Qed.

Lemma cut_height_total n D nc th : S (length D) = n -> 2 <= n ->
  match nc with Some k => 1 <= k <= n | None => True end -> exists cut, cut_height D nc th = Ok cut.
Proof.
  intros Hlen Hn Hnc. unfold cut_height. rewrite Hlen.
  set (k := match nc with Some k => k | None => match th with None => 2 | Some _ => n end end).
  assert (Hk : resolve_n_clusters n nc th = Ok k).
  { unfold k, resolve_n_clusters. destruct nc as [k0|]; [|now destruct th]. unfold check_n_clusters.
    replace (Nat.ltb n k0) with false by (symmetry; apply Nat.ltb_ge; lia).
    now replace (Nat.ltb k0 1) with false by (symmetry; apply Nat.ltb_ge; lia). }
  rewrite Hk. destruct (Nat.eqb k 1) eqn:E1; [now eexists|]. apply Nat.eqb_neq in E1.
  assert (Hlt : n - k < length (sortq (heights D))).
  { rewrite sortq_length. unfold heights. rewrite map_length. unfold k in *. destruct nc; [lia|]. destruct th; lia. }
  apply nth_error_Some in Hlt. destruct (nth_error (sortq (heights D)) (n - k)) as [c|]; [|congruence].
  eexists. reflexivity.
Qed.

(** Reduced dendrogram returned by cut_straight (return_dendrogram = True). *)
Lemma cut_straight_reduced argsort n D0 D nc th sort :
  cut_input D0 true = Ok D -> valid n D = true -> 2 <= n -> argsort_ok argsort ->
  match nc with Some k => 1 <= k <= n | None => True end ->
  exists labels Dnew,
    cut_straight argsort D0 nc th sort true = Ok (labels, Some Dnew) /\
    let ws := map (cluster_size labels) (seq 0 (num_clusters labels)) in
    validw ws Dnew = true /\ sumn ws = n /\
    heights Dnew = heights (unmerged_rows n D labels).
Proof.
  intros Hin Hv Hn Hargs Hnc. destruct (valid_rows n D Hv) as [Hlen Hrows].
  destruct (cut_height_total n D nc th Hlen Hn Hnc) as [cut Hcut].
  destruct (replay_total (straight_guard cut) D n (init_clusters n)) as [st Hst].
  { intros r Hr. destruct (In_nth_error _ _ Hr) as [t Ht]. destruct (Hrows t r Ht) as [H _]. exact H. }
  destruct (get_labels_reduced _ argsort n D st sort Hv Hargs Hst) as (labels & Dnew & Hget & Hprops).
  exists labels, Dnew. split; [|exact Hprops].
  unfold cut_straight, straight_state, straight_state_with. rewrite Hin, Hcut, Hlen, Hst. exact Hget.
Qed.

Lemma cut_balanced_reduced argsort n D m sort :
  valid n D = true -> argsort_ok argsort -> 2 <= m <= n ->
  exists labels Dnew,
    cut_balanced argsort D m sort true = Ok (labels, Some Dnew) /\
    let ws := map (cluster_size labels) (seq 0 (num_clusters labels)) in
    validw ws Dnew = true /\ sumn ws = n /\
    heights Dnew = heights (unmerged_rows n D labels).
Proof.
  intros Hv Hargs Hm. destruct (valid_rows n D Hv) as [Hlen Hrows].
  destruct (replay_total (balanced_guard m) D n (init_clusters n)) as [st Hst].
  { intros r Hr. destruct (In_nth_error _ _ Hr) as [t Ht]. destruct (Hrows t r Ht) as [H _]. exact H. }
  destruct (get_labels_reduced _ argsort n D st sort Hv Hargs Hst) as (labels & Dnew & Hget & Hprops).
  exists labels, Dnew. split; [|exact Hprops].
  unfold cut_balanced, balanced_state. rewrite Hlen.
  replace (Nat.ltb m 2) with false by (symmetry; apply Nat.ltb_ge; lia).
  replace (Nat.ltb n m) with false by (symmetry; apply Nat.ltb_ge; lia). simpl. rewrite Hst. exact Hget.
Qed.

Lemma cut_balanced_total argsort n D m sort ret :
  valid n D = true -> argsort_ok argsort -> 2 <= m <= n ->
  exists labels od, cut_balanced argsort D m sort ret = Ok (labels, od).
Proof.
  intros Hv Hargs Hm. destruct ret.
  - destruct (cut_balanced_reduced argsort n D m sort Hv Hargs Hm) as (l & d & H & _). now exists l, (Some d).
  - destruct (valid_rows n D Hv) as [Hlen Hrows].
    destruct (replay_total (balanced_guard m) D n (init_clusters n)) as [st Hst].
    { intros r Hr. destruct (In_nth_error _ _ Hr) as [t Ht]. destruct (Hrows t r Ht) as [H _]. exact H. }
    unfold cut_balanced, balanced_state. rewrite Hlen.
    replace (Nat.ltb m 2) with false by (symmetry; apply Nat.ltb_ge; lia).
    replace (Nat.ltb n m) with false by (symmetry; apply Nat.ltb_ge; lia). simpl. rewrite Hst.
    unfold get_labels. eexists. eexists. reflexivity.
Qed.

(** * Hierarchy metrics: Dasgupta's cost and score (get_sampling_distributions over the AggregateGraph) *)
#[local] Arguments Qred : simpl never.
#[local] Arguments Qdiv : simpl never.
#[local] Arguments Qplus : simpl never.
#[local] Arguments Qmult : simpl never.
#[local] Arguments adj : simpl never.
#[local] Arguments total_weight : simpl never.

(** * Rational sums *)
Lemma qsum_cons a l : qsum (a :: l) = Qred (a + qsum l). Proof. reflexivity. Qed.
Lemma sumq_cons a l : sumq (a :: l) = (a + sumq l)%Q. Proof. reflexivity. Qed.
Lemma sumq_nil : sumq [] = 0%Q. Proof. reflexivity. Qed.

Lemma qsum_sumq l : (qsum l == sumq l)%Q.
Proof. induction l as [|a l IH]; [reflexivity|]. rewrite qsum_cons, sumq_cons, Qred_correct, IH. reflexivity. Qed.

Lemma sumq_app l1 l2 : (sumq (l1 ++ l2) == sumq l1 + sumq l2)%Q.
Proof.
  induction l1 as [|a l1 IH]; [rewrite sumq_nil; cbn [app]; ring|].
  cbn [app]. rewrite !sumq_cons, IH. ring.
Qed.

Lemma sumq_ext {A} (f g : A -> Q) l : (forall a, In a l -> (f a == g a)%Q) -> (sumq (map f l) == sumq (map g l))%Q.
Proof.
  induction l as [|a l IH]; intros H; [reflexivity|]. cbn [map]. rewrite !sumq_cons.
  rewrite (H a) by now left. rewrite IH by (intros; apply H; now right). reflexivity.
Qed.

Lemma sumq_scale {A} (f : A -> Q) c l : (sumq (map (fun a => c * f a) l) == c * sumq (map f l))%Q.
Proof. induction l as [|a l IH]; cbn [map]; [rewrite sumq_nil; ring | rewrite !sumq_cons, IH; ring]. Qed.

Lemma sumq_plus {A} (f g : A -> Q) l : (sumq (map (fun a => f a + g a) l) == sumq (map f l) + sumq (map g l))%Q.
Proof. induction l as [|a l IH]; cbn [map]; [rewrite sumq_nil; ring | rewrite !sumq_cons, IH; ring]. Qed.

Lemma sumq_zero {A} (f : A -> Q) l : (forall a, In a l -> (f a == 0)%Q) -> (sumq (map f l) == 0)%Q.
Proof.
  induction l as [|a l IH]; cbn [map]; intros H; [reflexivity|]. rewrite sumq_cons.
  rewrite (H a) by now left. rewrite IH by (intros; apply H; now right). ring.
Qed.

Lemma sumq_perm l l' : Permutation l l' -> (sumq l == sumq l')%Q.
Proof.
  induction 1 as [|x l l' P IH|x y l|l l' l'' P1 IH1 P2 IH2]; rewrite ?sumq_cons.
  - reflexivity.
  - rewrite IH. reflexivity.
  - ring.
  - etransitivity; eassumption.
Qed.

Lemma sumq_nonneg l : (forall x, In x l -> (0 <= x)%Q) -> (0 <= sumq l)%Q.
Proof.
  induction l as [|a l IH]; intros H; [apply Qle_refl|]. rewrite sumq_cons.
  assert (H1 : (0 <= a)%Q) by (apply H; now left).
  assert (H2 : (0 <= sumq l)%Q) by (apply IH; intros; apply H; now right). lra.
Qed.

Lemma sumq_le {A} (f g : A -> Q) l : (forall a, In a l -> (f a <= g a)%Q) -> (sumq (map f l) <= sumq (map g l))%Q.
Proof.
  induction l as [|a l IH]; cbn [map]; intros H; [apply Qle_refl|]. rewrite !sumq_cons.
  assert (H1 := H a (or_introl eq_refl)). assert (H2 : (sumq (map f l) <= sumq (map g l))%Q) by (apply IH; intros; apply H; now right). lra.
Qed.

(** Exchange of two finite sums. *)
Lemma sumq_swap {A B} (f : A -> B -> Q) la lb :
  (sumq (map (fun a => sumq (map (fun b => f a b) lb)) la) == sumq (map (fun b => sumq (map (fun a => f a b) la)) lb))%Q.
Proof.
  induction la as [|a la IH]; cbn [map].
  - rewrite sumq_nil. symmetry. apply sumq_zero. intros. reflexivity.
  - rewrite sumq_cons, IH. rewrite <- sumq_plus. apply sumq_ext. intros b _. rewrite sumq_cons. reflexivity.
Qed.

(** * Liveness of the ids in a dict replayed along the merges (any value type) *)
Definition linvp {A} (k : nat) (done : dendrogram) (live : list (nat * A)) : Prop :=
  NoDup (akeys live) /\
  (forall x, In x (akeys live) <-> x < k + length done /\ ~ In x (flat_map children done)) /\
  (forall c, In c (flat_map children done) -> c < k + length done).

Lemma linvp_step {A} k done (live : list (nat * A)) r :
  linvp k done live -> In (r_left r) (akeys live) -> In (r_right r) (akeys live) -> r_left r <> r_right r ->
  forall s, linvp k (done ++ [r]) (aremove (r_right r) (aremove (r_left r) live) ++ [(k + length done, s)]).
Proof.
  intros (Hnd & Hkeys & Hch) Hik Hjk Hne s.
  apply Hkeys in Hik. apply Hkeys in Hjk.
  assert (Hnd1 : NoDup (akeys (aremove (r_left r) live))) by now apply NoDup_aremove.
  assert (Hkeys2 : forall x, In x (akeys (aremove (r_right r) (aremove (r_left r) live))) <->
                             In x (akeys live) /\ x <> r_left r /\ x <> r_right r).
  { intros x. rewrite akeys_aremove_iff by assumption. rewrite akeys_aremove_iff by assumption. tauto. }
  split; [|split].
  - apply NoDup_akeys_app_fresh; [now apply NoDup_aremove|]. rewrite Hkeys2, Hkeys. lia.
  - intros x. rewrite akeys_app, in_app_iff, Hkeys2, Hkeys, flat_map_app, in_app_iff, app_length. simpl.
    split.
    + intros [[[H1 H2] [H3 H4]]|[H|[]]].
      * split; [lia|]. intros [Hc|[Hc|[Hc|[]]]]; [tauto|congruence|congruence].
      * subst x. split; [lia|]. intros [Hc|[Hc|[Hc|[]]]]; [apply Hch in Hc; lia | lia | lia].
    + intros [Hlt Hnot].
      destruct (Nat.eq_dec x (k + length done)) as [->|Hx]; [right; now left|].
      left. repeat split; try lia; try tauto; intros ->; apply Hnot; right; simpl; tauto.
  - intros c. rewrite flat_map_app, in_app_iff, app_length. simpl.
    intros [H|[H|[H|[]]]]; [apply Hch in H; lia | subst c; lia | subst c; lia].
Qed.

Lemma linvp_init {A} n (vals : list A) : length vals = n -> linvp n [] (combine (seq 0 n) vals).
Proof.
  intros Hl. unfold linvp, akeys. rewrite map_fst_combine by (now rewrite seq_length). simpl.
  split; [apply seq_NoDup|]. split; [|tauto]. intros x. rewrite in_seq. lia.
Qed.

(** * Reading weights in a dict with default 0 *)
Lemma getw_notin r y : ~ In y (akeys r) -> getw r y = 0%Q.
Proof. intros H. unfold getw. apply alookup_None in H. now rewrite H. Qed.

Lemma getw_aremove r a y : NoDup (akeys r) -> getw (aremove a r) y = if Nat.eqb y a then 0%Q else getw r y.
Proof.
  intros Hnd. unfold getw. destruct (Nat.eqb y a) eqn:E.
  - apply Nat.eqb_eq in E. subst. now rewrite alookup_aremove_eq.
  - apply Nat.eqb_neq in E. now rewrite alookup_aremove_neq.
Qed.

Lemma getw_snoc r c q y : ~ In c (akeys r) -> getw (r ++ [(c, q)]) y = if Nat.eqb y c then q else getw r y.
Proof.
  intros Hc. unfold getw. rewrite alookup_app. destruct (Nat.eqb y c) eqn:E.
  - apply Nat.eqb_eq in E. subst. apply alookup_None in Hc. rewrite Hc. simpl. now rewrite Nat.eqb_refl.
  - destruct (alookup y r); [reflexivity|]. simpl. now rewrite E.
Qed.

Lemma amem_false_notin {A} (r : list (nat * A)) y : amem y r = false -> ~ In y (akeys r).
Proof. unfold amem. destruct (alookup y r) eqn:E; [discriminate|]. intros _. now apply alookup_None. Qed.

Lemma amem_true_in {A} (r : list (nat * A)) y : amem y r = true -> In y (akeys r).
Proof. unfold amem. destruct (alookup y r) eqn:E; [|discriminate]. intros _. eapply alookup_key; eassumption. Qed.

Lemma alookup_map_vals {A B} (f : nat -> A -> B) (l : list (nat * A)) x :
  alookup x (map (fun xr : nat * A => let (k, v) := xr in (k, f k v)) l) =
  match alookup x l with Some v => Some (f x v) | None => None end.
Proof.
  induction l as [|[k v] l IH]; simpl; [reflexivity|]. destruct (Nat.eqb x k) eqn:E; [|exact IH].
  apply Nat.eqb_eq in E. now subst.
Qed.

Lemma akeys_map_vals {A B} (f : nat -> A -> B) (l : list (nat * A)) :
  akeys (map (fun xr : nat * A => let (k, v) := xr in (k, f k v)) l) = akeys l.
Proof. unfold akeys. rewrite map_map. apply map_ext. now intros [k v]. Qed.

Lemma linvp_of_keys_gen {A} n (live : list (nat * A)) : akeys live = seq 0 n -> linvp n [] live.
Proof.
  intros E. unfold linvp. rewrite E. simpl. split; [apply seq_NoDup|]. split; [|tauto].
  intros x. rewrite in_seq. lia.
Qed.

Lemma alookup_map_seq {A} (f : nat -> A) n x : x < n -> alookup x (map (fun u => (u, f u)) (seq 0 n)) = Some (f x).
Proof.
  intros H. apply In_alookup.
  - unfold akeys. rewrite map_map. simpl. rewrite map_id. apply seq_NoDup.
  - apply in_map_iff. exists x. split; [reflexivity | apply in_seq; lia].
Qed.

Lemma getw_combine_seq (vals : list Q) n x : length vals = n -> x < n -> getw (combine (seq 0 n) vals) x = nthq vals x.
Proof.
  intros Hl Hx. unfold getw. rewrite (In_alookup x (nthq vals x)); [reflexivity| |].
  - unfold akeys. rewrite map_fst_combine by now rewrite seq_length. apply seq_NoDup.
  - subst n. assert (H : forall (w : list Q) s i, i < length w -> In (s + i, nth i w 0%Q) (combine (seq s (length w)) w)).
    { induction w as [|a w IH]; intros s i Hi; simpl in *; [lia|]. destruct i as [|i].
      - left. now rewrite Nat.add_0_r.
      - right. replace (s + S i) with (S s + i) by lia. apply IH. lia. }
    exact (H vals 0 x Hx).
Qed.

Lemma stored_false_adj G u v : stored G u v = false -> adj G u v = 0%Q.
Proof.
  unfold stored, adj. intros H.
  assert (E : filter (fun e => Nat.eqb (e_src e) u && Nat.eqb (e_dst e) v) G = []).
  { induction G as [|e G' IH]; [reflexivity|]. simpl in *. apply orb_false_iff in H. destruct H as [H1 H2].
    rewrite H1. now apply IH. }
  now rewrite E.
Qed.

Section AGraph.
Context (degree : bool) (n : nat) (G : wgraph) (D : dendrogram) (Hv : valid n D = true).

Let tw := (2 * total_weight G)%Q.
Definition sw (u v : nat) : Q := Qred ((adj G u v + adj G v u) / tw).
Definition cross (x y : nat) : Q :=
  sumq (map (fun u => sumq (map (fun v => sw u v) (leaves n D y))) (leaves n D x)).
Definition PR (L : list nat) : Q := sumq (map (nthq (probs_row degree n G)) L).
Definition PC (L : list nat) : Q := sumq (map (nthq (probs_col degree n G)) L).
Definition Wd (g : agraph) (x y : nat) : Q := getw (getrow (ag_nb g) x) y.

Definition ainv (t : nat) (g : agraph) : Prop :=
  ag_next g = n + t /\
  linvp n (firstn t D) (ag_nb g) /\ linvp n (firstn t D) (ag_out g) /\ linvp n (firstn t D) (ag_in g) /\
  (forall x rx, In (x, rx) (ag_nb g) -> NoDup (akeys rx) /\ forall y, In y (akeys rx) -> y < n + t) /\
  (forall x y, In x (akeys (ag_nb g)) -> In y (akeys (ag_nb g)) -> x <> y -> (Wd g x y == cross x y)%Q) /\
  (forall x, In x (akeys (ag_nb g)) -> x < n -> (Wd g x x == sw x x)%Q) /\
  (forall x, In x (akeys (ag_out g)) -> (getw (ag_out g) x == PR (leaves n D x))%Q) /\
  (forall x, In x (akeys (ag_in g)) -> (getw (ag_in g) x == PC (leaves n D x))%Q).

Lemma linvp_of_keys {A} (live : list (nat * A)) : akeys live = seq 0 n -> linvp n [] live.
Proof.
  intros E. unfold linvp. rewrite E. simpl. split; [apply seq_NoDup|]. split; [|tauto].
  intros x. rewrite in_seq. lia.
Qed.

Definition init_row (u : nat) : list (nat * Q) :=
  map (fun v => (v, Qred ((adj G u v + adj G v u) / (2 * total_weight G))%Q))
      (filter (fun v => stored G u v || stored G v u) (seq 0 n)).

Lemma ainv_init : ainv 0 (ag_init degree n G).
Proof.
  unfold ainv, ag_init. cbn [ag_next ag_nb ag_out ag_in firstn].
  change (map (fun u : nat => (u, map (fun v : nat => (v, Qred ((adj G u v + adj G v u) / (2 * total_weight G))%Q))
                                     (filter (fun v : nat => stored G u v || stored G v u) (seq 0 n)))) (seq 0 n))
    with (map (fun u => (u, init_row u)) (seq 0 n)).
  assert (Hlr : length (probs_row degree n G) = n) by (unfold probs_row; now rewrite map_length, seq_length).
  assert (Hlc : length (probs_col degree n G) = n) by (unfold probs_col; now rewrite map_length, seq_length).
  assert (Hkeys : akeys (map (fun u => (u, init_row u)) (seq 0 n)) = seq 0 n).
  { unfold akeys. rewrite map_map. simpl. apply map_id. }
  assert (Hrowkeys : forall u, akeys (init_row u) = filter (fun v => stored G u v || stored G v u) (seq 0 n)).
  { intros u. unfold akeys, init_row. rewrite map_map. simpl. apply map_id. }
  assert (Hget : forall x y, x < n -> y < n -> (getw (init_row x) y == sw x y)%Q).
  { intros x y Hx Hy. destruct (stored G x y || stored G y x) eqn:Es.
    - unfold getw. rewrite (In_alookup y (sw x y)); [reflexivity| |].
      + rewrite Hrowkeys. apply NoDup_filter, seq_NoDup.
      + unfold init_row. apply in_map_iff. exists y. split; [reflexivity|]. apply filter_In. split; [apply in_seq; lia | exact Es].
    - rewrite getw_notin.
      + apply orb_false_iff in Es. destruct Es as [E1 E2]. unfold sw.
        rewrite (stored_false_adj _ _ _ E1), (stored_false_adj _ _ _ E2), Qred_correct. unfold Qdiv. ring.
      + rewrite Hrowkeys, filter_In. intros [_ H]. congruence. }
  split; [lia|]. split; [now apply linvp_of_keys|].
  split; [apply linvp_init; exact Hlr|]. split; [apply linvp_init; exact Hlc|].
  split; [|split; [|split; [|split]]].
  - intros x rx Hin. apply in_map_iff in Hin. destruct Hin as [u [E Hu]]. injection E as E1 E2. subst x rx.
    rewrite Hrowkeys. split; [apply NoDup_filter, seq_NoDup|]. intros y Hy. apply filter_In in Hy. destruct Hy as [Hy _].
    apply in_seq in Hy. lia.
  - intros x y Hx Hy Hne. rewrite Hkeys in Hx, Hy. apply in_seq in Hx, Hy.
    unfold Wd, getrow. simpl. rewrite alookup_map_seq by lia. rewrite Hget by lia.
    unfold cross. rewrite !leaves_leaf by lia. simpl. ring.
  - intros x Hx Hxn. unfold Wd, getrow. simpl. rewrite alookup_map_seq by lia. apply Hget; lia.
  - intros x Hx. unfold akeys in Hx. rewrite map_fst_combine in Hx by now rewrite seq_length. apply in_seq in Hx.
    rewrite getw_combine_seq by (assumption || lia). unfold PR. rewrite leaves_leaf by lia. simpl. ring.
  - intros x Hx. unfold akeys in Hx. rewrite map_fst_combine in Hx by now rewrite seq_length. apply in_seq in Hx.
    rewrite getw_combine_seq by (assumption || lia). unfold PC. rewrite leaves_leaf by lia. simpl. ring.
Qed.

Lemma linvp_keys_eq {A B} k done (l1 : list (nat * A)) (l2 : list (nat * B)) :
  akeys l1 = akeys l2 -> linvp k done l1 -> linvp k done l2.
Proof. unfold linvp. intros E. now rewrite E. Qed.

Lemma alookup_map_key {B} (h : nat -> B) l y :
  alookup y (map (fun x => (x, h x)) l) = if memn y l then Some (h y) else None.
Proof.
  induction l as [|x l IH]; simpl; [reflexivity|]. unfold memn in *. simpl.
  destruct (Nat.eqb y x) eqn:E; [apply Nat.eqb_eq in E; now subst | exact IH].
Qed.

(** The rewritten row of a neighbour x in AggregateGraph.merge. *)
Definition mrow (a b c : nat) (rx : list (nat * Q)) : list (nat * Q) :=
  if amem a rx || amem b rx
  then aremove b (aremove a rx) ++ [(c, Qred (getw rx a + getw rx b)%Q)]
  else rx.

Lemma mrow_get a b c rx y : NoDup (akeys rx) -> ~ In c (akeys rx) -> y <> a -> y <> b ->
  (getw (mrow a b c rx) y == if Nat.eqb y c then getw rx a + getw rx b else getw rx y)%Q.
Proof.
  intros Hnd Hc Ha Hb. unfold mrow. destruct (amem a rx || amem b rx) eqn:Em.
  - rewrite getw_snoc by (intros H; apply akeys_aremove_In, akeys_aremove_In in H; tauto).
    destruct (Nat.eqb y c) eqn:E; [apply Qred_correct|].
    rewrite getw_aremove by now apply NoDup_aremove. rewrite getw_aremove by assumption.
    replace (Nat.eqb y b) with false by (symmetry; now apply Nat.eqb_neq).
    replace (Nat.eqb y a) with false by (symmetry; now apply Nat.eqb_neq). reflexivity.
  - apply orb_false_iff in Em. destruct Em as [E1 E2].
    destruct (Nat.eqb y c) eqn:E; [|reflexivity]. apply Nat.eqb_eq in E. subst y.
    rewrite (getw_notin rx c Hc), (getw_notin rx a (amem_false_notin _ _ E1)), (getw_notin rx b (amem_false_notin _ _ E2)). ring.
Qed.

Lemma mrow_keys a b c rx t : NoDup (akeys rx) -> (forall y, In y (akeys rx) -> y < c) -> c < t ->
  NoDup (akeys (mrow a b c rx)) /\ forall y, In y (akeys (mrow a b c rx)) -> y < t.
Proof.
  intros Hnd Hb Hc. unfold mrow. destruct (amem a rx || amem b rx).
  - split.
    + apply NoDup_akeys_app_fresh; [now apply NoDup_aremove, NoDup_aremove|].
      intros H. apply akeys_aremove_In, akeys_aremove_In, Hb in H. lia.
    + intros y Hy. rewrite akeys_app, in_app_iff in Hy. destruct Hy as [Hy|[<-|[]]]; [|exact Hc].
      apply akeys_aremove_In, akeys_aremove_In, Hb in Hy. lia.
  - split; [exact Hnd|]. intros y Hy. apply Hb in Hy. lia.
Qed.

Lemma cross_app_l x a b y : leaves n D x = leaves n D a ++ leaves n D b -> (cross x y == cross a y + cross b y)%Q.
Proof. intros E. unfold cross. rewrite E, map_app, sumq_app. reflexivity. Qed.

Lemma cross_app_r x a b y : leaves n D y = leaves n D a ++ leaves n D b -> (cross x y == cross x a + cross x b)%Q.
Proof.
  intros E. unfold cross. rewrite E. rewrite <- sumq_plus. apply sumq_ext. intros u _.
  rewrite map_app, sumq_app. reflexivity.
Qed.

Lemma ainv_step t r g : nth_error D t = Some r -> ainv t g ->
  exists g', ag_merge g (r_left r) (r_right r) = Ok g' /\ ainv (S t) g'.
Proof.
  intros Hr (Hnext & Lnb & Lout & Lin & Hrowsinv & HW & HWs & Hout & Hinw).
  assert (Hids := valid_ids_lt n D Hv). destruct (valid_rows n D Hv) as [Hlen Hrows].
  destruct (Hrows t r Hr) as (Hne & Hil & Hjl & Hiu & Hju).
  assert (Ht : t < length D) by (apply nth_error_Some; congruence).
  assert (Hft : length (firstn t D) = t) by (rewrite firstn_length; lia).
  set (a := r_left r) in *. set (b := r_right r) in *. set (c := n + t).
  assert (Hlive : forall {A} (l : list (nat * A)), linvp n (firstn t D) l -> In a (akeys l) /\ In b (akeys l)).
  { intros A l (_ & Hk & _). split; apply Hk; rewrite Hft; tauto. }
  destruct (Hlive _ _ Lnb) as [Hanb Hbnb]. destruct (Hlive _ _ Lout) as [Hao Hbo]. destruct (Hlive _ _ Lin) as [Hai Hbi].
  destruct (In_key_alookup _ _ Hanb) as [ra Era]. destruct (In_key_alookup _ _ Hbnb) as [rb Erb].
  destruct (In_key_alookup _ _ Hao) as [oa Eoa]. destruct (In_key_alookup _ _ Hbo) as [ob Eob].
  destruct (In_key_alookup _ _ Hai) as [ia Eia]. destruct (In_key_alookup _ _ Hbi) as [ib Eib].
  unfold ag_merge. rewrite Era, Erb, Eoa, Eob, Eia, Eib.
  replace (Nat.eqb a b) with false by (symmetry; now apply Nat.eqb_neq). rewrite Hnext. fold c.
  eexists. split; [reflexivity|].
  set (others := filter (fun x => negb (Nat.eqb x a) && negb (Nat.eqb x b)) (nodup Nat.eq_dec (akeys ra ++ akeys rb))).
  set (newrow := (c, Qred (getw ra a + getw ra b + getw rb a + getw rb b)%Q) ::
                 map (fun x => (x, Qred (getw ra x + getw rb x)%Q)) others).
  assert (Hfs : firstn (S t) D = firstn t D ++ [r]) by now apply firstn_S_nth.
  destruct Lnb as (Hndnb & Hknb & Hchnb).
  assert (Hra := Hrowsinv a ra (alookup_In _ _ _ Era)). assert (Hrb := Hrowsinv b rb (alookup_In _ _ _ Erb)).
  destruct Hra as [Hndra Hbra]. destruct Hrb as [Hndrb Hbrb].
  (* the rewritten rows *)
  set (nb1 := aremove b (aremove a (ag_nb g))).
  assert (Enb2 : map (fun xr : nat * list (nat * Q) => let (x, rx) := xr in
                        if amem a rx || amem b rx
                        then (x, aremove b (aremove a rx) ++ [(c, Qred (getw rx a + getw rx b)%Q)])
                        else (x, rx)) nb1 =
                 map (fun xr : nat * list (nat * Q) => let (x, rx) := xr in (x, (fun _ => mrow a b c) x rx)) nb1).
  { apply map_ext. intros [x rx]. unfold mrow. destruct (amem a rx || amem b rx); reflexivity. }
  rewrite Enb2. set (nb2 := map (fun xr : nat * list (nat * Q) => let (x, rx) := xr in (x, (fun _ => mrow a b c) x rx)) nb1).
  assert (Hk2 : akeys nb2 = akeys nb1) by apply akeys_map_vals.
  assert (Hknb1 : forall x, In x (akeys nb1) <-> In x (akeys (ag_nb g)) /\ x <> a /\ x <> b).
  { intros x. unfold nb1. rewrite akeys_aremove_iff by now apply NoDup_aremove. rewrite akeys_aremove_iff by assumption. tauto. }
  assert (Hcfresh : ~ In c (akeys (ag_nb g))) by (intros H; apply Hknb in H; rewrite Hft in H; unfold c in H; lia).
  assert (Hrow_c : getrow (nb2 ++ [(c, newrow)]) c = newrow).
  { unfold getrow. rewrite alookup_app.
    assert (E : alookup c nb2 = None) by (apply alookup_None; rewrite Hk2, Hknb1; tauto).
    rewrite E. simpl. now rewrite Nat.eqb_refl. }
  assert (Hrow_x : forall x, In x (akeys (ag_nb g)) -> x <> a -> x <> b ->
             exists rx, alookup x (ag_nb g) = Some rx /\ getrow (nb2 ++ [(c, newrow)]) x = mrow a b c rx).
  { intros x Hx Hxa Hxb. destruct (In_key_alookup _ _ Hx) as [rx Erx]. exists rx. split; [exact Erx|].
    unfold getrow. rewrite alookup_app. unfold nb2. rewrite alookup_map_vals. unfold nb1.
    rewrite !alookup_aremove_neq by auto. now rewrite Erx. }
  assert (Hnew_get : forall y, y <> a -> y <> b -> y <> c -> (getw newrow y == getw ra y + getw rb y)%Q).
  { intros y Hya Hyb Hyc. unfold newrow, getw at 1. simpl.
    replace (Nat.eqb y c) with false by (symmetry; now apply Nat.eqb_neq).
    rewrite alookup_map_key. destruct (memn y others) eqn:Em; [apply Qred_correct|].
    assert (Hnot : ~ In y (akeys ra ++ akeys rb)).
    { intros Hin. assert (In y others); [|apply memn_In in H; congruence].
      unfold others. apply filter_In. split; [now apply nodup_In|].
      apply andb_true_iff. split; apply negb_true_iff, Nat.eqb_neq; assumption. }
    rewrite in_app_iff in Hnot. rewrite (getw_notin ra y), (getw_notin rb y) by tauto. ring. }
  assert (Hleaves_c : leaves n D c = leaves n D a ++ leaves n D b) by (apply (leaves_node n D t r Hids Hr)).
  (* now the nine parts of the invariant *)
  unfold ainv. cbn [ag_next ag_nb ag_out ag_in]. rewrite Hfs.
  assert (Hc_eq : c = n + length (firstn t D)) by (rewrite Hft; reflexivity).
  split; [unfold c; lia|]. split; [|split; [|split]].
  - apply (linvp_keys_eq n _ (aremove b (aremove a (ag_nb g)) ++ [(c, newrow)])).
    + rewrite !akeys_app. f_equal. symmetry. exact Hk2.
    + rewrite Hc_eq. apply linvp_step; [split; [exact Hndnb|split; [exact Hknb|exact Hchnb]] | assumption | assumption | assumption].
  - rewrite Hc_eq. apply linvp_step; assumption.
  - rewrite Hc_eq. apply linvp_step; assumption.
  - split; [|split; [|split; [|split]]].
    + intros x rx' Hin. apply in_app_iff in Hin. destruct Hin as [Hin|[Hin|[]]].
      * unfold nb2 in Hin. apply in_map_iff in Hin. destruct Hin as [[x0 rx] [E Hin]]. injection E as E1 E2. subst x0 rx'.
        unfold nb1 in Hin. apply aremove_In, aremove_In in Hin. destruct (Hrowsinv x rx Hin) as [Hnd Hb].
        apply mrow_keys; [exact Hnd | intros y Hy; apply Hb in Hy; unfold c; lia | unfold c; lia].
      * injection Hin as E1 E2. subst x rx'. unfold newrow, akeys. simpl. rewrite map_map. simpl. rewrite map_id.
        assert (Hob : forall y, In y others -> y < c).
        { intros y Hy. unfold others in Hy. apply filter_In in Hy. destruct Hy as [Hy _]. apply nodup_In, in_app_iff in Hy.
          destruct Hy as [Hy|Hy]; [apply Hbra in Hy | apply Hbrb in Hy]; unfold c; lia. }
        split.
        -- constructor; [intros H; apply Hob in H; lia | apply NoDup_filter, NoDup_nodup].
        -- intros y [<-|Hy]; [unfold c; lia | apply Hob in Hy; lia].
    + intros x y Hx Hy Hxy. rewrite akeys_app, in_app_iff, Hk2, Hknb1 in Hx, Hy. cbn [akeys map fst] in Hx, Hy.
      unfold Wd. cbn [ag_nb].
      destruct Hx as [(Hx & Hxa & Hxb)|[<-|[]]]; destruct Hy as [(Hy & Hya & Hyb)|[<-|[]]].
      * destruct (Hrow_x x Hx Hxa Hxb) as (rx & Erx & ->). destruct (Hrowsinv x rx (alookup_In _ _ _ Erx)) as [Hnd Hb].
        assert (Hyc : y <> c) by (intros ->; tauto).
        rewrite mrow_get; [|assumption|intros H; apply Hb in H; unfold c in H; lia|assumption|assumption].
        replace (Nat.eqb y c) with false by (symmetry; now apply Nat.eqb_neq).
        assert (E := HW x y Hx Hy Hxy). unfold Wd, getrow in E. now rewrite Erx in E.
      * destruct (Hrow_x x Hx Hxa Hxb) as (rx & Erx & ->). destruct (Hrowsinv x rx (alookup_In _ _ _ Erx)) as [Hnd Hb].
        assert (Hxc : x <> c) by (intros ->; tauto).
        rewrite mrow_get; [|assumption|intros H; apply Hb in H; unfold c in H; lia|intros E; apply Hcfresh; fold c; rewrite E; exact Hanb|intros E; apply Hcfresh; fold c; rewrite E; exact Hbnb].
        rewrite Nat.eqb_refl. rewrite (cross_app_r x a b c Hleaves_c).
        assert (E1 := HW x a Hx Hanb Hxa). assert (E2 := HW x b Hx Hbnb Hxb). unfold Wd, getrow in E1, E2.
        rewrite Erx in E1, E2. now rewrite E1, E2.
      * rewrite Hrow_c. assert (Hyc : y <> c) by (intros ->; tauto). rewrite Hnew_get by assumption.
        rewrite (cross_app_l c a b y Hleaves_c).
        assert (E1 := HW a y Hanb Hy (not_eq_sym Hya)). assert (E2 := HW b y Hbnb Hy (not_eq_sym Hyb)).
        unfold Wd, getrow in E1, E2. rewrite Era in E1. rewrite Erb in E2. now rewrite E1, E2.
      * congruence.
    + intros x Hx Hxn. rewrite akeys_app, in_app_iff, Hk2, Hknb1 in Hx. cbn [akeys map fst] in Hx.
      destruct Hx as [(Hx & Hxa & Hxb)|[<-|[]]]; [|unfold c in Hxn; lia].
      unfold Wd. cbn [ag_nb]. destruct (Hrow_x x Hx Hxa Hxb) as (rx & Erx & ->).
      destruct (Hrowsinv x rx (alookup_In _ _ _ Erx)) as [Hnd Hb].
      rewrite mrow_get; [|assumption|intros H; apply Hb in H; unfold c in H; lia|assumption|assumption].
      replace (Nat.eqb x c) with false by (symmetry; apply Nat.eqb_neq; unfold c; lia).
      assert (E := HWs x Hx Hxn). unfold Wd, getrow in E. now rewrite Erx in E.
    + intros x Hx. destruct Lout as (Hndo & Hko & _).
      assert (Hcf : ~ In c (akeys (aremove b (aremove a (ag_out g))))).
      { intros H. apply akeys_aremove_In, akeys_aremove_In, Hko in H. rewrite Hft in H. unfold c in H. lia. }
      rewrite getw_snoc by assumption. rewrite akeys_app, in_app_iff in Hx. cbn [akeys map fst] in Hx.
      destruct (Nat.eqb x c) eqn:E.
      * apply Nat.eqb_eq in E. subst x. rewrite Qred_correct, Hleaves_c. unfold PR. rewrite map_app, sumq_app.
        assert (E1 := Hout a Hao). assert (E2 := Hout b Hbo). unfold getw in E1, E2. rewrite Eoa in E1. rewrite Eob in E2.
        unfold PR in E1, E2. now rewrite E1, E2.
      * apply Nat.eqb_neq in E. destruct Hx as [Hx|[Hx|[]]]; [|congruence].
        rewrite akeys_aremove_iff in Hx by now apply NoDup_aremove. rewrite akeys_aremove_iff in Hx by assumption.
        destruct Hx as ((Hx & Hxa) & Hxb).
        rewrite getw_aremove by now apply NoDup_aremove. rewrite getw_aremove by assumption.
        replace (Nat.eqb x b) with false by (symmetry; now apply Nat.eqb_neq).
        replace (Nat.eqb x a) with false by (symmetry; now apply Nat.eqb_neq). now apply Hout.
    + intros x Hx. destruct Lin as (Hndo & Hko & _).
      assert (Hcf : ~ In c (akeys (aremove b (aremove a (ag_in g))))).
      { intros H. apply akeys_aremove_In, akeys_aremove_In, Hko in H. rewrite Hft in H. unfold c in H. lia. }
      rewrite getw_snoc by assumption. rewrite akeys_app, in_app_iff in Hx. cbn [akeys map fst] in Hx.
      destruct (Nat.eqb x c) eqn:E.
      * apply Nat.eqb_eq in E. subst x. rewrite Qred_correct, Hleaves_c. unfold PC. rewrite map_app, sumq_app.
        assert (E1 := Hinw a Hai). assert (E2 := Hinw b Hbi). unfold getw in E1, E2. rewrite Eia in E1. rewrite Eib in E2.
        unfold PC in E1, E2. now rewrite E1, E2.
      * apply Nat.eqb_neq in E. destruct Hx as [Hx|[Hx|[]]]; [|congruence].
        rewrite akeys_aremove_iff in Hx by now apply NoDup_aremove. rewrite akeys_aremove_iff in Hx by assumption.
        destruct Hx as ((Hx & Hxa) & Hxb).
        rewrite getw_aremove by now apply NoDup_aremove. rewrite getw_aremove by assumption.
        replace (Nat.eqb x b) with false by (symmetry; now apply Nat.eqb_neq).
        replace (Nat.eqb x a) with false by (symmetry; now apply Nat.eqb_neq). now apply Hinw.
Qed.
End AGraph.

Section Sampling.
Context (degree : bool) (n : nat) (G : wgraph) (D : dendrogram) (Hv : valid n D = true).

Notation cross := (cross n G D).
Notation sw := (sw G).
Notation PR := (PR degree n G).
Notation PC := (PC degree n G).
Notation ainv := (ainv degree n G D).

Definition ES (r : drow) : Q :=
  (2 * cross (r_left r) (r_right r) +
   sumq (map (fun x => sw x x) (filter (fun x => Nat.ltb x n) [r_left r; r_right r])))%Q.
Definition CW (r : drow) : Q :=
  ((PR (leaves n D (r_left r)) + PR (leaves n D (r_right r)) +
    PC (leaves n D (r_left r)) + PC (leaves n D (r_right r))) / 2)%Q.

Lemma sampling_step_spec t r g : nth_error D t = Some r -> ainv t g ->
  exists es ns cw, sampling_step n g (r_left r) (r_right r) = Ok (es, ns, cw) /\
                   (es == ES r)%Q /\ (cw == CW r)%Q.
Proof.
  intros Hr (Hnext & Lnb & Lout & Lin & Hrowsinv & HW & HWs & Hout & Hinw).
  destruct (valid_rows n D Hv) as [Hlen Hrows].
  destruct (Hrows t r Hr) as (Hne & Hil & Hjl & Hiu & Hju).
  assert (Ht : t < length D) by (apply nth_error_Some; congruence).
  assert (Hft : length (firstn t D) = t) by (rewrite firstn_length; lia).
  set (a := r_left r) in *. set (b := r_right r) in *.
  assert (Hlive : forall {A} (l : list (nat * A)), linvp n (firstn t D) l -> In a (akeys l) /\ In b (akeys l)).
  { intros A l (_ & Hk & _). split; apply Hk; rewrite Hft; tauto. }
  destruct (Hlive _ _ Lnb) as [Hanb Hbnb]. destruct (Hlive _ _ Lout) as [Hao Hbo]. destruct (Hlive _ _ Lin) as [Hai Hbi].
  destruct (In_key_alookup _ _ Hanb) as [ra Era].
  destruct (In_key_alookup _ _ Hao) as [oa Eoa]. destruct (In_key_alookup _ _ Hbo) as [ob Eob].
  destruct (In_key_alookup _ _ Hai) as [ia Eia]. destruct (In_key_alookup _ _ Hbi) as [ib Eib].
  unfold sampling_step. rewrite Era, Eoa, Eob, Eia, Eib.
  replace (Nat.eqb a b) with false by (symmetry; now apply Nat.eqb_neq).
  eexists. eexists. eexists. split; [reflexivity|]. split.
  - rewrite Qred_correct. unfold ES. fold a b.
    assert (E1 : ((if amem b ra then 2 * getw ra b else 0) == 2 * cross a b)%Q).
    { assert (E := HW a b Hanb Hbnb Hne). unfold Wd, getrow in E. rewrite Era in E.
      destruct (amem b ra) eqn:Em; [now rewrite E|].
      rewrite (getw_notin ra b (amem_false_notin _ _ Em)) in E. rewrite <- E. ring. }
    rewrite E1, qsum_sumq. apply Qplus_comp; [reflexivity|]. apply sumq_ext. intros x Hx.
    apply filter_In in Hx. destruct Hx as [Hx Hxn]. apply Nat.ltb_lt in Hxn.
    assert (Hxl : In x (akeys (ag_nb g))) by (destruct Hx as [<-|[<-|[]]]; assumption).
    assert (E := HWs x Hxl Hxn). unfold Wd in E.
    destruct (amem x (getrow (ag_nb g) x)) eqn:Em; [exact E|].
    rewrite (getw_notin _ x (amem_false_notin _ _ Em)) in E. exact E.
  - rewrite Qred_correct. unfold CW. fold a b.
    assert (E1 := Hout a Hao). assert (E2 := Hout b Hbo). assert (E3 := Hinw a Hai). assert (E4 := Hinw b Hbi).
    unfold getw in E1, E2, E3, E4. rewrite Eoa in E1. rewrite Eob in E2. rewrite Eia in E3. rewrite Eib in E4.
    now rewrite E1, E2, E3, E4.
Qed.

Lemma sampling_loop_spec : forall rows done g, D = done ++ rows -> ainv (length done) g ->
  exists xs, sampling_loop n rows g = Ok xs /\
             (sumq (map (fun x : Q * Q * Q => fst (fst x) * snd x) xs) == sumq (map (fun r => ES r * CW r) rows))%Q.
Proof.
  induction rows as [|r rows IH]; intros done g HD Hinv.
  - exists []. split; reflexivity.
  - assert (Hr : nth_error D (length done) = Some r) by (rewrite HD; apply nth_error_app_length).
    destruct (sampling_step_spec _ r g Hr Hinv) as (es & ns & cw & Hs & Ees & Ecw).
    destruct (ainv_step degree n G D Hv _ r g Hr Hinv) as [g' [Hm Hinv']].
    destruct (IH (done ++ [r]) g') as [xs [Hl Hsum]].
    + now rewrite <- app_assoc.
    + rewrite app_length. simpl. now rewrite Nat.add_1_r.
    + exists ((es, ns, cw) :: xs). split.
      * simpl. rewrite Hs, Hm, Hl. reflexivity.
      * cbn [map]. rewrite !sumq_cons. cbn [fst snd]. now rewrite Ees, Ecw, Hsum.
Qed.

Lemma dasgupta_cost_sum normalized : length G <> 0 -> 2 <= n ->
  exists c, dasgupta_cost degree n G D normalized = Ok c /\
    (c == (if normalized then 1 else if degree then total_weight G else inject_Z (Z.of_nat n)) *
          sumq (map (fun r => ES r * CW r) D))%Q.
Proof.
  intros HG Hn. destruct (valid_rows n D Hv) as [Hlen _].
  unfold dasgupta_cost, get_sampling_distributions.
  replace (Nat.eqb (length G) 0) with false by (symmetry; now apply Nat.eqb_neq).
  replace (Nat.ltb n 2) with false by (symmetry; apply Nat.ltb_ge; lia).
  replace (Nat.ltb (length D) (n - 1)) with false by (symmetry; apply Nat.ltb_ge; lia).
  replace (n - 1) with (length D) by lia. rewrite firstn_all.
  destruct (sampling_loop_spec D [] (ag_init degree n G) eq_refl (ainv_init degree n G D)) as [xs [Hl Hsum]].
  rewrite Hl. eexists. split; [reflexivity|].
  destruct normalized; [|destruct degree]; rewrite ?Qred_correct, qsum_sumq, Hsum; ring.
Qed.
End Sampling.

(** * The partition of the leaves into live subtrees, step by step *)
Section Tree.
Context (n : nat) (D : dendrogram) (Hv : valid n D = true).

Definition getc (x : nat) (st : cstate) : list nat := match alookup x st with Some c => c | None => [] end.

Fixpoint part (s : nat) : cstate :=
  match s with
  | O => init_clusters n
  | S s' =>
      let st := part s' in
      match nth_error D s' with
      | Some r => aremove (r_right r) (aremove (r_left r) st) ++ [(n + s', getc (r_left r) st ++ getc (r_right r) st)]
      | None => st
      end
  end.

Definition pinv (s : nat) (st : cstate) : Prop :=
  linvp n (firstn s D) st /\
  (forall k c, In (k, c) st -> c = leaves n D k) /\
  Permutation (concat (map snd st)) (seq 0 n) /\
  length st + s = n.

Lemma pinv_part : forall s, s <= length D -> pinv s (part s).
Proof.
  assert (Hids := valid_ids_lt n D Hv). destruct (valid_rows n D Hv) as [Hlen Hrows].
  induction s as [|s IH]; intros Hs.
  - simpl. split; [|split; [|split]].
    + apply linvp_of_keys_gen. unfold init_clusters, akeys. rewrite map_map. simpl. apply map_id.
    + intros k c H. unfold init_clusters in H. apply in_map_iff in H. destruct H as [i [E Hi]]. inversion E; subst.
      apply in_seq in Hi. symmetry. apply leaves_leaf. lia.
    + destruct (cinv_init n D) as (_ & _ & H). exact H.
    + unfold init_clusters. rewrite map_length, seq_length. lia.
  - assert (Hs' : s < length D) by lia. destruct (IH ltac:(lia)) as (L & Hcl & Hperm & Hl).
    apply nth_error_Some in Hs'. simpl. destruct (nth_error D s) as [r|] eqn:Er; [|congruence].
    destruct (Hrows s r Er) as (Hne & Hil & Hjl & Hiu & Hju).
    assert (Hfl : length (firstn s D) = s) by (rewrite firstn_length; lia).
    assert (L' := L). destruct L' as (Hnd & Hk & Hch).
    assert (Hik : In (r_left r) (akeys (part s))) by (apply Hk; rewrite Hfl; tauto).
    assert (Hjk : In (r_right r) (akeys (part s))) by (apply Hk; rewrite Hfl; tauto).
    destruct (In_key_alookup _ _ Hik) as [ci Hi]. destruct (In_key_alookup _ _ Hjk) as [cj Hj].
    unfold getc. rewrite Hi, Hj.
    assert (Hj2 : alookup (r_right r) (aremove (r_left r) (part s)) = Some cj) by (rewrite alookup_aremove_neq by auto; exact Hj).
    unfold pinv. rewrite (firstn_S_nth D s r Er).
    split; [|split; [|split]].
    + replace (n + s) with (n + length (firstn s D)) by (now rewrite Hfl). now apply linvp_step.
    + intros k c H. apply in_app_iff in H. destruct H as [H|[H|[]]].
      * apply Hcl. now apply aremove_In, aremove_In in H.
      * inversion H; subst k c. rewrite (leaves_node n D s r Hids Er).
        now rewrite (Hcl _ _ (alookup_In _ _ _ Hi)), (Hcl _ _ (alookup_In _ _ _ Hj)).
    + rewrite map_app, concat_app. simpl. rewrite app_nil_r. rewrite <- Hperm.
      assert (P1 := aremove_perm _ _ _ Hi). assert (P2 := aremove_perm _ _ _ Hj2).
      apply (Permutation_map snd), Permutation_concat in P1.
      apply (Permutation_map snd), Permutation_concat in P2. simpl in P1, P2.
      rewrite P1, P2. rewrite Permutation_app_comm. now rewrite app_assoc.
    + rewrite app_length. simpl. apply aremove_length in Hi. apply aremove_length in Hj2. lia.
Qed.

Definition live (s x : nat) : Prop := In x (akeys (part s)).

Lemma live_iff s x : s <= length D -> (live s x <-> x < n + s /\ ~ In x (flat_map children (firstn s D))).
Proof.
  intros Hs. destruct (pinv_part s Hs) as ((_ & Hk & _) & _). unfold live. rewrite Hk.
  now rewrite firstn_length, Nat.min_l by lia.
Qed.

Lemma live_entry s x : s <= length D -> live s x -> In (x, leaves n D x) (part s).
Proof.
  intros Hs Hx. destruct (pinv_part s Hs) as (_ & Hcl & _). unfold live, akeys in Hx.
  apply in_map_iff in Hx. destruct Hx as [[k c] [E Hin]]. simpl in E. subst k. now rewrite <- (Hcl x c Hin).
Qed.

Lemma live_cover s u : s <= length D -> u < n -> exists x, live s x /\ In u (leaves n D x).
Proof.
  intros Hs Hu. destruct (pinv_part s Hs) as (_ & Hcl & Hperm & _).
  assert (Hin : In u (concat (map snd (part s)))) by (apply (Permutation_in _ (Permutation_sym Hperm)), in_seq; lia).
  apply in_concat in Hin. destruct Hin as [c [Hc Huc]]. apply in_map_iff in Hc. destruct Hc as [[k c'] [E Hin]].
  simpl in E. subst c'. exists k. split; [unfold live, akeys; apply in_map_iff; now exists (k, c)|].
  now rewrite <- (Hcl k c Hin).
Qed.

Lemma live_disjoint s x y u : s <= length D -> live s x -> live s y ->
  In u (leaves n D x) -> In u (leaves n D y) -> x = y.
Proof.
  intros Hs Hx Hy Hux Huy. destruct (pinv_part s Hs) as ((Hnd & _) & _ & Hperm & _).
  assert (Hndc : NoDup (concat (map snd (part s)))) by exact (Permutation_NoDup (Permutation_sym Hperm) (seq_NoDup n 0)).
  apply (live_entry s x Hs) in Hx. apply (live_entry s y Hs) in Hy.
  destruct (In_nth _ _ (0, []) Hx) as [lx [Hlx Ex]]. destruct (In_nth _ _ (0, []) Hy) as [ly [Hly Ey]].
  assert (E1 : label_of (map snd (part s)) 0 u 0 = 0 + lx).
  { apply (label_of_spec _ Hndc); [now rewrite map_length|]. change (@nil nat) with (snd (0, @nil nat)).
    rewrite map_nth, Ex. exact Hux. }
  assert (E2 : label_of (map snd (part s)) 0 u 0 = 0 + ly).
  { apply (label_of_spec _ Hndc); [now rewrite map_length|]. change (@nil nat) with (snd (0, @nil nat)).
    rewrite map_nth, Ey. exact Huy. }
  assert (lx = ly) by lia. subst ly. rewrite Ex in Ey. now inversion Ey.
Qed.

Lemma live_leaves s x : s <= length D -> live s x -> NoDup (leaves n D x) /\ forall u, In u (leaves n D x) -> u < n.
Proof.
  intros Hs Hx. destruct (pinv_part s Hs) as (_ & _ & Hperm & _).
  assert (Hndc : NoDup (concat (map snd (part s)))) by exact (Permutation_NoDup (Permutation_sym Hperm) (seq_NoDup n 0)).
  apply (live_entry s x Hs) in Hx.
  assert (Hin : In (leaves n D x) (map snd (part s))) by (apply in_map_iff; now exists (x, leaves n D x)).
  split; [exact (NoDup_concat_In _ _ Hndc Hin)|].
  intros u Hu. assert (H : In u (concat (map snd (part s)))) by (apply in_concat; now exists (leaves n D x)).
  apply (Permutation_in _ Hperm), in_seq in H. lia.
Qed.

(** liveness across one merge *)
Lemma live_S s r x : nth_error D s = Some r ->
  (live (S s) x <-> (live s x /\ x <> r_left r /\ x <> r_right r) \/ x = n + s).
Proof.
  intros Hr. assert (Hs : s < length D) by (apply nth_error_Some; congruence).
  destruct (valid_rows n D Hv) as [_ Hrows]. destruct (Hrows s r Hr) as (Hne & Hil & Hjl & Hiu & Hju).
  rewrite !live_iff by lia. rewrite (firstn_S_nth D s r Hr), flat_map_app, in_app_iff. simpl. split.
  - intros [H1 H2]. destruct (Nat.eq_dec x (n + s)) as [->|Hx]; [now right|]. left.
    split; [split; [lia|tauto]|]. split; intros ->; apply H2; right; tauto.
  - intros [((H1 & H2) & H3 & H4)| ->].
    + split; [lia|]. intros [H|[H|[H|[]]]]; [tauto|congruence|congruence].
    + split; [lia|]. intros [H|[H|[H|[]]]]; [|lia|lia].
      destruct (pinv_part s ltac:(lia)) as ((_ & _ & Hch) & _). apply Hch in H.
      rewrite firstn_length, Nat.min_l in H by lia. lia.
Qed.

Lemma live_children s r : nth_error D s = Some r -> live s (r_left r) /\ live s (r_right r).
Proof.
  intros Hr. assert (Hs : s < length D) by (apply nth_error_Some; congruence).
  destruct (valid_rows n D Hv) as [_ Hrows]. destruct (Hrows s r Hr) as (Hne & Hil & Hjl & Hiu & Hju).
  rewrite !live_iff by lia. tauto.
Qed.

(** u and v lie in one live subtree at step s *)
Definition tog (s u v : nat) : Prop := exists x, live s x /\ In u (leaves n D x) /\ In v (leaves n D x).

Definition sep (r : drow) (u v : nat) : Prop :=
  (In u (leaves n D (r_left r)) /\ In v (leaves n D (r_right r))) \/
  (In u (leaves n D (r_right r)) /\ In v (leaves n D (r_left r))).

Lemma tog_dec s u v : s <= length D -> {tog s u v} + {~ tog s u v}.
Proof.
  intros Hs.
  destruct (existsb (fun kc : nat * list nat => memn u (snd kc) && memn v (snd kc)) (part s)) eqn:E.
  - left. apply existsb_exists in E. destruct E as [[k c] [Hin H]]. simpl in H. apply andb_true_iff in H.
    destruct H as [H1 H2]. apply memn_In in H1, H2. destruct (pinv_part s Hs) as (_ & Hcl & _).
    exists k. rewrite <- (Hcl k c Hin). split; [|tauto]. unfold live, akeys. apply in_map_iff. now exists (k, c).
  - right. intros (x & Hx & Hu & Hvv). apply (live_entry s x Hs) in Hx.
    assert (H : existsb (fun kc : nat * list nat => memn u (snd kc) && memn v (snd kc)) (part s) = true).
    { apply existsb_exists. exists (x, leaves n D x). split; [exact Hx|]. simpl. apply andb_true_iff. split; now apply memn_In. }
    congruence.
Qed.

Lemma tog_0 u v : u <> v -> ~ tog 0 u v.
Proof.
  intros Hne (x & Hx & Hu & Hvv). unfold live in Hx. simpl in Hx. unfold init_clusters, akeys in Hx.
  rewrite map_map in Hx. simpl in Hx. rewrite map_id in Hx. apply in_seq in Hx.
  rewrite leaves_leaf in Hu, Hvv by lia. destruct Hu as [<-|[]]. destruct Hvv as [<-|[]]. congruence.
Qed.

Lemma tog_S s r u v : nth_error D s = Some r -> (tog (S s) u v <-> tog s u v \/ sep r u v).
Proof.
  intros Hr. assert (Hs : s < length D) by (apply nth_error_Some; congruence).
  assert (Hids := valid_ids_lt n D Hv). assert (Hnode := leaves_node n D s r Hids Hr).
  destruct (live_children s r Hr) as [Hli Hlj]. split.
  - intros (x & Hx & Hu & Hvv). apply (live_S s r x Hr) in Hx. destruct Hx as [(Hx & _ & _)| ->].
    + left. now exists x.
    + rewrite Hnode in Hu, Hvv. apply in_app_iff in Hu, Hvv. destruct Hu as [Hu|Hu], Hvv as [Hvv|Hvv].
      * left. now exists (r_left r).
      * right. now left.
      * right. now right.
      * left. now exists (r_right r).
  - intros [(x & Hx & Hu & Hvv)|Hsep].
    + destruct (Nat.eq_dec x (r_left r)) as [->|Hx1].
      { exists (n + s). split; [apply (live_S s r _ Hr); now right|]. rewrite Hnode, !in_app_iff. tauto. }
      destruct (Nat.eq_dec x (r_right r)) as [->|Hx2].
      { exists (n + s). split; [apply (live_S s r _ Hr); now right|]. rewrite Hnode, !in_app_iff. tauto. }
      exists x. split; [apply (live_S s r _ Hr); left; tauto | tauto].
    + exists (n + s). split; [apply (live_S s r _ Hr); now right|]. rewrite Hnode, !in_app_iff.
      destruct Hsep as [[H1 H2]|[H1 H2]]; tauto.
Qed.

Lemma sep_not_tog s r u v : nth_error D s = Some r -> sep r u v -> ~ tog s u v.
Proof.
  intros Hr Hsep (x & Hx & Hu & Hvv). assert (Hs : s < length D) by (apply nth_error_Some; congruence).
  destruct (live_children s r Hr) as [Hli Hlj].
  destruct (valid_rows n D Hv) as [_ Hrows]. destruct (Hrows s r Hr) as (Hne & _).
  destruct Hsep as [[H1 H2]|[H1 H2]].
  - assert (x = r_left r) by (apply (live_disjoint s x (r_left r) u); [lia|assumption|assumption|assumption|assumption]).
    assert (x = r_right r) by (apply (live_disjoint s x (r_right r) v); [lia|assumption|assumption|assumption|assumption]). congruence.
  - assert (x = r_right r) by (apply (live_disjoint s x (r_right r) u); [lia|assumption|assumption|assumption|assumption]).
    assert (x = r_left r) by (apply (live_disjoint s x (r_left r) v); [lia|assumption|assumption|assumption|assumption]). congruence.
Qed.

Lemma tog_mono s s' u v : s <= s' -> s' <= length D -> tog s u v -> tog s' u v.
Proof.
  intros Hle Hs' H. induction Hle as [|m Hle IH]; [exact H|].
  assert (Hm : m < length D) by lia. apply nth_error_Some in Hm.
  destruct (nth_error D m) as [r|] eqn:Er; [|congruence].
  apply (tog_S m r u v Er). left. apply IH. lia.
Qed.

Lemma tog_final u v : u < n -> v < n -> tog (length D) u v.
Proof.
  intros Hu Hvv. destruct (pinv_part (length D) (Nat.le_refl _)) as (_ & Hcl & Hperm & Hl).
  destruct (valid_rows n D Hv) as [Hlen _].
  destruct (part (length D)) as [|[k c] [|p rest]] eqn:E; simpl in Hl; try lia.
  simpl in Hperm. rewrite app_nil_r in Hperm.
  exists k. split; [unfold live; rewrite E; now left|]. rewrite <- (Hcl k c (or_introl eq_refl)).
  split; apply (Permutation_in _ (Permutation_sym Hperm)), in_seq; lia.
Qed.

(** The merge at which two distinct leaves meet: it exists, it is unique, and every cluster of the tree
    containing both contains the cluster created there. *)
Lemma meeting_merge u v : u < n -> v < n -> u <> v ->
  exists t r, nth_error D t = Some r /\ sep r u v /\
    (forall t' r', nth_error D t' = Some r' -> sep r' u v -> t' = t) /\
    (forall t', t' < length D -> In u (leaves n D (n + t')) -> In v (leaves n D (n + t')) ->
                incl (leaves n D (n + t)) (leaves n D (n + t'))).
Proof.
  intros Hu Hvv Hne.
  assert (Hex : forall m, m <= length D -> tog m u v -> exists t, t < m /\ ~ tog t u v /\ tog (S t) u v).
  { induction m as [|m IH]; intros Hm Htog; [exfalso; exact (tog_0 u v Hne Htog)|].
    destruct (tog_dec m u v ltac:(lia)) as [Hy|Hn].
    - destruct (IH ltac:(lia) Hy) as [t [Ht H]]. exists t. split; [lia|exact H].
    - exists m. split; [lia|]. split; assumption. }
  destruct (Hex (length D) (Nat.le_refl _) (tog_final u v Hu Hvv)) as (t & Ht & Hnt & Hst).
  assert (Ht' := Ht). apply nth_error_Some in Ht'. destruct (nth_error D t) as [r|] eqn:Er; [|congruence].
  exists t, r. split; [exact Er|].
  assert (Hsep : sep r u v) by (apply (tog_S t r u v Er) in Hst; tauto).
  split; [exact Hsep|]. split.
  - intros t' r' Er' Hsep'. assert (Hlt' : t' < length D) by (apply nth_error_Some; congruence).
    assert (Hn' := sep_not_tog t' r' u v Er' Hsep').
    assert (Hs' : tog (S t') u v) by (apply (tog_S t' r' u v Er'); now right).
    destruct (Nat.lt_trichotomy t' t) as [H|[H|H]]; [|exact H|]; exfalso.
    + apply Hnt. apply (tog_mono (S t') t); [lia | lia | exact Hs'].
    + apply Hn'. apply (tog_mono (S t) t'); [lia | lia | exact Hst].
  - intros t' Hlt' Hut Hvt.
    assert (Hlive' : live (S t') (n + t')).
    { apply nth_error_Some in Hlt'. destruct (nth_error D t') as [r'|] eqn:Er'; [|congruence].
      apply (live_S t' r' _ Er'). now right. }
    assert (Hge : t <= t').
    { destruct (Nat.le_gt_cases t t') as [H|H]; [exact H|]. exfalso. apply Hnt.
      apply (tog_mono (S t') t); [lia | lia |]. now exists (n + t'). }
    (* the cluster n + t keeps growing: at step S t' it lies inside a live subtree, which must be n + t' *)
    assert (Hgrow : forall m, S t <= m -> m <= length D -> exists y, live m y /\ incl (leaves n D (n + t)) (leaves n D y)).
    { intros m Hm1 Hm2. induction Hm1 as [|m Hm1 IH].
      - exists (n + t). split; [apply (live_S t r _ Er); now right | apply incl_refl].
      - destruct (IH ltac:(lia)) as (y & Hy & Hincl).
        assert (Hm : m < length D) by lia. apply nth_error_Some in Hm.
        destruct (nth_error D m) as [rm|] eqn:Erm; [|congruence].
        assert (Hnode := leaves_node n D m rm (valid_ids_lt n D Hv) Erm).
        destruct (Nat.eq_dec y (r_left rm)) as [->|Hy1].
        { exists (n + m). split; [apply (live_S m rm _ Erm); now right|]. rewrite Hnode. now apply incl_appl. }
        destruct (Nat.eq_dec y (r_right rm)) as [->|Hy2].
        { exists (n + m). split; [apply (live_S m rm _ Erm); now right|]. rewrite Hnode. now apply incl_appr. }
        exists y. split; [apply (live_S m rm _ Erm); left; tauto | exact Hincl]. }
    destruct (Hgrow (S t') ltac:(lia) ltac:(lia)) as (y & Hy & Hincl).
    assert (Hu_t : In u (leaves n D (n + t))).
    { rewrite (leaves_node n D t r (valid_ids_lt n D Hv) Er), in_app_iff. destruct Hsep as [[H _]|[H _]]; tauto. }
    assert (y = n + t') by (apply (live_disjoint (S t') y (n + t') u); [lia | assumption | assumption | now apply Hincl | assumption]).
    now subst y.
Qed.
End Tree.

(** * Indicator sums *)
Definition ite (b : bool) (x : Q) : Q := if b then x else 0%Q.

Lemma sumq_filter_ite {A} (f : A -> bool) (g : A -> Q) l :
  (sumq (map g (filter f l)) == sumq (map (fun a => ite (f a) (g a)) l))%Q.
Proof.
  induction l as [|a l IH]; [reflexivity|]. cbn [filter map]. rewrite sumq_cons, <- IH. destruct (f a); cbn [map]; unfold ite at 1; rewrite ?sumq_cons; ring.
Qed.

Lemma sumq_indicator (x : nat) (c : Q) L : NoDup L ->
  (sumq (map (fun u => ite (Nat.eqb x u) c) L) == ite (memn x L) c)%Q.
Proof.
  induction L as [|a L IH]; intros Hnd; [reflexivity|]. inversion Hnd as [|? ? Hn Hnd']; subst.
  cbn [map]. rewrite sumq_cons, (IH Hnd'). unfold memn. cbn [existsb].
  destruct (Nat.eqb x a) eqn:E.
  - apply Nat.eqb_eq in E. subst a. fold (memn x L). replace (memn x L) with false.
    + unfold ite. simpl. ring.
    + symmetry. destruct (memn x L) eqn:Em; [apply memn_In in Em; tauto | reflexivity].
  - unfold ite at 1. simpl. ring.
Qed.

Lemma adj_indicator G u v :
  (adj G u v == sumq (map (fun e => ite (Nat.eqb (e_src e) u && Nat.eqb (e_dst e) v) (e_w e)) G))%Q.
Proof. unfold adj. rewrite qsum_sumq. apply sumq_filter_ite. Qed.

Lemma ite_and a b x : ite (a && b) x = ite a (ite b x).
Proof. now destruct a, b. Qed.

(** Sum of the entries between two duplicate-free node lists = total weight of the edges going from one to the other. *)
Lemma block_sum G L1 L2 : NoDup L1 -> NoDup L2 ->
  (sumq (map (fun u => sumq (map (fun v => adj G u v) L2)) L1) ==
   sumq (map (fun e => ite (memn (e_src e) L1 && memn (e_dst e) L2) (e_w e)) G))%Q.
Proof.
  intros H1 H2.
  rewrite (sumq_ext _ (fun u => sumq (map (fun e => ite (Nat.eqb (e_src e) u) (ite (memn (e_dst e) L2) (e_w e))) G))).
  - rewrite sumq_swap. apply sumq_ext. intros e _. rewrite sumq_indicator by assumption. now rewrite ite_and.
  - intros u _.
    rewrite (sumq_ext _ (fun v => sumq (map (fun e => ite (Nat.eqb (e_src e) u) (ite (Nat.eqb (e_dst e) v) (e_w e))) G))).
    + rewrite sumq_swap. apply sumq_ext. intros e _.
      destruct (Nat.eqb (e_src e) u); cbn [ite]; [apply sumq_indicator; assumption | apply sumq_zero; intros; reflexivity].
    + intros v _. rewrite adj_indicator. apply sumq_ext. intros e _. now rewrite ite_and.
Qed.

Lemma sumq_single {A} (f : A -> Q) (l : list A) t0 a0 :
  nth_error l t0 = Some a0 ->
  (forall t a, nth_error l t = Some a -> t <> t0 -> (f a == 0)%Q) ->
  (sumq (map f l) == f a0)%Q.
Proof.
  revert t0. induction l as [|a l IH]; intros t0 H0 Hz; [destruct t0; discriminate|].
  cbn [map]. rewrite sumq_cons. destruct t0 as [|t0]; simpl in H0.
  - inversion H0; subst a0. rewrite sumq_zero; [ring|]. intros x Hx. destruct (In_nth_error _ _ Hx) as [t Ht].
    apply (Hz (S t) x); [exact Ht | discriminate].
  - rewrite (Hz 0 a eq_refl) by discriminate. rewrite (IH t0 H0); [ring|].
    intros t x Ht Hne. apply (Hz (S t) x Ht). congruence.
Qed.

Lemma sumq_const {A} (c : Q) (L : list A) : (sumq (map (fun _ => c) L) == inject_Z (Z.of_nat (length L)) * c)%Q.
Proof.
  induction L as [|a L IH]; [simpl; ring|]. cbn [map length]. rewrite sumq_cons, IH, Nat2Z.inj_succ.
  unfold Z.succ. rewrite inject_Z_plus. ring.
Qed.

Lemma sumq2_scale {A B} (f : A -> B -> Q) c L1 L2 :
  (sumq (map (fun u => sumq (map (fun v => c * f u v) L2)) L1) == c * sumq (map (fun u => sumq (map (f u) L2)) L1))%Q.
Proof. rewrite <- sumq_scale. apply sumq_ext. intros u _. apply sumq_scale. Qed.

Lemma sumq2_plus {A B} (f g : A -> B -> Q) L1 L2 :
  (sumq (map (fun u => sumq (map (fun v => f u v + g u v) L2)) L1) ==
   sumq (map (fun u => sumq (map (f u) L2)) L1) + sumq (map (fun u => sumq (map (g u) L2)) L1))%Q.
Proof. rewrite <- sumq_plus. apply sumq_ext. intros u _. apply sumq_plus. Qed.

Lemma nthq_map_seq (f : nat -> Q) n u : u < n -> nthq (map f (seq 0 n)) u = f u.
Proof. intros H. unfold nthq. now apply nth_map_seq. Qed.

(** The candidate of minimal length found by the fold of [smallest_common]. *)
Lemma fold_min (cands : list (list nat)) :
  (forall c, In c cands -> c <> []) -> cands <> [] ->
  let res := fold_right (fun c best => match best with [] => c | _ => if Nat.leb (length c) (length best) then c else best end) [] cands in
  In res cands /\ forall c, In c cands -> length res <= length c.
Proof.
  induction cands as [|c cands IH]; intros Hne Hnn; [congruence|]. cbn zeta. cbn [fold_right].
  destruct cands as [|c2 cands'].
  - simpl. split; [now left|]. intros c' [<-|[]]. lia.
  - set (rest := c2 :: cands') in *.
    destruct (IH (fun x Hx => Hne x (or_intror Hx)) ltac:(discriminate)) as [Hin Hmin]. cbn zeta in Hin, Hmin.
    set (best := fold_right (fun c best => match best with [] => c | _ => if Nat.leb (length c) (length best) then c else best end) [] rest) in *.
    assert (Hb : best <> []) by (apply Hne; now right).
    destruct best as [|b0 bs] eqn:Eb; [congruence|]. rewrite <- Eb in *.
    destruct (Nat.leb (length c) (length best)) eqn:El.
    + apply Nat.leb_le in El. split; [now left|]. intros c' [<-|Hc']; [lia|]. specialize (Hmin c' Hc'). lia.
    + apply Nat.leb_gt in El. split; [now right|]. intros c' [<-|Hc']; [lia|]. now apply Hmin.
Qed.

Lemma probs_row_nth (degree : bool) n G u : u < n ->
  (nthq (probs_row degree n G) u == if degree then out_weight G u / total_weight G else 1 / inject_Z (Z.of_nat n))%Q.
Proof. intros H. unfold probs_row. rewrite nthq_map_seq by assumption. apply Qred_correct. Qed.
Lemma probs_col_nth (degree : bool) n G u : u < n ->
  (nthq (probs_col degree n G) u == if degree then in_weight G u / total_weight G else 1 / inject_Z (Z.of_nat n))%Q.
Proof. intros H. unfold probs_col. rewrite nthq_map_seq by assumption. apply Qred_correct. Qed.

Lemma nQ_pos n : 2 <= n -> (0 < inject_Z (Z.of_nat n))%Q.
Proof. intros Hn. change 0%Q with (inject_Z 0). rewrite <- Zlt_Qlt. lia. Qed.

Lemma PR_PC_measure (degree : bool) n G l : (0 < total_weight G)%Q -> 2 <= n -> (forall u, In u l -> u < n) ->
  ((if degree then total_weight G else inject_Z (Z.of_nat n)) * ((PR degree n G l + PC degree n G l) / 2) ==
   cluster_measure degree G l)%Q.
Proof.
  intros Hw Hn Hb. unfold PR, PC, cluster_measure. assert (Hnq := nQ_pos n Hn).
  destruct degree.
  - assert (E1 : (sumq (map (nthq (probs_row true n G)) l) == / total_weight G * sumq (map (out_weight G) l))%Q).
    { rewrite <- sumq_scale. apply sumq_ext. intros u Hu. rewrite probs_row_nth by (now apply Hb). unfold Qdiv. ring. }
    assert (E2 : (sumq (map (nthq (probs_col true n G)) l) == / total_weight G * sumq (map (in_weight G) l))%Q).
    { rewrite <- sumq_scale. apply sumq_ext. intros u Hu. rewrite probs_col_nth by (now apply Hb). unfold Qdiv. ring. }
    rewrite E1, E2. field. lra.
  - assert (E1 : (sumq (map (nthq (probs_row false n G)) l) == inject_Z (Z.of_nat (length l)) * (1 / inject_Z (Z.of_nat n)))%Q).
    { rewrite <- sumq_const. apply sumq_ext. intros u Hu. rewrite probs_row_nth by (now apply Hb). reflexivity. }
    assert (E2 : (sumq (map (nthq (probs_col false n G)) l) == inject_Z (Z.of_nat (length l)) * (1 / inject_Z (Z.of_nat n)))%Q).
    { rewrite <- sumq_const. apply sumq_ext. intros u Hu. rewrite probs_col_nth by (now apply Hb). reflexivity. }
    rewrite E1, E2. field. lra.
Qed.


Section Final.
Context (degree : bool) (n : nat) (G : wgraph) (D : dendrogram) (Hv : valid n D = true).
Context (HG : forall e, In e G -> e_src e < n /\ e_dst e < n /\ e_src e <> e_dst e).
Context (Hw : (0 < total_weight G)%Q) (Hn : 2 <= n).

Notation L := (leaves n D).
Definition sepb (r : drow) (e : nat * nat * Q) : bool :=
  (memn (e_src e) (L (r_left r)) && memn (e_dst e) (L (r_right r))) ||
  (memn (e_src e) (L (r_right r)) && memn (e_dst e) (L (r_left r))).
Definition XW (r : drow) : Q := sumq (map (fun e => ite (sepb r e) (e_w e)) G).
Definition MR (r : drow) : Q := cluster_measure degree G (L (r_left r) ++ L (r_right r)).

Lemma adj_noloop x : (adj G x x == 0)%Q.
Proof.
  rewrite adj_indicator. apply sumq_zero. intros e He. destruct (HG e He) as (_ & _ & Hne).
  destruct (Nat.eqb (e_src e) x) eqn:E1, (Nat.eqb (e_dst e) x) eqn:E2; try reflexivity.
  apply Nat.eqb_eq in E1, E2. congruence.
Qed.

Lemma row_children_facts t r : nth_error D t = Some r ->
  NoDup (L (r_left r)) /\ NoDup (L (r_right r)) /\
  (forall u, In u (L (r_left r)) -> In u (L (r_right r)) -> False) /\
  (forall u, In u (L (r_left r)) \/ In u (L (r_right r)) -> u < n).
Proof.
  intros Hr. assert (Ht : t < length D) by (apply nth_error_Some; congruence).
  destruct (live_children n D Hv t r Hr) as [Hli Hlj].
  destruct (live_leaves n D Hv t _ ltac:(lia) Hli) as [N1 B1]. destruct (live_leaves n D Hv t _ ltac:(lia) Hlj) as [N2 B2].
  destruct (valid_rows n D Hv) as [_ Hrows]. destruct (Hrows t r Hr) as (Hne & _).
  split; [exact N1|]. split; [exact N2|]. split.
  - intros u H1 H2. apply Hne. apply (live_disjoint n D Hv t _ _ u); try assumption. lia.
  - intros u [H|H]; [now apply B1 | now apply B2].
Qed.

Lemma ES_XW t r : nth_error D t = Some r -> (ES n G D r == XW r / total_weight G)%Q.
Proof.
  intros Hr. destruct (row_children_facts t r Hr) as (N1 & N2 & Hdisj & _).
  unfold ES. rewrite (sumq_zero (fun x => sw G x x)).
  2:{ intros x _. unfold sw. rewrite Qred_correct, adj_noloop. unfold Qdiv. ring. }
  unfold cross.
  rewrite (sumq_ext _ (fun u => sumq (map (fun v => (/ (2 * total_weight G)) * (adj G u v + adj G v u))%Q (L (r_right r))))).
  2:{ intros u _. apply sumq_ext. intros v _. unfold sw. rewrite Qred_correct. unfold Qdiv. ring. }
  rewrite sumq2_scale, sumq2_plus.
  rewrite (block_sum G _ _ N1 N2).
  rewrite (sumq_swap (fun u v => adj G v u)). rewrite (block_sum G _ _ N2 N1).
  rewrite <- sumq_plus. unfold XW.
  rewrite (sumq_ext _ (fun e => ite (sepb r e) (e_w e))).
  - field. lra.
  - intros e _. unfold sepb.
    destruct (memn (e_src e) (L (r_left r)) && memn (e_dst e) (L (r_right r))) eqn:E1;
    destruct (memn (e_src e) (L (r_right r)) && memn (e_dst e) (L (r_left r))) eqn:E2; cbn [ite orb]; try ring.
    exfalso. apply andb_true_iff in E1, E2. destruct E1 as [E1 _], E2 as [E2 _]. apply memn_In in E1, E2. eauto.
Qed.

Lemma CW_MR t r : nth_error D t = Some r ->
  ((if degree then total_weight G else inject_Z (Z.of_nat n)) * CW degree n G D r == MR r)%Q.
Proof.
  intros Hr. destruct (row_children_facts t r Hr) as (_ & _ & _ & Hb).
  unfold MR. rewrite <- (PR_PC_measure degree n G _ Hw Hn) by (intros u Hu; apply Hb; now apply in_app_iff).
  unfold CW, PR, PC. rewrite !map_app, !sumq_app. field.
Qed.

Lemma cluster_measure_perm l l' : Permutation l l' -> (cluster_measure degree G l == cluster_measure degree G l')%Q.
Proof.
  intros P. unfold cluster_measure. destruct degree.
  - rewrite (sumq_perm _ _ (Permutation_map (out_weight G) P)), (sumq_perm _ _ (Permutation_map (in_weight G) P)). reflexivity.
  - now rewrite (Permutation_length P).
Qed.

Lemma sepb_sep r e : sepb r e = true <-> sep n D r (e_src e) (e_dst e).
Proof.
  unfold sepb, sep. rewrite orb_true_iff, !andb_true_iff, !memn_In. tauto.
Qed.

Lemma smallest_common_measure e t r : In e G -> nth_error D t = Some r -> sepb r e = true ->
  (forall t', t' < length D -> In (e_src e) (L (n + t')) -> In (e_dst e) (L (n + t')) -> incl (L (n + t)) (L (n + t'))) ->
  (cluster_measure degree G (smallest_common n D (e_src e) (e_dst e)) == MR r)%Q.
Proof.
  intros He Hr Hs Hincl. assert (Ht : t < length D) by (apply nth_error_Some; congruence).
  assert (Hids := valid_ids_lt n D Hv). assert (Hnode := leaves_node n D t r Hids Hr).
  unfold MR. rewrite <- Hnode. apply cluster_measure_perm. symmetry.
  set (u := e_src e) in *. set (v := e_dst e) in *.
  set (cands := filter (fun c => memn u c && memn v c) (tree_clusters n D)).
  assert (Huv : In u (L (n + t)) /\ In v (L (n + t))).
  { apply sepb_sep in Hs. fold u v in Hs. rewrite Hnode, !in_app_iff. destruct Hs as [[H1 H2]|[H1 H2]]; tauto. }
  assert (Hcand : In (L (n + t)) cands).
  { apply filter_In. split.
    - unfold tree_clusters. apply in_map_iff. exists t. split; [reflexivity | apply in_seq; lia].
    - apply andb_true_iff. split; apply memn_In; tauto. }
  assert (Hall : forall c, In c cands -> exists t', t' < length D /\ c = L (n + t') /\ In u c /\ In v c).
  { intros c Hc. apply filter_In in Hc. destruct Hc as [Hc Hm]. apply andb_true_iff in Hm. destruct Hm as [H1 H2].
    apply memn_In in H1, H2. unfold tree_clusters in Hc. apply in_map_iff in Hc. destruct Hc as [t' [<- Ht']].
    apply in_seq in Ht'. exists t'. split; [lia|]. tauto. }
  destruct (fold_min cands) as [Hres Hmin].
  { intros c Hc. destruct (Hall c Hc) as (t' & _ & _ & Hu & _). intros ->. contradiction. }
  { intros E. rewrite E in Hcand. contradiction. }
  cbn zeta in Hres, Hmin. unfold smallest_common. fold u v cands.
  set (res := fold_right _ [] cands) in *.
  destruct (Hall res Hres) as (t' & Ht' & Eres & Hu & Hvv).
  apply NoDup_Permutation_bis.
  - assert (Hl : live n D (S t) (n + t)) by (apply (live_S n D Hv t r _ Hr); now right).
    apply (live_leaves n D Hv (S t) _ ltac:(lia) Hl).
  - now apply Hmin.
  - rewrite Eres in *. now apply Hincl.
Qed.

Theorem dasgupta_cost_is_spec : G <> [] ->
  exists c, dasgupta_cost degree n G D false = Ok c /\ (c == dasgupta_spec degree n G D)%Q.
Proof.
  intros HGne. assert (Hlen0 : length G <> 0) by (destruct G; [congruence | discriminate]).
  destruct (dasgupta_cost_sum degree n G D Hv false Hlen0 Hn) as [c [Hc Ec]].
  exists c. split; [exact Hc|]. rewrite Ec. cbn [negb]. clear c Hc Ec.
  set (F := (if degree then total_weight G else inject_Z (Z.of_nat n))%Q).
  (* row by row *)
  assert (Hrow : forall t r, nth_error D t = Some r ->
             (F * (ES n G D r * CW degree n G D r) == / total_weight G * (XW r * MR r))%Q).
  { intros t r Hr. rewrite (ES_XW t r Hr). rewrite <- (CW_MR t r Hr). fold F. field. lra. }
  rewrite <- sumq_scale.
  rewrite (sumq_ext _ (fun r => / total_weight G * (XW r * MR r))%Q).
  2:{ intros r Hr. destruct (In_nth_error _ _ Hr) as [t Ht]. exact (Hrow t r Ht). }
  rewrite sumq_scale. unfold dasgupta_spec.
  assert (Hmain : (sumq (map (fun r => XW r * MR r) D) ==
                   sumq (map (fun e => e_w e * cluster_measure degree G (smallest_common n D (e_src e) (e_dst e))) G))%Q).
  { rewrite (sumq_ext _ (fun r => sumq (map (fun e => e_w e * ite (sepb r e) (MR r))%Q G))).
    2:{ intros r _. unfold XW. rewrite Qmult_comm, <- sumq_scale. apply sumq_ext. intros e _.
        destruct (sepb r e); cbn [ite]; ring. }
    rewrite sumq_swap. apply sumq_ext. intros e He. rewrite sumq_scale. apply Qmult_comp; [reflexivity|].
    destruct (HG e He) as (Hu & Hvv & Hne).
    destruct (meeting_merge n D Hv _ _ Hu Hvv Hne) as (t & r & Hr & Hsep & Huniq & Hincl).
    rewrite (sumq_single _ D t r Hr).
    - assert (Hs : sepb r e = true) by now apply sepb_sep. rewrite Hs. cbn [ite]. symmetry.
      exact (smallest_common_measure e t r He Hr Hs Hincl).
    - intros t' r' Hr' Hne'. destruct (sepb r' e) eqn:Es; [|reflexivity]. exfalso. apply Hne'.
      apply (Huniq t' r' Hr'). now apply sepb_sep. }
  rewrite Hmain. field. lra.
Qed.
End Final.

Lemma sumq_sub (f : nat -> Q) l l' : (forall x, (0 <= f x)%Q) -> NoDup l -> incl l l' ->
  (sumq (map f l) <= sumq (map f l'))%Q.
Proof.
  intros Hf. revert l'. induction l as [|a l IH]; intros l' Hnd Hincl.
  - cbn [map]. rewrite sumq_nil. apply sumq_nonneg. intros x Hx. apply in_map_iff in Hx. destruct Hx as [y [<- _]]. apply Hf.
  - inversion Hnd as [|? ? Hn Hnd']; subst.
    assert (Ha : In a l') by (apply Hincl; now left). apply in_split in Ha. destruct Ha as (l1 & l2 & ->).
    assert (Hincl' : incl l (l1 ++ l2)).
    { intros x Hx. assert (H := Hincl x (or_intror Hx)). apply in_app_iff in H. apply in_app_iff.
      destruct H as [H|[H|H]]; [now left | subst; tauto | now right]. }
    specialize (IH (l1 ++ l2) Hnd' Hincl'). cbn [map]. rewrite sumq_cons.
    rewrite map_app in *. cbn [map]. rewrite sumq_app in *. rewrite sumq_cons. lra.
Qed.

Lemma NoDup_app_intro_aux {A} (l1 l2 : list A) :
  NoDup l1 -> NoDup l2 -> (forall x, In x l1 -> In x l2 -> False) -> NoDup (l1 ++ l2).
Proof.
  induction l1 as [|a l1 IH]; intros H1 H2 Hd; [exact H2|]. inversion H1 as [|? ? Hn H1']; subst.
  simpl. constructor.
  - intros Hc. apply in_app_iff in Hc. destruct Hc as [Hc|Hc]; [tauto|]. apply (Hd a); [now left | exact Hc].
  - apply IH; [assumption | assumption |]. intros x Hx. apply Hd. now right.
Qed.

Section Score.
Context (degree : bool) (n : nat) (G : wgraph) (D : dendrogram) (Hv : valid n D = true).
Context (HG : forall e, In e G -> e_src e < n /\ e_dst e < n /\ e_src e <> e_dst e).
Context (Hpos : forall e, In e G -> (0 <= e_w e)%Q).
Context (Hw : (0 < total_weight G)%Q) (Hn : 2 <= n).

Lemma out_weight_ind u : (out_weight G u == sumq (map (fun e => ite (Nat.eqb (e_src e) u) (e_w e)) G))%Q.
Proof. unfold out_weight. rewrite qsum_sumq. apply sumq_filter_ite. Qed.
Lemma in_weight_ind u : (in_weight G u == sumq (map (fun e => ite (Nat.eqb (e_dst e) u) (e_w e)) G))%Q.
Proof. unfold in_weight. rewrite qsum_sumq. apply sumq_filter_ite. Qed.

Lemma ite_nonneg b x : (0 <= x)%Q -> (0 <= ite b x)%Q.
Proof. destruct b; simpl; [auto | intros; apply Qle_refl]. Qed.

Lemma out_weight_nonneg u : (0 <= out_weight G u)%Q.
Proof.
  rewrite out_weight_ind. apply sumq_nonneg. intros x Hx. apply in_map_iff in Hx. destruct Hx as [e [<- He]].
  apply ite_nonneg. now apply Hpos.
Qed.
Lemma in_weight_nonneg u : (0 <= in_weight G u)%Q.
Proof.
  rewrite in_weight_ind. apply sumq_nonneg. intros x Hx. apply in_map_iff in Hx. destruct Hx as [e [<- He]].
  apply ite_nonneg. now apply Hpos.
Qed.

Lemma out_weight_total : (sumq (map (out_weight G) (seq 0 n)) == total_weight G)%Q.
Proof.
  rewrite (sumq_ext _ (fun u => sumq (map (fun e => ite (Nat.eqb (e_src e) u) (e_w e)) G))) by (intros; apply out_weight_ind).
  rewrite sumq_swap. unfold total_weight. rewrite qsum_sumq. apply sumq_ext. intros e He.
  rewrite sumq_indicator by apply seq_NoDup. destruct (HG e He) as (Hs & _).
  replace (memn (e_src e) (seq 0 n)) with true by (symmetry; apply memn_In, in_seq; lia). reflexivity.
Qed.
Lemma in_weight_total : (sumq (map (in_weight G) (seq 0 n)) == total_weight G)%Q.
Proof.
  rewrite (sumq_ext _ (fun u => sumq (map (fun e => ite (Nat.eqb (e_dst e) u) (e_w e)) G))) by (intros; apply in_weight_ind).
  rewrite sumq_swap. unfold total_weight. rewrite qsum_sumq. apply sumq_ext. intros e He.
  rewrite sumq_indicator by apply seq_NoDup. destruct (HG e He) as (_ & Hs & _).
  replace (memn (e_dst e) (seq 0 n)) with true by (symmetry; apply memn_In, in_seq; lia). reflexivity.
Qed.

(** The node sampling probabilities are non-negative and sum to 1. *)
Lemma probs_bounds (l : list nat) : NoDup l -> (forall u, In u l -> u < n) ->
  (0 <= PR degree n G l <= 1)%Q /\ (0 <= PC degree n G l <= 1)%Q.
Proof.
  intros Hnd Hb. assert (Hnq := nQ_pos n Hn).
  assert (Hincl : incl l (seq 0 n)) by (intros u Hu; apply in_seq; specialize (Hb u Hu); lia).
  set (fr := fun u => (if degree then out_weight G u / total_weight G else 1 / inject_Z (Z.of_nat n))%Q).
  set (fc := fun u => (if degree then in_weight G u / total_weight G else 1 / inject_Z (Z.of_nat n))%Q).
  assert (Hfr : forall u, (0 <= fr u)%Q).
  { intros u. unfold fr. destruct degree.
    - apply Qle_shift_div_l; [exact Hw|]. rewrite Qmult_0_l. apply out_weight_nonneg.
    - apply Qle_shift_div_l; [exact Hnq|]. lra. }
  assert (Hfc : forall u, (0 <= fc u)%Q).
  { intros u. unfold fc. destruct degree.
    - apply Qle_shift_div_l; [exact Hw|]. rewrite Qmult_0_l. apply in_weight_nonneg.
    - apply Qle_shift_div_l; [exact Hnq|]. lra. }
  assert (Er : (PR degree n G l == sumq (map fr l))%Q).
  { unfold PR. apply sumq_ext. intros u Hu. apply probs_row_nth. now apply Hb. }
  assert (Ec : (PC degree n G l == sumq (map fc l))%Q).
  { unfold PC. apply sumq_ext. intros u Hu. apply probs_col_nth. now apply Hb. }
  assert (Tr : (sumq (map fr (seq 0 n)) == 1)%Q).
  { unfold fr. destruct degree.
    - rewrite (sumq_ext _ (fun u => / total_weight G * out_weight G u)%Q) by (intros; unfold Qdiv; ring).
      rewrite sumq_scale, out_weight_total. field. lra.
    - rewrite sumq_const, seq_length. field. lra. }
  assert (Tc : (sumq (map fc (seq 0 n)) == 1)%Q).
  { unfold fc. destruct degree.
    - rewrite (sumq_ext _ (fun u => / total_weight G * in_weight G u)%Q) by (intros; unfold Qdiv; ring).
      rewrite sumq_scale, in_weight_total. field. lra.
    - rewrite sumq_const, seq_length. field. lra. }
  rewrite Er, Ec. split; split.
  - apply sumq_nonneg. intros x Hx. apply in_map_iff in Hx. destruct Hx as [u [<- _]]. apply Hfr.
  - rewrite <- Tr. now apply sumq_sub.
  - apply sumq_nonneg. intros x Hx. apply in_map_iff in Hx. destruct Hx as [u [<- _]]. apply Hfc.
  - rewrite <- Tc. now apply sumq_sub.
Qed.

Lemma XW_nonneg r : (0 <= XW n G D r)%Q.
Proof.
  unfold XW. apply sumq_nonneg. intros x Hx. apply in_map_iff in Hx. destruct Hx as [e [<- He]].
  apply ite_nonneg. now apply Hpos.
Qed.

Lemma XW_total : (sumq (map (fun r => XW n G D r) D) == total_weight G)%Q.
Proof.
  unfold XW. rewrite sumq_swap. unfold total_weight. rewrite qsum_sumq. apply sumq_ext. intros e He.
  destruct (HG e He) as (Hu & Hvv & Hne).
  destruct (meeting_merge n D Hv _ _ Hu Hvv Hne) as (t & r & Hr & Hsep & Huniq & _).
  rewrite (sumq_single _ D t r Hr).
  - assert (Hs : sepb n D r e = true) by now apply sepb_sep. now rewrite Hs.
  - intros t' r' Hr' Hne'. destruct (sepb n D r' e) eqn:Es; [|reflexivity]. exfalso. apply Hne'.
    apply (Huniq t' r' Hr'). now apply sepb_sep.
Qed.

Theorem dasgupta_score_unit : G <> [] ->
  exists s, dasgupta_score degree n G D = Ok s /\ (0 <= s <= 1)%Q.
Proof.
  intros HGne. assert (Hlen0 : length G <> 0) by (destruct G; [congruence | discriminate]).
  destruct (dasgupta_cost_sum degree n G D Hv true Hlen0 Hn) as [c [Hc Ec]].
  unfold dasgupta_score. rewrite Hc. eexists. split; [reflexivity|]. rewrite Qred_correct, Ec.
  assert (Hrow : forall r, In r D -> (0 <= ES n G D r * CW degree n G D r <= XW n G D r / total_weight G)%Q).
  { intros r Hr. destruct (In_nth_error _ _ Hr) as [t Ht].
    rewrite (ES_XW n G D Hv HG Hw Hn t r Ht).
    destruct (row_children_facts n D Hv Hn t r Ht) as (N1 & N2 & Hdisj & Hb).
    assert (Hnd : NoDup (leaves n D (r_left r) ++ leaves n D (r_right r))).
    { apply NoDup_app_intro_aux; try assumption. }
    destruct (probs_bounds _ Hnd) as [[P1 P2] [P3 P4]]; [intros u Hu; apply Hb; now apply in_app_iff|].
    assert (ECW : (CW degree n G D r == (PR degree n G (leaves n D (r_left r) ++ leaves n D (r_right r)) +
                                         PC degree n G (leaves n D (r_left r) ++ leaves n D (r_right r))) / 2)%Q).
    { unfold CW, PR, PC. rewrite !map_app, !sumq_app. field. }
    assert (HX := XW_nonneg r).
    assert (HXW : (0 <= XW n G D r / total_weight G)%Q) by (apply Qle_shift_div_l; [exact Hw | lra]).
    rewrite ECW. set (x := (XW n G D r / total_weight G)%Q) in *.
    set (p := PR degree n G (leaves n D (r_left r) ++ leaves n D (r_right r))) in *.
    set (q := PC degree n G (leaves n D (r_left r) ++ leaves n D (r_right r))) in *.
    set (y := ((p + q) / 2)%Q). assert (Hy : (0 <= y <= 1)%Q) by (unfold y; split; [apply Qle_shift_div_l; lra | apply Qle_shift_div_r; lra]).
    assert (H1 : (0 <= x * y)%Q) by (apply Qmult_le_0_compat; lra).
    assert (H2 : (0 <= x * (1 - y))%Q) by (apply Qmult_le_0_compat; lra).
    assert (H3 : (x * (1 - y) == x - x * y)%Q) by ring. split; lra. }
  assert (Hlo : (0 <= sumq (map (fun r => ES n G D r * CW degree n G D r) D))%Q).
  { apply sumq_nonneg. intros x Hx. apply in_map_iff in Hx. destruct Hx as [r [<- Hr]]. apply Hrow, Hr. }
  assert (Hhi : (sumq (map (fun r => ES n G D r * CW degree n G D r) D) <= 1)%Q).
  { apply Qle_trans with (sumq (map (fun r => XW n G D r / total_weight G)%Q D)).
    - apply sumq_le. intros r Hr. apply Hrow, Hr.
    - rewrite (sumq_ext _ (fun r => / total_weight G * XW n G D r)%Q) by (intros; unfold Qdiv; ring).
      rewrite sumq_scale, XW_total. apply Qle_lteq. right. field. lra. }
  lra.
Qed.
End Score.

Lemma cut_balanced_cap_lemma argsort n D m sort ret labels od :
  valid n D = true -> argsort_ok argsort ->
  cut_balanced argsort D m sort ret = Ok (labels, od) ->
  forall l, cluster_size labels l <= m.
Proof.
  intros Hv Ha Hc. destruct (cut_balanced_subtrees argsort n D m sort ret labels od Hv Ha Hc) as [ids [_ [_ H]]]. exact H.
Qed.

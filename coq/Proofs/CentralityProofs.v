(** Proofs about Katz, closeness, betweenness and the HITS wrapper (Model/Centrality.v). *)
From SKN Require Import Base.Util Model.Bfs Proofs.BfsProofs Model.PageRank Proofs.PageRankProofs Model.Centrality.
From Coq Require Import Qabs Qreduction Lqa Psatz Lia Setoid.
Close Scope Q_scope.
Open Scope nat_scope.

(* ------------------------------------------------------------------------------------------ *)
(** * Katz *)

Lemma bsum_shift m (f : nat -> Q) : (bsum (S m) f == f O + bsum m (fun k => f (S k)))%Q.
Proof. induction m as [|m IH]; [cbn [bsum]; ring|]. cbn [bsum] in *. rewrite IH. ring. Qed.

Lemma katz_coefs_shape alpha K :
  katz_coefs alpha K = 0%Q :: map (qpow alpha) (seq 1 K).
Proof. unfold katz_coefs. cbn [seq map]. reflexivity. Qed.

Lemma katz_coefs_nth alpha K k : k < K -> nthq (katz_coefs alpha K) (S k) = qpow alpha (S k).
Proof.
  intros Hk. rewrite katz_coefs_shape. unfold nthq. cbn [nth].
  rewrite (nth_indep _ 0%Q (qpow alpha 0)) by (rewrite map_length, seq_length; exact Hk).
  rewrite map_nth. rewrite seq_nth by exact Hk. reflexivity.
Qed.

Lemma walks_to_pow p n k j :
  length p = n -> j < n -> (pow_mv n (BT p) k (V (repeat 1%Q n)) j == walks_to p k j)%Q.
Proof.
  intros Lp. subst n. revert j. induction k as [|k IH]; intros j Hj; cbn [pow_mv walks_to].
  - unfold V. rewrite nthq_repeat by exact Hj. reflexivity.
  - apply mv_ext. exact IH.
Qed.

(** The coded Horner loop computes the docstring's sum_{k=1..K} alpha^k (A^T)^k 1 on the 0/1 pattern. *)
Theorem katz_def_proof (g : wgraph) (alpha : Q) (K : nat) :
  veq (length g) (katz g alpha K) (katz_spec (pattern g) alpha K).
Proof.
  unfold katz. set (n := length g). set (p := pattern g).
  assert (Lp : length p = n) by (unfold p, pattern; apply map_length).
  eapply veq_ext.
  - apply (horner_eq_power_sum_proof n (BT p) (katz_coefs alpha K) (repeat 1%Q n)); [apply repeat_length|].
    rewrite katz_coefs_shape. discriminate.
  - intros j Hj. unfold power_sum, katz_spec.
    assert (Lc : length (katz_coefs alpha K) = S K) by (rewrite katz_coefs_shape; cbn [length]; rewrite map_length, seq_length; reflexivity).
    rewrite Lc. rewrite bsum_shift.
    assert (H0 : nthq (katz_coefs alpha K) 0 = 0%Q) by (rewrite katz_coefs_shape; reflexivity).
    rewrite H0. rewrite Qmult_0_l, Qplus_0_l. apply bsum_ext. intros k Hk.
    rewrite katz_coefs_nth by exact Hk. assert (Hw := walks_to_pow p n (S k) j Lp Hj). rewrite Hw. reflexivity.
Qed.

(* ------------------------------------------------------------------------------------------ *)
(** * Closeness *)

Lemma closeness_of_spec n ds :
  n <> 0 -> length ds = n -> existsb (fun d => (d <? 0)%Z) ds = false ->
  (closeness_of n ds == closeness_spec n ds)%Q.
Proof.
  intros Hn Ld Hneg. unfold closeness_of, closeness_spec. rewrite Hneg. rewrite Qred_correct. rewrite Ld.
  set (a := (zq (Z.of_nat n) - 1)%Q). set (S := zq (sumz ds)). set (N := zq (Z.of_nat n)).
  assert (HN : ~ (N == 0)%Q).
  { unfold N, zq. intros E. unfold Qeq in E. cbn in E. lia. }
  destruct (Qeq_dec S 0) as [E|E].
  - rewrite E. unfold Qdiv. setoid_replace (0 * / N)%Q with 0%Q by ring.
    change (/ 0)%Q with 0%Q. ring.
  - field. split; assumption.
Qed.

Lemma single_source_length n s : length (single_source n s) = n.
Proof. unfold single_source. rewrite map_length. apply seq_length. Qed.

(** closeness.py, method = 'exact': the score of node i is (n-1) / (sum of the hop distances from i)
    when every node is reachable from i, and 0 otherwise; the distances are the exact hop distances
    (C10's theorem about the same BFS). *)
Theorem closeness_def_proof (p : graph) (i : nat) :
  i < length p ->
  exists dist,
    bfs p (single_source (length p) i) = Some dist /\ length dist = length p /\
    (forall v, v < length p ->
       (forall k, nthz dist v = Z.of_nat k <-> hop p (single_source (length p) i) v k) /\
       (nthz dist v = (-1)%Z <-> forall k, ~ reachk p (single_source (length p) i) k v)) /\
    (V (closeness_exact p) i ==
       (if existsb (fun d => (d <? 0)%Z) dist then 0 else closeness_spec (length p) dist))%Q.
Proof.
  intros Hi. set (n := length p) in *.
  destruct (bfs_exact p (single_source n i) (single_source_length n i)) as (dist & Hb & Ld & Hd).
  exists dist. split; [exact Hb|]. split; [exact Ld|]. split; [exact Hd|].
  unfold closeness_exact, dist_rows. fold n. rewrite map_map.
  unfold V, nthq.
  rewrite (nth_indep _ 0%Q ((fun s => closeness_of n match bfs p (single_source n s) with Some d => d | None => [] end) 0))
    by (rewrite map_length, seq_length; exact Hi).
  rewrite (map_nth (fun s => closeness_of n match bfs p (single_source n s) with Some d => d | None => [] end)).
  rewrite seq_nth by exact Hi. cbn [Nat.add]. rewrite Hb.
  destruct (existsb (fun d => (d <? 0)%Z) dist) eqn:E.
  - unfold closeness_of. rewrite E. reflexivity.
  - apply closeness_of_spec; [lia|exact Ld|exact E].
Qed.

(** Regression witnesses for the two repaired branches (kept so that a return is recognised). *)
Theorem old_closeness_approx_refuted_proof :
  exists (p : graph) (sources : list nat),
    (* the sample is a permutation of all nodes of the undirected path 0 - 1 - 2 *)
    sources = [1; 0; 2] /\ p = [[1]; [0; 2]; [1]] /\
    list_eqb (closeness_approx p sources) (closeness_exact p) = true /\
    list_eqb (old_closeness_approx p sources) (closeness_exact p) = false.
Proof. exists [[1]; [0; 2]; [1]], [1; 0; 2]. repeat split; vm_compute; reflexivity. Qed.

Theorem old_betweenness_refuted_proof :
  exists g : wgraph,
    g = [[(1, 1%Q)]; [(2, 1%Q)]; []] /\ is_symmetric g = false /\
    betweenness g = betweenness_spec g /\ betweenness_spec g = [0; 1; 0]%Q /\
    old_betweenness g = [0; 1 # 2; 0]%Q.
Proof. exists [[(1, 1%Q)]; [(2, 1%Q)]; []]. repeat split; vm_compute; reflexivity. Qed.

(* ------------------------------------------------------------------------------------------ *)
(** * Betweenness: bounded exactness (all digraphs on <= 3 nodes with loops, <= 4 nodes loop-free) *)

Theorem brandes_exact_small_partial_proof :
  forallb (fun g => list_eqb (betweenness g) (betweenness_spec g))
          (all_digraphs 1 true ++ all_digraphs 2 true ++ all_digraphs 3 true ++ all_digraphs 4 false) = true.
Proof. vm_compute. reflexivity. Qed.

(* ------------------------------------------------------------------------------------------ *)
(** * HITS wrapper *)

Lemma Qltb_false_le a b : Qltb a b = false <-> (b <= a)%Q.
Proof. unfold Qltb. rewrite negb_false_iff. apply Qle_bool_iff. Qed.

Lemma Forall2_map_l {A} (R : Q -> A -> Prop) (f : A -> Q) (g : A -> A) l :
  (forall x, In x l -> R (f x) (g x)) -> Forall2 R (map f l) (map g l).
Proof.
  induction l as [|x l IH]; intros H; cbn [map]; constructor.
  - apply H. left. reflexivity.
  - apply IH. intros y Hy. apply H. right. exact Hy.
Qed.

Lemma sumq_nonneg_list u : (forall x, In x u -> (0 <= x)%Q) -> (0 <= sumq u)%Q.
Proof.
  induction u as [|a u IH]; intros H; [cbn; lra|]. rewrite sumq_cons.
  assert (H1 := H a (or_introl eq_refl)). assert (H2 := IH (fun x Hx => H x (or_intror Hx))). lra.
Qed.

Lemma sumq_zero_all u : (forall x, In x u -> (0 <= x)%Q) -> (sumq u <= 0)%Q -> forall x, In x u -> (x <= 0)%Q.
Proof.
  induction u as [|a u IH]; intros H Hs x Hx; [contradiction|]. rewrite sumq_cons in Hs.
  assert (H1 := H a (or_introl eq_refl)). assert (H2 := sumq_nonneg_list u (fun y Hy => H y (or_intror Hy))).
  destruct Hx as [->|Hx]; [lra|]. apply (IH (fun y Hy => H y (or_intror Hy))); [lra|exact Hx].
Qed.

Lemma sumq_nonpos_list u : (forall x, In x u -> (x <= 0)%Q) -> (sumq u <= 0)%Q.
Proof.
  induction u as [|a u IH]; intros H; [cbn; lra|]. rewrite sumq_cons.
  assert (H1 := H a (or_introl eq_refl)). assert (H2 := IH (fun x Hx => H x (or_intror Hx))). lra.
Qed.

(** If the singular vector returned by the solver has entries of one sign (Perron vector, up to the
    solver's arbitrary sign), the wrapper returns its entrywise absolute value. *)
Theorem hits_wrapper_proof (u : list Q) :
  (forall x, In x u -> (0 <= x)%Q) \/ (forall x, In x u -> (x <= 0)%Q) ->
  Forall2 Qeq (sign_fix u) (map Qabs u).
Proof.
  intros Hsign. unfold sign_fix, clip_pos, clip_neg.
  rewrite <- (map_id u) at 4. rewrite map_map.
  assert (Hnegcase : (forall x, In x u -> (x <= 0)%Q) ->
            Forall2 Qeq (map (fun x => if Qltb (- x) 0 then 0%Q else (- x)%Q) u) (map (fun x => Qabs x) u)).
  { intros Hneg. apply Forall2_map_l. intros x Hx. assert (H := Hneg x Hx).
    assert (E2 : Qltb (- x) 0 = false) by (apply Qltb_false_le; lra). rewrite E2.
    rewrite Qabs_neg by exact H. reflexivity. }
  destruct (Qltb 0 (sumq u)) eqn:E.
  - apply Qltb_lt in E. destruct Hsign as [Hpos|Hneg].
    + apply Forall2_map_l. intros x Hx. assert (H := Hpos x Hx).
      assert (E2 : Qltb x 0 = false) by (apply Qltb_false_le; exact H). rewrite E2.
      rewrite Qabs_pos by exact H. reflexivity.
    + exfalso. assert (H := sumq_nonpos_list u Hneg). lra.
  - apply Qltb_false_le in E. destruct Hsign as [Hpos|Hneg].
    + apply Hnegcase. apply (sumq_zero_all u Hpos E).
    + apply Hnegcase. exact Hneg.
Qed.

(** Regression witness: round-off noise outside the dominant component outvoted the genuine entries. *)
Theorem old_hits_sign_refuted_proof :
  exists u : list Q,
    u = [- (1 # 2); - (3 # 4); 1 # 100000000000000000; 1 # 100000000000000000; 1 # 100000000000000000]%Q /\
    old_sign_fix u = [0; 0; 1 # 100000000000000000; 1 # 100000000000000000; 1 # 100000000000000000]%Q /\
    sign_fix u = [1 # 2; 3 # 4; 0; 0; 0]%Q.
Proof. eexists. split; [reflexivity|]. split; vm_compute; reflexivity. Qed.

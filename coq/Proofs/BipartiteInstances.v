(** C03 instantiated for the REAL estimator models.

    Props/C03.v proves the shared glue generically ([fit_bipartite_eq_block]: for ANY core the coded
    skeleton on B equals the core on the block adjacency with the stacked seeds, split at n_row).
    This file proves, model by model, that the faithful models of the individual entry points built
    for the other properties really have that shape:

      Model/Bfs.v        get_distances, get_shortest_path        (sources i / n_row + j)
      Model/PageRank.v   pagerank_fit                            (weights_row / weights_col, 'probs')
      Model/Diffusion.v  diffusion_fit, dirichlet_fit            (values_row / values_col)
      Model/Structure.v  get_connected_components, is_connected, get_largest_connected_component
      Model/Paris.v      paris_fit_bipartite + Hierarchy.split_dendrogram
      Model/Embedding.v  get_adjacency + split_vars (Spectral's front end)

    Every theorem has the form: running the model on the biadjacency matrix B with row / column
    arguments and obtaining (r, Some c) implies that running THE SAME model on the block adjacency,
    taken as an ordinary square graph, with the translated arguments as ONE vector over
    n_row + n_col nodes and no force flag, gives (x, None) with r = firstn n_row x and
    c = skipn n_row x.  Each model's own block construction is shown to be (or to denote, entry by
    entry) [Format.bipartite2undirected] / [Bfs.block_undirected]. *)
From Coq Require Import Permutation Sorted QArith Lqa Setoid Morphisms.
From SKN Require Base.QMat Model.PageRank Model.Centrality Model.Diffusion Model.Structure Model.Cuts Model.Paris
     Model.Hierarchy Model.Embedding.
From SKN Require Import Base.Util Model.Bfs Model.Format Proofs.BfsProofs Proofs.FormatProofs.
Set Warnings "-notation-overridden".
Close Scope Q_scope.
Open Scope nat_scope.

(* ------------------------------------------------------------------------------------------ *)
(** * Generic helpers *)

Lemma forallb_map' {A B} (f : B -> bool) (g : A -> B) (l : list A) :
  forallb f (map g l) = forallb (fun x => f (g x)) l.
Proof. induction l as [|a t IH]; simpl; [reflexivity|]. rewrite IH. reflexivity. Qed.

Lemma map_nthb_seq (l : list bool) : map (nthb l) (seq 0 (length l)) = l.
Proof.
  apply (nth_ext _ _ false false).
  - rewrite map_length, seq_length. reflexivity.
  - intros i Hi. rewrite map_length, seq_length in Hi. rewrite nth_map_seq by exact Hi. reflexivity.
Qed.

(* ------------------------------------------------------------------------------------------ *)
(** * 1. get_distances / get_shortest_path (Model/Bfs.v) *)

(** The block graph as an ordinary square pattern matrix on n_row + n_col nodes. *)
Definition sq_block (m : pmat) : pmat :=
  {| p_ncol := p_nrow m + p_ncol m; p_rows := block_undirected m |}.

Definition opt_list (o : option (list nat)) : list nat :=
  match o with Some s => s | None => [] end.

(** Row source i is node i, column source j is node n_row + j. *)
Definition stack_sources (n_row : nat) (source_row source_col : option (list nat)) : list nat :=
  opt_list source_row ++ map (fun j => n_row + j) (opt_list source_col).

Lemma bfs_block_length (m : pmat) : length (block_undirected m) = p_nrow m + p_ncol m.
Proof.
  unfold block_undirected, transpose, p_nrow. cbn [p_rows].
  rewrite app_length, !map_length, seq_length. reflexivity.
Qed.

Lemma sq_block_square (m : pmat) : Nat.eqb (p_nrow (sq_block m)) (p_ncol (sq_block m)) = true.
Proof.
  unfold sq_block, p_nrow at 1. cbn [p_rows p_ncol]. rewrite bfs_block_length. apply Nat.eqb_refl.
Qed.

Lemma set_mask_nil (n off : nat) (mask : list bool) :
  length mask = n -> set_mask n off [] mask = Ok mask.
Proof.
  intros HL. unfold set_mask. cbn [forallb map memn existsb]. f_equal.
  rewrite <- HL. rewrite <- (map_nthb_seq mask) at 2. apply map_ext. intros v. apply orb_false_r.
Qed.

Lemma set_mask_length (n off : nat) (idx : list nat) (mask mk : list bool) :
  set_mask n off idx mask = Ok mk -> length mk = n.
Proof.
  unfold set_mask. destruct (forallb _ idx); [|discriminate]. intros E. injection E as <-.
  rewrite map_length, seq_length. reflexivity.
Qed.

(** Two successive fancy assignments [mask[s] = 1; mask[off + t] = 1] are one assignment at the
    concatenated index list. *)
Lemma set_mask_compose (n off : nat) (s t : list nat) (mask mk1 mk : list bool) :
  set_mask n 0 s mask = Ok mk1 -> set_mask n off t mk1 = Ok mk ->
  set_mask n 0 (s ++ map (fun j => off + j) t) mask = Ok mk.
Proof.
  unfold set_mask. cbn [Nat.add].
  destruct (forallb (fun i => i <? n) s) eqn:Es; [|discriminate].
  destruct (forallb (fun i => off + i <? n) t) eqn:Et; [|intros _ H; discriminate].
  intros E1 E2. injection E1 as <-. injection E2 as <-.
  rewrite forallb_app, Es, forallb_map', Et. cbn [andb]. f_equal.
  apply map_ext_in. intros v Hv. apply in_seq in Hv.
  unfold nthb at 2. rewrite nth_map_seq by lia.
  rewrite !map_id.
  unfold memn. rewrite existsb_app. rewrite orb_assoc. reflexivity.
Qed.

Lemma set_mask_stack (n n_row : nat) (sr sc : option (list nat)) (mk1 mk : list bool) :
  match sr with Some s => set_mask n 0 s (repeat false n) | None => Ok (repeat false n) end = Ok mk1 ->
  match sc with Some s => set_mask n n_row s mk1 | None => Ok mk1 end = Ok mk ->
  set_mask n 0 (stack_sources n_row sr sc) (repeat false n) = Ok mk.
Proof.
  intros H1 H2. unfold stack_sources.
  assert (H1' : set_mask n 0 (opt_list sr) (repeat false n) = Ok mk1).
  { destruct sr as [s|]; [exact H1|]. cbn [opt_list]. injection H1 as <-.
    apply set_mask_nil. apply repeat_length. }
  assert (HL : length mk1 = n) by (apply (set_mask_length _ _ _ _ _ H1')).
  assert (H2' : set_mask n n_row (opt_list sc) mk1 = Ok mk).
  { destruct sc as [s|]; [exact H2|]. cbn [opt_list]. injection H2 as <-.
    apply set_mask_nil. exact HL. }
  exact (set_mask_compose n n_row _ _ _ _ _ H1' H2').
Qed.

Theorem distances_bipartite_eq_block (m0 : pmat) (source source_row source_col : option (list nat))
        (transpose_flag force_bipartite : bool) (r c : list Z) :
  get_distances m0 source source_row source_col transpose_flag force_bipartite = Ok (r, Some c) ->
  let m := if transpose_flag then transpose m0 else m0 in
  let rows := match source with Some s => Some s | None => source_row end in
  exists x,
    get_distances (sq_block m) (Some (stack_sources (p_nrow m) rows source_col)) None None false false
      = Ok (x, None) /\
    r = firstn (p_nrow m) x /\ c = skipn (p_nrow m) x /\ length x = p_nrow m + p_ncol m.
Proof.
  unfold get_distances at 1.
  set (m := if transpose_flag then transpose m0 else m0).
  set (fb := match source_row, source_col with None, None => force_bipartite | _, _ => true end).
  destruct (fb || negb (Nat.eqb (p_nrow m) (p_ncol m))) eqn:Ebip.
  2:{ destruct source as [s|]; [|discriminate].
      destruct (set_mask _ _ _ _); [|discriminate]. destruct (bfs _ _); discriminate. }
  cbv zeta. rewrite bfs_block_length.
  set (n := p_nrow m + p_ncol m).
  intros H.
  assert (Hmask : exists mk,
            set_mask n 0 (stack_sources (p_nrow m)
                            (match source with Some s => Some s | None => source_row end) source_col)
                     (repeat false n) = Ok mk /\
            match bfs (block_undirected m) mk with
            | Some dist => Ok (firstn (p_nrow m) dist, Some (skipn (p_nrow m) dist))
            | None => Err OutOfFuel
            end = Ok (r, Some c)).
  { destruct source as [s|], source_row as [sr|]; try discriminate.
    - destruct (set_mask n 0 s (repeat false n)) as [mk1|e] eqn:E1; [|discriminate].
      destruct (match source_col with Some s0 => set_mask n (p_nrow m) s0 mk1 | None => Ok mk1 end)
        as [mk|e] eqn:E2; [|discriminate].
      exists mk. split; [|exact H]. apply (set_mask_stack n (p_nrow m) (Some s) source_col mk1 mk E1 E2).
    - destruct (set_mask n 0 sr (repeat false n)) as [mk1|e] eqn:E1; [|discriminate].
      destruct (match source_col with Some s0 => set_mask n (p_nrow m) s0 mk1 | None => Ok mk1 end)
        as [mk|e] eqn:E2; [|discriminate].
      exists mk. split; [|exact H]. apply (set_mask_stack n (p_nrow m) (Some sr) source_col mk1 mk E1 E2).
    - destruct source_col as [sc|]; [|discriminate].
      destruct (set_mask n (p_nrow m) sc (repeat false n)) as [mk|e] eqn:E2; [|discriminate].
      exists mk. split; [|exact H].
      apply (set_mask_stack n (p_nrow m) None (Some sc) (repeat false n) mk eq_refl E2). }
  destruct Hmask as [mk [Hmk Hb]].
  destruct (bfs (block_undirected m) mk) as [dist|] eqn:Ebfs; [|discriminate].
  injection Hb as Hr Hc. exists dist.
  assert (HLd : length dist = n).
  { destruct (bfs_exact (block_undirected m) mk) as [d' [Hd' [HL' _]]].
    - rewrite (set_mask_length _ _ _ _ _ Hmk), bfs_block_length. reflexivity.
    - rewrite Ebfs in Hd'. injection Hd' as <-. rewrite HL', bfs_block_length. reflexivity. }
  split; [|split; [symmetry; exact Hr|split; [symmetry; exact Hc|exact HLd]]].
  unfold get_distances. cbn [orb]. rewrite sq_block_square. cbn [negb].
  cbn [sq_block p_rows]. rewrite bfs_block_length. fold n. rewrite Hmk, Ebfs. reflexivity.
Qed.

(** get_shortest_path: same DAG (the very same list of rows). [fb_to_transpose] / [fb_to_force] are
    the call-site bindings extracted from the source (Gen/Routing.v: false / true). *)
Definition sp_bipartite (fb : bool) (m : pmat) (source_row source_col : option (list nat)) : bool :=
  match source_row, source_col with None, None => fb | _, _ => true end
  || negb (Nat.eqb (p_nrow m) (p_ncol m)).

Theorem shortest_path_bipartite_eq_block (fb_to_force : bool) (m : pmat)
        (source source_row source_col : option (list nat)) (force_bipartite : bool) (dag : graph) :
  sp_bipartite (fb_to_force && force_bipartite) m source_row source_col = true ->
  get_shortest_path false fb_to_force m source source_row source_col force_bipartite = Ok dag ->
  let rows := match source with Some s => Some s | None => source_row end in
  get_shortest_path false fb_to_force (sq_block m)
                    (Some (stack_sources (p_nrow m) rows source_col)) None None false = Ok dag.
Proof.
  intros Hbip. unfold get_shortest_path at 1. cbn [andb].
  destruct (get_distances m source source_row source_col false (fb_to_force && force_bipartite))
    as [[d [dc|]]|e] eqn:Ed; [| |discriminate].
  - intros H. injection H as <-.
    destruct (distances_bipartite_eq_block _ _ _ _ _ _ _ _ Ed) as [x [Hx [Hr [Hc _]]]].
    cbv zeta in Hx. cbn [andb] in *. unfold get_shortest_path. cbn [andb].
    rewrite andb_false_r. rewrite Hx. cbn [sq_block p_rows].
    rewrite Hr, Hc, firstn_skipn. reflexivity.
  - exfalso. unfold get_distances in Ed. unfold sp_bipartite in Hbip. rewrite Hbip in Ed.
    cbv zeta in Ed.
    destruct (match source, source_row with Some _, Some _ => Err ValueError | _, _ => _ end)
      as [mk|e]; [|discriminate].
    destruct (bfs _ mk); discriminate.
Qed.

(** The same statement against the block matrix of the shared glue: for a weighted biadjacency
    matrix b, the pattern of [Format.bipartite2undirected b] has the same rows (as sets) as the block
    graph the path functions build from the pattern of b, so BFS returns the same distances. *)
Definition format_block_pmat (b : wmat) : pmat :=
  {| p_ncol := fst (bipartite2undirected b); p_rows := pattern (snd (bipartite2undirected b)) |}.

Theorem distances_bipartite_eq_format_block (b : wmat) (source source_row source_col : option (list nat))
        (force_bipartite : bool) (r c : list Z) :
  get_distances (pattern_pmat b) source source_row source_col false force_bipartite = Ok (r, Some c) ->
  let n_row := length (snd b) in
  let rows := match source with Some s => Some s | None => source_row end in
  exists x,
    get_distances (format_block_pmat b) (Some (stack_sources n_row rows source_col)) None None false false
      = Ok (x, None) /\
    r = firstn n_row x /\ c = skipn n_row x /\ length x = n_row + fst b.
Proof.
  intros H. destruct (distances_bipartite_eq_block _ _ _ _ _ _ _ _ H) as [x [Hx [Hr [Hc HL]]]].
  cbv zeta in *.
  assert (Hn : p_nrow (pattern_pmat b) = length (snd b)).
  { unfold p_nrow, pattern_pmat. cbn [p_rows]. apply pattern_length. }
  rewrite Hn in *. cbn [pattern_pmat p_ncol] in HL.
  exists x. split; [|auto].
  destruct (block_pattern b) as [HLen Hrows]. cbv zeta in HLen, Hrows.
  assert (Hsame : same_rows (pattern (snd (bipartite2undirected b))) (block_undirected (pattern_pmat b)))
    by (split; assumption).
  destruct (bfs_row_order_irrelevant _ _ Hsame) as [Hbfs _].
  destruct (block_denotation b) as [Hfst [Hlen _]]. cbv zeta in Hfst, Hlen.
  revert Hx. unfold get_distances. cbv zeta. cbn [orb].
  rewrite sq_block_square. cbn [negb].
  unfold p_nrow. cbn [format_block_pmat sq_block p_rows p_ncol].
  rewrite !pattern_length, !Hlen, !Hfst, Nat.eqb_refl. cbn [negb].
  rewrite !pattern_length, !Hlen, !bfs_block_length, !Hn. cbn [pattern_pmat p_ncol].
  destruct (set_mask _ _ _ _) as [mk|e]; [|auto].
  rewrite Hbfs. auto.
Qed.

(* ------------------------------------------------------------------------------------------ *)
(** * Seeds: the models' own get_values / stack_values are Format's *)

Lemma sumn_app' (a b : list nat) : sumn (a ++ b) = sumn a + sumn b.
Proof. induction a as [|x t IH]; simpl; [reflexivity|]. rewrite IH. lia. Qed.

(** The recursive "last assignment wins" lookup of the estimator models is Format's [dict_get]. *)
Lemma pr_dict_get_find (d : list (nat * Q)) (i : nat) :
  PageRank.dict_get d i = option_map snd (find (fun e : nat * Q => Nat.eqb (fst e) i) (rev d)).
Proof.
  induction d as [|[k x] t IH]; [reflexivity|].
  cbn [PageRank.dict_get rev]. rewrite find_app, IH.
  destruct (find (fun e : nat * Q => Nat.eqb (fst e) i) (rev t)) as [e|]; [reflexivity|].
  cbn [option_map find fst]. destruct (Nat.eqb k i); reflexivity.
Qed.

Lemma pr_dict_get_is_format (d : list (nat * Q)) (i : nat) (default : Q) :
  match PageRank.dict_get d i with Some x => x | None => default end = dict_get d i default.
Proof.
  rewrite pr_dict_get_find. unfold dict_get.
  destruct (find (fun e : nat * Q => Nat.eqb (fst e) i) (rev d)); reflexivity.
Qed.

Lemma df_dict_get_is_format (d : list (nat * Q)) (i : nat) (default : Q) :
  match Diffusion.dict_get d i with Some x => x | None => default end = dict_get d i default.
Proof. exact (pr_dict_get_is_format d i default). Qed.

(** Translation of the models' seed arguments to [Format.vals]. *)
Definition pr_vals (v : option PageRank.seedsrc) : vals :=
  match v with
  | None => VNone
  | Some (PageRank.SArray l) => VArr l
  | Some (PageRank.SDict d) => VDict d
  end.
Definition df_vals (v : option Diffusion.seedsrc) : vals :=
  match v with
  | None => VNone
  | Some (Diffusion.SArray l) => VArr l
  | Some (Diffusion.SList l) => VArr l
  | Some (Diffusion.SDict d) => VDict d
  end.

Definition ok_part {A} (r : result A) : option A := match r with Ok a => Some a | Err _ => None end.
Definition pr_ok {A} (r : PageRank.result A) : option A :=
  match r with PageRank.Ok a => Some a | PageRank.Err _ => None end.
Definition df_ok {A} (r : Diffusion.result A) : option A :=
  match r with Diffusion.Ok a => Some a | Diffusion.Err _ => None end.

Lemma pr_get_values_is_format (n : nat) (v : option PageRank.seedsrc) (default : Q) :
  pr_ok (PageRank.get_values n v default) = ok_part (get_values n (pr_vals v) default).
Proof.
  destruct v as [[l|d]|]; cbn [pr_vals PageRank.get_values get_values]; [| |reflexivity].
  - destruct (Nat.eqb (length l) n); reflexivity.
  - destruct d as [|e d]; [reflexivity|].
    destruct (forallb (fun e0 : nat * Q => Nat.ltb (fst e0) n) (e :: d)); [|reflexivity].
    cbn [pr_ok ok_part]. f_equal. apply map_ext. intros i. apply pr_dict_get_is_format.
Qed.

Lemma df_get_values_is_format (n : nat) (v : option Diffusion.seedsrc) (default : Q) :
  df_ok (Diffusion.get_values n v default) = ok_part (get_values n (df_vals v) default).
Proof.
  destruct v as [[l|l|d]|]; cbn [df_vals Diffusion.get_values get_values]; [| | |reflexivity].
  - destruct (Nat.eqb (length l) n); reflexivity.
  - destruct (Nat.eqb (length l) n); reflexivity.
  - destruct d as [|e d]; [reflexivity|].
    destruct (forallb (fun e0 : nat * Q => Nat.ltb (fst e0) n) (e :: d)); [|reflexivity].
    cbn [df_ok ok_part]. f_equal. apply map_ext. intros i. apply df_dict_get_is_format.
Qed.

Lemma pr_stack_values_is_format (n_row n_col : nat) (vr vc : option PageRank.seedsrc) (default : Q) :
  pr_ok (PageRank.stack_values n_row n_col vr vc default)
  = ok_part (stack_values n_row n_col (pr_vals vr) (pr_vals vc) default).
Proof.
  unfold PageRank.stack_values, stack_values.
  assert (Hd : stack_defaults n_row n_col (pr_vals vr) (pr_vals vc) default =
               (pr_vals (fst (match vr, vc with
                              | None, None => (Some (PageRank.SArray (repeat 1%Q n_row)),
                                               Some (PageRank.SArray (repeat default n_col)))
                              | None, Some _ => (Some (PageRank.SArray (repeat default n_row)), vc)
                              | Some _, None => (vr, Some (PageRank.SArray (repeat default n_col)))
                              | Some _, Some _ => (vr, vc)
                              end)),
                pr_vals (snd (match vr, vc with
                              | None, None => (Some (PageRank.SArray (repeat 1%Q n_row)),
                                               Some (PageRank.SArray (repeat default n_col)))
                              | None, Some _ => (Some (PageRank.SArray (repeat default n_row)), vc)
                              | Some _, None => (vr, Some (PageRank.SArray (repeat default n_col)))
                              | Some _, Some _ => (vr, vc)
                              end)))).
  { destruct vr as [[l|d]|], vc as [[l'|d']|]; reflexivity. }
  rewrite Hd. clear Hd.
  set (rc := match vr, vc with
             | None, None => _ | None, Some _ => _ | Some _, None => _ | Some _, Some _ => _ end).
  pose proof (pr_get_values_is_format n_row (fst rc) default) as H1.
  pose proof (pr_get_values_is_format n_col (snd rc) default) as H2.
  destruct (PageRank.get_values n_row (fst rc) default) as [a|e],
           (get_values n_row (pr_vals (fst rc)) default) as [a'|e']; cbn [pr_ok ok_part] in H1;
    try discriminate; [|reflexivity].
  injection H1 as <-.
  destruct (PageRank.get_values n_col (snd rc) default) as [b|e],
           (get_values n_col (pr_vals (snd rc)) default) as [b'|e']; cbn [pr_ok ok_part] in H2;
    try discriminate; [|reflexivity].
  injection H2 as <-. reflexivity.
Qed.

Lemma df_stack_values_is_format (n_row n_col : nat) (vr vc : option Diffusion.seedsrc) (default : Q) :
  df_ok (Diffusion.stack_values n_row n_col vr vc default)
  = ok_part (stack_values n_row n_col (df_vals vr) (df_vals vc) default).
Proof.
  unfold Diffusion.stack_values, stack_values.
  assert (Hd : stack_defaults n_row n_col (df_vals vr) (df_vals vc) default =
               (df_vals (fst (match vr, vc with
                              | None, None => (Some (Diffusion.SArray (repeat 1%Q n_row)),
                                               Some (Diffusion.SArray (repeat default n_col)))
                              | None, Some _ => (Some (Diffusion.SArray (repeat default n_row)), vc)
                              | Some _, None => (vr, Some (Diffusion.SArray (repeat default n_col)))
                              | Some _, Some _ => (vr, vc)
                              end)),
                df_vals (snd (match vr, vc with
                              | None, None => (Some (Diffusion.SArray (repeat 1%Q n_row)),
                                               Some (Diffusion.SArray (repeat default n_col)))
                              | None, Some _ => (Some (Diffusion.SArray (repeat default n_row)), vc)
                              | Some _, None => (vr, Some (Diffusion.SArray (repeat default n_col)))
                              | Some _, Some _ => (vr, vc)
                              end)))).
  { destruct vr as [[l|l|d]|], vc as [[l'|l'|d']|]; reflexivity. }
  rewrite Hd. clear Hd.
  set (rc := match vr, vc with
             | None, None => _ | None, Some _ => _ | Some _, None => _ | Some _, Some _ => _ end).
  pose proof (df_get_values_is_format n_row (fst rc) default) as H1.
  pose proof (df_get_values_is_format n_col (snd rc) default) as H2.
  destruct (Diffusion.get_values n_row (fst rc) default) as [a|e],
           (get_values n_row (df_vals (fst rc)) default) as [a'|e']; cbn [df_ok ok_part] in H1;
    try discriminate; [|reflexivity].
  injection H1 as <-.
  destruct (Diffusion.get_values n_col (snd rc) default) as [b|e],
           (get_values n_col (df_vals (snd rc)) default) as [b'|e']; cbn [df_ok ok_part] in H2;
    try discriminate; [|reflexivity].
  injection H2 as <-. reflexivity.
Qed.

Lemma ok_part_Ok {A} (r : result A) (a : A) : ok_part r = Some a -> r = Ok a.
Proof. destruct r; cbn; intros H; [injection H as <-; reflexivity|discriminate]. Qed.

(** Which branch the front ends take: row / column arguments force the bipartite treatment. *)
Definition bip_chosen {A} (force_bipartite : bool) (n_row n_col : nat) (vrow vcol : option A) : bool :=
  match vrow, vcol with None, None => force_bipartite | _, _ => true end
  || negb (Nat.eqb n_row n_col).

(* ------------------------------------------------------------------------------------------ *)
(** * 2. PageRank.fit (Model/PageRank.v) *)

(** PageRank's own block construction IS Format's (same term up to unfolding). *)
Lemma pr_block_is_format (n_col : nat) (rows : list (list (nat * Q))) :
  PageRank.block_undirected n_col rows = snd (bipartite2undirected (n_col, rows)).
Proof. reflexivity. Qed.

Lemma pr_block_length (n_col : nat) (rows : PageRank.wgraph) :
  length (PageRank.block_undirected n_col rows) = length rows + n_col.
Proof.
  unfold PageRank.block_undirected, PageRank.wtranspose.
  rewrite app_length, !map_length, seq_length. reflexivity.
Qed.

Lemma pr_block_nnz (n_col : nat) (rows : PageRank.wgraph) :
  Nat.eqb (PageRank.nnz rows) 0 = false ->
  Nat.eqb (PageRank.nnz (PageRank.block_undirected n_col rows)) 0 = false.
Proof.
  intros H. apply Nat.eqb_neq in H. apply Nat.eqb_neq.
  unfold PageRank.nnz, PageRank.block_undirected in *. rewrite map_app, sumn_app', !map_map.
  rewrite (map_ext _ (@length (nat * Q))) by (intros r; apply map_length). lia.
Qed.

Lemma pr_get_values_length (n : nat) (v : option PageRank.seedsrc) (default : Q) (l : list Q) :
  PageRank.get_values n v default = PageRank.Ok l -> length l = n.
Proof.
  intros H. pose proof (pr_get_values_is_format n v default) as E. rewrite H in E. cbn [pr_ok] in E.
  symmetry in E. apply ok_part_Ok in E. apply get_values_spec in E. tauto.
Qed.

Lemma pr_stack_values_format (n_row n_col : nat) (vr vc : option PageRank.seedsrc) (default : Q)
      (s : list Q) :
  PageRank.stack_values n_row n_col vr vc default = PageRank.Ok s ->
  stack_values n_row n_col (pr_vals vr) (pr_vals vc) default = Ok s.
Proof.
  intros H. pose proof (pr_stack_values_is_format n_row n_col vr vc default) as E.
  rewrite H in E. cbn [pr_ok] in E. symmetry in E. apply ok_part_Ok in E. exact E.
Qed.

(** The seeds handed to the core in the bipartite branch, as PageRank.fit computes them. *)
Definition pr_stacked (n_row n_col : nat) (values vrow vcol : option PageRank.seedsrc)
  : PageRank.result (list Q) :=
  match values with
  | None => PageRank.stack_values n_row n_col vrow vcol 0%Q
  | Some _ => PageRank.stack_values n_row n_col values None 0%Q
  end.

Theorem pagerank_bipartite_eq_block (n_col : nat) (rows : PageRank.wgraph) (force_bipartite : bool)
        (values vrow vcol : option PageRank.seedsrc)
        (alpha : Q) (n_iter : nat) (tol : Q) (sv : PageRank.solver) (oracle : list Q) (order : list nat)
        (r c : list Q) :
  bip_chosen force_bipartite (length rows) n_col vrow vcol = true ->
  PageRank.pagerank_fit n_col rows force_bipartite values vrow vcol alpha n_iter tol sv oracle order
    = PageRank.Ok (Some (r, c)) ->
  exists s x,
    pr_stacked (length rows) n_col values vrow vcol = PageRank.Ok s /\
    match values with
    | None => stack_values (length rows) n_col (pr_vals vrow) (pr_vals vcol) 0%Q
    | Some _ => stack_values (length rows) n_col (pr_vals values) VNone 0%Q
    end = Ok s /\
    PageRank.pagerank_fit (length rows + n_col) (snd (bipartite2undirected (n_col, rows))) false
                          (Some (PageRank.SArray s)) None None alpha n_iter tol sv oracle order
      = PageRank.Ok (Some (x, [])) /\
    r = firstn (length rows) x /\ c = skipn (length rows) x.
Proof.
  intros Hbip. unfold PageRank.pagerank_fit at 1, PageRank.get_adjacency_values at 1.
  destruct (Nat.eqb (PageRank.nnz rows) 0) eqn:Ennz; [discriminate|].
  unfold bip_chosen in Hbip. rewrite Hbip. fold (pr_stacked (length rows) n_col values vrow vcol).
  destruct (pr_stacked (length rows) n_col values vrow vcol) as [s|e] eqn:Es; [|discriminate].
  destruct (PageRank.get_pagerank (PageRank.block_undirected n_col rows) (PageRank.to_probs s)
                                  alpha n_iter tol sv oracle order) as [x|] eqn:Ex; [|discriminate].
  intros H. injection H as Hr Hc. exists s, x.
  assert (Hfmt : match values with
                 | None => stack_values (length rows) n_col (pr_vals vrow) (pr_vals vcol) 0%Q
                 | Some _ => stack_values (length rows) n_col (pr_vals values) VNone 0%Q
                 end = Ok s).
  { unfold pr_stacked in Es. destruct values as [v|]; apply pr_stack_values_format in Es; exact Es. }
  assert (HLs : length s = length rows + n_col).
  { destruct values as [v|]; apply stack_values_addresses in Hfmt; tauto. }
  split; [reflexivity|]. split; [exact Hfmt|]. split; [|split; symmetry; assumption].
  rewrite <- pr_block_is_format.
  unfold PageRank.pagerank_fit, PageRank.get_adjacency_values.
  rewrite (pr_block_nnz n_col rows Ennz). rewrite pr_block_length, Nat.eqb_refl.
  cbn [orb negb PageRank.get_values]. rewrite HLs, Nat.eqb_refl. rewrite Ex. reflexivity.
Qed.

(* ------------------------------------------------------------------------------------------ *)
(** * 3. Diffusion.fit and Dirichlet.fit (Model/Diffusion.v) *)

Definition df_block_wmat (m : Diffusion.wmat) : Diffusion.wmat :=
  {| Diffusion.w_ncol := Diffusion.w_nrow m + Diffusion.w_ncol m;
     Diffusion.w_rows := Diffusion.block_undirected m |}.

Lemma df_block_is_format (m : Diffusion.wmat) :
  Diffusion.block_undirected m
  = snd (bipartite2undirected (Diffusion.w_ncol m, Diffusion.w_rows m)).
Proof. reflexivity. Qed.

Lemma df_block_length (m : Diffusion.wmat) :
  length (Diffusion.block_undirected m) = Diffusion.w_nrow m + Diffusion.w_ncol m.
Proof.
  unfold Diffusion.block_undirected, Diffusion.transpose, Diffusion.w_nrow. cbn [Diffusion.w_rows].
  rewrite app_length, !map_length, seq_length. reflexivity.
Qed.

Lemma df_block_nnz (m : Diffusion.wmat) :
  Nat.eqb (Diffusion.nnz m) 0 = false -> Nat.eqb (Diffusion.nnz (df_block_wmat m)) 0 = false.
Proof.
  intros H. apply Nat.eqb_neq in H. apply Nat.eqb_neq.
  unfold Diffusion.nnz, df_block_wmat, Diffusion.block_undirected in *. cbn [Diffusion.w_rows].
  rewrite map_app, sumn_app', !map_map.
  rewrite (map_ext _ (@length (nat * Q))) by (intros r; apply map_length). lia.
Qed.

Lemma df_stack_values_format (n_row n_col : nat) (vr vc : option Diffusion.seedsrc) (default : Q)
      (s : list Q) :
  Diffusion.stack_values n_row n_col vr vc default = Diffusion.Ok s ->
  stack_values n_row n_col (df_vals vr) (df_vals vc) default = Ok s.
Proof.
  intros H. pose proof (df_stack_values_is_format n_row n_col vr vc default) as E.
  rewrite H in E. cbn [df_ok] in E. symmetry in E. apply ok_part_Ok in E. exact E.
Qed.

Definition df_stacked (n_row n_col : nat) (values vrow vcol : option Diffusion.seedsrc)
  : Diffusion.result (list Q) :=
  match values with
  | None => Diffusion.stack_values n_row n_col vrow vcol (-1)%Q
  | Some _ => Diffusion.stack_values n_row n_col values None (-1)%Q
  end.

(** The front end shared by the two regressors. *)
Lemma df_front_end (m : Diffusion.wmat) (force_bipartite : bool)
      (values vrow vcol : option Diffusion.seedsrc) (adj : list Diffusion.wrow) (seeds : list Q) :
  Diffusion.get_adjacency_values m force_bipartite values vrow vcol = Diffusion.Ok (adj, seeds, true) ->
  adj = Diffusion.block_undirected m /\
  df_stacked (Diffusion.w_nrow m) (Diffusion.w_ncol m) values vrow vcol = Diffusion.Ok seeds /\
  match values with
  | None => stack_values (Diffusion.w_nrow m) (Diffusion.w_ncol m) (df_vals vrow) (df_vals vcol) (-1)%Q
  | Some _ => stack_values (Diffusion.w_nrow m) (Diffusion.w_ncol m) (df_vals values) VNone (-1)%Q
  end = Ok seeds /\
  Diffusion.get_adjacency_values (df_block_wmat m) false (Some (Diffusion.SArray seeds)) None None
  = Diffusion.Ok (adj, seeds, false).
Proof.
  unfold Diffusion.get_adjacency_values at 1.
  destruct (Nat.eqb (Diffusion.nnz m) 0) eqn:Ennz; [discriminate|].
  destruct ((match vrow, vcol with None, None => force_bipartite | _, _ => true end)
            || negb (Nat.eqb (Diffusion.w_nrow m) (Diffusion.w_ncol m))) eqn:Ebip.
  2:{ destruct (Diffusion.get_values _ _ _); discriminate. }
  fold (df_stacked (Diffusion.w_nrow m) (Diffusion.w_ncol m) values vrow vcol).
  destruct (df_stacked (Diffusion.w_nrow m) (Diffusion.w_ncol m) values vrow vcol) as [s|e] eqn:Es;
    [|discriminate].
  intros H. injection H as <- <-.
  assert (Hfmt : match values with
                 | None => stack_values (Diffusion.w_nrow m) (Diffusion.w_ncol m)
                                        (df_vals vrow) (df_vals vcol) (-1)%Q
                 | Some _ => stack_values (Diffusion.w_nrow m) (Diffusion.w_ncol m)
                                          (df_vals values) VNone (-1)%Q
                 end = Ok s).
  { unfold df_stacked in Es. destruct values as [v|]; apply df_stack_values_format in Es; exact Es. }
  assert (HLs : length s = Diffusion.w_nrow m + Diffusion.w_ncol m).
  { destruct values as [v|]; apply stack_values_addresses in Hfmt; tauto. }
  split; [reflexivity|]. split; [reflexivity|]. split; [exact Hfmt|].
  unfold Diffusion.get_adjacency_values. rewrite (df_block_nnz m Ennz).
  unfold Diffusion.w_nrow at 1. cbn [df_block_wmat Diffusion.w_rows Diffusion.w_ncol].
  rewrite df_block_length, Nat.eqb_refl. cbn [orb negb Diffusion.get_values].
  unfold Diffusion.w_nrow at 1. cbn [df_block_wmat Diffusion.w_rows].
  rewrite df_block_length, HLs, Nat.eqb_refl.
  reflexivity.
Qed.

Theorem diffusion_bipartite_eq_block (n_iter : nat) (alpha : Q) (m : Diffusion.wmat)
        (values vrow vcol : option Diffusion.seedsrc) (init : option Q) (force_bipartite : bool)
        (v r c : list Q) :
  Diffusion.diffusion_fit n_iter alpha m values vrow vcol init force_bipartite
    = Diffusion.Ok (v, Some (r, c)) ->
  exists s x,
    df_stacked (Diffusion.w_nrow m) (Diffusion.w_ncol m) values vrow vcol = Diffusion.Ok s /\
    match values with
    | None => stack_values (Diffusion.w_nrow m) (Diffusion.w_ncol m) (df_vals vrow) (df_vals vcol) (-1)%Q
    | Some _ => stack_values (Diffusion.w_nrow m) (Diffusion.w_ncol m) (df_vals values) VNone (-1)%Q
    end = Ok s /\
    Diffusion.diffusion_fit n_iter alpha (df_block_wmat m) (Some (Diffusion.SArray s)) None None init false
      = Diffusion.Ok (x, None) /\
    v = r /\ r = firstn (Diffusion.w_nrow m) x /\ c = skipn (Diffusion.w_nrow m) x.
Proof.
  unfold Diffusion.diffusion_fit at 1.
  destruct (Nat.eqb n_iter 0) eqn:En; [discriminate|].
  destruct (Diffusion.get_adjacency_values m force_bipartite values vrow vcol)
    as [[[adj seeds] bip]|e] eqn:Eg; [|discriminate].
  destruct (Diffusion.init_temperatures seeds init) as [[temps border]|e] eqn:Ei; [|discriminate].
  destruct bip; cbn [Diffusion.split_vars]; [|discriminate].
  intros H. injection H as Hv Hr Hc.
  destruct (df_front_end m force_bipartite values vrow vcol adj seeds Eg) as [Ha [Hs [Hf Hb]]].
  exists seeds, (Diffusion.diffusion_core n_iter alpha adj temps).
  split; [exact Hs|]. split; [exact Hf|]. split; [|subst; auto].
  unfold Diffusion.diffusion_fit. rewrite En, Hb, Ei. reflexivity.
Qed.

Theorem dirichlet_bipartite_eq_block (n_iter : nat) (m : Diffusion.wmat)
        (values vrow vcol : option Diffusion.seedsrc) (init : option Q) (force_bipartite : bool)
        (v r c : list Q) :
  Diffusion.dirichlet_fit n_iter m values vrow vcol init force_bipartite
    = Diffusion.Ok (v, Some (r, c)) ->
  exists s x,
    df_stacked (Diffusion.w_nrow m) (Diffusion.w_ncol m) values vrow vcol = Diffusion.Ok s /\
    match values with
    | None => stack_values (Diffusion.w_nrow m) (Diffusion.w_ncol m) (df_vals vrow) (df_vals vcol) (-1)%Q
    | Some _ => stack_values (Diffusion.w_nrow m) (Diffusion.w_ncol m) (df_vals values) VNone (-1)%Q
    end = Ok s /\
    Diffusion.dirichlet_fit n_iter (df_block_wmat m) (Some (Diffusion.SArray s)) None None init false
      = Diffusion.Ok (x, None) /\
    v = r /\ r = firstn (Diffusion.w_nrow m) x /\ c = skipn (Diffusion.w_nrow m) x.
Proof.
  unfold Diffusion.dirichlet_fit at 1.
  destruct (Nat.eqb n_iter 0) eqn:En; [discriminate|].
  destruct (Diffusion.get_adjacency_values m force_bipartite values vrow vcol)
    as [[[adj seeds] bip]|e] eqn:Eg; [|discriminate].
  destruct (Diffusion.init_temperatures seeds init) as [[temps border]|e] eqn:Ei; [|discriminate].
  destruct bip; cbn [Diffusion.split_vars]; [|discriminate].
  intros H. injection H as Hv Hr Hc.
  destruct (df_front_end m force_bipartite values vrow vcol adj seeds Eg) as [Ha [Hs [Hf Hb]]].
  exists seeds, (Diffusion.dirichlet_core n_iter adj border temps).
  split; [exact Hs|]. split; [exact Hf|]. split; [|subst; auto].
  unfold Diffusion.dirichlet_fit. rewrite En, Hb, Ei. reflexivity.
Qed.

(* ------------------------------------------------------------------------------------------ *)
(** * 4. Katz.fit

    Model/Centrality.v models the CORE of Katz ([katz]: Horner on the 0/1 pattern of the transposed
    adjacency); it has no front end of its own.  The four lines of katz.py around the core
    ([get_adjacency(input_matrix)] with the defaults allow_directed=True, force_bipartite=False;
    core; [_split_vars]) are transcribed here over Format's [get_adjacency] (whose decision
    expression is tied to the source by Gen/Routing.v). *)
Definition katz_fit (m : wmat) (alpha : Q) (K : nat) : list Q * option (list Q) :=
  let (adjacency, bipartite) := get_adjacency m true false false in
  let scores := Centrality.katz (snd adjacency) alpha K in
  if bipartite
  then (firstn (length (snd m)) scores, Some (skipn (length (snd m)) scores))
  else (scores, None).

Lemma block_is_square (b : wmat) : is_square (bipartite2undirected b) = true.
Proof.
  destruct (block_denotation b) as [Hf [Hl _]]. cbv zeta in Hf, Hl.
  unfold is_square. rewrite Hf, Hl. apply Nat.eqb_refl.
Qed.

Theorem katz_bipartite_eq_block (b : wmat) (alpha : Q) (K : nat) (r c : list Q) :
  katz_fit b alpha K = (r, Some c) ->
  let x := Centrality.katz (snd (bipartite2undirected b)) alpha K in
  katz_fit (bipartite2undirected b) alpha K = (x, None) /\
  r = firstn (length (snd b)) x /\ c = skipn (length (snd b)) x.
Proof.
  unfold katz_fit at 1, get_adjacency, bipartite_decision. cbn [negb andb]. rewrite orb_false_r.
  cbn [orb]. destruct (negb (is_square b)) eqn:Esq; [|discriminate].
  intros H. injection H as Hr Hc. cbv zeta.
  split; [|split; symmetry; assumption].
  unfold katz_fit, get_adjacency, bipartite_decision. rewrite block_is_square. reflexivity.
Qed.

(* ------------------------------------------------------------------------------------------ *)
(** * 5. get_connected_components / is_connected / get_largest_connected_component
        (Model/Structure.v; SciPy's connected_components is the oracle [comp]) *)

Lemma st_nnz_zero_rows (rows : graph) : Structure.nnz rows = 0 -> forall i, row rows i = [].
Proof.
  unfold Structure.nnz, row. induction rows as [|r t IH]; intros H [|i]; cbn [nth]; try reflexivity.
  - cbn [map sumn fold_right] in H. destruct r; [reflexivity|cbn [length] in H; lia].
  - apply IH. cbn [map sumn fold_right] in H. unfold sumn. lia.
Qed.

Lemma st_block_nnz (m : pmat) :
  Nat.eqb (Structure.nnz (block_undirected m)) 0 = Nat.eqb (Structure.nnz (p_rows m)) 0.
Proof.
  assert (E : Structure.nnz (block_undirected m) =
              Structure.nnz (p_rows m) + Structure.nnz (p_rows (transpose m))).
  { unfold Structure.nnz, block_undirected. rewrite map_app, sumn_app', map_map.
    rewrite (map_ext _ (@length nat)) by (intros r; apply map_length). reflexivity. }
  destruct (Nat.eqb (Structure.nnz (p_rows m)) 0) eqn:E0.
  - apply Nat.eqb_eq in E0. apply Nat.eqb_eq. rewrite E, E0. cbn [Nat.add].
    pose proof (st_nnz_zero_rows _ E0) as Hrows.
    unfold Structure.nnz, transpose. cbn [p_rows]. rewrite map_map.
    induction (seq 0 (p_ncol m)) as [|j l IH]; [reflexivity|].
    cbn [map sumn fold_right]. fold (sumn (map (fun x : nat => length (filter (fun i : nat => memn x (row (p_rows m) i)) (seq 0 (p_nrow m)))) l)).
    rewrite IH. rewrite filter_none; [reflexivity|].
    intros i _. rewrite Hrows. reflexivity.
  - apply Nat.eqb_neq in E0. apply Nat.eqb_neq. lia.
Qed.

Theorem components_bipartite_eq_block (m : pmat) (fb : bool) :
  snd (Structure.get_adjacency m fb) = true ->
  Structure.cc_adjacency m fb = block_undirected m /\
  Structure.get_adjacency (sq_block m) false = (block_undirected m, false) /\
  (forall comp, Structure.get_connected_components (sq_block m) false comp
                = Structure.get_connected_components m fb comp) /\
  (forall comp, Structure.is_connected (sq_block m) false comp = Structure.is_connected m fb comp) /\
  (forall strong comp,
      Structure.components_contract (Structure.cc_adjacency (sq_block m) false) strong comp <->
      Structure.components_contract (Structure.cc_adjacency m fb) strong comp).
Proof.
  unfold Structure.cc_adjacency, Structure.get_adjacency. cbn [fst snd]. intros Hb. rewrite Hb.
  rewrite sq_block_square. cbn [orb negb sq_block p_rows].
  assert (Hcc : forall comp, Structure.get_connected_components (sq_block m) false comp
                             = Structure.get_connected_components m fb comp).
  { intros comp. unfold Structure.get_connected_components. cbn [sq_block p_rows].
    rewrite st_block_nnz. reflexivity. }
  split; [reflexivity|]. split; [reflexivity|]. split; [exact Hcc|]. split.
  - intros comp. unfold Structure.is_connected. rewrite Hcc. reflexivity.
  - intros strong comp. reflexivity.
Qed.

(** get_largest_connected_component: the index returned for B is (index_row, index_col) with the
    column part relative to the columns; on the block graph the same nodes are selected, the column
    nodes under their block numbers n_row + j. *)
Lemma filter_map_comm {A B} (f : B -> bool) (g : A -> B) (l : list A) :
  filter f (map g l) = map g (filter (fun x => f (g x)) l).
Proof.
  induction l as [|a t IH]; [reflexivity|]. cbn [map filter].
  destruct (f (g a)); cbn [map]; rewrite IH; reflexivity.
Qed.

Lemma seq_map_add (s n : nat) : seq s n = map (fun j => s + j) (seq 0 n).
Proof.
  induction s as [|s IH].
  - cbn [Nat.add]. symmetry. apply map_id.
  - rewrite <- seq_shift, IH, map_map. reflexivity.
Qed.

Lemma filter_seq_shift (f : nat -> bool) (s n : nat) :
  filter f (seq s n) = map (fun j => s + j) (filter (fun j => f (s + j)) (seq 0 n)).
Proof. rewrite seq_map_add at 1. apply filter_map_comm. Qed.

Theorem largest_component_bipartite_index (m : pmat) (fb : bool) (comp : list nat)
        (out : pmat) (index : list nat) :
  snd (Structure.get_adjacency m fb) = true ->
  length comp = p_nrow m + p_ncol m ->
  Structure.get_largest_connected_component m fb comp = Ok (out, index) ->
  exists index_row index_col,
    index = index_row ++ index_col /\
    out = Structure.submatrix m index_row index_col /\
    let index' := index_row ++ map (fun j => p_nrow m + j) index_col in
    Structure.get_largest_connected_component (sq_block m) false comp
    = Ok (Structure.submatrix (sq_block m) index' index', index').
Proof.
  intros Hb HL. unfold Structure.get_largest_connected_component at 1.
  destruct (Nat.eqb (Structure.nnz (p_rows m)) 0) eqn:E0; [discriminate|].
  rewrite Hb. intros H. injection H as Hout Hidx.
  set (l := Structure.largest_label comp) in *.
  exists (filter (fun i => Nat.eqb (nthn comp i) l) (seq 0 (p_nrow m))),
         (filter (fun j => Nat.eqb (nthn comp (p_nrow m + j)) l) (seq 0 (length comp - p_nrow m))).
  split; [symmetry; exact Hidx|]. split; [symmetry; exact Hout|]. cbv zeta.
  unfold Structure.get_largest_connected_component. cbn [sq_block p_rows].
  rewrite st_block_nnz, E0.
  unfold Structure.get_adjacency. rewrite sq_block_square. cbn [orb negb snd]. fold l.
  assert (Hsplit : filter (fun i => Nat.eqb (nthn comp i) l) (seq 0 (length comp)) =
                   filter (fun i => Nat.eqb (nthn comp i) l) (seq 0 (p_nrow m)) ++
                   map (fun j => p_nrow m + j)
                       (filter (fun j => Nat.eqb (nthn comp (p_nrow m + j)) l)
                               (seq 0 (length comp - p_nrow m)))).
  { replace (length comp) with (p_nrow m + (length comp - p_nrow m)) at 1 by lia.
    rewrite seq_app, filter_app. cbn [Nat.add]. f_equal.
    apply (filter_seq_shift (fun i => Nat.eqb (nthn comp i) l)). }
  rewrite Hsplit. reflexivity.
Qed.

(* ------------------------------------------------------------------------------------------ *)
(** * 7. Paris.fit on a biadjacency matrix (Model/Paris.v, Model/Hierarchy.v) *)

(** Paris's own block construction (COO triples) denotes [[0, B], [B^T, 0]], rows first: with the
    model's own entry function, and with Leibniz equality. *)
Lemma paris_entry_block (n1 : nat) (B : Paris.entries) (p : nat * nat * Q -> bool) (u v : nat) :
  (forall e, In e B ->
     (Nat.eqb (Paris.e_i e) u && Nat.eqb (n1 + Paris.e_j e) v) = p e /\
     (Nat.eqb (n1 + Paris.e_j e) u && Nat.eqb (Paris.e_i e) v) = false) ->
  Paris.entry (Paris.biadj_block n1 B) u v = Paris.qsumr (map Paris.e_v (filter p B)).
Proof.
  intros H. unfold Paris.entry, Paris.biadj_block. rewrite filter_app, map_app. f_equal.
  induction B as [|e B IH]; [reflexivity|].
  assert (He := H e (or_introl eq_refl)). destruct He as [H1 H2].
  assert (IH' := IH (fun e' He' => H e' (or_intror He'))). clear IH.
  cbn [map filter Paris.e_i Paris.e_j Paris.e_v fst snd app] in *.
  rewrite H1, H2. destruct (p e); cbn [map app Paris.e_v snd]; [f_equal|]; exact IH'.
Qed.

Theorem paris_block_denotation (n1 : nat) (B : Paris.entries) :
  (forall e, In e B -> Paris.e_i e < n1) ->
  (forall i j, i < n1 -> Paris.entry (Paris.biadj_block n1 B) i (n1 + j) = Paris.entry B i j) /\
  (forall i j, i < n1 -> Paris.entry (Paris.biadj_block n1 B) (n1 + j) i = Paris.entry B i j) /\
  (forall i i', i < n1 -> i' < n1 -> Paris.entry (Paris.biadj_block n1 B) i i' = 0%Q) /\
  (forall j j', Paris.entry (Paris.biadj_block n1 B) (n1 + j) (n1 + j') = 0%Q).
Proof.
  intros Hwf.
  assert (Hz : forall u v, (forall e, In e B ->
                 (Nat.eqb (Paris.e_i e) u && Nat.eqb (n1 + Paris.e_j e) v) = false /\
                 (Nat.eqb (n1 + Paris.e_j e) u && Nat.eqb (Paris.e_i e) v) = false) ->
               Paris.entry (Paris.biadj_block n1 B) u v = 0%Q).
  { intros u v H. rewrite (paris_entry_block n1 B (fun _ => false) u v H).
    rewrite filter_none by reflexivity. reflexivity. }
  repeat split.
  - intros i j Hi. unfold Paris.entry at 2. apply paris_entry_block. intros e He. split.
    + f_equal. destruct (Nat.eqb_spec (n1 + Paris.e_j e) (n1 + j)) as [E|E],
                        (Nat.eqb_spec (Paris.e_j e) j) as [E'|E']; try reflexivity; lia.
    + apply andb_false_iff. left. apply Nat.eqb_neq. lia.
  - intros i j Hi. unfold Paris.entry at 2.
    unfold Paris.entry, Paris.biadj_block. rewrite filter_app, map_app.
    assert (E1 : filter (fun e => Nat.eqb (Paris.e_i e) (n1 + j) && Nat.eqb (Paris.e_j e) i)
                        (map (fun e => (Paris.e_i e, n1 + Paris.e_j e, Paris.e_v e)) B) = []).
    { apply filter_none. intros e He. apply in_map_iff in He. destruct He as [e0 [<- He0]].
      specialize (Hwf _ He0). unfold Paris.e_i in *. cbn [fst].
      apply andb_false_iff. left. apply Nat.eqb_neq. lia. }
    rewrite E1. cbn [map app]. f_equal.
    clear E1 Hwf Hz. induction B as [|e B IH]; [reflexivity|].
    cbn [map filter Paris.e_i Paris.e_j Paris.e_v fst snd].
    replace (Nat.eqb (n1 + Paris.e_j e) (n1 + j)) with (Nat.eqb (Paris.e_j e) j)
      by (destruct (Nat.eqb_spec (n1 + Paris.e_j e) (n1 + j)), (Nat.eqb_spec (Paris.e_j e) j);
          try reflexivity; lia).
    rewrite (andb_comm (Nat.eqb (Paris.e_j e) j)).
    destruct (Nat.eqb (Paris.e_i e) i && Nat.eqb (Paris.e_j e) j); cbn [map Paris.e_v snd];
      [f_equal|]; exact IH.
  - intros i i' Hi Hi'. apply Hz. intros e He. split; apply andb_false_iff.
    + right. apply Nat.eqb_neq. lia.
    + left. apply Nat.eqb_neq. lia.
  - intros j j'. apply Hz. intros e He. specialize (Hwf _ He). split; apply andb_false_iff.
    + left. apply Nat.eqb_neq. lia.
    + right. apply Nat.eqb_neq. lia.
Qed.

(** The bipartite fit IS the fit on the block adjacency followed by split_dendrogram:
    dendrogram_full_ of B = dendrogram_ of the block matrix, with the same margin / tie counters. *)
Theorem paris_bipartite_eq_block (R : Paris.rounding) (hinf : Q) (degree reorder : bool) (n1 n2 : nat)
        (B : Paris.entries) (D Dr Dc : Dendrogram.dendrogram) :
  Paris.paris_fit_bipartite R hinf degree reorder n1 n2 B = Some (Cuts.Ok (D, Dr, Dc)) ->
  exists margin ties,
    Paris.paris_fit R hinf degree reorder (n1 + n2) (Paris.biadj_block n1 B)
      = Some (Cuts.Ok (D, margin, ties)) /\
    Hierarchy.split_dendrogram D n1 n2 = Cuts.Ok (Dr, Dc).
Proof.
  unfold Paris.paris_fit_bipartite.
  destruct (Paris.paris_fit R hinf degree reorder (n1 + n2) (Paris.biadj_block n1 B))
    as [[[[D' mg] t]|e]|]; [| discriminate | discriminate].
  destruct (Hierarchy.split_dendrogram D' n1 n2) as [[Dr' Dc']|e] eqn:Es; [|discriminate].
  intros H. injection H as <- <- <-. exists mg, t. split; [reflexivity|exact Es].
Qed.

(* ------------------------------------------------------------------------------------------ *)
(** * 8. Spectral.fit's front end (Model/Embedding.v: dense matrices)

    [Spectral.fit] calls [get_adjacency(input_matrix, allow_directed=False, force_bipartite)], hands
    the result to the eigensolver wrapper ([spectral_fit], a function of the stacked adjacency only)
    and splits the embedding with [_split_vars].  Embedding's block construction denotes the block
    matrix, is symmetric, and is therefore left alone when handed back as an ordinary graph. *)
Lemma emb_block_entries (nrow ncol : nat) (B : list (list Q)) :
  QMat.wf_mat nrow ncol B ->
  let A := Embedding.block_undirected nrow ncol B in
  QMat.wf_mat (nrow + ncol) (nrow + ncol) A /\
  (forall i j, i < nrow -> j < ncol -> QMat.mget A i (nrow + j) = QMat.mget B i j) /\
  (forall i j, i < nrow -> j < ncol -> QMat.mget A (nrow + j) i = QMat.mget B i j) /\
  (forall i i', i < nrow -> i' < nrow -> QMat.mget A i i' = 0%Q) /\
  (forall j j', j < ncol -> j' < ncol -> QMat.mget A (nrow + j) (nrow + j') = 0%Q).
Proof.
  intros Hwf. cbv zeta. unfold Embedding.block_undirected.
  pose proof (QMat.wf_mat_length _ _ _ Hwf) as HLB.
  pose proof (QMat.mzero_wf nrow nrow) as Hz1. pose proof (QMat.mzero_wf ncol ncol) as Hz2.
  pose proof (QMat.transpose_n_wf nrow ncol B HLB) as Ht.
  pose proof (QMat.wf_mat_length _ _ _ Hz1) as HL1. pose proof (QMat.wf_mat_length _ _ _ Hz2) as HL2.
  pose proof (QMat.wf_mat_length _ _ _ Ht) as HLt.
  split; [apply QMat.block_wf; assumption|]. repeat split.
  - intros i j Hi Hj. apply QMat.mget_block_12; try lia.
    apply (QMat.wf_mat_row nrow nrow); assumption.
  - intros i j Hi Hj. rewrite (QMat.mget_block_21 _ _ _ _ j i nrow) by
      (try assumption; try lia; rewrite (QMat.wf_mat_row ncol nrow) by assumption; lia).
    apply QMat.mget_transpose_n; lia.
  - intros i i' Hi Hi'. rewrite QMat.mget_block_11 by
      (try lia; rewrite (QMat.wf_mat_row nrow nrow) by assumption; lia).
    apply QMat.mget_mzero.
  - intros j j' Hj Hj'. rewrite (QMat.mget_block_22 _ _ _ _ j j' nrow nrow).
    + apply QMat.mget_mzero.
    + exact HL1.
    + exact HLB.
    + lia.
    + lia.
    + apply (QMat.wf_mat_row ncol nrow); assumption.
Qed.

Lemma emb_block_symmetric (nrow ncol : nat) (B : list (list Q)) :
  QMat.wf_mat nrow ncol B ->
  Embedding.is_symmetric_b (nrow + ncol) (Embedding.block_undirected nrow ncol B) = true.
Proof.
  intros Hwf. destruct (emb_block_entries nrow ncol B Hwf) as [_ [H12 [H21 [H11 H22]]]].
  cbv zeta in *. unfold Embedding.is_symmetric_b.
  apply forallb_forall. intros i Hi. apply forallb_forall. intros j Hj.
  apply in_seq in Hi. apply in_seq in Hj. apply Qeq_bool_iff.
  destruct (Nat.lt_ge_cases i nrow) as [Li|Li], (Nat.lt_ge_cases j nrow) as [Lj|Lj].
  - rewrite !H11 by assumption. reflexivity.
  - replace j with (nrow + (j - nrow)) by lia. rewrite H12, H21 by lia. reflexivity.
  - replace i with (nrow + (i - nrow)) by lia. rewrite H12, H21 by lia. reflexivity.
  - replace i with (nrow + (i - nrow)) by lia. replace j with (nrow + (j - nrow)) by lia.
    rewrite !H22 by lia. reflexivity.
Qed.

Theorem spectral_front_end_eq_block (allow_directed force_bipartite : bool) (nrow ncol : nat)
        (B : list (list Q)) :
  QMat.wf_mat nrow ncol B ->
  snd (Embedding.get_adjacency allow_directed force_bipartite nrow ncol B) = true ->
  let A := Embedding.block_undirected nrow ncol B in
  fst (Embedding.get_adjacency allow_directed force_bipartite nrow ncol B) = A /\
  Embedding.get_adjacency allow_directed false (nrow + ncol) (nrow + ncol) A = (A, false) /\
  (forall sqrt_o norm_o rw normalized reg sv sV argsort evals evecs emb,
      Embedding.spectral_fit sqrt_o norm_o rw normalized
        (fst (Embedding.get_adjacency allow_directed force_bipartite nrow ncol B)) reg sv sV argsort
        = (evals, evecs, emb) ->
      Embedding.spectral_fit sqrt_o norm_o rw normalized
        (fst (Embedding.get_adjacency allow_directed false (nrow + ncol) (nrow + ncol) A)) reg sv sV argsort
        = (evals, evecs, emb) /\
      Embedding.split_vars nrow emb = (firstn nrow emb, skipn nrow emb)).
Proof.
  intros Hwf. unfold Embedding.get_adjacency at 1 2. cbn [fst snd]. intros Hb. rewrite Hb. cbv zeta.
  assert (Hblk : Embedding.get_adjacency allow_directed false (nrow + ncol) (nrow + ncol)
                   (Embedding.block_undirected nrow ncol B)
                 = (Embedding.block_undirected nrow ncol B, false)).
  { unfold Embedding.get_adjacency. rewrite Nat.eqb_refl, (emb_block_symmetric nrow ncol B Hwf).
    rewrite orb_true_r. reflexivity. }
  split; [reflexivity|]. split; [exact Hblk|].
  intros sqrt_o norm_o rw normalized reg sv sV argsort evals evecs emb H.
  rewrite Hblk. cbn [fst]. split; [|reflexivity].
  revert H. unfold Embedding.get_adjacency. rewrite Hb. cbn [fst]. auto.
Qed.

(* ------------------------------------------------------------------------------------------ *)
(** * 7b. Paris's block (COO triples) and Format's block (CSR rows) denote the same matrix *)

(** The stored entries of CSR rows as COO triples (row by row, stored order). *)
Definition coo_of (rows : wrows) : Paris.entries :=
  flat_map (fun i => map (fun e : nat * Q => (i, fst e, snd e)) (nth i rows [])) (seq 0 (length rows)).

Lemma qsumr_sumq (l : list Q) : (Paris.qsumr l == sumq l)%Q.
Proof.
  induction l as [|a l IH]; [reflexivity|]. cbn [Paris.qsumr fold_right sumq].
  rewrite Qred_correct. unfold Paris.qsumr in IH. rewrite IH. reflexivity.
Qed.

Lemma coo_filter (rows : wrows) (l : list nat) (i j : nat) :
  NoDup l ->
  map Paris.e_v
      (filter (fun e => Nat.eqb (Paris.e_i e) i && Nat.eqb (Paris.e_j e) j)
              (flat_map (fun a => map (fun e : nat * Q => (a, fst e, snd e)) (nth a rows [])) l))
  = if memn i l then map snd (filter (fun e : nat * Q => Nat.eqb (fst e) j) (nth i rows [])) else [].
Proof.
  induction l as [|a l IH]; intros Hnd; [reflexivity|].
  inversion Hnd as [|x y Hn Hd]; subst.
  cbn [flat_map]. rewrite filter_app, map_app, (IH Hd). clear IH.
  rewrite filter_map_comm, map_map. cbn [Paris.e_i Paris.e_j Paris.e_v fst snd].
  unfold memn. cbn [existsb]. fold (memn i l).
  destruct (Nat.eqb_spec a i) as [E|Ne].
  - subst a. rewrite Nat.eqb_refl. cbn [orb].
    assert (Hm : memn i l = false).
    { destruct (memn i l) eqn:Em; [|reflexivity]. apply memn_In in Em. contradiction. }
    rewrite Hm, app_nil_r. cbn [andb]. reflexivity.
  - replace (Nat.eqb i a) with false by (symmetry; apply Nat.eqb_neq; lia). cbn [orb andb].
    rewrite filter_none by reflexivity. reflexivity.
Qed.

Lemma coo_of_entry (rows : wrows) (i j : nat) :
  (Paris.entry (coo_of rows) i j == entry rows i j)%Q.
Proof.
  unfold Paris.entry, coo_of. rewrite qsumr_sumq, coo_filter by apply seq_NoDup.
  unfold entry, entry_row. destruct (memn i (seq 0 (length rows))) eqn:Em; [reflexivity|].
  rewrite nth_overflow; [reflexivity|].
  destruct (Nat.lt_ge_cases i (length rows)) as [L|L]; [|exact L].
  exfalso. assert (Hin : In i (seq 0 (length rows))) by (apply in_seq; lia).
  apply memn_In in Hin. congruence.
Qed.

Lemma coo_of_rows_lt (rows : wrows) (e : nat * nat * Q) :
  In e (coo_of rows) -> Paris.e_i e < length rows.
Proof.
  unfold coo_of. intros H. apply in_flat_map in H. destruct H as [a [Ha He]].
  apply in_map_iff in He. destruct He as [e0 [<- _]]. apply in_seq in Ha. cbn. lia.
Qed.

(** Entry by entry (on the n_row + n_col nodes), the adjacency Paris aggregates for a biadjacency
    matrix given as CSR rows is the block matrix of the shared glue. *)
Theorem paris_block_is_format_block (b : wmat) (u v : nat) :
  u < length (snd b) + fst b -> v < length (snd b) + fst b ->
  (Paris.entry (Paris.biadj_block (length (snd b)) (coo_of (snd b))) u v
   == entry (snd (bipartite2undirected b)) u v)%Q.
Proof.
  intros Hu Hv.
  destruct (paris_block_denotation (length (snd b)) (coo_of (snd b)) (coo_of_rows_lt (snd b)))
    as [P12 [P21 [P11 P22]]].
  destruct (block_denotation b) as [_ [_ [F12 [F21 [F11 F22]]]]]. cbv zeta in *.
  destruct (Nat.lt_ge_cases u (length (snd b))) as [Lu|Lu],
           (Nat.lt_ge_cases v (length (snd b))) as [Lv|Lv].
  - rewrite P11, F11 by assumption. reflexivity.
  - replace v with (length (snd b) + (v - length (snd b))) by lia.
    rewrite P12, F12 by assumption. apply coo_of_entry.
  - replace u with (length (snd b) + (u - length (snd b))) by lia.
    rewrite P21 by assumption. rewrite F21 by lia. apply coo_of_entry.
  - replace u with (length (snd b) + (u - length (snd b))) by lia.
    replace v with (length (snd b) + (v - length (snd b))) by lia.
    rewrite P22. rewrite F22 by lia. reflexivity.
Qed.

(* ------------------------------------------------------------------------------------------ *)
(** * 5b. get_largest_connected_component: the sub-matrix selected on the block graph is the block
        graph of the sub-matrix selected on B (same rows as sets) *)

Lemma row_block_low (m : pmat) (i : nat) :
  i < p_nrow m -> row (block_undirected m) i = map (fun j => p_nrow m + j) (row (p_rows m) i).
Proof.
  intros Hi. unfold row, block_undirected. rewrite app_nth1 by (rewrite map_length; exact Hi).
  apply (nth_map_lt (fun r => map (fun j => p_nrow m + j) r) (p_rows m) i [] []). exact Hi.
Qed.

Lemma row_block_high (m : pmat) (j : nat) :
  j < p_ncol m ->
  row (block_undirected m) (p_nrow m + j)
  = filter (fun i => memn j (row (p_rows m) i)) (seq 0 (p_nrow m)).
Proof.
  intros Hj. unfold row at 1, block_undirected. rewrite app_nth2 by (rewrite map_length; unfold p_nrow; lia).
  rewrite map_length. replace (p_nrow m + j - length (p_rows m)) with j by (unfold p_nrow; lia).
  unfold transpose. cbn [p_rows]. rewrite nth_map_seq by exact Hj. reflexivity.
Qed.

Lemma nthn_app_low (a b : list nat) (k : nat) : k < length a -> nthn (a ++ b) k = nthn a k.
Proof. intros H. unfold nthn. apply app_nth1. exact H. Qed.

Lemma nthn_app_high (a b : list nat) (f : nat -> nat) (k : nat) :
  k < length b -> nthn (a ++ map f b) (length a + k) = f (nthn b k).
Proof.
  intros H. unfold nthn. rewrite app_nth2 by lia. replace (length a + k - length a) with k by lia.
  apply (nth_map_lt f b k 0 0). exact H.
Qed.

Theorem largest_component_bipartite_matrix (m : pmat) (index_row index_col : list nat) :
  (forall i, In i index_row -> i < p_nrow m) ->
  (forall j, In j index_col -> j < p_ncol m) ->
  let index' := index_row ++ map (fun j => p_nrow m + j) index_col in
  same_rows (p_rows (Structure.submatrix (sq_block m) index' index'))
            (block_undirected (Structure.submatrix m index_row index_col)).
Proof.
  intros Hir Hic. cbv zeta.
  set (n1 := p_nrow m). set (L := length index_row). set (C := length index_col).
  set (idx := index_row ++ map (fun j => n1 + j) index_col).
  assert (HLidx : length idx = L + C) by (unfold idx; rewrite app_length, map_length; reflexivity).
  set (mb := Structure.submatrix m index_row index_col).
  assert (Hnr : p_nrow mb = L) by (unfold mb, Structure.submatrix, p_nrow; cbn [p_rows]; apply map_length).
  assert (Hnc : p_ncol mb = C) by reflexivity.
  assert (Hrow_mb : forall a, a < L ->
            row (p_rows mb) a
            = filter (fun k => memn (nthn index_col k) (row (p_rows m) (nthn index_row a))) (seq 0 C)).
  { intros a Ha. unfold mb, Structure.submatrix, row. cbn [p_rows].
    apply (nth_map_lt (fun i => filter (fun k => memn (nthn index_col k) (nth i (p_rows m) [])) (seq 0 C))
                      index_row a 0 []). exact Ha. }
  assert (Hrow_g : forall a, a < L + C ->
            row (p_rows (Structure.submatrix (sq_block m) idx idx)) a
            = filter (fun k => memn (nthn idx k) (row (block_undirected m) (nthn idx a))) (seq 0 (L + C))).
  { intros a Ha. unfold Structure.submatrix, row. cbn [p_rows sq_block]. rewrite HLidx.
    apply (nth_map_lt (fun i => filter (fun k => memn (nthn idx k) (nth i (block_undirected m) []))
                                       (seq 0 (L + C))) idx a 0 []). lia. }
  assert (Hidx_low : forall k, k < L -> nthn idx k = nthn index_row k /\ nthn idx k < n1).
  { intros k Hk. unfold idx. rewrite nthn_app_low by exact Hk. split; [reflexivity|].
    apply Hir. apply nth_In. exact Hk. }
  assert (Hidx_high : forall k, k < C ->
            nthn idx (L + k) = n1 + nthn index_col k /\ nthn index_col k < p_ncol m).
  { intros k Hk. unfold idx, L. rewrite nthn_app_high by exact Hk. split; [reflexivity|].
    apply Hic. apply nth_In. exact Hk. }
  split.
  - unfold Structure.submatrix. cbn [p_rows]. rewrite map_length, HLidx.
    rewrite bfs_block_length, Hnr, Hnc. reflexivity.
  - intros u v.
    destruct (Nat.lt_ge_cases u (L + C)) as [Hu|Hu].
    2:{ unfold row. rewrite !nth_overflow; [reflexivity| |].
        - rewrite bfs_block_length, Hnr, Hnc. exact Hu.
        - unfold Structure.submatrix. cbn [p_rows]. rewrite map_length, HLidx. exact Hu. }
    rewrite (Hrow_g u Hu). rewrite filter_In, in_seq, memn_In.
    destruct (Nat.lt_ge_cases u L) as [HuL|HuL].
    + (* a row node *)
      destruct (Hidx_low u HuL) as [Eu Hu1]. rewrite Eu.
      assert (Hu1' : nthn index_row u < p_nrow m) by (rewrite <- Eu; exact Hu1).
      rewrite (row_block_low m _ Hu1').
      rewrite (row_block_low mb u) by (rewrite Hnr; exact HuL).
      rewrite Hnr, (Hrow_mb u HuL). rewrite !in_map_iff. split.
      * intros [[_ Hv] [j [Ej Hj]]].
        destruct (Nat.lt_ge_cases v L) as [HvL|HvL].
        { destruct (Hidx_low v HvL) as [_ Hlt]. fold n1 in Ej. lia. }
        exists (v - L). split; [lia|].
        apply filter_In. split; [apply in_seq; lia|]. apply memn_In.
        destruct (Hidx_high (v - L)) as [Ev _]; [lia|].
        replace (L + (v - L)) with v in Ev by lia. fold n1 in Ej.
        replace (nthn index_col (v - L)) with j by lia. exact Hj.
      * intros [k [Ek Hk]]. apply filter_In in Hk. destruct Hk as [Hk1 Hk2].
        apply in_seq in Hk1. apply memn_In in Hk2. subst v.
        destruct (Hidx_high k) as [Ev _]; [lia|].
        split; [lia|]. exists (nthn index_col k). split; [fold n1; lia|exact Hk2].
    + (* a column node *)
      assert (HuC : u - L < C) by lia.
      destruct (Hidx_high (u - L) HuC) as [Eu Hu2].
      replace (L + (u - L)) with u in Eu by lia. rewrite Eu. unfold n1.
      rewrite (row_block_high m _ Hu2).
      assert (Hrg' : row (block_undirected mb) u
                     = filter (fun i => memn (u - L) (row (p_rows mb) i)) (seq 0 (p_nrow mb))).
      { rewrite <- (row_block_high mb (u - L)) by (rewrite Hnc; exact HuC). f_equal. rewrite Hnr. lia. }
      rewrite Hrg'. clear Hrg'.
      rewrite Hnr. rewrite !filter_In, !in_seq, !memn_In. split.
      * intros [[_ Hv] [[_ Hv1] Hv2]].
        destruct (Nat.lt_ge_cases v L) as [HvL|HvL].
        { destruct (Hidx_low v HvL) as [Ev _]. split; [lia|].
          rewrite (Hrow_mb v HvL). apply filter_In. split; [apply in_seq; lia|].
          apply memn_In. rewrite <- Ev. exact Hv2. }
        exfalso. destruct (Hidx_high (v - L)) as [Ev _]; [lia|].
        replace (L + (v - L)) with v in Ev by lia. fold n1 in Hv1. lia.
      * intros [[_ Hv] Hv2]. cbn [Nat.add] in Hv.
        destruct (Hidx_low v Hv) as [Ev Hlt].
        rewrite (Hrow_mb v Hv) in Hv2. apply filter_In in Hv2. destruct Hv2 as [_ Hv2].
        apply memn_In in Hv2. split; [lia|]. split; [fold n1; lia|]. rewrite Ev. exact Hv2.
Qed.

(* ------------------------------------------------------------------------------------------ *)
(** * The definitions used in the statements, unfolded (for Props/C03.v) *)

Lemma sq_block_unfold (m : pmat) :
  sq_block m = {| p_ncol := p_nrow m + p_ncol m; p_rows := block_undirected m |}.
Proof. reflexivity. Qed.

Lemma stack_sources_unfold (n_row : nat) (source_row source_col : option (list nat)) :
  stack_sources n_row source_row source_col
  = match source_row with Some s => s | None => [] end
    ++ map (fun j => n_row + j) (match source_col with Some s => s | None => [] end).
Proof. reflexivity. Qed.

Lemma pr_vals_unfold :
  pr_vals None = VNone /\
  (forall l, pr_vals (Some (PageRank.SArray l)) = VArr l) /\
  (forall d, pr_vals (Some (PageRank.SDict d)) = VDict d).
Proof. repeat split. Qed.

Lemma df_vals_unfold :
  df_vals None = VNone /\
  (forall l, df_vals (Some (Diffusion.SArray l)) = VArr l) /\
  (forall l, df_vals (Some (Diffusion.SList l)) = VArr l) /\
  (forall d, df_vals (Some (Diffusion.SDict d)) = VDict d).
Proof. repeat split. Qed.

Lemma katz_fit_unfold (m : wmat) (alpha : Q) (K : nat) :
  katz_fit m alpha K =
  let scores := Centrality.katz (snd (fst (get_adjacency m true false false))) alpha K in
  if snd (get_adjacency m true false false)
  then (firstn (length (snd m)) scores, Some (skipn (length (snd m)) scores))
  else (scores, None).
Proof. unfold katz_fit. destruct (get_adjacency m true false false). reflexivity. Qed.

Lemma coo_of_unfold (rows : wrows) :
  coo_of rows
  = flat_map (fun i => map (fun e : nat * Q => (i, fst e, snd e)) (nth i rows [])) (seq 0 (length rows)).
Proof. reflexivity. Qed.

(** Proofs about Model/Bfs.v: hop distances (bfs), get_dag, shortest path edges, bfs order. *)
From SKN Require Import Base.Util Model.Bfs.
From Coq Require Import Permutation Sorted.

(** * Generic list helpers *)

Lemma nth_map_lt {A B} (f : A -> B) (l : list A) (i : nat) (da : A) (db : B) :
  i < length l -> nth i (map f l) db = f (nth i l da).
Proof.
  revert i; induction l as [|a t IH]; intros [|i] H; simpl in *; try lia; auto.
  apply IH; lia.
Qed.

Lemma nth_map_seq {B} (f : nat -> B) (n i : nat) (d : B) :
  i < n -> nth i (map f (seq 0 n)) d = f i.
Proof.
  intros H. rewrite (nth_map_lt f _ _ 0 d) by (rewrite seq_length; exact H).
  rewrite seq_nth by exact H. reflexivity.
Qed.

Lemma existsb_false {A} (f : A -> bool) (l : list A) :
  existsb f l = false <-> forall x, In x l -> f x = false.
Proof.
  induction l as [|a t IH]; simpl.
  - split; [intros _ x [] | auto].
  - rewrite orb_false_iff, IH. split.
    + intros [Ha Ht] x [E|Hx]; subst; auto.
    + intros H; split; [apply H; auto | intros x Hx; apply H; auto].
Qed.

Lemma filter_none {A} (p : A -> bool) (l : list A) :
  (forall x, In x l -> p x = false) -> filter p l = [].
Proof.
  induction l as [|a t IH]; simpl; intros H; auto.
  rewrite (H a) by auto. apply IH. intros x Hx; apply H; auto.
Qed.

Lemma filter_all {A} (p : A -> bool) (l : list A) :
  (forall x, In x l -> p x = true) -> filter p l = l.
Proof.
  induction l as [|a t IH]; simpl; intros H; auto.
  rewrite (H a) by auto. f_equal. apply IH. intros x Hx; apply H; auto.
Qed.

Lemma perm_filter {A} (p : A -> bool) (l l' : list A) :
  Permutation l l' -> Permutation (filter p l) (filter p l').
Proof.
  intros H; induction H as [|x l l' H IH|x y l|l l' l'' H1 IH1 H2 IH2]; simpl.
  - constructor.
  - destruct (p x); [constructor|]; exact IH.
  - destruct (p x), (p y); try apply Permutation_refl. apply perm_swap.
  - eapply Permutation_trans; eassumption.
Qed.

Lemma sorted_skipn {A} (R : A -> A -> Prop) (n : nat) (l : list A) :
  Sorted R l -> Sorted R (skipn n l).
Proof.
  revert l; induction n as [|n IH]; intros l H; simpl; auto.
  destruct l as [|a t]; auto. apply IH. inversion H; assumption.
Qed.

Lemma map_skipn {A B} (f : A -> B) (n : nat) (l : list A) :
  map f (skipn n l) = skipn n (map f l).
Proof.
  revert l; induction n as [|n IH]; intros [|a t]; simpl; auto.
Qed.

Lemma nodup_skipn {A} (n : nat) (l : list A) : NoDup l -> NoDup (skipn n l).
Proof.
  revert l; induction n as [|n IH]; intros l H; simpl; auto.
  destruct l as [|a t]; auto. apply IH. inversion H; assumption.
Qed.

Lemma map_nthz_seq (dist : list Z) : map (nthz dist) (seq 0 (length dist)) = dist.
Proof.
  apply nth_ext with (d := 0%Z) (d' := 0%Z).
  - rewrite map_length, seq_length. reflexivity.
  - intros i Hi. rewrite map_length, seq_length in Hi.
    rewrite nth_map_seq by exact Hi. reflexivity.
Qed.

(** * T2: get_dag *)

Definition wf_graph (g : graph) : Prop := forall u v, In v (row g u) -> v < length g.

Theorem get_dag_length g order : length (get_dag g order) = length g.
Proof. unfold get_dag. rewrite map_length, seq_length. reflexivity. Qed.

Lemma row_get_dag (g : graph) (order : list Z) (i : nat) :
  i < length g ->
  row (get_dag g order) i =
  filter (fun j => negb (dag_removed order (nodup Z.eq_dec order) i j)) (row g i).
Proof.
  intros H. unfold row at 1, get_dag. cbv zeta.
  rewrite nth_map_seq by exact H. reflexivity.
Qed.

Lemma dag_removed_false (order : list Z) (i j : nat) :
  i < length order ->
  (dag_removed order (nodup Z.eq_dec order) i j = false <->
   (0 <= nthz order i)%Z /\ (nthz order i < nthz order j)%Z).
Proof.
  intros Hi. unfold dag_removed. rewrite existsb_false. split.
  - intros H.
    assert (Hin : In (nthz order i) (nodup Z.eq_dec order)).
    { apply nodup_In. unfold nthz. apply nth_In. exact Hi. }
    specialize (H _ Hin). rewrite Z.eqb_refl in H.
    destruct (nthz order i <? 0)%Z eqn:E; [discriminate|].
    simpl in H. apply Z.ltb_ge in E. apply Z.leb_gt in H. lia.
  - intros [H0 H1] value _.
    destruct (value <? 0)%Z eqn:E.
    + apply Z.ltb_lt in E. apply Z.eqb_neq. lia.
    + destruct (Z.eqb_spec (nthz order i) value) as [Eq|Ne]; simpl; auto.
      apply Z.leb_gt. lia.
Qed.

Theorem get_dag_exact (g : graph) (order : list Z) (i j : nat) :
  wf_graph g -> length order = length g -> i < length g ->
  (In j (row (get_dag g order) i) <->
   In j (row g i) /\ (0 <= nthz order i)%Z /\ (nthz order i < nthz order j)%Z).
Proof.
  intros _ Hlen Hi. rewrite row_get_dag by exact Hi.
  rewrite filter_In, negb_true_iff, dag_removed_false by lia. reflexivity.
Qed.

(** * T1: bfs computes hop distances *)

Definition hop (g : graph) (src : list bool) (v k : nat) : Prop :=
  reachk g src k v /\ forall j, j < k -> ~ reachk g src j v.

Lemma hop_unique g src v k1 k2 : hop g src v k1 -> hop g src v k2 -> k1 = k2.
Proof.
  intros [R1 M1] [R2 M2].
  destruct (Nat.lt_trichotomy k1 k2) as [L|[E|L]]; auto.
  - exfalso. exact (M2 _ L R1).
  - exfalso. exact (M1 _ L R2).
Qed.

Lemma row_nonempty_lt (g : graph) (u v : nat) : In v (row g u) -> u < length g.
Proof.
  unfold row. intros H. destruct (Nat.lt_ge_cases u (length g)) as [L|L]; auto.
  rewrite nth_overflow in H by exact L. destruct H.
Qed.

Lemma frontier_length g reach : length (frontier g reach) = length g.
Proof. unfold frontier. rewrite map_length, seq_length. reflexivity. Qed.

Lemma nthb_frontier g reach v : v < length g ->
  nthb (frontier g reach) v =
  negb (nthb reach v) &&
  existsb (fun u => nthb reach u && memn v (row g u)) (seq 0 (length g)).
Proof.
  intros H. unfold nthb at 1, frontier. rewrite nth_map_seq by exact H. reflexivity.
Qed.

Lemma frontier_true g reach v : v < length g ->
  (nthb (frontier g reach) v = true <->
   nthb reach v = false /\ exists u, nthb reach u = true /\ In v (row g u)).
Proof.
  intros H. rewrite nthb_frontier by exact H.
  rewrite andb_true_iff, negb_true_iff, existsb_exists. split.
  - intros [H1 [u [Hu H2]]]. split; auto.
    apply andb_true_iff in H2. destruct H2 as [H2 H3].
    exists u. split; auto. apply memn_In; auto.
  - intros [H1 [u [H2 H3]]]. split; auto. exists u. split.
    + apply in_seq. pose proof (row_nonempty_lt _ _ _ H3). lia.
    + rewrite H2. simpl. apply memn_In; auto.
Qed.

Lemma nthb_map2_orb (a m : list bool) (v : nat) :
  v < length a -> v < length m ->
  nthb (map2 orb a m) v = nthb a v || nthb m v.
Proof. intros Ha Hm. unfold nthb. apply nth_map2; assumption. Qed.

Lemma nthz_map2_sel (d : Z) (m : list bool) (dist : list Z) (v : nat) :
  v < length m -> v < length dist ->
  nthz (map2 (fun (b : bool) (x : Z) => if b then d else x) m dist) v =
  if nthb m v then d else nthz dist v.
Proof.
  intros Hm Hd. unfold nthz, nthb.
  apply (nth_map2 (fun (b : bool) (x : Z) => if b then d else x)); assumption.
Qed.

(** Number of [false] entries: the termination measure. *)
Fixpoint cf (l : list bool) : nat :=
  match l with
  | [] => 0
  | b :: t => (if b then 0 else 1) + cf t
  end.

Lemma cf_le_length l : cf l <= length l.
Proof. induction l as [|b t IH]; simpl; auto. destruct b; simpl; lia. Qed.

Lemma cf_map2_le (a m : list bool) : cf (map2 orb a m) <= cf a.
Proof.
  revert m; induction a as [|x t IH]; intros [|b m']; simpl; try lia.
  specialize (IH m'). destruct x, b; simpl; lia.
Qed.

Lemma cf_map2_lt (a m : list bool) (i : nat) :
  nthb a i = false -> nthb m i = true -> i < length a ->
  cf (map2 orb a m) < cf a.
Proof.
  revert m i; induction a as [|x t IH]; intros m i Ha Hm Hi; simpl in Hi; [lia|].
  destruct m as [|b m'].
  - unfold nthb in Hm. destruct i; simpl in Hm; discriminate.
  - destruct i as [|i'].
    + unfold nthb in Ha, Hm. simpl in Ha, Hm. subst x b. simpl.
      pose proof (cf_map2_le t m'). lia.
    + unfold nthb in Ha, Hm. simpl in Ha, Hm.
      assert (Hlt : cf (map2 orb t m') < cf t).
      { apply (IH m' i'); auto. lia. }
      simpl. destruct x, b; simpl; lia.
Qed.

Definition reachle (g : graph) (src : list bool) (r v : nat) : Prop :=
  exists k, k <= r /\ reachk g src k v.

Record Inv (g : graph) (src : list bool) (r : nat) (reach : list bool) (dist : list Z) : Prop :=
  { inv_lr : length reach = length g;
    inv_ld : length dist = length g;
    inv_reach : forall v, v < length g -> (nthb reach v = true <-> reachle g src r v);
    inv_dist_t : forall v, v < length g -> nthb reach v = true ->
                           exists k, nthz dist v = Z.of_nat k /\ hop g src v k;
    inv_dist_f : forall v, v < length g -> nthb reach v = false -> nthz dist v = (-1)%Z }.

Definition Final (g : graph) (src : list bool) (dist : list Z) : Prop :=
  length dist = length g /\
  forall v, v < length g ->
    (forall k, nthz dist v = Z.of_nat k <-> hop g src v k) /\
    (nthz dist v = (-1)%Z <-> forall k, ~ reachk g src k v).

(** Under the invariant, the frontier is exactly the set of nodes first reached at step r+1. *)
Lemma inv_frontier g src r reach dist v :
  Inv g src r reach dist -> v < length g ->
  (nthb (frontier g reach) v = true <-> nthb reach v = false /\ reachk g src (S r) v).
Proof.
  intros HI Hv. rewrite frontier_true by exact Hv. split.
  - intros [Hf [u [Hu Hin]]]. split; auto.
    pose proof (row_nonempty_lt _ _ _ Hin) as Hun.
    apply (inv_reach _ _ _ _ _ HI u Hun) in Hu. destruct Hu as [k [Hk Hr]].
    destruct (Nat.eq_dec k r) as [E|Ne].
    + subst k. simpl. exists u. split; auto.
    + exfalso.
      assert (Ht : nthb reach v = true).
      { apply (inv_reach _ _ _ _ _ HI v Hv). exists (S k). split; [lia|].
        simpl. exists u. split; auto. }
      rewrite Ht in Hf. discriminate.
  - intros [Hf Hr]. split; auto. simpl in Hr. destruct Hr as [u [Hr Hin]].
    exists u. split; auto.
    pose proof (row_nonempty_lt _ _ _ Hin) as Hun.
    apply (inv_reach _ _ _ _ _ HI u Hun). exists r. split; auto.
Qed.

Lemma inv_step g src r reach dist :
  Inv g src r reach dist ->
  Inv g src (S r) (map2 orb reach (frontier g reach))
      (map2 (fun (b : bool) (x : Z) => if b then Z.of_nat (S r) else x) (frontier g reach) dist).
Proof.
  intros HI.
  pose proof (inv_lr _ _ _ _ _ HI) as Hlr.
  pose proof (inv_ld _ _ _ _ _ HI) as Hld.
  pose proof (frontier_length g reach) as Hlf.
  assert (Hnr : forall v, v < length g ->
            nthb (map2 orb reach (frontier g reach)) v =
            nthb reach v || nthb (frontier g reach) v).
  { intros v Hv. apply nthb_map2_orb; lia. }
  assert (Hnd : forall v, v < length g ->
            nthz (map2 (fun (b : bool) (x : Z) => if b then Z.of_nat (S r) else x)
                       (frontier g reach) dist) v =
            if nthb (frontier g reach) v then Z.of_nat (S r) else nthz dist v).
  { intros v Hv. apply nthz_map2_sel; lia. }
  constructor.
  - rewrite map2_length. lia.
  - rewrite map2_length. lia.
  - intros v Hv. rewrite Hnr by exact Hv. rewrite orb_true_iff. split.
    + intros [Ht|Ht].
      * apply (inv_reach _ _ _ _ _ HI v Hv) in Ht. destruct Ht as [k [Hk Hr]].
        exists k. split; [lia|exact Hr].
      * apply (inv_frontier _ _ _ _ _ _ HI Hv) in Ht. destruct Ht as [_ Hr].
        exists (S r). split; [lia|exact Hr].
    + intros [k [Hk Hr]].
      destruct (nthb reach v) eqn:E; [left; reflexivity|right].
      apply (inv_frontier _ _ _ _ _ _ HI Hv). split; auto.
      destruct (Nat.eq_dec k (S r)) as [Eq|Ne]; [subst k; exact Hr|].
      exfalso.
      assert (Ht : nthb reach v = true).
      { apply (inv_reach _ _ _ _ _ HI v Hv). exists k. split; [lia|exact Hr]. }
      rewrite Ht in E. discriminate.
  - intros v Hv. rewrite Hnr, Hnd by exact Hv.
    destruct (nthb (frontier g reach) v) eqn:M.
    + intros _. apply (inv_frontier _ _ _ _ _ _ HI Hv) in M. destruct M as [Hf Hr].
      exists (S r). split; [reflexivity|]. split; [exact Hr|].
      intros j Hj Hrj.
      assert (Ht : nthb reach v = true).
      { apply (inv_reach _ _ _ _ _ HI v Hv). exists j. split; [lia|exact Hrj]. }
      rewrite Ht in Hf. discriminate.
    + rewrite orb_false_r. intros Ht. exact (inv_dist_t _ _ _ _ _ HI v Hv Ht).
  - intros v Hv. rewrite Hnr, Hnd by exact Hv. rewrite orb_false_iff.
    intros [Hf Hm]. rewrite Hm. exact (inv_dist_f _ _ _ _ _ HI v Hv Hf).
Qed.

Lemma inv_closed g src r reach dist :
  Inv g src r reach dist ->
  existsb (fun b : bool => b) (frontier g reach) = false ->
  forall k v, reachk g src k v -> v < length g -> nthb reach v = true.
Proof.
  intros HI HE.
  assert (Hm : forall v, v < length g -> nthb (frontier g reach) v = false).
  { intros v Hv. rewrite existsb_false in HE. apply HE.
    unfold nthb. apply nth_In. rewrite frontier_length. exact Hv. }
  induction k as [|k IH]; intros v Hr Hv.
  - apply (inv_reach _ _ _ _ _ HI v Hv). exists 0. split; [lia|exact Hr].
  - simpl in Hr. destruct Hr as [u [Hr Hin]].
    pose proof (row_nonempty_lt _ _ _ Hin) as Hun.
    specialize (IH u Hr Hun).
    destruct (nthb reach v) eqn:E; auto.
    exfalso. specialize (Hm v Hv).
    assert (Ht : nthb (frontier g reach) v = true).
    { apply frontier_true; auto. split; auto. exists u. split; auto. }
    rewrite Ht in Hm. discriminate.
Qed.

Lemma inv_final g src r reach dist :
  Inv g src r reach dist ->
  existsb (fun b : bool => b) (frontier g reach) = false ->
  Final g src dist.
Proof.
  intros HI HE. split; [exact (inv_ld _ _ _ _ _ HI)|].
  intros v Hv.
  pose proof (inv_closed _ _ _ _ _ HI HE) as Hcl.
  destruct (nthb reach v) eqn:E.
  - destruct (inv_dist_t _ _ _ _ _ HI v Hv E) as [k0 [Hd Hh]].
    split.
    + intros k. split.
      * intros Hk. assert (k = k0) by lia. subst k. exact Hh.
      * intros Hk. rewrite (hop_unique _ _ _ _ _ Hk Hh). exact Hd.
    + split.
      * intros Hneg. lia.
      * intros Hno. exfalso. destruct Hh as [Hr _]. exact (Hno _ Hr).
  - pose proof (inv_dist_f _ _ _ _ _ HI v Hv E) as Hd.
    assert (Hno : forall k, ~ reachk g src k v).
    { intros k Hr. rewrite (Hcl k v Hr Hv) in E. discriminate. }
    split.
    + intros k. split.
      * intros Hk. lia.
      * intros [Hr _]. exfalso. exact (Hno _ Hr).
    + split; auto.
Qed.

Lemma bfs_loop_ok g src :
  forall fuel r reach dist,
    Inv g src r reach dist -> cf reach < fuel ->
    exists dist', bfs_loop fuel g (Z.of_nat (S r)) reach dist = Some dist' /\ Final g src dist'.
Proof.
  induction fuel as [|f IH]; intros r reach dist HI Hf; [lia|].
  cbn [bfs_loop].
  destruct (existsb (fun b : bool => b) (frontier g reach)) eqn:E.
  - replace (Z.of_nat (S r) + 1)%Z with (Z.of_nat (S (S r))) by lia.
    apply IH.
    + apply inv_step. exact HI.
    + apply existsb_exists in E. destruct E as [b [Hb Hbt]]. subst b.
      destruct (In_nth _ _ false Hb) as [i [Hi Hn]].
      rewrite frontier_length in Hi.
      assert (Hfi : nthb reach i = false).
      { apply (frontier_true g reach i Hi). exact Hn. }
      pose proof (inv_lr _ _ _ _ _ HI) as Hlr.
      assert (Hlt : cf (map2 orb reach (frontier g reach)) < cf reach).
      { apply (cf_map2_lt reach (frontier g reach) i); auto. lia. }
      lia.
  - exists dist. split; [reflexivity|]. exact (inv_final _ _ _ _ _ HI E).
Qed.

Lemma inv_init g src :
  length src = length g ->
  Inv g src 0 src (map (fun b : bool => if b then 0%Z else (-1)%Z) src).
Proof.
  intros Hs.
  assert (Hnd : forall v, v < length g ->
            nthz (map (fun b : bool => if b then 0%Z else (-1)%Z) src) v =
            if nthb src v then 0%Z else (-1)%Z).
  { intros v Hv. unfold nthz, nthb.
    apply (nth_map_lt (fun b : bool => if b then 0%Z else (-1)%Z)). lia. }
  constructor.
  - exact Hs.
  - rewrite map_length. exact Hs.
  - intros v Hv. split.
    + intros H. exists 0. split; [lia|exact H].
    + intros [k [Hk Hr]]. assert (k = 0) by lia. subst k. exact Hr.
  - intros v Hv Ht. exists 0. rewrite Hnd, Ht by exact Hv. split; [reflexivity|].
    split; [exact Ht|]. intros j Hj. lia.
  - intros v Hv Hf. rewrite Hnd, Hf by exact Hv. reflexivity.
Qed.

Theorem bfs_exact (g : graph) (src : list bool) :
  length src = length g ->
  exists dist, bfs g src = Some dist /\ length dist = length g /\
    forall v, v < length g ->
      (forall k, nthz dist v = Z.of_nat k <-> hop g src v k) /\
      (nthz dist v = (-1)%Z <-> forall k, ~ reachk g src k v).
Proof.
  intros Hs. unfold bfs. change 1%Z with (Z.of_nat (S 0)).
  destruct (bfs_loop_ok g src (S (length g)) 0 src _ (inv_init g src Hs)) as [dist [Hb [Hl Hf]]].
  - pose proof (cf_le_length src). lia.
  - exists dist. split; [exact Hb|]. split; [exact Hl|exact Hf].
Qed.

(** * T3: shortest path edges *)

Theorem shortest_path_edges (g : graph) (src : list bool) (dist : list Z) (i j : nat) :
  wf_graph g -> length src = length g -> bfs g src = Some dist -> i < length g ->
  (In j (row (get_dag g dist) i) <->
   In j (row g i) /\ (0 <= nthz dist i)%Z /\ nthz dist j = (nthz dist i + 1)%Z).
Proof.
  intros Hwf Hs Hb Hi.
  destruct (bfs_exact g src Hs) as [dist' [Hb' [Hl Hf]]].
  rewrite Hb in Hb'. injection Hb' as Hb'. subst dist'.
  rewrite (get_dag_exact g dist i j Hwf Hl Hi). split.
  - intros [Hin [H0 Hlt]]. split; [exact Hin|]. split; [exact H0|].
    pose proof (Hwf _ _ Hin) as Hj.
    destruct (Hf i Hi) as [Hfi _]. destruct (Hf j Hj) as [Hfj _].
    assert (Hhi : hop g src i (Z.to_nat (nthz dist i))).
    { apply Hfi. lia. }
    assert (Hhj : hop g src j (Z.to_nat (nthz dist j))).
    { apply Hfj. lia. }
    destruct Hhi as [Hri _]. destruct Hhj as [_ Hmj].
    assert (Hrj : reachk g src (S (Z.to_nat (nthz dist i))) j).
    { simpl. exists i. split; auto. }
    assert (Hle : Z.to_nat (nthz dist j) <= S (Z.to_nat (nthz dist i))).
    { destruct (Nat.le_gt_cases (Z.to_nat (nthz dist j)) (S (Z.to_nat (nthz dist i)))) as [L|L]; auto.
      exfalso. exact (Hmj _ L Hrj). }
    lia.
  - intros [Hin [H0 He]]. split; [exact Hin|]. split; [exact H0|]. lia.
Qed.

(** * T4: breadth_first_search order *)

Lemma skipn_neg_filter (f : nat -> Z) (l : list nat) :
  Sorted Z.le (map f l) ->
  skipn (length (filter (fun d => (d <? 0)%Z) (map f l))) l =
  filter (fun v => negb (f v <? 0)%Z) l.
Proof.
  intros HS. apply Sorted_StronglySorted in HS; [|intros x y z; apply Z.le_trans].
  induction l as [|a t IH]; simpl; auto.
  simpl in HS. apply StronglySorted_inv in HS. destruct HS as [Ht Ha].
  destruct (f a <? 0)%Z eqn:E; simpl.
  - apply IH. exact Ht.
  - assert (Hall : forall v, In v t -> (f v <? 0)%Z = false).
    { intros v Hv. rewrite Forall_forall in Ha.
      specialize (Ha (f v) (in_map f _ _ Hv)).
      apply Z.ltb_ge in E. apply Z.ltb_ge. lia. }
    rewrite (filter_none (fun d => (d <? 0)%Z) (map f t)).
    + simpl. f_equal. symmetry. apply filter_all.
      intros v Hv. rewrite (Hall v Hv). reflexivity.
    + intros x Hx. apply in_map_iff in Hx. destruct Hx as [v [Ev Hv]]. subst x.
      exact (Hall v Hv).
Qed.

Theorem bfs_order_exact (dist : list Z) (argsort : list nat) :
  Permutation argsort (seq 0 (length dist)) ->
  Sorted Z.le (map (nthz dist) argsort) ->
  (forall v, v < length dist -> (-1 <= nthz dist v)%Z) ->
  let out := bfs_order dist argsort in
  NoDup out /\
  (forall v, In v out <-> v < length dist /\ (0 <= nthz dist v)%Z) /\
  Sorted Z.le (map (nthz dist) out).
Proof.
  intros HP HS _ out.
  assert (HPm : Permutation (map (nthz dist) argsort) dist).
  { apply Permutation_trans with (map (nthz dist) (seq 0 (length dist))).
    - apply Permutation_map. exact HP.
    - rewrite map_nthz_seq. apply Permutation_refl. }
  assert (Hc : length (filter (fun d => (d <? 0)%Z) dist) =
               length (filter (fun d => (d <? 0)%Z) (map (nthz dist) argsort))).
  { apply Permutation_length. apply perm_filter. apply Permutation_sym. exact HPm. }
  assert (Hnd : NoDup argsort).
  { apply (Permutation_NoDup (Permutation_sym HP)). apply seq_NoDup. }
  split; [|split].
  - unfold out, bfs_order. apply nodup_skipn. exact Hnd.
  - intros v. unfold out, bfs_order. rewrite Hc.
    rewrite (skipn_neg_filter (nthz dist) argsort HS).
    rewrite filter_In, negb_true_iff, Z.ltb_ge. split.
    + intros [Hin H0]. split; [|exact H0].
      apply (Permutation_in _ HP) in Hin. apply in_seq in Hin. lia.
    + intros [Hv H0]. split; [|exact H0].
      apply (Permutation_in _ (Permutation_sym HP)). apply in_seq. lia.
  - unfold out, bfs_order. rewrite map_skipn. apply sorted_skipn. exact HS.
Qed.

Print Assumptions bfs_exact.
Print Assumptions get_dag_exact.
Print Assumptions get_dag_length.
Print Assumptions shortest_path_edges.
Print Assumptions bfs_order_exact.

(** Proofs about Leiden.fit (leiden.py) that complete Proofs/LouvainProofs.v and Proofs/LouvainTermination.v:

    A. The label step of Leiden._aggregate_refine as coded ([Model.Leiden.aggregate_refine_labels]:
       [membership_refined.T.tocsr().dot(membership).indices]) is well defined and correct under the contract of
       the refinement (refined clusters are non-empty subsets of coarse clusters): it has one entry per refined
       cluster, the coarse label shared by all the members of that cluster; it is the [coarse_of_refined] used by
       the model of Leiden.fit in Model/Louvain.v; composing the memberships through it gives the coarse label
       of every original node.
    B. Aggregating by the REFINED partition preserves the objective of the COARSE partition.
    C. The outer [while not stop] loop of Leiden.fit terminates for tol_optimization > 0 and
       tol_aggregation > 0, for EVERY refinement oracle meeting [refine_contract], with explicit fuel
       ceil((B - Q0) / tol_aggregation) + 1 (B any upper bound of the objective, Q0 the objective of the
       singleton partition): every continuing aggregation has increase > tol_aggregation. *)
From Coq Require Import Lqa Psatz Setoid Morphisms Sorted Qround Qabs.
From SKN Require Import Base.Util Model.Clustering Proofs.ClusteringProofs Model.Leiden Model.Modularity Model.Louvain Proofs.ModularityProofs Proofs.LouvainProofs Proofs.LouvainTermination.
Set Warnings "-notation-overridden". (* keep: a line with a parenthesis after the imports *)

(* ------------------------------------------------------------------------------------------ *)
(** * A. [labels_ = membership_refined.T.tocsr().dot(membership).indices] *)

Lemma sumq_pos_term {A} (f : A -> Q) l a :
  (forall x, In x l -> (0 <= f x)%Q) -> In a l -> (0 < f a)%Q -> (0 < sumq (map f l))%Q.
Proof.
  induction l as [|b t IH]; intros Hnn Hin Hpos; [destruct Hin|].
  cbn [map]. rewrite sumq_cons.
  assert (Hb : (0 <= f b)%Q) by (apply Hnn; left; reflexivity).
  assert (Ht : (0 <= sumq (map f t))%Q) by (apply sumq_nonneg; intros x Hx; apply Hnn; right; exact Hx).
  destruct Hin as [E|Hin].
  - subst b. lra.
  - specialize (IH (fun x Hx => Hnn x (or_intror Hx)) Hin Hpos). lra.
Qed.

(** [.indices] of a matrix whose every row r has exactly one non-zero entry, in column F r. *)
Lemma indices_of_support kr kc (P : mat) (F : nat -> nat) :
  length P = kr -> (forall r, r < kr -> F r < kc) ->
  (forall r c, r < kr -> c < kc -> ((ent P r c == 0)%Q <-> F r <> c)) ->
  indices_of kc P = map F (seq 0 kr).
Proof.
  intros HL Hf HM. unfold indices_of. rewrite <- HL.
  apply (flat_map_singletons _ P []). intros v Hv. rewrite HL in Hv.
  rewrite <- (filter_eqb_seq (F v) 0 kc) by (specialize (Hf v Hv); lia).
  apply filter_ext_in. intros c Hc. apply in_seq in Hc.
  change (nthq (nth v P []) c) with (ent P v c).
  assert (E := HM v c Hv). specialize (E ltac:(lia)).
  destruct (Nat.eqb_spec (F v) c) as [E1|E1]; destruct (Qeq_bool (ent P v c) 0) eqn:Eq; try reflexivity.
  - apply Qeq_bool_iff in Eq. apply E in Eq. contradiction.
  - exfalso. assert (Hq : Qeq_bool (ent P v c) 0 = true) by (apply Qeq_bool_iff; apply E; exact E1).
    congruence.
Qed.

Definition ohz (z : Z) (c : nat) : Q := if (z =? Z.of_nat c)%Z then 1%Q else 0%Q.

(** Entry (r, c) of [membership_refined.T.dot(membership)]: the number of nodes with refined label r and
    coarse label c. *)
Lemma ent_refined_T_dot labels refined kr kc r c :
  length refined = length labels -> r < kr -> c < kc ->
  ent (mmul kr (length refined) kc (mtrans (length refined) kr (membership refined kr)) (membership labels kc)) r c
  = sumq (map (fun j => (ohz (nthz refined j) r * ohz (nthz labels j) c)%Q) (seq 0 (length refined))).
Proof.
  intros Hlen Hr Hc. rewrite ent_mmul by assumption. f_equal. apply map_ext_in. intros j Hj. apply in_seq in Hj.
  rewrite ent_mtrans by lia. unfold membership. rewrite !ent_onehot by lia. reflexivity.
Qed.

Section CodedLabels.
  Context (labels refined : list Z) (kr kc : nat).
  Let n := length labels.
  Context (Hlen : length refined = n).
  Context (Hl0 : forall l, In l labels -> (0 <= l)%Z) (Hlk : forall l, In l labels -> (l < Z.of_nat kc)%Z).
  Context (Hr0 : forall l, In l refined -> (0 <= l)%Z) (Hrk : forall l, In l refined -> (l < Z.of_nat kr)%Z).
  (** the contract of the refinement: refined clusters are subsets of coarse clusters ... *)
  Context (Href : forall x y, x < n -> y < n -> nthz refined x = nthz refined y -> nthz labels x = nthz labels y).
  (** ... and every refined label below the number of columns is used (np.unique compaction) *)
  Context (Honto : forall r, r < kr -> In (Z.of_nat r) refined).

  Lemma first_member r : r < kr ->
    zindex (Z.of_nat r) refined < n /\ nthz refined (zindex (Z.of_nat r) refined) = Z.of_nat r.
  Proof.
    intros Hr. pose proof (Honto r Hr) as Hin. split.
    - rewrite <- Hlen. apply zindex_lt. exact Hin.
    - apply nth_zindex. exact Hin.
  Qed.

  Lemma coarse_label_of_lt r : r < kr -> coarse_label_of labels refined r < kc.
  Proof.
    intros Hr. destruct (first_member r Hr) as [Hv _]. unfold coarse_label_of.
    assert (Hin : In (nthz labels (zindex (Z.of_nat r) refined)) labels) by (apply nthz_In; exact Hv).
    pose proof (Hl0 _ Hin). pose proof (Hlk _ Hin). lia.
  Qed.

  (** every member of refined cluster r has the coarse label [coarse_label_of r] *)
  Lemma coarse_label_of_member v :
    v < n -> Z.to_nat (nthz refined v) < kr /\
             coarse_label_of labels refined (Z.to_nat (nthz refined v)) = Z.to_nat (nthz labels v).
  Proof.
    intros Hv.
    assert (Hin : In (nthz refined v) refined) by (apply nthz_In; rewrite Hlen; exact Hv).
    pose proof (Hr0 _ Hin) as H0. pose proof (Hrk _ Hin) as H1.
    assert (Hr : Z.to_nat (nthz refined v) < kr) by lia.
    split; [exact Hr|].
    destruct (first_member _ Hr) as [Hp Ep]. rewrite Z2Nat.id in Ep, Hp by exact H0.
    unfold coarse_label_of. rewrite Z2Nat.id by exact H0.
    rewrite (Href _ v Hp Hv Ep). reflexivity.
  Qed.

  Lemma coded_indices :
    indices_of kc (mmul kr (length refined) kc (mtrans (length refined) kr (membership refined kr))
                        (membership labels kc))
    = map (coarse_label_of labels refined) (seq 0 kr).
  Proof.
    apply indices_of_support.
    - unfold mmul. apply mk_length.
    - exact coarse_label_of_lt.
    - intros r c Hr Hc. rewrite ent_refined_T_dot by (assumption || exact Hlen).
      destruct (first_member r Hr) as [Hp Ep]. set (p := zindex (Z.of_nat r) refined) in *.
      assert (Hnn : forall j, In j (seq 0 (length refined)) ->
                      (0 <= ohz (nthz refined j) r * ohz (nthz labels j) c)%Q).
      { intros j _. unfold ohz. destruct (_ =? _)%Z; destruct (_ =? _)%Z; lra. }
      split.
      + intros E0 EF.
        assert (Hpos : (0 < sumq (map (fun j => (ohz (nthz refined j) r * ohz (nthz labels j) c)%Q)
                                      (seq 0 (length refined))))%Q).
        { apply (sumq_pos_term _ _ p Hnn); [apply in_seq; lia|].
          unfold ohz. rewrite Ep, Z.eqb_refl.
          assert (Hin : In (nthz labels p) labels) by (apply nthz_In; exact Hp).
          pose proof (Hl0 _ Hin) as H0. unfold coarse_label_of in EF. fold p in EF.
          assert (E : nthz labels p = Z.of_nat c) by lia. rewrite E, Z.eqb_refl. lra. }
        rewrite E0 in Hpos. lra.
      + intros EF. apply sumq_zero. intros j Hj. apply in_seq in Hj. unfold ohz.
        destruct (nthz refined j =? Z.of_nat r)%Z eqn:E1; [|ring].
        apply Z.eqb_eq in E1.
        assert (Hj' : j < n) by lia.
        assert (E2 : nthz labels j = nthz labels p) by (apply Href; [exact Hj'|exact Hp|congruence]).
        destruct (nthz labels j =? Z.of_nat c)%Z eqn:E3; [|ring].
        apply Z.eqb_eq in E3. exfalso. apply EF. unfold coarse_label_of. fold p. rewrite <- E2, E3.
        apply Nat2Z.id.
  Qed.
End CodedLabels.

(** The coded step, for any labels (integers >= 0) under the contract: it returns ONE entry per refined
    cluster ([out] has length n_refined), entry r is the coarse label shared by ALL the members of r
    (second conjunct of the fourth item), and it is below the number of coarse clusters. *)
Theorem aggregate_refine_labels_correct_pf (labels refined : list Z) (kr kc : nat) (out : list nat) :
  (forall l, In l labels -> (0 <= l)%Z) -> (forall l, In l refined -> (0 <= l)%Z) ->
  let n := length labels in
  (forall x y, x < n -> y < n -> nthz refined x = nthz refined y -> nthz labels x = nthz labels y) ->
  (forall r, r < kr -> In (Z.of_nat r) refined) ->
  aggregate_refine_labels labels refined = Ok (kr, kc, out) ->
  length refined = n /\
  out = map (coarse_label_of labels refined) (seq 0 kr) /\
  length out = kr /\
  (forall v, v < n -> Z.to_nat (nthz refined v) < kr /\
                      nthn out (Z.to_nat (nthz refined v)) = Z.to_nat (nthz labels v)) /\
  (forall r, r < kr -> nthn out r < kc).
Proof.
  intros Hl0 Hr0 n Href Honto H. unfold aggregate_refine_labels in H.
  destruct (get_membership labels None) as [[kc' M]|e] eqn:G1; [|discriminate].
  destruct (get_membership refined None) as [[kr' Mr]|e] eqn:G2; [|discriminate].
  destruct (Nat.eqb (length refined) (length labels)) eqn:El; [|discriminate].
  apply Nat.eqb_eq in El.
  apply get_membership_ok in G1. destruct G1 as [EM [Hlk _]].
  apply get_membership_ok in G2. destruct G2 as [EMr [Hrk _]].
  assert (Ekr : kr' = kr) by congruence. assert (Ekc : kc' = kc) by congruence. subst kr' kc' M Mr.
  assert (Eout : out = map (coarse_label_of labels refined) (seq 0 kr)).
  { rewrite <- (coded_indices labels refined kr kc El Hl0 Hlk Href Honto). congruence. }
  split; [exact El|]. split; [exact Eout|].
  split; [rewrite Eout, map_length, seq_length; reflexivity|]. split.
  - intros v Hv.
    destruct (coarse_label_of_member labels refined kr El Hr0 Hrk Href Honto v Hv) as [Hr E].
    split; [exact Hr|]. rewrite Eout, (nthn_map_seq _ kr _ Hr). exact E.
  - intros r Hr. rewrite Eout, (nthn_map_seq _ kr _ Hr).
    exact (coarse_label_of_lt labels refined kr kc El Hl0 Hlk Honto r Hr).
Qed.

(** C05, Leiden case: following the memberships of the levels, then [labels_refined] and the coded coarse
    labels of the aggregated nodes, gives the same label as following the levels and the coarse labels of
    the level itself — which is what the [stop] branch does ([labels_original]). *)
Lemma leiden_composition_pf (levels : list (list Z)) (labels refined : list Z) (kr kc : nat) (out : list nat) v :
  (forall l, In l labels -> (0 <= l)%Z) -> (forall l, In l refined -> (0 <= l)%Z) ->
  let n := length labels in
  (forall x y, x < n -> y < n -> nthz refined x = nthz refined y -> nthz labels x = nthz labels y) ->
  (forall r, r < kr -> In (Z.of_nat r) refined) ->
  aggregate_refine_labels labels refined = Ok (kr, kc, out) ->
  compose_fn levels v < n ->
  compose_fn (levels ++ [refined]) v < kr /\
  compose_fn (levels ++ [refined; map Z.of_nat out]) v = compose_fn (levels ++ [labels]) v.
Proof.
  intros Hl0 Hr0 n Href Honto H Hv.
  destruct (aggregate_refine_labels_correct_pf labels refined kr kc out Hl0 Hr0 Href Honto H)
    as [_ [_ [_ [Hm _]]]].
  destruct (Hm _ Hv) as [Hr E].
  unfold compose_fn in *. rewrite !fold_left_app. cbn [fold_left].
  split; [exact Hr|]. rewrite nthz_map_of_nat_any, Nat2Z.id. exact E.
Qed.

(** ** The model of Leiden.fit (Model/Louvain.v) uses the coded value *)

Lemma zindex_of_nat r (l : list nat) : zindex (Z.of_nat r) (map Z.of_nat l) = index_of r l.
Proof.
  induction l as [|x t IH]; [reflexivity|]. cbn [map zindex index_of].
  destruct (Nat.eqb_spec x r) as [E|E].
  - subst x. rewrite Z.eqb_refl. reflexivity.
  - destruct (Z.of_nat r =? Z.of_nat x)%Z eqn:E2; [apply Z.eqb_eq in E2; lia|]. rewrite IH. reflexivity.
Qed.

Lemma zmax_of_nat (l : list nat) :
  l <> [] -> zmax (map Z.of_nat l) = Some (Z.of_nat (fold_right Nat.max 0 l)).
Proof.
  destruct l as [|a t]; [congruence|]. intros _. cbn [map zmax]. f_equal.
  revert a. induction t as [|b t IH]; intros a; cbn [map fold_left fold_right].
  - f_equal. lia.
  - rewrite <- Nat2Z.inj_max. rewrite IH. f_equal. cbn [fold_right]. lia.
Qed.

Lemma get_membership_of_nat (l : list nat) :
  l <> [] ->
  get_membership (map Z.of_nat l) None = Ok (n_labels l, membership (map Z.of_nat l) (n_labels l)).
Proof.
  intros Hne. unfold get_membership. rewrite (zmax_of_nat l Hne).
  destruct (Z.of_nat (fold_right Nat.max 0%nat l) + 1 <? 0)%Z eqn:E; [apply Z.ltb_lt in E; lia|].
  assert (Ek : Z.to_nat (Z.of_nat (fold_right Nat.max 0 l) + 1) = n_labels l) by (unfold n_labels; lia).
  rewrite Ek.
  assert (Hall : forallb (fun x => (x <? Z.of_nat (n_labels l))%Z) (map Z.of_nat l) = true).
  { apply forallb_forall. intros x Hx. apply in_map_iff in Hx. destruct Hx as [y [<- Hy]].
    apply Z.ltb_lt. apply (In_nth _ _ 0) in Hy. destruct Hy as [i [Hi <-]].
    pose proof (lab_lt_n_labels l i Hi) as H. unfold lab, nthn in H. lia. }
  rewrite Hall. reflexivity.
Qed.

(** [coarse_of_refined] of Model/Louvain.v IS the coded [membership_refined.T.dot(membership).indices]
    whenever the refined clusters are subsets of the coarse clusters and every refined label is used. *)
Theorem coarse_of_refined_is_coded (lu rho : list nat) :
  lu <> [] -> length rho = length lu ->
  refines (length lu) rho lu ->
  (forall r, r < n_labels rho -> In r rho) ->
  aggregate_refine_labels (map Z.of_nat lu) (map Z.of_nat rho)
  = Ok (n_labels rho, n_labels lu, coarse_of_refined lu rho (n_labels rho)).
Proof.
  intros Hne Hlen Href Honto.
  assert (Hne' : rho <> []) by (intros E; rewrite E in Hlen; destruct lu; [congruence|discriminate]).
  unfold aggregate_refine_labels.
  rewrite (get_membership_of_nat lu Hne), (get_membership_of_nat rho Hne').
  destruct (Nat.eqb_spec (length (map Z.of_nat rho)) (length (map Z.of_nat lu))) as [El|El];
    [|exfalso; apply El; rewrite !map_length; exact Hlen].
  f_equal. f_equal.
  rewrite (coded_indices (map Z.of_nat lu) (map Z.of_nat rho) (n_labels rho) (n_labels lu)).
  - unfold coarse_of_refined. apply map_ext. intros r. unfold coarse_label_of.
    rewrite zindex_of_nat, nthz_map_of_nat_any. apply Nat2Z.id.
  - rewrite !map_length. exact Hlen.
  - intros l Hl. apply in_map_iff in Hl. destruct Hl as [y [<- _]]. lia.
  - intros l Hl. apply in_map_iff in Hl. destruct Hl as [y [<- Hy]].
    apply (In_nth _ _ 0) in Hy. destruct Hy as [i [Hi <-]].
    pose proof (lab_lt_n_labels lu i Hi) as H. unfold lab, nthn in H. lia.
  - rewrite map_length. intros x y Hx Hy E. rewrite !nthz_map_of_nat_any in *.
    apply Nat2Z.inj in E. f_equal. exact (Href x y Hx Hy E).
  - intros r Hr. apply in_map. apply Honto. exact Hr.
Qed.

(** [labels_refined] is always the inverse index of np.unique: every label below the number of columns of
    its membership matrix is used (the hypothesis of [aggregate_refine_labels_correct_pf]). *)
Lemma np_unique_all_labels_used (raw : list Z) (kr : nat) (Mr : mat) :
  let refined := map Z.of_nat (snd (Clustering.unique_inverse raw)) in
  get_membership refined None = Ok (kr, Mr) ->
  (forall l, In l refined -> (0 <= l)%Z) /\ (forall r, r < kr -> In (Z.of_nat r) refined).
Proof.
  intros refined H. set (out := snd (Clustering.unique_inverse raw)) in *.
  split.
  { intros l Hl. apply in_map_iff in Hl. destruct Hl as [y [<- _]]. lia. }
  destruct (unique_inverse_contiguous_pf raw) as [_ [_ Hk]]. fold out in Hk.
  assert (Hne : out <> []).
  { intros E. unfold refined in H. rewrite E in H. cbn in H. discriminate. }
  unfold refined in H. rewrite (get_membership_of_nat out Hne) in H.
  assert (Ekr : kr = n_labels out) by congruence.
  pose proof (fold_max_In out Hne) as Hmax. apply Hk in Hmax.
  intros r Hr. apply in_map. apply Hk. unfold n_labels in Ekr. lia.
Qed.

(* ------------------------------------------------------------------------------------------ *)
Local Open Scope Q_scope.

(** * B. One aggregation of Leiden.fit: by the REFINED labels, keeping the COARSE labels *)

Section RefinedAggregation.
  Context (g : wgraph) (lu rho : list nat).
  Let k := n_labels rho.
  Context (Hlu : length lu = length g) (Hrho : length rho = length g).
  Context (Href : refines (length g) rho lu).
  Context (Honto : forall C, (C < k)%nat -> In C rho).

  Lemma coarse_of_refined_length : length (coarse_of_refined lu rho k) = k.
  Proof. unfold coarse_of_refined. rewrite map_length, seq_length. reflexivity. Qed.

  Lemma coarse_of_refined_lab C :
    (C < k)%nat -> lab (coarse_of_refined lu rho k) C = lab lu (index_of C rho).
  Proof. intros HC. exact (nthn_map_seq (fun c => nthn lu (index_of c rho)) k C HC). Qed.

  (** the aggregated node [rho y] gets the coarse label of y, whichever member y of the refined cluster *)
  Lemma coarse_of_refined_member y :
    (y < length g)%nat -> lab (coarse_of_refined lu rho k) (lab rho y) = lab lu y.
  Proof.
    intros Hy. assert (HC : (lab rho y < k)%nat) by (apply lab_lt_n_labels; lia).
    rewrite (coarse_of_refined_lab _ HC).
    pose proof (Honto _ HC) as Hin.
    apply Href.
    - rewrite <- Hrho. apply index_of_lt. exact Hin.
    - exact Hy.
    - unfold lab, nthn. apply nth_index_of. exact Hin.
  Qed.

  (** [membership.dot(get_membership(labels_refined))] followed by the coarse labels of the aggregated nodes
      = the coarse labels of the level, node by node *)
  Lemma coarse_partition_preserved (membership : list nat) :
    (forall c, In c membership -> (c < length g)%nat) ->
    map (nthn (coarse_of_refined lu rho k)) (map (fun c => nthn rho c) membership)
    = map (fun c => nthn lu c) membership.
  Proof.
    intros H. rewrite map_map. apply map_ext_in. intros c Hc. exact (coarse_of_refined_member c (H c Hc)).
  Qed.

  Context (Hwf : wf_wgraph g).

  Lemma refined_aggregation_objective ows iws res :
    objective (aggregate_graph g rho k) (cluster_sums k rho ows) (cluster_sums k rho iws) res
              (coarse_of_refined lu rho k)
    == objective g ows iws res lu.
  Proof.
    assert (Hlt : forall i, (i < length g)%nat -> (lab rho i < k)%nat).
    { intros i Hi. apply lab_lt_n_labels. lia. }
    rewrite (aggregate_objective g rho k Hwf Hrho Hlt ows iws res (coarse_of_refined lu rho k)).
    apply objective_ext. intros x Hx. rewrite lab_map by (rewrite Hrho; exact Hx).
    exact (coarse_of_refined_member x Hx).
  Qed.
End RefinedAggregation.

Lemma unique_inverse_used rf C :
  rf <> [] -> (C < n_labels (unique_inverse rf))%nat -> In C (unique_inverse rf).
Proof.
  intros Hne HC. destruct (unique_inverse_onto rf C Hne HC) as [x [Hx Ex]]. rewrite <- Ex.
  apply lab_In. rewrite unique_inverse_length. exact Hx.
Qed.

Lemma unique_inverse_refines n rf lu :
  length rf = n -> refines n rf lu -> refines n (unique_inverse rf) lu.
Proof.
  intros Hl Href x y Hx Hy E. apply Href; auto. apply Nat.eqb_eq.
  rewrite <- (unique_inverse_pattern rf x y) by (rewrite Hl; assumption). apply Nat.eqb_eq. exact E.
Qed.

(** What Leiden.fit does with the answer of ANY oracle meeting [refine_contract], at any level:
    [labels_refined = np.unique(refine ...)[1]], then _aggregate_refine. The coded label step returns
    [coarse_of_refined] (the value used by [leiden_loop]); it has one entry per aggregated node; the entry of
    the aggregated node [rho y] is the coarse label of y for EVERY member y; hence composing any membership
    with [labels_refined] and then with these labels gives the coarse labels of the level. *)
Theorem leiden_aggregate_refine_labels_ok refine count g labels :
  refine_contract refine -> wf_wgraph g -> length labels = length g -> (0 < length g)%nat ->
  let rho := unique_inverse (refine count g labels) in
  let k := n_labels rho in
  let labels' := coarse_of_refined labels rho k in
  aggregate_refine_labels (map Z.of_nat labels) (map Z.of_nat rho) = Ok (k, n_labels labels, labels') /\
  length labels' = k /\
  (forall y, (y < length g)%nat -> (lab rho y < k)%nat /\ lab labels' (lab rho y) = lab labels y) /\
  (forall membership, (forall c, In c membership -> (c < length g)%nat) ->
     map (nthn labels') (map (fun c => nthn rho c) membership) = map (fun c => nthn labels c) membership).
Proof.
  intros Hc Hwf Hlen Hpos rho k labels'.
  destruct (Hc count g labels Hwf Hlen) as [Rl [Rref _]].
  set (rf := refine count g labels) in *.
  assert (Hrf_ne : rf <> []) by (intros E; rewrite E in Rl; simpl in Rl; lia).
  assert (Hrho : length rho = length g) by (unfold rho; rewrite unique_inverse_length; exact Rl).
  assert (Href : refines (length g) rho labels) by (apply unique_inverse_refines; assumption).
  assert (Honto : forall C, (C < k)%nat -> In C rho) by (intros C HC; apply unique_inverse_used; assumption).
  split; [|split; [|split]].
  - apply coarse_of_refined_is_coded.
    + intros E; rewrite E in Hlen; simpl in Hlen; lia.
    + congruence.
    + rewrite Hlen. exact Href.
    + exact Honto.
  - apply (coarse_of_refined_length labels rho).
  - intros y Hy. split; [apply lab_lt_n_labels; lia|].
    exact (coarse_of_refined_member g labels rho Hlen Hrho Href Honto y Hy).
  - intros membership Hm. exact (coarse_partition_preserved g labels rho Hlen Hrho Href Honto membership Hm).
Qed.

(** Refinement does not change the objective of the coarse partition: the objective of the coarse labels
    of the aggregated nodes, on the graph aggregated by the REFINED labels, is the objective of the coarse
    labels on the graph that was aggregated. *)
Theorem leiden_aggregation_preserves_objective_pf refine count g labels ows iws res :
  refine_contract refine -> wf_wgraph g -> length labels = length g -> (0 < length g)%nat ->
  let rho := unique_inverse (refine count g labels) in
  let k := n_labels rho in
  objective (aggregate_graph g rho k) (cluster_sums k rho ows) (cluster_sums k rho iws) res
            (coarse_of_refined labels rho k)
  == objective g ows iws res labels.
Proof.
  intros Hc Hwf Hlen Hpos rho k.
  destruct (Hc count g labels Hwf Hlen) as [Rl [Rref _]].
  set (rf := refine count g labels) in *.
  assert (Hrf_ne : rf <> []) by (intros E; rewrite E in Rl; simpl in Rl; lia).
  assert (Hrho : length rho = length g) by (unfold rho; rewrite unique_inverse_length; exact Rl).
  assert (Href : refines (length g) rho labels) by (apply unique_inverse_refines; assumption).
  assert (Honto : forall C, (C < k)%nat -> In C rho) by (intros C HC; apply unique_inverse_used; assumption).
  exact (refined_aggregation_objective g labels rho Hlen Hrho Href Honto Hwf ows iws res).
Qed.

(* ------------------------------------------------------------------------------------------ *)
(** * C. The outer loop of Leiden.fit terminates (tol_optimization > 0, tol_aggregation > 0) *)

Section LeidenTermination.
  Context (g0 : wgraph) (ows0 iws0 : list Q) (res : Q).
  Let n0 := length g0.
  Let obj0 := objective g0 ows0 iws0 res.
  Context (refine : nat -> wgraph -> list nat -> list nat) (Hrefine : refine_contract refine).

  Lemma level_members_lt g ows iws membership :
    level_inv g0 ows0 iws0 res g ows iws membership ->
    forall c, In c membership -> (c < length g)%nat.
  Proof.
    intros [_ _ _ _ Hml Hmlt _ _] c Hc. apply (In_nth _ _ 0%nat) in Hc. destruct Hc as [u [Hu <-]].
    apply (Hmlt u). rewrite <- Hml. exact Hu.
  Qed.

  (** One iteration of the [while not stop] loop, from the answer of _optimize to the arguments of the
      next iteration. *)
  Lemma leiden_step kfuel tol_opt g ows iws labels membership count mg st inc :
    level_inv g0 ows0 iws0 res g ows iws membership ->
    length labels = length g -> (0 < length g)%nat ->
    optimize kfuel g ows iws res tol_opt labels (cluster_sums (n_labels labels) labels ows)
             (cluster_sums (n_labels labels) labels iws) mg = Some (st, inc) ->
    let lu := unique_inverse (k_labels st) in
    let rho := unique_inverse (refine (S count) g lu) in
    let k := n_labels rho in
    let labels' := coarse_of_refined lu rho k in
    let membership' := map (fun c => nthn rho c) membership in
    0 <= inc /\
    inc == obj0 (map (fun c => nthn lu c) membership) - obj0 (map (nthn labels) membership) /\
    level_inv g0 ows0 iws0 res (aggregate_graph g rho k) (cluster_sums k rho ows) (cluster_sums k rho iws)
              membership' /\
    length labels' = length (aggregate_graph g rho k) /\
    (0 < length (aggregate_graph g rho k))%nat /\
    map (nthn labels') membership' = map (fun c => nthn lu c) membership.
  Proof.
    intros Hlv Hll Hpos Eopt lu rho k labels' membership'.
    pose proof Hlv as [Hwf Hsym Ho Hi Hml Hmlt Hobj Hconn].
    set (k0 := n_labels labels) in *.
    destruct (optimize_ok kfuel g ows iws res tol_opt labels (cluster_sums k0 labels ows)
                (cluster_sums k0 labels iws) mg st inc Hwf Hsym Hll)
      as [Kl [Klt [Kinc [Kpos _]]]]; auto.
    { rewrite !cluster_sums_length. reflexivity. }
    { intros x Hx. rewrite cluster_sums_length. apply lab_lt_n_labels. lia. }
    { intros c Hc. rewrite cluster_sums_length in Hc. apply (cluster_sums_nth g labels k0 Hll ows c Hc). }
    { intros c Hc. rewrite cluster_sums_length in Hc. apply (cluster_sums_nth g labels k0 Hll iws c Hc). }
    assert (Hlu : length lu = length g) by (unfold lu; rewrite unique_inverse_length; exact Kl).
    assert (Hpat : forall x y, (x < length g)%nat -> (y < length g)%nat ->
               Nat.eqb (lab lu x) (lab lu y) = Nat.eqb (lab (k_labels st) x) (lab (k_labels st) y)).
    { intros x y Hx Hy. apply unique_inverse_pattern; rewrite Kl; assumption. }
    destruct (Hrefine (S count) g lu Hwf Hlu) as [Rl [Rref Rcc]].
    set (rf := refine (S count) g lu) in *.
    assert (Hrf_ne : rf <> []) by (intros E; rewrite E in Rl; simpl in Rl; lia).
    assert (Hrho : length rho = length g) by (unfold rho; rewrite unique_inverse_length; exact Rl).
    assert (Hpat2 : forall x y, (x < length g)%nat -> (y < length g)%nat ->
               Nat.eqb (lab rho x) (lab rho y) = Nat.eqb (lab rf x) (lab rf y)).
    { intros x y Hx Hy. apply unique_inverse_pattern; rewrite Rl; assumption. }
    assert (Hccrho : cc_inv g rho) by (apply (cc_inv_pattern g rf); assumption).
    assert (Hrefrho : refines (length g) rho lu) by (apply unique_inverse_refines; assumption).
    assert (Honto : forall C, (C < k)%nat -> In C rho) by (intros C HC; apply unique_inverse_used; assumption).
    split; [exact Kpos|]. split.
    { rewrite Kinc. rewrite <- (objective_pattern g ows iws res (k_labels st) lu Hpat).
      rewrite (Hobj lu), (Hobj labels). reflexivity. }
    split.
    { exact (level_step g0 ows0 iws0 res g ows iws membership rho Hlv Hrho Hccrho). }
    split.
    { unfold labels', k. rewrite (coarse_of_refined_length lu rho), agg_length. reflexivity. }
    split.
    { rewrite agg_length. unfold k, n_labels. lia. }
    exact (coarse_partition_preserved g lu rho Hlu Hrho Hrefrho Honto membership
             (level_members_lt g ows iws membership Hlv)).
  Qed.

  Context (tol_opt tol_agg B : Q) (n_agg : Z) (kfuel : nat).
  Context (Htol : 0 < tol_opt) (HB : forall l, obj0 l <= B).
  Context (Hk : B - obj0 (seq 0 n0) < tol_opt * inject_Z (Z.of_nat kfuel)).

  (** (tol_aggregation > 0 is what makes a [fuel] meeting the gap hypothesis exist.)
      Every continuing iteration has increase > tol_aggregation > 0 and the increase is the gain of the
      objective of the coarse partition read on the original nodes, which is bounded by B. *)
  Lemma leiden_loop_terminates : forall fuel g ows iws labels membership count log mg,
    level_inv g0 ows0 iws0 res g ows iws membership ->
    length labels = length g -> (0 < length g)%nat ->
    obj0 (seq 0 n0) <= obj0 (map (nthn labels) membership) ->
    B - obj0 (map (nthn labels) membership) < tol_agg * inject_Z (Z.of_nat fuel) ->
    exists r, leiden_loop fuel kfuel res tol_opt tol_agg n_agg refine g ows iws labels membership count log mg
              = MOk r.
  Proof.
    induction fuel as [|f IH]; intros g ows iws labels membership count log mg Hlv Hll Hpos Hmono Hgap.
    - exfalso. pose proof (HB (map (nthn labels) membership)) as H.
      change (inject_Z (Z.of_nat 0)) with 0 in Hgap. lra.
    - cbn [leiden_loop].
      pose proof Hlv as [Hwf Hsym Ho Hi Hml Hmlt Hobj Hconn].
      set (k0 := n_labels labels).
      destruct (optimize_terminates_gap kfuel g ows iws res tol_opt B labels (cluster_sums k0 labels ows)
                  (cluster_sums k0 labels iws) mg Hwf Hsym Hll) as [st [inc Eopt]].
      { rewrite !cluster_sums_length. reflexivity. }
      { intros x Hx. rewrite cluster_sums_length. apply lab_lt_n_labels. lia. }
      { intros c Hc. rewrite cluster_sums_length in Hc. apply (cluster_sums_nth g labels k0 Hll ows c Hc). }
      { intros c Hc. rewrite cluster_sums_length in Hc. apply (cluster_sums_nth g labels k0 Hll iws c Hc). }
      { exact Htol. }
      { intros l. rewrite (Hobj l). apply HB. }
      { rewrite (Hobj labels). fold obj0. lra. }
      rewrite Eopt.
      pose proof (leiden_step kfuel tol_opt g ows iws labels membership count mg st inc Hlv Hll Hpos Eopt) as S.
      cbv zeta in S. destruct S as [Kpos [Hinc [Hnext [Hl' [Hp' Ecomp]]]]].
      set (lu := unique_inverse (k_labels st)) in *.
      set (rho := unique_inverse (refine (S count) g lu)) in *.
      destruct (Nat.eqb (n_labels rho) 1 || Qle_bool inc tol_agg || Z.eqb (Z.of_nat (S count)) n_agg) eqn:Estop.
      + eexists. reflexivity.
      + apply orb_false_iff in Estop. destruct Estop as [Estop _].
        apply orb_false_iff in Estop. destruct Estop as [_ Einc].
        assert (Hgt : tol_agg < inc).
        { destruct (Qlt_le_dec tol_agg inc) as [H|H]; [exact H|]. apply Qle_bool_iff in H. congruence. }
        rewrite Nat2Z.inj_succ, <- Z.add_1_r, inject_Z_plus in Hgap. change (inject_Z 1) with 1 in Hgap.
        apply IH.
        * exact Hnext.
        * exact Hl'.
        * exact Hp'.
        * rewrite Ecomp. lra.
        * rewrite Ecomp. lra.
  Qed.
End LeidenTermination.

(** The loop of Leiden.fit on a pre-processed input, B any upper bound of the objective, Q0 the objective
    of the singleton partition: kfuel >= ceil((B - Q0) / tol_optimization) + 1 passes per call of the kernel,
    fuel >= ceil((B - Q0) / tol_aggregation) + 1 aggregations. [n_aggregations] plays no role. *)
Lemma leiden_loop_fit_terminates refine fuel kfuel kind res tol_opt tol_agg n_agg m fb index p B :
  refine_contract refine ->
  pre_processing kind m fb index = MOk p ->
  0 < tol_opt -> 0 < tol_agg ->
  (forall l, objective (p_adj p) (p_out p) (p_in p) res l <= B) ->
  (pass_fuel B (objective (p_adj p) (p_out p) (p_in p) res (seq 0 (length (p_adj p)))) tol_opt <= kfuel)%nat ->
  (pass_fuel B (objective (p_adj p) (p_out p) (p_in p) res (seq 0 (length (p_adj p)))) tol_agg <= fuel)%nat ->
  exists r, leiden_loop fuel kfuel res tol_opt tol_agg n_agg refine (p_adj p) (p_out p) (p_in p)
                        (seq 0 (length (p_adj p))) (seq 0 (length (p_adj p))) 0 [] marg0 = MOk r.
Proof.
  intros Hc Hp Htol Hagg HB Hk Hf.
  destruct (prep_level kind m fb index p res Hp) as [Hlv Hlen].
  destruct (pre_processing_inv kind m fb index p Hp) as [ow [iw [Hnw _]]].
  pose proof (node_weights_pos kind _ ow iw Hnw) as Hpos. rewrite <- Hlen in Hpos.
  assert (E0 : objective (p_adj p) (p_out p) (p_in p) res
                 (map (nthn (seq 0 (length (p_adj p)))) (seq 0 (length (p_adj p))))
               == objective (p_adj p) (p_out p) (p_in p) res (seq 0 (length (p_adj p)))).
  { apply objective_ext. intros x Hx. rewrite lab_map by (rewrite seq_length; exact Hx).
    rewrite (lab_seq _ x Hx). change (nthn (seq 0 (length (p_adj p))) x) with (lab (seq 0 (length (p_adj p))) x).
    rewrite (lab_seq _ x Hx). reflexivity. }
  pose proof (pass_fuel_gap B _ tol_opt kfuel Htol Hk) as Gk.
  pose proof (pass_fuel_gap B _ tol_agg fuel Hagg Hf) as Gf.
  apply (leiden_loop_terminates (p_adj p) (p_out p) (p_in p) res refine Hc tol_opt tol_agg B n_agg kfuel
           Htol HB Gk); auto.
  - apply seq_length.
  - rewrite E0. apply Qle_refl.
  - rewrite E0. exact Gf.
Qed.

(** Fuel computable from the arguments of fit (the bound is [objective_bound], no hypothesis on signs). *)
Definition leiden_kfuel (kind : modkind) (res tol_opt : Q) (m : wmat) (fb : bool) (index : option (list nat)) : nat :=
  louvain_kfuel kind res tol_opt m fb index.
Definition leiden_fuel (kind : modkind) (res tol_agg : Q) (m : wmat) (fb : bool) (index : option (list nat)) : nat :=
  match pre_processing kind m fb index with
  | MOk p => pass_fuel (objective_bound (p_adj p) (p_out p) (p_in p) res)
                       (objective (p_adj p) (p_out p) (p_in p) res (seq 0 (length (p_adj p)))) tol_agg
  | MErr _ => 0%nat
  end.

Lemma leiden_loop_fit_terminates_abs refine fuel kfuel kind res tol_opt tol_agg n_agg m fb index p :
  refine_contract refine ->
  pre_processing kind m fb index = MOk p ->
  0 < tol_opt -> 0 < tol_agg ->
  (leiden_kfuel kind res tol_opt m fb index <= kfuel)%nat ->
  (leiden_fuel kind res tol_agg m fb index <= fuel)%nat ->
  exists r, leiden_loop fuel kfuel res tol_opt tol_agg n_agg refine (p_adj p) (p_out p) (p_in p)
                        (seq 0 (length (p_adj p))) (seq 0 (length (p_adj p))) 0 [] marg0 = MOk r.
Proof.
  intros Hc Hp Htol Hagg Hk Hf. unfold leiden_kfuel, louvain_kfuel in Hk. unfold leiden_fuel in Hf.
  rewrite Hp in Hk, Hf.
  apply (leiden_loop_fit_terminates refine fuel kfuel kind res tol_opt tol_agg n_agg m fb index p
           (objective_bound (p_adj p) (p_out p) (p_in p) res)); auto.
  intros l. apply objective_abs_bounded.
Qed.

(** Non-negative working adjacency and resolution >= 0 (every documented use): B = 1. *)
Lemma leiden_loop_fit_terminates_nonneg refine fuel kfuel kind res tol_opt tol_agg n_agg m fb index p :
  refine_contract refine ->
  pre_processing kind m fb index = MOk p ->
  let g1 := working_graph kind m fb index in
  (forall i j, (i < length g1)%nat -> (j < length g1)%nat -> 0 <= entry g1 i j) ->
  0 <= res ->
  0 < tol_opt -> 0 < tol_agg ->
  (pass_fuel 1 (objective (p_adj p) (p_out p) (p_in p) res (seq 0 (length (p_adj p)))) tol_opt <= kfuel)%nat ->
  (pass_fuel 1 (objective (p_adj p) (p_out p) (p_in p) res (seq 0 (length (p_adj p)))) tol_agg <= fuel)%nat ->
  exists r, leiden_loop fuel kfuel res tol_opt tol_agg n_agg refine (p_adj p) (p_out p) (p_in p)
                        (seq 0 (length (p_adj p))) (seq 0 (length (p_adj p))) 0 [] marg0 = MOk r.
Proof.
  intros Hc Hp g1 He Hres Htol Hagg Hk Hf.
  apply (leiden_loop_fit_terminates refine fuel kfuel kind res tol_opt tol_agg n_agg m fb index p 1); auto.
  intros l. exact (proj2 (prep_objective_bounded kind m fb index p res l Hp He Hres)).
Qed.

(** Leiden.fit never runs out of fuel, for every oracle meeting the contract. *)
Lemma leiden_fit_never_out_of_fuel_pf refine fuel kfuel kind res tol_opt tol_agg n_agg sort m fb index :
  refine_contract refine ->
  0 < tol_opt -> 0 < tol_agg ->
  (leiden_kfuel kind res tol_opt m fb index <= kfuel)%nat ->
  (leiden_fuel kind res tol_agg m fb index <= fuel)%nat ->
  leiden_fit fuel kfuel kind res tol_opt tol_agg n_agg sort refine m fb index <> MErr MOutOfFuel.
Proof.
  intros Hc Htol Hagg Hk Hf. unfold leiden_fit.
  destruct (Nat.eqb (nnz (w_rows m)) 0); [discriminate|].
  destruct (pre_processing kind m fb index) as [p|e] eqn:Hp.
  - destruct (leiden_loop_fit_terminates_abs refine fuel kfuel kind res tol_opt tol_agg n_agg m fb index p
                Hc Hp Htol Hagg Hk Hf) as [r Er].
    rewrite Er. discriminate.
  - rewrite (pre_processing_err kind m fb index e Hp). discriminate.
Qed.

(** leiden_increase_total (Props/C06.v) without the "model returns" hypothesis. *)
Lemma leiden_fit_core_unconditional refine fuel kfuel kind res tol_opt tol_agg n_agg m fb index p :
  refine_contract refine ->
  pre_processing kind m fb index = MOk p ->
  0 < tol_opt -> 0 < tol_agg ->
  (leiden_kfuel kind res tol_opt m fb index <= kfuel)%nat ->
  (leiden_fuel kind res tol_agg m fb index <= fuel)%nat ->
  exists r,
    leiden_loop fuel kfuel res tol_opt tol_agg n_agg refine (p_adj p) (p_out p) (p_in p)
                (seq 0 (length (p_adj p))) (seq 0 (length (p_adj p))) 0 [] marg0 = MOk r /\
    let obj := objective (p_adj p) (p_out p) (p_in p) res in
    let g1 := working_graph kind m fb index in
    obj (r_membership r) - obj (seq 0 (length (p_adj p))) == log_total (r_log r) /\
    0 <= log_total (r_log r) /\
    log_nonneg (r_log r) /\
    length (r_membership r) = length g1 /\
    (forall u v, (u < length g1)%nat -> (v < length g1)%nat ->
       lab (r_membership r) u = lab (r_membership r) v -> connected g1 u v).
Proof.
  intros Hc Hp Htol Hagg Hk Hf.
  destruct (leiden_loop_fit_terminates_abs refine fuel kfuel kind res tol_opt tol_agg n_agg m fb index p
              Hc Hp Htol Hagg Hk Hf) as [r Er].
  exists r. split; [exact Er|].
  exact (leiden_fit_core refine fuel kfuel kind res tol_opt tol_agg n_agg m fb index p r Hc Hp Er).
Qed.

(** ** n_aggregations >= 1: the test [count == n_aggregations] stops the loop, whatever tol_aggregation *)
Section LeidenNAgg.
  Context (g0 : wgraph) (ows0 iws0 : list Q) (res : Q).
  Let n0 := length g0.
  Let obj0 := objective g0 ows0 iws0 res.
  Context (refine : nat -> wgraph -> list nat -> list nat) (Hrefine : refine_contract refine).
  Context (tol_opt tol_agg B : Q) (n_agg : Z) (kfuel : nat).
  Context (Htol : 0 < tol_opt) (HB : forall l, obj0 l <= B).
  Context (Hk : B - obj0 (seq 0 n0) < tol_opt * inject_Z (Z.of_nat kfuel)).

  Lemma leiden_loop_terminates_n_agg : forall fuel g ows iws labels membership count log mg,
    level_inv g0 ows0 iws0 res g ows iws membership ->
    length labels = length g -> (0 < length g)%nat ->
    obj0 (seq 0 n0) <= obj0 (map (nthn labels) membership) ->
    (Z.of_nat count < n_agg)%Z -> (n_agg <= Z.of_nat count + Z.of_nat fuel)%Z ->
    exists r, leiden_loop fuel kfuel res tol_opt tol_agg n_agg refine g ows iws labels membership count log mg
              = MOk r.
  Proof.
    induction fuel as [|f IH]; intros g ows iws labels membership count log mg Hlv Hll Hpos Hmono Hc1 Hc2.
    - exfalso. simpl in Hc2. lia.
    - cbn [leiden_loop].
      pose proof Hlv as [Hwf Hsym Ho Hi Hml Hmlt Hobj Hconn].
      set (k0 := n_labels labels).
      destruct (optimize_terminates_gap kfuel g ows iws res tol_opt B labels (cluster_sums k0 labels ows)
                  (cluster_sums k0 labels iws) mg Hwf Hsym Hll) as [st [inc Eopt]].
      { rewrite !cluster_sums_length. reflexivity. }
      { intros x Hx. rewrite cluster_sums_length. apply lab_lt_n_labels. lia. }
      { intros c Hc. rewrite cluster_sums_length in Hc. apply (cluster_sums_nth g labels k0 Hll ows c Hc). }
      { intros c Hc. rewrite cluster_sums_length in Hc. apply (cluster_sums_nth g labels k0 Hll iws c Hc). }
      { exact Htol. }
      { intros l. rewrite (Hobj l). apply HB. }
      { rewrite (Hobj labels). fold obj0. lra. }
      rewrite Eopt.
      pose proof (leiden_step g0 ows0 iws0 res refine Hrefine kfuel tol_opt g ows iws labels membership count mg
                    st inc Hlv Hll Hpos Eopt) as S.
      cbv zeta in S. destruct S as [Kpos [Hinc [Hnext [Hl' [Hp' Ecomp]]]]].
      set (lu := unique_inverse (k_labels st)) in *.
      set (rho := unique_inverse (refine (S count) g lu)) in *.
      destruct (Nat.eqb (n_labels rho) 1 || Qle_bool inc tol_agg || Z.eqb (Z.of_nat (S count)) n_agg) eqn:Estop.
      + eexists. reflexivity.
      + apply orb_false_iff in Estop. destruct Estop as [_ Ecount]. apply Z.eqb_neq in Ecount.
        apply IH.
        * exact Hnext.
        * exact Hl'.
        * exact Hp'.
        * rewrite Ecomp. fold obj0 in Hinc. lra.
        * lia.
        * lia.
  Qed.
End LeidenNAgg.

Lemma leiden_loop_fit_terminates_n_agg refine fuel kfuel kind res tol_opt tol_agg n_agg m fb index p :
  refine_contract refine ->
  pre_processing kind m fb index = MOk p ->
  0 < tol_opt -> (1 <= n_agg)%Z ->
  (leiden_kfuel kind res tol_opt m fb index <= kfuel)%nat ->
  (Z.to_nat n_agg <= fuel)%nat ->
  exists r, leiden_loop fuel kfuel res tol_opt tol_agg n_agg refine (p_adj p) (p_out p) (p_in p)
                        (seq 0 (length (p_adj p))) (seq 0 (length (p_adj p))) 0 [] marg0 = MOk r.
Proof.
  intros Hc Hp Htol Hn Hk Hf. unfold leiden_kfuel, louvain_kfuel in Hk. rewrite Hp in Hk.
  destruct (prep_level kind m fb index p res Hp) as [Hlv Hlen].
  destruct (pre_processing_inv kind m fb index p Hp) as [ow [iw [Hnw _]]].
  pose proof (node_weights_pos kind _ ow iw Hnw) as Hpos. rewrite <- Hlen in Hpos.
  assert (E0 : objective (p_adj p) (p_out p) (p_in p) res
                 (map (nthn (seq 0 (length (p_adj p)))) (seq 0 (length (p_adj p))))
               == objective (p_adj p) (p_out p) (p_in p) res (seq 0 (length (p_adj p)))).
  { apply objective_ext. intros x Hx. rewrite lab_map by (rewrite seq_length; exact Hx).
    rewrite (lab_seq _ x Hx). change (nthn (seq 0 (length (p_adj p))) x) with (lab (seq 0 (length (p_adj p))) x).
    rewrite (lab_seq _ x Hx). reflexivity. }
  pose proof (pass_fuel_gap _ _ tol_opt kfuel Htol Hk) as Gk.
  apply (leiden_loop_terminates_n_agg (p_adj p) (p_out p) (p_in p) res refine Hc tol_opt tol_agg
           (objective_bound (p_adj p) (p_out p) (p_in p) res) n_agg kfuel Htol
           (fun l => proj2 (objective_abs_bounded (p_adj p) (p_out p) (p_in p) res l)) Gk); auto.
  - apply seq_length.
  - rewrite E0. apply Qle_refl.
  - simpl. lia.
  - simpl. lia.
Qed.

(** ** tol_aggregation = 0 in EXACT arithmetic
    A continuing aggregation strictly increases the objective of the coarse partition read on the original
    n nodes; the objective only depends on the equality pattern of the labels, so it takes at most n^n
    values: n^n + 1 aggregations suffice. (Exact-rational model only; the bound is astronomically large
    and only meant as a statement.) *)

Lemma distinct_sorted_length_le l : (length (distinct_sorted l) <= length l)%nat.
Proof.
  apply NoDup_incl_length; [apply distinct_sorted_NoDup|].
  intros x Hx. apply distinct_sorted_In. exact Hx.
Qed.

Lemma unique_inverse_lt_length l : Forall (fun c => (c < length l)%nat) (unique_inverse l).
Proof.
  apply Forall_forall. intros c Hc. unfold unique_inverse in Hc. apply in_map_iff in Hc.
  destruct Hc as [x [<- Hx]].
  assert (Hin : In x (distinct_sorted l)) by (apply distinct_sorted_In; exact Hx).
  pose proof (index_of_lt x _ Hin). pose proof (distinct_sorted_length_le l). lia.
Qed.

Lemma above_decr_any g ows iws res (L : list nat) x :
  x < objective g ows iws res L -> length L = length g ->
  (above g ows iws res (length g) (objective g ows iws res L) < above g ows iws res (length g) x)%nat.
Proof.
  intros Hlt Hlen. unfold above. set (y := objective g ows iws res L) in *.
  set (L' := unique_inverse L).
  assert (Ey : objective g ows iws res L' == y).
  { apply objective_pattern. intros a b Ha Hb. apply unique_inverse_pattern; rewrite Hlen; assumption. }
  apply (filter_length_lt _ _ _ (objective g ows iws res L')).
  - intros v Hv. apply Qltb_lt in Hv. apply Qltb_lt. lra.
  - apply in_map. rewrite <- Hlen, <- (unique_inverse_length L). apply all_labelings_In.
    fold L'. unfold L'. rewrite unique_inverse_length. apply unique_inverse_lt_length.
  - apply Qltb_lt. lra.
  - destruct (Qltb y (objective g ows iws res L')) eqn:E; [|reflexivity]. apply Qltb_lt in E. lra.
Qed.

Section LeidenExact.
  Context (g0 : wgraph) (ows0 iws0 : list Q) (res : Q).
  Let n0 := length g0.
  Let obj0 := objective g0 ows0 iws0 res.
  Context (refine : nat -> wgraph -> list nat -> list nat) (Hrefine : refine_contract refine).
  Context (tol_opt tol_agg B : Q) (n_agg : Z) (kfuel : nat).
  Context (Htol : 0 < tol_opt) (Hagg : 0 <= tol_agg) (HB : forall l, obj0 l <= B).
  Context (Hk : B - obj0 (seq 0 n0) < tol_opt * inject_Z (Z.of_nat kfuel)).

  Lemma leiden_loop_terminates_exact : forall fuel g ows iws labels membership count log mg,
    level_inv g0 ows0 iws0 res g ows iws membership ->
    length labels = length g -> (0 < length g)%nat ->
    obj0 (seq 0 n0) <= obj0 (map (nthn labels) membership) ->
    (above g0 ows0 iws0 res n0 (obj0 (map (nthn labels) membership)) < fuel)%nat ->
    exists r, leiden_loop fuel kfuel res tol_opt tol_agg n_agg refine g ows iws labels membership count log mg
              = MOk r.
  Proof.
    induction fuel as [|f IH]; intros g ows iws labels membership count log mg Hlv Hll Hpos Hmono Hf; [lia|].
    cbn [leiden_loop].
    pose proof Hlv as [Hwf Hsym Ho Hi Hml Hmlt Hobj Hconn].
    set (k0 := n_labels labels).
    destruct (optimize_terminates_gap kfuel g ows iws res tol_opt B labels (cluster_sums k0 labels ows)
                (cluster_sums k0 labels iws) mg Hwf Hsym Hll) as [st [inc Eopt]].
    { rewrite !cluster_sums_length. reflexivity. }
    { intros x Hx. rewrite cluster_sums_length. apply lab_lt_n_labels. lia. }
    { intros c Hc. rewrite cluster_sums_length in Hc. apply (cluster_sums_nth g labels k0 Hll ows c Hc). }
    { intros c Hc. rewrite cluster_sums_length in Hc. apply (cluster_sums_nth g labels k0 Hll iws c Hc). }
    { exact Htol. }
    { intros l. rewrite (Hobj l). apply HB. }
    { rewrite (Hobj labels). fold obj0. lra. }
    rewrite Eopt.
    pose proof (leiden_step g0 ows0 iws0 res refine Hrefine kfuel tol_opt g ows iws labels membership count mg
                  st inc Hlv Hll Hpos Eopt) as S.
    cbv zeta in S. destruct S as [Kpos [Hinc [Hnext [Hl' [Hp' Ecomp]]]]].
    set (lu := unique_inverse (k_labels st)) in *.
    set (rho := unique_inverse (refine (S count) g lu)) in *.
    destruct (Nat.eqb (n_labels rho) 1 || Qle_bool inc tol_agg || Z.eqb (Z.of_nat (S count)) n_agg) eqn:Estop.
    - eexists. reflexivity.
    - apply orb_false_iff in Estop. destruct Estop as [Estop _].
      apply orb_false_iff in Estop. destruct Estop as [_ Einc].
      assert (Hgt : tol_agg < inc).
      { destruct (Qlt_le_dec tol_agg inc) as [H|H]; [exact H|]. apply Qle_bool_iff in H. congruence. }
      fold obj0 in Hinc.
      apply IH.
      + exact Hnext.
      + exact Hl'.
      + exact Hp'.
      + rewrite Ecomp. lra.
      + rewrite Ecomp.
        assert (Hd : (above g0 ows0 iws0 res n0 (obj0 (map (fun c => nthn lu c) membership))
                      < above g0 ows0 iws0 res n0 (obj0 (map (nthn labels) membership)))%nat).
        { apply above_decr_any; [fold obj0; lra|]. rewrite map_length. exact Hml. }
        lia.
  Qed.
End LeidenExact.

(** tol_optimization > 0, tol_aggregation >= 0 (in particular 0). PARTIAL with respect to the property:
    exact-rational model only (in the float32 kernel an accepted "gain" can be rounding noise). *)
Lemma leiden_loop_fit_terminates_tol0_partial refine fuel kfuel kind res tol_opt tol_agg n_agg m fb index p :
  refine_contract refine ->
  pre_processing kind m fb index = MOk p ->
  0 < tol_opt -> 0 <= tol_agg ->
  (leiden_kfuel kind res tol_opt m fb index <= kfuel)%nat ->
  (S (length (p_adj p) ^ length (p_adj p)) <= fuel)%nat ->
  exists r, leiden_loop fuel kfuel res tol_opt tol_agg n_agg refine (p_adj p) (p_out p) (p_in p)
                        (seq 0 (length (p_adj p))) (seq 0 (length (p_adj p))) 0 [] marg0 = MOk r.
Proof.
  intros Hc Hp Htol Hagg Hk Hf. unfold leiden_kfuel, louvain_kfuel in Hk. rewrite Hp in Hk.
  destruct (prep_level kind m fb index p res Hp) as [Hlv Hlen].
  destruct (pre_processing_inv kind m fb index p Hp) as [ow [iw [Hnw _]]].
  pose proof (node_weights_pos kind _ ow iw Hnw) as Hpos. rewrite <- Hlen in Hpos.
  assert (E0 : objective (p_adj p) (p_out p) (p_in p) res
                 (map (nthn (seq 0 (length (p_adj p)))) (seq 0 (length (p_adj p))))
               == objective (p_adj p) (p_out p) (p_in p) res (seq 0 (length (p_adj p)))).
  { apply objective_ext. intros x Hx. rewrite lab_map by (rewrite seq_length; exact Hx).
    rewrite (lab_seq _ x Hx). change (nthn (seq 0 (length (p_adj p))) x) with (lab (seq 0 (length (p_adj p))) x).
    rewrite (lab_seq _ x Hx). reflexivity. }
  pose proof (pass_fuel_gap _ _ tol_opt kfuel Htol Hk) as Gk.
  apply (leiden_loop_terminates_exact (p_adj p) (p_out p) (p_in p) res refine Hc tol_opt tol_agg
           (objective_bound (p_adj p) (p_out p) (p_in p) res) n_agg kfuel Htol Hagg
           (fun l => proj2 (objective_abs_bounded (p_adj p) (p_out p) (p_in p) res l)) Gk); auto.
  - apply seq_length.
  - rewrite E0. apply Qle_refl.
  - pose proof (above_le (p_adj p) (p_out p) (p_in p) res (length (p_adj p))
                  (objective (p_adj p) (p_out p) (p_in p) res
                     (map (nthn (seq 0 (length (p_adj p)))) (seq 0 (length (p_adj p)))))). lia.
Qed.

(** Proofs about the interleaving semantics of [prange] loops (Model/Prange.v).

    Main results:
    - [independent_iterations_commute]: for independent iterations, every complete interleaving
      ends in the same memory as the sequential loop;
    - [independent_b_sound]: the boolean checker implies independence;
    - [seq_sched_complete]: the sequential schedule is a complete schedule;
    - [reduction_order_independent]: a pure sum reduction does not depend on iteration order;
    - [legacy_diteration_prange_refuted]: the legacy D-iteration sweep has two complete
      schedules with different results. *)
From SKN Require Import Base.Util Model.Prange.
From Coq Require Import Permutation.

(* ------------------------------------------------------------------------- *)
(** * Generic list facts: [nth_error] extensionality and [set_nth] *)

Lemma nth_error_ext {A} (l1 l2 : list A) :
  (forall j, nth_error l1 j = nth_error l2 j) -> l1 = l2.
Proof.
  revert l2; induction l1 as [|x l1 IH]; intros [|y l2] H.
  - reflexivity.
  - specialize (H 0); simpl in H; discriminate.
  - specialize (H 0); simpl in H; discriminate.
  - f_equal.
    + specialize (H 0); simpl in H; congruence.
    + apply IH. intros j. exact (H (S j)).
Qed.

Lemma set_nth_nil {A} (i : nat) (x : A) : set_nth [] i x = [].
Proof. unfold set_nth. destruct i; reflexivity. Qed.

Lemma set_nth_cons_0 {A} (a : A) (l : list A) (x : A) : set_nth (a :: l) 0 x = x :: l.
Proof. reflexivity. Qed.

Lemma set_nth_cons_S {A} (a : A) (l : list A) (i : nat) (x : A) :
  set_nth (a :: l) (S i) x = a :: set_nth l i x.
Proof. reflexivity. Qed.

Lemma nth_error_set_nth {A} (l : list A) (i j : nat) (x : A) :
  nth_error (set_nth l i x) j =
  if Nat.eqb j i
  then match nth_error l i with Some _ => Some x | None => None end
  else nth_error l j.
Proof.
  revert i j; induction l as [|a l IH]; intros i j.
  - rewrite set_nth_nil. destruct (Nat.eqb j i); destruct i, j; reflexivity.
  - destruct i as [|i].
    + rewrite set_nth_cons_0. destruct j as [|j]; reflexivity.
    + rewrite set_nth_cons_S. destruct j as [|j].
      * reflexivity.
      * simpl. apply IH.
Qed.

Lemma nth_error_set_nth_eq {A} (l : list A) (i : nat) (x y : A) :
  nth_error l i = Some y -> nth_error (set_nth l i x) i = Some x.
Proof.
  intros H. rewrite nth_error_set_nth, Nat.eqb_refl, H. reflexivity.
Qed.

Lemma nth_error_set_nth_neq {A} (l : list A) (i j : nat) (x : A) :
  j <> i -> nth_error (set_nth l i x) j = nth_error l j.
Proof.
  intros H. rewrite nth_error_set_nth.
  apply Nat.eqb_neq in H. rewrite H. reflexivity.
Qed.

Lemma set_nth_comm {A} (l : list A) (i j : nat) (x y : A) :
  i <> j -> set_nth (set_nth l i x) j y = set_nth (set_nth l j y) i x.
Proof.
  intros Hij. apply nth_error_ext. intros k.
  rewrite !nth_error_set_nth.
  destruct (Nat.eqb k j) eqn:Ekj; destruct (Nat.eqb k i) eqn:Eki.
  - apply Nat.eqb_eq in Ekj. apply Nat.eqb_eq in Eki. lia.
  - assert (Eji : Nat.eqb j i = false) by (apply Nat.eqb_neq; lia).
    rewrite Eji. reflexivity.
  - assert (Eij : Nat.eqb i j = false) by (apply Nat.eqb_neq; lia).
    rewrite Eij. reflexivity.
  - reflexivity.
Qed.

(* ------------------------------------------------------------------------- *)
(** * Memory updates *)

Lemma upd_length (m : mem) (c : nat) (v : Z) : length (upd m c v) = length m.
Proof. unfold upd. rewrite map_length, seq_length. reflexivity. Qed.

Lemma nthz_upd (m : mem) (c : nat) (v : Z) (i : nat) :
  i < length m -> nthz (upd m c v) i = if Nat.eqb i c then v else nthz m i.
Proof.
  intros Hi. unfold nthz at 1. unfold upd.
  set (f := fun i0 : nat => if Nat.eqb i0 c then v else nthz m i0).
  rewrite (nth_indep (map f (seq 0 (length m))) 0%Z (f 0)).
  - rewrite map_nth. rewrite seq_nth by exact Hi. reflexivity.
  - rewrite map_length, seq_length. exact Hi.
Qed.

Lemma nthz_upd_other (m : mem) (c : nat) (v : Z) (i : nat) :
  i <> c -> nthz (upd m c v) i = nthz m i.
Proof.
  intros Hic. destruct (Nat.lt_ge_cases i (length m)) as [Hlt|Hge].
  - rewrite nthz_upd by exact Hlt.
    apply Nat.eqb_neq in Hic. rewrite Hic. reflexivity.
  - unfold nthz. rewrite !nth_overflow; [reflexivity | exact Hge |].
    rewrite upd_length. exact Hge.
Qed.

Lemma upd_comm (m : mem) (c1 c2 : nat) (v1 v2 : Z) :
  c1 <> c2 -> upd (upd m c1 v1) c2 v2 = upd (upd m c2 v2) c1 v1.
Proof.
  intros Hc. unfold upd at 1 3. rewrite !upd_length.
  apply map_ext_in. intros i Hi. apply in_seq in Hi.
  rewrite !nthz_upd by lia.
  destruct (Nat.eqb i c2) eqn:E2; destruct (Nat.eqb i c1) eqn:E1; try reflexivity.
  apply Nat.eqb_eq in E1. apply Nat.eqb_eq in E2. lia.
Qed.

(* ------------------------------------------------------------------------- *)
(** * One scheduling step, and [run] as iterated steps *)

Definition exec1 (a : nat) (cfg : mem * list thread) : mem * list thread :=
  match nth_error (snd cfg) a with
  | None => cfg
  | Some t => (fst (step_thread (fst cfg) t),
               set_nth (snd cfg) a (snd (step_thread (fst cfg) t)))
  end.

Lemma run_cons (a : nat) (s : list nat) (m : mem) (ts : list thread) :
  run (a :: s) m ts = run s (fst (exec1 a (m, ts))) (snd (exec1 a (m, ts))).
Proof.
  unfold exec1. simpl. destruct (nth_error ts a) as [t|].
  - destruct (step_thread m t) as [m' t']. reflexivity.
  - reflexivity.
Qed.

(* ------------------------------------------------------------------------- *)
(** * Footprints, disjointness, and the independence invariant on thread lists *)

(** [disj p q]: no cell written by [p] is read or written by [q]. *)
Definition disj (p q : prog) : Prop :=
  forall c, In c (writes p) -> ~ In c (reads q) /\ ~ In c (writes q).

(** [sub p' p]: the footprint of [p'] is included in the footprint of [p]. *)
Definition sub (p' p : prog) : Prop :=
  forall c, (In c (reads p') -> In c (reads p)) /\ (In c (writes p') -> In c (writes p)).

Lemma sub_refl (p : prog) : sub p p.
Proof. intros c. split; intros H; exact H. Qed.

Lemma sub_cons (o : mop) (p : prog) : sub p (o :: p).
Proof.
  intros c. unfold reads, writes. simpl. split; intros H; apply in_or_app; right; exact H.
Qed.

Lemma disj_sub (p p' q q' : prog) : sub p' p -> sub q' q -> disj p q -> disj p' q'.
Proof.
  intros Hp Hq Hd c Hc.
  destruct (Hd c (proj2 (Hp c) Hc)) as [Hr Hw].
  split; intros H.
  - apply Hr. exact (proj1 (Hq c) H).
  - apply Hw. exact (proj2 (Hq c) H).
Qed.

Lemma step_thread_sub (m : mem) (t : thread) : sub (rest (snd (step_thread m t))) (rest t).
Proof.
  unfold step_thread. destruct t as [p r]. simpl.
  destruct p as [|[c|c f] p]; simpl.
  - apply sub_refl.
  - apply sub_cons.
  - apply sub_cons.
Qed.

(** Pairwise independence of the REMAINING programs of a list of thread states. *)
Definition indep_ts (ts : list thread) : Prop :=
  forall a b ta tb, nth_error ts a = Some ta -> nth_error ts b = Some tb -> a <> b ->
    disj (rest ta) (rest tb).

Lemma nth_error_init_threads (ps : list prog) (a : nat) :
  nth_error (init_threads ps) a =
  option_map (fun p => {| rest := p; regs := [] |}) (nth_error ps a).
Proof. unfold init_threads. apply nth_error_map. Qed.

Lemma nth_error_nth_default {A} (l : list A) (a : nat) (x d : A) :
  nth_error l a = Some x -> nth a l d = x /\ a < length l.
Proof.
  intros H. split.
  - apply nth_error_nth. exact H.
  - apply nth_error_Some. rewrite H. discriminate.
Qed.

Lemma independent_indep_ts (ps : list prog) : independent ps -> indep_ts (init_threads ps).
Proof.
  intros Hind a b ta tb Ha Hb Hab.
  rewrite nth_error_init_threads in Ha, Hb.
  destruct (nth_error ps a) as [pa|] eqn:Ea; [|discriminate].
  destruct (nth_error ps b) as [pb|] eqn:Eb; [|discriminate].
  simpl in Ha, Hb. inversion Ha; subst ta. inversion Hb; subst tb. simpl.
  destruct (nth_error_nth_default ps a pa [] Ea) as [Na La].
  destruct (nth_error_nth_default ps b pb [] Eb) as [Nb Lb].
  intros c Hc. specialize (Hind a b La Lb Hab c).
  rewrite Na, Nb in Hind. apply Hind. exact Hc.
Qed.

Lemma indep_ts_exec1 (a : nat) (m : mem) (ts : list thread) :
  indep_ts ts -> indep_ts (snd (exec1 a (m, ts))).
Proof.
  intros Hind. unfold exec1. simpl.
  destruct (nth_error ts a) as [ta|] eqn:Ea; simpl; [|exact Hind].
  intros x y tx ty Hx Hy Hxy.
  rewrite nth_error_set_nth in Hx, Hy. rewrite Ea in Hx, Hy.
  destruct (Nat.eqb x a) eqn:Exa; destruct (Nat.eqb y a) eqn:Eya.
  - apply Nat.eqb_eq in Exa. apply Nat.eqb_eq in Eya. lia.
  - apply Nat.eqb_eq in Exa. subst x. inversion Hx; subst tx.
    apply (disj_sub (rest ta) _ (rest ty) _).
    + apply step_thread_sub.
    + apply sub_refl.
    + exact (Hind a y ta ty Ea Hy Hxy).
  - apply Nat.eqb_eq in Eya. subst y. inversion Hy; subst ty.
    apply (disj_sub (rest tx) _ (rest ta) _).
    + apply sub_refl.
    + apply step_thread_sub.
    + exact (Hind x a tx ta Hx Ea Hxy).
  - exact (Hind x y tx ty Hx Hy Hxy).
Qed.

(* ------------------------------------------------------------------------- *)
(** * Commutation of steps of two threads with disjoint footprints *)

Lemma step_commute (m : mem) (ta tb : thread) :
  disj (rest ta) (rest tb) -> disj (rest tb) (rest ta) ->
  snd (step_thread (fst (step_thread m ta)) tb) = snd (step_thread m tb) /\
  snd (step_thread (fst (step_thread m tb)) ta) = snd (step_thread m ta) /\
  fst (step_thread (fst (step_thread m ta)) tb) = fst (step_thread (fst (step_thread m tb)) ta).
Proof.
  intros Hab Hba.
  destruct ta as [pa ra]. destruct tb as [pb rb]. simpl in Hab, Hba.
  unfold step_thread. simpl.
  destruct pa as [|[ca|ca fa] pa]; destruct pb as [|[cb|cb fb] pb]; simpl;
    try (split; [reflexivity | split; reflexivity]).
  - (* a reads ca, b writes cb *)
    assert (Hne : ca <> cb).
    { intros E. subst cb.
      destruct (Hba ca) as [Hr _].
      - unfold writes. simpl. left. reflexivity.
      - apply Hr. unfold reads. simpl. left. reflexivity. }
    split; [reflexivity | split; [|reflexivity]].
    rewrite nthz_upd_other by exact Hne. reflexivity.
  - (* a writes ca, b reads cb *)
    assert (Hne : cb <> ca).
    { intros E. subst cb.
      destruct (Hab ca) as [Hr _].
      - unfold writes. simpl. left. reflexivity.
      - apply Hr. unfold reads. simpl. left. reflexivity. }
    split; [|split; reflexivity].
    rewrite nthz_upd_other by exact Hne. reflexivity.
  - (* both write *)
    assert (Hne : ca <> cb).
    { intros E. subst cb.
      destruct (Hab ca) as [_ Hw].
      - unfold writes. simpl. left. reflexivity.
      - apply Hw. unfold writes. simpl. left. reflexivity. }
    split; [reflexivity | split; [reflexivity|]].
    apply upd_comm. exact Hne.
Qed.

Lemma exec1_comm (a b : nat) (m : mem) (ts : list thread) :
  indep_ts ts -> a <> b ->
  exec1 b (exec1 a (m, ts)) = exec1 a (exec1 b (m, ts)).
Proof.
  intros Hind Hab.
  destruct (nth_error ts a) as [ta|] eqn:Ea; destruct (nth_error ts b) as [tb|] eqn:Eb.
  - assert (E1 : exec1 a (m, ts) =
                 (fst (step_thread m ta), set_nth ts a (snd (step_thread m ta)))).
    { unfold exec1. simpl. rewrite Ea. reflexivity. }
    assert (E2 : exec1 b (m, ts) =
                 (fst (step_thread m tb), set_nth ts b (snd (step_thread m tb)))).
    { unfold exec1. simpl. rewrite Eb. reflexivity. }
    rewrite E1, E2. unfold exec1. simpl.
    rewrite (nth_error_set_nth_neq ts a b) by lia.
    rewrite (nth_error_set_nth_neq ts b a) by lia.
    rewrite Ea, Eb.
    destruct (step_commute m ta tb (Hind a b ta tb Ea Eb Hab)
                (Hind b a tb ta Eb Ea (fun E => Hab (eq_sym E)))) as [Sb [Sa Sm]].
    rewrite Sb, Sa, Sm. f_equal.
    apply set_nth_comm. exact Hab.
  - assert (E2 : exec1 b (m, ts) = (m, ts)).
    { unfold exec1. simpl. rewrite Eb. reflexivity. }
    rewrite E2.
    unfold exec1 at 2. simpl. rewrite Ea.
    unfold exec1 at 1. simpl.
    rewrite (nth_error_set_nth_neq ts a b) by lia. rewrite Eb.
    unfold exec1. simpl. rewrite Ea. reflexivity.
  - assert (E1 : exec1 a (m, ts) = (m, ts)).
    { unfold exec1. simpl. rewrite Ea. reflexivity. }
    rewrite E1.
    unfold exec1 at 3. simpl. rewrite Eb.
    unfold exec1 at 2. simpl.
    rewrite (nth_error_set_nth_neq ts b a) by lia. rewrite Ea.
    unfold exec1. simpl. rewrite Eb. reflexivity.
  - assert (E1 : exec1 a (m, ts) = (m, ts)).
    { unfold exec1. simpl. rewrite Ea. reflexivity. }
    assert (E2 : exec1 b (m, ts) = (m, ts)).
    { unfold exec1. simpl. rewrite Eb. reflexivity. }
    rewrite E1, E2, E1. reflexivity.
Qed.

(* ------------------------------------------------------------------------- *)
(** * [run] is invariant under permutation of the schedule (independent threads) *)

Lemma run_perm (s1 s2 : list nat) :
  Permutation s1 s2 ->
  forall (m : mem) (ts : list thread), indep_ts ts -> run s1 m ts = run s2 m ts.
Proof.
  intros HP. induction HP as [| x l l' HP IH | x y l | l l' l'' HP1 IH1 HP2 IH2];
    intros m ts Hind.
  - reflexivity.
  - rewrite !run_cons. apply IH.
    apply indep_ts_exec1. exact Hind.
  - destruct (Nat.eq_dec x y) as [E|NE].
    + subst y. reflexivity.
    + rewrite (run_cons y), (run_cons x (y :: l)).
      rewrite (run_cons x), (run_cons y).
      rewrite <- !surjective_pairing.
      rewrite (exec1_comm y x m ts Hind (fun E => NE (eq_sym E))).
      reflexivity.
  - rewrite (IH1 m ts Hind). apply IH2. exact Hind.
Qed.

(* ------------------------------------------------------------------------- *)
(** * T3: the sequential schedule is complete *)

Lemma count_occ_flat_repeat_notin (g : nat -> nat) (l : list nat) (a : nat) :
  ~ In a l -> count_occ Nat.eq_dec (flat_map (fun x => repeat x (g x)) l) a = 0.
Proof.
  induction l as [|x l IH]; intros Hn.
  - reflexivity.
  - simpl. rewrite count_occ_app. rewrite IH.
    + rewrite count_occ_repeat_neq; [reflexivity|].
      intros E. apply Hn. left. symmetry. exact E.
    + intros H. apply Hn. right. exact H.
Qed.

Lemma count_occ_flat_repeat_in (g : nat -> nat) (l : list nat) (a : nat) :
  NoDup l -> In a l -> count_occ Nat.eq_dec (flat_map (fun x => repeat x (g x)) l) a = g a.
Proof.
  intros Hnd. induction Hnd as [|x l Hx Hnd IH]; intros Hin.
  - destruct Hin.
  - simpl. rewrite count_occ_app. destruct Hin as [E|Hin].
    + subst x. rewrite count_occ_repeat_eq by reflexivity.
      rewrite count_occ_flat_repeat_notin by exact Hx. lia.
    + rewrite IH by exact Hin.
      rewrite count_occ_repeat_neq; [reflexivity|].
      intros E. subst x. apply Hx. exact Hin.
Qed.

Theorem seq_sched_complete (ps : list prog) : complete ps (seq_sched ps).
Proof.
  unfold complete, seq_sched. split.
  - intros a Ha. apply in_flat_map in Ha. destruct Ha as [x [Hx Hr]].
    apply repeat_spec in Hr. subst a. apply in_seq in Hx. lia.
  - intros a Ha.
    apply (count_occ_flat_repeat_in (fun x => length (nth x ps [])) (seq 0 (length ps)) a).
    + apply seq_NoDup.
    + apply in_seq. lia.
Qed.

(* ------------------------------------------------------------------------- *)
(** * T1: independent iterations commute *)

Lemma complete_perm (ps : list prog) (s1 s2 : list nat) :
  complete ps s1 -> complete ps s2 -> Permutation s1 s2.
Proof.
  intros [H1a H1b] [H2a H2b].
  apply (Permutation_count_occ Nat.eq_dec). intros a.
  destruct (Nat.lt_ge_cases a (length ps)) as [Hlt|Hge].
  - rewrite H1b, H2b by exact Hlt. reflexivity.
  - assert (N1 : ~ In a s1) by (intros H; apply H1a in H; lia).
    assert (N2 : ~ In a s2) by (intros H; apply H2a in H; lia).
    apply (count_occ_not_In Nat.eq_dec) in N1.
    apply (count_occ_not_In Nat.eq_dec) in N2.
    rewrite N1, N2. reflexivity.
Qed.

(** Strong form: the whole final configuration (memory AND thread states) is the same, and
    [in_range] is not needed ([upd] outside the memory is a no-op and reads outside return 0). *)
Theorem independent_iterations_commute_strong (ps : list prog) (m0 : mem) (sched : list nat) :
  independent ps -> complete ps sched ->
  run sched m0 (init_threads ps) = run (seq_sched ps) m0 (init_threads ps).
Proof.
  intros Hind Hc.
  apply run_perm.
  - apply (complete_perm ps); [exact Hc | apply seq_sched_complete].
  - apply independent_indep_ts. exact Hind.
Qed.

Theorem independent_iterations_commute (ps : list prog) (m0 : mem) (sched : list nat) :
  independent ps -> in_range ps (length m0) -> complete ps sched ->
  fst (run sched m0 (init_threads ps)) = fst (run (seq_sched ps) m0 (init_threads ps)).
Proof.
  intros Hind _ Hc.
  rewrite (independent_iterations_commute_strong ps m0 sched Hind Hc). reflexivity.
Qed.

(* ------------------------------------------------------------------------- *)
(** * T2: soundness of the boolean independence checker *)

Theorem independent_b_sound (ps : list prog) : independent_b ps = true -> independent ps.
Proof.
  unfold independent_b, independent.
  intros Hb a b Ha Hbl Hab c Hc.
  rewrite forallb_forall in Hb.
  assert (Ia : In a (seq 0 (length ps))) by (apply in_seq; lia).
  assert (Ib : In b (seq 0 (length ps))) by (apply in_seq; lia).
  specialize (Hb a Ia). rewrite forallb_forall in Hb. specialize (Hb b Ib).
  apply orb_true_iff in Hb. destruct Hb as [E|Hb].
  - apply Nat.eqb_eq in E. contradiction.
  - rewrite forallb_forall in Hb. specialize (Hb c Hc).
    apply andb_true_iff in Hb. destruct Hb as [Hr Hw].
    apply negb_true_iff in Hr. apply negb_true_iff in Hw.
    split; intros H; apply memn_In in H; congruence.
Qed.

(* ------------------------------------------------------------------------- *)
(** * T4: a pure sum reduction is order independent *)

Theorem reduction_order_independent (contrib : nat -> Z) (order1 order2 : list nat) :
  Permutation order1 order2 -> sumz (map contrib order1) = sumz (map contrib order2).
Proof.
  intros HP. induction HP as [| x l l' HP IH | x y l | l l' l'' HP1 IH1 HP2 IH2].
  - reflexivity.
  - unfold sumz in *. simpl. rewrite IH. reflexivity.
  - unfold sumz. simpl. lia.
  - rewrite IH1. exact IH2.
Qed.

(* ------------------------------------------------------------------------- *)
(** * T5: the legacy D-iteration sweep depends on the schedule *)

Theorem legacy_diteration_prange_refuted :
  exists s1 s2 m0,
    complete legacy_diteration_two_nodes s1 /\ complete legacy_diteration_two_nodes s2 /\
    fst (run s1 m0 (init_threads legacy_diteration_two_nodes)) <>
    fst (run s2 m0 (init_threads legacy_diteration_two_nodes)).
Proof.
  exists [0;0;0;0;1;1;1;1], [0;0;0;1;1;1;0;1], [3;4;0]%Z.
  split; [|split].
  - split.
    + intros a H. simpl in H. simpl. intuition lia.
    + intros a Ha. simpl in Ha. destruct a as [|[|a]]; [reflexivity | reflexivity | lia].
  - split.
    + intros a H. simpl in H. simpl. intuition lia.
    + intros a Ha. simpl in Ha. destruct a as [|[|a]]; [reflexivity | reflexivity | lia].
  - vm_compute. discriminate.
Qed.

(** The legacy sweep is (of course) rejected by the checker. *)
Lemma legacy_diteration_not_independent_b : independent_b legacy_diteration_two_nodes = false.
Proof. vm_compute. reflexivity. Qed.

Print Assumptions independent_iterations_commute.
Print Assumptions independent_iterations_commute_strong.
Print Assumptions independent_b_sound.
Print Assumptions seq_sched_complete.
Print Assumptions reduction_order_independent.
Print Assumptions legacy_diteration_prange_refuted.

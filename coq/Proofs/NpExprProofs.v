(** Link between the terms regenerated from sknetwork/gnn/activation.py and loss.py (Gen/NpGnn.v, language and
    semantics of Model/NpExpr.v) and the closed forms of Model/Gnn.v, over R, for ALL input arrays.
    Each lemma evaluates the generated term symbolically ([denote] on a closed term with symbolic arrays) and
    identifies the resulting index function with the row-wise closed form that the calculus theorems of
    Proofs/GnnCalculus.v are about.  A change of the Python source changes the generated term and these proofs are
    re-checked against it. *)
From SKN Require Import Base.Util Model.Gnn Model.NpExpr Gen.NpGnn Proofs.GnnCalculus.
Set Warnings "-notation-overridden,-ambiguous-paths".
From Coq Require Import Reals Lra String.
From Coquelicot Require Import Coquelicot.
Local Open Scope R_scope.
Local Open Scope string_scope.

(* ------------------------------------------------------------------------------------------- *)
(** * Instance over R *)
Definition rlit (m e : Z) : R := IZR m * powerRZ 10 e.
Definition rdenote : env -> nexpr -> option (value R) :=
  denote Rplus Rminus Rmult Rdiv 0 1 exp ln Rltb INR rlit.
Definition rmat (M : list (list R)) (n k : nat) : value R := vmat 0 M n k.
Definition ent (M : list (list R)) (i j : nat) : R := nth j (nth i M nil) 0.
Definition rect (n k : nat) (M : list (list R)) : Prop :=
  List.length M = n /\ forall i, (i < n)%nat -> List.length (nth i M nil) = k.

Definition env_s (S : list (list R)) (n k : nat) : env := ("signal", rmat S n k) :: nil.
Definition env_sd (S D : list (list R)) (n k : nat) : env :=
  ("signal", rmat S n k) :: ("direction", rmat D n k) :: nil.
Definition env_sl (S : list (list R)) (labels : list nat) (n k : nat) : env :=
  ("signal", rmat S n k) :: ("labels", VL labels) :: nil.

Lemma rlit_0 : rlit 0 0 = 0. Proof. unfold rlit. cbn. lra. Qed.
Lemma rlit_1 : rlit 1 0 = 1. Proof. unfold rlit. cbn. lra. Qed.

Ltac np_eval :=
  unfold rdenote, env_s, env_sd, env_sl, rmat, vmat;
  repeat (cbn; rewrite ?Nat.eqb_refl, ?Nat.leb_refl).

(* ------------------------------------------------------------------------------------------- *)
(** * Lists and index functions *)
Lemma map_nth_seq {X} (l : list X) (d : X) : map (fun j => nth j l d) (seq 0 (List.length l)) = l.
Proof.
  induction l as [|a t IH]; [reflexivity|].
  cbn [List.length seq map nth]. f_equal.
  rewrite <- seq_shift, map_map. exact IH.
Qed.

Lemma sum_upto_ext (k : nat) (f g : nat -> R) :
  (forall j, (j < k)%nat -> f j = g j) -> sum_upto Rplus 0 k f = sum_upto Rplus 0 k g.
Proof.
  intros H. unfold sum_upto. f_equal. apply map_ext_in. intros j Hj. apply in_seq in Hj. apply H. lia.
Qed.

Lemma sum_upto_map (g : R -> R) (l : list R) :
  sum_upto Rplus 0 (List.length l) (fun j => g (nth j l 0)) = r_sum (map g l).
Proof.
  unfold sum_upto, r_sum. f_equal.
  rewrite <- (map_nth_seq l 0) at 2. rewrite map_map. reflexivity.
Qed.

Lemma map2_nth_seq {X Y Z} (g : X -> Y -> Z) (l1 : list X) (l2 : list Y) dx dy :
  List.length l2 = List.length l1 ->
  map2 g l1 l2 = map (fun j => g (nth j l1 dx) (nth j l2 dy)) (seq 0 (List.length l1)).
Proof.
  revert l2; induction l1 as [|a t IH]; intros [|b t2] H; cbn in H; try discriminate; [reflexivity|].
  cbn [map2 List.length seq map nth]. f_equal.
  rewrite <- seq_shift, map_map. apply IH. lia.
Qed.

Lemma sum_upto_map2 (g : R -> R -> R) (l1 l2 : list R) :
  List.length l2 = List.length l1 ->
  sum_upto Rplus 0 (List.length l1) (fun j => g (nth j l1 0) (nth j l2 0)) = r_sum (map2 g l1 l2).
Proof.
  intros H. unfold sum_upto, r_sum. f_equal. symmetry. apply map2_nth_seq. exact H.
Qed.

Lemma r_sum_neg (l : list R) : r_sum (map (fun x => 0 - x) l) = 0 - r_sum l.
Proof. unfold r_sum, g_sum. induction l as [|a t IH]; cbn; [lra|]. rewrite IH. lra. Qed.

Lemma rect_row n k M i : rect n k M -> (i < n)%nat -> List.length (nth i M nil) = k.
Proof. intros [_ H]. apply H. Qed.

Lemma softmax_row_nth (x : list R) (j : nat) :
  (j < List.length x)%nat ->
  nth j (r_softmax_row x) 0 =
  exp (nth j x 0) / sum_upto Rplus 0 (List.length x) (fun j' => exp (nth j' x 0)).
Proof.
  intros Hj. unfold r_softmax_row, g_softmax_row.
  rewrite (nth_map_R (fun a => a / _) (map exp x) j 0) by (rewrite map_length; exact Hj).
  rewrite (nth_map_R exp x j 0) by exact Hj.
  rewrite (sum_upto_map exp x). reflexivity.
Qed.

Lemma softmax_row_length (x : list R) : List.length (r_softmax_row x) = List.length x.
Proof. unfold r_softmax_row, g_softmax_row. rewrite !map_length. reflexivity. Qed.

(* ------------------------------------------------------------------------------------------- *)
(** * Activations *)
Lemma src_relu_output_denotes S n k :
  exists f, rdenote (env_s S n k) src_relu_output = Some (VM n k f) /\
            forall i j, f i j = r_relu (ent S i j).
Proof.
  eexists; split; [np_eval; reflexivity|]. intros i j; cbn beta. rewrite rlit_0. reflexivity.
Qed.

Lemma src_relu_gradient_denotes S D n k :
  exists f, rdenote (env_sd S D n k) src_relu_gradient = Some (VM n k f) /\
            forall i j, f i j = r_relu_gradient (ent S i j) (ent D i j).
Proof.
  eexists; split; [np_eval; reflexivity|]. intros i j; cbn beta. rewrite rlit_0. reflexivity.
Qed.

Lemma src_sigmoid_output_denotes S n k :
  exists f, rdenote (env_s S n k) src_sigmoid_output = Some (VM n k f) /\
            forall i j, f i j = r_sigmoid (ent S i j).
Proof. eexists; split; [np_eval; reflexivity|]. intros i j; reflexivity. Qed.

Lemma src_sigmoid_gradient_denotes S D n k :
  exists f, rdenote (env_sd S D n k) src_sigmoid_gradient = Some (VM n k f) /\
            forall i j, f i j = r_sigmoid_gradient (ent S i j) (ent D i j).
Proof.
  eexists; split; [np_eval; reflexivity|]. intros i j; cbn beta. rewrite rlit_1. reflexivity.
Qed.

Lemma src_softmax_output_denotes S n k :
  rect n k S ->
  exists f, rdenote (env_s S n k) src_softmax_output = Some (VM n k f) /\
            forall i j, (i < n)%nat -> (j < k)%nat -> f i j = nth j (r_softmax_row (nth i S nil)) 0.
Proof.
  intros HS. eexists; split; [np_eval; reflexivity|]. intros i j Hi Hj; cbn beta.
  pose proof (rect_row n k S i HS Hi) as Hl.
  rewrite softmax_row_nth by lia. rewrite Hl. reflexivity.
Qed.

Lemma src_softmax_gradient_denotes S D n k :
  rect n k S -> rect n k D ->
  exists f, rdenote (env_sd S D n k) src_softmax_gradient = Some (VM n k f) /\
            forall i j, (i < n)%nat -> (j < k)%nat ->
                        f i j = nth j (r_softmax_gradient (nth i S nil) (nth i D nil)) 0.
Proof.
  intros HS HD. eexists; split; [np_eval; reflexivity|]. intros i j Hi Hj; cbn beta.
  pose proof (rect_row n k S i HS Hi) as Hl. pose proof (rect_row n k D i HD Hi) as Hd.
  unfold r_softmax_gradient, g_softmax_gradient, g_softmax_gradient_o.
  fold (r_softmax_row (nth i S nil)).
  set (out := r_softmax_row (nth i S nil)).
  assert (Hlo : List.length out = k) by (unfold out; rewrite softmax_row_length; exact Hl).
  rewrite (nth_map2 (fun o d => o * (d - _)) out (nth i D nil) j 0 0 0) by lia.
  fold (r_sum (map2 Rmult out (nth i D nil))).
  rewrite <- (sum_upto_map2 Rmult out (nth i D nil)) by lia.
  rewrite Hlo.
  assert (Hout : forall j0, (j0 < k)%nat ->
            nth j0 out 0 = exp (nth j0 (nth i S nil) 0) /
                           sum_upto Rplus 0 k (fun j' => exp (nth j' (nth i S nil) 0))).
  { intros j0 H0. unfold out. rewrite softmax_row_nth by lia. rewrite Hl. reflexivity. }
  rewrite (Hout j Hj). f_equal. f_equal.
  apply sum_upto_ext. intros j0 H0. rewrite (Hout j0 H0). reflexivity.
Qed.

(* ------------------------------------------------------------------------------------------- *)
(** * Losses *)
Lemma sum_upto_map2_gen {X Y} (g : X -> Y -> R) (l1 : list X) (l2 : list Y) dx dy :
  List.length l2 = List.length l1 ->
  sum_upto Rplus 0 (List.length l1) (fun j => g (nth j l1 dx) (nth j l2 dy)) = r_sum (map2 g l1 l2).
Proof.
  intros H. unfold sum_upto, r_sum. f_equal. symmetry. apply map2_nth_seq. exact H.
Qed.

Lemma labels_below_nth k l i : labels_below k l = true -> (i < List.length l)%nat -> (nth i l 0%nat < k)%nat.
Proof.
  unfold labels_below. rewrite forallb_forall. intros H Hi.
  apply Nat.ltb_lt. apply H. apply nth_In. exact Hi.
Qed.

Lemma onehot_nth (o y j : nat) :
  (j < o)%nat -> nth j (g_onehot 0 1 o y) 0 = if Nat.eqb j y then 1 else 0.
Proof.
  intros Hj. unfold g_onehot.
  rewrite (nth_map_R (fun k => if Nat.eqb k y then 1 else 0) (seq 0 o) j 0%nat) by (rewrite seq_length; exact Hj).
  rewrite seq_nth by exact Hj. reflexivity.
Qed.

Lemma src_ce_loss_gradient_denotes S labels n k :
  rect n k S -> List.length labels = n -> labels_below k labels = true ->
  exists f, rdenote (env_sl S labels n k) src_ce_loss_gradient = Some (VM n k f) /\
            forall i j, (i < n)%nat -> (j < k)%nat ->
                        f i j = nth j (r_ce_gradient (nth i S nil) (nth i labels 0%nat)) 0.
Proof.
  intros HS Hlen Hbel. eexists; split.
  - np_eval. rewrite Hlen, Nat.leb_refl, Hbel. np_eval. reflexivity.
  - intros i j Hi Hj; cbn beta.
    pose proof (rect_row n k S i HS Hi) as Hl.
    unfold r_ce_gradient, g_ce_gradient, g_ce_gradient_o. fold (r_softmax_row (nth i S nil)).
    rewrite (nth_map2 Rminus _ _ j 0 0 0)
      by (rewrite ?softmax_row_length; unfold g_onehot; rewrite ?map_length, ?seq_length, ?softmax_row_length; lia).
    rewrite softmax_row_length, Hl. rewrite onehot_nth by exact Hj.
    rewrite softmax_row_nth by lia. rewrite Hl.
    destruct n as [|m]; [lia|]. replace (i <=? m)%nat with true by (symmetry; apply Nat.leb_le; lia). reflexivity.
Qed.

Lemma neg_sum_upto n (f : nat -> R) :
  0 - sum_upto Rplus 0 n f = sum_upto Rplus 0 n (fun i => 0 - f i).
Proof.
  unfold sum_upto. rewrite <- (map_map f (fun x => 0 - x)). symmetry. apply r_sum_neg.
Qed.

Lemma src_ce_loss_denotes S labels n k :
  rect n k S -> List.length labels = n -> labels_below k labels = true ->
  rdenote (env_sl S labels n k) src_ce_loss = Some (VS (r_mean_loss (r_ce_loss_row (rlit 1 (-10))) S labels)).
Proof.
  intros HS Hlen Hbel.
  np_eval. rewrite Hlen, Nat.leb_refl, Hbel. np_eval. do 2 f_equal.
  unfold r_mean_loss, g_mean_loss. rewrite Hlen. f_equal.
  destruct HS as [HSn HSr].
  rewrite neg_sum_upto. unfold sum_upto.
  rewrite (map2_nth_seq (r_ce_loss_row (rlit 1 (-10))) S labels nil 0%nat) by lia.
  rewrite HSn. f_equal. apply map_ext_in. intros i Hi. apply in_seq in Hi.
  unfold r_ce_loss_row, g_ce_loss_row, g_nth. fold (r_softmax_row (nth i S nil)).
  assert (Hy : (nth i labels 0%nat < k)%nat) by (apply labels_below_nth; [exact Hbel|lia]).
  rewrite softmax_row_nth by (rewrite HSr by lia; exact Hy). rewrite HSr by lia.
  rewrite rlit_1. reflexivity.
Qed.

(** BinaryCrossEntropy.loss_gradient, one output channel ([probs.shape[1] == 1]). *)
Lemma src_bce_loss_gradient_single_denotes S labels n :
  rect n 1 S -> List.length labels = n ->
  exists f, rdenote (env_sl S labels n 1) src_bce_loss_gradient = Some (VM n 1 f) /\
            forall i, (i < n)%nat ->
                      f i 0%nat = nth 0 (r_bce_gradient (nth i S nil) (nth i labels 0%nat)) 0.
Proof.
  intros HS Hlen. eexists; split.
  - np_eval. rewrite Hlen. np_eval. reflexivity.
  - intros i Hi. cbn beta.
    pose proof (rect_row n 1 S i HS Hi) as Hl.
    destruct (nth i S nil) as [|x [|b t]] eqn:E; cbn [List.length] in Hl; try discriminate.
    reflexivity.
Qed.

(** BinaryCrossEntropy.loss_gradient, several output channels. *)
Lemma src_bce_loss_gradient_multi_denotes S labels n k :
  rect n k S -> List.length labels = n -> labels_below k labels = true -> (2 <= k)%nat ->
  exists f, rdenote (env_sl S labels n k) src_bce_loss_gradient = Some (VM n k f) /\
            forall i j, (i < n)%nat -> (j < k)%nat ->
                        f i j = nth j (r_bce_gradient (nth i S nil) (nth i labels 0%nat)) 0.
Proof.
  intros HS Hlen Hbel Hk. eexists; split.
  - np_eval. replace (k =? 1)%nat with false by (symmetry; apply Nat.eqb_neq; lia). np_eval.
    rewrite Hlen, Nat.leb_refl, Hbel. np_eval. reflexivity.
  - intros i j Hi Hj. cbn beta.
    pose proof (rect_row n k S i HS Hi) as Hl.
    rewrite bce_gradient_multi_is_onehot by lia.
    unfold r_bce_gradient_onehot, g_ce_gradient_o. rewrite map_length.
    rewrite (nth_map2 Rminus _ _ j 0 0 0)
      by (unfold g_onehot; rewrite ?map_length, ?seq_length; lia).
    rewrite Hl, onehot_nth by exact Hj.
    rewrite (nth_map_R _ (nth i S nil) j 0) by lia.
    destruct n as [|m]; [lia|]. replace (i <=? m)%nat with true by (symmetry; apply Nat.leb_le; lia).
    reflexivity.
Qed.

Lemma split_sum (l : list nat) (c : nat -> bool) (a b : nat -> R) :
  0 - r_sum (map (fun i => if c i then a i else 0) l)
    - r_sum (map (fun i => if negb (c i) then b i else 0) l)
  = r_sum (map (fun i => if c i then 0 - a i else 0 - b i) l).
Proof.
  unfold r_sum, g_sum. induction l as [|x t IH]; cbn [map fold_right]; [lra|].
  rewrite <- IH. destruct (c x); cbn [negb]; lra.
Qed.

(** BinaryCrossEntropy.loss, one output channel. *)
Lemma src_bce_loss_single_denotes S labels n :
  rect n 1 S -> List.length labels = n ->
  rdenote (env_sl S labels n 1) src_bce_loss =
  Some (VS (r_mean_loss (r_bce_loss_row (rlit 1 (-15))) S labels)).
Proof.
  intros HS Hlen. np_eval. rewrite Hlen. np_eval. do 2 f_equal.
  unfold r_mean_loss, g_mean_loss. rewrite Hlen. f_equal.
  destruct HS as [HSn HSr].
  rewrite (map2_nth_seq (r_bce_loss_row (rlit 1 (-15))) S labels nil 0%nat) by lia.
  rewrite HSn. unfold sum_upto at 1 2.
  set (c := fun i : nat => (0 <? nth i labels 0%nat)%nat).
  set (p := fun i : nat => g_clip Rltb (rlit 1 (-15)) (rlit 1 0 - rlit 1 (-15))
                            (g_sigmoid Rplus Rminus Rdiv 0 1 exp (nth 0 (nth i S nil) 0))).
  rewrite (map_ext _ (fun i => if c i then ln (p i) + 0 else 0))
    by (intros i; unfold c, p; destruct (nth i labels 0%nat); reflexivity).
  rewrite (map_ext (fun i : nat => if (nth i labels 0 =? 0)%nat then _ else 0)
                   (fun i => if negb (c i) then ln (rlit 1 0 - p i) + 0 else 0))
    by (intros i; unfold c, p; destruct (nth i labels 0%nat); reflexivity).
  fold (r_sum (map (fun i => if c i then ln (p i) + 0 else 0) (seq 0 n))).
  fold (r_sum (map (fun i => if negb (c i) then ln (rlit 1 0 - p i) + 0 else 0) (seq 0 n))).
  rewrite split_sum. unfold r_sum. f_equal. apply map_ext_in. intros i Hi. apply in_seq in Hi.
  unfold c, p. unfold r_bce_loss_row, g_bce_loss_row. cbv zeta.
  assert (Hl : List.length (nth i S nil) = 1%nat) by (apply HSr; lia).
  destruct (nth i S nil) as [|x [|b t]] eqn:E; cbn [List.length] in Hl; try discriminate.
  cbn [map nth]. rewrite rlit_1.
  destruct (0 <? nth i labels 0%nat)%nat; ring.
Qed.

(** BinaryCrossEntropy.loss, several output channels. *)
Lemma src_bce_loss_multi_denotes S labels n k :
  rect n k S -> List.length labels = n -> labels_below k labels = true -> (2 <= k)%nat ->
  rdenote (env_sl S labels n k) src_bce_loss =
  Some (VS (r_mean_loss (r_bce_loss_row (rlit 1 (-15))) S labels)).
Proof.
  intros HS Hlen Hbel Hk.
  np_eval. replace (k =? 1)%nat with false by (symmetry; apply Nat.eqb_neq; lia). np_eval.
  rewrite Hlen, Nat.leb_refl, Hbel. np_eval. do 2 f_equal.
  unfold r_mean_loss, g_mean_loss. rewrite Hlen. f_equal.
  destruct HS as [HSn HSr].
  rewrite (map2_nth_seq (r_bce_loss_row (rlit 1 (-15))) S labels nil 0%nat) by lia.
  rewrite HSn. unfold sum_upto at 1. f_equal. apply map_ext_in. intros i Hi. apply in_seq in Hi.
  assert (Hl : List.length (nth i S nil) = k) by (apply HSr; lia).
  rewrite bce_multi_loss_shape by lia. rewrite Hl. unfold sum_upto, r_sum. f_equal.
  apply map_ext_in. intros j Hj. apply in_seq in Hj.
  destruct n as [|m]; [lia|]. replace (i <=? m)%nat with true by (symmetry; apply Nat.leb_le; lia).
  cbn [andb].
  rewrite (nth_map_R (fun x => r_clip (rlit 1 (-15)) (1 - rlit 1 (-15)) (r_sigmoid x)) (nth i S nil) j 0) by lia.
  rewrite rlit_1.
  destruct (j =? nth i labels 0)%nat eqn:Ej; [apply Nat.eqb_eq in Ej; subst j|]; reflexivity.
Qed.

(* ------------------------------------------------------------------------------------------- *)
(** * Composition with the calculus theorems: statements about the SOURCE terms *)
Lemma rect_upd n k S i row : rect n k S -> List.length row = k -> rect n k (upd S i row).
Proof.
  intros [Hn Hr] Hrow. split; [rewrite upd_length; exact Hn|].
  intros i' Hi'. destruct (Nat.lt_ge_cases i (List.length S)) as [Hi|Hi].
  - rewrite nth_upd by exact Hi. destruct (Nat.eqb i' i); [exact Hrow | apply Hr; exact Hi'].
  - assert (E : upd S i row = S).
    { clear -Hi. revert i Hi; induction S as [|a t IH]; intros [|i] Hi; cbn in *; try reflexivity; try lia.
      rewrite IH by lia. reflexivity. }
    rewrite E. apply Hr. exact Hi'.
Qed.

Theorem source_relu_gradient_is_derivative S D n k i j :
  ent S i j <> 0 ->
  exists fo fg,
    rdenote (env_s S n k) src_relu_output = Some (VM n k fo) /\
    rdenote (env_sd S D n k) src_relu_gradient = Some (VM n k fg) /\
    fo i j = r_relu (ent S i j) /\
    is_derive (fun t => r_relu t * ent D i j) (ent S i j) (fg i j).
Proof.
  intros Hx. destruct (src_relu_output_denotes S n k) as [fo [Ho Hfo]].
  destruct (src_relu_gradient_denotes S D n k) as [fg [Hg Hfg]].
  exists fo, fg. split; [exact Ho|]. split; [exact Hg|]. split; [apply Hfo|]. rewrite Hfg. apply relu_grad. exact Hx.
Qed.

Theorem source_sigmoid_gradient_is_derivative S D n k i j :
  exists fo fg,
    rdenote (env_s S n k) src_sigmoid_output = Some (VM n k fo) /\
    rdenote (env_sd S D n k) src_sigmoid_gradient = Some (VM n k fg) /\
    fo i j = r_sigmoid (ent S i j) /\
    is_derive (fun t => r_sigmoid t * ent D i j) (ent S i j) (fg i j).
Proof.
  destruct (src_sigmoid_output_denotes S n k) as [fo [Ho Hfo]].
  destruct (src_sigmoid_gradient_denotes S D n k) as [fg [Hg Hfg]].
  exists fo, fg. split; [exact Ho|]. split; [exact Hg|]. split; [apply Hfo|]. rewrite Hfg. apply sigmoid_grad.
Qed.

Theorem source_softmax_output_rows S n k :
  rect n k S -> (0 < k)%nat ->
  exists fo, rdenote (env_s S n k) src_softmax_output = Some (VM n k fo) /\
    forall i, (i < n)%nat ->
      (forall j, (j < k)%nat -> fo i j = nth j (r_softmax_row (nth i S nil)) 0) /\
      r_sum (r_softmax_row (nth i S nil)) = 1.
Proof.
  intros HS Hk. destruct (src_softmax_output_denotes S n k HS) as [fo [Ho Hfo]].
  exists fo. split; [exact Ho|]. intros i Hi. split; [intros j Hj; apply Hfo; assumption|].
  apply softmax_rows_sum_1. pose proof (rect_row n k S i HS Hi) as Hl.
  destruct (nth i S nil); cbn in Hl; [lia | discriminate].
Qed.

Theorem source_softmax_gradient_is_jvp S D n k i j :
  rect n k S -> rect n k D -> (i < n)%nat -> (j < k)%nat ->
  exists fg, rdenote (env_sd S D n k) src_softmax_gradient = Some (VM n k fg) /\
    is_derive (fun t => r_dot (r_softmax_row (upd (nth i S nil) j t)) (nth i D nil)) (ent S i j) (fg i j).
Proof.
  intros HS HD Hi Hj. destruct (src_softmax_gradient_denotes S D n k HS HD) as [fg [Hg Hfg]].
  exists fg. split; [exact Hg|]. rewrite Hfg by assumption.
  pose proof (rect_row n k S i HS Hi) as Hl. pose proof (rect_row n k D i HD Hi) as Hd.
  apply softmax_jvp; lia.
Qed.

Theorem source_ce_loss_gradient_is_derivative S labels n k i j :
  rect n k S -> List.length labels = n -> labels_below k labels = true -> (i < n)%nat -> (j < k)%nat ->
  rlit 1 (-10) < nth (nth i labels 0%nat) (r_softmax_row (nth i S nil)) 0 < 1 - rlit 1 (-10) ->
  exists g L,
    rdenote (env_sl S labels n k) src_ce_loss_gradient = Some (VM n k g) /\
    (forall t, rdenote (env_sl (upd S i (upd (nth i S nil) j t)) labels n k) src_ce_loss = Some (VS (L t))) /\
    is_derive L (ent S i j) (g i j / INR n).
Proof.
  intros HS Hlen Hbel Hi Hj Heps.
  destruct (src_ce_loss_gradient_denotes S labels n k HS Hlen Hbel) as [g [Hg Hfg]].
  exists g, (fun t => r_mean_loss (r_ce_loss_row (rlit 1 (-10))) (upd S i (upd (nth i S nil) j t)) labels).
  pose proof (rect_row n k S i HS Hi) as Hl. destruct HS as [HSn HSr].
  split; [exact Hg|]. split.
  - intros t. apply src_ce_loss_denotes; try assumption.
    apply rect_upd; [split; assumption | rewrite upd_length; exact Hl].
  - rewrite Hfg by assumption. rewrite <- Hlen.
    apply ce_grad; try lia.
    + rewrite Hl. apply labels_below_nth; [exact Hbel | lia].
    + exact Heps.
Qed.

Theorem source_bce_loss_gradient_single_is_derivative S labels n i x :
  rect n 1 S -> List.length labels = n -> (i < n)%nat -> nth i S nil = (x :: nil) ->
  (nth i labels 0 = 0 \/ nth i labels 0 = 1)%nat ->
  rlit 1 (-15) < r_sigmoid x < 1 - rlit 1 (-15) ->
  exists g L,
    rdenote (env_sl S labels n 1) src_bce_loss_gradient = Some (VM n 1 g) /\
    (forall t, rdenote (env_sl (upd S i (t :: nil)) labels n 1) src_bce_loss = Some (VS (L t))) /\
    is_derive L x (g i 0%nat / INR n).
Proof.
  intros HS Hlen Hi Hrow Hy Heps.
  destruct (src_bce_loss_gradient_single_denotes S labels n HS Hlen) as [g [Hg Hfg]].
  exists g, (fun t => r_mean_loss (r_bce_loss_row (rlit 1 (-15))) (upd S i (t :: nil)) labels).
  split; [exact Hg|]. split.
  - intros t. apply src_bce_loss_single_denotes; [|exact Hlen]. apply rect_upd; [exact HS | reflexivity].
  - rewrite Hfg by exact Hi. rewrite <- Hlen. destruct HS as [HSn HSr].
    apply bce_grad_single; try assumption; lia.
Qed.

Theorem source_bce_loss_gradient_multi_is_derivative S labels n k i j :
  rect n k S -> List.length labels = n -> labels_below k labels = true -> (2 <= k)%nat ->
  (i < n)%nat -> (j < k)%nat ->
  rlit 1 (-15) < r_sigmoid (ent S i j) < 1 - rlit 1 (-15) ->
  exists g L,
    rdenote (env_sl S labels n k) src_bce_loss_gradient = Some (VM n k g) /\
    (forall t, rdenote (env_sl (upd S i (upd (nth i S nil) j t)) labels n k) src_bce_loss = Some (VS (L t))) /\
    is_derive L (ent S i j) (g i j / INR n).
Proof.
  intros HS Hlen Hbel Hk Hi Hj Heps.
  destruct (src_bce_loss_gradient_multi_denotes S labels n k HS Hlen Hbel Hk) as [g [Hg Hfg]].
  exists g, (fun t => r_mean_loss (r_bce_loss_row (rlit 1 (-15))) (upd S i (upd (nth i S nil) j t)) labels).
  pose proof (rect_row n k S i HS Hi) as Hl.
  split; [exact Hg|]. split.
  - intros t. apply src_bce_loss_multi_denotes; try assumption.
    apply rect_upd; [exact HS | rewrite upd_length; exact Hl].
  - rewrite Hfg by assumption. rewrite <- Hlen. destruct HS as [HSn HSr].
    apply bce_grad_multi; try lia.
    + rewrite Hl. apply labels_below_nth; [exact Hbel | lia].
    + exact Heps.
Qed.

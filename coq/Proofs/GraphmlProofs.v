(** Proofs about the model of from_graphml (Model/Graphml.v): what is returned for every document the
    code accepts, in terms of the document itself. *)
From Coq Require Import String Ascii.
From Coq Require Import Lia QArith.
From SKN Require Import Base.Util Model.Graphml Proofs.GraphmlKeysProofs Proofs.GraphmlScanProofs.
Set Warnings "-notation-overridden".
Local Open Scope string_scope.
Local Open Scope list_scope.
Local Open Scope nat_scope.
Local Infix "==s" := String.eqb (at level 70).
Local Notation "x <- r ;; k" := (bind r (fun x => k)) (at level 61, r at next level, right associativity).

(** * Per-element processing, as functions of the element *)

Definition node_fn (dl : dialect) (naming : bool) (keys : list (string * (string * ptype)))
           (cols : option (list (string * acol))) (mss : nat) (node : xml) : result (string * list assign) :=
  name <- (if naming then get_attr "id" node else Ok "") ;;
  ups <- node_data dl keys cols mss (x_children node) ;;
  Ok (name, ups).

Definition edge_fn (dl : dialect) (naming : bool) (ids : list string) (n : nat) (sym : bool)
           (keys : list (string * (string * ptype))) (wid : option string) (wty : ptype)
           (cols : option (list (string * acol))) (mss : nat) (e : xml) : result (list slot) :=
  n1 <- endpoint naming ids n "source" e ;;
  n2 <- endpoint naming ids n "target" e ;;
  ups <- edge_data dl keys wid wty cols mss (x_children e) ;;
  Ok ((n1, n2, ups) :: (if edge_mirrored sym e then [(n2, n1, ups)] else [])).

Lemma process_node_fn dl g naming keys cols mss index :
  process_node dl g naming keys cols mss index = bind (graph_item g index) (node_fn dl naming keys cols mss).
Proof. reflexivity. Qed.

Lemma process_edge_fn dl g naming ids n sym keys wid wty cols mss index :
  process_edge dl g naming ids n sym keys wid wty cols mss index
  = bind (graph_item g index) (edge_fn dl naming ids n sym keys wid wty cols mss).
Proof. reflexivity. Qed.

(** * Data children *)

Lemma attr_assign_ok dl keys cols mss kid text a :
  attr_assign dl keys cols mss kid text = Ok a ->
  exists nm ty v, alookup kid keys = Some (nm, ty) /\ cast dl ty text = Ok v /\ a = AAttr nm (store mss v).
Proof.
  unfold attr_assign. destruct (alookup kid keys) as [[nm ty]|] eqn:K; [|discriminate].
  intros H. apply bind_ok in H as [v [Hc H]].
  destruct cols as [al|]; [|discriminate].
  destruct (alookup nm al) as [[ty' f]|]; [|discriminate].
  destruct (ptype_eqb ty' ty); [|discriminate].
  injection H as <-. exists nm, ty, v. auto.
Qed.

Definition attr_step (name : string) (acc : value) (a : assign) : value :=
  match a with AAttr n v => if n ==s name then v else acc | AWeight _ => acc end.

Lemma last_attr_cons name a ups fill : last_attr name (a :: ups) fill = last_attr name ups (attr_step name fill a).
Proof. reflexivity. Qed.

Lemma node_data_value dl keys cols mss name : forall cs ups fill,
  node_data dl keys cols mss cs = Ok ups ->
  last_attr name ups fill = data_value dl keys None mss name fill cs.
Proof.
  induction cs as [|c t IH]; intros ups fill H; simpl in H.
  - injection H as <-. reflexivity.
  - unfold data_value. simpl. fold (data_value dl keys None mss name).
    destruct (is_tag "data" c) eqn:D.
    + apply bind_ok in H as [kid [Hk H]]. apply bind_ok in H as [a [Ha H]]. apply bind_ok in H as [rest [Hr H]].
      injection H as <-. apply get_attr_ok in Hk as [Hk _]. rewrite Hk.
      apply attr_assign_ok in Ha as [nm [ty [v [K [Hc ->]]]]]. rewrite K.
      rewrite last_attr_cons. simpl. unfold cast_or. rewrite Hc.
      rewrite (IH _ _ Hr). unfold data_value. reflexivity.
    + rewrite (IH _ _ H). unfold data_value. reflexivity.
Qed.

Definition is_weight_ref (wid : option string) (kid : string) : bool :=
  match wid with Some w => kid ==s w | None => false end.

Lemma edge_data_value dl keys wid wty cols mss name : forall cs ups fill,
  edge_data dl keys wid wty cols mss cs = Ok ups ->
  last_attr name ups fill = data_value dl keys wid mss name fill cs.
Proof.
  induction cs as [|c t IH]; intros ups fill H; simpl in H.
  - injection H as <-. reflexivity.
  - unfold data_value. simpl. fold (data_value dl keys wid mss name).
    destruct (is_tag "data" c) eqn:D.
    + apply bind_ok in H as [kid [Hk H]]. apply bind_ok in H as [a [Ha H]]. apply bind_ok in H as [rest [Hr H]].
      injection H as <-. apply get_attr_ok in Hk as [Hk _]. rewrite Hk.
      destruct (match wid with Some w => kid ==s w | None => false end) eqn:W.
      * apply bind_ok in Ha as [v [Hc Ha]]. injection Ha as <-.
        rewrite last_attr_cons. simpl. rewrite (IH _ _ Hr). unfold data_value. reflexivity.
      * apply attr_assign_ok in Ha as [nm [ty [v [K [Hc ->]]]]]. rewrite K.
        rewrite last_attr_cons. simpl. unfold cast_or. rewrite Hc.
        rewrite (IH _ _ Hr). unfold data_value. reflexivity.
    + rewrite (IH _ _ H). unfold data_value. reflexivity.
Qed.

Definition weight_ref (wid : option string) (c : xml) : bool :=
  is_tag "data" c && match attr "key" c, wid with Some kid, Some w => kid ==s w | _, _ => false end.

Lemma last_weight_cons a ups fill :
  last_weight (a :: ups) fill = last_weight ups (match a with AWeight v => v | AAttr _ _ => fill end).
Proof. reflexivity. Qed.

Lemma edge_data_weight dl keys wid wty cols mss : forall cs ups fill junk,
  edge_data dl keys wid wty cols mss cs = Ok ups ->
  last_weight ups fill = match rev (filter (weight_ref wid) cs) with
                         | c :: _ => cast_or dl wty (x_text c) junk
                         | [] => fill
                         end.
Proof.
  induction cs as [|c t IH]; intros ups fill junk H; simpl in H.
  - injection H as <-. reflexivity.
  - simpl. unfold weight_ref at 1. destruct (is_tag "data" c) eqn:D; simpl.
    + apply bind_ok in H as [kid [Hk H]]. apply bind_ok in H as [a [Ha H]]. apply bind_ok in H as [rest [Hr H]].
      injection H as <-. apply get_attr_ok in Hk as [Hk _]. rewrite Hk.
      destruct wid as [w|].
      * destruct (kid ==s w) eqn:W.
        -- apply bind_ok in Ha as [v [Hc Ha]]. injection Ha as <-.
           rewrite last_weight_cons. rewrite (IH _ v junk Hr). simpl.
           destruct (rev (filter (weight_ref (Some w)) t)) as [|c' r]; simpl.
           ++ unfold cast_or. rewrite Hc. reflexivity.
           ++ reflexivity.
        -- apply attr_assign_ok in Ha as [nm [ty [v [K [Hc ->]]]]].
           rewrite last_weight_cons. apply IH. exact Hr.
      * apply attr_assign_ok in Ha as [nm [ty [v [K [Hc ->]]]]].
        rewrite last_weight_cons. apply IH. exact Hr.
    + apply IH. exact H.
Qed.

(** * End points *)

Lemma endpoint_index g which e k :
  endpoint (doc_naming g) (doc_ids g) (length (doc_nodes g)) which e = Ok k ->
  doc_index g which e = Some k.
Proof.
  unfold endpoint, doc_index. intros H. apply bind_ok in H as [s [Hs H]].
  apply get_attr_ok in Hs as [Hs _]. rewrite Hs.
  destruct (doc_naming g).
  - destruct (index_last (doc_ids g) s 0) as [r|]; [|discriminate]. injection H as <-. reflexivity.
  - rewrite H. reflexivity.
Qed.

(** * Strings *)

Lemma substring_full : forall s n, String.length s <= n -> substring 0 n s = s.
Proof.
  induction s as [|a t IH]; intros n H; destruct n as [|n]; simpl in *; try reflexivity; try lia.
  rewrite IH by lia. reflexivity.
Qed.

Lemma map_substring_full n l : (forall x, In x l -> String.length x <= n) -> map (substring 0 n) l = l.
Proof.
  induction l as [|x t IH]; intros H; simpl; [reflexivity|].
  rewrite substring_full by (apply H; left; reflexivity). rewrite IH; [reflexivity|].
  intros y Hy. apply H. right. exact Hy.
Qed.

(** * One node, one edge *)

Lemma node_fn_ok dl naming keys cols mss nd r :
  node_fn dl naming keys cols mss nd = Ok r ->
  fst r = (if naming then attr_or_empty "id" nd else "") /\
  (naming = true -> attr "id" nd <> None) /\
  node_data dl keys cols mss (x_children nd) = Ok (snd r).
Proof.
  unfold node_fn. intros H. apply bind_ok in H as [name [Hn H]]. apply bind_ok in H as [ups [Hu H]].
  injection H as <-. simpl. split; [|split; [|exact Hu]].
  - destruct naming; [apply get_attr_ok in Hn as [_ Hn]; symmetry; exact Hn|injection Hn as <-; reflexivity].
  - intros ->. apply get_attr_ok in Hn as [Hn _]. rewrite Hn. discriminate.
Qed.

Lemma nodes_ids dl g keys cols mss nres :
  Forall2 (fun nd r => node_fn dl (doc_naming g) keys cols mss nd = Ok r) (doc_nodes g) nres ->
  map fst nres = doc_ids g.
Proof.
  unfold doc_ids. generalize (doc_nodes g). intros l H. induction H as [|nd r l rs H1 H2 IH]; simpl; [reflexivity|].
  apply node_fn_ok in H1 as [H1 _]. rewrite H1, IH. reflexivity.
Qed.

Lemma edge_fn_ok dl g keys wid wty cols mss e sl :
  edge_fn dl (doc_naming g) (doc_ids g) (length (doc_nodes g)) (doc_sym g) keys wid wty cols mss e = Ok sl ->
  exists n1 n2 ups,
    doc_index g "source" e = Some n1 /\ doc_index g "target" e = Some n2 /\
    edge_data dl keys wid wty cols mss (x_children e) = Ok ups /\
    sl = (n1, n2, ups) :: (if edge_mirrored (doc_sym g) e then [(n2, n1, ups)] else []).
Proof.
  unfold edge_fn. intros H. apply bind_ok in H as [n1 [H1 H]]. apply bind_ok in H as [n2 [H2 H]].
  apply bind_ok in H as [ups [Hu H]]. injection H as <-.
  exists n1, n2, ups. repeat split; auto using endpoint_index.
Qed.

Lemma slots_length dl g keys wid wty cols mss : forall edges eres,
  Forall2 (fun e sl => edge_fn dl (doc_naming g) (doc_ids g) (length (doc_nodes g)) (doc_sym g) keys wid wty cols mss e = Ok sl) edges eres ->
  length (concat eres) = sumn (map (edge_slots (doc_sym g)) edges).
Proof.
  intros edges eres H. induction H as [|e sl l rs H1 H2 IH]; simpl; [reflexivity|].
  rewrite app_length, IH. apply edge_fn_ok in H1 as (n1 & n2 & ups & _ & _ & _ & ->).
  unfold edge_slots. destruct (edge_mirrored (doc_sym g) e); reflexivity.
Qed.

(** * What from_graphml returns on a document with one graph element *)

Definition slot_triple (wfill : value) (sl : slot) : nat * nat * value :=
  (fst (fst sl), snd (fst sl), last_weight (snd sl) wfill).

Lemma from_graphml_inv dl wk mss root g b :
  from_graphml_with dl wk mss root = Ok b -> doc_graphs root = [g] ->
  exists wfill nres eres,
    convert (doc_wtype (doc_keys dl wk mss root)) (k_dw (doc_keys dl wk mss root)) = Ok wfill /\
    Forall2 (fun nd r => node_fn dl (doc_naming g) (k_keys (doc_keys dl wk mss root)) (k_nattr (doc_keys dl wk mss root)) mss nd = Ok r)
            (doc_nodes g) nres /\
    Forall2 (fun e sl => edge_fn dl (doc_naming g) (doc_ids g) (length (doc_nodes g)) (doc_sym g)
                                 (k_keys (doc_keys dl wk mss root)) (k_wid (doc_keys dl wk mss root))
                                 (k_wty (doc_keys dl wk mss root)) (k_eattr (doc_keys dl wk mss root)) mss e = Ok sl)
            (doc_edges g) eres /\
    b_n b = length (doc_nodes g) /\
    b_dtype b = doc_wtype (doc_keys dl wk mss root) /\
    b_coo b = map (slot_triple wfill) (concat eres) /\
    b_names b = (if doc_naming g then Some (map (substring 0 names_width) (doc_ids g)) else None) /\
    b_node_attr b = option_map (map (fun c : string * acol =>
                       (fst c, (fst (snd c), map (fun r : string * list assign => last_attr (fst c) (snd r) (snd (snd c))) nres))))
                     (k_nattr (doc_keys dl wk mss root)) /\
    b_edge_attr b = option_map (map (fun c : string * acol =>
                       (fst c, (fst (snd c), map (fun sl : slot => last_attr (fst c) (snd sl) (snd (snd c))) (concat eres)))))
                     (k_eattr (doc_keys dl wk mss root)) /\
    b_meta b = meta_of (doc_keys dl wk mss root).
Proof.
  unfold from_graphml_with. intros H Hg.
  apply bind_ok in H as [s [Hs H]]. apply bind_ok in H as [k0 [Hk H]].
  apply scan_keys_pure in Hk. subst k0. set (k := doc_keys dl wk mss root) in *.
  destruct (scan_root_single _ _ _ Hs Hg) as (G & Sy & Na & Nn & Ne & Ni & Ei & _).
  rewrite G in H. cbv zeta in H.
  apply bind_ok in H as [wfill [Hw H]]. apply bind_ok in H as [nres [Hn H]]. apply bind_ok in H as [eres [He H]].
  rewrite Na, Ni in Hn.
  rewrite (mapM_ext _ (fun i => bind (graph_item g i) (node_fn dl (doc_naming g) (k_keys k) (k_nattr k) mss))) in Hn
    by (intros x _; apply process_node_fn).
  rewrite mapM_indices in Hn. fold (doc_nodes g) in Hn. apply mapM_Forall2 in Hn.
  pose proof (nodes_ids _ _ _ _ _ _ Hn) as Hids.
  rewrite Na, Nn, Sy, Ei, Hids in He.
  rewrite (mapM_ext _ (fun i => bind (graph_item g i)
             (edge_fn dl (doc_naming g) (doc_ids g) (length (doc_nodes g)) (doc_sym g) (k_keys k) (k_wid k) (k_wty k) (k_eattr k) mss))) in He
    by (intros x _; apply process_edge_fn).
  rewrite mapM_indices in He. fold (doc_edges g) in He. apply mapM_Forall2 in He.
  pose proof (slots_length _ _ _ _ _ _ _ _ _ He) as Hlen.
  rewrite Ne, Nn, Na, Hids in H. rewrite <- Hlen in H.
  rewrite Nat.ltb_irrefl, Nat.sub_diag in H. simpl repeat in H.
  destruct (negb (forallb _ _)); [discriminate|].
  exists wfill, nres, eres.
  split; [exact Hw|]. split; [exact Hn|]. split; [exact He|].
  fold (doc_wtype k) in H.
  destruct (doc_wtype k) eqn:DT; try discriminate; injection H as <-; simpl;
    (repeat split; try reflexivity;
     [ apply app_nil_r
     | destruct (k_eattr k); simpl; [|reflexivity]; f_equal; apply map_ext; intros c; rewrite app_nil_r; reflexivity ]).
Qed.

(** * Nodes and names *)

Lemma Forall2_In_l {A B} (R : A -> B -> Prop) l r x : Forall2 R l r -> In x l -> exists y, In y r /\ R x y.
Proof.
  intros H. induction H as [|a b l r H1 H2 IH]; intros Hin; [contradiction|].
  destruct Hin as [->|Hin]; [exists b; split; [left; reflexivity|exact H1]|].
  destruct (IH Hin) as [y [Hy Hr]]. exists y. split; [right; exact Hy|exact Hr].
Qed.

Theorem graphml_nodes dl wk mss root g b :
  from_graphml_with dl wk mss root = Ok b -> doc_graphs root = [g] ->
  b_n b = length (doc_nodes g) /\ length (doc_ids g) = b_n b /\
  b_names b = (if doc_naming g then Some (map (substring 0 names_width) (doc_ids g)) else None) /\
  (doc_naming g = true -> forall nd, In nd (doc_nodes g) -> attr "id" nd <> None).
Proof.
  intros H Hg. destruct (from_graphml_inv _ _ _ _ _ _ H Hg) as (wfill & nres & eres & Hw & Hn & He & Bn & Bd & Bc & Bnames & _).
  split; [exact Bn|]. split; [rewrite Bn; unfold doc_ids; apply map_length|]. split; [exact Bnames|].
  intros Hnam nd Hin. destruct (Forall2_In_l _ _ _ _ Hn Hin) as [r [_ Hr]].
  apply node_fn_ok in Hr as (_ & Hr & _). apply Hr. exact Hnam.
Qed.

(** Distinct identifiers that fit the '<U512' array: names are the identifiers, in document order, and
    the index an edge end is resolved to is the position of the identifier. *)
Theorem names_index_roundtrip ids :
  NoDup ids -> (forall x, In x ids -> String.length x <= names_width) ->
  map (substring 0 names_width) ids = ids /\
  forall x k, index_last ids x 0 = Some k <-> nth_error ids k = Some x.
Proof.
  intros Hnd Hlen. split; [apply map_substring_full; exact Hlen|].
  intros x k. split.
  - intros H. apply index_last_bounds in H as [_ H]. rewrite Nat.sub_0_r in H. exact H.
  - intros H. rewrite (index_last_NoDup _ _ 0 _ Hnd H). reflexivity.
Qed.

(** * Entries *)

Lemma entry_lists dl k mss g wfill i j :
  convert (doc_wtype k) (k_dw k) = Ok wfill -> forall edges eres,
  Forall2 (fun e sl => edge_fn dl (doc_naming g) (doc_ids g) (length (doc_nodes g)) (doc_sym g)
                               (k_keys k) (k_wid k) (k_wty k) (k_eattr k) mss e = Ok sl) edges eres ->
  map (fun t : nat * nat * value => qval (snd t)) (filter (at_pos i j) (map (slot_triple wfill) (concat eres)))
  = map qval (flat_map (listed_by dl k g i j) edges).
Proof.
  intros Hw edges eres H. induction H as [|e sl l rs H1 H2 IH]; [reflexivity|].
  simpl. rewrite map_app, filter_app, !map_app, IH. f_equal.
  apply edge_fn_ok in H1 as (n1 & n2 & ups & Hs & Ht & Hu & ->).
  assert (Hwt : last_weight ups wfill = doc_weight dl k e).
  { unfold doc_weight, weight_data. rewrite (edge_data_weight _ _ _ _ _ _ _ _ wfill (doc_wfill k) Hu).
    unfold weight_ref, doc_wfill. rewrite Hw. reflexivity. }
  unfold listed_by, ends_are. rewrite Hs, Ht.
  simpl. unfold at_pos at 1. simpl.
  destruct ((n1 =? i) && (n2 =? j)) eqn:E1; simpl.
  - rewrite Hwt. f_equal.
    destruct (edge_mirrored (doc_sym g) e); simpl; [|reflexivity].
    unfold at_pos. simpl. rewrite (andb_comm (n1 =? j)).
    destruct ((n2 =? i) && (n1 =? j)); simpl; [rewrite Hwt|]; reflexivity.
  - destruct (edge_mirrored (doc_sym g) e); simpl; [|reflexivity].
    unfold at_pos. simpl. rewrite (andb_comm (n1 =? j)).
    destruct ((n2 =? i) && (n1 =? j)); simpl; [rewrite Hwt|]; reflexivity.
Qed.

Theorem graphml_entry dl wk mss root g b :
  from_graphml_with dl wk mss root = Ok b -> doc_graphs root = [g] ->
  b_dtype b = doc_wtype (doc_keys dl wk mss root) /\
  forall i j, gm_entry b i j = spec_gm_entry dl (doc_keys dl wk mss root) g i j.
Proof.
  intros H Hg. destruct (from_graphml_inv _ _ _ _ _ _ H Hg) as (wfill & nres & eres & Hw & Hn & He & Bn & Bd & Bc & _).
  split; [exact Bd|]. intros i j. unfold gm_entry, spec_gm_entry. rewrite Bd, Bc. f_equal.
  eapply entry_lists; eassumption.
Qed.

(** * Weights *)

Lemma weight_data_none e : weight_data None e = [].
Proof.
  unfold weight_data. induction (x_children e) as [|c t IH]; simpl; [reflexivity|].
  destruct (is_tag "data" c); simpl; [|exact IH]. destruct (attr "key" c); simpl; exact IH.
Qed.

Theorem graphml_weight_rule dl wk mss root :
  ((forall fe, In fe (x_children root) -> is_weight_key dl wk fe = false) ->
   doc_wtype (doc_keys dl wk mss root) = PBool /\
   forall e, doc_weight dl (doc_keys dl wk mss root) e = VBool true) /\
  (forall pre kw post,
     x_children root = pre ++ kw :: post -> is_weight_key dl wk kw = true ->
     (forall fe, In fe pre \/ In fe post -> is_weight_key dl wk fe = false) ->
     k_wty (doc_keys dl wk mss root) = key_type kw /\
     k_wid (doc_keys dl wk mss root) = attr "id" kw /\
     k_dw (doc_keys dl wk mss root) = weight_default_pure dl (key_type kw) (x_children kw) (VInt 1)).
Proof.
  split.
  - intros Hno. destruct (weight_rule_no_key dl wk mss root Hno) as (Hd & Ht & Hi).
    unfold doc_weight, doc_wfill, doc_wtype. rewrite Hd, Ht, Hi. split; [reflexivity|].
    intros e. rewrite weight_data_none. reflexivity.
  - intros pre kw post. apply weight_rule_one_key.
Qed.

(** With no <default> the fill is 1 in the type of the weights. *)
Theorem default_weight_one k :
  k_dw k = VInt 1 ->
  doc_wfill k = match k_wty k with PBool => VBool true | PFloat => VFloat 1 | _ => VInt 1 end.
Proof. unfold doc_wfill, doc_wtype. intros ->. destruct (k_wty k); reflexivity. Qed.

(** * Direction *)

Lemma doc_sym_spec g : doc_sym g = true <-> attr "edgedefault" g = Some "undirected".
Proof.
  unfold doc_sym. destruct (attr "edgedefault" g) as [v|]; [|split; discriminate].
  rewrite String.eqb_eq. split; [intros ->; reflexivity|intros H; injection H as ->; reflexivity].
Qed.

Lemma sumq_app a b : (sumq (a ++ b) == sumq a + sumq b)%Q.
Proof.
  induction a as [|x t IH]; simpl; [ring|]. rewrite IH. ring.
Qed.

Lemma dsumq_swap ty {A} (F G : A -> list Q) l :
  (dsumq ty (flat_map (fun e => F e ++ G e) l) == dsumq ty (flat_map (fun e => G e ++ F e) l))%Q.
Proof.
  destruct ty; simpl;
    try (induction l as [|e t IH]; simpl; [reflexivity|]; rewrite !sumq_app, IH; ring).
  assert (E : existsb (fun q : Q => negb (Qeq_bool q 0)) (flat_map (fun e => F e ++ G e) l)
              = existsb (fun q : Q => negb (Qeq_bool q 0)) (flat_map (fun e => G e ++ F e) l)).
  { induction l as [|e t IH]; simpl; [reflexivity|]. rewrite !existsb_app, IH.
    rewrite (orb_comm (existsb _ (F e))). reflexivity. }
  rewrite E. reflexivity.
Qed.

Theorem graphml_direction dl wk mss root g b :
  from_graphml_with dl wk mss root = Ok b -> doc_graphs root = [g] ->
  (doc_sym g = true <-> attr "edgedefault" g = Some "undirected") /\
  (forall e, edge_mirrored (doc_sym g) e
             = match attr "directed" e with Some v => negb (v ==s "true") | None => doc_sym g end) /\
  ((forall e, In e (doc_edges g) -> edge_mirrored (doc_sym g) e = false) ->
   forall i j, gm_entry b i j
               = dsumq (b_dtype b) (map qval (flat_map (fun e => if ends_are g e i j
                                                                  then [doc_weight dl (doc_keys dl wk mss root) e] else [])
                                                        (doc_edges g)))) /\
  ((forall e, In e (doc_edges g) -> edge_mirrored (doc_sym g) e = true) ->
   forall i j, (gm_entry b i j == gm_entry b j i)%Q).
Proof.
  intros H Hg. destruct (graphml_entry _ _ _ _ _ _ H Hg) as [Bd He].
  split; [apply doc_sym_spec|]. split; [reflexivity|]. split.
  - intros Hdir i j. rewrite He, Bd. unfold spec_gm_entry. f_equal. f_equal.
    induction (doc_edges g) as [|e t IH]; simpl; [reflexivity|].
    rewrite IH by (intros e' He'; apply Hdir; right; exact He').
    f_equal. unfold listed_by. rewrite (Hdir e) by (left; reflexivity). simpl. apply app_nil_r.
  - intros Hmir i j. rewrite !He. unfold spec_gm_entry.
    set (k := doc_keys dl wk mss root).
    set (F := fun (a b : nat) (e : xml) => map qval (if ends_are g e a b then [doc_weight dl k e] else [])).
    assert (E : forall a c, map qval (flat_map (listed_by dl k g a c) (doc_edges g))
                            = flat_map (fun e => F a c e ++ F c a e) (doc_edges g)).
    { intros a c. induction (doc_edges g) as [|e t IH]; simpl; [reflexivity|].
      rewrite map_app, IH by (intros e' He'; apply Hmir; right; exact He'). f_equal.
      unfold listed_by, F. rewrite (Hmir e) by (left; reflexivity). simpl. rewrite map_app. reflexivity. }
    rewrite (E i j), (E j i). apply dsumq_swap.
Qed.

(** * Attributes *)

Lemma node_columns_rows dl g keys cols mss name fill : forall nodes nres,
  Forall2 (fun nd r => node_fn dl (doc_naming g) keys cols mss nd = Ok r) nodes nres ->
  map (fun r : string * list assign => last_attr name (snd r) fill) nres
  = map (fun nd => data_value dl keys None mss name fill (x_children nd)) nodes.
Proof.
  intros nodes nres H. induction H as [|nd r l rs H1 H2 IH]; simpl; [reflexivity|].
  rewrite IH. f_equal. apply node_fn_ok in H1 as (_ & _ & H1). exact (node_data_value _ _ _ _ _ _ _ _ H1).
Qed.

Lemma edge_columns_rows dl g keys wid wty cols mss name fill : forall edges eres,
  Forall2 (fun e sl => edge_fn dl (doc_naming g) (doc_ids g) (length (doc_nodes g)) (doc_sym g) keys wid wty cols mss e = Ok sl) edges eres ->
  map (fun sl : slot => last_attr name (snd sl) fill) (concat eres)
  = map (fun e => data_value dl keys wid mss name fill (x_children e))
        (flat_map (fun e => e :: (if edge_mirrored (doc_sym g) e then [e] else [])) edges).
Proof.
  intros edges eres H. induction H as [|e sl l rs H1 H2 IH]; [reflexivity|].
  simpl. rewrite map_app, IH. apply edge_fn_ok in H1 as (n1 & n2 & ups & _ & _ & Hu & ->).
  pose proof (edge_data_value _ _ _ _ _ _ name _ _ fill Hu) as Hv.
  destruct (edge_mirrored (doc_sym g) e); simpl; rewrite Hv; reflexivity.
Qed.

Theorem graphml_attributes dl wk mss root g b :
  from_graphml_with dl wk mss root = Ok b -> doc_graphs root = [g] ->
  b_node_attr b = node_columns dl (doc_keys dl wk mss root) mss g /\
  b_edge_attr b = edge_columns dl (doc_keys dl wk mss root) mss g /\
  b_meta b = meta_of (doc_keys dl wk mss root).
Proof.
  intros H Hg. destruct (from_graphml_inv _ _ _ _ _ _ H Hg)
    as (wfill & nres & eres & Hw & Hn & He & Bn & Bd & Bc & Bnames & Bna & Bea & Bm).
  split; [|split; [|exact Bm]].
  - rewrite Bna. unfold node_columns. destruct (k_nattr (doc_keys dl wk mss root)) as [al|]; simpl; [|reflexivity].
    f_equal. apply map_ext. intros c. f_equal. f_equal. exact (node_columns_rows _ _ _ _ _ _ _ _ _ Hn).
  - rewrite Bea. unfold edge_columns, doc_slots. destruct (k_eattr (doc_keys dl wk mss root)) as [al|]; simpl; [|reflexivity].
    f_equal. apply map_ext. intros c. f_equal. f_equal. exact (edge_columns_rows _ _ _ _ _ _ _ _ _ _ _ He).
Qed.

(** * No graph element *)

Theorem graphml_no_graph dl wk mss root : doc_graphs root = [] -> forall b, from_graphml_with dl wk mss root <> Ok b.
Proof.
  intros Hg b H. unfold from_graphml_with in H.
  apply bind_ok in H as [s [Hs H]]. apply bind_ok in H as [k0 [Hk H]].
  rewrite (scan_root_no_graph _ _ Hs Hg) in H. discriminate.
Qed.

(** * The two repaired behaviours: witnesses for the code as it was ([legacy]) *)

Definition el0 (tag : string) (attrs : list (string * string)) : xml := Elem tag attrs None [].

(** A NODE attribute called "weight" with default 5, one unweighted edge a -> b. *)
Definition doc_node_weight_key : xml :=
  Elem "graphml" [] None
    [Elem "key" [("id", "d0"); ("for", "node"); ("attr.name", "weight"); ("attr.type", "double")] None
          [Elem "default" [] (Some "5") []];
     Elem "graph" [("edgedefault", "directed")] None
          [el0 "node" [("id", "a")]; el0 "node" [("id", "b")]; el0 "edge" [("source", "a"); ("target", "b")]]].

(** A boolean edge weight: a -> b is false, b -> a is true. *)
Definition doc_boolean_weight : xml :=
  Elem "graphml" [] None
    [el0 "key" [("id", "d0"); ("for", "edge"); ("attr.name", "weight"); ("attr.type", "boolean")];
     Elem "graph" [("edgedefault", "directed")] None
          [el0 "node" [("id", "a")]; el0 "node" [("id", "b")];
           Elem "edge" [("source", "a"); ("target", "b")] None [Elem "data" [("key", "d0")] (Some "false") []];
           Elem "edge" [("source", "b"); ("target", "a")] None [Elem "data" [("key", "d0")] (Some "true") []]]].

(** Before the repair the key named "weight" was taken whatever its domain: the document declares no
    edge weight at all, yet entry (a, b) is 5 (and the node attribute is lost); now it is 1 (True) and
    the attribute is kept. *)
Theorem legacy_node_weight_key_refuted :
  exists root g b b',
    doc_graphs root = [g] /\
    (forall fe, In fe (x_children root) -> is_edge_weight_key "weight" fe = false) /\
    from_graphml_with legacy "weight" 512 root = Ok b /\
    gm_entry b 0 1 = (5 # 1)%Q /\ b_node_attr b = None /\
    from_graphml_with current "weight" 512 root = Ok b' /\
    gm_entry b' 0 1 = (1 # 1)%Q /\ b_dtype b' = PBool /\
    b_node_attr b' = Some [("weight", (PFloat, [VFloat (5 # 1); VFloat (5 # 1)]))].
Proof.
  exists doc_node_weight_key.
  eexists. eexists. eexists.
  split; [vm_compute; reflexivity|].
  split; [intros fe [<-|[<-|[]]]; vm_compute; reflexivity|].
  split; [vm_compute; reflexivity|].
  split; [vm_compute; reflexivity|].
  split; [vm_compute; reflexivity|].
  split; [vm_compute; reflexivity|].
  repeat split; vm_compute; reflexivity.
Qed.

(** Before the repair [bool('false')] was True: the edge whose weight is false got the entry 1. *)
Theorem legacy_boolean_weight_refuted :
  exists root g e c b b',
    doc_graphs root = [g] /\ In e (doc_edges g) /\
    doc_index g "source" e = Some 0 /\ doc_index g "target" e = Some 1 /\
    weight_data (Some "d0") e = [c] /\ gml_bool (x_text c) = false /\
    from_graphml_with legacy "weight" 512 root = Ok b /\ gm_entry b 0 1 = (1 # 1)%Q /\
    from_graphml_with current "weight" 512 root = Ok b' /\ gm_entry b' 0 1 = (0 # 1)%Q /\ gm_entry b' 1 0 = (1 # 1)%Q.
Proof.
  exists doc_boolean_weight.
  eexists. exists (Elem "edge" [("source", "a"); ("target", "b")] None [Elem "data" [("key", "d0")] (Some "false") []]).
  eexists. eexists. eexists.
  split; [vm_compute; reflexivity|].
  split; [vm_compute; left; reflexivity|].
  repeat split; vm_compute; reflexivity.
Qed.

(** * A document inside the hypotheses of the theorems (non-vacuity) *)

Definition ns (t : string) : string := ("{http://graphml.graphdrawing.org/xmlns}" ++ t)%string.

(** Undirected, int weights with default 2, names with XML-special characters, a duplicate edge, a
    reversed edge, a self-loop, one edge marked directed, a node and an edge attribute. *)
Definition doc_example : xml :=
  Elem (ns "graphml") [] None
    [Elem (ns "key") [("id", "d0"); ("for", "edge"); ("attr.name", "weight"); ("attr.type", "int")] None
          [Elem (ns "default") [] (Some "2") []];
     Elem (ns "key") [("id", "d1"); ("for", "node"); ("attr.name", "color"); ("attr.type", "string")] None
          [Elem (ns "default") [] (Some "yellow") []];
     Elem (ns "key") [("id", "d2"); ("for", "edge"); ("attr.name", "len"); ("attr.type", "double")] None [];
     Elem (ns "graph") [("id", "G"); ("edgedefault", "undirected")] None
          [Elem (ns "node") [("id", "a&b")] None [Elem (ns "data") [("key", "d1")] (Some "green") []];
           el0 (ns "node") [("id", "x<y")];
           el0 (ns "node") [("id", "c")];
           Elem (ns "edge") [("source", "a&b"); ("target", "x<y")] None [Elem (ns "data") [("key", "d0")] (Some "3") []];
           el0 (ns "edge") [("source", "a&b"); ("target", "x<y")];
           Elem (ns "edge") [("source", "x<y"); ("target", "a&b")] None
                [Elem (ns "data") [("key", "d0")] (Some "5") []; Elem (ns "data") [("key", "d2")] (Some "1.25") []];
           el0 (ns "edge") [("source", "c"); ("target", "c")];
           Elem (ns "edge") [("source", "c"); ("target", "a&b"); ("directed", "true")] None
                [Elem (ns "data") [("key", "d0")] (Some "7") []]]].

Example graphml_example :
  exists g b,
    from_graphml "weight" 512 doc_example = Ok b /\ doc_graphs doc_example = [g] /\
    doc_naming g = true /\ doc_ids g = ["a&b"; "x<y"; "c"] /\ NoDup (doc_ids g) /\
    b_n b = 3 /\ b_names b = Some ["a&b"; "x<y"; "c"] /\ b_dtype b = PInt /\
    map (fun i => map (fun j => gm_entry b i j) [0; 1; 2]) [0; 1; 2]
    = [[0 # 1; 10 # 1; 0 # 1]; [10 # 1; 0 # 1; 0 # 1]; [7 # 1; 0 # 1; 4 # 1]]%Q /\
    b_node_attr b = Some [("color", (PStr, [VStr "green"; VStr "yellow"; VStr "yellow"]))] /\
    option_map (map (fun c : string * (ptype * list value) => (fst c, length (snd (snd c))))) (b_edge_attr b) = Some [("len", 9)].
Proof.
  eexists. eexists.
  split; [vm_compute; reflexivity|]. split; [vm_compute; reflexivity|].
  split; [vm_compute; reflexivity|]. split; [vm_compute; reflexivity|].
  split; [vm_compute; repeat constructor; simpl; intuition discriminate|].
  repeat split; vm_compute; reflexivity.
Qed.

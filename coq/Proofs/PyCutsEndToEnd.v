(** End to end: the statements regenerated from cut_balanced / cut_straight followed by those regenerated from get_labels
    (everything of the two functions except [check_dendrogram], the reorder step of cut_straight and the final [return]) compute the
    result of the functional model, for every VALID dendrogram, every argument and EVERY admissible answer of np.argsort. *)
From SKN Require Import Base.Util Model.Dendrogram Model.Cuts Model.PyImp Gen.PyCuts
     Proofs.CutsProofs Proofs.PyCutsProofs Proofs.PyLabelsProofs Proofs.PyImpFrame.
From Coq Require Import String Permutation.
Local Open Scope nat_scope.
Local Open Scope string_scope.

Definition src_labels_part (ret : bool) : stmt := if ret then src_get_labels_ret else src_get_labels_head.
Definition src_cut_balanced_all (ret : bool) : stmt := SSeq src_cut_balanced (src_labels_part ret).
Definition src_cut_straight_all (ret : bool) : stmt := SSeq src_cut_straight_core (src_labels_part ret).

Definition oracle_answer (argsort : list Z -> list nat) (st : cstate) : val :=
  VList (map vnat (argsort (map (fun c => (- Z.of_nat (Datatypes.length c))%Z) (map snd st)))).

Lemma argsort_in_range argsort (st : cstate) : argsort_ok argsort ->
  Forall (fun i => i < Datatypes.length st)
         (argsort (map (fun c => (- Z.of_nat (Datatypes.length c))%Z) (map snd st))).
Proof.
  intros Ha. destruct (Ha (map (fun c => (- Z.of_nat (Datatypes.length c))%Z) (map snd st))) as [P _].
  apply Forall_forall. intros i Hi. apply (Permutation_in _ P) in Hi. apply in_seq in Hi.
  rewrite !map_length in Hi. lia.
Qed.

Lemma cinv_nodes_lt n D t st : cinv n D t st -> Forall (Forall (fun v => v < n)) (map snd st).
Proof.
  intros (_ & _ & P). apply Forall_forall. intros c Hc. apply Forall_forall. intros v Hv.
  assert (Hin : In v (List.concat (map snd st))) by (apply in_concat; exists c; split; assumption).
  apply (Permutation_in _ P) in Hin. apply in_seq in Hin. lia.
Qed.

(** the second half, given the state of the [cluster] dict *)
Lemma labels_part_after argsort n D st sort ret (e1 : env) :
  S (Datatypes.length D) = n -> argsort_ok argsort -> Forall (Forall (fun v => v < n)) (map snd st) ->
  e1 "dendrogram" = Some (embD D) -> e1 "cluster" = Some (embC st) -> e1 "sort_clusters" = Some (VBool sort) ->
  e1 "oracle:np.argsort" = Some (oracle_answer argsort st) ->
  match get_labels argsort D st sort ret with
  | Ok (labels, od) =>
      exists e', exec (src_labels_part ret) e1 = POk e' /\ e' "labels" = Some (VList (map vnat labels)) /\
                 match od with
                 | Some Dnew => ret = true /\ e' "dendrogram_new" = Some (VList (map embNewRow Dnew))
                 | None => ret = false
                 end
  | Err er => exec (src_labels_part ret) e1 = PErr (conv er)
  end.
Proof.
  intros Hn Ha Hnodes Hd Hc Hs Ho. subst n.
  pose proof (src_get_labels_is_model argsort D st sort ret e1 Hd Hc Hs Ho (argsort_in_range argsort st Ha) Hnodes) as L.
  destruct (get_labels argsort D st sort ret) as [[labels od]|er].
  - exact L.
  - destruct L as [-> L]. exact L.
Qed.

Theorem src_cut_balanced_end_to_end argsort n D m sort ret (e0 : env) :
  valid n D = true -> argsort_ok argsort ->
  e0 "dendrogram" = Some (embD D) -> e0 "max_cluster_size" = Some (vnat m) -> e0 "sort_clusters" = Some (VBool sort) ->
  (forall st, balanced_state D m = Ok st -> e0 "oracle:np.argsort" = Some (oracle_answer argsort st)) ->
  match cut_balanced argsort D m sort ret with
  | Ok (labels, od) =>
      exists e', exec (src_cut_balanced_all ret) e0 = POk e' /\ e' "labels" = Some (VList (map vnat labels)) /\
                 match od with
                 | Some Dnew => ret = true /\ e' "dendrogram_new" = Some (VList (map embNewRow Dnew))
                 | None => ret = false
                 end
  | Err er => exec (src_cut_balanced_all ret) e0 = PErr (conv er)
  end.
Proof.
  intros Hv Ha Hd Hm Hs Ho. unfold cut_balanced, src_cut_balanced_all.
  pose proof (src_cut_balanced_is_model D m e0 Hd Hm) as L.
  destruct (balanced_state D m) as [st|er] eqn:Eb.
  - destruct L as (e1 & F1 & Hc1 & Hd1). rewrite (exec_seq_ok _ _ _ _ F1).
    destruct (valid_rows n D Hv) as [Hlen _].
    assert (Hinv : cinv n D (Datatypes.length D) st).
    { unfold balanced_state in Eb. destruct (_ || _); [discriminate|]. rewrite Hlen in Eb.
      apply (replay_cinv (balanced_guard m) n D (valid_ids_lt n D Hv) D [] (init_clusters n) st eq_refl (cinv_init n D)).
      simpl. rewrite Nat.add_0_r. exact Eb. }
    apply (labels_part_after argsort n D st sort ret e1 Hlen Ha (cinv_nodes_lt _ _ _ _ Hinv) Hd1 Hc1).
    + rewrite (exec_frame _ _ _ F1) by (vm_compute; intuition discriminate). exact Hs.
    + rewrite (exec_frame _ _ _ F1) by (vm_compute; intuition discriminate). exact (Ho st eq_refl).
  - rewrite (exec_seq_err _ _ _ _ L). reflexivity.
Qed.

Theorem src_cut_straight_end_to_end argsort n D nc th sort (e0 : env) :
  valid n D = true -> argsort_ok argsort ->
  e0 "dendrogram" = Some (embD D) -> e0 "n" = Some (vnat n) ->
  e0 "n_clusters" = Some (embON nc) -> e0 "threshold" = Some (embOQ th) -> e0 "sort_clusters" = Some (VBool sort) ->
  (forall st, straight_core_model D nc th = Ok st -> e0 "oracle:np.argsort" = Some (oracle_answer argsort st)) ->
  match cut_straight argsort D nc th sort false with
  | Ok (labels, _) =>
      exists e', exec (src_cut_straight_all false) e0 = POk e' /\ e' "labels" = Some (VList (map vnat labels))
  | Err er => exec (src_cut_straight_all false) e0 = PErr (conv er)
  end.
Proof.
  intros Hv Ha Hd Hn Hnc Hth Hs Ho.
  destruct (valid_rows n D Hv) as [Hlen _].
  unfold cut_straight, straight_state, straight_state_with, cut_input, src_cut_straight_all. cbn [andb].
  rewrite <- Hlen in Hn.
  pose proof (src_cut_straight_core_is_model D nc th e0 Hd Hn Hnc Hth) as L.
  unfold straight_core_model in L, Ho.
  destruct (cut_height D nc th) as [cut|er] eqn:Ec.
  - destruct (replay (straight_guard cut) (S (Datatypes.length D)) D (init_clusters (S (Datatypes.length D)))) as [st|er] eqn:Er.
    + destruct L as (e1 & F1 & Hc1 & Hd1). rewrite (exec_seq_ok _ _ _ _ F1).
      assert (Hinv : cinv n D (Datatypes.length D) st).
      { rewrite Hlen in Er.
        apply (replay_cinv (straight_guard cut) n D (valid_ids_lt n D Hv) D [] (init_clusters n) st eq_refl (cinv_init n D)).
        simpl. rewrite Nat.add_0_r. exact Er. }
      pose proof (labels_part_after argsort n D st sort false e1 Hlen Ha (cinv_nodes_lt _ _ _ _ Hinv) Hd1 Hc1) as G.
      assert (G1 : e1 "sort_clusters" = Some (VBool sort))
        by (rewrite (exec_frame _ _ _ F1) by (vm_compute; intuition discriminate); exact Hs).
      assert (G2 : e1 "oracle:np.argsort" = Some (oracle_answer argsort st))
        by (rewrite (exec_frame _ _ _ F1) by (vm_compute; intuition discriminate); exact (Ho st eq_refl)).
      specialize (G G1 G2).
      destruct (get_labels argsort D st sort false) as [[labels od]|er2].
      * destruct G as (e' & F & HL & _). exists e'. split; assumption.
      * exact G.
    + rewrite (exec_seq_err _ _ _ _ L). reflexivity.
  - rewrite (exec_seq_err _ _ _ _ L). reflexivity.
Qed.

(** The clause of C08 about cut_balanced, stated about the SOURCE TEXT: on every valid dendrogram, admissible max_cluster_size
    and admissible answer of np.argsort the regenerated statements run to the end, and the [labels] array they leave is a
    partition into leaf sets of subtrees, labelled 0..k-1, by non-increasing size when sort_clusters is set, no cluster larger
    than max_cluster_size. *)
Theorem src_cut_balanced_labels_property argsort n D m sort ret (e0 : env) :
  valid n D = true -> argsort_ok argsort -> 2 <= m <= n ->
  e0 "dendrogram" = Some (embD D) -> e0 "max_cluster_size" = Some (vnat m) -> e0 "sort_clusters" = Some (VBool sort) ->
  (forall st, balanced_state D m = Ok st -> e0 "oracle:np.argsort" = Some (oracle_answer argsort st)) ->
  exists e' labels ids,
    exec (src_cut_balanced_all ret) e0 = POk e' /\ e' "labels" = Some (VList (map vnat labels)) /\
    subtree_partition n D labels ids /\ (sort = true -> sizes_sorted labels (Datatypes.length ids)) /\
    (forall l, cluster_size labels l <= m).
Proof.
  intros Hv Ha Hm Hd Hmm Hs Ho.
  destruct (cut_balanced_total argsort n D m sort ret Hv Ha Hm) as (labels & od & Hcut).
  pose proof (src_cut_balanced_end_to_end argsort n D m sort ret e0 Hv Ha Hd Hmm Hs Ho) as L.
  rewrite Hcut in L. destruct L as (e' & F & HL & _).
  destruct (cut_balanced_subtrees argsort n D m sort ret labels od Hv Ha Hcut) as (ids & P1 & P2 & P3).
  exists e', labels, ids. split; [exact F|]. split; [exact HL|]. split; [exact P1|]. split; [exact P2 | exact P3].
Qed.

(** ... and about cut_straight (dendrogram cut as given): a partition into subtree leaf sets with at least n_clusters clusters. *)
Theorem src_cut_straight_labels_property argsort n D nc th sort (e0 : env) :
  valid n D = true -> argsort_ok argsort -> 2 <= n ->
  match nc with Some k => 1 <= k <= n | None => True end ->
  e0 "dendrogram" = Some (embD D) -> e0 "n" = Some (vnat n) ->
  e0 "n_clusters" = Some (embON nc) -> e0 "threshold" = Some (embOQ th) -> e0 "sort_clusters" = Some (VBool sort) ->
  (forall st, straight_core_model D nc th = Ok st -> e0 "oracle:np.argsort" = Some (oracle_answer argsort st)) ->
  exists e' labels ids,
    exec (src_cut_straight_all false) e0 = POk e' /\ e' "labels" = Some (VList (map vnat labels)) /\
    subtree_partition n D labels ids /\ (sort = true -> sizes_sorted labels (Datatypes.length ids)).
Proof.
  intros Hv Ha Hn Hnc Hd Hnn Hncc Hth Hs Ho.
  destruct (cut_straight_total argsort n D nc th sort Hv Hn Hnc) as (labels & Hcut).
  pose proof (src_cut_straight_end_to_end argsort n D nc th sort e0 Hv Ha Hd Hnn Hncc Hth Hs Ho) as L.
  rewrite Hcut in L. destruct L as (e' & F & HL).
  destruct (cut_straight_subtrees argsort n D D nc th sort false labels None eq_refl Hv Ha Hcut) as (ids & P1 & P2).
  exists e', labels, ids. split; [exact F|]. split; [exact HL|]. split; [exact P1 | exact P2].
Qed.

(** cut_straight with return_dendrogram = True on a dendrogram that needs no reordering (heights already sorted, so that
    [cut_input D true = Ok D]): labels and the reduced dendrogram of the model. *)
Theorem src_cut_straight_end_to_end_ret argsort n D nc th sort ret (e0 : env) :
  valid n D = true -> argsort_ok argsort -> cut_input D ret = Ok D ->
  e0 "dendrogram" = Some (embD D) -> e0 "n" = Some (vnat n) ->
  e0 "n_clusters" = Some (embON nc) -> e0 "threshold" = Some (embOQ th) -> e0 "sort_clusters" = Some (VBool sort) ->
  (forall st, straight_core_model D nc th = Ok st -> e0 "oracle:np.argsort" = Some (oracle_answer argsort st)) ->
  match cut_straight argsort D nc th sort ret with
  | Ok (labels, od) =>
      exists e', exec (src_cut_straight_all ret) e0 = POk e' /\ e' "labels" = Some (VList (map vnat labels)) /\
                 match od with
                 | Some Dnew => ret = true /\ e' "dendrogram_new" = Some (VList (map embNewRow Dnew))
                 | None => ret = false
                 end
  | Err er => exec (src_cut_straight_all ret) e0 = PErr (conv er)
  end.
Proof.
  intros Hv Ha Hci Hd Hn Hnc Hth Hs Ho.
  destruct (valid_rows n D Hv) as [Hlen _].
  unfold cut_straight, straight_state, straight_state_with, src_cut_straight_all. rewrite Hci.
  rewrite <- Hlen in Hn.
  pose proof (src_cut_straight_core_is_model D nc th e0 Hd Hn Hnc Hth) as L.
  unfold straight_core_model in L, Ho.
  destruct (cut_height D nc th) as [cut|er] eqn:Ec.
  - destruct (replay (straight_guard cut) (S (Datatypes.length D)) D (init_clusters (S (Datatypes.length D)))) as [st|er] eqn:Er.
    + destruct L as (e1 & F1 & Hc1 & Hd1). rewrite (exec_seq_ok _ _ _ _ F1).
      assert (Hinv : cinv n D (Datatypes.length D) st).
      { rewrite Hlen in Er.
        apply (replay_cinv (straight_guard cut) n D (valid_ids_lt n D Hv) D [] (init_clusters n) st eq_refl (cinv_init n D)).
        simpl. rewrite Nat.add_0_r. exact Er. }
      apply (labels_part_after argsort n D st sort ret e1 Hlen Ha (cinv_nodes_lt _ _ _ _ Hinv) Hd1 Hc1).
      * rewrite (exec_frame _ _ _ F1) by (vm_compute; intuition discriminate). exact Hs.
      * rewrite (exec_frame _ _ _ F1) by (vm_compute; intuition discriminate). exact (Ho st eq_refl).
    + rewrite (exec_seq_err _ _ _ _ L). reflexivity.
  - rewrite (exec_seq_err _ _ _ _ L). reflexivity.
Qed.

(** Proofs about Model/Classify.v (C13): metrics, label sets, probability rows, seeds, fixed points, top-k links. *)
From SKN Require Import Base.Util Model.Vote Model.Bfs Model.Classify Proofs.VoteProofs Proofs.BfsProofs.
From Coq Require Import Lqa Psatz Sorted Permutation Qabs Qreduction.
Close Scope Q_scope.
Open Scope nat_scope.

(** * Generic lemmas *)

Lemma sumqr_sumq (l : list Q) : (sumqr l == sumq l)%Q.
Proof.
  induction l as [|a t IH]; [reflexivity|].
  change (sumqr (a :: t)) with (Qred (a + sumqr t)%Q). rewrite Qred_correct, IH. reflexivity.
Qed.

Lemma sumq_app (a b : list Q) : (sumq (a ++ b) == sumq a + sumq b)%Q.
Proof. induction a as [|x t IH]; simpl; [lra|]. rewrite IH. lra. Qed.

Lemma sumn_app (a b : list nat) : sumn (a ++ b) = sumn a + sumn b.
Proof. induction a as [|x t IH]; simpl; [reflexivity|]. rewrite IH. lia. Qed.

Lemma sumn_map_add {A} (F G : A -> nat) (l : list A) :
  sumn (map (fun i => F i + G i) l) = sumn (map F l) + sumn (map G l).
Proof. induction l as [|a t IH]; simpl; [reflexivity|]. rewrite IH. lia. Qed.

Lemma sumn_map_ext {A} (F G : A -> nat) (l : list A) :
  (forall x, In x l -> F x = G x) -> sumn (map F l) = sumn (map G l).
Proof.
  induction l as [|a t IH]; simpl; intros H; [reflexivity|].
  rewrite (H a) by auto. rewrite IH; [reflexivity|]. intros x Hx. apply H. auto.
Qed.

Lemma nth_map_seq0 {B} (f : nat -> B) (n i : nat) (d : B) : i < n -> nth i (map f (seq 0 n)) d = f i.
Proof. apply nth_map_seq. Qed.

Lemma In_le_maxz (l : list Z) x : In x l -> (x <= maxz l)%Z.
Proof.
  unfold maxz. induction l as [|a t IH]; simpl; intros H; [contradiction|].
  destruct H as [->|H]; [lia|]. specialize (IH H). lia.
Qed.

Lemma maxz_ge_m1 (l : list Z) : (-1 <= maxz l)%Z.
Proof. unfold maxz. induction l as [|a t IH]; simpl; [lia|]. lia. Qed.

Lemma count_if_cons {A} (f : A -> bool) a l :
  count_if f (a :: l) = (if f a then 1 else 0) + count_if f l.
Proof. unfold count_if. simpl. destruct (f a); reflexivity. Qed.

Lemma count_if_app {A} (f : A -> bool) a b : count_if f (a ++ b) = count_if f a + count_if f b.
Proof. unfold count_if. rewrite filter_app, app_length. reflexivity. Qed.

Lemma count_if_ext {A} (f g : A -> bool) l : (forall x, In x l -> f x = g x) -> count_if f l = count_if g l.
Proof.
  induction l as [|a t IH]; intros H; [reflexivity|].
  rewrite !count_if_cons, (H a) by (left; reflexivity). rewrite IH; [reflexivity|]. intros x Hx. apply H. right. exact Hx.
Qed.

Lemma count_if_none {A} (f : A -> bool) l : (forall x, In x l -> f x = false) -> count_if f l = 0.
Proof. intros H. unfold count_if. rewrite filter_none; [reflexivity|exact H]. Qed.

Lemma count_if_split {A} (f g : A -> bool) l :
  count_if f l = count_if (fun x => f x && g x) l + count_if (fun x => f x && negb (g x)) l.
Proof.
  induction l as [|a t IH]; [reflexivity|]. rewrite !count_if_cons, IH.
  destruct (f a), (g a); simpl; lia.
Qed.

(** the indicator of one value summed over a range *)
Lemma sumn_indicator (z : Z) (K : nat) : (0 <= z)%Z ->
  sumn (map (fun i => if (z =? Z.of_nat i)%Z then 1 else 0) (seq 0 K)) = if (z <? Z.of_nat K)%Z then 1 else 0.
Proof.
  intros Hz. induction K as [|K IH].
  - simpl. destruct (z <? 0)%Z eqn:E; [apply Z.ltb_lt in E; lia|reflexivity].
  - rewrite seq_S, map_app, sumn_app, IH. cbn [map sumn fold_right Nat.add plus].
    destruct (z <? Z.of_nat K)%Z eqn:E1; destruct (z =? Z.of_nat K)%Z eqn:E2;
      destruct (z <? Z.of_nat (S K))%Z eqn:E3;
      try apply Z.ltb_lt in E1; try apply Z.ltb_ge in E1; try apply Z.eqb_eq in E2; try apply Z.eqb_neq in E2;
      try apply Z.ltb_lt in E3; try apply Z.ltb_ge in E3; lia.
Qed.

(** counting by classes of a key partitions the count *)
Lemma count_partition {A} (key : A -> Z) (g : A -> bool) (l : list A) (K : nat) :
  (forall x, In x l -> (0 <= key x < Z.of_nat K)%Z) ->
  sumn (map (fun i => count_if (fun x => (key x =? Z.of_nat i)%Z && g x) l) (seq 0 K)) = count_if g l.
Proof.
  induction l as [|a t IH]; intros H.
  - unfold count_if. simpl. induction (seq 0 K); simpl; auto.
  - rewrite (sumn_map_ext _ (fun i => (if (key a =? Z.of_nat i)%Z && g a then 1 else 0) +
                                       count_if (fun x => (key x =? Z.of_nat i)%Z && g x) t)).
    2:{ intros i _. apply count_if_cons. }
    rewrite sumn_map_add, IH by (intros x Hx; apply H; right; exact Hx).
    rewrite count_if_cons. f_equal.
    destruct (H a (or_introl eq_refl)) as [H0 HK].
    destruct (g a).
    + rewrite (sumn_map_ext _ (fun i => if (key a =? Z.of_nat i)%Z then 1 else 0)).
      2:{ intros i _. rewrite andb_true_r. reflexivity. }
      rewrite sumn_indicator by exact H0. destruct (key a <? Z.of_nat K)%Z eqn:E; [reflexivity|].
      apply Z.ltb_ge in E. lia.
    + rewrite (sumn_map_ext _ (fun _ => 0)).
      2:{ intros i _. rewrite andb_false_r. reflexivity. }
      induction (seq 0 K); simpl; auto.
Qed.

(** * Metrics = confusion-matrix / textbook definitions *)

Lemma masked_range lt lp x : In x (masked lt lp) ->
  (0 <= fst x < Z.of_nat (n_labels lt lp))%Z /\ (0 <= snd x < Z.of_nat (n_labels lt lp))%Z.
Proof.
  unfold masked. rewrite filter_In. intros [Hin Hb]. apply andb_true_iff in Hb. destruct Hb as [H1 H2].
  apply Z.leb_le in H1. apply Z.leb_le in H2. destruct x as [t p]. simpl in *.
  pose proof (in_combine_l _ _ _ _ Hin) as Ht. pose proof (in_combine_r _ _ _ _ Hin) as Hp.
  apply In_le_maxz in Ht. apply In_le_maxz in Hp. unfold n_labels.
  rewrite Z2Nat.id by (pose proof (maxz_ge_m1 lt); lia). lia.
Qed.

Definition trace (C : list (list nat)) : nat := sumn (map (fun i => centry C i i) (seq 0 (length C))).
Definition total (C : list (list nat)) : nat :=
  sumn (map (fun i => sumn (map (fun j => centry C i j) (seq 0 (length C)))) (seq 0 (length C))).

Lemma confusion_entries lt lp C :
  confusion lt lp = Some C ->
  length C = n_labels lt lp /\ masked lt lp <> [] /\
  forall i j, i < n_labels lt lp -> j < n_labels lt lp ->
    centry C i j = count_if (fun tp : Z * Z => (fst tp =? Z.of_nat i)%Z && (snd tp =? Z.of_nat j)%Z) (masked lt lp).
Proof.
  unfold confusion. destruct (length (masked lt lp) =? 0) eqn:E; [discriminate|].
  intros H. inversion H; subst C. clear H. apply Nat.eqb_neq in E.
  split; [rewrite map_length, seq_length; reflexivity|].
  split; [intros Hm; rewrite Hm in E; simpl in E; lia|].
  intros i j Hi Hj. unfold centry.
  rewrite (nth_map_seq0 _ _ _ [] Hi). rewrite (nth_map_seq0 _ _ _ 0 Hj). reflexivity.
Qed.

Lemma confusion_row_sum lt lp C i :
  confusion lt lp = Some C -> i < n_labels lt lp ->
  sumn (map (fun j => centry C i j) (seq 0 (length C))) =
  count_if (fun tp : Z * Z => (fst tp =? Z.of_nat i)%Z) (masked lt lp).
Proof.
  intros HC Hi. destruct (confusion_entries _ _ _ HC) as [Hl [_ He]]. rewrite Hl.
  rewrite (sumn_map_ext _ (fun j => count_if (fun tp : Z * Z => (snd tp =? Z.of_nat j)%Z && (fst tp =? Z.of_nat i)%Z) (masked lt lp))).
  2:{ intros j Hj. apply in_seq in Hj. rewrite He by lia. apply count_if_ext. intros x _. apply andb_comm. }
  apply (count_partition (fun tp : Z * Z => snd tp)). intros x Hx. apply (masked_range lt lp x Hx).
Qed.

Lemma confusion_col_sum lt lp C j :
  confusion lt lp = Some C -> j < n_labels lt lp ->
  sumn (map (fun i => centry C i j) (seq 0 (length C))) =
  count_if (fun tp : Z * Z => (snd tp =? Z.of_nat j)%Z) (masked lt lp).
Proof.
  intros HC Hj. destruct (confusion_entries _ _ _ HC) as [Hl [_ He]]. rewrite Hl.
  rewrite (sumn_map_ext _ (fun i => count_if (fun tp : Z * Z => (fst tp =? Z.of_nat i)%Z && (snd tp =? Z.of_nat j)%Z) (masked lt lp))).
  2:{ intros i Hi. apply in_seq in Hi. rewrite He by lia. reflexivity. }
  apply (count_partition (fun tp : Z * Z => fst tp)). intros x Hx. apply (masked_range lt lp x Hx).
Qed.

Lemma confusion_total lt lp C : confusion lt lp = Some C -> total C = length (masked lt lp).
Proof.
  intros HC. unfold total. destruct (confusion_entries _ _ _ HC) as [Hl _].
  rewrite (sumn_map_ext _ (fun i => count_if (fun tp : Z * Z => (fst tp =? Z.of_nat i)%Z && true) (masked lt lp))).
  2:{ intros i Hi. apply in_seq in Hi. rewrite (confusion_row_sum lt lp C i HC) by lia.
      apply count_if_ext. intros x _. rewrite andb_true_r. reflexivity. }
  rewrite Hl. rewrite (count_partition (fun tp : Z * Z => fst tp)).
  - unfold count_if. rewrite filter_all; [reflexivity|]. auto.
  - intros x Hx. apply (masked_range lt lp x Hx).
Qed.

Lemma confusion_trace lt lp C :
  confusion lt lp = Some C -> trace C = count_if (fun tp : Z * Z => (fst tp =? snd tp)%Z) (masked lt lp).
Proof.
  intros HC. unfold trace. destruct (confusion_entries _ _ _ HC) as [Hl [_ He]]. rewrite Hl.
  rewrite (sumn_map_ext _ (fun i => count_if (fun tp : Z * Z => (fst tp =? Z.of_nat i)%Z && (fst tp =? snd tp)%Z) (masked lt lp))).
  2:{ intros i Hi. apply in_seq in Hi. rewrite He by lia. apply count_if_ext. intros [t p] _. simpl.
      destruct (t =? Z.of_nat i)%Z eqn:E1; simpl; [|reflexivity]. apply Z.eqb_eq in E1. subst t.
      rewrite (Z.eqb_sym p). reflexivity. }
  apply (count_partition (fun tp : Z * Z => fst tp)). intros x Hx. apply (masked_range lt lp x Hx).
Qed.

(** accuracy = trace / total of the confusion matrix (and both functions fail on the same inputs) *)
Theorem accuracy_def lt lp :
  match accuracy lt lp, confusion lt lp with
  | Some a, Some C => (a == qnat (trace C) / qnat (total C))%Q /\ 0 < total C
  | None, None => True
  | _, _ => False
  end.
Proof.
  destruct (confusion lt lp) as [C|] eqn:HC.
  - pose proof (confusion_total _ _ _ HC) as Ht. pose proof (confusion_trace _ _ _ HC) as Hr.
    destruct (confusion_entries _ _ _ HC) as [_ [Hne _]].
    unfold accuracy. destruct (length (masked lt lp) =? 0) eqn:E.
    + apply Nat.eqb_eq in E. destruct (masked lt lp); [contradiction|discriminate].
    + apply Nat.eqb_neq in E. rewrite Ht, Hr. split; [reflexivity|lia].
  - unfold accuracy, confusion in *. destruct (length (masked lt lp) =? 0); [exact I|discriminate].
Qed.

Lemma tp_fn_true m k : count_if (fun x : Z * Z => (fst x =? k)%Z) m = tp m k + fn m k.
Proof. unfold tp, fn. apply (count_if_split (fun x : Z * Z => (fst x =? k)%Z) (fun x => (snd x =? k)%Z)). Qed.

Lemma tp_fp_pred m k : count_if (fun x : Z * Z => (snd x =? k)%Z) m = tp m k + fp m k.
Proof.
  unfold tp, fp. rewrite (count_if_split (fun x : Z * Z => (snd x =? k)%Z) (fun x => (fst x =? k)%Z)).
  f_equal; apply count_if_ext; intros x _; apply andb_comm.
Qed.

Lemma qnat_plus a b : (qnat (a + b) == qnat a + qnat b)%Q.
Proof. unfold qnat. rewrite Nat2Z.inj_add, inject_Z_plus. reflexivity. Qed.
Lemma qnat_pos a : 0 < a -> (0 < qnat a)%Q.
Proof. intros H. unfold qnat. change 0%Q with (inject_Z 0). rewrite <- Zlt_Qlt. lia. Qed.
Lemma qnat_nonneg a : (0 <= qnat a)%Q.
Proof. unfold qnat. change 0%Q with (inject_Z 0). rewrite <- Zle_Qle. lia. Qed.

Lemma f1_harmonic (a b c : Q) : (0 < a)%Q -> (0 <= b)%Q -> (0 <= c)%Q ->
  (2 / (1 / (a / (a + b)) + 1 / (a / (a + c))) == (2 * a) / (2 * a + b + c))%Q.
Proof. intros Ha Hb Hc. field. repeat split; lra. Qed.

(** per-class precision, recall and F1 computed from the confusion matrix equal the textbook formulas
    TP/(TP+FP), TP/(TP+FN), 2TP/(2TP+FP+FN) on the counted samples (0 when the denominator is 0) *)
Theorem prf_def lt lp f1 pr rc :
  f1_scores lt lp = Some (f1, pr, rc) ->
  let m := masked lt lp in
  let K := n_labels lt lp in
  length f1 = K /\ length pr = K /\ length rc = K /\
  forall k, k < K ->
    (nthq pr k == spec_precision m (Z.of_nat k))%Q /\
    (nthq rc k == spec_recall m (Z.of_nat k))%Q /\
    (nthq f1 k == spec_f1 m (Z.of_nat k))%Q.
Proof.
  unfold f1_scores. destruct (confusion lt lp) as [C|] eqn:HC; [|discriminate].
  simpl. intros H. inversion H; subst f1 pr rc. clear H. intros m K.
  destruct (confusion_entries _ _ _ HC) as [Hl [_ He]]. fold K in Hl, He.
  rewrite !map2_length, !map_length, !seq_length, Hl, !Nat.min_id.
  split; [reflexivity|]. split; [reflexivity|]. split; [reflexivity|].
  intros k Hk.
  set (ratio := fun a b : nat => if b =? 0 then 0%Q else (qnat a / qnat b)%Q).
  set (correct := map (fun i => centry C i i) (seq 0 (length C))).
  set (ctrue := map (fun i => sumn (map (fun j => centry C i j) (seq 0 (length C)))) (seq 0 (length C))).
  set (cpred := map (fun j => sumn (map (fun i => centry C i j) (seq 0 (length C)))) (seq 0 (length C))).
  assert (Hc : nth k correct 0 = tp m (Z.of_nat k)).
  { unfold correct. rewrite Hl, nth_map_seq0 by exact Hk. rewrite He by exact Hk. reflexivity. }
  assert (Ht : nth k ctrue 0 = tp m (Z.of_nat k) + fn m (Z.of_nat k)).
  { unfold ctrue. rewrite Hl at 2. rewrite nth_map_seq0 by exact Hk.
    rewrite (confusion_row_sum lt lp C k HC Hk). apply tp_fn_true. }
  assert (Hp : nth k cpred 0 = tp m (Z.of_nat k) + fp m (Z.of_nat k)).
  { unfold cpred. rewrite Hl at 2. rewrite nth_map_seq0 by exact Hk.
    rewrite (confusion_col_sum lt lp C k HC Hk). apply tp_fp_pred. }
  assert (Hlen : length correct = K /\ length ctrue = K /\ length cpred = K).
  { unfold correct, ctrue, cpred. rewrite !map_length, !seq_length. auto. }
  destruct Hlen as [L1 [L2 L3]].
  assert (Hrc : nthq (map2 ratio correct ctrue) k = spec_recall m (Z.of_nat k)).
  { unfold nthq. rewrite (nth_map2 ratio correct ctrue k 0 0 0%Q) by lia. rewrite Hc, Ht. reflexivity. }
  assert (Hpr : nthq (map2 ratio correct cpred) k = spec_precision m (Z.of_nat k)).
  { unfold nthq. rewrite (nth_map2 ratio correct cpred k 0 0 0%Q) by lia. rewrite Hc, Hp. reflexivity. }
  split; [rewrite Hpr; reflexivity|]. split; [rewrite Hrc; reflexivity|].
  unfold nthq. rewrite (nth_map2 _ _ _ k 0%Q 0%Q 0%Q) by (rewrite map2_length; lia).
  fold (nthq (map2 ratio correct cpred) k). fold (nthq (map2 ratio correct ctrue) k). rewrite Hpr, Hrc.
  unfold spec_precision, spec_recall, spec_f1.
  set (a := tp m (Z.of_nat k)). set (b := fp m (Z.of_nat k)). set (c := fn m (Z.of_nat k)).
  destruct (a =? 0) eqn:Ea.
  - apply Nat.eqb_eq in Ea. rewrite Ea. simpl Nat.add.
    assert (Hz : forall x, Qle_bool (if x =? 0 then 0 else qnat 0 / qnat x)%Q 0 = true).
    { intros x. apply Qle_bool_iff. destruct (x =? 0); [lra|]. unfold Qdiv. change (qnat 0) with 0%Q. lra. }
    rewrite Hz. reflexivity.
  - apply Nat.eqb_neq in Ea.
    destruct (a + b =? 0) eqn:E1; [apply Nat.eqb_eq in E1; lia|].
    destruct (a + c =? 0) eqn:E2; [apply Nat.eqb_eq in E2; lia|].
    assert (Ha : (0 < qnat a)%Q) by (apply qnat_pos; lia).
    pose proof (qnat_nonneg b) as Hb. pose proof (qnat_nonneg c) as Hcn.
    assert (P1 : (0 < qnat a / qnat (a + b))%Q).
    { rewrite qnat_plus. apply Qlt_shift_div_l; lra. }
    assert (P2 : (0 < qnat a / qnat (a + c))%Q).
    { rewrite qnat_plus. apply Qlt_shift_div_l; lra. }
    destruct (Qle_bool (qnat a / qnat (a + b)) 0) eqn:B1; [apply Qle_bool_iff in B1; lra|].
    destruct (Qle_bool (qnat a / qnat (a + c)) 0) eqn:B2; [apply Qle_bool_iff in B2; lra|].
    simpl orb. cbv iota.
    replace (2 * a + b + c) with ((a + a) + b + c) by lia. replace (2 * a) with (a + a) by lia.
    rewrite !qnat_plus. rewrite (f1_harmonic (qnat a) (qnat b) (qnat c) Ha Hb Hcn).
    apply Qeq_sym. setoid_replace (qnat a + qnat a)%Q with (2 * qnat a)%Q by ring. reflexivity.
Qed.

(** the averages, as the source computes them *)
Theorem average_def lt lp :
  average_f1 lt lp Micro = accuracy lt lp /\
  (forall f1 pr rc, f1_scores lt lp = Some (f1, pr, rc) ->
     exists x, average_f1 lt lp Macro = Some x /\
               (x == sumq (map (fun k => spec_f1 (masked lt lp) (Z.of_nat k)) (seq 0 (n_labels lt lp)))
                     / qnat (n_labels lt lp))%Q) /\
  (f1_scores lt lp = None -> average_f1 lt lp Macro = None /\ average_f1 lt lp Weighted = None).
Proof.
  split; [reflexivity|]. split.
  - intros f1 pr rc H. unfold average_f1. rewrite H. simpl. eexists. split; [reflexivity|].
    destruct (prf_def _ _ _ _ _ H) as [L [_ [_ Hk]]]. rewrite L.
    assert (Hs : (sumq f1 == sumq (map (fun k => spec_f1 (masked lt lp) (Z.of_nat k)) (seq 0 (n_labels lt lp))))%Q).
    { assert (G : forall (l : list Q) (F : nat -> Q) n, length l = n -> (forall k, k < n -> (nthq l k == F k)%Q) ->
                  (sumq l == sumq (map F (seq 0 n)))%Q).
      { intros l F n. revert l F. induction n as [|n IHn]; intros l F Hl HF.
        - destruct l; [reflexivity|discriminate].
        - destruct l as [|a t]; [discriminate|]. simpl in Hl. simpl seq. simpl.
          rewrite <- seq_shift, map_map. rewrite <- (IHn t (fun k => F (S k))).
          + specialize (HF 0 ltac:(lia)). unfold nthq in HF. simpl in HF. rewrite HF. reflexivity.
          + lia.
          + intros k Hk'. specialize (HF (S k) ltac:(lia)). exact HF. }
      apply G; [exact L|]. intros k Hk'. apply (Hk k Hk'). }
    rewrite Hs. reflexivity.
  - intros H. unfold average_f1. rewrite H. split; reflexivity.
Qed.

(** Proofs about Model/Classify.v (C13): metrics, label sets, probability rows, seeds, fixed points, top-k links. *)
From SKN Require Import Base.Util Model.Vote Model.Bfs Model.Classify Proofs.VoteProofs Proofs.BfsProofs.
From Coq Require Import Lqa Psatz Sorted Permutation Qabs Qreduction.
Close Scope Q_scope.
Open Scope nat_scope.

(** * Generic lemmas *)

Lemma sumqr_sumq (l : list Q) : (sumqr l == sumq l)%Q.
Proof.
  induction l as [|a t IH]; [reflexivity|].
  change (sumqr (a :: t)) with (Qred (a + sumqr t)%Q). rewrite Qred_correct, IH. reflexivity.
Qed.

Lemma sumq_cons (a : Q) (t : list Q) : sumq (a :: t) = (a + sumq t)%Q.
Proof. reflexivity. Qed.

Lemma sumq_app (a b : list Q) : (sumq (a ++ b) == sumq a + sumq b)%Q.
Proof. induction a as [|x t IH]; simpl; [lra|]. rewrite IH. lra. Qed.

Lemma sumn_app (a b : list nat) : sumn (a ++ b) = sumn a + sumn b.
Proof. induction a as [|x t IH]; simpl; [reflexivity|]. rewrite IH. lia. Qed.

Lemma sumn_map_add {A} (F G : A -> nat) (l : list A) :
  sumn (map (fun i => F i + G i) l) = sumn (map F l) + sumn (map G l).
Proof. induction l as [|a t IH]; simpl; [reflexivity|]. rewrite IH. lia. Qed.

Lemma sumn_map_ext {A} (F G : A -> nat) (l : list A) :
  (forall x, In x l -> F x = G x) -> sumn (map F l) = sumn (map G l).
Proof.
  induction l as [|a t IH]; simpl; intros H; [reflexivity|].
  rewrite (H a) by auto. rewrite IH; [reflexivity|]. intros x Hx. apply H. auto.
Qed.

Lemma nth_map_seq0 {B} (f : nat -> B) (n i : nat) (d : B) : i < n -> nth i (map f (seq 0 n)) d = f i.
Proof. apply nth_map_seq. Qed.

Lemma nthq_map_seq0 (f : nat -> Q) (n i : nat) : i < n -> nthq (map f (seq 0 n)) i = f i.
Proof. apply nth_map_seq. Qed.

Lemma In_le_maxz (l : list Z) x : In x l -> (x <= maxz l)%Z.
Proof.
  unfold maxz. induction l as [|a t IH]; simpl; intros H; [contradiction|].
  destruct H as [->|H]; [lia|]. specialize (IH H). lia.
Qed.

Lemma maxz_ge_m1 (l : list Z) : (-1 <= maxz l)%Z.
Proof. unfold maxz. induction l as [|a t IH]; simpl; [lia|]. lia. Qed.

Lemma count_if_cons {A} (f : A -> bool) a l :
  count_if f (a :: l) = (if f a then 1 else 0) + count_if f l.
Proof. unfold count_if. simpl. destruct (f a); reflexivity. Qed.

Lemma count_if_app {A} (f : A -> bool) a b : count_if f (a ++ b) = count_if f a + count_if f b.
Proof. unfold count_if. rewrite filter_app, app_length. reflexivity. Qed.

Lemma count_if_ext {A} (f g : A -> bool) l : (forall x, In x l -> f x = g x) -> count_if f l = count_if g l.
Proof.
  induction l as [|a t IH]; intros H; [reflexivity|].
  rewrite !count_if_cons, (H a) by (left; reflexivity). rewrite IH; [reflexivity|]. intros x Hx. apply H. right. exact Hx.
Qed.

Lemma count_if_none {A} (f : A -> bool) l : (forall x, In x l -> f x = false) -> count_if f l = 0.
Proof. intros H. unfold count_if. rewrite filter_none; [reflexivity|exact H]. Qed.

Lemma count_if_split {A} (f g : A -> bool) l :
  count_if f l = count_if (fun x => f x && g x) l + count_if (fun x => f x && negb (g x)) l.
Proof.
  induction l as [|a t IH]; [reflexivity|]. rewrite !count_if_cons, IH.
  destruct (f a), (g a); simpl; lia.
Qed.

(** the indicator of one value summed over a range *)
Lemma sumn_indicator (z : Z) (K : nat) : (0 <= z)%Z ->
  sumn (map (fun i => if (z =? Z.of_nat i)%Z then 1 else 0) (seq 0 K)) = if (z <? Z.of_nat K)%Z then 1 else 0.
Proof.
  intros Hz. induction K as [|K IH].
  - simpl. destruct (z <? 0)%Z eqn:E; [apply Z.ltb_lt in E; lia|reflexivity].
  - rewrite seq_S, map_app, sumn_app, IH. cbn [map sumn fold_right Nat.add plus].
    destruct (Z.ltb_spec z (Z.of_nat K)); destruct (Z.eqb_spec z (Z.of_nat K));
      destruct (Z.ltb_spec z (Z.of_nat (S K))); lia.
Qed.

Lemma sumn_map_zero {A} (l : list A) : sumn (map (fun _ => 0) l) = 0.
Proof. induction l; simpl; auto. Qed.

(** counting by classes of a key partitions the count *)
Lemma count_partition {A} (key : A -> Z) (g : A -> bool) (l : list A) (K : nat) :
  (forall x, In x l -> (0 <= key x < Z.of_nat K)%Z) ->
  sumn (map (fun i => count_if (fun x => (key x =? Z.of_nat i)%Z && g x) l) (seq 0 K)) = count_if g l.
Proof.
  induction l as [|a t IH]; intros H.
  - unfold count_if. simpl. apply sumn_map_zero.
  - rewrite (sumn_map_ext _ (fun i => (if (key a =? Z.of_nat i)%Z && g a then 1 else 0) +
                                       count_if (fun x => (key x =? Z.of_nat i)%Z && g x) t)).
    2:{ intros i _. apply (count_if_cons (fun x => (key x =? Z.of_nat i)%Z && g x)). }
    rewrite sumn_map_add, IH by (intros x Hx; apply H; right; exact Hx).
    rewrite count_if_cons. f_equal.
    destruct (H a (or_introl eq_refl)) as [H0 HK].
    destruct (g a).
    + rewrite (sumn_map_ext _ (fun i => if (key a =? Z.of_nat i)%Z then 1 else 0)).
      2:{ intros i _. rewrite andb_true_r. reflexivity. }
      rewrite sumn_indicator by exact H0. destruct (key a <? Z.of_nat K)%Z eqn:E; [reflexivity|].
      apply Z.ltb_ge in E. lia.
    + rewrite (sumn_map_ext _ (fun _ => 0)).
      2:{ intros i _. rewrite andb_false_r. reflexivity. }
      apply sumn_map_zero.
Qed.

(** * Metrics = confusion-matrix / textbook definitions *)

Lemma masked_range lt lp x : In x (masked lt lp) ->
  (0 <= fst x < Z.of_nat (n_labels lt lp))%Z /\ (0 <= snd x < Z.of_nat (n_labels lt lp))%Z.
Proof.
  unfold masked. rewrite filter_In. intros [Hin Hb]. apply andb_true_iff in Hb. destruct Hb as [H1 H2].
  apply Z.leb_le in H1. apply Z.leb_le in H2. destruct x as [t p]. simpl in *.
  pose proof (in_combine_l _ _ _ _ Hin) as Ht. pose proof (in_combine_r _ _ _ _ Hin) as Hp.
  apply In_le_maxz in Ht. apply In_le_maxz in Hp. unfold n_labels.
  rewrite Z2Nat.id by (pose proof (maxz_ge_m1 lt); lia). lia.
Qed.

Definition trace (C : list (list nat)) : nat := sumn (map (fun i => centry C i i) (seq 0 (length C))).
Definition total (C : list (list nat)) : nat :=
  sumn (map (fun i => sumn (map (fun j => centry C i j) (seq 0 (length C)))) (seq 0 (length C))).

Lemma confusion_entries lt lp C :
  confusion lt lp = Some C ->
  length C = n_labels lt lp /\ masked lt lp <> [] /\
  forall i j, i < n_labels lt lp -> j < n_labels lt lp ->
    centry C i j = count_if (fun tp : Z * Z => (fst tp =? Z.of_nat i)%Z && (snd tp =? Z.of_nat j)%Z) (masked lt lp).
Proof.
  unfold confusion. destruct (length (masked lt lp) =? 0) eqn:E; [discriminate|].
  intros H. inversion H; subst C. clear H. apply Nat.eqb_neq in E.
  split; [rewrite map_length, seq_length; reflexivity|].
  split; [intros Hm; rewrite Hm in E; simpl in E; lia|].
  intros i j Hi Hj. unfold centry.
  rewrite (nth_map_seq0 _ _ _ [] Hi). rewrite (nth_map_seq0 _ _ _ 0 Hj). reflexivity.
Qed.

Lemma confusion_row_sum lt lp C i :
  confusion lt lp = Some C -> i < n_labels lt lp ->
  sumn (map (fun j => centry C i j) (seq 0 (length C))) =
  count_if (fun tp : Z * Z => (fst tp =? Z.of_nat i)%Z) (masked lt lp).
Proof.
  intros HC Hi. destruct (confusion_entries _ _ _ HC) as [Hl [_ He]]. rewrite Hl.
  rewrite (sumn_map_ext _ (fun j => count_if (fun tp : Z * Z => (snd tp =? Z.of_nat j)%Z && (fst tp =? Z.of_nat i)%Z) (masked lt lp))).
  2:{ intros j Hj. apply in_seq in Hj. rewrite He by lia. apply count_if_ext. intros x _. apply andb_comm. }
  apply (count_partition (fun tp : Z * Z => snd tp)). intros x Hx. apply (masked_range lt lp x Hx).
Qed.

Lemma confusion_col_sum lt lp C j :
  confusion lt lp = Some C -> j < n_labels lt lp ->
  sumn (map (fun i => centry C i j) (seq 0 (length C))) =
  count_if (fun tp : Z * Z => (snd tp =? Z.of_nat j)%Z) (masked lt lp).
Proof.
  intros HC Hj. destruct (confusion_entries _ _ _ HC) as [Hl [_ He]]. rewrite Hl.
  rewrite (sumn_map_ext _ (fun i => count_if (fun tp : Z * Z => (fst tp =? Z.of_nat i)%Z && (snd tp =? Z.of_nat j)%Z) (masked lt lp))).
  2:{ intros i Hi. apply in_seq in Hi. rewrite He by lia. reflexivity. }
  apply (count_partition (fun tp : Z * Z => fst tp)). intros x Hx. apply (masked_range lt lp x Hx).
Qed.

Lemma confusion_total lt lp C : confusion lt lp = Some C -> total C = length (masked lt lp).
Proof.
  intros HC. unfold total. destruct (confusion_entries _ _ _ HC) as [Hl _].
  rewrite (sumn_map_ext _ (fun i => count_if (fun tp : Z * Z => (fst tp =? Z.of_nat i)%Z && true) (masked lt lp))).
  2:{ intros i Hi. apply in_seq in Hi. rewrite (confusion_row_sum lt lp C i HC) by lia.
      apply count_if_ext. intros x _. rewrite andb_true_r. reflexivity. }
  rewrite Hl. rewrite (count_partition (fun tp : Z * Z => fst tp)).
  - unfold count_if. rewrite filter_all; [reflexivity|]. auto.
  - intros x Hx. apply (masked_range lt lp x Hx).
Qed.

Lemma confusion_trace lt lp C :
  confusion lt lp = Some C -> trace C = count_if (fun tp : Z * Z => (fst tp =? snd tp)%Z) (masked lt lp).
Proof.
  intros HC. unfold trace. destruct (confusion_entries _ _ _ HC) as [Hl [_ He]]. rewrite Hl.
  rewrite (sumn_map_ext _ (fun i => count_if (fun tp : Z * Z => (fst tp =? Z.of_nat i)%Z && (fst tp =? snd tp)%Z) (masked lt lp))).
  2:{ intros i Hi. apply in_seq in Hi. rewrite He by lia. apply count_if_ext. intros [t p] _. simpl.
      destruct (t =? Z.of_nat i)%Z eqn:E1; simpl; [|reflexivity]. apply Z.eqb_eq in E1. subst t.
      rewrite (Z.eqb_sym p). reflexivity. }
  apply (count_partition (fun tp : Z * Z => fst tp)). intros x Hx. apply (masked_range lt lp x Hx).
Qed.

(** accuracy = trace / total of the confusion matrix (and both functions fail on the same inputs) *)
Theorem accuracy_def lt lp :
  match accuracy lt lp, confusion lt lp with
  | Some a, Some C => (a == qnat (trace C) / qnat (total C))%Q /\ 0 < total C
  | None, None => True
  | _, _ => False
  end.
Proof.
  destruct (confusion lt lp) as [C|] eqn:HC.
  - pose proof (confusion_total _ _ _ HC) as Ht. pose proof (confusion_trace _ _ _ HC) as Hr.
    destruct (confusion_entries _ _ _ HC) as [_ [Hne _]].
    unfold accuracy. destruct (length (masked lt lp) =? 0) eqn:E.
    + apply Nat.eqb_eq in E. destruct (masked lt lp); [contradiction|discriminate].
    + apply Nat.eqb_neq in E. rewrite Ht, Hr. split; [reflexivity|lia].
  - unfold accuracy, confusion in *. destruct (length (masked lt lp) =? 0); [exact I|discriminate].
Qed.

Lemma tp_fn_true m k : count_if (fun x : Z * Z => (fst x =? k)%Z) m = tp m k + fn m k.
Proof. unfold tp, fn. apply (count_if_split (fun x : Z * Z => (fst x =? k)%Z) (fun x => (snd x =? k)%Z)). Qed.

Lemma tp_fp_pred m k : count_if (fun x : Z * Z => (snd x =? k)%Z) m = tp m k + fp m k.
Proof.
  unfold tp, fp. rewrite (count_if_split (fun x : Z * Z => (snd x =? k)%Z) (fun x => (fst x =? k)%Z)).
  f_equal; apply count_if_ext; intros x _; apply andb_comm.
Qed.

Lemma qnat_plus a b : (qnat (a + b) == qnat a + qnat b)%Q.
Proof. unfold qnat. rewrite Nat2Z.inj_add, inject_Z_plus. reflexivity. Qed.
Lemma qnat_pos a : 0 < a -> (0 < qnat a)%Q.
Proof. intros H. unfold qnat. change 0%Q with (inject_Z 0). rewrite <- Zlt_Qlt. lia. Qed.
Lemma qnat_nonneg a : (0 <= qnat a)%Q.
Proof. unfold qnat. change 0%Q with (inject_Z 0). rewrite <- Zle_Qle. lia. Qed.

Lemma f1_harmonic (a b c : Q) : (0 < a)%Q -> (0 <= b)%Q -> (0 <= c)%Q ->
  (2 / (1 / (a / (a + b)) + 1 / (a / (a + c))) == (2 * a) / (2 * a + b + c))%Q.
Proof. intros Ha Hb Hc. field. repeat split; lra. Qed.

(** per-class precision, recall and F1 computed from the confusion matrix equal the textbook formulas
    TP/(TP+FP), TP/(TP+FN), 2TP/(2TP+FP+FN) on the counted samples (0 when the denominator is 0) *)
Theorem prf_def lt lp f1 pr rc :
  f1_scores lt lp = Some (f1, pr, rc) ->
  let m := masked lt lp in
  let K := n_labels lt lp in
  length f1 = K /\ length pr = K /\ length rc = K /\
  forall k, k < K ->
    (nthq pr k == spec_precision m (Z.of_nat k))%Q /\
    (nthq rc k == spec_recall m (Z.of_nat k))%Q /\
    (nthq f1 k == spec_f1 m (Z.of_nat k))%Q.
Proof.
  intros H m K. unfold f1_scores in H. destruct (confusion lt lp) as [C|] eqn:HC; [|discriminate].
  cbn [option_map] in H. unfold prf_of_confusion in H. inversion H; subst f1 pr rc. clear H.
  destruct (confusion_entries _ _ _ HC) as [Hl [_ He]]. fold K in Hl, He. fold m in He.
  rewrite Hl.
  rewrite !map2_length, !map_length, !seq_length, !Nat.min_id.
  split; [reflexivity|]. split; [reflexivity|]. split; [reflexivity|].
  intros k Hk.
  set (ratio := fun a b : nat => if b =? 0 then 0%Q else (qnat a / qnat b)%Q).
  set (correct := map (fun i => centry C i i) (seq 0 K)).
  set (ctrue := map (fun i => sumn (map (fun j => centry C i j) (seq 0 K))) (seq 0 K)).
  set (cpred := map (fun j => sumn (map (fun i => centry C i j) (seq 0 K))) (seq 0 K)).
  assert (Hc : nth k correct 0 = tp m (Z.of_nat k)).
  { unfold correct. rewrite nth_map_seq0 by exact Hk. rewrite He by exact Hk. reflexivity. }
  assert (Ht : nth k ctrue 0 = tp m (Z.of_nat k) + fn m (Z.of_nat k)).
  { unfold ctrue. rewrite nth_map_seq0 by exact Hk.
    pose proof (confusion_row_sum lt lp C k HC Hk) as R. rewrite Hl in R. rewrite R. apply tp_fn_true. }
  assert (Hp : nth k cpred 0 = tp m (Z.of_nat k) + fp m (Z.of_nat k)).
  { unfold cpred. rewrite nth_map_seq0 by exact Hk.
    pose proof (confusion_col_sum lt lp C k HC Hk) as R. rewrite Hl in R. rewrite R. apply tp_fp_pred. }
  assert (Hlen : length correct = K /\ length ctrue = K /\ length cpred = K).
  { unfold correct, ctrue, cpred. rewrite !map_length, !seq_length. auto. }
  destruct Hlen as [L1 [L2 L3]].
  assert (Hrc : nthq (map2 ratio correct ctrue) k = spec_recall m (Z.of_nat k)).
  { unfold nthq. rewrite (nth_map2 ratio correct ctrue k 0 0 0%Q) by lia. rewrite Hc, Ht. reflexivity. }
  assert (Hpr : nthq (map2 ratio correct cpred) k = spec_precision m (Z.of_nat k)).
  { unfold nthq. rewrite (nth_map2 ratio correct cpred k 0 0 0%Q) by lia. rewrite Hc, Hp. reflexivity. }
  split; [rewrite Hpr; reflexivity|]. split; [rewrite Hrc; reflexivity|].
  unfold nthq. rewrite (nth_map2 _ _ _ k 0%Q 0%Q 0%Q) by (rewrite map2_length; lia).
  fold (nthq (map2 ratio correct cpred) k). fold (nthq (map2 ratio correct ctrue) k). rewrite Hpr, Hrc.
  unfold spec_precision, spec_recall, spec_f1.
  set (a := tp m (Z.of_nat k)). set (b := fp m (Z.of_nat k)). set (c := fn m (Z.of_nat k)).
  destruct (a =? 0) eqn:Ea.
  - apply Nat.eqb_eq in Ea. rewrite Ea. simpl Nat.add.
    assert (Hz : forall x, Qle_bool (if x =? 0 then 0 else qnat 0 / qnat x)%Q 0 = true).
    { intros x. apply Qle_bool_iff. destruct (x =? 0); [lra|]. unfold Qdiv. change (qnat 0) with 0%Q. lra. }
    rewrite Hz. reflexivity.
  - apply Nat.eqb_neq in Ea.
    destruct (a + b =? 0) eqn:E1; [apply Nat.eqb_eq in E1; lia|].
    destruct (a + c =? 0) eqn:E2; [apply Nat.eqb_eq in E2; lia|].
    assert (Ha : (0 < qnat a)%Q) by (apply qnat_pos; lia).
    pose proof (qnat_nonneg b) as Hb. pose proof (qnat_nonneg c) as Hcn.
    assert (P1 : (0 < qnat a / qnat (a + b))%Q).
    { rewrite qnat_plus. apply Qlt_shift_div_l; lra. }
    assert (P2 : (0 < qnat a / qnat (a + c))%Q).
    { rewrite qnat_plus. apply Qlt_shift_div_l; lra. }
    destruct (Qle_bool (qnat a / qnat (a + b)) 0) eqn:B1; [apply Qle_bool_iff in B1; lra|].
    destruct (Qle_bool (qnat a / qnat (a + c)) 0) eqn:B2; [apply Qle_bool_iff in B2; lra|].
    simpl orb. cbv iota.
    replace (2 * a + b + c) with ((a + a) + b + c) by lia. replace (2 * a) with (a + a) by lia.
    rewrite !qnat_plus. rewrite (f1_harmonic (qnat a) (qnat b) (qnat c) Ha Hb Hcn).
    apply Qeq_sym. setoid_replace (qnat a + qnat a)%Q with (2 * qnat a)%Q by ring. reflexivity.
Qed.

(** the averages, as the source computes them *)
Theorem average_def lt lp :
  average_f1 lt lp Micro = accuracy lt lp /\
  (forall f1 pr rc, f1_scores lt lp = Some (f1, pr, rc) ->
     exists x, average_f1 lt lp Macro = Some x /\
               (x == sumq (map (fun k => spec_f1 (masked lt lp) (Z.of_nat k)) (seq 0 (n_labels lt lp)))
                     / qnat (n_labels lt lp))%Q) /\
  (f1_scores lt lp = None -> average_f1 lt lp Macro = None /\ average_f1 lt lp Weighted = None).
Proof.
  split; [reflexivity|]. split.
  - intros f1 pr rc H. unfold average_f1. rewrite H. simpl. eexists. split; [reflexivity|].
    destruct (prf_def _ _ _ _ _ H) as [L [_ [_ Hk]]]. rewrite L.
    assert (Hs : (sumq f1 == sumq (map (fun k => spec_f1 (masked lt lp) (Z.of_nat k)) (seq 0 (n_labels lt lp))))%Q).
    { assert (G : forall (l : list Q) (F : nat -> Q) n, length l = n -> (forall k, k < n -> (nthq l k == F k)%Q) ->
                  (sumq l == sumq (map F (seq 0 n)))%Q).
      { intros l F n. revert l F. induction n as [|n IHn]; intros l F Hl HF.
        - destruct l; [reflexivity|discriminate].
        - destruct l as [|a t]; [discriminate|]. simpl in Hl. simpl seq. simpl.
          rewrite <- seq_shift, map_map. rewrite <- (IHn t (fun k => F (S k))).
          + specialize (HF 0 ltac:(lia)). unfold nthq in HF. simpl in HF. rewrite HF. reflexivity.
          + lia.
          + intros k Hk'. specialize (HF (S k) ltac:(lia)). exact HF. }
      apply G; [exact L|]. intros k Hk'. apply (Hk k Hk'). }
    rewrite Hs. reflexivity.
  - intros H. unfold average_f1. rewrite H. split; reflexivity.
Qed.

Lemma uniq_labels_In (labels : list Z) z : In z (uniq_labels labels) <-> In z labels /\ (0 <= z)%Z.
Proof.
  unfold uniq_labels. fold (uniq_of labels []). rewrite in_map_iff. split.
  - intros [x [<- Hx]]. apply uniq_of_In in Hx. destruct Hx as [[]|Hx]. split; [exact Hx|lia].
  - intros [Hin Hz]. exists (Z.to_nat z). split; [apply Z2Nat.id; exact Hz|].
    apply uniq_of_In. right. rewrite Z2Nat.id by exact Hz. exact Hin.
Qed.

Lemma uniq_labels_NoDup (labels : list Z) : NoDup (uniq_labels labels).
Proof.
  unfold uniq_labels. fold (uniq_of labels []).
  apply FinFun.Injective_map_NoDup; [intros a b H; lia|].
  apply ssorted_nodup. apply uniq_of_sorted. constructor.
Qed.

Lemma sumq_map_ext_eq {A} (F G : A -> Q) (l : list A) :
  (forall x, In x l -> (F x == G x)%Q) -> (sumq (map F l) == sumq (map G l))%Q.
Proof.
  induction l as [|a t IH]; simpl; intros H; [reflexivity|].
  rewrite (H a) by auto. rewrite IH; [reflexivity|]. intros x Hx. apply H. auto.
Qed.

Lemma map2_map_r {A B C} (f : A -> B -> C) (g : A -> B) (l : list A) :
  map2 f l (map g l) = map (fun x => f x (g x)) l.
Proof. induction l as [|a t IH]; simpl; [reflexivity|]. rewrite IH. reflexivity. Qed.

(** 'weighted' average: F1 of each label occurring in labels_true, weighted by its number of occurrences there *)
Theorem weighted_def lt lp f1 pr rc :
  f1_scores lt lp = Some (f1, pr, rc) ->
  let cnt := fun l => count_if (fun t => (t =? l)%Z) lt in
  exists x, average_f1 lt lp Weighted = Some x /\
    (x == sumq (map (fun l => spec_f1 (masked lt lp) l * qnat (cnt l)) (uniq_labels lt))
          / qnat (sumn (map cnt (uniq_labels lt))))%Q.
Proof.
  intros H cnt. unfold average_f1. rewrite H. cbn [option_map fst]. eexists. split; [reflexivity|].
  fold cnt. rewrite map2_map_r.
  destruct (prf_def _ _ _ _ _ H) as [_ [_ [_ Hk]]].
  rewrite (sumq_map_ext_eq _ (fun l => spec_f1 (masked lt lp) l * qnat (cnt l))%Q); [reflexivity|].
  intros l Hl. apply uniq_labels_In in Hl. destruct Hl as [Hin Hz].
  assert (Hlt : Z.to_nat l < n_labels lt lp).
  { unfold n_labels. pose proof (In_le_maxz _ _ Hin). pose proof (maxz_ge_m1 lp). lia. }
  destruct (Hk _ Hlt) as [_ [_ Hf]]. rewrite Hf, Z2Nat.id by exact Hz. reflexivity.
Qed.

(** * Probability rows *)

Definition nonneg_row (r : list Q) : Prop := Forall (fun x => 0 <= x)%Q r.
(** a probability row: non-negative entries summing to 1, or to 0 when no label reaches the node *)
Definition prob_row (r : list Q) : Prop := nonneg_row r /\ ((sumq r == 1)%Q \/ (sumq r == 0)%Q).

Lemma sumq_abs_nonneg (r : list Q) : nonneg_row r -> (sumq (map Qabs r) == sumq r)%Q.
Proof.
  induction r as [|a t IH]; intros H; simpl; [reflexivity|]. inversion H; subst.
  rewrite (Qabs_pos a) by assumption. rewrite IH by assumption. reflexivity.
Qed.

Lemma sumq_map_div (r : list Q) (s : Q) : ~ (s == 0)%Q ->
  (sumq (map (fun x => Qred (x / s)) r) == sumq r / s)%Q.
Proof.
  intros Hs. induction r as [|a t IH].
  - simpl. unfold Qdiv. lra.
  - rewrite map_cons, !sumq_cons, Qred_correct, IH. field. exact Hs.
Qed.

Lemma normalize_row_length r : length (normalize_row r) = length r.
Proof. unfold normalize_row. destruct (Qeq_bool _ _); [reflexivity|apply map_length]. Qed.

Theorem normalize_row_prob (r : list Q) : nonneg_row r -> prob_row (normalize_row r).
Proof.
  intros H. unfold normalize_row. pose proof (sumq_abs_nonneg r H) as Habs.
  pose proof (sumq_nonneg r H) as Hs.
  destruct (Qeq_bool (sumq (map Qabs r)) 0) eqn:E.
  - apply Qeq_bool_iff in E. split; [exact H|]. right. rewrite <- Habs. exact E.
  - assert (Hne : ~ (sumq (map Qabs r) == 0)%Q).
    { intros Heq. apply Qeq_bool_iff in Heq. congruence. }
    split.
    + unfold nonneg_row in *. rewrite Forall_forall in *. intros x Hx. apply in_map_iff in Hx.
      destruct Hx as [y [<- Hy]]. rewrite Qred_correct. specialize (H y Hy).
      apply Qle_shift_div_l; lra.
    + left. rewrite sumq_map_div by exact Hne. rewrite Habs in *. field. exact Hne.
Qed.

(** entries of a normalised row, up to == *)
Lemma normalize_row_nth (r : list Q) c :
  nonneg_row r ->
  (nthq (normalize_row r) c == if Qeq_bool (sumq r) 0 then nthq r c else nthq r c / sumq r)%Q.
Proof.
  intros H. unfold normalize_row. pose proof (sumq_abs_nonneg r H) as Habs.
  assert (Eb : Qeq_bool (sumq (map Qabs r)) 0 = Qeq_bool (sumq r) 0).
  { destruct (Qeq_bool (sumq r) 0) eqn:E.
    - apply Qeq_bool_iff. apply Qeq_bool_iff in E. rewrite Habs. exact E.
    - destruct (Qeq_bool (sumq (map Qabs r)) 0) eqn:E2; [|reflexivity].
      apply Qeq_bool_iff in E2. rewrite Habs in E2. apply Qeq_bool_iff in E2. congruence. }
  rewrite Eb. destruct (Qeq_bool (sumq r) 0) eqn:E; [reflexivity|].
  unfold nthq. destruct (Nat.lt_ge_cases c (length r)) as [Hc|Hc].
  - rewrite (nth_map_lt (fun x => Qred (x / sumq (map Qabs r))%Q) r c 0%Q 0%Q Hc).
    rewrite Qred_correct, Habs. reflexivity.
  - rewrite !nth_overflow by (try rewrite map_length; exact Hc). unfold Qdiv. lra.
Qed.

(** Propagation: probs_ *)
Theorem prop_probs_rows (adj : adjrows) (labels : list Z) :
  (forall r, In r adj -> Forall (fun p : nat * Q => 0 <= snd p)%Q r) ->
  Forall prob_row (prop_probs adj labels) /\
  Forall (fun r => length r = n_cols labels) (prop_probs adj labels) /\
  length (prop_probs adj labels) = length adj.
Proof.
  intros H. unfold prop_probs. split; [|split].
  - rewrite Forall_forall. intros x Hx. apply in_map_iff in Hx. destruct Hx as [r [<- Hr]].
    apply normalize_row_prob. unfold nonneg_row. rewrite Forall_forall. intros y Hy.
    apply in_map_iff in Hy. destruct Hy as [c [<- _]]. rewrite sumqr_sumq. apply sumq_nonneg.
    rewrite Forall_forall. intros z Hz. apply in_map_iff in Hz. destruct Hz as [p [<- Hp]].
    specialize (H r Hr). rewrite Forall_forall in H. specialize (H p Hp).
    destruct (nthz labels (fst p) =? Z.of_nat c)%Z; [exact H|lra].
  - rewrite Forall_forall. intros x Hx. apply in_map_iff in Hx. destruct Hx as [r [<- Hr]].
    rewrite normalize_row_length, map_length, seq_length. reflexivity.
  - apply map_length.
Qed.

(** RankClassifier *)
Lemma map_snd_combine {A B} (l1 : list A) (l2 : list B) :
  length l1 = length l2 -> map snd (combine l1 l2) = l2.
Proof.
  revert l2; induction l1 as [|a t IH]; intros [|b t2] H; simpl in *; try discriminate; auto.
  f_equal. apply IH. lia.
Qed.
Lemma map_fst_combine {A B} (l1 : list A) (l2 : list B) :
  length l1 = length l2 -> map fst (combine l1 l2) = l1.
Proof.
  revert l2; induction l1 as [|a t IH]; intros [|b t2] H; simpl in *; try discriminate; auto.
  f_equal. apply IH. lia.
Qed.

Lemma argmax_from_lt r : forall pos bp best, bp < pos -> argmax_from r pos bp best < pos + length r.
Proof.
  induction r as [|x t IH]; intros pos bp best H; simpl; [lia|].
  destruct (Qle_bool x best).
  - specialize (IH (S pos) bp best ltac:(lia)). lia.
  - specialize (IH (S pos) pos x ltac:(lia)). lia.
Qed.

Lemma argmax_first_lt r : r <> [] -> argmax_first r < length r.
Proof.
  destruct r as [|x t]; [congruence|]. intros _. simpl.
  pose proof (argmax_from_lt t 1 0 x ltac:(lia)). lia.
Qed.

(** contract of the ranking oracle: one non-negative score per node and class *)
Definition scores_ok (seeds : list Z) (scores : mat) : Prop :=
  Forall (fun r => length r = length (uniq_labels seeds) /\ nonneg_row r) scores.

Theorem rank_classify_ok (seeds : list Z) (scores : mat) :
  scores_ok seeds scores -> uniq_labels seeds <> [] ->
  let '(labels, probs) := rank_classify seeds scores in
  length labels = length scores /\ length probs = length scores /\
  (forall l, In l labels -> In l seeds /\ (0 <= l)%Z) /\
  Forall (fun r : list (Z * Q) => map fst r = uniq_labels seeds /\ prob_row (map snd r)) probs.
Proof.
  intros Hs Hne. unfold rank_classify. rewrite !map_length.
  split; [reflexivity|]. split; [reflexivity|]. unfold scores_ok in Hs. rewrite Forall_forall in Hs. split.
  - intros l Hl. apply in_map_iff in Hl. destruct Hl as [r' [<- Hr']].
    apply in_map_iff in Hr'. destruct Hr' as [r [<- Hr]]. destruct (Hs r Hr) as [Hlen _].
    apply uniq_labels_In. apply nth_In. rewrite <- Hlen, <- (normalize_row_length r).
    apply argmax_first_lt. intros E. apply Hne. apply length_zero_iff_nil.
    rewrite <- Hlen, <- (normalize_row_length r), E. reflexivity.
  - rewrite Forall_forall. intros x Hx. apply in_map_iff in Hx. destruct Hx as [r' [<- Hr']].
    apply in_map_iff in Hr'. destruct Hr' as [r [<- Hr]]. destruct (Hs r Hr) as [Hlen Hnn].
    assert (L : length (uniq_labels seeds) = length (normalize_row r)) by (rewrite normalize_row_length; auto).
    rewrite map_fst_combine, map_snd_combine by exact L. split; [reflexivity|].
    apply normalize_row_prob. exact Hnn.
Qed.

(** * Propagation *)

Lemma list_eqb_Z_eq a : forall b, list_eqb_Z a b = true <-> a = b.
Proof.
  induction a as [|x t IH]; intros [|y tb]; simpl; split; intros H; try discriminate; auto.
  - apply andb_true_iff in H. destruct H as [H1 H2]. apply Z.eqb_eq in H1. apply IH in H2. subst. reflexivity.
  - inversion H; subst. rewrite Z.eqb_refl. apply IH. reflexivity.
Qed.

Lemma scatter_length idx : forall base vals, length (scatter base idx vals) = length base.
Proof.
  induction idx as [|i t IH]; intros base [|v tv]; simpl; auto. rewrite IH. apply upd_length.
Qed.

Lemma scatter_In idx : forall base vals x, In x (scatter base idx vals) -> In x base \/ In x vals.
Proof.
  induction idx as [|i t IH]; intros base [|v tv] x H; simpl in *; auto.
  apply IH in H. destruct H as [H|H]; [|auto]. apply In_upd in H. destruct H as [->|H]; auto.
Qed.

Lemma scatter_other idx : forall base vals i, ~ In i idx -> nthz (scatter base idx vals) i = nthz base i.
Proof.
  induction idx as [|a t IH]; intros base [|v tv] i H; simpl in *; auto.
  rewrite IH by tauto. unfold nthz. apply nth_upd_other. tauto.
Qed.

Lemma scatter_map (f : nat -> Z) idx : forall base i,
  NoDup idx -> (forall j, In j idx -> j < length base) -> In i idx ->
  nthz (scatter base idx (map f idx)) i = f i.
Proof.
  induction idx as [|a t IH]; intros base i Hnd Hlt Hin; simpl in *; [contradiction|].
  inversion Hnd as [|? ? Hnotin Hnd']; subst.
  destruct (Nat.eq_dec a i) as [->|Ne].
  - rewrite scatter_other by exact Hnotin. unfold nthz. apply nth_upd_same. apply Hlt. auto.
  - destruct Hin as [E|Hin]; [contradiction|]. apply IH; auto.
    intros j Hj. rewrite upd_length. apply Hlt. auto.
Qed.

Lemma NoDup_filter {A} (f : A -> bool) l : NoDup l -> NoDup (filter f l).
Proof.
  induction 1 as [|a t Hnotin Hnd IH]; simpl; [constructor|].
  destruct (f a); [constructor|]; auto. rewrite filter_In. tauto.
Qed.

Lemma instantiate_vars_spec ct seeds :
  let n := length seeds in
  let '(index_seed, index_remain, labels_seed) := instantiate_vars ct seeds in
  labels_seed = map (nthz seeds) index_seed /\ NoDup index_seed /\ NoDup index_remain /\
  (forall i, In i index_seed -> i < n) /\ (forall i, In i index_remain -> i < n) /\
  (clustering_mode ct seeds = false ->
   (forall i, In i index_seed <-> i < n /\ (0 <= nthz seeds i)%Z) /\
   index_remain = filter (fun i => (nthz seeds i <? 0)%Z) (seq 0 n)).
Proof.
  intros n. unfold instantiate_vars. fold n. destruct (clustering_mode ct seeds).
  - split; [symmetry; apply map_nthz_seq|]. split; [apply seq_NoDup|]. split; [apply seq_NoDup|].
    split; [intros i Hi; apply in_seq in Hi; lia|]. split; [intros i Hi; apply in_seq in Hi; lia|]. discriminate.
  - split; [reflexivity|]. split; [apply NoDup_filter, seq_NoDup|]. split; [apply NoDup_filter, seq_NoDup|].
    split; [intros i Hi; apply filter_In in Hi; destruct Hi as [Hi _]; apply in_seq in Hi; lia|].
    split; [intros i Hi; apply filter_In in Hi; destruct Hi as [Hi _]; apply in_seq in Hi; lia|].
    intros _. split; [|reflexivity]. intros i. rewrite filter_In, in_seq, Z.leb_le. intuition lia.
Qed.

(** an invariant of the labels preserved by every sweep is preserved by the loop *)
Lemma prop_loop_inv (P : list Z -> Prop) kv c data index n_iter :
  (forall labels labels', P labels ->
      vote_update kv (c_indptr c) (c_indices c) data labels index = VOk labels' -> P labels') ->
  forall fuel t lr labels labels' t' b,
    P labels -> prop_loop kv c data index n_iter fuel t lr labels = POk (labels', t', b) -> P labels'.
Proof.
  intros Hstep. induction fuel as [|f IH]; intros t lr labels labels' t' b HP H; cbn [prop_loop] in H.
  - destruct (_ && _); [discriminate|]. inversion H; subst. exact HP.
  - destruct (_ && _).
    + destruct (vote_update kv (c_indptr c) (c_indices c) data labels index) as [l1|] eqn:Ev; [|discriminate].
      apply (IH _ _ _ _ _ _ (Hstep _ _ HP Ev) H).
    + inversion H; subst. exact HP.
Qed.

(** when the loop ends on the array_equal test after at least one sweep, the last sweep started from the
    returned labelling and changed nothing on the updated nodes *)
Lemma prop_loop_fixed kv c data index n_iter :
  forall fuel t lr labels labels' t',
    prop_loop kv c data index n_iter fuel t lr labels = POk (labels', t', true) ->
    (t' = t /\ labels' = labels /\ lr = map (nthz labels) index) \/
    (t < t' /\ exists l0, vote_update kv (c_indptr c) (c_indices c) data l0 index = VOk labels' /\
                          map (nthz l0) index = map (nthz labels') index).
Proof.
  induction fuel as [|f IH]; intros t lr labels labels' t' H; cbn [prop_loop] in H.
  - destruct (_ && _); [discriminate|]. inversion H; subst. left. split; [reflexivity|]. split; [reflexivity|].
    apply list_eqb_Z_eq. assumption.
  - destruct (_ && _).
    + destruct (vote_update kv (c_indptr c) (c_indices c) data labels index) as [l1|] eqn:Ev; [|discriminate].
      apply IH in H. right. destruct H as [[-> [-> Heq]]|[Hlt [l0 [Hv Hm]]]].
      * split; [lia|]. exists labels. split; [exact Ev|exact Heq].
      * split; [lia|]. exists l0. split; assumption.
    + inversion H; subst. left. split; [reflexivity|]. split; [reflexivity|].
      apply list_eqb_Z_eq. assumption.
Qed.

Definition pdata (pv : pvariant) (c : csr) (n : nat) (weighted : bool) : list Q :=
  if weighted then c_data c
  else repeat 1%Q (match pv_ones pv with Ones_n => n | Ones_nnz => length (c_indices c) end).

(** unfolding of [propagation] used by all the theorems below *)
Lemma propagation_unfold pv c seeds order oracle weighted n_iter fuel res :
  propagation pv c seeds order oracle weighted n_iter fuel = POk res ->
  let n := length seeds in
  let '(index_seed, index_remain0, labels_seed) := instantiate_vars (pv_ctest pv) seeds in
  let index := order_index (pv_order pv) order oracle index_remain0 in
  pr_index res = index /\
  pr_probs res = prop_probs (csr_rows c n) (pr_labels res) /\
  prop_loop (pv_kernel pv) c (pdata pv c n weighted) index n_iter fuel 0 (repeat 0%Z (length index))
            (scatter (repeat (-1)%Z n) index_seed labels_seed) = POk (pr_labels res, pr_sweeps res, pr_fixed res).
Proof.
  unfold propagation, pdata. intros H.
  destruct (instantiate_vars (pv_ctest pv) seeds) as [[is ir] ls].
  destruct (prop_loop _ _ _ _ _ _ _ _ _) as [[[l t] b]| |]; try discriminate.
  inversion H; subst res. simpl. auto.
Qed.

(** every predicted label is -1 or one of the seed labels (non-negative outside clustering mode) *)
Theorem propagation_labels pv c seeds order oracle weighted n_iter fuel res :
  propagation pv c seeds order oracle weighted n_iter fuel = POk res ->
  length (pr_labels res) = length seeds /\
  forall x, In x (pr_labels res) ->
    x = (-1)%Z \/ (In x seeds /\ (clustering_mode (pv_ctest pv) seeds = false -> (0 <= x)%Z)).
Proof.
  intros H. pose proof (propagation_unfold _ _ _ _ _ _ _ _ _ H) as U. cbv zeta in U.
  pose proof (instantiate_vars_spec (pv_ctest pv) seeds) as S. cbv zeta in S.
  destruct (instantiate_vars (pv_ctest pv) seeds) as [[is ir] ls].
  destruct U as [_ [_ U]]. destruct S as [Sls [_ [_ [Sis [_ Smode]]]]].
  set (P := fun labels : list Z => length labels = length seeds /\
              forall x, In x labels -> x = (-1)%Z \/ (In x seeds /\ (clustering_mode (pv_ctest pv) seeds = false -> (0 <= x)%Z))).
  assert (Hstep : forall labels labels', P labels ->
      vote_update (pv_kernel pv) (c_indptr c) (c_indices c) (pdata pv c (length seeds) weighted) labels
                  (order_index (pv_order pv) order oracle ir) = VOk labels' -> P labels').
  { unfold P. intros labels labels' [HL HP] Hv.
    destruct (vote_update_labels_from_input _ _ _ _ _ _ _ Hv) as [L [_ I]].
    split; [lia|]. intros x Hx. apply HP. apply I. exact Hx. }
  apply (prop_loop_inv P _ _ _ _ _ Hstep) in U; [exact U|]. unfold P.
  split.
  - rewrite scatter_length, repeat_length. reflexivity.
  - intros x Hx. apply scatter_In in Hx. destruct Hx as [Hx|Hx].
    + left. apply repeat_spec in Hx. exact Hx.
    + right. subst ls. apply in_map_iff in Hx. destruct Hx as [i [<- Hi]]. split.
      * unfold nthz. apply nth_In. apply Sis. exact Hi.
      * intros Hm. destruct (Smode Hm) as [Hs _]. apply Hs in Hi. tauto.
Qed.

(** admissible update orders for the theorems about "every non-seed node": index order, or any shuffle *)
Definition order_ok (oi : order_impl) (order : node_order) (oracle : list nat) (seeds : list Z) : Prop :=
  match order with
  | ONone => True
  | ORandom => Permutation (filter (fun i => (nthz seeds i <? 0)%Z) (seq 0 (length seeds))) oracle
  | _ => oi = OI_filter /\ Permutation oracle (seq 0 (length seeds))
  end.

Lemma pr_index_spec pv c seeds order oracle weighted n_iter fuel res :
  propagation pv c seeds order oracle weighted n_iter fuel = POk res ->
  clustering_mode (pv_ctest pv) seeds = false -> order_ok (pv_order pv) order oracle seeds ->
  NoDup (pr_index res) /\
  forall i, In i (pr_index res) <-> i < length seeds /\ (nthz seeds i < 0)%Z.
Proof.
  intros H Hm Ho. pose proof (propagation_unfold _ _ _ _ _ _ _ _ _ H) as U. cbv zeta in U.
  pose proof (instantiate_vars_spec (pv_ctest pv) seeds) as S. cbv zeta in S.
  destruct (instantiate_vars (pv_ctest pv) seeds) as [[is ir] ls].
  destruct U as [U _]. destruct S as [_ [_ [Sir [_ [_ Smode]]]]]. destruct (Smode Hm) as [_ Eir].
  assert (Hspec : forall i, In i ir <-> i < length seeds /\ (nthz seeds i < 0)%Z).
  { intros i. rewrite Eir, filter_In, in_seq, Z.ltb_lt. intuition lia. }
  assert (Hfilt : pv_order pv = OI_filter /\ Permutation oracle (seq 0 (length seeds)) ->
                  NoDup (filter (fun i => memn i ir) oracle) /\
                  forall i, In i (filter (fun i => memn i ir) oracle) <-> i < length seeds /\ (nthz seeds i < 0)%Z).
  { intros [_ Hp]. split.
    - apply NoDup_filter. apply Permutation_sym in Hp. eapply Permutation_NoDup; [exact Hp|apply seq_NoDup].
    - intros i. rewrite filter_In, memn_In, Hspec. split; [tauto|]. intros Hi. split; [|exact Hi].
      apply Permutation_sym in Hp. apply (Permutation_in _ Hp). apply in_seq. lia. }
  rewrite U. destruct order; simpl in *.
  - rewrite <- Eir in Ho. split; [eapply Permutation_NoDup; eassumption|].
    intros i. rewrite <- Hspec. split; intros Hi; [apply Permutation_sym in Ho|]; eapply Permutation_in; eassumption.
  - destruct Ho as [Ho1 Ho2]. rewrite Ho1. apply Hfilt. split; assumption.
  - destruct Ho as [Ho1 Ho2]. rewrite Ho1. apply Hfilt. split; assumption.
  - split; assumption.
Qed.

(** seeds keep their labels (outside clustering mode, for the index and random orders) *)
Theorem propagation_seeds_fixed_model pv c seeds order oracle weighted n_iter fuel res :
  propagation pv c seeds order oracle weighted n_iter fuel = POk res ->
  clustering_mode (pv_ctest pv) seeds = false -> order_ok (pv_order pv) order oracle seeds ->
  forall i, i < length seeds -> (0 <= nthz seeds i)%Z -> nthz (pr_labels res) i = nthz seeds i.
Proof.
  intros H Hm Ho i Hi Hs.
  destruct (pr_index_spec _ _ _ _ _ _ _ _ _ H Hm Ho) as [_ Hidx].
  pose proof (propagation_unfold _ _ _ _ _ _ _ _ _ H) as U. cbv zeta in U.
  pose proof (instantiate_vars_spec (pv_ctest pv) seeds) as S. cbv zeta in S.
  destruct (instantiate_vars (pv_ctest pv) seeds) as [[is ir] ls].
  destruct U as [Ui [_ U]]. destruct S as [Sls [Sis [_ [Slt [_ Smode]]]]]. destruct (Smode Hm) as [Sin _].
  set (l0 := scatter (repeat (-1)%Z (length seeds)) is ls) in *.
  assert (H0 : nthz l0 i = nthz seeds i).
  { unfold l0. subst ls. apply scatter_map; auto.
    - intros j Hj. rewrite repeat_length. apply Slt. exact Hj.
    - apply Sin. split; assumption. }
  rewrite <- H0. rewrite <- Ui in U.
  assert (Hstep : forall labels labels', nthz labels i = nthz l0 i ->
      vote_update (pv_kernel pv) (c_indptr c) (c_indices c) (pdata pv c (length seeds) weighted) labels
                  (pr_index res) = VOk labels' -> nthz labels' i = nthz l0 i).
  { intros labels labels' HP Hv.
    destruct (vote_update_labels_from_input _ _ _ _ _ _ _ Hv) as [_ [F _]].
    rewrite F; [exact HP|]. intros Hin. apply Hidx in Hin. lia. }
  apply (prop_loop_inv (fun labels => nthz labels i = nthz l0 i) _ _ _ _ _ Hstep) in U; [exact U|reflexivity].
Qed.

(** the fixed-point theorem, unweighted path, for EVERY kernel variant: when the loop stopped because a sweep
    changed nothing, every updated node with a labelled neighbour holds a label with a maximal number of
    votes among its neighbours *)
Theorem propagation_fixed_point_unweighted_model pv c seeds order oracle n_iter fuel res :
  propagation pv c seeds order oracle false n_iter fuel = POk res ->
  pr_fixed res = true -> 0 < pr_sweeps res -> NoDup (pr_index res) ->
  forall i, In i (pr_index res) ->
    has_labelled_neighbour (nbrs_unit (c_indptr c) (c_indices c) i) (pr_labels res) ->
    local_max (nbrs_unit (c_indptr c) (c_indices c) i) (pr_labels res) i.
Proof.
  intros H Hf Ht Hnd i Hi Hnb. pose proof (propagation_unfold _ _ _ _ _ _ _ _ _ H) as U. cbv zeta in U.
  destruct (instantiate_vars (pv_ctest pv) seeds) as [[is ir] ls]. destruct U as [Ui [_ U]].
  rewrite <- Ui in U. rewrite Hf in U. apply prop_loop_fixed in U.
  destruct U as [[E _]|[_ [l0 [Hv Hm]]]]; [lia|]. unfold pdata in Hv.
  assert (Hsame : forall j, In j (pr_index res) -> nthz (pr_labels res) j = nthz l0 j).
  { intros j Hj. apply In_nth with (d := 0) in Hj. destruct Hj as [k [Hk <-]].
    apply (f_equal (fun l => nth k l 0%Z)) in Hm.
    rewrite !(nth_map_lt _ _ _ 0 0%Z) in Hm by exact Hk. symmetry. exact Hm. }
  destruct (vote_fixed_point_unweighted _ _ _ _ _ _ _ Hv Hnd Hsame) as [_ Hmax].
  apply Hmax; assumption.
Qed.

(** the same for weighted votes, for a kernel that reads the weight of the edge and clears votes_neigh *)
Theorem propagation_fixed_point_weighted_model pv c seeds order oracle n_iter fuel res :
  wpos (pv_kernel pv) = true -> clr (pv_kernel pv) = true ->
  Forall (fun w => 0 <= w)%Q (c_data c) ->
  propagation pv c seeds order oracle true n_iter fuel = POk res ->
  pr_fixed res = true -> 0 < pr_sweeps res -> NoDup (pr_index res) ->
  forall i, In i (pr_index res) ->
    has_labelled_neighbour (nbrs_weighted (c_indptr c) (c_indices c) (c_data c) i) (pr_labels res) ->
    local_max (nbrs_weighted (c_indptr c) (c_indices c) (c_data c) i) (pr_labels res) i.
Proof.
  intros Hkw Hkc Hnn H Hf Ht Hnd i Hi Hnb. pose proof (propagation_unfold _ _ _ _ _ _ _ _ _ H) as U. cbv zeta in U.
  destruct (instantiate_vars (pv_ctest pv) seeds) as [[is ir] ls]. destruct U as [Ui [_ U]].
  rewrite <- Ui in U. rewrite Hf in U. apply prop_loop_fixed in U.
  destruct U as [[E _]|[_ [l0 [Hv Hm]]]]; [lia|]. unfold pdata in Hv.
  assert (Hsame : forall j, In j (pr_index res) -> nthz (pr_labels res) j = nthz l0 j).
  { intros j Hj. apply In_nth with (d := 0) in Hj. destruct Hj as [k [Hk' <-]].
    apply (f_equal (fun l => nth k l 0%Z)) in Hm.
    rewrite !(nth_map_lt _ _ _ 0 0%Z) in Hm by exact Hk'. symmetry. exact Hm. }
  destruct (vote_fixed_point_weighted _ _ _ _ _ _ _ Hkw Hkc Hnn Hv Hnd Hsame) as [_ Hmax].
  apply Hmax; assumption.
Qed.

(** ** Refutations, all about LEGACY variants of the source (kept so that a regression is recognised by name).
    [pv_legacy]: the source before 32660cf6 (kernel reads data[node], never clears votes_neigh, votes of length n;
    ones of length n). [pv_32660cf6]: kernel repaired, but before 4b87643c / c0b9c86b: the clustering test is
    len(set(labels)) == n and 'increasing' / 'decreasing' index the argsort by position. *)
Definition pv_legacy : pvariant :=
  {| pv_kernel := legacy_kernel; pv_ctest := CT_distinct; pv_ones := Ones_n; pv_order := OI_position |}.
Definition pv_32660cf6 : pvariant :=
  {| pv_kernel := repaired_kernel; pv_ctest := CT_distinct; pv_ones := Ones_nnz; pv_order := OI_position |}.

(** D5 (legacy kernel): weighted propagation stops at a labelling where node 3 holds label 0 although label 1
    has weight 2 > 1; the repaired kernel gives label 1 on the same input *)
Definition wit_csr : csr := {| c_indptr := wit_indptr; c_indices := wit_indices; c_data := wit_data |}.
Theorem propagation_weighted_refuted_legacy :
  (exists res', propagation pv_32660cf6 wit_csr [-1; 0; 1; -1]%Z ONone [] true None 10 = POk res' /\
                pr_labels res' = [-1; 0; 1; 1]%Z) /\
  exists res, propagation pv_legacy wit_csr [-1; 0; 1; -1]%Z ONone [] true None 10 = POk res /\
    pr_fixed res = true /\ 0 < pr_sweeps res /\ clustering_mode CT_distinct [-1; 0; 1; -1]%Z = false /\
    Forall (fun w => 0 < w)%Q (c_data wit_csr) /\
    In 3 (pr_index res) /\
    has_labelled_neighbour (nbrs_weighted wit_indptr wit_indices wit_data 3) (pr_labels res) /\
    ~ local_max (nbrs_weighted wit_indptr wit_indices wit_data 3) (pr_labels res) 3.
Proof.
  split; [eexists; split; [vm_compute; reflexivity|reflexivity]|].
  eexists. split; [vm_compute; reflexivity|]. cbn [pr_fixed pr_sweeps pr_index pr_labels].
  split; [reflexivity|]. split; [lia|]. split; [reflexivity|]. split; [repeat constructor|].
  split; [simpl; auto|].
  destruct vote_weighted_refuted_legacy as [_ [_ [_ [_ [Hn Hl]]]]]. split; assumption.
Qed.

(** D21 (legacy, before 4b87643c): [[0,4,0],[4,0,0],[0,0,0]], seeds {0:0, 1:1}: three distinct values in a vector of length 3 are taken
    for clustering mode and seed 0 loses its label *)
Theorem propagation_seeds_fixed_refuted_legacy :
  let c := {| c_indptr := [0; 1; 2; 2]; c_indices := [1; 0]; c_data := [4; 4]%Q |} in
  let seeds := [0; 1; -1]%Z in
  exists res, propagation pv_32660cf6 c seeds ONone [] true None 10 = POk res /\
    pr_labels res = [1; 1; -1]%Z /\ nthz seeds 0 = 0%Z /\ nthz (pr_labels res) 0 <> nthz seeds 0 /\
    clustering_mode CT_distinct seeds = true.
Proof.
  cbv zeta. eexists. split; [vm_compute; reflexivity|]. cbn [pr_labels].
  split; [reflexivity|]. split; [reflexivity|]. split; [discriminate|reflexivity].
Qed.

(** legacy (before c0b9c86b) node_order='increasing' / 'decreasing': [index_remain = index[index_remain]] selects the entries of the
    argsort at the POSITIONS of the free nodes, not the free nodes in sorted order. Graph 0-1, 0-2, 1-2, 1-3,
    seeds {1:0, 3:1}, in-weights [2,3,2,1], argsort [3,0,2,1]: nodes 3 and 2 are updated, seed 3 loses its
    label and node 0 is never updated. *)
Theorem propagation_order_refuted_legacy :
  let c := {| c_indptr := [0; 2; 5; 7; 8]; c_indices := [1; 2; 0; 2; 3; 0; 1; 1];
              c_data := [1; 1; 1; 1; 1; 1; 1; 1]%Q |} in
  let seeds := [-1; 0; -1; 1]%Z in
  let inw := [2; 3; 2; 1]%Z in
  let oracle := [3; 0; 2; 1] in
  Permutation oracle (seq 0 4) /\ Sorted Z.le (map (nthz inw) oracle) /\
  clustering_mode CT_distinct seeds = false /\
  exists res, propagation pv_32660cf6 c seeds OIncreasing oracle true (Some 5) 5 = POk res /\
    pr_index res = [3; 2] /\ pr_labels res = [-1; 0; 0; 0]%Z /\
    nthz seeds 3 = 1%Z /\ nthz (pr_labels res) 3 <> nthz seeds 3.
Proof.
  cbv zeta. split.
  { apply (perm_trans (l' := [0; 3; 2; 1])).
    - apply perm_swap.
    - apply perm_skip. apply (perm_trans (l' := [2; 3; 1])); [apply perm_swap|].
      apply (perm_trans (l' := [2; 1; 3])); [apply perm_skip, perm_swap|]. apply perm_swap. }
  split.
  { cbv [map nthz nth]. repeat (first [apply Sorted_nil | apply HdRel_nil | apply Sorted_cons | apply HdRel_cons]); lia. }
  split; [reflexivity|].
  eexists. split; [vm_compute; reflexivity|]. cbn [pr_index pr_labels].
  split; [reflexivity|]. split; [reflexivity|]. split; [reflexivity|discriminate].
Qed.

(** * DiffusionClassifier *)

Lemma index_of_nth x l : forall c, index_of x l = Some c -> nth c l (-1)%Z = x /\ c < length l.
Proof.
  induction l as [|y t IH]; intros c H; simpl in H; [discriminate|].
  destruct (x =? y)%Z eqn:E.
  - inversion H; subst. apply Z.eqb_eq in E. simpl. split; [auto|lia].
  - destruct (index_of x t) as [c'|]; [|discriminate]. simpl in H. inversion H; subst.
    destruct (IH c' eq_refl) as [H1 H2]. simpl. split; [exact H1|lia].
Qed.

Lemma index_of_In x l : In x l -> exists c, index_of x l = Some c.
Proof.
  induction l as [|y t IH]; intros H; simpl in *; [contradiction|].
  destruct (x =? y)%Z eqn:E; [eexists; reflexivity|].
  destruct H as [->|H]; [rewrite Z.eqb_refl in E; discriminate|].
  destruct (IH H) as [c Hc]. rewrite Hc. eexists; reflexivity.
Qed.

Lemma index_of_nth_nodup l : NoDup l -> forall j, j < length l -> index_of (nth j l (-1)%Z) l = Some j.
Proof.
  induction 1 as [|y t Hnotin Hnd IH]; intros j Hj; simpl in *; [lia|].
  destruct j as [|j].
  - rewrite Z.eqb_refl. reflexivity.
  - destruct (nth j t (-1)%Z =? y)%Z eqn:E.
    + apply Z.eqb_eq in E. exfalso. apply Hnotin. rewrite <- E. apply nth_In. lia.
    + rewrite IH by lia. reflexivity.
Qed.

Lemma nthq_onehot k c j : nthq (onehot k c) j = if (j <? k) && (j =? c) then 1%Q else 0%Q.
Proof.
  unfold onehot, nthq. destruct (Nat.ltb_spec j k) as [H|H].
  - rewrite nth_map_seq0 by exact H. reflexivity.
  - rewrite nth_overflow by (rewrite map_length, seq_length; exact H). reflexivity.
Qed.

Lemma nthq_repeat_q (q : Q) k j : nthq (repeat q k) j = if j <? k then q else 0%Q.
Proof.
  unfold nthq. destruct (Nat.ltb_spec j k) as [H|H].
  - assert (Hin : In (nth j (repeat q k) 0%Q) (repeat q k)) by (apply nth_In; rewrite repeat_length; exact H).
    apply repeat_spec in Hin. exact Hin.
  - apply nth_overflow. rewrite repeat_length. exact H.
Qed.

(** argmax *)
Lemma argmax_from_le r : forall pos bp best, (forall x, In x r -> (x <= best)%Q) -> argmax_from r pos bp best = bp.
Proof.
  induction r as [|x t IH]; intros pos bp best H; simpl; [reflexivity|].
  assert (E : Qle_bool x best = true) by (apply Qle_bool_iff; apply H; left; reflexivity).
  rewrite E. apply IH. intros y Hy. apply H. right. exact Hy.
Qed.

Lemma argmax_from_peak pre m post : forall pos bp best,
  (best < m)%Q -> (forall x, In x pre -> (x < m)%Q) -> (forall x, In x post -> (x <= m)%Q) ->
  argmax_from (pre ++ m :: post) pos bp best = pos + length pre.
Proof.
  induction pre as [|x t IH]; intros pos bp best Hb Hpre Hpost; simpl.
  - assert (E : Qle_bool m best = false).
    { destruct (Qle_bool m best) eqn:E; [|reflexivity]. apply Qle_bool_iff in E. lra. }
    rewrite E. rewrite argmax_from_le by exact Hpost. lia.
  - assert (Hpre' : forall y, In y t -> (y < m)%Q) by (intros y Hy; apply Hpre; right; exact Hy).
    assert (Hx : (x < m)%Q) by (apply Hpre; left; reflexivity).
    destruct (Qle_bool x best).
    + rewrite IH; auto. lia.
    + rewrite IH; auto. lia.
Qed.

Lemma argmax_first_unique (r : list Q) (c : nat) :
  c < length r -> (forall j, j < length r -> j <> c -> (nthq r j < nthq r c)%Q) -> argmax_first r = c.
Proof.
  intros Hc H. destruct (nth_split r 0%Q Hc) as [pre [post [Hr Hlen]]].
  fold (nthq r c) in Hr. set (m := nthq r c) in *.
  assert (Hlenr : length r = c + S (length post)).
  { rewrite Hr. rewrite app_length. simpl. lia. }
  assert (Hpre : forall x, In x pre -> (x < m)%Q).
  { intros x Hx. apply (In_nth _ _ 0%Q) in Hx. destruct Hx as [j [Hj <-]].
    assert (E : nth j pre 0%Q = nthq r j). { unfold nthq. rewrite Hr. rewrite app_nth1 by exact Hj. reflexivity. }
    rewrite E. apply H; lia. }
  assert (Hpost : forall x, In x post -> (x <= m)%Q).
  { intros x Hx. apply (In_nth _ _ 0%Q) in Hx. destruct Hx as [j [Hj <-]].
    assert (E : nth j post 0%Q = nthq r (c + S j)).
    { unfold nthq. rewrite Hr. rewrite app_nth2 by lia. rewrite Hlen.
      replace (c + S j - c) with (S j) by lia. reflexivity. }
    rewrite E. apply Qlt_le_weak. apply H; lia. }
  rewrite Hr. destruct pre as [|x t]; simpl in *.
  - rewrite argmax_from_le by exact Hpost. try lia.
  - rewrite argmax_from_peak; auto; try lia.
Qed.

(** convex combinations stay in [0, 1] *)
Definition good_row (r : list (nat * Q)) : Prop :=
  Forall (fun p : nat * Q => 0 <= snd p)%Q r /\ (sumq (map snd r) <= 1)%Q.

Lemma convex01 (r : list (nat * Q)) (x : nat * Q -> Q) :
  Forall (fun p : nat * Q => 0 <= snd p)%Q r -> (forall p, In p r -> 0 <= x p <= 1)%Q ->
  (0 <= sumq (map (fun p => snd p * x p) r) <= sumq (map snd r))%Q.
Proof.
  induction r as [|p t IH]; intros Hw Hx; simpl; [lra|].
  inversion Hw; subst. specialize (IH H2 (fun q Hq => Hx q (or_intror Hq))).
  specialize (Hx p (or_introl eq_refl)). nra.
Qed.

Lemma norm_adj_row_good (r : list (nat * Q)) :
  Forall (fun p : nat * Q => 0 <= snd p)%Q r -> good_row (norm_adj_row r).
Proof.
  intros H. unfold norm_adj_row.
  assert (Habs : (sumq (map (fun p : nat * Q => Qabs (snd p)) r) == sumq (map snd r))%Q).
  { clear -H. induction r as [|p t IH]; simpl; [reflexivity|]. inversion H; subst.
    rewrite (Qabs_pos (snd p)) by assumption. rewrite IH by assumption. reflexivity. }
  set (s := sumq (map (fun p : nat * Q => Qabs (snd p)) r)) in *.
  assert (Hs : (0 <= s)%Q).
  { rewrite Habs. apply sumq_nonneg. rewrite Forall_forall in *. intros x Hx. apply in_map_iff in Hx.
    destruct Hx as [p [<- Hp]]. apply H. exact Hp. }
  destruct (Qeq_bool s 0) eqn:E.
  - apply Qeq_bool_iff in E. split; [exact H|]. rewrite <- Habs, E. lra.
  - assert (Hne : ~ (s == 0)%Q) by (intros Heq; apply Qeq_bool_iff in Heq; congruence).
    split.
    + rewrite Forall_forall in *. intros p Hp. apply in_map_iff in Hp. destruct Hp as [q [<- Hq]]. cbn [snd fst].
      rewrite Qred_correct. specialize (H q Hq). apply Qle_shift_div_l; lra.
    + rewrite map_map. cbn [snd fst].
      assert (G : (sumq (map (fun q : nat * Q => Qred (snd q / s)) r) == sumq (map snd r) / s)%Q).
      { clearbody s. clear -Hne. induction r as [|p t IH]; [simpl; unfold Qdiv; lra|].
        rewrite !map_cons, !sumq_cons, Qred_correct, IH. field. exact Hne. }
      rewrite G, <- Habs. apply Qle_shift_div_r; lra.
Qed.

Definition in01m (T : mat) : Prop := forall i c, (0 <= nthq (mrow T i) c <= 1)%Q.

Lemma mrow_map_seq (f : nat -> list Q) n i : mrow (map f (seq 0 n)) i = if i <? n then f i else [].
Proof.
  unfold mrow. destruct (Nat.ltb_spec i n) as [H|H].
  - apply nth_map_seq0. exact H.
  - apply nth_overflow. rewrite map_length, seq_length. exact H.
Qed.

Lemma nthq_dot_row k r T c :
  nthq (dot_row k r T) c = if c <? k then sumqr (map (fun p : nat * Q => (snd p * nthq (mrow T (fst p)) c)%Q) r) else 0%Q.
Proof.
  unfold dot_row, nthq. destruct (Nat.ltb_spec c k) as [H|H].
  - rewrite nth_map_seq0 by exact H. reflexivity.
  - apply nth_overflow. rewrite map_length, seq_length. exact H.
Qed.

Lemma dot_row_in01 k r T c : good_row r -> in01m T -> (0 <= nthq (dot_row k r T) c <= 1)%Q.
Proof.
  intros [Hw Hs] HT. rewrite nthq_dot_row. destruct (c <? k); [|lra].
  rewrite sumqr_sumq. pose proof (convex01 r (fun p => nthq (mrow T (fst p)) c) Hw (fun p _ => HT (fst p) c)) as Hc.
  cbv beta in Hc. lra.
Qed.

Lemma dc_init_row k lu labels i : i < length labels ->
  mrow (dc_init k lu labels) i =
  if (0 <=? nthz labels i)%Z then match index_of (nthz labels i) lu with Some c => onehot k c | None => repeat 0%Q k end
  else repeat 1%Q k.
Proof. intros H. unfold mrow, dc_init. rewrite (nth_map_lt _ labels i 0%Z []) by exact H. reflexivity. Qed.

Lemma dc_init_in01 k lu labels : in01m (dc_init k lu labels).
Proof.
  intros i c. destruct (Nat.lt_ge_cases i (length labels)) as [H|H].
  - rewrite dc_init_row by exact H. destruct (0 <=? nthz labels i)%Z.
    + destruct (index_of (nthz labels i) lu).
      * rewrite nthq_onehot. destruct ((c <? k) && (c =? n)); lra.
      * rewrite nthq_repeat_q. destruct (c <? k); lra.
    + rewrite nthq_repeat_q. destruct (c <? k); lra.
  - unfold mrow. rewrite nth_overflow by (unfold dc_init; rewrite map_length; exact H).
    unfold nthq. destruct c; simpl; lra.
Qed.

Lemma dc_init_row_length k lu labels i : i < length labels -> length (mrow (dc_init k lu labels) i) = k.
Proof.
  intros H. rewrite dc_init_row by exact H. destruct (0 <=? nthz labels i)%Z.
  - destruct (index_of (nthz labels i) lu); [unfold onehot; rewrite map_length, seq_length|rewrite repeat_length]; reflexivity.
  - apply repeat_length.
Qed.

Record TInv (k : nat) (labels : list Z) (T0 T : mat) : Prop :=
  { ti_len : length T = length labels;
    ti_01 : in01m T;
    ti_row : forall i, i < length labels -> length (mrow T i) = k;
    ti_seed : forall i, i < length labels -> (0 <= nthz labels i)%Z -> mrow T i = mrow T0 i }.

Lemma dc_iter_inv (adj : adjrows) (labels : list Z) (n_iter : nat) :
  (forall r, In r adj -> Forall (fun p : nat * Q => 0 <= snd p)%Q r) ->
  let lu := uniq_labels labels in
  let k := length lu in
  let T0 := dc_init k lu labels in
  TInv k labels T0 (Nat.iter n_iter (dc_step k (map norm_adj_row adj) labels T0) T0).
Proof.
  intros Hadj lu k T0.
  assert (Hgood : forall i, good_row (nth i (map norm_adj_row adj) [])).
  { intros i. destruct (Nat.lt_ge_cases i (length adj)) as [H|H].
    - rewrite (nth_map_lt norm_adj_row adj i [] []) by exact H. apply norm_adj_row_good. apply Hadj. apply nth_In. exact H.
    - rewrite nth_overflow by (rewrite map_length; exact H). split; [constructor|simpl; lra]. }
  induction n_iter as [|m IH].
  - simpl. constructor.
    + unfold T0, dc_init. apply map_length.
    + apply dc_init_in01.
    + intros i Hi. apply dc_init_row_length. exact Hi.
    + reflexivity.
  - simpl. set (T := Nat.iter m (dc_step k (map norm_adj_row adj) labels T0) T0) in *.
    destruct IH as [I1 I2 I3 I4].
    assert (Hrow : forall i, mrow (dc_step k (map norm_adj_row adj) labels T0 T) i =
                   if i <? length labels then
                     (if (0 <=? nthz labels i)%Z then mrow T0 i else dot_row k (nth i (map norm_adj_row adj) []) T)
                   else []).
    { intros i. unfold dc_step. apply mrow_map_seq. }
    constructor.
    + unfold dc_step. rewrite map_length, seq_length. reflexivity.
    + intros i c. rewrite Hrow. destruct (i <? length labels); [|destruct c; unfold nthq; simpl; lra].
      destruct (0 <=? nthz labels i)%Z; [apply dc_init_in01|]. apply dot_row_in01; auto.
    + intros i Hi. rewrite Hrow. apply Nat.ltb_lt in Hi. rewrite Hi. apply Nat.ltb_lt in Hi.
      destruct (0 <=? nthz labels i)%Z; [apply dc_init_row_length; exact Hi|].
      unfold dot_row. rewrite map_length, seq_length. reflexivity.
    + intros i Hi Hs. rewrite Hrow. apply Nat.ltb_lt in Hi. rewrite Hi. apply Z.leb_le in Hs. rewrite Hs. reflexivity.
Qed.

Lemma sumq_ge_member (l : list Q) y : (forall x, In x l -> (0 <= x)%Q) -> In y l -> (y <= sumq l)%Q.
Proof.
  induction l as [|a t IH]; intros H Hy; simpl in *; [contradiction|].
  assert (Ht : (0 <= sumq t)%Q) by (apply sumq_nonneg; rewrite Forall_forall; intros x Hx; apply H; auto).
  destruct Hy as [->|Hy]; [lra|]. specialize (IH (fun x Hx => H x (or_intror Hx)) Hy).
  specialize (H a (or_introl eq_refl)). lra.
Qed.

Lemma sumq_le_length (l : list Q) : (forall x, In x l -> (x <= 1)%Q) -> (sumq l <= qnat (length l))%Q.
Proof.
  induction l as [|a t IH]; intros H; [apply Qle_refl|].
  rewrite sumq_cons. change (length (a :: t)) with (1 + length t). rewrite qnat_plus.
  specialize (IH (fun x Hx => H x (or_intror Hx))). specialize (H a (or_introl eq_refl)).
  change (qnat 1) with 1%Q. lra.
Qed.

Lemma in_mat_row (T : mat) r : In r T -> exists i, i < length T /\ mrow T i = r.
Proof. intros H. apply (In_nth _ _ []) in H. destruct H as [i [Hi E]]. exists i. split; assumption. Qed.

Lemma col_mean_bounds (T : mat) (c : nat) :
  in01m T -> T <> [] ->
  (0 <= col_mean (length T) T c <= 1)%Q /\
  (forall u, u < length T -> (nthq (mrow T u) c == 1)%Q -> (0 < col_mean (length T) T c)%Q).
Proof.
  intros H01 Hne. unfold col_mean. rewrite sumqr_sumq.
  set (col := map (fun r => nthq r c) T).
  assert (Hn : (0 < qnat (length T))%Q) by (apply qnat_pos; destruct T; [congruence|simpl; lia]).
  assert (Hcol : forall x, In x col -> (0 <= x <= 1)%Q).
  { intros x Hx. unfold col in Hx. apply in_map_iff in Hx. destruct Hx as [r [<- Hr]].
    destruct (in_mat_row _ _ Hr) as [i [_ <-]]. apply H01. }
  assert (H0 : (0 <= sumq col)%Q) by (apply sumq_nonneg; rewrite Forall_forall; intros x Hx; apply Hcol; exact Hx).
  assert (H1 : (sumq col <= qnat (length T))%Q).
  { replace (length T) with (length col) by (unfold col; apply map_length).
    apply sumq_le_length. intros x Hx. apply Hcol. exact Hx. }
  fold (qnat (length T)). split.
  - split; [apply Qle_shift_div_l; lra|apply Qle_shift_div_r; lra].
  - intros u Hu H1u. apply Qlt_shift_div_l; [exact Hn|].
    assert (Hin : In (nthq (mrow T u) c) col).
    { unfold col. apply in_map_iff. exists (mrow T u). split; [reflexivity|]. apply nth_In. exact Hu. }
    pose proof (sumq_ge_member col _ (fun x Hx => proj1 (Hcol x Hx)) Hin). fold col. rewrite sumqr_sumq. lra.
Qed.

(** decidability of k-step reachability (finite graph), and existence of a first hit *)
Lemma reachk_dec (g : graph) (src : list bool) : forall k v, {reachk g src k v} + {~ reachk g src k v}.
Proof.
  induction k as [|k IH]; intros v; simpl.
  - destruct (nthb src v); [left; reflexivity|right; discriminate].
  - destruct (Exists_dec (fun u => reachk g src k u /\ In v (row g u)) (seq 0 (length g))) as [E|E].
    + intros u. destruct (IH u) as [A|A]; [|right; tauto].
      destruct (in_dec Nat.eq_dec v (row g u)) as [B|B]; [left; tauto|right; tauto].
    + left. apply Exists_exists in E. destruct E as [u [_ Hu]]. exists u. exact Hu.
    + right. intros [u [Hr Hin]]. apply E. apply Exists_exists. exists u. split; [|tauto].
      apply in_seq. pose proof (row_nonempty_lt g u v Hin). lia.
Qed.

Lemma reach_first_hop (g : graph) (src : list bool) (v : nat) : forall k, reachk g src k v -> exists k', hop g src v k'.
Proof.
  induction k as [k IH] using lt_wf_ind. intros Hr.
  destruct (Exists_dec (fun j => reachk g src j v) (seq 0 k)) as [E|E].
  - intros j. apply reachk_dec.
  - apply Exists_exists in E. destruct E as [j [Hj Hrj]]. apply in_seq in Hj. apply (IH j); [lia|exact Hrj].
  - exists k. split; [exact Hr|]. intros j Hj Hrj. apply E. apply Exists_exists. exists j. split; [apply in_seq; lia|exact Hrj].
Qed.

Lemma bfs_neg_iff (g : graph) (src : list bool) dist v :
  length src = length g -> bfs g src = Some dist -> v < length g ->
  ((nthz dist v <? 0)%Z = true <-> forall k, ~ reachk g src k v).
Proof.
  intros Hl Hb Hv. destruct (bfs_exact g src Hl) as [d [Hd [_ Hspec]]]. rewrite Hb in Hd. inversion Hd; subst d.
  destruct (Hspec v Hv) as [Hk Hm]. rewrite Z.ltb_lt. split.
  - intros Hneg k Hr. destruct (reach_first_hop g src v k Hr) as [k' Hh]. apply Hk in Hh. lia.
  - intros Hno. apply Hm in Hno. lia.
Qed.

(** unfolding of dc_fit *)
Lemma dc_fit_unfold adj labels n_iter centering scale expf lab probs :
  dc_fit adj labels n_iter centering scale expf = Some (lab, probs) ->
  let lu := uniq_labels labels in
  let k := length lu in
  let T0 := dc_init k lu labels in
  let T := Nat.iter n_iter (dc_step k (map norm_adj_row adj) labels T0) T0 in
  let Tc := if centering then center k T else T in
  let Te := if centering then map (map (fun x => expf (scale * x)%Q)) Tc else Tc in
  k <> 0 /\
  exists dist, bfs (map (map fst) adj) (map (fun l => (0 <=? l)%Z) labels) = Some dist /\
    lab = map2 (fun (d l : Z) => if (d <? 0)%Z then (-1)%Z else l) dist
               (map (fun r => nth (argmax_first r) lu (-1)%Z) Tc) /\
    probs = map normalize_row (map2 (fun (d : Z) (r : list Q) => if (d <? 0)%Z then repeat 0%Q k else r) dist Te).
Proof.
  unfold dc_fit. intros H. cbv zeta.
  destruct (length (uniq_labels labels) =? 0) eqn:Ek; [discriminate|]. apply Nat.eqb_neq in Ek.
  split; [exact Ek|].
  destruct (bfs (map (map fst) adj) (map (fun l => (0 <=? l)%Z) labels)) as [dist|]; [|discriminate].
  exists dist. inversion H; subst. auto.
Qed.

Lemma center_row k T i : i < length T ->
  mrow (center k T) i = map (fun c => Qred (nthq (mrow T i) c - col_mean (length T) T c)%Q) (seq 0 k).
Proof. intros H. unfold center, mrow. rewrite (nth_map_lt _ T i [] []) by exact H. reflexivity. Qed.

(** the label assigned to node v before the "unreached" reset *)
Lemma dc_label_seed (adj : adjrows) (labels : list Z) (n_iter : nat) (centering : bool) (v : nat) :
  (forall r, In r adj -> Forall (fun p : nat * Q => 0 <= snd p)%Q r) ->
  v < length labels -> (0 <= nthz labels v)%Z ->
  let lu := uniq_labels labels in
  let k := length lu in
  let T0 := dc_init k lu labels in
  let T := Nat.iter n_iter (dc_step k (map norm_adj_row adj) labels T0) T0 in
  let Tc := if centering then center k T else T in
  nth (argmax_first (mrow Tc v)) lu (-1)%Z = nthz labels v.
Proof.
  intros Hadj Hv Hs lu k T0 T Tc.
  pose proof (dc_iter_inv adj labels n_iter Hadj) as Inv. cbv zeta in Inv. fold lu k T0 T in Inv.
  destruct Inv as [I1 I2 I3 I4].
  assert (Hin : In (nthz labels v) lu).
  { apply uniq_labels_In. split; [unfold nthz; apply nth_In; exact Hv|exact Hs]. }
  destruct (index_of_In _ _ Hin) as [c Hc]. destruct (index_of_nth _ _ _ Hc) as [Hnth Hck]. fold k in Hck.
  assert (Hrow : mrow T v = onehot k c).
  { rewrite I4 by assumption. unfold T0. rewrite dc_init_row by exact Hv.
    apply Z.leb_le in Hs. rewrite Hs, Hc. reflexivity. }
  assert (Harg : argmax_first (mrow Tc v) = c).
  { unfold Tc. destruct centering.
    - rewrite center_row by lia. apply argmax_first_unique.
      + rewrite map_length, seq_length. exact Hck.
      + rewrite map_length, seq_length. intros j Hj Hjc.
        rewrite !nthq_map_seq0 by assumption. rewrite !Qred_correct, Hrow, !nthq_onehot.
        apply Nat.ltb_lt in Hj. apply Nat.ltb_lt in Hck. rewrite Hj, Hck. apply Nat.ltb_lt in Hj. apply Nat.ltb_lt in Hck.
        rewrite Nat.eqb_refl. apply Nat.eqb_neq in Hjc. rewrite Hjc. simpl andb. cbv iota.
        assert (HTne : T <> []) by (intros E; rewrite E in I1; simpl in I1; lia).
        destruct (col_mean_bounds T c I2 HTne) as [[_ Hc1] _].
        destruct (col_mean_bounds T j I2 HTne) as [_ Hpos].
        (* class j has a seed u whose row is onehot j *)
        assert (Hlj : In (nth j lu (-1)%Z) lu) by (apply nth_In; exact Hj).
        apply uniq_labels_In in Hlj. destruct Hlj as [Hinl Hnonneg].
        apply (In_nth _ _ 0%Z) in Hinl. destruct Hinl as [u [Hu Hlu]]. fold (nthz labels u) in Hlu.
        assert (Hrowu : mrow T u = onehot k j).
        { rewrite I4 by (try exact Hu; rewrite Hlu; exact Hnonneg). unfold T0. rewrite dc_init_row by exact Hu.
          rewrite Hlu. apply Z.leb_le in Hnonneg. rewrite Hnonneg.
          rewrite (index_of_nth_nodup lu (uniq_labels_NoDup labels) j Hj). reflexivity. }
        assert (Hone : (nthq (mrow T u) j == 1)%Q).
        { rewrite Hrowu, nthq_onehot. apply Nat.ltb_lt in Hj. rewrite Hj, Nat.eqb_refl. reflexivity. }
        specialize (Hpos u ltac:(lia) Hone). lra.
    - rewrite Hrow. apply argmax_first_unique.
      + unfold onehot. rewrite map_length, seq_length. exact Hck.
      + unfold onehot at 1. rewrite map_length, seq_length. intros j Hj Hjc. rewrite !nthq_onehot.
        apply Nat.ltb_lt in Hj. apply Nat.ltb_lt in Hck. rewrite Hj, Hck, Nat.eqb_refl.
        apply Nat.eqb_neq in Hjc. rewrite Hjc. simpl. lra. }
  rewrite Harg. exact Hnth.
Qed.

Lemma dc_Tc_length (adj : adjrows) (labels : list Z) (n_iter : nat) (centering : bool) :
  (forall r, In r adj -> Forall (fun p : nat * Q => 0 <= snd p)%Q r) ->
  let lu := uniq_labels labels in
  let k := length lu in
  let T0 := dc_init k lu labels in
  let T := Nat.iter n_iter (dc_step k (map norm_adj_row adj) labels T0) T0 in
  let Tc := if centering then center k T else T in
  length Tc = length labels /\ forall i, i < length labels -> length (mrow Tc i) = k.
Proof.
  intros Hadj lu k T0 T Tc.
  pose proof (dc_iter_inv adj labels n_iter Hadj) as Inv. cbv zeta in Inv. fold lu k T0 T in Inv.
  destruct Inv as [I1 I2 I3 I4]. unfold Tc. destruct centering.
  - split; [unfold center; rewrite map_length; exact I1|].
    intros i Hi. rewrite center_row by lia. rewrite map_length, seq_length. reflexivity.
  - split; [exact I1|exact I3].
Qed.

Lemma dc_lab_nth adj labels n_iter centering scale expf lab probs v :
  (forall r, In r adj -> Forall (fun p : nat * Q => 0 <= snd p)%Q r) ->
  length adj = length labels ->
  dc_fit adj labels n_iter centering scale expf = Some (lab, probs) -> v < length labels ->
  let lu := uniq_labels labels in
  let k := length lu in
  let T0 := dc_init k lu labels in
  let T := Nat.iter n_iter (dc_step k (map norm_adj_row adj) labels T0) T0 in
  let Tc := if centering then center k T else T in
  exists dist, bfs (map (map fst) adj) (map (fun l => (0 <=? l)%Z) labels) = Some dist /\
    length lab = length labels /\
    nthz lab v = if (nthz dist v <? 0)%Z then (-1)%Z else nth (argmax_first (mrow Tc v)) lu (-1)%Z.
Proof.
  intros Hadj Hlen H Hv lu k T0 T Tc.
  destruct (dc_fit_unfold _ _ _ _ _ _ _ _ H) as [Hk [dist [Hb [Hlab _]]]]. fold lu k T0 T Tc in Hlab.
  exists dist. split; [exact Hb|].
  destruct (dc_Tc_length adj labels n_iter centering Hadj) as [LT _]. fold lu k T0 T Tc in LT.
  assert (Hld : length dist = length labels).
  { destruct (bfs_exact (map (map fst) adj) (map (fun l => (0 <=? l)%Z) labels)) as [d [Hd [Hdl _]]].
    - rewrite !map_length. symmetry. exact Hlen.
    - rewrite Hb in Hd. inversion Hd; subst d. rewrite Hdl, map_length. exact Hlen. }
  subst lab. split.
  - rewrite map2_length, map_length, Hld, LT. apply Nat.min_id.
  - unfold nthz at 1. rewrite (nth_map2 _ dist _ v 0%Z (-1)%Z 0%Z) by (try rewrite map_length; lia).
    fold (nthz dist v). rewrite (nth_map_lt _ Tc v [] (-1)%Z) by lia. reflexivity.
Qed.

(** seeds keep their labels *)
Theorem dc_seeds_fixed adj labels n_iter centering scale expf lab probs :
  (forall r, In r adj -> Forall (fun p : nat * Q => 0 <= snd p)%Q r) ->
  length adj = length labels ->
  dc_fit adj labels n_iter centering scale expf = Some (lab, probs) ->
  forall v, v < length labels -> (0 <= nthz labels v)%Z -> nthz lab v = nthz labels v.
Proof.
  intros Hadj Hlen H v Hv Hs.
  destruct (dc_lab_nth _ _ _ _ _ _ _ _ v Hadj Hlen H Hv) as [dist [Hb [_ Hnth]]]. cbv zeta in Hnth.
  rewrite Hnth. rewrite (dc_label_seed adj labels n_iter centering v Hadj Hv Hs).
  destruct (nthz dist v <? 0)%Z eqn:E; [|reflexivity]. exfalso.
  assert (Hlg : length (map (fun l => (0 <=? l)%Z) labels) = length (map (map fst) adj)) by (rewrite !map_length; lia).
  assert (Hvg : v < length (map (map fst) adj)) by (rewrite map_length; lia).
  pose proof (proj1 (bfs_neg_iff _ _ _ v Hlg Hb Hvg) E) as E'.
  apply (E' 0). simpl. unfold nthb. rewrite (nth_map_lt _ labels v 0%Z false) by exact Hv.
  apply Z.leb_le. exact Hs.
Qed.

(** label -1 exactly on the nodes no walk from a seed reaches (on an undirected graph: the nodes of the
    components without a seed) *)
Theorem dc_minus1_iff_unreached adj labels n_iter centering scale expf lab probs :
  (forall r, In r adj -> Forall (fun p : nat * Q => 0 <= snd p)%Q r) ->
  length adj = length labels ->
  dc_fit adj labels n_iter centering scale expf = Some (lab, probs) ->
  length lab = length labels /\
  forall v, v < length labels ->
    (nthz lab v = (-1)%Z <-> forall k, ~ reachk (map (map fst) adj) (map (fun l => (0 <=? l)%Z) labels) k v) /\
    (nthz lab v <> (-1)%Z -> In (nthz lab v) labels /\ (0 <= nthz lab v)%Z).
Proof.
  intros Hadj Hlen H.
  destruct (dc_fit_unfold _ _ _ _ _ _ _ _ H) as [Hk _]. cbv zeta in Hk.
  split.
  { destruct labels as [|l0 t]; [simpl in Hk; congruence|].
    destruct (dc_lab_nth _ _ _ _ _ _ _ _ 0 Hadj Hlen H ltac:(simpl; lia)) as [_ [_ [L _]]]. exact L. }
  intros v Hv.
  destruct (dc_lab_nth _ _ _ _ _ _ _ _ v Hadj Hlen H Hv) as [dist [Hb [_ Hnth]]]. cbv zeta in Hnth.
  assert (Hlg : length (map (fun l => (0 <=? l)%Z) labels) = length (map (map fst) adj)) by (rewrite !map_length; lia).
  assert (Hvg : v < length (map (map fst) adj)) by (rewrite map_length; lia).
  pose proof (bfs_neg_iff _ _ _ v Hlg Hb Hvg) as Hneg.
  destruct (dc_Tc_length adj labels n_iter centering Hadj) as [_ LR]. cbv zeta in LR.
  set (lu := uniq_labels labels) in *. set (k := length lu) in *.
  set (Tc := if centering then _ else _) in *.
  assert (Hlu : In (nth (argmax_first (mrow Tc v)) lu (-1)%Z) lu).
  { apply nth_In. fold k. rewrite <- (LR v Hv). apply argmax_first_lt.
    intros E. specialize (LR v Hv). rewrite E in LR. simpl in LR. lia. }
  apply uniq_labels_In in Hlu. destruct Hlu as [Hin Hnn].
  rewrite Hnth. destruct (nthz dist v <? 0)%Z eqn:E.
  - split; [|congruence]. split; [intros _; apply Hneg; reflexivity|reflexivity].
  - split; [|intros _; split; assumption]. split; [lia|]. intros Hno. apply Hneg in Hno. congruence.
Qed.

Lemma in_map2 {A B C} (f : A -> B -> C) l1 : forall l2 x,
  In x (map2 f l1 l2) -> exists a b, In a l1 /\ In b l2 /\ x = f a b.
Proof.
  induction l1 as [|a t IH]; intros [|b t2] x H; simpl in H; try contradiction.
  destruct H as [<-|H].
  - exists a, b. simpl. auto.
  - destruct (IH _ _ H) as [a' [b' [Ha [Hb E]]]]. exists a', b'. simpl. auto.
Qed.

(** probability rows of DiffusionClassifier; contract of the exp oracle: non-negative values *)
Theorem dc_probs_rows adj labels n_iter centering scale expf lab probs :
  (forall r, In r adj -> Forall (fun p : nat * Q => 0 <= snd p)%Q r) ->
  (forall x, 0 <= expf x)%Q ->
  dc_fit adj labels n_iter centering scale expf = Some (lab, probs) ->
  Forall prob_row probs.
Proof.
  intros Hadj Hexp H.
  destruct (dc_fit_unfold _ _ _ _ _ _ _ _ H) as [_ [dist [_ [_ Hp]]]]. cbv zeta in Hp.
  pose proof (dc_iter_inv adj labels n_iter Hadj) as Inv. cbv zeta in Inv. destruct Inv as [_ I2 _ _].
  set (lu := uniq_labels labels) in *. set (k := length lu) in *.
  set (T := Nat.iter n_iter _ _) in *.
  subst probs. rewrite Forall_forall. intros x Hx. apply in_map_iff in Hx. destruct Hx as [r [<- Hr]].
  apply normalize_row_prob. apply in_map2 in Hr. destruct Hr as [d [r0 [_ [Hr0 ->]]]].
  unfold nonneg_row. destruct (d <? 0)%Z.
  - rewrite Forall_forall. intros y Hy. apply repeat_spec in Hy. subst y. lra.
  - destruct centering.
    + apply in_map_iff in Hr0. destruct Hr0 as [r1 [<- _]]. rewrite Forall_forall. intros y Hy.
      apply in_map_iff in Hy. destruct Hy as [z [<- _]]. apply Hexp.
    + destruct (in_mat_row _ _ Hr0) as [i [_ <-]]. rewrite Forall_forall. intros y Hy.
      apply (In_nth _ _ 0%Q) in Hy. destruct Hy as [c [_ <-]]. apply (I2 i c).
Qed.

(** * NNClassifier *)

Lemma count_if_map {A B} (P : B -> bool) (h : A -> B) (l : list A) :
  count_if P (map h l) = count_if (fun x => P (h x)) l.
Proof. induction l as [|a t IH]; [reflexivity|]. simpl map. rewrite !count_if_cons, IH. reflexivity. Qed.

Lemma count_if_single (s : nat) (g : nat -> bool) (l : list nat) :
  NoDup l -> In s l -> count_if (fun t => (t =? s) && g t) l = if g s then 1 else 0.
Proof.
  induction 1 as [|a t Hnotin Hnd IH]; intros Hin; [contradiction|].
  rewrite count_if_cons. destruct Hin as [->|Hin].
  - rewrite Nat.eqb_refl. simpl andb. rewrite count_if_none.
    + destruct (g s); reflexivity.
    + intros x Hx. destruct (x =? s) eqn:E; [|reflexivity]. apply Nat.eqb_eq in E. subst. contradiction.
  - destruct (a =? s) eqn:E; [apply Nat.eqb_eq in E; subst; contradiction|]. simpl. apply IH. exact Hin.
Qed.

Lemma in_concat_map2 {A B C} (f : A -> B -> list C) l1 l2 x :
  In x (concat (map2 f l1 l2)) -> exists a b, In a l1 /\ In b l2 /\ In x (f a b).
Proof.
  intros H. apply in_concat in H. destruct H as [l [Hl Hx]].
  apply in_map2 in Hl. destruct Hl as [a [b [Ha [Hb ->]]]]. eauto.
Qed.

Theorem nn_seeds_fixed labels index_train index_test n_neighbors argparts s :
  NoDup index_train -> In s index_train -> ~ In s index_test -> s < length labels -> (0 <= nthz labels s)%Z ->
  nthz (snd (nn_fit_core labels index_train index_test n_neighbors argparts)) s = nthz labels s.
Proof.
  intros Hnd Hin Hnot Hs Hl. unfold nn_fit_core. cbn [snd].
  set (k := check_n_neighbors n_neighbors (length index_train)).
  set (A := concat (map2 (fun i ap => map (fun p => (i, nthz labels (nthn index_train p))) (firstn k ap)) index_test argparts)).
  set (B := map (fun t => (t, nthz labels t)) index_train).
  set (ncol := n_cols labels). set (L := nthz labels s) in *.
  set (row := map (fun c => inject_Z (Z.of_nat (count_if (fun p : nat * Z => (fst p =? s) && (snd p =? Z.of_nat c)%Z) (A ++ B))))
                  (seq 0 ncol)).
  assert (Hc0 : Z.to_nat L < ncol).
  { unfold ncol, n_cols. assert (In L labels) by (unfold L, nthz; apply nth_In; exact Hs).
    pose proof (In_le_maxz _ _ H). lia. }
  assert (Hcount : forall c, count_if (fun p : nat * Z => (fst p =? s) && (snd p =? Z.of_nat c)%Z) (A ++ B) =
                             if (L =? Z.of_nat c)%Z then 1 else 0).
  { intros c. rewrite count_if_app. rewrite count_if_none.
    - unfold B. rewrite count_if_map. cbn [fst snd].
      rewrite (count_if_single s (fun t => (nthz labels t =? Z.of_nat c)%Z) index_train Hnd Hin). reflexivity.
    - intros [i z] Hp. unfold A in Hp. apply in_concat_map2 in Hp. destruct Hp as [i' [ap [Hi' [_ Hp]]]].
      apply in_map_iff in Hp. destruct Hp as [p [Hp _]]. inversion Hp; subst. simpl.
      destruct (i =? s) eqn:E; [|reflexivity]. apply Nat.eqb_eq in E. subst. contradiction. }
  assert (Hrow : forall c, c < ncol -> nthq row c = if (L =? Z.of_nat c)%Z then 1%Q else 0%Q).
  { intros c Hc. unfold row. rewrite nthq_map_seq0 by exact Hc. rewrite Hcount.
    destruct (L =? Z.of_nat c)%Z; reflexivity. }
  assert (Hnn : nonneg_row row).
  { unfold nonneg_row, row. rewrite Forall_forall. intros x Hx. apply in_map_iff in Hx. destruct Hx as [c [<- _]].
    apply (qnat_nonneg _). }
  assert (Hlr : length row = ncol) by (unfold row; rewrite map_length, seq_length; reflexivity).
  assert (H1 : nthq row (Z.to_nat L) = 1%Q).
  { rewrite Hrow by exact Hc0. rewrite Z2Nat.id by exact Hl. rewrite Z.eqb_refl. reflexivity. }
  assert (HS : (1 <= sumq row)%Q).
  { rewrite <- H1. apply sumq_ge_member.
    - intros x Hx. unfold nonneg_row in Hnn. rewrite Forall_forall in Hnn. apply Hnn. exact Hx.
    - unfold nthq. apply nth_In. lia. }
  assert (HSb : Qeq_bool (sumq row) 0 = false).
  { destruct (Qeq_bool (sumq row) 0) eqn:E; [|reflexivity]. apply Qeq_bool_iff in E. lra. }
  unfold nthz. rewrite (nth_map_lt _ _ s [] 0%Z).
  2:{ rewrite map_length, map_length, seq_length. exact Hs. }
  rewrite (nth_map_lt normalize_row _ s [] []) by (rewrite map_length, seq_length; exact Hs).
  rewrite nth_map_seq0 by exact Hs. fold A B ncol row.
  rewrite (argmax_first_unique (normalize_row row) (Z.to_nat L)).
  - apply Z2Nat.id. exact Hl.
  - rewrite normalize_row_length. lia.
  - rewrite normalize_row_length. intros j Hj Hjc. rewrite !normalize_row_nth by exact Hnn. rewrite HSb, H1.
    rewrite Hrow by lia. destruct (L =? Z.of_nat j)%Z eqn:E; [apply Z.eqb_eq in E; lia|].
    apply Qlt_shift_div_l; [lra|]. unfold Qdiv. lra.
Qed.

Theorem nn_probs_rows labels index_train index_test n_neighbors argparts :
  Forall prob_row (fst (nn_fit_core labels index_train index_test n_neighbors argparts)).
Proof.
  unfold nn_fit_core. cbn [fst]. rewrite Forall_forall. intros x Hx. apply in_map_iff in Hx.
  destruct Hx as [r [<- Hr]]. apply normalize_row_prob. apply in_map_iff in Hr. destruct Hr as [i [<- _]].
  unfold nonneg_row. rewrite Forall_forall. intros y Hy. apply in_map_iff in Hy. destruct Hy as [c [<- _]].
  apply (qnat_nonneg _).
Qed.

(** * NNLinker: top-k then threshold *)

(** contract of np.argpartition(-sims, k): a permutation of the positions whose first k entries are at least as
    similar as every later entry *)
Definition argpartition_ok (sims : list Q) (k : nat) (ap : list nat) : Prop :=
  Permutation ap (seq 0 (length sims)) /\
  forall a b, In a (firstn k ap) -> In b (skipn k ap) -> (nthq sims b <= nthq sims a)%Q.

Theorem nnlinker_row_ok (sims : list Q) (k : nat) (thr : Q) (ap : list nat) :
  argpartition_ok sims k ap ->
  let row := nnlinker_row sims k thr ap in
  length row <= k /\ NoDup (map fst row) /\
  (forall c s, In (c, s) row -> c < length sims /\ s = nthq sims c /\ (thr <= s)%Q) /\
  (forall c s d, In (c, s) row -> d < length sims -> ~ In d (map fst row) -> (nthq sims d <= s)%Q).
Proof.
  intros [Hperm Hpart] row. unfold row, nnlinker_row.
  set (nn := firstn k ap).
  set (cols := filter (fun c => memn c nn && Qle_bool thr (nthq sims c)) (seq 0 (length sims))).
  assert (Hfst : map fst (map (fun c => (c, nthq sims c)) cols) = cols).
  { rewrite map_map. simpl. apply map_id. }
  assert (Hcols : forall c, In c cols <-> c < length sims /\ In c nn /\ (thr <= nthq sims c)%Q).
  { intros c. unfold cols. rewrite filter_In, in_seq, andb_true_iff, memn_In, Qle_bool_iff. intuition lia. }
  assert (Hndc : NoDup cols) by (apply NoDup_filter, seq_NoDup).
  split.
  { rewrite map_length. apply Nat.le_trans with (length nn); [|apply firstn_le_length].
    apply NoDup_incl_length; [exact Hndc|]. intros c Hc. apply Hcols in Hc. tauto. }
  split; [rewrite Hfst; exact Hndc|]. split.
  - intros c s Hin. apply in_map_iff in Hin. destruct Hin as [c' [E Hc']]. inversion E; subst.
    apply Hcols in Hc'. tauto.
  - intros c s d Hin Hd Hnot. rewrite Hfst in Hnot.
    apply in_map_iff in Hin. destruct Hin as [c' [E Hc']]. inversion E; subst. apply Hcols in Hc'.
    destruct Hc' as [_ [Hcnn Hthr]].
    destruct (in_dec Nat.eq_dec d nn) as [Hdn|Hdn].
    + (* in the top k but dropped: below the threshold *)
      destruct (Qlt_le_dec (nthq sims d) thr) as [Hlt|Hge]; [lra|].
      exfalso. apply Hnot. apply Hcols. tauto.
    + (* not in the top k: a discarded candidate *)
      apply Hpart; [exact Hcnn|].
      assert (Hdap : In d ap). { apply Permutation_sym in Hperm. apply (Permutation_in _ Hperm). apply in_seq. lia. }
      rewrite <- (firstn_skipn k ap) in Hdap. apply in_app_or in Hdap. destruct Hdap; [contradiction|assumption].
Qed.

(** the rows produced by the whole _fit_core are rows of this form *)
Theorem nnlinker_fit_core_rows emb mask n_neighbors thr aps i row :
  In (i, row) (nnlinker_fit_core emb mask n_neighbors thr aps) ->
  let n := length emb in
  let index_col := if length mask <? n then seq (length mask) (n - length mask) else seq 0 n in
  exists ap, In ap aps /\
    row = nnlinker_row (map (fun c => dotq (mrow emb c) (mrow emb i)) index_col)
                       (check_n_neighbors n_neighbors (length index_col)) thr ap.
Proof.
  unfold nnlinker_fit_core. intros H. cbv zeta. apply in_map2 in H.
  destruct H as [i' [ap [_ [Hap E]]]]. inversion E; subst. exists ap. split; [exact Hap|reflexivity].
Qed.

(** with a clustering test that looks at the sign of the values, one unlabelled node is enough to leave
    clustering mode (so that [propagation_seeds_fixed_model] applies); the current test is not of that kind
    ([propagation_seeds_fixed_refuted]) *)
Lemma clustering_mode_unlabelled ct seeds :
  ct <> CT_distinct -> (exists i, i < length seeds /\ (nthz seeds i < 0)%Z) -> clustering_mode ct seeds = false.
Proof.
  intros Hct [i [Hi Hneg]].
  assert (F : forallb (fun l => (0 <=? l)%Z) seeds = false).
  { destruct (forallb (fun l => (0 <=? l)%Z) seeds) eqn:E; [|reflexivity].
    rewrite forallb_forall in E. specialize (E (nthz seeds i) ltac:(unfold nthz; apply nth_In; exact Hi)).
    apply Z.leb_le in E. lia. }
  destruct ct; simpl; [congruence|exact F|rewrite F; apply andb_false_r].
Qed.

(** the fixed-point theorem in the form of the property: every NON-SEED node with a labelled neighbour, for the
    unweighted path of every kernel variant and for the weighted path of a kernel that reads the weight of the
    edge and clears its scratch list (the repaired source) *)
Definition prop_nbrs (c : csr) (weighted : bool) (i : nat) : nbrs :=
  if weighted then nbrs_weighted (c_indptr c) (c_indices c) (c_data c) i
  else nbrs_unit (c_indptr c) (c_indices c) i.

Theorem propagation_fixed_point_argmax_model pv c seeds order oracle weighted n_iter fuel res :
  (weighted = true ->
   wpos (pv_kernel pv) = true /\ clr (pv_kernel pv) = true /\ Forall (fun w => 0 <= w)%Q (c_data c)) ->
  clustering_mode (pv_ctest pv) seeds = false -> order_ok (pv_order pv) order oracle seeds ->
  propagation pv c seeds order oracle weighted n_iter fuel = POk res ->
  pr_fixed res = true -> 0 < pr_sweeps res ->
  forall i, i < length seeds -> (nthz seeds i < 0)%Z ->
    has_labelled_neighbour (prop_nbrs c weighted i) (pr_labels res) ->
    local_max (prop_nbrs c weighted i) (pr_labels res) i.
Proof.
  intros Hw Hm Ho H Hf Ht i Hi Hs Hnb.
  destruct (pr_index_spec _ _ _ _ _ _ _ _ _ H Hm Ho) as [Hnd Hidx].
  assert (Hin : In i (pr_index res)) by (apply Hidx; split; assumption).
  unfold prop_nbrs in *. destruct weighted.
  - destruct (Hw eq_refl) as [H1 [H2 H3]].
    apply (propagation_fixed_point_weighted_model pv c seeds order oracle n_iter fuel res H1 H2 H3 H Hf Ht Hnd i Hin Hnb).
  - apply (propagation_fixed_point_unweighted_model pv c seeds order oracle n_iter fuel res H Hf Ht Hnd i Hin Hnb).
Qed.

(** * The repaired source: sign-aware clustering test, orders that keep exactly the free nodes *)

(** contract of the NumPy answers: a shuffle of the free nodes / an argsort of all the nodes *)
Definition oracle_contract (order : node_order) (oracle : list nat) (seeds : list Z) : Prop :=
  match order with
  | ONone => True
  | ORandom => Permutation (filter (fun i => (nthz seeds i <? 0)%Z) (seq 0 (length seeds))) oracle
  | _ => Permutation oracle (seq 0 (length seeds))
  end.

Lemma order_ok_of_contract order oracle seeds :
  oracle_contract order oracle seeds -> order_ok OI_filter order oracle seeds.
Proof. destruct order; simpl; auto. Qed.

Theorem propagation_seeds_fixed_repaired pv c seeds order oracle weighted n_iter fuel res :
  pv_ctest pv <> CT_distinct -> pv_order pv = OI_filter ->
  (exists i, i < length seeds /\ (nthz seeds i < 0)%Z) ->
  oracle_contract order oracle seeds ->
  propagation pv c seeds order oracle weighted n_iter fuel = POk res ->
  forall i, i < length seeds -> (0 <= nthz seeds i)%Z -> nthz (pr_labels res) i = nthz seeds i.
Proof.
  intros Hct Hoi Hun Hor H.
  apply (propagation_seeds_fixed_model pv c seeds order oracle weighted n_iter fuel res H).
  - apply clustering_mode_unlabelled; assumption.
  - rewrite Hoi. apply order_ok_of_contract. exact Hor.
Qed.

Theorem propagation_fixed_point_argmax_repaired pv c seeds order oracle weighted n_iter fuel res :
  wpos (pv_kernel pv) = true -> clr (pv_kernel pv) = true ->
  pv_ctest pv <> CT_distinct -> pv_order pv = OI_filter ->
  (weighted = true -> Forall (fun w => 0 <= w)%Q (c_data c)) ->
  oracle_contract order oracle seeds ->
  propagation pv c seeds order oracle weighted n_iter fuel = POk res ->
  pr_fixed res = true -> 0 < pr_sweeps res ->
  forall i, i < length seeds -> (nthz seeds i < 0)%Z ->
    has_labelled_neighbour (prop_nbrs c weighted i) (pr_labels res) ->
    local_max (prop_nbrs c weighted i) (pr_labels res) i.
Proof.
  intros Hw Hc Hct Hoi Hnn Hor H Hf Ht i Hi Hs.
  apply (propagation_fixed_point_argmax_model pv c seeds order oracle weighted n_iter fuel res); auto.
  - apply clustering_mode_unlabelled; [exact Hct|]. exists i. split; assumption.
  - rewrite Hoi. apply order_ok_of_contract. exact Hor.
Qed.

(** the repaired source on the two legacy witnesses: the seeds keep their labels *)
Definition pv_repaired : pvariant :=
  {| pv_kernel := repaired_kernel; pv_ctest := CT_distinct_nonneg; pv_ones := Ones_nnz; pv_order := OI_filter |}.

Lemma repaired_on_legacy_witnesses :
  (exists res, propagation pv_repaired {| c_indptr := [0; 1; 2; 2]; c_indices := [1; 0]; c_data := [4; 4]%Q |}
                           [0; 1; -1]%Z ONone [] true None 10 = POk res /\ pr_labels res = [0; 1; -1]%Z) /\
  (exists res, propagation pv_repaired
                 {| c_indptr := [0; 2; 5; 7; 8]; c_indices := [1; 2; 0; 2; 3; 0; 1; 1];
                    c_data := [1; 1; 1; 1; 1; 1; 1; 1]%Q |}
                 [-1; 0; -1; 1]%Z OIncreasing [3; 0; 2; 1] true (Some 5) 5 = POk res /\
               pr_index res = [0; 2] /\ pr_labels res = [0; 0; 0; 1]%Z).
Proof.
  split; eexists; (split; [vm_compute; reflexivity|]); cbn [pr_labels pr_index]; auto.
Qed.

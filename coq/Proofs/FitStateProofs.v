(** C16 — fit history: soundness of the stale-read / stale-output analysis (noninterference), and the three
    historical defect shapes as refutation witnesses. *)
From Coq Require Import List Bool Arith ZArith String Lia.
From SKN Require Import Model.FitState.
Import ListNotations.
Open Scope string_scope.
Open Scope list_scope.

(** * Membership *)
Lemma mem_In (a : attr) (l : list attr) : mem a l = true <-> In a l.
Proof.
  unfold mem. rewrite existsb_exists. split.
  - intros [b [Hin Heq]]. apply String.eqb_eq in Heq. subst b. exact Hin.
  - intros Hin. exists a. split; [exact Hin | apply String.eqb_refl].
Qed.

Lemma inter_In (a : attr) (l1 l2 : list attr) : In a (inter l1 l2) <-> In a l1 /\ In a l2.
Proof.
  unfold inter. rewrite filter_In. rewrite mem_In. tauto.
Qed.

Lemma upd_same (s : store) (a : attr) (v : option val) : upd s a v a = v.
Proof. unfold upd. rewrite String.eqb_refl. reflexivity. Qed.

Lemma upd_other (s : store) (a b : attr) (v : option val) : b <> a -> upd s a v b = s b.
Proof.
  intros Hne. unfold upd. destruct (String.eqb b a) eqn:E; [|reflexivity].
  apply String.eqb_eq in E. contradiction.
Qed.

Lemma agree_upd (A : list attr) (s1 s2 : store) (a : attr) (v : option val) :
  agree A s1 s2 -> agree (a :: A) (upd s1 a v) (upd s2 a v).
Proof.
  intros Hag b Hb. unfold upd. destruct (String.eqb b a) eqn:E; [reflexivity|].
  destruct Hb as [Hb | Hb].
  - subst b. rewrite String.eqb_refl in E. discriminate.
  - apply Hag. exact Hb.
Qed.

Lemma agree_sub (A B : list attr) (s1 s2 : store) :
  (forall a, In a B -> In a A) -> agree A s1 s2 -> agree B s1 s2.
Proof. intros Hsub Hag a Ha. apply Hag. apply Hsub. exact Ha. Qed.

(** * The analysis only ever adds to the definitely-written set *)
Lemma ana_mono (p : prog) : forall D a, In a D -> In a (snd (ana p D)).
Proof.
  induction p as [| b k IHk | b f k IHk | c p1 IH1 p2 IH2 k IHk | n body IHb k IHk]; intros D a Ha; cbn [ana snd fst].
  - exact Ha.
  - apply IHk. exact Ha.
  - apply IHk. right. exact Ha.
  - apply IHk. apply inter_In. split; [apply IH1 | apply IH2]; exact Ha.
  - apply IHk. exact Ha.
Qed.

(** * Noninterference *)
Lemma iter_ni (F : env * store -> env * store) (A : list attr) :
  (forall e s1 s2, agree A s1 s2 ->
     fst (F (e, s1)) = fst (F (e, s2)) /\ agree A (snd (F (e, s1))) (snd (F (e, s2)))) ->
  forall n e s1 s2, agree A s1 s2 ->
    fst (iter n F (e, s1)) = fst (iter n F (e, s2)) /\ agree A (snd (iter n F (e, s1))) (snd (iter n F (e, s2))).
Proof.
  intros HF n. induction n as [| n IHn]; intros e s1 s2 Hag; cbn [iter].
  - split; [reflexivity | exact Hag].
  - destruct (HF e s1 s2 Hag) as [He Hs].
    destruct (F (e, s1)) as [e1 t1] eqn:E1. destruct (F (e, s2)) as [e2 t2] eqn:E2.
    cbn [fst snd] in He, Hs. subst e2. apply IHn. exact Hs.
Qed.

Lemma exec_ni (config : list attr) (x : input) (p : prog) :
  forall D e s1 s2,
    (forall a, In a (fst (ana p D)) -> In a config) ->
    agree (config ++ D) s1 s2 ->
    fst (exec p x e s1) = fst (exec p x e s2) /\
    agree (config ++ snd (ana p D)) (snd (exec p x e s1)) (snd (exec p x e s2)).
Proof.
  induction p as [| b k IHk | b f k IHk | c p1 IH1 p2 IH2 k IHk | n body IHb k IHk];
    intros D e s1 s2 Hst Hag; cbn [exec ana fst snd] in *.
  - split; [reflexivity | exact Hag].
  - (* Read *)
    assert (Hb : s1 b = s2 b).
    { destruct (mem b D) eqn:Em.
      - apply Hag. apply in_or_app. right. apply mem_In. exact Em.
      - apply Hag. apply in_or_app. left. apply Hst. cbn [app]. left. reflexivity. }
    rewrite Hb. apply IHk.
    + intros a Ha. apply Hst. apply in_or_app. right. exact Ha.
    + exact Hag.
  - (* Write *)
    apply IHk.
    + exact Hst.
    + intros a Ha. apply in_app_or in Ha.
      assert (Hag' : agree (b :: config ++ D) (upd s1 b (f e x)) (upd s2 b (f e x))) by (apply agree_upd; exact Hag).
      apply Hag'. destruct Ha as [Ha | [Ha | Ha]].
      * right. apply in_or_app. left. exact Ha.
      * left. exact Ha.
      * right. apply in_or_app. right. exact Ha.
  - (* If *)
    assert (Hbr : fst (exec (if c e x then p1 else p2) x e s1) = fst (exec (if c e x then p1 else p2) x e s2) /\
                  agree (config ++ inter (snd (ana p1 D)) (snd (ana p2 D)))
                        (snd (exec (if c e x then p1 else p2) x e s1)) (snd (exec (if c e x then p1 else p2) x e s2))).
    { destruct (c e x).
      - destruct (IH1 D e s1 s2) as [He Hs].
        + intros a Ha. apply Hst. apply in_or_app. left. exact Ha.
        + exact Hag.
        + split; [exact He|]. eapply agree_sub; [|exact Hs].
          intros a Ha. apply in_app_or in Ha. apply in_or_app. destruct Ha as [Ha | Ha]; [left; exact Ha|].
          right. apply inter_In in Ha. tauto.
      - destruct (IH2 D e s1 s2) as [He Hs].
        + intros a Ha. apply Hst. apply in_or_app. right. apply in_or_app. left. exact Ha.
        + exact Hag.
        + split; [exact He|]. eapply agree_sub; [|exact Hs].
          intros a Ha. apply in_app_or in Ha. apply in_or_app. destruct Ha as [Ha | Ha]; [left; exact Ha|].
          right. apply inter_In in Ha. tauto. }
    destruct Hbr as [He Hs]. rewrite He. apply IHk.
    + intros a Ha. apply Hst. apply in_or_app. right. apply in_or_app. right. exact Ha.
    + exact Hs.
  - (* Repeat *)
    set (F := fun es : env * store => exec body x (fst es) (snd es)).
    assert (HF : forall e0 t1 t2, agree (config ++ D) t1 t2 ->
               fst (F (e0, t1)) = fst (F (e0, t2)) /\ agree (config ++ D) (snd (F (e0, t1))) (snd (F (e0, t2)))).
    { intros e0 t1 t2 Ht. unfold F. cbn [fst snd].
      destruct (IHb D e0 t1 t2) as [He Hs].
      - intros a Ha. apply Hst. apply in_or_app. left. exact Ha.
      - exact Ht.
      - split; [exact He|]. eapply agree_sub; [|exact Hs].
        intros a Ha. apply in_app_or in Ha. apply in_or_app. destruct Ha as [Ha | Ha]; [left; exact Ha|].
        right. apply ana_mono. exact Ha. }
    destruct (iter_ni F (config ++ D) HF (n e x) e s1 s2 Hag) as [He Hs].
    rewrite He. apply IHk.
    + intros a Ha. apply Hst. apply in_or_app. right. exact Ha.
    + exact Hs.
Qed.

(** Whatever the two estimators looked like before — any two fit / set_params histories that end with the same
    constructor parameters — if every stale read of [fit] is a constructor parameter, the two estimators agree after
    [fit x] on the parameters and on everything [fit] definitely writes. *)
Theorem fit_noninterference (config : list attr) (p : prog) :
  (forall a, In a (stale_reads_of p) -> In a config) ->
  forall (s1 s2 : store) (x : input),
    agree config s1 s2 ->
    agree (config ++ definite_of p) (fit p s1 x) (fit p s2 x).
Proof.
  intros Hst s1 s2 x Hag. unfold fit, definite_of.
  apply (exec_ni config x p [] [] s1 s2).
  - exact Hst.
  - rewrite app_nil_r. exact Hag.
Qed.

(** * Frame: attributes that the program never writes are unchanged by [fit] *)
Lemma iter_frame (F : env * store -> env * store) (a : attr) :
  (forall e s, snd (F (e, s)) a = s a) ->
  forall n e s, snd (iter n F (e, s)) a = s a.
Proof.
  intros HF n. induction n as [| n IHn]; intros e s; cbn [iter].
  - reflexivity.
  - destruct (F (e, s)) as [e1 t1] eqn:E1. rewrite IHn. specialize (HF e s). rewrite E1 in HF. exact HF.
Qed.

Lemma exec_frame (x : input) (a : attr) (p : prog) :
  ~ In a (writes_of p) -> forall e s, snd (exec p x e s) a = s a.
Proof.
  induction p as [| b k IHk | b f k IHk | c p1 IH1 p2 IH2 k IHk | n body IHb k IHk];
    intros Hn e s; cbn [exec writes_of fst snd] in *.
  - reflexivity.
  - apply IHk. exact Hn.
  - rewrite IHk.
    + apply upd_other. intros E. apply Hn. left. symmetry. exact E.
    + intros Hin. apply Hn. right. exact Hin.
  - rewrite IHk.
    + destruct (c e x).
      * apply IH1. intros Hin. apply Hn. apply in_or_app. left. exact Hin.
      * apply IH2. intros Hin. apply Hn. apply in_or_app. right. apply in_or_app. left. exact Hin.
    + intros Hin. apply Hn. apply in_or_app. right. apply in_or_app. right. exact Hin.
  - rewrite IHk.
    + apply (iter_frame (fun es => exec body x (fst es) (snd es)) a).
      intros e0 s0. cbn [fst snd]. apply IHb. intros Hin. apply Hn. apply in_or_app. left. exact Hin.
    + intros Hin. apply Hn. apply in_or_app. right. exact Hin.
Qed.

Lemma history_keeps_config (config : list attr) (p : prog) :
  (forall a, In a (writes_of p) -> ~ In a config) ->
  forall xs s0, agree config (after_history p s0 xs) s0.
Proof.
  intros Hw xs. induction xs as [| x0 xs IH]; intros s0; unfold after_history in *; cbn [fold_left].
  - intros a Ha. reflexivity.
  - intros a Ha. rewrite (IH (fit p s0 x0) a Ha). unfold fit. apply exec_frame.
    intros Hin. exact (Hw a Hin Ha).
Qed.

(** Refit = fresh fit: no stale read outside the constructor parameters, no write of a constructor parameter. Then after
    ANY sequence of earlier fits the estimator fitted on [x] agrees with the freshly constructed estimator fitted on [x]
    on the parameters and on every attribute [fit] definitely writes. *)
Theorem refit_equals_fresh_fit (config : list attr) (p : prog) :
  (forall a, In a (stale_reads_of p) -> In a config) ->
  (forall a, In a (writes_of p) -> ~ In a config) ->
  forall (s0 : store) (history : list input) (x : input),
    agree (config ++ definite_of p) (fit p (after_history p s0 history) x) (fit p s0 x).
Proof.
  intros Hst Hw s0 history x. apply fit_noninterference.
  - exact Hst.
  - apply history_keeps_config. exact Hw.
Qed.

Lemma unwritten_nil_definite (p : prog) :
  unwritten_of p = [] -> forall a, In a (writes_of p) -> In a (definite_of p).
Proof.
  intros Hu a Ha. destruct (mem a (definite_of p)) eqn:Em.
  - apply mem_In. exact Em.
  - assert (Hin : In a (unwritten_of p)).
    { unfold unwritten_of. apply filter_In. split; [exact Ha|]. rewrite Em. reflexivity. }
    rewrite Hu in Hin. destruct Hin.
Qed.

(** If moreover there is no stale output, the two estimators agree on every attribute that any run of [fit] can write. *)
Theorem refit_equals_fresh_fit_all_outputs (config : list attr) (p : prog) :
  (forall a, In a (stale_reads_of p) -> In a config) ->
  (forall a, In a (writes_of p) -> ~ In a config) ->
  unwritten_of p = [] ->
  forall (s0 : store) (history : list input) (x : input),
    agree (config ++ writes_of p) (fit p (after_history p s0 history) x) (fit p s0 x).
Proof.
  intros Hst Hw Hu s0 history x.
  eapply agree_sub; [| apply (refit_equals_fresh_fit config p Hst Hw s0 history x)].
  intros a Ha. apply in_app_or in Ha. apply in_or_app. destruct Ha as [Ha | Ha]; [left; exact Ha|].
  right. apply unwritten_nil_definite; assumption.
Qed.

(** Everything else is untouched by [fit], so it is whatever the history left there: with no stale output and no write
    outside [writes_of], the two estimators differ at most where they differed before the fit. *)
Theorem fit_leaves_the_rest (p : prog) (s : store) (x : input) (a : attr) :
  ~ In a (writes_of p) -> fit p s x a = s a.
Proof. intros Hn. unfold fit. apply exec_frame. exact Hn. Qed.

(** Boolean form of the hypotheses (what the check evaluates). *)
Lemma history_safe_spec (config : list attr) (p : prog) :
  history_safe config p = true ->
  (forall a, In a (stale_reads_of p) -> In a config) /\ (forall a, In a (writes_of p) -> ~ In a config).
Proof.
  unfold history_safe. intros H. apply andb_true_iff in H. destruct H as [H1 H2].
  rewrite forallb_forall in H1, H2. split.
  - intros a Ha. apply mem_In. apply H1. exact Ha.
  - intros a Ha Hc. specialize (H2 a Ha). apply mem_In in Hc. rewrite Hc in H2. discriminate.
Qed.

Theorem history_safe_refit (config : list attr) (p : prog) :
  history_safe config p = true -> unwritten_of p = [] ->
  forall (s0 : store) (history : list input) (x : input),
    agree (config ++ writes_of p) (fit p (after_history p s0 history) x) (fit p s0 x).
Proof.
  intros H Hu. destruct (history_safe_spec config p H) as [Hst Hw].
  apply refit_equals_fresh_fit_all_outputs; assumption.
Qed.

(** * The converse: each hypothesis is needed (the three historical defect shapes) *)

(** (1) One stale read outside the parameters (warm start from the earlier [scores_]): flagged, and the refit differs. *)
Theorem stale_read_refuted :
  stale_reads_of warm_start = ["scores_"] /\ writes_of warm_start = ["scores_"] /\ unwritten_of warm_start = [] /\
  exists (s0 : store) (history : list input) (x : input),
    fit warm_start (after_history warm_start s0 history) x "scores_" <> fit warm_start s0 x "scores_".
Proof.
  repeat split; try reflexivity.
  exists empty, [5%Z], 2%Z. vm_compute. discriminate.
Qed.

(** (2) No stale read outside the parameters, but [fit] overwrites the parameter it reads ([self.bipartite]): flagged by
    the second hypothesis only, and the refit differs on an attribute that is definitely written. *)
Theorem config_overwrite_refuted :
  (forall a, In a (stale_reads_of leftover_flag) -> In a ["bipartite"]) /\
  history_safe ["bipartite"] leftover_flag = false /\
  In "labels_" (definite_of leftover_flag) /\ unwritten_of leftover_flag = [] /\
  exists (s0 : store) (history : list input) (x : input),
    fit leftover_flag (after_history leftover_flag s0 history) x "labels_" <> fit leftover_flag s0 x "labels_".
Proof.
  split; [| split; [| split; [| split]]].
  - vm_compute. intros a [Ha | []]. left. exact Ha.
  - reflexivity.
  - vm_compute. tauto.
  - reflexivity.
  - exists (upd empty "bipartite" (Some 0%Z)), [3%Z], 0%Z. vm_compute. discriminate.
Qed.

(** (3) No stale read, no parameter written, but one stale output ([labels_row_] only assigned for bipartite input): the
    definitely written attributes agree, the stale output does not. *)
Theorem stale_output_refuted :
  history_safe [] row_output = true /\ unwritten_of row_output = ["labels_row_"] /\
  exists (s0 : store) (history : list input) (x : input),
    fit row_output (after_history row_output s0 history) x "labels_" = fit row_output s0 x "labels_" /\
    fit row_output (after_history row_output s0 history) x "labels_row_" <> fit row_output s0 x "labels_row_".
Proof.
  split; [reflexivity | split; [reflexivity |]].
  exists empty, [7%Z], 0%Z. split.
  - vm_compute. reflexivity.
  - vm_compute. discriminate.
Qed.

(** The repaired programs (reset first / flag recomputed from the input) pass the analysis, so the theorem applies. *)
Theorem repaired_programs_pass :
  history_safe [] warm_start_repaired = true /\ unwritten_of warm_start_repaired = [] /\
  history_safe [] leftover_flag_repaired = true /\ unwritten_of leftover_flag_repaired = [] /\
  history_safe [] row_output_repaired = true /\ unwritten_of row_output_repaired = [] /\
  history_safe ["damping"] loop_prog = true /\ stale_reads_of loop_prog = ["damping"] /\ unwritten_of loop_prog = ["last_"].
Proof. repeat split; reflexivity. Qed.

(** Calculus over R (stdlib Reals + Coquelicot) for the closed-form gradients of activation.py and
    loss.py. The formulas are the carrier-generic definitions of Model/Gnn.v (section [Carrier])
    instantiated with R, [exp], [ln]. Only these theorems may depend on the classical axioms of the
    standard library's real numbers. *)
From SKN Require Import Base.Util Model.Gnn.
Set Warnings "-notation-overridden,-ambiguous-paths".
From Coq Require Import Reals Lra.
From Coquelicot Require Import Coquelicot.

Local Open Scope R_scope.

(* ------------------------------------------------------------------------------------------- *)
(** * Instance over R *)
Definition Rltb (a b : R) : bool := if Rlt_dec a b then true else false.

Definition r_sum : list R -> R := g_sum Rplus 0.
Definition r_relu : R -> R := g_relu 0 Rltb.
Definition r_relu_gradient : R -> R -> R := g_relu_gradient Rmult 0 1 Rltb.
Definition r_sigmoid : R -> R := g_sigmoid Rplus Rminus Rdiv 0 1 exp.
Definition r_sigmoid_gradient : R -> R -> R := g_sigmoid_gradient Rplus Rminus Rmult Rdiv 0 1 exp.
Definition r_softmax_row : list R -> list R := g_softmax_row Rplus Rdiv 0 exp.
Definition r_softmax_gradient : list R -> list R -> list R := g_softmax_gradient Rplus Rminus Rmult Rdiv 0 exp.
Definition r_clip : R -> R -> R -> R := g_clip Rltb.
Definition r_ce_loss_row : R -> list R -> nat -> R := g_ce_loss_row Rplus Rminus Rdiv 0 1 exp ln Rltb.
Definition r_ce_gradient : list R -> nat -> list R := g_ce_gradient Rplus Rminus Rdiv 0 1 exp.
Definition r_bce_loss_row : R -> list R -> nat -> R := g_bce_loss_row Rplus Rminus Rdiv 0 1 exp ln Rltb.
Definition r_bce_gradient : list R -> nat -> list R := g_bce_gradient Rplus Rminus Rdiv 0 1 exp INR.
Definition r_bce_gradient_legacy : list R -> nat -> list R := g_bce_gradient_legacy Rplus Rminus Rdiv 0 1 exp INR.
(** sigmoid(x) - one_hot(y): what the multi-channel branch of the coded gradient computes. *)
Definition r_bce_gradient_onehot (x : list R) (y : nat) : list R :=
  g_ce_gradient_o Rminus 0 1 (map (g_sigmoid Rplus Rminus Rdiv 0 1 exp) x) y.
Definition r_mean_loss : (list R -> nat -> R) -> list (list R) -> list nat -> R := g_mean_loss Rplus Rdiv 0 INR.

(** [l] with its k-th element replaced by [v] (perturbation of one coordinate). *)
Fixpoint upd {X} (l : list X) (k : nat) (v : X) : list X :=
  match l, k with
  | [], _ => []
  | _ :: t, O => v :: t
  | a :: t, S k' => a :: upd t k' v
  end.

(** <out, direction> as the code writes it: [(output * direction).sum()]. *)
Definition r_dot (out dir : list R) : R := r_sum (map2 Rmult out dir).

(* ------------------------------------------------------------------------------------------- *)
(** * Lists with one coordinate replaced *)
Lemma upd_length {X} (l : list X) k v : length (upd l k v) = length l.
Proof. revert k; induction l as [|a t IH]; intros [|k]; cbn; auto. Qed.

Lemma nth_upd {X} (l : list X) k v j d :
  (k < length l)%nat -> nth j (upd l k v) d = if Nat.eqb j k then v else nth j l d.
Proof.
  revert k j; induction l as [|a t IH]; intros k j Hk; [cbn in Hk; lia|].
  destruct k as [|k]; destruct j as [|j]; cbn; try reflexivity.
  apply IH. cbn in Hk. lia.
Qed.

Lemma upd_same {X} (l : list X) k d : upd l k (nth k l d) = l.
Proof.
  revert k; induction l as [|a t IH]; intros [|k]; cbn; try reflexivity. rewrite IH. reflexivity.
Qed.

Lemma map_upd {X Y} (f : X -> Y) (l : list X) k v : map f (upd l k v) = upd (map f l) k (f v).
Proof. revert k; induction l as [|a t IH]; intros [|k]; cbn; try reflexivity. rewrite IH. reflexivity. Qed.

Lemma map2_upd_l {X Y Z} (f : X -> Y -> Z) (l1 : list X) (l2 : list Y) k v dy :
  (k < length l2)%nat -> map2 f (upd l1 k v) l2 = upd (map2 f l1 l2) k (f v (nth k l2 dy)).
Proof.
  revert l2 k; induction l1 as [|a t IH]; intros [|b t2] k Hk; cbn in *; try reflexivity; try lia.
  destruct k as [|k]; cbn; [reflexivity|]. rewrite (IH t2 k) by lia. reflexivity.
Qed.

Lemma r_sum_upd (l : list R) k v : (k < length l)%nat -> r_sum (upd l k v) = v + (r_sum l - nth k l 0).
Proof.
  unfold r_sum, g_sum. revert k; induction l as [|a t IH]; intros k Hk; [cbn in Hk; lia|].
  destruct k as [|k]; cbn [upd fold_right nth].
  - ring.
  - rewrite IH by (cbn in Hk; lia). ring.
Qed.

Lemma nth_map_R {X} (f : X -> R) (l : list X) k dx : (k < length l)%nat -> nth k (map f l) 0 = f (nth k l dx).
Proof.
  intros Hk. rewrite (nth_indep _ 0 (f dx)) by (rewrite map_length; exact Hk). apply map_nth.
Qed.

Lemma r_sum_div (l : list R) s : r_sum (map (fun a => a / s) l) = r_sum l / s.
Proof.
  unfold r_sum, g_sum. induction l as [|a t IH]; cbn [map fold_right]; [unfold Rdiv; ring|].
  rewrite IH. unfold Rdiv. ring.
Qed.

Lemma r_dot_div (l d : list R) s : r_dot (map (fun a => a / s) l) d = r_dot l d / s.
Proof.
  unfold r_dot, r_sum, g_sum. revert d; induction l as [|a t IH]; intros [|b d']; cbn [map map2 fold_right];
    try (unfold Rdiv; ring).
  rewrite IH. unfold Rdiv. ring.
Qed.

Lemma r_sum_exp_pos (l : list R) : l <> [] -> 0 < r_sum (map exp l).
Proof.
  unfold r_sum, g_sum. induction l as [|a t IH]; [congruence|]. intros _. cbn [map fold_right].
  pose proof (exp_pos a) as Ha. destruct t as [|b t'].
  - cbn. lra.
  - assert (0 < fold_right Rplus 0 (map exp (b :: t'))) by (apply IH; discriminate). lra.
Qed.

(* ------------------------------------------------------------------------------------------- *)
(** * Clipping is the identity near a point strictly inside the interval *)
Lemma r_clip_inside lo hi p : lo < p < hi -> r_clip lo hi p = p.
Proof.
  intros [H1 H2]. unfold r_clip, g_clip, Rltb.
  destruct (Rlt_dec p lo) as [H|H]; [lra|]. destruct (Rlt_dec hi p) as [H'|H']; [lra|]. reflexivity.
Qed.

Lemma clip_locally (P : R -> R) (x lo hi : R) :
  continuous P x -> lo < P x < hi -> locally x (fun t => P t = r_clip lo hi (P t)).
Proof.
  intros Hc Hin.
  assert (locally (P x) (fun y => lo < y /\ y < hi)) as Hop.
  { apply (open_and (fun y => lo < y) (fun y => y < hi)); [apply open_gt | apply open_lt | exact Hin]. }
  specialize (Hc _ Hop). unfold filtermap in Hc.
  apply (filter_imp (fun t => lo < P t /\ P t < hi)); [|exact Hc].
  intros t Ht. symmetry. apply r_clip_inside. exact Ht.
Qed.

(* ------------------------------------------------------------------------------------------- *)
(** * ReLu and sigmoid: gradient(signal, direction) = d/dsignal <direction, output> *)
Theorem relu_grad (x dir : R) :
  x <> 0 -> is_derive (fun t => r_relu t * dir) x (r_relu_gradient x dir).
Proof.
  intros Hx. unfold r_relu_gradient, g_relu_gradient, Rltb.
  destruct (Rlt_dec 0 x) as [Hpos|Hneg].
  - apply (is_derive_ext_loc (fun t => t * dir)).
    + apply (filter_imp (fun t => 0 < t)); [|apply (open_gt 0); exact Hpos].
      intros t Ht. unfold r_relu, g_relu, Rltb. destruct (Rlt_dec 0 t); [reflexivity|lra].
    + auto_derive; [exact I | ring].
  - assert (x < 0) as Hlt by lra.
    apply (is_derive_ext_loc (fun t => 0 * dir)).
    + apply (filter_imp (fun t => t < 0)); [|apply (open_lt 0); exact Hlt].
      intros t Ht. unfold r_relu, g_relu, Rltb. destruct (Rlt_dec 0 t); [lra|reflexivity].
    + auto_derive; [exact I | ring].
Qed.

Theorem sigmoid_grad (x dir : R) :
  is_derive (fun t => r_sigmoid t * dir) x (r_sigmoid_gradient x dir).
Proof.
  unfold r_sigmoid, r_sigmoid_gradient, g_sigmoid_gradient, g_sigmoid_gradient_o, g_sigmoid.
  auto_derive.
  - pose proof (exp_pos (0 + - x)). lra.
  - replace (0 + - x) with (0 - x) by ring. pose proof (exp_pos (0 - x)). field. lra.
Qed.

(** Derivative of the activation itself, and the coded gradient as derivative times direction. *)
Corollary sigmoid_grad_Derive (x dir : R) : r_sigmoid_gradient x dir = Derive r_sigmoid x * dir.
Proof.
  pose proof (sigmoid_grad x 1) as H1.
  assert (is_derive r_sigmoid x (r_sigmoid_gradient x 1)) as H
      by (apply (is_derive_ext (fun t => r_sigmoid t * 1)); [intros t; apply Rmult_1_r | exact H1]).
  rewrite (is_derive_unique _ _ _ H).
  unfold r_sigmoid_gradient, g_sigmoid_gradient, g_sigmoid_gradient_o. ring.
Qed.

Corollary relu_grad_Derive (x dir : R) : x <> 0 -> r_relu_gradient x dir = Derive r_relu x * dir.
Proof.
  intros Hx. pose proof (relu_grad x 1 Hx) as H1.
  assert (is_derive r_relu x (r_relu_gradient x 1)) as H
      by (apply (is_derive_ext (fun t => r_relu t * 1)); [intros t; apply Rmult_1_r | exact H1]).
  rewrite (is_derive_unique _ _ _ H).
  unfold r_relu_gradient, g_relu_gradient. ring.
Qed.

(* ------------------------------------------------------------------------------------------- *)
(** * Softmax *)
Theorem softmax_rows_sum_1 (x : list R) : x <> [] -> r_sum (r_softmax_row x) = 1.
Proof.
  intros Hx. unfold r_softmax_row, g_softmax_row. cbv zeta. fold (r_sum (map exp x)).
  rewrite r_sum_div. pose proof (r_sum_exp_pos x Hx). field. lra.
Qed.

(** Closed form of a softmax row with coordinate k replaced by t. *)
Lemma softmax_upd_sum (x : list R) k t :
  (k < length x)%nat -> r_sum (map exp (upd x k t)) = exp t + (r_sum (map exp x) - exp (nth k x 0)).
Proof.
  intros Hk. rewrite map_upd, r_sum_upd by (rewrite map_length; exact Hk).
  rewrite (nth_map_R exp x k 0) by exact Hk. reflexivity.
Qed.

Lemma softmax_upd_nth (x : list R) k t y :
  (k < length x)%nat -> (y < length x)%nat ->
  nth y (r_softmax_row (upd x k t)) 0 =
  (if Nat.eqb y k then exp t else exp (nth y x 0)) / (exp t + (r_sum (map exp x) - exp (nth k x 0))).
Proof.
  intros Hk Hy. unfold r_softmax_row, g_softmax_row. cbv zeta. fold (r_sum (map exp (upd x k t))).
  rewrite softmax_upd_sum by exact Hk.
  rewrite (nth_map_R _ _ y 0) by (rewrite map_length, upd_length; exact Hy).
  rewrite (nth_map_R exp _ y 0) by (rewrite upd_length; exact Hy).
  rewrite nth_upd by exact Hk. destruct (Nat.eqb y k); reflexivity.
Qed.

Lemma softmax_upd_dot (x d : list R) k t :
  (k < length x)%nat -> length d = length x ->
  r_dot (r_softmax_row (upd x k t)) d =
  (exp t * nth k d 0 + (r_dot (map exp x) d - exp (nth k x 0) * nth k d 0))
  / (exp t + (r_sum (map exp x) - exp (nth k x 0))).
Proof.
  intros Hk Hd. unfold r_softmax_row, g_softmax_row. cbv zeta. fold (r_sum (map exp (upd x k t))).
  rewrite r_dot_div, softmax_upd_sum by exact Hk. f_equal.
  unfold r_dot. rewrite map_upd, (map2_upd_l Rmult _ d k _ 0) by (rewrite Hd; exact Hk).
  rewrite r_sum_upd by (rewrite map2_length, map_length, Hd, Nat.min_id; exact Hk).
  rewrite (nth_map2 Rmult _ _ _ 0 0 0) by (rewrite ?map_length, ?Hd; exact Hk).
  rewrite (nth_map_R exp x k 0) by exact Hk. reflexivity.
Qed.

(** Softmax.gradient(signal, direction) is the Jacobian-transpose product: its k-th component is the
    derivative of <softmax(signal), direction> with respect to signal_k. *)
Theorem softmax_jvp (x d : list R) (k : nat) :
  (k < length x)%nat -> length d = length x ->
  is_derive (fun t => r_dot (r_softmax_row (upd x k t)) d) (nth k x 0)
            (nth k (r_softmax_gradient x d) 0).
Proof.
  intros Hk Hd.
  assert (x <> []) as Hne by (destruct x; [cbn in Hk; lia | discriminate]).
  pose proof (r_sum_exp_pos x Hne) as HS.
  set (S := r_sum (map exp x)) in *. set (xk := nth k x 0). set (dk := nth k d 0).
  set (D := r_dot (map exp x) d).
  apply (is_derive_ext (fun t => (exp t * dk + (D - exp xk * dk)) / (exp t + (S - exp xk)))).
  { intros t. symmetry. apply softmax_upd_dot; assumption. }
  (* the coded k-th component *)
  assert (nth k (r_softmax_gradient x d) 0 = exp xk / S * (dk - D / S)) as Hg.
  { unfold r_softmax_gradient, g_softmax_gradient, g_softmax_gradient_o. cbv zeta.
    fold (r_softmax_row x).
    rewrite (nth_map2 _ _ _ _ 0 0 0);
      [| unfold r_softmax_row, g_softmax_row; rewrite !map_length; exact Hk | rewrite Hd; exact Hk].
    change (g_sum Rplus 0 (map2 Rmult (r_softmax_row x) d)) with (r_dot (r_softmax_row x) d).
    unfold r_softmax_row, g_softmax_row. cbv zeta. fold (r_sum (map exp x)). fold S.
    rewrite r_dot_div. fold D.
    rewrite (nth_map_R _ _ k 0) by (rewrite map_length; exact Hk).
    rewrite (nth_map_R exp x k 0) by exact Hk. reflexivity. }
  rewrite Hg.
  auto_derive.
  - lra.
  - field. lra.
Qed.

(* ------------------------------------------------------------------------------------------- *)
(** * Mean loss over the samples: only row i depends on signal[i][k] *)
Lemma mean_loss_derive (loss_row : list R -> nat -> R) (S : list (list R)) (labels : list nat) i k g :
  length labels = length S -> (i < length S)%nat ->
  is_derive (fun t => loss_row (upd (nth i S []) k t) (nth i labels 0%nat)) (nth k (nth i S []) 0) g ->
  is_derive (fun t => r_mean_loss loss_row (upd S i (upd (nth i S []) k t)) labels)
            (nth k (nth i S []) 0) (g / INR (length labels)).
Proof.
  intros Hl Hi Hd. unfold r_mean_loss, g_mean_loss.
  assert (INR (length labels) <> 0) as Hn by (apply not_0_INR; lia).
  set (C := r_sum (map2 loss_row S labels) - loss_row (nth i S []) (nth i labels 0%nat)).
  set (h := fun t : R => loss_row (upd (nth i S []) k t) (nth i labels 0%nat)) in *.
  apply (is_derive_ext (fun t => (h t + C) / INR (length labels))).
  { intros t. unfold h. f_equal. change (g_sum Rplus 0) with r_sum.
    rewrite (map2_upd_l loss_row S labels i _ 0%nat) by (rewrite Hl; exact Hi).
    rewrite r_sum_upd by (rewrite map2_length, Hl, Nat.min_id; exact Hi).
    rewrite (nth_map2 loss_row S labels i [] 0%nat 0) by (rewrite ?Hl; exact Hi). reflexivity. }
  auto_derive.
  - exists g. exact Hd.
  - rewrite (is_derive_unique (fun x : R => h x) _ _ Hd). field. exact Hn.
Qed.

(* ------------------------------------------------------------------------------------------- *)
(** * Cross entropy (softmax) *)
Lemma ce_row_derive (eps : R) (x : list R) (y k : nat) :
  (k < length x)%nat -> (y < length x)%nat ->
  eps < nth y (r_softmax_row x) 0 < 1 - eps ->
  is_derive (fun t => r_ce_loss_row eps (upd x k t) y) (nth k x 0) (nth k (r_ce_gradient x y) 0).
Proof.
  intros Hk Hy Hin.
  assert (x <> []) as Hne by (destruct x; [cbn in Hk; lia | discriminate]).
  pose proof (r_sum_exp_pos x Hne) as HS.
  set (S := r_sum (map exp x)) in *. set (xk := nth k x 0). set (xy := nth y x 0).
  set (P := fun t => (if Nat.eqb y k then exp t else exp xy) / (exp t + (S - exp xk))).
  assert (forall t, nth y (r_softmax_row (upd x k t)) 0 = P t) as HP
      by (intros t; apply softmax_upd_nth; assumption).
  assert (P xk = nth y (r_softmax_row x) 0) as HPx.
  { rewrite <- HP. unfold xk. rewrite upd_same. reflexivity. }
  (* the coded k-th component *)
  assert (nth k (r_ce_gradient x y) 0 = exp xk / S - (if Nat.eqb k y then 1 else 0)) as Hg.
  { unfold r_ce_gradient, g_ce_gradient, g_ce_gradient_o.
    change (g_softmax_row Rplus Rdiv 0 exp x) with (r_softmax_row x).
    assert (length (r_softmax_row x) = length x) as Hlen
        by (unfold r_softmax_row, g_softmax_row; rewrite !map_length; reflexivity).
    rewrite (nth_map2 Rminus _ _ _ 0 0 0);
      [| rewrite Hlen; exact Hk | unfold g_onehot; rewrite map_length, seq_length, Hlen; exact Hk].
    unfold g_onehot. rewrite Hlen.
    rewrite (nth_map_R (fun j => if Nat.eqb j y then 1 else 0) (seq 0 (length x)) k 0%nat)
      by (rewrite seq_length; exact Hk).
    rewrite seq_nth by exact Hk. cbn [Nat.add].
    unfold r_softmax_row, g_softmax_row. cbv zeta. fold (r_sum (map exp x)). fold S.
    rewrite (nth_map_R _ _ k 0) by (rewrite map_length; exact Hk).
    rewrite (nth_map_R exp x k 0) by exact Hk. reflexivity. }
  rewrite Hg.
  assert (exp xk + (S - exp xk) = S) as ES by ring.
  assert (ex_derive P xk) as HexP.
  { unfold P. destruct (Nat.eqb y k); auto_derive; lra. }
  apply (is_derive_ext_loc (fun t => 0 - ln (P t))).
  { pose proof (clip_locally P xk eps (1 - eps) (ex_derive_continuous P xk HexP)) as Hloc.
    rewrite HPx in Hloc. specialize (Hloc Hin).
    apply (filter_imp (fun t => P t = r_clip eps (1 - eps) (P t))); [|exact Hloc].
    intros t Ht. unfold r_ce_loss_row, g_ce_loss_row, g_nth.
    change (g_softmax_row Rplus Rdiv 0 exp (upd x k t)) with (r_softmax_row (upd x k t)).
    rewrite HP. change (g_clip Rltb eps (1 - eps) (P t)) with (r_clip eps (1 - eps) (P t)).
    rewrite <- Ht. reflexivity. }
  (* derivative of - ln (P t) at xk, where P xk > 0 *)
  assert (0 < P xk) as HPpos.
  { unfold P. rewrite ES. apply Rdiv_lt_0_compat; [destruct (Nat.eqb y k); apply exp_pos | exact HS]. }
  unfold P in *. rewrite (Nat.eqb_sym k y).
  destruct (Nat.eqb y k) eqn:Eyk.
  - auto_derive.
    + split; [lra|]. split; [exact HPpos | exact I].
    + rewrite ES. pose proof (exp_pos xk). field. lra.
  - auto_derive.
    + split; [lra|]. split; [exact HPpos | exact I].
    + rewrite ES. pose proof (exp_pos xk). pose proof (exp_pos xy). field. lra.
Qed.

(** CrossEntropy.loss_gradient = n * d(mean loss)/d(signal), away from the clipping threshold. *)
Theorem ce_grad (eps : R) (S : list (list R)) (labels : list nat) (i k : nat) :
  length labels = length S -> (i < length S)%nat ->
  (k < length (nth i S []))%nat -> (nth i labels 0%nat < length (nth i S []))%nat ->
  eps < nth (nth i labels 0%nat) (r_softmax_row (nth i S [])) 0 < 1 - eps ->
  is_derive (fun t => r_mean_loss (r_ce_loss_row eps) (upd S i (upd (nth i S []) k t)) labels)
            (nth k (nth i S []) 0)
            (nth k (r_ce_gradient (nth i S []) (nth i labels 0%nat)) 0 / INR (length labels)).
Proof.
  intros Hl Hi Hk Hy Hin. apply mean_loss_derive; try assumption.
  apply ce_row_derive; assumption.
Qed.

(* ------------------------------------------------------------------------------------------- *)
(** * Binary cross entropy (sigmoid) *)
Lemma sigmoid_range (x : R) : 0 < r_sigmoid x < 1.
Proof.
  unfold r_sigmoid, g_sigmoid. pose proof (exp_pos (0 - x)) as He.
  split.
  - apply Rdiv_lt_0_compat; lra.
  - apply (Rmult_lt_reg_r (1 + exp (0 - x))); [lra|]. field_simplify; lra.
Qed.

Lemma sigmoid_continuous (x : R) : continuous r_sigmoid x.
Proof.
  assert (ex_derive r_sigmoid x) as H.
  { unfold r_sigmoid, g_sigmoid. auto_derive. pose proof (exp_pos (0 + - x)). lra. }
  exact (ex_derive_continuous r_sigmoid x H).
Qed.

(** One channel, one sample: derivative of the coded loss in the signal is sigmoid(x) - y for y in {0, 1}. *)
Lemma bce_single_row_derive (eps x : R) (y : nat) :
  (y = 0 \/ y = 1)%nat -> eps < r_sigmoid x < 1 - eps ->
  is_derive (fun t => r_bce_loss_row eps (t :: nil) y) x (nth 0 (r_bce_gradient (x :: nil) y) 0).
Proof.
  intros Hy Hin.
  pose proof (clip_locally r_sigmoid x eps (1 - eps) (sigmoid_continuous x) Hin) as Hloc.
  pose proof (sigmoid_range x) as Hr.
  unfold r_bce_gradient, g_bce_gradient, g_bce_gradient_o. cbn [map nth].
  change (g_sigmoid Rplus Rminus Rdiv 0 1 exp x) with (r_sigmoid x).
  destruct Hy as [Hy|Hy]; subst y.
  - apply (is_derive_ext_loc (fun t => 0 - ln (1 - r_sigmoid t))).
    + apply (filter_imp (fun t => r_sigmoid t = r_clip eps (1 - eps) (r_sigmoid t))); [|exact Hloc].
      intros t Ht. unfold r_bce_loss_row, g_bce_loss_row. cbn [map Nat.ltb Nat.leb].
      change (g_clip Rltb eps (1 - eps) (g_sigmoid Rplus Rminus Rdiv 0 1 exp t))
        with (r_clip eps (1 - eps) (r_sigmoid t)).
      rewrite <- Ht. reflexivity.
    + unfold r_sigmoid, g_sigmoid in *. cbn [INR].
      auto_derive.
      * pose proof (exp_pos (0 + - x)) as He. replace (0 + - x) with (0 - x) in * by ring.
        split; [lra|]. split; [lra | exact I].
      * replace (0 + - x) with (0 - x) by ring. pose proof (exp_pos (0 - x)) as He. field. lra.
  - apply (is_derive_ext_loc (fun t => 0 - ln (r_sigmoid t))).
    + apply (filter_imp (fun t => r_sigmoid t = r_clip eps (1 - eps) (r_sigmoid t))); [|exact Hloc].
      intros t Ht. unfold r_bce_loss_row, g_bce_loss_row. cbn [map Nat.ltb Nat.leb].
      change (g_clip Rltb eps (1 - eps) (g_sigmoid Rplus Rminus Rdiv 0 1 exp t))
        with (r_clip eps (1 - eps) (r_sigmoid t)).
      rewrite <- Ht. reflexivity.
    + unfold r_sigmoid, g_sigmoid in *. cbn [INR].
      auto_derive.
      * pose proof (exp_pos (0 + - x)) as He. replace (0 + - x) with (0 - x) in * by ring.
        split; [lra|]. split; [lra | exact I].
      * replace (0 + - x) with (0 - x) by ring. pose proof (exp_pos (0 - x)) as He. field. lra.
Qed.

(** BinaryCrossEntropy.loss_gradient = n * d(mean loss)/d(signal) for ONE output channel and binary labels. *)
Theorem bce_grad_single (eps x : R) (S : list (list R)) (labels : list nat) (i : nat) :
  length labels = length S -> (i < length S)%nat -> nth i S [] = (x :: nil) ->
  (nth i labels 0 = 0 \/ nth i labels 0 = 1)%nat ->
  eps < r_sigmoid x < 1 - eps ->
  is_derive (fun t => r_mean_loss (r_bce_loss_row eps) (upd S i (t :: nil)) labels) x
            (nth 0 (r_bce_gradient (nth i S []) (nth i labels 0%nat)) 0 / INR (length labels)).
Proof.
  intros Hl Hi Hrow Hy Hin.
  pose proof (mean_loss_derive (r_bce_loss_row eps) S labels i 0
                (nth 0 (r_bce_gradient (x :: nil) (nth i labels 0%nat)) 0) Hl Hi) as H.
  rewrite Hrow in *. cbn [upd nth] in H. apply H.
  apply bce_single_row_derive; assumption.
Qed.

(** Several channels: the coded loss is a sum over the channels, and only channel k depends on signal_k. *)
Lemma bce_multi_loss_shape (eps : R) (row : list R) (y : nat) :
  (2 <= length row)%nat ->
  r_bce_loss_row eps row y =
  r_sum (map (fun c => if Nat.eqb c y
                       then 0 - ln (nth c (map (fun x => r_clip eps (1 - eps) (r_sigmoid x)) row) 0)
                       else 0 - ln (1 - nth c (map (fun x => r_clip eps (1 - eps) (r_sigmoid x)) row) 0))
                 (seq 0 (length row))).
Proof.
  intros H. unfold r_bce_loss_row, g_bce_loss_row. cbv zeta.
  change (fun x => g_clip Rltb eps (1 - eps) (g_sigmoid Rplus Rminus Rdiv 0 1 exp x))
    with (fun x => r_clip eps (1 - eps) (r_sigmoid x)).
  destruct row as [|a [|b t]]; cbn [length] in H; try lia.
  cbn [map length]. rewrite ?map_length. reflexivity.
Qed.

Lemma map_seq_upd (T : nat -> R -> R) (P0 : list R) k v :
  (k < length P0)%nat ->
  map (fun c => T c (nth c (upd P0 k v) 0)) (seq 0 (length P0)) =
  upd (map (fun c => T c (nth c P0 0)) (seq 0 (length P0))) k (T k v).
Proof.
  intros Hk. apply (nth_ext _ _ 0 0).
  - rewrite upd_length, !map_length. reflexivity.
  - intros c Hc. rewrite map_length, seq_length in Hc.
    rewrite (nth_map_R _ _ c 0%nat) by (rewrite seq_length; exact Hc).
    rewrite seq_nth by exact Hc. cbn [Nat.add].
    rewrite nth_upd by exact Hk.
    rewrite nth_upd by (rewrite map_length, seq_length; exact Hk).
    destruct (Nat.eqb c k) eqn:E.
    + apply Nat.eqb_eq in E. subst c. reflexivity.
    + rewrite (nth_map_R _ _ c 0%nat) by (rewrite seq_length; exact Hc).
      rewrite seq_nth by exact Hc. reflexivity.
Qed.

(** The derivative of the coded multi-channel loss is sigmoid(x_k) - [k = y] (one-hot), which is what a
    repaired loss_gradient returns. *)
Theorem bce_multi_onehot_derive (eps : R) (x : list R) (y k : nat) :
  (2 <= length x)%nat -> (k < length x)%nat -> (y < length x)%nat ->
  eps < r_sigmoid (nth k x 0) < 1 - eps ->
  is_derive (fun t => r_bce_loss_row eps (upd x k t) y) (nth k x 0)
            (nth k (r_bce_gradient_onehot x y) 0).
Proof.
  intros H2 Hk Hy Hin. set (xk := nth k x 0) in *.
  set (cl := fun z => r_clip eps (1 - eps) (r_sigmoid z)).
  set (T := fun (c : nat) (p : R) => if Nat.eqb c y then 0 - ln p else 0 - ln (1 - p)).
  set (C := r_sum (map (fun c => T c (nth c (map cl x) 0)) (seq 0 (length x))) - nth k (map (fun c => T c (nth c (map cl x) 0)) (seq 0 (length x))) 0).
  assert (forall t, r_bce_loss_row eps (upd x k t) y = T k (cl t) + C) as Hshape.
  { intros t. rewrite bce_multi_loss_shape by (rewrite upd_length; exact H2).
    fold cl. rewrite upd_length, map_upd.
    change (fun c => if Nat.eqb c y then 0 - ln (nth c (upd (map cl x) k (cl t)) 0)
                     else 0 - ln (1 - nth c (upd (map cl x) k (cl t)) 0))
      with (fun c => T c (nth c (upd (map cl x) k (cl t)) 0)).
    rewrite <- (map_length cl x) at 1. rewrite map_seq_upd by (rewrite map_length; exact Hk).
    rewrite r_sum_upd by (rewrite !map_length, seq_length; exact Hk).
    rewrite map_length. reflexivity. }
  apply (is_derive_ext (fun t => T k (cl t) + C)); [intros t; symmetry; apply Hshape|].
  (* coded one-hot component *)
  assert (nth k (r_bce_gradient_onehot x y) 0 = r_sigmoid xk - (if Nat.eqb k y then 1 else 0)) as Hg.
  { unfold r_bce_gradient_onehot, g_ce_gradient_o.
    change (g_sigmoid Rplus Rminus Rdiv 0 1 exp) with r_sigmoid.
    rewrite (nth_map2 Rminus _ _ _ 0 0 0);
      [| rewrite map_length; exact Hk | unfold g_onehot; rewrite !map_length, seq_length; exact Hk].
    unfold g_onehot. rewrite map_length.
    rewrite (nth_map_R (fun j => if Nat.eqb j y then 1 else 0) (seq 0 (length x)) k 0%nat)
      by (rewrite seq_length; exact Hk).
    rewrite seq_nth by exact Hk. cbn [Nat.add].
    rewrite (nth_map_R r_sigmoid x k 0) by exact Hk. reflexivity. }
  rewrite Hg.
  pose proof (clip_locally r_sigmoid xk eps (1 - eps) (sigmoid_continuous xk) Hin) as Hloc.
  pose proof (sigmoid_range xk) as Hr.
  unfold T. destruct (Nat.eqb k y).
  - apply (is_derive_ext_loc (fun t => 0 - ln (r_sigmoid t) + C)).
    + apply (filter_imp (fun t => r_sigmoid t = r_clip eps (1 - eps) (r_sigmoid t))); [|exact Hloc].
      intros t Ht. unfold cl. rewrite <- Ht. reflexivity.
    + unfold r_sigmoid, g_sigmoid in *. auto_derive.
      * pose proof (exp_pos (0 + - xk)) as He. replace (0 + - xk) with (0 - xk) in * by ring.
        split; [lra|]. split; [lra | exact I].
      * replace (0 + - xk) with (0 - xk) by ring. pose proof (exp_pos (0 - xk)) as He. field. lra.
  - apply (is_derive_ext_loc (fun t => 0 - ln (1 - r_sigmoid t) + C)).
    + apply (filter_imp (fun t => r_sigmoid t = r_clip eps (1 - eps) (r_sigmoid t))); [|exact Hloc].
      intros t Ht. unfold cl. rewrite <- Ht. reflexivity.
    + unfold r_sigmoid, g_sigmoid in *. auto_derive.
      * pose proof (exp_pos (0 + - xk)) as He. replace (0 + - xk) with (0 - xk) in * by ring.
        split; [lra|]. split; [lra | exact I].
      * replace (0 + - xk) with (0 - xk) by ring. pose proof (exp_pos (0 - xk)) as He. field. lra.
Qed.

Lemma bce_gradient_multi_is_onehot (x : list R) (y : nat) :
  (2 <= length x)%nat -> r_bce_gradient x y = r_bce_gradient_onehot x y.
Proof.
  intros H. unfold r_bce_gradient, r_bce_gradient_onehot, g_bce_gradient, g_bce_gradient_o.
  destruct x as [|a [|b t]]; cbn [length] in H; try lia. reflexivity.
Qed.

(** One sample, several channels: the coded gradient is the derivative of the coded loss. *)
Theorem bce_multi_row_derive (eps : R) (x : list R) (y k : nat) :
  (2 <= length x)%nat -> (k < length x)%nat -> (y < length x)%nat ->
  eps < r_sigmoid (nth k x 0) < 1 - eps ->
  is_derive (fun t => r_bce_loss_row eps (upd x k t) y) (nth k x 0) (nth k (r_bce_gradient x y) 0).
Proof.
  intros H2 Hk Hy Hin. rewrite bce_gradient_multi_is_onehot by exact H2.
  apply bce_multi_onehot_derive; assumption.
Qed.

(** BinaryCrossEntropy.loss_gradient = n * d(mean loss)/d(signal) with SEVERAL output channels
    (the code after repo commit 018b4674), away from the clipping threshold. *)
Theorem bce_grad_multi (eps : R) (S : list (list R)) (labels : list nat) (i k : nat) :
  length labels = length S -> (i < length S)%nat ->
  (2 <= length (nth i S []))%nat -> (k < length (nth i S []))%nat ->
  (nth i labels 0%nat < length (nth i S []))%nat ->
  eps < r_sigmoid (nth k (nth i S []) 0) < 1 - eps ->
  is_derive (fun t => r_mean_loss (r_bce_loss_row eps) (upd S i (upd (nth i S []) k t)) labels)
            (nth k (nth i S []) 0)
            (nth k (r_bce_gradient (nth i S []) (nth i labels 0%nat)) 0 / INR (length labels)).
Proof.
  intros Hl Hi H2 Hk Hy Hin. apply mean_loss_derive; try assumption.
  apply bce_multi_row_derive; assumption.
Qed.

(** Legacy D18 (before 018b4674). With several channels the old gradient [(probs.T - labels).T] subtracted the
    label VALUE from every channel; this is not the derivative of the coded loss: at signal (0, 0) with label 1
    the derivative in channel 0 is sigmoid(0) = 1/2, the old value was 1/2 - 1. *)
Theorem bce_grad_multi_legacy_refuted (eps : R) :
  0 < eps < 1 / 2 ->
  exists (x : list R) (y k : nat),
    (2 <= length x)%nat /\ (k < length x)%nat /\ (y < length x)%nat /\
    nth k (r_bce_gradient_legacy x y) 0 <> nth k (r_bce_gradient x y) 0 /\
    ~ is_derive (fun t => r_bce_loss_row eps (upd x k t) y) (nth k x 0) (nth k (r_bce_gradient_legacy x y) 0).
Proof.
  intros Heps. exists [0; 0], 1%nat, 0%nat.
  assert (r_sigmoid 0 = 1 / 2) as Hs.
  { unfold r_sigmoid, g_sigmoid. replace (0 - 0) with 0 by ring. rewrite exp_0. lra. }
  assert (nth 0 (r_bce_gradient_legacy [0; 0] 1) 0 = - (1 / 2)) as Hcoded.
  { unfold r_bce_gradient_legacy, g_bce_gradient_legacy, g_bce_gradient_legacy_o. cbn [map nth INR].
    change (g_sigmoid Rplus Rminus Rdiv 0 1 exp 0) with (r_sigmoid 0). rewrite Hs. lra. }
  assert (nth 0 (r_bce_gradient [0; 0] 1) 0 = 1 / 2) as Hfix.
  { unfold r_bce_gradient, g_bce_gradient, g_bce_gradient_o, g_ce_gradient_o, g_onehot.
    cbn [map map2 nth length seq Nat.eqb].
    change (g_sigmoid Rplus Rminus Rdiv 0 1 exp 0) with (r_sigmoid 0). rewrite Hs. lra. }
  cbn [length]. split; [lia|]. split; [lia|]. split; [lia|]. split.
  - rewrite Hcoded, Hfix. lra.
  - intros Hbad.
    assert (is_derive (fun t => r_bce_loss_row eps (upd [0; 0] 0 t) 1) (nth 0 [0; 0] 0)
                      (nth 0 (r_bce_gradient [0; 0] 1) 0)) as Hgood.
    { apply bce_multi_row_derive; cbn [length nth]; try lia. rewrite Hs. lra. }
    apply is_derive_unique in Hbad. apply is_derive_unique in Hgood.
    rewrite Hbad in Hgood. rewrite Hcoded, Hfix in Hgood. lra.
Qed.

(** Tree sampling divergence over the real numbers (C08, last clause: the normalised TSD lies in [0, 1]).

    Part 1 (abstract, lists of pairs of reals): Gibbs' inequality [kl_nonneg], the log-sum inequality
    [log_sum_inequality], and the coarse-graining (data-processing) inequality [kl_coarse_le].
    Part 2 (model): the pairs (edge_sampling[t], node_sampling[t]) computed by the model of
    [get_sampling_distributions] (Model/Cuts.v) are the images, under (u, v) |-> merge at which u and v meet,
    of the pair-level distributions a(u,v) = A_uv / w and b(u,v) = w_row[u] * w_col[v]; both sum to 1.
    Part 3: [tsd_real] = the formula of [tree_sampling_divergence] (Model/Cuts.v) on the SAME rational terms
    ([tsd_terms], [mi_terms]) with the real logarithm [ln] in place of the oracle; bounds [tsd_real_nonneg],
    [tsd_real_le_mi], [tsd_real_unit].

    This file uses the standard library Reals: its theorems depend on the axioms of that library
    (ClassicalDedekindReals.sig_not_dec, sig_forall_dec, functional_extensionality_dep, possibly classic). *)
From Coq Require Import Reals Lra Qreals Permutation Lqa Psatz Qreduction.
From SKN Require Import Base.Util Model.Dendrogram Model.Cuts Proofs.CutsProofs.
Set Warnings "-notation-overridden".

(** * Part 1: finite distributions as lists of pairs (a_i, b_i) of reals *)
Section Abstract.
Local Open Scope R_scope.

Definition sumR (l : list R) : R := fold_right Rplus 0 l.

(** One term a * ln (a / b) of a divergence.  [ln] of the standard library is 0 on non-positive arguments, so
    a term with a = 0 is 0: summing over all indices or only over those with a <> 0 (as the code does) is the same
    ([kl_filter]). *)
Definition klt (x : R * R) : R := fst x * ln (fst x / snd x).
Definition kl (l : list (R * R)) : R := sumR (map klt l).
Definition mass1 (l : list (R * R)) : R := sumR (map fst l).
Definition mass2 (l : list (R * R)) : R := sumR (map snd l).

(** a >= 0, b >= 0 and b > 0 wherever a > 0 (absolute continuity). *)
Definition okpair (x : R * R) : Prop := 0 <= fst x /\ 0 <= snd x /\ (0 < fst x -> 0 < snd x).

Lemma sumR_cons a l : sumR (a :: l) = a + sumR l.
Proof. reflexivity. Qed.

Lemma sumR_app l1 l2 : sumR (l1 ++ l2) = sumR l1 + sumR l2.
Proof. induction l1 as [|a l1 IH]; simpl; [lra | rewrite IH; lra]. Qed.

Lemma sumR_perm l l' : Permutation l l' -> sumR l = sumR l'.
Proof. induction 1; simpl; lra. Qed.

Lemma sumR_ext {A} (f g : A -> R) l : (forall x, In x l -> f x = g x) -> sumR (map f l) = sumR (map g l).
Proof.
  induction l as [|a l IH]; intros H; [reflexivity|]. simpl. rewrite (H a (or_introl eq_refl)), IH; [reflexivity|].
  intros x Hx. apply H. now right.
Qed.

Lemma sumR_zero {A} (f : A -> R) l : (forall x, In x l -> f x = 0) -> sumR (map f l) = 0.
Proof.
  induction l as [|a l IH]; intros H; [reflexivity|]. simpl. rewrite (H a (or_introl eq_refl)), IH; [lra|].
  intros x Hx. apply H. now right.
Qed.

Lemma sumR_nonneg l : (forall x, In x l -> 0 <= x) -> 0 <= sumR l.
Proof.
  induction l as [|a l IH]; intros H; simpl; [lra|].
  assert (H1 := H a (or_introl eq_refl)). assert (H2 : 0 <= sumR l) by (apply IH; intros x Hx; apply H; now right). lra.
Qed.

Lemma kl_app l1 l2 : kl (l1 ++ l2) = kl l1 + kl l2.
Proof. unfold kl. now rewrite map_app, sumR_app. Qed.
Lemma mass1_app l1 l2 : mass1 (l1 ++ l2) = mass1 l1 + mass1 l2.
Proof. unfold mass1. now rewrite map_app, sumR_app. Qed.
Lemma mass2_app l1 l2 : mass2 (l1 ++ l2) = mass2 l1 + mass2 l2.
Proof. unfold mass2. now rewrite map_app, sumR_app. Qed.

Lemma kl_perm l l' : Permutation l l' -> kl l = kl l'.
Proof. intros P. unfold kl. apply sumR_perm. now apply Permutation_map. Qed.
Lemma mass1_perm l l' : Permutation l l' -> mass1 l = mass1 l'.
Proof. intros P. unfold mass1. apply sumR_perm. now apply Permutation_map. Qed.
Lemma mass2_perm l l' : Permutation l l' -> mass2 l = mass2 l'.
Proof. intros P. unfold mass2. apply sumR_perm. now apply Permutation_map. Qed.

Lemma klt_zero b : klt (0, b) = 0.
Proof. unfold klt. simpl. lra. Qed.

(** Dropping the terms with a = 0 (what [np.where(edge_sampling)] does) changes nothing. *)
Lemma kl_filter (f : R * R -> bool) l : (forall x, In x l -> f x = false -> fst x = 0) -> kl (filter f l) = kl l.
Proof.
  induction l as [|x l IH]; intros H; [reflexivity|]. simpl.
  assert (IH' : kl (filter f l) = kl l) by (apply IH; intros y Hy; apply H; now right).
  destruct (f x) eqn:E.
  - unfold kl in *. simpl. now rewrite IH'.
  - unfold kl in *. simpl. rewrite IH'. assert (E0 := H x (or_introl eq_refl) E). unfold klt at 2. rewrite E0. lra.
Qed.

(** ln x <= x - 1 *)
Lemma ln_le_sub1 x : 0 < x -> ln x <= x - 1.
Proof. intros Hx. assert (H := exp_ineq1_le (ln x)). rewrite (exp_ln x Hx) in H. lra. Qed.

(** a - b <= a ln (a / b) *)
Lemma klt_ge a b : 0 <= a -> 0 <= b -> (0 < a -> 0 < b) -> a - b <= a * ln (a / b).
Proof.
  intros Ha Hb Hab. destruct (Rle_lt_or_eq_dec 0 a Ha) as [Hpos|<-]; [|lra].
  assert (Hbp := Hab Hpos).
  assert (E : ln (a / b) = - ln (b / a)).
  { rewrite <- ln_Rinv by (apply Rdiv_lt_0_compat; assumption). f_equal. field. split; lra. }
  rewrite E. assert (H := ln_le_sub1 (b / a) (Rdiv_lt_0_compat _ _ Hbp Hpos)).
  assert (H2 : a * (b / a - 1) = b - a) by (field; lra).
  assert (H3 : a * ln (b / a) <= a * (b / a - 1)) by (apply Rmult_le_compat_l; lra). lra.
Qed.

Lemma kl_ge_mass l : Forall okpair l -> mass1 l - mass2 l <= kl l.
Proof.
  induction 1 as [|x l (H1 & H2 & H3) _ IH]; unfold kl, mass1, mass2 in *; simpl; [lra|].
  assert (H := klt_ge (fst x) (snd x) H1 H2 H3). unfold klt at 1. lra.
Qed.

(** Gibbs' inequality: D(p || q) >= 0 when the mass of q does not exceed the mass of p
    (in particular for two probability vectors). *)
Theorem kl_nonneg_gen l : Forall okpair l -> mass2 l <= mass1 l -> 0 <= kl l.
Proof. intros H Hm. assert (H1 := kl_ge_mass l H). lra. Qed.

Lemma mass1_nonneg l : Forall okpair l -> 0 <= mass1 l.
Proof. induction 1 as [|x l (H1 & _) _ IH]; unfold mass1 in *; simpl; lra. Qed.
Lemma mass2_nonneg l : Forall okpair l -> 0 <= mass2 l.
Proof. induction 1 as [|x l (_ & H1 & _) _ IH]; unfold mass2 in *; simpl; lra. Qed.

Lemma mass_pos l : Forall okpair l -> 0 < mass1 l -> 0 < mass2 l.
Proof.
  induction 1 as [|x l (H1 & H2 & H3) Hl IH]; unfold mass1, mass2 in *; simpl; [lra|]. intros Hp.
  assert (Hm := mass2_nonneg l Hl). unfold mass2 in Hm.
  destruct (Rle_lt_or_eq_dec 0 (fst x) H1) as [Hpos|E]; [specialize (H3 Hpos); lra|].
  rewrite <- E in Hp. assert (0 < sumR (map snd l)) by (apply IH; lra). lra.
Qed.

Lemma kl_mass_zero l : Forall okpair l -> mass1 l = 0 -> kl l = 0.
Proof.
  induction 1 as [|x l (H1 & H2 & H3) Hl IH]; unfold mass1, kl in *; simpl; [reflexivity|]. intros E.
  assert (Hm := mass1_nonneg l Hl). unfold mass1 in Hm.
  assert (E1 : fst x = 0) by lra. assert (E2 : sumR (map fst l) = 0) by lra.
  rewrite (IH E2). unfold klt. rewrite E1. lra.
Qed.

(** The log-sum inequality: (sum a) ln (sum a / sum b) <= sum a_i ln (a_i / b_i). *)
Theorem log_sum_inequality l : Forall okpair l -> mass1 l * ln (mass1 l / mass2 l) <= kl l.
Proof.
  intros Hl. assert (HA := mass1_nonneg l Hl).
  destruct (Rle_lt_or_eq_dec 0 (mass1 l) HA) as [HApos|E].
  2:{ rewrite (kl_mass_zero l Hl (eq_sym E)), <- E. lra. }
  assert (HB := mass_pos l Hl HApos).
  set (A := mass1 l) in *. set (B := mass2 l) in *.
  (* term by term: a ln(a/b) - a ln(A/B) >= a - b A / B *)
  assert (Hterm : forall x, okpair x -> fst x - snd x * (A / B) <= klt x - fst x * ln (A / B)).
  { intros x (H1 & H2 & H3). unfold klt.
    destruct (Rle_lt_or_eq_dec 0 (fst x) H1) as [Hpos|E0].
    - assert (Hb := H3 Hpos).
      assert (Hr : 0 < A / B) by (apply Rdiv_lt_0_compat; assumption).
      assert (Hc : 0 < snd x * (A / B)) by (apply Rmult_lt_0_compat; assumption).
      assert (H := klt_ge (fst x) (snd x * (A / B)) H1 (Rlt_le _ _ Hc) (fun _ => Hc)).
      assert (E1 : fst x / (snd x * (A / B)) = (fst x / snd x) * / (A / B)) by (field; repeat split; lra).
      rewrite E1, ln_mult, ln_Rinv in H; [lra | assumption | apply Rdiv_lt_0_compat; assumption | apply Rinv_0_lt_compat; assumption].
    - rewrite <- E0. assert (0 <= snd x * (A / B)).
      { apply Rmult_le_pos; [exact H2|]. apply Rlt_le, Rdiv_lt_0_compat; assumption. } lra. }
  assert (Hsum : forall l', Forall okpair l' -> mass1 l' - mass2 l' * (A / B) <= kl l' - mass1 l' * ln (A / B)).
  { induction 1 as [|x l' Hx _ IH]; unfold mass1, mass2, kl in *; simpl; [lra|]. specialize (Hterm x Hx). lra. }
  specialize (Hsum l Hl). fold A B in Hsum.
  assert (E : B * (A / B) = A) by (field; lra). lra.
Qed.

(** Coarse-graining.  [groups]: the fine-level pairs (a_k, b_k), grouped by the value of a map k |-> j;
    the coarse pair of a group is (sum of its a's, sum of its b's). *)
Definition coarse (groups : list (list (R * R))) : list (R * R) := map (fun g => (mass1 g, mass2 g)) groups.

Lemma coarse_mass1 groups : mass1 (coarse groups) = mass1 (concat groups).
Proof. induction groups as [|g gs IH]; [reflexivity|]. simpl. rewrite mass1_app, <- IH. reflexivity. Qed.
Lemma coarse_mass2 groups : mass2 (coarse groups) = mass2 (concat groups).
Proof. induction groups as [|g gs IH]; [reflexivity|]. simpl. rewrite mass2_app, <- IH. reflexivity. Qed.

Lemma coarse_ok groups : Forall (Forall okpair) groups -> Forall okpair (coarse groups).
Proof.
  induction 1 as [|g gs Hg _ IH]; [constructor|]. simpl. constructor; [|exact IH].
  split; [now apply mass1_nonneg|]. split; [now apply mass2_nonneg | now apply mass_pos].
Qed.

(** Data-processing inequality: the divergence of the images is at most the divergence of the originals. *)
Theorem kl_coarse_le groups : Forall (Forall okpair) groups -> kl (coarse groups) <= kl (concat groups).
Proof.
  induction 1 as [|g gs Hg _ IH]; [unfold kl; simpl; lra|]. simpl. rewrite kl_app.
  assert (H := log_sum_inequality g Hg). unfold kl in *. simpl. unfold klt at 1. simpl. lra.
Qed.

(** The value returned with normalized=True: score / mi when mi > 0, score otherwise. *)
Definition normalise (score mi : R) : R := if Rle_dec mi 0 then score else score / mi.

Lemma normalise_unit score mi : 0 <= score <= mi -> 0 <= normalise score mi <= 1.
Proof.
  intros [H1 H2]. unfold normalise. destruct (Rle_dec mi 0) as [H|H]; [lra|].
  assert (Hm : 0 < mi) by lra. split.
  - apply Rmult_le_pos; [lra | apply Rlt_le, Rinv_0_lt_compat; lra].
  - apply (Rmult_le_reg_r mi); [lra|]. unfold Rdiv. rewrite Rmult_assoc, Rinv_l by lra. lra.
Qed.

(** Everything at once, for distributions given as lists:
    fine-level pairs in groups, fine-level masses (1, <= 1): 0 <= D(coarse) <= D(fine), normalised in [0, 1]. *)
Theorem coarse_divergence_bounds groups :
  Forall (Forall okpair) groups -> mass2 (concat groups) <= mass1 (concat groups) ->
  0 <= kl (coarse groups) <= kl (concat groups) /\
  0 <= normalise (kl (coarse groups)) (kl (concat groups)) <= 1.
Proof.
  intros Hg Hm.
  assert (H0 : 0 <= kl (coarse groups)).
  { apply kl_nonneg_gen; [now apply coarse_ok|]. now rewrite coarse_mass1, coarse_mass2. }
  assert (H1 := kl_coarse_le groups Hg). split; [lra|]. apply normalise_unit. lra.
Qed.
End Abstract.

(** * Part 2: the sampling distributions of the model are images of pair-level distributions *)

Lemma Q2R_0' : Q2R 0 = 0%R.
Proof. unfold Q2R. simpl. lra. Qed.

Lemma Q2R_sumq l : Q2R (sumq l) = sumR (map Q2R l).
Proof.
  induction l as [|a l IH]; [exact Q2R_0'|]. rewrite sumq_cons, Q2R_plus, IH. reflexivity.
Qed.

Lemma sumq_list_prod {A B} (f : A * B -> Q) (l1 : list A) (l2 : list B) :
  (sumq (map f (list_prod l1 l2)) == sumq (map (fun u => sumq (map (fun v => f (u, v)) l2)) l1))%Q.
Proof.
  induction l1 as [|a l1 IH]; [reflexivity|]. cbn [list_prod map]. rewrite map_app, sumq_app, sumq_cons, IH, map_map.
  reflexivity.
Qed.

Lemma sumq_prod {A B} (f : A -> Q) (g : B -> Q) l1 l2 :
  (sumq (map f l1) * sumq (map g l2) == sumq (map (fun u => sumq (map (fun v => f u * g v) l2)) l1))%Q.
Proof.
  rewrite Qmult_comm, <- sumq_scale. apply sumq_ext. intros u _. rewrite Qmult_comm, <- sumq_scale. reflexivity.
Qed.

Lemma NoDup_list_prod {A B} (l1 : list A) (l2 : list B) : NoDup l1 -> NoDup l2 -> NoDup (list_prod l1 l2).
Proof.
  intros H1 H2. induction H1 as [|a l1 Ha H1 IH]; [constructor|]. cbn [list_prod].
  apply NoDup_app_intro_aux; [|exact IH|].
  - apply FinFun.Injective_map_NoDup; [|exact H2]. intros x y E. now inversion E.
  - intros [x y] Hx Hy. apply in_map_iff in Hx. destruct Hx as (z & E & _). inversion E; subst.
    apply in_prod_iff in Hy. tauto.
Qed.

Lemma NoDup_concat_nth {A} (ls : list (list A)) :
  (forall i l, nth_error ls i = Some l -> NoDup l) ->
  (forall i j li lj x, nth_error ls i = Some li -> nth_error ls j = Some lj -> In x li -> In x lj -> i = j) ->
  NoDup (concat ls).
Proof.
  induction ls as [|l ls IH]; intros H1 H2; [constructor|]. cbn [concat]. apply NoDup_app_intro_aux.
  - exact (H1 0 l eq_refl).
  - apply IH.
    + intros i l' Hi. exact (H1 (S i) l' Hi).
    + intros i j li lj x Hi Hj Hxi Hxj. assert (E := H2 (S i) (S j) li lj x Hi Hj Hxi Hxj). lia.
  - intros x Hx Hc. apply in_concat in Hc. destruct Hc as (l' & Hl' & Hxl').
    destruct (In_nth_error _ _ Hl') as [j Hj]. assert (E := H2 0 (S j) l l' x eq_refl Hj Hx Hxl'). discriminate.
Qed.

(** A sum over a duplicate-free sub-list equals the sum over the whole list when the function vanishes elsewhere. *)
Lemma sumR_support {A} (f : A -> R) (l l' : list A) : NoDup l -> NoDup l' -> incl l l' ->
  (forall x, In x l' -> ~ In x l -> f x = 0%R) -> sumR (map f l) = sumR (map f l').
Proof.
  revert l'. induction l as [|a l IH]; intros l' Hnd Hnd' Hincl Hz.
  - simpl. symmetry. apply sumR_zero. intros x Hx. apply Hz; [exact Hx | intros []].
  - inversion Hnd as [|? ? Hn Hnd1]; subst.
    assert (Ha : In a l') by (apply Hincl; now left). apply in_split in Ha. destruct Ha as (l1 & l2 & ->).
    assert (Hnd2 := NoDup_remove_1 _ _ _ Hnd'). assert (Hna := NoDup_remove_2 _ _ _ Hnd').
    assert (Hincl' : incl l (l1 ++ l2)).
    { intros x Hx. assert (H := Hincl x (or_intror Hx)). apply in_app_iff in H. apply in_app_iff.
      destruct H as [H|[H|H]]; [now left | subst; tauto | now right]. }
    rewrite map_app. cbn [map]. rewrite sumR_app, !sumR_cons.
    rewrite (IH (l1 ++ l2) Hnd1 Hnd2 Hincl').
    + rewrite map_app, sumR_app. lra.
    + intros x Hx Hnx. apply Hz.
      * apply in_app_iff in Hx. apply in_app_iff. destruct Hx; [now left | right; now right].
      * intros [<-|H]; [exact (Hna Hx) | exact (Hnx H)].
Qed.

Lemma Rabs_le_inv' a b : (Rabs a <= b)%R -> (- b <= a <= b)%R.
Proof. unfold Rabs. destruct (Rcase_abs a); lra. Qed.

Lemma Forall2_len {A B} (P : A -> B -> Prop) l1 l2 : Forall2 P l1 l2 -> length l1 = length l2.
Proof. induction 1; simpl; congruence. Qed.

Lemma Forall2_imp {A B} (P P' : A -> B -> Prop) l1 l2 :
  (forall a b, P a b -> P' a b) -> Forall2 P l1 l2 -> Forall2 P' l1 l2.
Proof. intros H. induction 1; constructor; auto. Qed.

Lemma Forall2_in_l {A B} (P : A -> B -> Prop) l1 l2 x : Forall2 P l1 l2 -> In x l1 -> exists y, In y l2 /\ P x y.
Proof.
  induction 1 as [|a b l1 l2 Hab _ IH]; intros Hx; [destruct Hx|]. destruct Hx as [<-|Hx].
  - exists b. split; [now left | exact Hab].
  - destruct (IH Hx) as (y & Hy & Hp). exists y. split; [now right | exact Hp].
Qed.

(** * Part 3 (definitions): the formula of [tree_sampling_divergence] with the real logarithm.
    Same terms as the model ([tsd_terms], [mi_terms] of Model/Cuts.v, exact rationals), injected into R by [Q2R];
    [ln] instead of the oracle; [mutual_information > 0] decided over the reals. *)
Definition q2 (x : Q * Q) : R * R := (Q2R (fst x), Q2R (snd x)).

Definition tsd_real (degree : bool) (n : nat) (G : wgraph) (D : dendrogram) (normalized : bool) : result R :=
  match tsd_terms degree n G D with
  | Err e => Err e
  | Ok ts =>
      let score := kl (map q2 ts) in
      if normalized then Ok (normalise score (kl (map q2 (mi_terms degree n G)))) else Ok score
  end.

Section Model.
Context (degree : bool) (n : nat) (G : wgraph) (D : dendrogram) (Hv : valid n D = true).
Context (HG : forall e, In e G -> e_src e < n /\ e_dst e < n).
Context (Hpos : forall e, In e G -> (0 <= e_w e)%Q).
Context (Hw : (0 < total_weight G)%Q) (Hn : 2 <= n).

Notation L := (leaves n D).
Notation W := (total_weight G).

(** w_row[u], w_col[v] *)
Definition pir (u : nat) : Q := nthq (probs_row degree n G) u.
Definition pic (u : nat) : Q := nthq (probs_col degree n G) u.

(** The pair-level distributions: a(u, v) = A_uv / w (edge sampling), b(u, v) = w_row[u] w_col[v] (node sampling). *)
Definition aQ (p : nat * nat) : Q := (adj G (fst p) (snd p) / W)%Q.
Definition bQ (p : nat * nat) : Q := (pir (fst p) * pic (snd p))%Q.

(** The ordered pairs charged to merge r = (i, j): those with one end below i and the other below j, and the
    diagonal pair (x, x) of a child x that is a leaf (self-loops are charged to the first merge of their node). *)
Definition selfs (r : drow) : list nat := filter (fun x => Nat.ltb x n) [r_left r; r_right r].
Definition swap (p : nat * nat) : nat * nat := (snd p, fst p).
Definition pairs (r : drow) : list (nat * nat) :=
  list_prod (L (r_left r)) (L (r_right r)) ++ map swap (list_prod (L (r_left r)) (L (r_right r))) ++
  map (fun x => (x, x)) (selfs r).

(** node_sampling[t] in closed form *)
Definition NS (r : drow) : Q :=
  (PR degree n G (L (r_left r)) * PC degree n G (L (r_right r)) +
   PR degree n G (L (r_right r)) * PC degree n G (L (r_left r)) +
   sumq (map (fun x => pir x * pic x) (selfs r)))%Q.

Lemma sampling_step_ns t r g es ns cw : nth_error D t = Some r -> ainv degree n G D t g ->
  sampling_step n g (r_left r) (r_right r) = Ok (es, ns, cw) -> (ns == NS r)%Q.
Proof.
  intros Hr (Hnext & Lnb & Lout & Lin & Hrowsinv & HW & HWs & Hout & Hinw) Hs.
  destruct (valid_rows n D Hv) as [Hlen Hrows].
  destruct (Hrows t r Hr) as (Hne & Hil & Hjl & Hiu & Hju).
  assert (Ht : t < length D) by (apply nth_error_Some; congruence).
  assert (Hft : length (firstn t D) = t) by (rewrite firstn_length; lia).
  unfold NS, selfs. set (a := r_left r) in *. set (b := r_right r) in *.
  assert (Hlive : forall {A} (l : list (nat * A)), linvp n (firstn t D) l -> In a (akeys l) /\ In b (akeys l)).
  { intros A l (_ & Hk & _). split; apply Hk; rewrite Hft; tauto. }
  destruct (Hlive _ _ Lout) as [Hao Hbo]. destruct (Hlive _ _ Lin) as [Hai Hbi].
  unfold sampling_step in Hs.
  destruct (alookup a (ag_nb g)) as [ra|]; [|discriminate].
  destruct (alookup a (ag_out g)) as [oa|] eqn:Eoa; [|discriminate].
  destruct (alookup b (ag_out g)) as [ob|] eqn:Eob; [|discriminate].
  destruct (alookup a (ag_in g)) as [ia|] eqn:Eia; [|discriminate].
  destruct (alookup b (ag_in g)) as [ib|] eqn:Eib; [|discriminate].
  replace (Nat.eqb a b) with false in Hs by (symmetry; now apply Nat.eqb_neq).
  apply (f_equal (fun x => match x with Ok y => snd (fst y) | Err _ => 0%Q end)) in Hs. cbn beta iota in Hs. cbn [fst snd] in Hs.
  rewrite <- Hs. clear Hs. rewrite Qred_correct.
  assert (E1 := Hout a Hao). assert (E2 := Hout b Hbo). assert (E3 := Hinw a Hai). assert (E4 := Hinw b Hbi).
  unfold getw in E1, E2, E3, E4. rewrite Eoa in E1. rewrite Eob in E2. rewrite Eia in E3. rewrite Eib in E4.
  rewrite E1, E2, E3, E4, qsum_sumq.
  apply Qplus_comp; [reflexivity|]. apply sumq_ext. intros x Hx.
  apply filter_In in Hx. destruct Hx as [Hx Hxn]. apply Nat.ltb_lt in Hxn.
  assert (Hxo : In x (akeys (ag_out g))) by (destruct Hx as [<-|[<-|[]]]; assumption).
  assert (Hxi : In x (akeys (ag_in g))) by (destruct Hx as [<-|[<-|[]]]; assumption).
  rewrite (Hout x Hxo), (Hinw x Hxi), (leaves_leaf n D x Hxn). unfold PR, PC, pir, pic. cbn [map].
  rewrite !sumq_cons, !sumq_nil. ring.
Qed.

Lemma sampling_loop_terms : forall rows done g, D = done ++ rows -> ainv degree n G D (length done) g ->
  exists xs, sampling_loop n rows g = Ok xs /\
    Forall2 (fun (x : Q * Q * Q) r => (fst (fst x) == ES n G D r)%Q /\ (snd (fst x) == NS r)%Q) xs rows.
Proof.
  induction rows as [|r rows IH]; intros done g HD Hinv.
  - exists []. split; [reflexivity | constructor].
  - assert (Hr : nth_error D (length done) = Some r) by (rewrite HD; apply nth_error_app_length).
    destruct (sampling_step_spec degree n G D Hv _ r g Hr Hinv) as (es & ns & cw & Hs & Ees & Ecw).
    assert (Ens := sampling_step_ns _ r g es ns cw Hr Hinv Hs).
    destruct (ainv_step degree n G D Hv _ r g Hr Hinv) as [g' [Hm Hinv']].
    destruct (IH (done ++ [r]) g') as [xs [Hl HF]].
    + now rewrite <- app_assoc.
    + rewrite app_length. simpl. now rewrite Nat.add_1_r.
    + exists ((es, ns, cw) :: xs). split.
      * simpl. rewrite Hs, Hm, Hl. reflexivity.
      * constructor; [split; assumption | exact HF].
Qed.

Definition pi2 (x : Q * Q * Q) : Q * Q := (fst (fst x), snd (fst x)).

Lemma tsd_terms_spec : G <> [] ->
  exists xs, tsd_terms degree n G D = Ok (map pi2 (filter (fun x => negb (Qeq_bool (fst (fst x)) 0)) xs)) /\
    Forall2 (fun (x : Q * Q * Q) r => (fst (fst x) == ES n G D r)%Q /\ (snd (fst x) == NS r)%Q) xs D.
Proof.
  intros HGne. assert (Hlen0 : length G <> 0) by (destruct G; [congruence | discriminate]).
  destruct (valid_rows n D Hv) as [Hlen _].
  unfold tsd_terms, get_sampling_distributions.
  replace (Nat.eqb (length G) 0) with false by (symmetry; now apply Nat.eqb_neq).
  replace (Nat.ltb n 2) with false by (symmetry; apply Nat.ltb_ge; lia).
  replace (Nat.ltb (length D) (n - 1)) with false by (symmetry; apply Nat.ltb_ge; lia).
  replace (n - 1) with (length D) by lia. rewrite firstn_all.
  destruct (sampling_loop_terms D [] (ag_init degree n G) eq_refl (ainv_init degree n G D)) as [xs [Hl HF]].
  rewrite Hl. exists xs. split; [reflexivity | exact HF].
Qed.

Lemma W_neq0 : ~ (W == 0)%Q.
Proof. intros E. rewrite E in Hw. lra. Qed.

(** edge_sampling[t] and node_sampling[t] are the sums of a and b over the pairs charged to merge t. *)
Lemma ES_pairs r : (ES n G D r == sumq (map aQ (pairs r)))%Q.
Proof.
  assert (HW0 := W_neq0). unfold ES, pairs. fold (selfs r).
  rewrite !map_app, !sumq_app, !map_map, !sumq_list_prod.
  set (Li := L (r_left r)). set (Lj := L (r_right r)).
  assert (E1 : (2 * cross n G D (r_left r) (r_right r) ==
                sumq (map (fun u => sumq (map (fun v => aQ (u, v) + aQ (v, u)) Lj)) Li))%Q).
  { unfold cross. fold Li Lj. rewrite <- (sumq2_scale (fun u v => sw G u v)).
    apply sumq_ext; intros u _. apply sumq_ext; intros v _. unfold sw, aQ. cbn [fst snd].
    rewrite Qred_correct. field. exact HW0. }
  rewrite E1, (sumq2_plus (fun u v => aQ (u, v)) (fun u v => aQ (v, u))).
  rewrite <- Qplus_assoc. apply Qplus_comp; [reflexivity|]. apply Qplus_comp; [reflexivity|].
  apply sumq_ext. intros x _. unfold sw, aQ. cbn [fst snd]. rewrite Qred_correct. field. exact HW0.
Qed.

Lemma NS_pairs r : (NS r == sumq (map bQ (pairs r)))%Q.
Proof.
  unfold NS, pairs. rewrite !map_app, !sumq_app, !map_map, !sumq_list_prod.
  unfold PR, PC. rewrite !sumq_prod. rewrite <- Qplus_assoc.
  apply Qplus_comp; [reflexivity|]. apply Qplus_comp; [|reflexivity].
  rewrite sumq_swap. apply sumq_ext; intros u _. apply sumq_ext; intros v _. unfold bQ, swap, pir, pic. cbn [fst snd]. ring.
Qed.

(** ** Every ordered pair of leaves is charged to exactly one merge *)
Lemma children_unique t t' r r' x : nth_error D t = Some r -> nth_error D t' = Some r' ->
  In x (children r) -> In x (children r') -> t = t'.
Proof.
  assert (Haux : forall t t' r r' x, t < t' -> nth_error D t = Some r -> nth_error D t' = Some r' ->
     In x (children r) -> In x (children r') -> False).
  { clear t t' r r' x. intros t t' r r' x Hlt Hr Hr' Hx Hx'. destruct (valid_rows n D Hv) as [_ Hrows].
    destruct (Hrows t' r' Hr') as (_ & _ & _ & Hiu & Hju).
    assert (Ht' : t' < length D) by (apply nth_error_Some; congruence).
    assert (Hin : In r (firstn t' D)).
    { rewrite <- (firstn_skipn t' D) in Hr. rewrite nth_error_app1 in Hr by (rewrite firstn_length; lia).
      now apply nth_error_In in Hr. }
    assert (Hc : In x (flat_map children (firstn t' D))) by (apply in_flat_map; now exists r).
    destruct Hx' as [<-|[<-|[]]]; tauto. }
  intros Hr Hr' Hx Hx'. destruct (Nat.lt_trichotomy t t') as [H|[H|H]]; [exfalso; eauto | exact H | exfalso; eauto].
Qed.

Lemma leaf_merged u : u < n -> exists t r, nth_error D t = Some r /\ In u (children r).
Proof.
  intros Hu. destruct (in_dec Nat.eq_dec u (flat_map children D)) as [Hin|Hnin].
  - apply in_flat_map in Hin. destruct Hin as (r & Hr & Hc). destruct (In_nth_error _ _ Hr) as [t Ht]. now exists t, r.
  - exfalso. destruct (valid_rows n D Hv) as [Hlen _].
    assert (Hl1 : live n D (length D) u).
    { apply (live_iff n D Hv); [lia|]. rewrite firstn_all. split; [lia | exact Hnin]. }
    assert (Hlast : length D - 1 < length D) by lia. apply nth_error_Some in Hlast.
    destruct (nth_error D (length D - 1)) as [r|] eqn:Er; [|congruence].
    assert (Hl2 : live n D (S (length D - 1)) (n + (length D - 1))) by (apply (live_S n D Hv _ r _ Er); now right).
    replace (S (length D - 1)) with (length D) in Hl2 by lia.
    destruct (pinv_part n D Hv (length D) (Nat.le_refl _)) as (_ & _ & _ & Hl).
    unfold live in Hl1, Hl2.
    destruct (part n D (length D)) as [|[k c] [|p rest]]; simpl in Hl; try lia.
    simpl in Hl1, Hl2. destruct Hl1 as [<-|[]]. destruct Hl2 as [E|[]]. lia.
Qed.

Lemma in_pairs r u v : In (u, v) (pairs r) <-> sep n D r u v \/ (u = v /\ u < n /\ In u (children r)).
Proof.
  unfold pairs, sep, selfs, children. rewrite !in_app_iff, in_prod_iff, !in_map_iff. split.
  - intros [H|[([a b] & E & H)|(x & E & H)]].
    + left. left. exact H.
    + unfold swap in E. simpl in E. inversion E; subst. apply in_prod_iff in H. left. right. tauto.
    + inversion E; subst. apply filter_In in H. destruct H as [H1 H2]. apply Nat.ltb_lt in H2. right. tauto.
  - intros [[H|H]|(E & Hn' & H)].
    + left; exact H.
    + right; left. exists (v, u). split; [reflexivity|]. apply in_prod_iff. tauto.
    + right; right. exists u. subst v. split; [reflexivity|]. apply filter_In. split; [exact H | now apply Nat.ltb_lt].
Qed.

Lemma pairs_NoDup t r : nth_error D t = Some r -> NoDup (pairs r).
Proof.
  intros Hr. destruct (row_children_facts n D Hv Hn t r Hr) as (N1 & N2 & Hdisj & Hb).
  destruct (valid_rows n D Hv) as [_ Hrows]. destruct (Hrows t r Hr) as (Hne & _).
  assert (NP := NoDup_list_prod _ _ N1 N2).
  unfold pairs. apply NoDup_app_intro_aux; [exact NP| |].
  - apply NoDup_app_intro_aux.
    + apply FinFun.Injective_map_NoDup; [|exact NP]. intros [a b] [c d] E. unfold swap in E. simpl in E. now inversion E.
    + apply FinFun.Injective_map_NoDup; [intros x y E; now inversion E|]. unfold selfs. apply NoDup_filter.
      constructor; [intros [H|[]]; congruence|]. constructor; [intros []|constructor].
    + intros [u v] H1 H2. apply in_map_iff in H1. destruct H1 as ([a b] & E & H1).
      unfold swap in E; simpl in E; inversion E; subst.
      apply in_prod_iff in H1. apply in_map_iff in H2. destruct H2 as (x & E2 & _). inversion E2; subst.
      destruct H1 as [Ha Hb']. eapply Hdisj; eassumption.
  - intros [u v] H1 H2. apply in_prod_iff in H1. apply in_app_iff in H2. destruct H2 as [H2|H2].
    + apply in_map_iff in H2. destruct H2 as ([a b] & E & H2). unfold swap in E; simpl in E; inversion E; subst.
      apply in_prod_iff in H2. destruct H1 as [Ha Hb'], H2 as [Hc Hd]. eapply Hdisj; eassumption.
    + apply in_map_iff in H2. destruct H2 as (x & E2 & _). inversion E2; subst. destruct H1 as [Ha Hb']. eapply Hdisj; eassumption.
Qed.

Lemma pairs_range t r u v : nth_error D t = Some r -> In (u, v) (pairs r) -> u < n /\ v < n.
Proof.
  intros Hr H. destruct (row_children_facts n D Hv Hn t r Hr) as (_ & _ & _ & Hb).
  apply in_pairs in H. destruct H as [[[H1 H2]|[H1 H2]]|(-> & H1 & _)]; [split; apply Hb; tauto .. | tauto].
Qed.

Lemma pairs_unique t t' r r' p : nth_error D t = Some r -> nth_error D t' = Some r' ->
  In p (pairs r) -> In p (pairs r') -> t = t'.
Proof.
  intros Hr Hr' H H'. destruct p as [u v].
  destruct (pairs_range t r u v Hr H) as [Hu Hvv].
  destruct (row_children_facts n D Hv Hn t r Hr) as (_ & _ & Hd & _).
  destruct (row_children_facts n D Hv Hn t' r' Hr') as (_ & _ & Hd' & _).
  apply in_pairs in H. apply in_pairs in H'.
  destruct (Nat.eq_dec u v) as [<-|Hne].
  - destruct H as [[[H1 H2]|[H1 H2]]|(_ & _ & H)]; [exfalso; eauto .. |].
    destruct H' as [[[H1 H2]|[H1 H2]]|(_ & _ & H')]; [exfalso; eauto .. |].
    exact (children_unique t t' r r' u Hr Hr' H H').
  - destruct H as [H|(E & _)]; [|congruence]. destruct H' as [H'|(E & _)]; [|congruence].
    destruct (meeting_merge n D Hv u v Hu Hvv Hne) as (t0 & r0 & _ & _ & Huniq & _).
    rewrite (Huniq t r Hr H), (Huniq t' r' Hr' H'). reflexivity.
Qed.

Lemma pairs_cover u v : u < n -> v < n -> exists t r, nth_error D t = Some r /\ In (u, v) (pairs r).
Proof.
  intros Hu Hvv. destruct (Nat.eq_dec u v) as [<-|Hne].
  - destruct (leaf_merged u Hu) as (t & r & Hr & Hc). exists t, r. split; [exact Hr|]. apply in_pairs. right. tauto.
  - destruct (meeting_merge n D Hv u v Hu Hvv Hne) as (t & r & Hr & Hsep & _). exists t, r. split; [exact Hr|].
    apply in_pairs. now left.
Qed.

Notation allpairs := (list_prod (seq 0 n) (seq 0 n)).

Lemma pairs_partition : Permutation (concat (map pairs D)) allpairs.
Proof.
  apply NoDup_Permutation.
  - apply NoDup_concat_nth.
    + intros i l Hi. rewrite nth_error_map in Hi. destruct (nth_error D i) as [r|] eqn:E; [|discriminate].
      simpl in Hi. inversion Hi; subst. exact (pairs_NoDup i r E).
    + intros i j li lj x Hi Hj Hxi Hxj. rewrite nth_error_map in Hi, Hj.
      destruct (nth_error D i) as [ri|] eqn:Ei; [|discriminate]. destruct (nth_error D j) as [rj|] eqn:Ej; [|discriminate].
      simpl in Hi, Hj. inversion Hi; inversion Hj; subst. exact (pairs_unique i j ri rj x Ei Ej Hxi Hxj).
  - apply NoDup_list_prod; apply seq_NoDup.
  - intros [u v]. rewrite in_prod_iff, !in_seq. split.
    + intros H. apply in_concat in H. destruct H as (l & Hl & Hx). apply in_map_iff in Hl. destruct Hl as (r & <- & Hr).
      destruct (In_nth_error _ _ Hr) as [t Ht]. destruct (pairs_range t r u v Ht Hx). lia.
    + intros [H1 H2]. destruct (pairs_cover u v ltac:(lia) ltac:(lia)) as (t & r & Hr & Hin).
      apply in_concat. exists (pairs r). split; [|exact Hin]. apply in_map. now apply nth_error_In in Hr.
Qed.

(** ** Both pair-level distributions are probability distributions; b > 0 wherever a > 0 *)
Lemma adj_nonneg u v : (0 <= adj G u v)%Q.
Proof.
  rewrite adj_indicator. apply sumq_nonneg. intros x Hx. apply in_map_iff in Hx. destruct Hx as (e & <- & He).
  apply ite_nonneg. now apply Hpos.
Qed.

Lemma adj_le_out u v : (adj G u v <= out_weight G u)%Q.
Proof.
  rewrite adj_indicator, out_weight_ind. apply sumq_le. intros e He. assert (H := Hpos e He).
  destruct (Nat.eqb (e_src e) u), (Nat.eqb (e_dst e) v); cbn [andb ite]; lra.
Qed.

Lemma adj_le_in u v : (adj G u v <= in_weight G v)%Q.
Proof.
  rewrite adj_indicator, in_weight_ind. apply sumq_le. intros e He. assert (H := Hpos e He).
  destruct (Nat.eqb (e_src e) u), (Nat.eqb (e_dst e) v); cbn [andb ite]; lra.
Qed.

Lemma out_weight_total' : (sumq (map (out_weight G) (seq 0 n)) == W)%Q.
Proof.
  rewrite (sumq_ext _ (fun u => sumq (map (fun e => ite (Nat.eqb (e_src e) u) (e_w e)) G))) by (intros; apply out_weight_ind).
  rewrite sumq_swap. unfold total_weight. rewrite qsum_sumq. apply sumq_ext. intros e He.
  rewrite sumq_indicator by apply seq_NoDup. destruct (HG e He) as (Hs & _).
  replace (memn (e_src e) (seq 0 n)) with true by (symmetry; apply memn_In, in_seq; lia). reflexivity.
Qed.

Lemma in_weight_total' : (sumq (map (in_weight G) (seq 0 n)) == W)%Q.
Proof.
  rewrite (sumq_ext _ (fun u => sumq (map (fun e => ite (Nat.eqb (e_dst e) u) (e_w e)) G))) by (intros; apply in_weight_ind).
  rewrite sumq_swap. unfold total_weight. rewrite qsum_sumq. apply sumq_ext. intros e He.
  rewrite sumq_indicator by apply seq_NoDup. destruct (HG e He) as (_ & Hs).
  replace (memn (e_dst e) (seq 0 n)) with true by (symmetry; apply memn_In, in_seq; lia). reflexivity.
Qed.

Lemma pir_total : (sumq (map pir (seq 0 n)) == 1)%Q.
Proof.
  assert (HW0 := W_neq0). assert (Hnq := nQ_pos n Hn).
  rewrite (sumq_ext _ (fun u => if degree then / W * out_weight G u else 1 / inject_Z (Z.of_nat n))%Q).
  - destruct degree.
    + rewrite sumq_scale, out_weight_total'. field. exact HW0.
    + rewrite sumq_const, seq_length. field. lra.
  - intros u Hu. apply in_seq in Hu. unfold pir. rewrite probs_row_nth by lia. destruct degree; [unfold Qdiv; ring | reflexivity].
Qed.

Lemma pic_total : (sumq (map pic (seq 0 n)) == 1)%Q.
Proof.
  assert (HW0 := W_neq0). assert (Hnq := nQ_pos n Hn).
  rewrite (sumq_ext _ (fun u => if degree then / W * in_weight G u else 1 / inject_Z (Z.of_nat n))%Q).
  - destruct degree.
    + rewrite sumq_scale, in_weight_total'. field. exact HW0.
    + rewrite sumq_const, seq_length. field. lra.
  - intros u Hu. apply in_seq in Hu. unfold pic. rewrite probs_col_nth by lia. destruct degree; [unfold Qdiv; ring | reflexivity].
Qed.

Lemma aQ_total : (sumq (map aQ allpairs) == 1)%Q.
Proof.
  assert (HW0 := W_neq0). rewrite sumq_list_prod.
  transitivity (sumq (map (fun u => sumq (map (fun v => / W * adj G u v) (seq 0 n))) (seq 0 n)))%Q.
  { apply sumq_ext; intros u _. apply sumq_ext; intros v _. unfold aQ, Qdiv. cbn [fst snd]. ring. }
  rewrite (sumq2_scale (fun u v => adj G u v)), (block_sum G _ _ (seq_NoDup n 0) (seq_NoDup n 0)).
  rewrite (sumq_ext _ e_w).
  - rewrite <- qsum_sumq. fold W. field. exact HW0.
  - intros e He. destruct (HG e He) as [H1 H2].
    replace (memn (e_src e) (seq 0 n)) with true by (symmetry; apply memn_In, in_seq; lia).
    replace (memn (e_dst e) (seq 0 n)) with true by (symmetry; apply memn_In, in_seq; lia). reflexivity.
Qed.

Lemma bQ_total : (sumq (map bQ allpairs) == 1)%Q.
Proof.
  rewrite sumq_list_prod. unfold bQ. cbn [fst snd]. rewrite <- (sumq_prod pir pic), pir_total, pic_total. ring.
Qed.

Lemma pir_nonneg u : u < n -> (0 <= pir u)%Q.
Proof.
  intros Hu. unfold pir. rewrite probs_row_nth by lia. assert (Hnq := nQ_pos n Hn). destruct degree.
  - apply Qle_shift_div_l; [exact Hw|]. rewrite Qmult_0_l. now apply out_weight_nonneg.
  - apply Qle_shift_div_l; [exact Hnq|]. lra.
Qed.

Lemma pic_nonneg u : u < n -> (0 <= pic u)%Q.
Proof.
  intros Hu. unfold pic. rewrite probs_col_nth by lia. assert (Hnq := nQ_pos n Hn). destruct degree.
  - apply Qle_shift_div_l; [exact Hw|]. rewrite Qmult_0_l. now apply in_weight_nonneg.
  - apply Qle_shift_div_l; [exact Hnq|]. lra.
Qed.

Lemma aQ_nonneg p : (0 <= aQ p)%Q.
Proof. unfold aQ. apply Qle_shift_div_l; [exact Hw|]. rewrite Qmult_0_l. apply adj_nonneg. Qed.

Lemma bQ_pos u v : u < n -> v < n -> (0 < aQ (u, v))%Q -> (0 < bQ (u, v))%Q.
Proof.
  intros Hu Hvv Ha. assert (Hnq := nQ_pos n Hn).
  assert (Hadj : (0 < adj G u v)%Q).
  { unfold aQ in Ha. cbn [fst snd] in Ha. assert (E : (adj G u v == adj G u v / W * W)%Q) by (field; exact W_neq0).
    rewrite E. apply Qmult_lt_0_compat; assumption. }
  unfold bQ, pir, pic. cbn [fst snd]. rewrite probs_row_nth, probs_col_nth by lia. destruct degree.
  - assert (H1 := adj_le_out u v). assert (H2 := adj_le_in u v).
    apply Qmult_lt_0_compat; apply Qlt_shift_div_l; try exact Hw; lra.
  - apply Qmult_lt_0_compat; apply Qlt_shift_div_l; try exact Hnq; lra.
Qed.

(** The pair-level pairs over the reals *)
Definition ab (p : nat * nat) : R * R := (Q2R (aQ p), Q2R (bQ p)).

Lemma ab_ok u v : u < n -> v < n -> okpair (ab (u, v)).
Proof.
  intros Hu Hvv. unfold okpair, ab. cbn [fst snd]. split; [|split].
  - rewrite <- Q2R_0'. apply Qle_Rle, aQ_nonneg.
  - rewrite <- Q2R_0'. apply Qle_Rle. unfold bQ. cbn [fst snd]. apply Qmult_le_0_compat; [now apply pir_nonneg | now apply pic_nonneg].
  - rewrite <- Q2R_0'. intros H. apply Rlt_Qlt in H. apply Qlt_Rlt. now apply bQ_pos.
Qed.

Lemma mass1_ab l : mass1 (map ab l) = Q2R (sumq (map aQ l)).
Proof. unfold mass1. rewrite Q2R_sumq, !map_map. reflexivity. Qed.
Lemma mass2_ab l : mass2 (map ab l) = Q2R (sumq (map bQ l)).
Proof. unfold mass2. rewrite Q2R_sumq, !map_map. reflexivity. Qed.

Definition groups : list (list (R * R)) := map (fun r => map ab (pairs r)) D.

Lemma groups_concat : Permutation (concat groups) (map ab allpairs).
Proof.
  unfold groups. rewrite <- (map_map pairs (map ab)), <- concat_map. apply Permutation_map, pairs_partition.
Qed.

Lemma groups_ok : Forall (Forall okpair) groups.
Proof.
  unfold groups. apply Forall_forall. intros g Hg. apply in_map_iff in Hg. destruct Hg as (r & <- & Hr).
  destruct (In_nth_error _ _ Hr) as [t Ht]. apply Forall_forall. intros x Hx. apply in_map_iff in Hx.
  destruct Hx as ([u v] & <- & Hp). destruct (pairs_range t r u v Ht Hp). now apply ab_ok.
Qed.

Lemma Q2R_1' : Q2R 1 = 1%R.
Proof. unfold Q2R. simpl. lra. Qed.

Lemma fine_mass1 : mass1 (concat groups) = 1%R.
Proof. rewrite (mass1_perm _ _ groups_concat), mass1_ab, (Qeq_eqR _ _ aQ_total). exact Q2R_1'. Qed.
Lemma fine_mass2 : mass2 (concat groups) = 1%R.
Proof. rewrite (mass2_perm _ _ groups_concat), mass2_ab, (Qeq_eqR _ _ bQ_total). exact Q2R_1'. Qed.

(** The pairs (edge_sampling[t], node_sampling[t]) are the coarse pairs of the groups. *)
Lemma coarse_groups : coarse groups = map (fun r => (Q2R (ES n G D r), Q2R (NS r))) D.
Proof.
  unfold coarse, groups. rewrite map_map. apply map_ext. intros r.
  now rewrite mass1_ab, mass2_ab, (Qeq_eqR _ _ (ES_pairs r)), (Qeq_eqR _ _ (NS_pairs r)).
Qed.

Lemma kl_cons x l : kl (x :: l) = (klt x + kl l)%R.
Proof. reflexivity. Qed.

Lemma kl_terms xs rows :
  Forall2 (fun (x : Q * Q * Q) r => (fst (fst x) == ES n G D r)%Q /\ (snd (fst x) == NS r)%Q) xs rows ->
  kl (map q2 (map pi2 (filter (fun x => negb (Qeq_bool (fst (fst x)) 0)) xs))) =
  kl (map (fun r => (Q2R (ES n G D r), Q2R (NS r))) rows).
Proof.
  induction 1 as [|x r xs rows [E1 E2] _ IH]; [reflexivity|]. cbn [filter map]. rewrite kl_cons, <- IH.
  destruct (Qeq_bool (fst (fst x)) 0) eqn:Eb; cbn [negb map].
  - apply Qeq_bool_eq in Eb.
    assert (E0 : Q2R (ES n G D r) = 0%R) by (rewrite <- (Qeq_eqR _ _ E1), (Qeq_eqR _ _ Eb); exact Q2R_0').
    unfold klt at 1. cbn [fst snd]. rewrite E0. lra.
  - rewrite kl_cons. unfold q2, pi2. cbn [fst snd]. now rewrite (Qeq_eqR _ _ E1), (Qeq_eqR _ _ E2).
Qed.

(** ** Exact rational statement (no real numbers): both sampling distributions returned by the model of
    [get_sampling_distributions] are probability vectors. *)
Lemma sumq_concat_map {A} (f : A -> Q) (ls : list (list A)) :
  (sumq (map f (concat ls)) == sumq (map (fun l => sumq (map f l)) ls))%Q.
Proof.
  induction ls as [|l ls IH]; cbn [concat map]; [reflexivity|]. rewrite map_app, sumq_app, sumq_cons, IH. reflexivity.
Qed.

Lemma sumq_Forall2 {A B} (f : A -> Q) (g : B -> Q) xs rows :
  Forall2 (fun x r => (f x == g r)%Q) xs rows -> (sumq (map f xs) == sumq (map g rows))%Q.
Proof. induction 1 as [|x r xs rows E _ IH]; [reflexivity|]. cbn [map]. now rewrite !sumq_cons, E, IH. Qed.

Lemma ES_nonneg r : (0 <= ES n G D r)%Q.
Proof.
  rewrite ES_pairs. apply sumq_nonneg. intros x Hx. apply in_map_iff in Hx. destruct Hx as (p & <- & _). apply aQ_nonneg.
Qed.

Lemma NS_nonneg t r : nth_error D t = Some r -> (0 <= NS r)%Q.
Proof.
  intros Hr. rewrite NS_pairs. apply sumq_nonneg. intros x Hx. apply in_map_iff in Hx. destruct Hx as ([u v] & <- & Hp).
  destruct (pairs_range t r u v Hr Hp). unfold bQ. cbn [fst snd].
  apply Qmult_le_0_compat; [now apply pir_nonneg | now apply pic_nonneg].
Qed.

Theorem sampling_distributions_probabilities_lemma :
  exists sd, get_sampling_distributions degree n G D = Ok sd /\ length sd = n - 1 /\
    (forall x, In x sd -> (0 <= fst (fst x))%Q /\ (0 <= snd (fst x))%Q) /\
    (sumq (map (fun x => fst (fst x)) sd) == 1)%Q /\ (sumq (map (fun x => snd (fst x)) sd) == 1)%Q.
Proof.
  destruct (valid_rows n D Hv) as [Hlen _].
  unfold get_sampling_distributions.
  replace (Nat.ltb (length D) (n - 1)) with false by (symmetry; apply Nat.ltb_ge; lia).
  replace (n - 1) with (length D) by lia. rewrite firstn_all.
  destruct (sampling_loop_terms D [] (ag_init degree n G) eq_refl (ainv_init degree n G D)) as [xs [Hl HF]].
  rewrite Hl. exists xs. split; [reflexivity|]. split; [rewrite (Forall2_len _ _ _ HF); lia|]. split; [|split].
  - intros x Hx. destruct (Forall2_in_l _ _ _ x HF Hx) as (r & Hr & E1 & E2). destruct (In_nth_error _ _ Hr) as [t Ht].
    rewrite E1, E2. split; [apply ES_nonneg | exact (NS_nonneg t r Ht)].
  - rewrite (sumq_Forall2 (fun x : Q * Q * Q => fst (fst x)) (fun r => sumq (map aQ (pairs r))) xs D).
    + rewrite <- (map_map pairs (fun l => sumq (map aQ l))), <- sumq_concat_map.
      rewrite (sumq_perm _ _ (Permutation_map aQ pairs_partition)). exact aQ_total.
    + eapply Forall2_imp; [|exact HF]. intros x r [E1 _]. cbn beta. now rewrite E1, ES_pairs.
  - rewrite (sumq_Forall2 (fun x : Q * Q * Q => snd (fst x)) (fun r => sumq (map bQ (pairs r))) xs D).
    + rewrite <- (map_map pairs (fun l => sumq (map bQ l))), <- sumq_concat_map.
      rewrite (sumq_perm _ _ (Permutation_map bQ pairs_partition)). exact bQ_total.
    + eapply Forall2_imp; [|exact HF]. intros x r [_ E2]. cbn beta. now rewrite E2, NS_pairs.
Qed.

(** ** The normaliser (mutual information) is the divergence of the pair-level distributions *)
Context (Hnd : NoDup (map fst G)).

Lemma adj_edge e : In e G -> (adj G (e_src e) (e_dst e) == e_w e)%Q.
Proof.
  intros He. destruct (In_nth_error _ _ He) as [t0 Ht0]. rewrite adj_indicator.
  rewrite (sumq_single _ G t0 e Ht0).
  - now rewrite !Nat.eqb_refl.
  - intros t a Ha Hne.
    destruct (Nat.eqb (e_src a) (e_src e)) eqn:E1, (Nat.eqb (e_dst a) (e_dst e)) eqn:E2; cbn [andb ite]; try reflexivity.
    exfalso. apply Hne. apply Nat.eqb_eq in E1, E2.
    assert (Hlt : t < length (map fst G)) by (rewrite map_length; apply nth_error_Some; congruence).
    apply (proj1 (NoDup_nth_error (map fst G)) Hnd t t0 Hlt). rewrite !nth_error_map, Ha, Ht0. simpl. f_equal.
    destruct a as [[a1 a2] aw], e as [[b1 b2] bw]. unfold e_src, e_dst in *. simpl in *. congruence.
Qed.

Lemma adj_absent u v : ~ In (u, v) (map fst G) -> (adj G u v == 0)%Q.
Proof.
  intros H. rewrite adj_indicator. apply sumq_zero. intros e He.
  destruct (Nat.eqb (e_src e) u) eqn:E1, (Nat.eqb (e_dst e) v) eqn:E2; cbn [andb ite]; try reflexivity.
  exfalso. apply H. apply Nat.eqb_eq in E1, E2. apply in_map_iff. exists e. split; [|exact He].
  destruct e as [[b1 b2] bw]. unfold e_src, e_dst in *. simpl in *. congruence.
Qed.

Lemma mi_is_fine_divergence : kl (map q2 (mi_terms degree n G)) = kl (concat groups).
Proof.
  rewrite (kl_perm _ _ groups_concat). unfold kl, mi_terms. rewrite !map_map.
  transitivity (sumR (map (fun p => klt (ab p)) (map fst G))).
  - rewrite map_map. apply sumR_ext. intros e He. unfold q2, ab. cbn [fst snd]. f_equal. f_equal.
    + apply Qeq_eqR. rewrite Qred_correct. unfold aQ. destruct e as [[b1 b2] bw]. cbn [fst snd].
      assert (E := adj_edge (b1, b2, bw) He). unfold e_src, e_dst, e_w in E. cbn [fst snd] in E. now rewrite E.
    + apply Qeq_eqR. rewrite Qred_correct. reflexivity.
  - apply sumR_support.
    + exact Hnd.
    + apply NoDup_list_prod; apply seq_NoDup.
    + intros [u v] H. apply in_map_iff in H. destruct H as (e & E & He). destruct (HG e He) as [H1 H2].
      destruct e as [[b1 b2] bw]. unfold e_src, e_dst in *. simpl in *. inversion E; subst.
      apply in_prod_iff. rewrite !in_seq. lia.
    + intros [u v] _ Hnin. unfold ab, klt. cbn [fst snd].
      assert (E : (aQ (u, v) == 0)%Q) by (unfold aQ; cbn [fst snd]; rewrite (adj_absent u v Hnin); unfold Qdiv; ring).
      rewrite (Qeq_eqR _ _ E), Q2R_0'. lra.
Qed.

(** ** The bounds *)
Theorem tsd_real_bounds_lemma : G <> [] ->
  exists score, tsd_real degree n G D false = Ok score /\
    tsd_real degree n G D true = Ok (normalise score (kl (map q2 (mi_terms degree n G)))) /\
    (0 <= score <= kl (map q2 (mi_terms degree n G)))%R /\
    (0 <= normalise score (kl (map q2 (mi_terms degree n G))) <= 1)%R.
Proof.
  intros HGne. destruct (tsd_terms_spec HGne) as (xs & Hts & HF).
  unfold tsd_real. rewrite Hts. eexists. split; [reflexivity|]. split; [reflexivity|].
  rewrite (kl_terms xs D HF), <- coarse_groups, mi_is_fine_divergence.
  apply coarse_divergence_bounds; [exact groups_ok|]. rewrite fine_mass1, fine_mass2. lra.
Qed.

(** ** Link with the rational model and its [ln] oracle (unnormalised score).
    If the oracle is within eps of the real logarithm on the ratios edge_sampling[t] / node_sampling[t] it is
    applied to, the score computed by the model is within eps of [tsd_real] (the edge-sampling probabilities
    sum to 1), hence >= -eps and <= mutual information + eps. *)
Lemma mass1_terms xs rows :
  Forall2 (fun (x : Q * Q * Q) r => (fst (fst x) == ES n G D r)%Q /\ (snd (fst x) == NS r)%Q) xs rows ->
  mass1 (map q2 (map pi2 (filter (fun x => negb (Qeq_bool (fst (fst x)) 0)) xs))) =
  mass1 (map (fun r => (Q2R (ES n G D r), Q2R (NS r))) rows).
Proof.
  induction 1 as [|x r xs rows [E1 E2] _ IH]; [reflexivity|]. cbn [filter map]. unfold mass1 in *. cbn [map fst].
  rewrite sumR_cons, <- IH.
  destruct (Qeq_bool (fst (fst x)) 0) eqn:Eb; cbn [negb map].
  - apply Qeq_bool_eq in Eb.
    assert (E0 : Q2R (ES n G D r) = 0%R) by (rewrite <- (Qeq_eqR _ _ E1), (Qeq_eqR _ _ Eb); exact Q2R_0').
    rewrite E0. lra.
  - rewrite sumR_cons. unfold q2 at 1, pi2 at 1. cbn [fst snd]. now rewrite (Qeq_eqR _ _ E1).
Qed.

Theorem tsd_model_within_eps_lemma (lnq : Q -> Q) (eps : R) s : G <> [] ->
  (forall ts x, tsd_terms degree n G D = Ok ts -> In x ts ->
     (Rabs (Q2R (lnq (fst x / snd x)%Q) - ln (Q2R (fst x) / Q2R (snd x))) <= eps)%R) ->
  tree_sampling_divergence lnq degree n G D false = Ok s ->
  exists sr, tsd_real degree n G D false = Ok sr /\ (Rabs (Q2R s - sr) <= eps)%R.
Proof.
  intros HGne Horacle Hs. destruct (tsd_terms_spec HGne) as (xs & Hts & HF).
  unfold tree_sampling_divergence in Hs. unfold tsd_real. rewrite Hts in *.
  eexists. split; [reflexivity|].
  apply (f_equal (fun x => match x with Ok y => y | Err _ => 0%Q end)) in Hs. cbn beta iota in Hs. rewrite <- Hs. clear Hs.
  assert (Horacle' := fun x => Horacle _ x eq_refl). clear Horacle.
  assert (Hm : mass1 (map q2 (map pi2 (filter (fun x => negb (Qeq_bool (fst (fst x)) 0)) xs))) = 1%R).
  { rewrite (mass1_terms xs D HF), <- coarse_groups, coarse_mass1. exact fine_mass1. }
  assert (Hnn : forall x, In x (map pi2 (filter (fun x => negb (Qeq_bool (fst (fst x)) 0)) xs)) -> (0 <= Q2R (fst x))%R).
  { intros x Hx. apply in_map_iff in Hx. destruct Hx as (y & <- & Hy). apply filter_In in Hy. destruct Hy as [Hy _].
    destruct (Forall2_in_l _ _ _ y HF Hy) as (r & _ & E1 & _).
    unfold pi2. cbn [fst]. rewrite (Qeq_eqR _ _ E1), <- Q2R_0'. apply Qle_Rle, ES_nonneg. }
  set (ts := map pi2 (filter (fun x => negb (Qeq_bool (fst (fst x)) 0)) xs)) in *.
  assert (Hgen : forall l, (forall x, In x l -> (0 <= Q2R (fst x))%R) ->
            (forall x, In x l -> (Rabs (Q2R (lnq (fst x / snd x)%Q) - ln (Q2R (fst x) / Q2R (snd x))) <= eps)%R) ->
            (Rabs (Q2R (sumq (map (fun x => (fst x * lnq (fst x / snd x))%Q) l)) - kl (map q2 l)) <= eps * mass1 (map q2 l))%R).
  { induction l as [|x l IH]; intros H1 H2.
    - unfold kl, mass1. simpl. rewrite Q2R_0', Rminus_0_r, Rabs_R0. lra.
    - cbn [map]. rewrite sumq_cons, Q2R_plus, Q2R_mult, kl_cons. unfold mass1 in *. cbn [map]. rewrite sumR_cons.
      assert (Ha := H1 x (or_introl eq_refl)). assert (Hb := H2 x (or_introl eq_refl)).
      assert (IH' := IH (fun y Hy => H1 y (or_intror Hy)) (fun y Hy => H2 y (or_intror Hy))).
      unfold klt. change (fst (q2 x)) with (Q2R (fst x)). change (snd (q2 x)) with (Q2R (snd x)).
      apply Rabs_le_inv' in Hb. apply Rabs_le_inv' in IH'. apply Rabs_le.
      set (d := (Q2R (lnq (fst x / snd x)%Q) - ln (Q2R (fst x) / Q2R (snd x)))%R) in *.
      set (p := Q2R (fst x)) in *.
      assert (E : (p * Q2R (lnq (fst x / snd x)%Q) = p * ln (p / Q2R (snd x)) + p * d)%R) by (unfold d; ring).
      assert (N1 : (0 <= p * (eps - d))%R) by (apply Rmult_le_pos; lra).
      assert (N2 : (0 <= p * (eps + d))%R) by (apply Rmult_le_pos; lra).
      rewrite E. split; lra. }
  specialize (Hgen ts Hnn Horacle'). rewrite Hm in Hgen. lra.
Qed.
End Model.

(** ** Shape lemma: with an idealised oracle that agrees with [ln] on every ratio it is applied to, the rational
    model returns exactly [tsd_real] (so [tsd_real] is the model's formula, term for term).  No real oracle
    Q -> Q satisfies the hypothesis except on ratios equal to 1; see [tsd_model_within_eps] for approximate oracles. *)
Lemma klQ_exact (lnq : Q -> Q) l :
  (forall x, In x l -> Q2R (lnq (fst x / snd x)%Q) = ln (Q2R (fst x) / Q2R (snd x))) ->
  Q2R (sumq (map (fun x => (fst x * lnq (fst x / snd x))%Q) l)) = kl (map q2 l).
Proof.
  intros H. unfold kl. rewrite Q2R_sumq, !map_map. apply sumR_ext. intros x Hx.
  rewrite Q2R_mult, (H x Hx). reflexivity.
Qed.

Theorem tsd_real_of_exact_oracle_lemma (lnq : Q -> Q) degree n G D normalized s :
  (forall ts x, tsd_terms degree n G D = Ok ts -> In x (ts ++ mi_terms degree n G) ->
     Q2R (lnq (fst x / snd x)%Q) = ln (Q2R (fst x) / Q2R (snd x))) ->
  tree_sampling_divergence lnq degree n G D normalized = Ok s ->
  tsd_real degree n G D normalized = Ok (Q2R s).
Proof.
  intros Horacle Hs. unfold tree_sampling_divergence in Hs. unfold tsd_real.
  destruct (tsd_terms degree n G D) as [ts|e]; [|discriminate]. specialize (Horacle ts).
  assert (E1 := klQ_exact lnq ts (fun x Hx => Horacle x eq_refl (in_or_app _ _ _ (or_introl Hx)))).
  assert (E2 := klQ_exact lnq (mi_terms degree n G) (fun x Hx => Horacle x eq_refl (in_or_app _ _ _ (or_intror Hx)))).
  apply (f_equal (fun x => match x with Ok y => y | Err _ => 0%Q end)) in Hs.
  destruct normalized; cbn beta iota zeta in Hs; rewrite <- Hs; clear Hs; [|now rewrite E1].
  f_equal. rewrite <- E1, <- E2. unfold normalise.
  set (score := sumq (map (fun x => (fst x * lnq (fst x / snd x))%Q) ts)).
  set (mi := sumq (map (fun x => (fst x * lnq (fst x / snd x))%Q) (mi_terms degree n G))).
  destruct (Qle_bool mi 0) eqn:Eb.
  - apply Qle_bool_iff in Eb. apply Qle_Rle in Eb. rewrite Q2R_0' in Eb.
    destruct (Rle_dec (Q2R mi) 0) as [_|Hc]; [reflexivity | contradiction].
  - assert (Hlt : (0 < mi)%Q).
    { apply Qnot_le_lt. intros Hle. apply Qle_bool_iff in Hle. congruence. }
    assert (Hr := Qlt_Rlt _ _ Hlt). rewrite Q2R_0' in Hr.
    destruct (Rle_dec (Q2R mi) 0) as [Hc|_]; [lra|]. symmetry. apply Q2R_div. intros E. rewrite E in Hlt. lra.
Qed.

(** * Part 3 (statements used by Props/C08.v) *)
Theorem tsd_nonneg_lemma degree n G D :
  valid n D = true ->
  (forall e, In e G -> e_src e < n /\ e_dst e < n) ->
  (forall e, In e G -> (0 <= e_w e)%Q) ->
  (0 < total_weight G)%Q -> 2 <= n -> NoDup (map fst G) -> G <> [] ->
  exists s, tsd_real degree n G D false = Ok s /\ (0 <= s <= kl (map q2 (mi_terms degree n G)))%R.
Proof.
  intros Hv HG Hpos Hw Hn Hnd HGne.
  destruct (tsd_real_bounds_lemma degree n G D Hv HG Hpos Hw Hn Hnd HGne) as (s & H1 & _ & H2 & _).
  exists s. split; assumption.
Qed.

Theorem tsd_normalized_unit_lemma degree n G D :
  valid n D = true ->
  (forall e, In e G -> e_src e < n /\ e_dst e < n) ->
  (forall e, In e G -> (0 <= e_w e)%Q) ->
  (0 < total_weight G)%Q -> 2 <= n -> NoDup (map fst G) -> G <> [] ->
  exists s, tsd_real degree n G D true = Ok s /\ (0 <= s <= 1)%R.
Proof.
  intros Hv HG Hpos Hw Hn Hnd HGne.
  destruct (tsd_real_bounds_lemma degree n G D Hv HG Hpos Hw Hn Hnd HGne) as (s & _ & H1 & _ & H2).
  eexists. split; [exact H1 | exact H2].
Qed.

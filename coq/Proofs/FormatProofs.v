(** Proofs about Model/Format.v: container conversion (C01), permutation action (C02),
    bipartite block construction, seed stacking and result splitting (C03). *)
From SKN Require Import Base.Util Model.Bfs Model.Format Proofs.BfsProofs.
From Coq Require Import Permutation Sorted QArith Lqa Setoid Morphisms.
Close Scope Q_scope.
Open Scope nat_scope.

(** * Generic helpers *)

Lemma sumq_app' (u v : list Q) : (sumq (u ++ v) == sumq u + sumq v)%Q.
Proof. induction u as [|a u IH]; simpl; [ring|]. rewrite IH. ring. Qed.

Lemma nth_repeat_nil {A} (n k : nat) : nth k (repeat (@nil A) n) [] = [].
Proof. revert k; induction n as [|n IH]; intros [|k]; simpl; auto. Qed.

Lemma existsb_ext' {A} (f g : A -> bool) (l : list A) :
  (forall x, In x l -> f x = g x) -> existsb f l = existsb g l.
Proof.
  induction l as [|a t IH]; simpl; intros H; auto.
  rewrite (H a) by auto. f_equal. apply IH. intros x Hx. apply H. auto.
Qed.

Lemma Qeq_bool_refl (x : Q) : Qeq_bool x x = true.
Proof. apply Qeq_bool_iff. reflexivity. Qed.

Lemma qnz_true (v : Q) : qnz v = true <-> ~ (v == 0)%Q.
Proof.
  unfold qnz. rewrite negb_true_iff. split.
  - intros H E. apply Qeq_bool_iff in E. rewrite E in H. discriminate.
  - intros H. destruct (Qeq_bool v 0) eqn:E; auto. exfalso. apply H. apply Qeq_bool_iff. exact E.
Qed.

Lemma qnz_false (v : Q) : qnz v = false <-> (v == 0)%Q.
Proof.
  unfold qnz. rewrite negb_false_iff. apply Qeq_bool_iff.
Qed.

(** * entry_row / entry *)

Lemma entry_row_cons (e : nat * Q) (r : wrow) (j : nat) :
  entry_row (e :: r) j = if Nat.eqb (fst e) j then (snd e + entry_row r j)%Q else entry_row r j.
Proof. unfold entry_row. simpl. destruct (Nat.eqb (fst e) j); reflexivity. Qed.

Lemma entry_row_app (a b : wrow) (j : nat) :
  (entry_row (a ++ b) j == entry_row a j + entry_row b j)%Q.
Proof. unfold entry_row. rewrite filter_app, map_app. apply sumq_app'. Qed.

Lemma entry_row_notin (r : wrow) (j : nat) : ~ In j (map fst r) -> entry_row r j = 0%Q.
Proof.
  intros H. unfold entry_row. rewrite filter_none; [reflexivity|].
  intros e He. apply Nat.eqb_neq. intros E. apply H. rewrite <- E. apply in_map. exact He.
Qed.

Lemma entry_overflow (rows : wrows) (i j : nat) : length rows <= i -> entry rows i j = 0%Q.
Proof. intros H. unfold entry. rewrite nth_overflow by exact H. reflexivity. Qed.

Lemma entry_app1 (a b : wrows) (i j : nat) : i < length a -> entry (a ++ b) i j = entry a i j.
Proof. intros H. unfold entry. rewrite app_nth1 by exact H. reflexivity. Qed.

Lemma entry_app2 (a b : wrows) (i j : nat) : entry (a ++ b) (length a + i) j = entry b i j.
Proof.
  unfold entry. rewrite app_nth2 by lia. replace (length a + i - length a) with i by lia. reflexivity.
Qed.

Lemma entry_app2' (a b : wrows) (n i j : nat) :
  length a = n -> entry (a ++ b) (n + i) j = entry b i j.
Proof. intros <-. apply entry_app2. Qed.

Lemma entry_row_const_key (a : nat) (l : wrow) :
  entry_row (map (fun e : nat * Q => (a, snd e)) l) a = sumq (map snd l).
Proof.
  induction l as [|e l IH]; [reflexivity|].
  simpl map. rewrite entry_row_cons. cbn [fst snd]. rewrite Nat.eqb_refl, IH. reflexivity.
Qed.

Lemma entry_row_flat_map_seq (F : nat -> wrow) (s n j : nat) :
  (forall a e, In e (F a) -> fst e = a) ->
  (entry_row (flat_map F (seq s n)) j ==
   if Nat.leb s j && Nat.ltb j (s + n) then entry_row (F j) j else 0)%Q.
Proof.
  intros HF. revert s; induction n as [|n IH]; intros s.
  - simpl. replace (Nat.leb s j && Nat.ltb j (s + 0)) with false; [reflexivity|].
    symmetry. apply andb_false_iff.
    destruct (Nat.leb_spec s j); [right; apply Nat.ltb_ge; lia | left; reflexivity].
  - cbn [seq flat_map]. rewrite entry_row_app, IH.
    destruct (Nat.eq_dec s j) as [E|Ne].
    + subst s.
      replace (Nat.leb (S j) j && Nat.ltb j (S j + n)) with false
        by (symmetry; apply andb_false_iff; left; apply Nat.leb_gt; lia).
      replace (Nat.leb j j && Nat.ltb j (j + S n)) with true
        by (symmetry; apply andb_true_iff; split; [apply Nat.leb_le | apply Nat.ltb_lt]; lia).
      ring.
    + rewrite (entry_row_notin (F s) j).
      * assert (Hb : Nat.leb (S s) j && Nat.ltb j (S s + n) = Nat.leb s j && Nat.ltb j (s + S n)).
        { destruct (Nat.leb_spec (S s) j), (Nat.leb_spec s j), (Nat.ltb_spec j (S s + n)),
            (Nat.ltb_spec j (s + S n)); simpl; auto; lia. }
        rewrite Hb. ring.
      * intros Hin. apply in_map_iff in Hin. destruct Hin as [e [Ee He]].
        apply HF in He. lia.
Qed.

(** Transposition transposes the denotation (also outside the stored range: both sides 0). *)
Lemma entry_tr_row (lists : wrows) (k a : nat) :
  (entry_row (tr_row lists k) a == entry lists a k)%Q.
Proof.
  unfold tr_row. rewrite entry_row_flat_map_seq.
  - simpl. destruct (Nat.ltb_spec a (length lists)) as [L|L].
    + rewrite entry_row_const_key. reflexivity.
    + rewrite entry_overflow by exact L. reflexivity.
  - intros x e He. apply in_map_iff in He. destruct He as [e' [E _]]. subst e. reflexivity.
Qed.

Lemma entry_transpose_w (n : nat) (lists : wrows) (k a : nat) :
  k < n -> (entry (transpose_w n lists) k a == entry lists a k)%Q.
Proof.
  intros H. unfold entry at 1, transpose_w. rewrite nth_map_seq by exact H. apply entry_tr_row.
Qed.

Lemma transpose_w_length n lists : length (transpose_w n lists) = n.
Proof. unfold transpose_w. rewrite map_length, seq_length. reflexivity. Qed.

Lemma entry_row_shift (n : nat) (r : wrow) (j : nat) :
  entry_row (shift_row n r) (n + j) = entry_row r j.
Proof.
  induction r as [|e r IH]; [reflexivity|].
  unfold shift_row in *. simpl map. rewrite !entry_row_cons. cbn [fst snd]. rewrite IH.
  destruct (Nat.eqb_spec (fst e) j) as [E|Ne].
  - subst j. rewrite Nat.eqb_refl. reflexivity.
  - replace (Nat.eqb (n + fst e) (n + j)) with false; [reflexivity|].
    symmetry. apply Nat.eqb_neq. lia.
Qed.

Lemma entry_row_shift_low (n : nat) (r : wrow) (j : nat) : j < n -> entry_row (shift_row n r) j = 0%Q.
Proof.
  intros H. apply entry_row_notin. unfold shift_row. rewrite map_map. cbn [fst].
  intros Hin. apply in_map_iff in Hin. destruct Hin as [e [E _]]. lia.
Qed.

Lemma nth_map_nil {A B} (f : list A -> list B) (l : list (list A)) (i : nat) :
  f [] = [] -> nth i (map f l) [] = f (nth i l []).
Proof. intros H. rewrite <- H at 1. apply map_nth. Qed.

(** * C03: block matrices *)

Theorem block_denotation (b : wmat) :
  let n_row := length (snd b) in
  let n_col := fst b in
  let a := snd (bipartite2undirected b) in
  fst (bipartite2undirected b) = n_row + n_col /\ length a = n_row + n_col /\
  (forall i j, i < n_row -> (entry a i (n_row + j) == entry (snd b) i j)%Q) /\
  (forall i j, j < n_col -> (entry a (n_row + j) i == entry (snd b) i j)%Q) /\
  (forall i i', i < n_row -> i' < n_row -> (entry a i i' == 0)%Q) /\
  (forall j j', j < n_col -> (entry a (n_row + j) (n_row + j') == 0)%Q).
Proof.
  destruct b as [nc rows]. cbn [fst snd bipartite2undirected].
  split; [reflexivity|]. split.
  { rewrite app_length, map_length, transpose_w_length. reflexivity. }
  split; [|split; [|split]].
  - intros i j Hi. rewrite entry_app1 by (rewrite map_length; exact Hi).
    unfold entry. rewrite (nth_map_nil (shift_row (length rows))) by reflexivity.
    rewrite entry_row_shift. reflexivity.
  - intros i j Hj.
    rewrite entry_app2' by apply map_length.
    apply entry_transpose_w. exact Hj.
  - intros i i' Hi Hi'. rewrite entry_app1 by (rewrite map_length; exact Hi).
    unfold entry. rewrite (nth_map_nil (shift_row (length rows))) by reflexivity.
    rewrite entry_row_shift_low by exact Hi'. reflexivity.
  - intros j j' Hj.
    rewrite entry_app2' by apply map_length.
    rewrite entry_transpose_w by exact Hj. rewrite entry_overflow by lia. reflexivity.
Qed.

Theorem block_directed_denotation (b : wmat) :
  let n_row := length (snd b) in
  let n_col := fst b in
  let a := snd (bipartite2directed b) in
  fst (bipartite2directed b) = n_row + n_col /\ length a = n_row + n_col /\
  (forall i j, i < n_row -> (entry a i (n_row + j) == entry (snd b) i j)%Q) /\
  (forall i i', i < n_row -> i' < n_row -> (entry a i i' == 0)%Q) /\
  (forall j k, (entry a (n_row + j) k == 0)%Q).
Proof.
  destruct b as [nc rows]. cbn [fst snd bipartite2directed].
  split; [reflexivity|]. split.
  { rewrite app_length, map_length, repeat_length. reflexivity. }
  split; [|split].
  - intros i j Hi. rewrite entry_app1 by (rewrite map_length; exact Hi).
    unfold entry. rewrite (nth_map_nil (shift_row (length rows))) by reflexivity.
    rewrite entry_row_shift. reflexivity.
  - intros i i' Hi Hi'. rewrite entry_app1 by (rewrite map_length; exact Hi).
    unfold entry. rewrite (nth_map_nil (shift_row (length rows))) by reflexivity.
    rewrite entry_row_shift_low by exact Hi'. reflexivity.
  - intros j k.
    rewrite entry_app2' by apply map_length.
    unfold entry. rewrite (@nth_repeat_nil (nat * Q)). reflexivity.
Qed.

(** Proofs about Model/Format.v: container conversion (C01), permutation action (C02),
    bipartite block construction, seed stacking and result splitting (C03). *)
From SKN Require Import Base.Util Model.Bfs Model.Format Proofs.BfsProofs.
From Coq Require Import Permutation Sorted QArith Lqa Setoid Morphisms.
Close Scope Q_scope.
Open Scope nat_scope.

(** * Generic helpers *)

Lemma sumq_app' (u v : list Q) : (sumq (u ++ v) == sumq u + sumq v)%Q.
Proof. induction u as [|a u IH]; simpl; [ring|]. rewrite IH. ring. Qed.

Lemma nth_repeat_nil {A} (n k : nat) : nth k (repeat (@nil A) n) [] = [].
Proof. revert k; induction n as [|n IH]; intros [|k]; simpl; auto. Qed.

Lemma existsb_ext' {A} (f g : A -> bool) (l : list A) :
  (forall x, In x l -> f x = g x) -> existsb f l = existsb g l.
Proof.
  induction l as [|a t IH]; simpl; intros H; auto.
  rewrite (H a) by auto. f_equal. apply IH. intros x Hx. apply H. auto.
Qed.

Lemma Qeq_bool_refl (x : Q) : Qeq_bool x x = true.
Proof. apply Qeq_bool_iff. reflexivity. Qed.

Lemma qnz_true (v : Q) : qnz v = true <-> ~ (v == 0)%Q.
Proof.
  unfold qnz. rewrite negb_true_iff. split.
  - intros H E. apply Qeq_bool_iff in E. rewrite E in H. discriminate.
  - intros H. destruct (Qeq_bool v 0) eqn:E; auto. exfalso. apply H. apply Qeq_bool_iff. exact E.
Qed.

Lemma qnz_false (v : Q) : qnz v = false <-> (v == 0)%Q.
Proof.
  unfold qnz. rewrite negb_false_iff. apply Qeq_bool_iff.
Qed.

(** * entry_row / entry *)

Lemma entry_row_cons (e : nat * Q) (r : wrow) (j : nat) :
  entry_row (e :: r) j = if Nat.eqb (fst e) j then (snd e + entry_row r j)%Q else entry_row r j.
Proof. unfold entry_row. simpl. destruct (Nat.eqb (fst e) j); reflexivity. Qed.

Lemma entry_row_app (a b : wrow) (j : nat) :
  (entry_row (a ++ b) j == entry_row a j + entry_row b j)%Q.
Proof. unfold entry_row. rewrite filter_app, map_app. apply sumq_app'. Qed.

Lemma entry_row_notin (r : wrow) (j : nat) : ~ In j (map fst r) -> entry_row r j = 0%Q.
Proof.
  intros H. unfold entry_row. rewrite filter_none; [reflexivity|].
  intros e He. apply Nat.eqb_neq. intros E. apply H. rewrite <- E. apply in_map. exact He.
Qed.

Lemma entry_overflow (rows : wrows) (i j : nat) : length rows <= i -> entry rows i j = 0%Q.
Proof. intros H. unfold entry. rewrite nth_overflow by exact H. reflexivity. Qed.

Lemma entry_app1 (a b : wrows) (i j : nat) : i < length a -> entry (a ++ b) i j = entry a i j.
Proof. intros H. unfold entry. rewrite app_nth1 by exact H. reflexivity. Qed.

Lemma entry_app2 (a b : wrows) (i j : nat) : entry (a ++ b) (length a + i) j = entry b i j.
Proof.
  unfold entry. rewrite app_nth2 by lia. replace (length a + i - length a) with i by lia. reflexivity.
Qed.

Lemma entry_app2' (a b : wrows) (n i j : nat) :
  length a = n -> entry (a ++ b) (n + i) j = entry b i j.
Proof. intros <-. apply entry_app2. Qed.

Lemma entry_row_const_key (a : nat) (l : wrow) :
  entry_row (map (fun e : nat * Q => (a, snd e)) l) a = sumq (map snd l).
Proof.
  induction l as [|e l IH]; [reflexivity|].
  simpl map. rewrite entry_row_cons. cbn [fst snd]. rewrite Nat.eqb_refl, IH. reflexivity.
Qed.

Lemma entry_row_flat_map_seq (F : nat -> wrow) (s n j : nat) :
  (forall a e, In e (F a) -> fst e = a) ->
  (entry_row (flat_map F (seq s n)) j ==
   if Nat.leb s j && Nat.ltb j (s + n) then entry_row (F j) j else 0)%Q.
Proof.
  intros HF. revert s; induction n as [|n IH]; intros s.
  - simpl. replace (Nat.leb s j && Nat.ltb j (s + 0)) with false; [reflexivity|].
    symmetry. apply andb_false_iff.
    destruct (Nat.leb_spec s j); [right; apply Nat.ltb_ge; lia | left; reflexivity].
  - cbn [seq flat_map]. rewrite entry_row_app, IH.
    destruct (Nat.eq_dec s j) as [E|Ne].
    + subst s.
      replace (Nat.leb (S j) j && Nat.ltb j (S j + n)) with false
        by (symmetry; apply andb_false_iff; left; apply Nat.leb_gt; lia).
      replace (Nat.leb j j && Nat.ltb j (j + S n)) with true
        by (symmetry; apply andb_true_iff; split; [apply Nat.leb_le | apply Nat.ltb_lt]; lia).
      ring.
    + rewrite (entry_row_notin (F s) j).
      * assert (Hb : Nat.leb (S s) j && Nat.ltb j (S s + n) = Nat.leb s j && Nat.ltb j (s + S n)).
        { destruct (Nat.leb_spec (S s) j), (Nat.leb_spec s j), (Nat.ltb_spec j (S s + n)),
            (Nat.ltb_spec j (s + S n)); simpl; auto; lia. }
        rewrite Hb. ring.
      * intros Hin. apply in_map_iff in Hin. destruct Hin as [e [Ee He]].
        apply HF in He. lia.
Qed.

(** Transposition transposes the denotation (also outside the stored range: both sides 0). *)
Lemma entry_tr_row (lists : wrows) (k a : nat) :
  (entry_row (tr_row lists k) a == entry lists a k)%Q.
Proof.
  unfold tr_row. rewrite entry_row_flat_map_seq.
  - simpl. destruct (Nat.ltb_spec a (length lists)) as [L|L].
    + rewrite entry_row_const_key. reflexivity.
    + rewrite entry_overflow by exact L. reflexivity.
  - intros x e He. apply in_map_iff in He. destruct He as [e' [E _]]. subst e. reflexivity.
Qed.

Lemma entry_transpose_w (n : nat) (lists : wrows) (k a : nat) :
  k < n -> (entry (transpose_w n lists) k a == entry lists a k)%Q.
Proof.
  intros H. unfold entry at 1, transpose_w. rewrite nth_map_seq by exact H. apply entry_tr_row.
Qed.

Lemma transpose_w_length n lists : length (transpose_w n lists) = n.
Proof. unfold transpose_w. rewrite map_length, seq_length. reflexivity. Qed.

Lemma entry_row_shift (n : nat) (r : wrow) (j : nat) :
  entry_row (shift_row n r) (n + j) = entry_row r j.
Proof.
  induction r as [|e r IH]; [reflexivity|].
  unfold shift_row in *. simpl map. rewrite !entry_row_cons. cbn [fst snd]. rewrite IH.
  destruct (Nat.eqb_spec (fst e) j) as [E|Ne].
  - subst j. rewrite Nat.eqb_refl. reflexivity.
  - replace (Nat.eqb (n + fst e) (n + j)) with false; [reflexivity|].
    symmetry. apply Nat.eqb_neq. lia.
Qed.

Lemma entry_row_shift_low (n : nat) (r : wrow) (j : nat) : j < n -> entry_row (shift_row n r) j = 0%Q.
Proof.
  intros H. apply entry_row_notin. unfold shift_row. rewrite map_map. cbn [fst].
  intros Hin. apply in_map_iff in Hin. destruct Hin as [e [E _]]. lia.
Qed.

Lemma nth_map_nil {A B} (f : list A -> list B) (l : list (list A)) (i : nat) :
  f [] = [] -> nth i (map f l) [] = f (nth i l []).
Proof. intros H. rewrite <- H at 1. apply map_nth. Qed.

(** * C03: block matrices *)

Theorem block_denotation (b : wmat) :
  let n_row := length (snd b) in
  let n_col := fst b in
  let a := snd (bipartite2undirected b) in
  fst (bipartite2undirected b) = n_row + n_col /\ length a = n_row + n_col /\
  (forall i j, i < n_row -> (entry a i (n_row + j) == entry (snd b) i j)%Q) /\
  (forall i j, j < n_col -> (entry a (n_row + j) i == entry (snd b) i j)%Q) /\
  (forall i i', i < n_row -> i' < n_row -> (entry a i i' == 0)%Q) /\
  (forall j j', j < n_col -> (entry a (n_row + j) (n_row + j') == 0)%Q).
Proof.
  destruct b as [nc rows]. cbn [fst snd bipartite2undirected].
  split; [reflexivity|]. split.
  { rewrite app_length, map_length, transpose_w_length. reflexivity. }
  split; [|split; [|split]].
  - intros i j Hi. rewrite entry_app1 by (rewrite map_length; exact Hi).
    unfold entry. rewrite (nth_map_nil (shift_row (length rows))) by reflexivity.
    rewrite entry_row_shift. reflexivity.
  - intros i j Hj.
    rewrite entry_app2' by apply map_length.
    apply entry_transpose_w. exact Hj.
  - intros i i' Hi Hi'. rewrite entry_app1 by (rewrite map_length; exact Hi).
    unfold entry. rewrite (nth_map_nil (shift_row (length rows))) by reflexivity.
    rewrite entry_row_shift_low by exact Hi'. reflexivity.
  - intros j j' Hj.
    rewrite entry_app2' by apply map_length.
    rewrite entry_transpose_w by exact Hj. rewrite entry_overflow by lia. reflexivity.
Qed.

Theorem block_directed_denotation (b : wmat) :
  let n_row := length (snd b) in
  let n_col := fst b in
  let a := snd (bipartite2directed b) in
  fst (bipartite2directed b) = n_row + n_col /\ length a = n_row + n_col /\
  (forall i j, i < n_row -> (entry a i (n_row + j) == entry (snd b) i j)%Q) /\
  (forall i i', i < n_row -> i' < n_row -> (entry a i i' == 0)%Q) /\
  (forall j k, (entry a (n_row + j) k == 0)%Q).
Proof.
  destruct b as [nc rows]. cbn [fst snd bipartite2directed].
  split; [reflexivity|]. split.
  { rewrite app_length, map_length, repeat_length. reflexivity. }
  split; [|split].
  - intros i j Hi. rewrite entry_app1 by (rewrite map_length; exact Hi).
    unfold entry. rewrite (nth_map_nil (shift_row (length rows))) by reflexivity.
    rewrite entry_row_shift. reflexivity.
  - intros i i' Hi Hi'. rewrite entry_app1 by (rewrite map_length; exact Hi).
    unfold entry. rewrite (nth_map_nil (shift_row (length rows))) by reflexivity.
    rewrite entry_row_shift_low by exact Hi'. reflexivity.
  - intros j k.
    rewrite entry_app2' by apply map_length.
    unfold entry. rewrite (@nth_repeat_nil (nat * Q)). reflexivity.
Qed.

(** Pattern version: same edge set as [Model.Bfs.block_undirected] on the pattern of B. *)
Lemma pattern_app (a b : wrows) : pattern (a ++ b) = pattern a ++ pattern b.
Proof. unfold pattern. apply map_app. Qed.

Lemma pattern_length (rows : wrows) : length (pattern rows) = length rows.
Proof. unfold pattern. apply map_length. Qed.

Lemma row_pattern (rows : wrows) (i : nat) :
  row (pattern rows) i = map fst (filter (fun e : nat * Q => qnz (snd e)) (nth i rows [])).
Proof.
  unfold row, pattern.
  apply (nth_map_nil (fun r : wrow => map fst (filter (fun e : nat * Q => qnz (snd e)) r))).
  reflexivity.
Qed.

Lemma in_row_pattern (rows : wrows) (i j : nat) :
  In j (row (pattern rows) i) <-> exists v, In (j, v) (nth i rows []) /\ qnz v = true.
Proof.
  rewrite row_pattern, in_map_iff. split.
  - intros [[j' v] [E H]]. cbn [fst] in E. subst j'. apply filter_In in H. cbn [snd] in H.
    exists v. exact H.
  - intros [v [H1 H2]]. exists (j, v). split; [reflexivity|]. apply filter_In. split; assumption.
Qed.

Lemma pattern_shift (n : nat) (rows : wrows) :
  pattern (map (shift_row n) rows) = map (fun r => map (fun j => n + j) r) (pattern rows).
Proof.
  unfold pattern. rewrite !map_map. apply map_ext. intros r.
  induction r as [|e r IH]; [reflexivity|].
  unfold shift_row in *. simpl. destruct (qnz (snd e)); simpl; rewrite IH; reflexivity.
Qed.

Lemma in_tr_row (lists : wrows) (k a : nat) (v : Q) :
  In (a, v) (tr_row lists k) <-> In (k, v) (nth a lists []).
Proof.
  unfold tr_row. rewrite in_flat_map. split.
  - intros [x [Hx H]]. apply in_map_iff in H. destruct H as [[k' v'] [E H]].
    cbn [snd] in E. injection E as E1 E2. subst x v'.
    apply filter_In in H. destruct H as [H Hk]. cbn [fst] in Hk. apply Nat.eqb_eq in Hk. subst k'.
    exact H.
  - intros H. exists a. split.
    + apply in_seq. split; [lia|]. simpl.
      destruct (Nat.lt_ge_cases a (length lists)) as [L|L]; auto.
      rewrite nth_overflow in H by exact L. destruct H.
    + apply in_map_iff. exists (k, v). split; [reflexivity|].
      apply filter_In. split; [exact H|]. cbn [fst]. apply Nat.eqb_refl.
Qed.

Theorem block_pattern (b : wmat) :
  let g := pattern (snd (bipartite2undirected b)) in
  let g' := block_undirected (pattern_pmat b) in
  length g = length g' /\ forall u v, In v (row g u) <-> In v (row g' u).
Proof.
  destruct b as [nc rows]. cbn [fst snd bipartite2undirected].
  unfold block_undirected, pattern_pmat, p_nrow. cbn [p_rows p_ncol fst snd transpose].
  rewrite pattern_app, pattern_shift. unfold p_nrow. cbn [p_rows]. rewrite pattern_length.
  split.
  { rewrite !app_length, !map_length, !pattern_length, transpose_w_length, seq_length. reflexivity. }
  intros u v. unfold row.
  destruct (Nat.lt_ge_cases u (length rows)) as [L|L].
  - rewrite !app_nth1 by (rewrite map_length, pattern_length; exact L). reflexivity.
  - rewrite !app_nth2 by (rewrite map_length, pattern_length; exact L).
    rewrite map_length, pattern_length.
    destruct (Nat.lt_ge_cases (u - length rows) nc) as [L2|L2].
    + rewrite nth_map_seq by exact L2.
      fold (row (pattern (transpose_w nc rows)) (u - length rows)).
      rewrite in_row_pattern. unfold transpose_w. rewrite nth_map_seq by exact L2.
      rewrite filter_In, in_seq. split.
      * intros [x [H1 H2]]. apply in_tr_row in H1.
        assert (Hv : v < length rows).
        { destruct (Nat.lt_ge_cases v (length rows)) as [Lv|Lv]; auto.
          rewrite nth_overflow in H1 by exact Lv. destruct H1. }
        split; [lia|]. apply memn_In. apply in_row_pattern. exists x. split; assumption.
      * intros [_ H]. apply memn_In in H. apply in_row_pattern in H. destruct H as [x [H1 H2]].
        exists x. split; [|exact H2]. apply in_tr_row. exact H1.
    + rewrite !nth_overflow; [reflexivity| |].
      * rewrite map_length, seq_length. exact L2.
      * rewrite pattern_length, transpose_w_length. exact L2.
Qed.

(** On rows in canonical format the block matrix is in canonical format too (so that summing
    duplicates and sorting, which SciPy's [bmat] does in addition, changes nothing). *)
Lemma StronglySorted_map_lt (f : nat -> nat) (l : list nat) :
  (forall x y, x < y -> f x < f y) -> StronglySorted lt l -> StronglySorted lt (map f l).
Proof.
  intros Hf H. induction H as [|a l Hs IH Ha]; simpl; constructor; auto.
  rewrite Forall_forall in *. intros y Hy. apply in_map_iff in Hy. destruct Hy as [x [<- Hx]].
  apply Hf. apply Ha. exact Hx.
Qed.

Lemma StronglySorted_seq (s n : nat) : StronglySorted lt (seq s n).
Proof.
  revert s; induction n as [|n IH]; intros s; simpl; constructor; auto.
  rewrite Forall_forall. intros y Hy. apply in_seq in Hy. lia.
Qed.

Lemma StronglySorted_filter (p : nat -> bool) (l : list nat) :
  StronglySorted lt l -> StronglySorted lt (filter p l).
Proof.
  intros H. induction H as [|a l Hs IH Ha]; simpl; [constructor|].
  destruct (p a); auto. constructor; auto.
  rewrite Forall_forall in *. intros y Hy. apply filter_In in Hy. apply Ha. tauto.
Qed.

(** keys of [flat_map F (seq s n)] when F a has at most one entry, with key a *)
Lemma sorted_flat_map_seq (F : nat -> wrow) (s n : nat) :
  (forall a e, In e (F a) -> fst e = a) -> (forall a, length (F a) <= 1) ->
  StronglySorted lt (map fst (flat_map F (seq s n))).
Proof.
  intros HF H1. revert s; induction n as [|n IH]; intros s; [constructor|].
  cbn [seq flat_map]. rewrite map_app.
  specialize (IH (S s)).
  assert (Hall : Forall (lt s) (map fst (flat_map F (seq (S s) n)))).
  { rewrite Forall_forall. intros y Hy. apply in_map_iff in Hy. destruct Hy as [e [<- He]].
    apply in_flat_map in He. destruct He as [a [Ha He]]. apply in_seq in Ha.
    rewrite (HF _ _ He). lia. }
  pose proof (H1 s) as Hl. pose proof (HF s) as Hk.
  destruct (F s) as [|e [|e' t]]; simpl in *; try lia; auto.
  constructor; auto. rewrite (Hk e) by auto. exact Hall.
Qed.

Lemma filter_key_length (r : wrow) (k : nat) :
  NoDup (map fst r) -> length (filter (fun e : nat * Q => Nat.eqb (fst e) k) r) <= 1.
Proof.
  induction r as [|e r IH]; simpl; intros H; [lia|].
  inversion H as [|x l Hn Hd]; subst.
  destruct (Nat.eqb_spec (fst e) k) as [E|Ne]; [|auto].
  simpl. rewrite filter_none; [simpl; lia|].
  intros e' He'. apply Nat.eqb_neq. intros E'. apply Hn. rewrite E, <- E'. apply in_map. exact He'.
Qed.

Lemma tr_row_sorted (lists : wrows) (k : nat) :
  Forall (fun col : wrow => NoDup (map fst col)) lists -> row_sorted (tr_row lists k).
Proof.
  intros H. unfold row_sorted, tr_row. apply sorted_flat_map_seq.
  - intros a e He. apply in_map_iff in He. destruct He as [e' [<- _]]. reflexivity.
  - intros a. rewrite map_length. apply filter_key_length.
    destruct (Nat.lt_ge_cases a (length lists)) as [L|L].
    + rewrite Forall_forall in H. apply H. apply nth_In. exact L.
    + rewrite nth_overflow by exact L. constructor.
Qed.

Lemma StronglySorted_lt_NoDup (l : list nat) : StronglySorted lt l -> NoDup l.
Proof.
  intros H. induction H as [|a l Hs IH Ha]; constructor; auto.
  intros Hin. rewrite Forall_forall in Ha. specialize (Ha _ Hin). lia.
Qed.

Theorem block_sorted (b : wmat) :
  rows_sorted (snd b) -> rows_sorted (snd (bipartite2undirected b)).
Proof.
  destruct b as [nc rows]. cbn [fst snd bipartite2undirected]. unfold rows_sorted. intros H.
  apply Forall_app. split.
  - rewrite Forall_forall in *. intros r Hr. apply in_map_iff in Hr. destruct Hr as [r0 [<- Hr0]].
    specialize (H _ Hr0). unfold row_sorted, shift_row in *. rewrite map_map. cbn [fst].
    rewrite <- (map_map fst (fun j => length rows + j)).
    apply StronglySorted_map_lt; [intros; lia | exact H].
  - rewrite Forall_forall. intros r Hr. unfold transpose_w in Hr. apply in_map_iff in Hr.
    destruct Hr as [k [<- _]]. apply tr_row_sorted.
    rewrite Forall_forall in *. intros col Hc. apply StronglySorted_lt_NoDup. apply H. exact Hc.
Qed.

(** * C03: is_square / is_symmetric / get_adjacency *)

Lemma is_square_spec (m : wmat) : is_square m = true <-> length (snd m) = fst m.
Proof. unfold is_square. apply Nat.eqb_eq. Qed.

Theorem is_symmetric_spec (rows : wrows) :
  is_symmetric rows = true <-> forall i j, (entry rows i j == entry rows j i)%Q.
Proof.
  unfold is_symmetric. rewrite forallb_forall. split.
  - intros H i j.
    assert (Hchk : forall a c, In c (map fst (nth a rows [])) ->
                               (entry rows a c == entry rows c a)%Q).
    { intros a c Hc. apply in_map_iff in Hc. destruct Hc as [e [<- He]].
      assert (La : a < length rows).
      { destruct (Nat.lt_ge_cases a (length rows)) as [L|L]; auto.
        rewrite nth_overflow in He by exact L. destruct He. }
      specialize (H a). rewrite forallb_forall in H.
      apply Qeq_bool_iff. apply H; [|exact He]. apply in_seq. lia. }
    destruct (in_dec Nat.eq_dec j (map fst (nth i rows []))) as [Hin|Hnin].
    + apply Hchk. exact Hin.
    + destruct (in_dec Nat.eq_dec i (map fst (nth j rows []))) as [Hin'|Hnin'].
      * symmetry. apply Hchk. exact Hin'.
      * unfold entry. rewrite !entry_row_notin by assumption. reflexivity.
  - intros H i _. apply forallb_forall. intros e _. apply Qeq_bool_iff. apply H.
Qed.

Theorem get_adjacency_decision (m : wmat) (allow_directed force_bipartite force_directed : bool) :
  let r := get_adjacency m allow_directed force_bipartite force_directed in
  (snd r = true <->
   force_bipartite = true \/ length (snd m) <> fst m \/
   (allow_directed = false /\ ~ forall i j, (entry (snd m) i j == entry (snd m) j i)%Q)) /\
  (snd r = true ->
   fst r = if force_directed then bipartite2directed m else bipartite2undirected m) /\
  (snd r = false -> fst r = m).
Proof.
  cbv zeta. unfold get_adjacency, bipartite_decision. cbn [fst snd].
  split; [|split].
  - rewrite !orb_true_iff, andb_true_iff, !negb_true_iff.
    rewrite <- is_symmetric_spec, <- is_square_spec.
    rewrite !not_true_iff_false. tauto.
  - intros H. rewrite H. reflexivity.
  - intros H. rewrite H. reflexivity.
Qed.

(** The block matrix of a well-formed B is square and symmetric: get_adjacency leaves it alone. *)
Lemma wf_entry_zero (nc : nat) (rows : wrows) (i j : nat) :
  wf_rows nc rows -> nc <= j -> entry rows i j = 0%Q.
Proof.
  intros H Hj. unfold entry. apply entry_row_notin. intros Hin.
  apply in_map_iff in Hin. destruct Hin as [e [E He]].
  destruct (Nat.lt_ge_cases i (length rows)) as [L|L].
  - unfold wf_rows in H. rewrite Forall_forall in H.
    specialize (H _ (nth_In rows [] L)). rewrite Forall_forall in H. specialize (H _ He). lia.
  - rewrite nth_overflow in He by exact L. destruct He.
Qed.

Theorem block_symmetric (b : wmat) :
  wf_wmat b ->
  is_square (bipartite2undirected b) = true /\
  is_symmetric (snd (bipartite2undirected b)) = true.
Proof.
  intros Hwf.
  destruct (block_denotation b) as [H0 [H1 [H2 [H3 [H4 H5]]]]].
  split; [apply is_square_spec; rewrite H0, H1; reflexivity|].
  apply is_symmetric_spec.
  set (nr := length (snd b)) in *. set (nc := fst b) in *.
  set (a := snd (bipartite2undirected b)) in *.
  (* classify an index: row node, column node, or out of range *)
  assert (Hrc : forall i j, i < nr -> nr <= j -> (entry a i j == entry a j i)%Q).
  { intros i j Hi Hj. replace j with (nr + (j - nr)) by lia.
    rewrite H2 by exact Hi.
    destruct (Nat.lt_ge_cases (j - nr) nc) as [L|L].
    - rewrite H3 by exact L. reflexivity.
    - rewrite (wf_entry_zero nc) by (assumption || exact L).
      rewrite entry_overflow by (fold a; lia). reflexivity. }
  intros i j.
  destruct (Nat.lt_ge_cases i nr) as [Li|Li], (Nat.lt_ge_cases j nr) as [Lj|Lj].
  - rewrite !H4 by assumption. reflexivity.
  - apply Hrc; assumption.
  - symmetry. apply Hrc; assumption.
  - destruct (Nat.lt_ge_cases (i - nr) nc) as [Lic|Lic], (Nat.lt_ge_cases (j - nr) nc) as [Ljc|Ljc].
    + replace i with (nr + (i - nr)) by lia. replace j with (nr + (j - nr)) by lia.
      rewrite !H5 by assumption. reflexivity.
    + replace i with (nr + (i - nr)) at 1 by lia. replace j with (nr + (j - nr)) at 1 by lia.
      rewrite H5 by assumption. rewrite (entry_overflow a j) by lia. reflexivity.
    + replace j with (nr + (j - nr)) at 2 by lia. replace i with (nr + (i - nr)) at 2 by lia.
      rewrite H5 by assumption. rewrite (entry_overflow a i) by lia. reflexivity.
    + rewrite !entry_overflow by lia. reflexivity.
Qed.

(** * C03: values *)

Lemma nthq_repeat' (q : Q) (n i : nat) : i < n -> nthq (repeat q n) i = q.
Proof.
  revert i; induction n as [|n IH]; intros [|i] H; try lia; [reflexivity|].
  unfold nthq in *. simpl. apply IH. lia.
Qed.

Lemma find_app {A} (f : A -> bool) (a b : list A) :
  find f (a ++ b) = match find f a with Some x => Some x | None => find f b end.
Proof. induction a as [|x a IH]; simpl; auto. destruct (f x); auto. Qed.

Lemma find_none_keys (d : list (nat * Q)) (i : nat) :
  ~ In i (map fst d) -> find (fun e : nat * Q => Nat.eqb (fst e) i) d = None.
Proof.
  induction d as [|e d IH]; simpl; intros H; auto.
  destruct (Nat.eqb_spec (fst e) i) as [E|Ne]; [exfalso; apply H; auto|].
  apply IH. intros Hin. apply H. auto.
Qed.

Lemma dict_get_absent (d : list (nat * Q)) (i : nat) (default : Q) :
  ~ In i (map fst d) -> dict_get d i default = default.
Proof.
  intros H. unfold dict_get. rewrite find_none_keys; [reflexivity|].
  rewrite map_rev. intros Hin. apply in_rev in Hin. exact (H Hin).
Qed.

(** The last occurrence of a key wins. *)
Lemma dict_get_last (d1 d2 : list (nat * Q)) (i : nat) (x default : Q) :
  ~ In i (map fst d2) -> dict_get (d1 ++ (i, x) :: d2) i default = x.
Proof.
  intros H. unfold dict_get. rewrite rev_app_distr. simpl rev. rewrite <- app_assoc, find_app.
  rewrite find_none_keys.
  - simpl. rewrite Nat.eqb_refl. reflexivity.
  - rewrite map_rev. intros Hin. apply in_rev in Hin. exact (H Hin).
Qed.

Lemma dict_get_present (d : list (nat * Q)) (i : nat) (x default : Q) :
  NoDup (map fst d) -> In (i, x) d -> dict_get d i default = x.
Proof.
  intros Hnd Hin. apply in_split in Hin. destruct Hin as [d1 [d2 E]]. subst d.
  apply dict_get_last. rewrite map_app in Hnd. simpl in Hnd.
  apply NoDup_remove_2 in Hnd. intros H. apply Hnd. apply in_or_app. right. exact H.
Qed.

Theorem get_values_spec (n : nat) (v : vals) (default : Q) (l : list Q) :
  get_values n v default = Ok l ->
  length l = n /\ forall i, i < n -> nthq l i = seed_at v 1%Q default i.
Proof.
  destruct v as [|a|d]; simpl.
  - intros E. injection E as <-. split; [apply repeat_length|]. intros i Hi. apply nthq_repeat'. exact Hi.
  - destruct (Nat.eqb_spec (length a) n) as [E|Ne]; [|discriminate].
    intros E'. injection E' as <-. split; [exact E|]. reflexivity.
  - destruct d as [|e d]; [discriminate|].
    destruct (forallb _ _); [|discriminate].
    intros E. injection E as <-. split; [rewrite map_length, seq_length; reflexivity|].
    intros i Hi. unfold nthq. rewrite nth_map_seq by exact Hi. reflexivity.
Qed.

Lemma firstn_app_exact {A} (r c : list A) : firstn (length r) (r ++ c) = r.
Proof. induction r as [|a r IH]; simpl; [destruct c; reflexivity|]. f_equal. exact IH. Qed.

Lemma skipn_app_exact {A} (r c : list A) : skipn (length r) (r ++ c) = c.
Proof. induction r as [|a r IH]; simpl; auto. Qed.

Theorem stack_split_inverse (n_row n_col : nat) (vrow vcol : vals) (default : Q) (s : list Q) :
  stack_values n_row n_col vrow vcol default = Ok s ->
  exists r c,
    get_values n_row (fst (stack_defaults n_row n_col vrow vcol default)) default = Ok r /\
    get_values n_col (snd (stack_defaults n_row n_col vrow vcol default)) default = Ok c /\
    length r = n_row /\ length c = n_col /\ s = r ++ c /\ Format.split n_row s = (r, c).
Proof.
  unfold stack_values.
  destruct (stack_defaults n_row n_col vrow vcol default) as [vr vc]. cbn [fst snd].
  destruct (get_values n_row vr default) as [r|e] eqn:Er; [|discriminate].
  destruct (get_values n_col vc default) as [c|e] eqn:Ec; [|discriminate].
  intros E. injection E as <-.
  destruct (get_values_spec _ _ _ _ Er) as [Lr _]. destruct (get_values_spec _ _ _ _ Ec) as [Lc _].
  exists r, c. repeat split; auto.
  unfold Format.split. rewrite <- Lr. rewrite firstn_app_exact, skipn_app_exact. reflexivity.
Qed.

Theorem stack_values_addresses (n_row n_col : nat) (vrow vcol : vals) (default : Q) (s : list Q) :
  stack_values n_row n_col vrow vcol default = Ok s ->
  let both_none := match vrow, vcol with VNone, VNone => true | _, _ => false end in
  length s = n_row + n_col /\
  (forall i, i < n_row ->
     nthq s i = seed_at vrow (if both_none then 1%Q else default) default i) /\
  (forall j, j < n_col -> nthq s (n_row + j) = seed_at vcol default default j).
Proof.
  intros H. destruct (stack_split_inverse _ _ _ _ _ _ H) as [r [c [Er [Ec [Lr [Lc [Es _]]]]]]].
  destruct (get_values_spec _ _ _ _ Er) as [_ Sr]. destruct (get_values_spec _ _ _ _ Ec) as [_ Sc].
  cbv zeta. subst s. split; [rewrite app_length; lia|]. split.
  - intros i Hi. unfold nthq. rewrite app_nth1 by lia. fold (nthq r i). rewrite Sr by exact Hi.
    destruct vrow, vcol; cbn [stack_defaults fst seed_at]; try reflexivity;
      apply nthq_repeat'; exact Hi.
  - intros j Hj. unfold nthq. rewrite app_nth2 by lia.
    replace (n_row + j - length r) with j by lia. fold (nthq c j). rewrite Sc by exact Hj.
    destruct vrow, vcol; cbn [stack_defaults snd seed_at]; try reflexivity;
      apply nthq_repeat'; exact Hj.
Qed.

(** * C03: the pipeline *)

(** True by construction: the statement pins the addressing conventions down (block adjacency with
    rows first, seeds stacked rows first, outputs split at n_row); it does not say that a given
    estimator has this shape - that is observed by the metamorphic harness. *)
Theorem bipartite_pipeline_eq (F : core) (b : wmat) (vrow vcol : vals) (default : Q)
        (r c : list Q) :
  fit_bip F b vrow vcol default = Ok (r, c) ->
  exists s, stack_values (length (snd b)) (fst b) vrow vcol default = Ok s /\
    let x := fit_sq F (bipartite2undirected b) s in
    (r, c) = Format.split (length (snd b)) x /\ r ++ c = x /\
    (length x = length (snd b) + fst b -> length r = length (snd b) /\ length c = fst b).
Proof.
  unfold fit_bip, fit_sq.
  destruct (stack_values (length (snd b)) (fst b) vrow vcol default) as [s|e]; [|discriminate].
  intros E. injection E as E1 E2. exists s. split; [reflexivity|]. cbv zeta.
  subst r c. split; [reflexivity|].
  split; [apply firstn_skipn|].
  intros HL. rewrite firstn_length, skipn_length. cbn [bipartite2undirected snd] in HL |- *. lia.
Qed.

(** The skeleton as coded: whenever the bipartite treatment is chosen for B (a column output is
    produced), the outputs are the two halves of what the same skeleton returns for the block
    adjacency, taken as an ordinary square graph, with the stacked seed vector. *)
Theorem fit_bipartite_eq_block (F : core) (b : wmat) (allow_directed force_bipartite : bool)
        (values vrow vcol : vals) (default : Q) (r c : list Q) :
  wf_wmat b ->
  fit F b allow_directed force_bipartite false values vrow vcol default = Ok (r, Some c) ->
  exists s,
    match values with
    | VNone => stack_values (length (snd b)) (fst b) vrow vcol default
    | _ => stack_values (length (snd b)) (fst b) values VNone default
    end = Ok s /\
    let x := F (snd (bipartite2undirected b)) s in
    fit F (bipartite2undirected b) allow_directed false false (VArr s) VNone VNone default
      = Ok (x, None) /\
    r = firstn (length (snd b)) x /\ c = skipn (length (snd b)) x.
Proof.
  intros Hwf. unfold fit at 1. unfold get_adjacency_values at 1.
  set (fb := match vrow, vcol with VNone, VNone => force_bipartite | _, _ => true end).
  pose proof (get_adjacency_decision b allow_directed fb false) as [_ [Hb _]].
  destruct (get_adjacency b allow_directed fb false) as [adj bip]. cbn [fst snd] in Hb.
  destruct bip.
  2:{ destruct (get_values (length (snd b)) values default); [|discriminate].
      intros E. discriminate. }
  rewrite (Hb eq_refl).
  set (rv := match values with
             | VNone => stack_values (length (snd b)) (fst b) vrow vcol default
             | _ => stack_values (length (snd b)) (fst b) values VNone default
             end).
  destruct rv as [s|e] eqn:Erv; [|discriminate].
  unfold Format.split. intros E. injection E as E1 E2. exists s. split; [reflexivity|].
  cbv zeta. split; [|split; symmetry; assumption].
  assert (Hs : length s = length (snd b) + fst b).
  { unfold rv in Erv. destruct values; apply stack_values_addresses in Erv; tauto. }
  destruct (block_symmetric b Hwf) as [Hsq Hsym].
  destruct (block_denotation b) as [_ [Hlen _]].
  unfold fit, get_adjacency_values, get_adjacency, bipartite_decision.
  rewrite Hsq, Hsym. cbn [negb orb andb]. rewrite andb_false_r.
  cbn [get_values]. rewrite Hlen, Hs, Nat.eqb_refl. reflexivity.
Qed.

(** * C01: conversion to CSR keeps the denotation *)

Lemma entry_map_nil {A} (f : list A -> wrow) (rows : list (list A)) (i j : nat) :
  f [] = [] -> entry (map f rows) i j = entry_row (f (nth i rows [])) j.
Proof. intros H. unfold entry. rewrite (nth_map_nil f) by exact H. reflexivity. Qed.

Lemma entry_row_dense_from (s : nat) (r : list Q) (j : nat) :
  (entry_row (filter (fun e : nat * Q => qnz (snd e)) (combine (seq s (length r)) r)) j ==
   if Nat.leb s j then nthq r (j - s) else 0)%Q.
Proof.
  revert s; induction r as [|a r IH]; intros s.
  - simpl. unfold nthq. destruct (Nat.leb s j), (j - s); reflexivity.
  - cbn [length seq combine filter snd].
    assert (Hrest : (entry_row (filter (fun e : nat * Q => qnz (snd e))
                                       (combine (seq (S s) (length r)) r)) j ==
                     if Nat.leb s j then (if Nat.eqb s j then 0 else nthq (a :: r) (j - s)) else 0)%Q).
    { rewrite IH. destruct (Nat.leb_spec (S s) j) as [L|L], (Nat.leb_spec s j) as [L'|L']; try lia.
      - destruct (Nat.eqb_spec s j) as [E|Ne]; [lia|].
        replace (j - s) with (S (j - S s)) by lia. reflexivity.
      - destruct (Nat.eqb_spec s j) as [E|Ne]; [reflexivity|lia].
      - reflexivity. }
    revert Hrest. destruct (qnz a) eqn:Ea; [rewrite entry_row_cons; cbn [fst snd]|];
      destruct (Nat.eqb_spec s j) as [E|Ne]; intros Hrest; rewrite Hrest.
    + subst j. rewrite Nat.leb_refl, Nat.sub_diag. unfold nthq. simpl. ring.
    + reflexivity.
    + subst j. rewrite Nat.leb_refl, Nat.sub_diag. unfold nthq. simpl.
      apply qnz_false in Ea. rewrite Ea. reflexivity.
    + reflexivity.
Qed.

Lemma entry_row_dense (r : list Q) (j : nat) : (entry_row (dense_row r) j == nthq r j)%Q.
Proof. unfold dense_row. rewrite entry_row_dense_from. simpl. rewrite Nat.sub_0_r. reflexivity. Qed.

Lemma entry_row_tabulate (f : nat -> Q) (l : list nat) (j : nat) :
  NoDup l -> In j l -> (entry_row (map (fun k => (k, f k)) l) j == f j)%Q.
Proof.
  induction l as [|a l IH]; intros Hnd Hin; [destruct Hin|].
  inversion Hnd as [|x y Hn Hd]; subst. simpl map. rewrite entry_row_cons. cbn [fst snd].
  destruct (Nat.eqb_spec a j) as [E|Ne].
  - subst a. rewrite entry_row_notin; [ring|].
    rewrite map_map. cbn [fst]. rewrite map_id. exact Hn.
  - apply IH; auto. destruct Hin as [E|H]; [contradiction|exact H].
Qed.

Lemma coo_sum_unstored (es : list (nat * nat * Q)) (i j : nat) :
  coo_stored es i j = false -> coo_sum es i j = 0%Q.
Proof.
  unfold coo_stored, coo_sum. intros H. rewrite existsb_false in H.
  rewrite filter_none by exact H. reflexivity.
Qed.

Lemma coo_unstored_range (nr nc : nat) (es : list (nat * nat * Q)) (i j : nat) :
  Forall (fun e : nat * nat * Q => fst (fst e) < nr /\ snd (fst e) < nc) es ->
  nr <= i \/ nc <= j -> coo_stored es i j = false.
Proof.
  intros Hwf Hij. unfold coo_stored. apply existsb_false. intros e He.
  rewrite Forall_forall in Hwf. specialize (Hwf _ He). unfold coo_at.
  apply andb_false_iff. destruct Hij as [H|H]; [left|right]; apply Nat.eqb_neq; lia.
Qed.

Theorem to_csr_denotation (c : container) :
  wf_shape c -> forall i j, (entry (snd (to_csr c)) i j == den c i j)%Q.
Proof.
  destruct c as [rows|nr nc es|nr cols|nc rows|nc rows]; cbn [to_csr snd den wf_shape]; intros Hwf i j.
  - rewrite (entry_map_nil dense_row) by reflexivity. apply entry_row_dense.
  - destruct (Nat.lt_ge_cases i nr) as [Li|Li].
    + unfold entry. rewrite nth_map_seq by exact Li. unfold coo_row.
      destruct (coo_stored es i j) eqn:Es.
      * destruct (Nat.lt_ge_cases j nc) as [Lj|Lj].
        -- apply (entry_row_tabulate (fun k => coo_sum es i k)).
           ++ apply NoDup_filter. apply seq_NoDup.
           ++ apply filter_In. split; [apply in_seq; lia|exact Es].
        -- rewrite (coo_unstored_range nr nc es i j Hwf) in Es by (right; exact Lj). discriminate.
      * rewrite coo_sum_unstored by exact Es. rewrite entry_row_notin; [reflexivity|].
        rewrite map_map. cbn [fst]. rewrite map_id. intros Hin. apply filter_In in Hin.
        destruct Hin as [_ Hin]. rewrite Hin in Es. discriminate.
    + rewrite entry_overflow by (rewrite map_length, seq_length; exact Li).
      rewrite coo_sum_unstored; [reflexivity|].
      apply (coo_unstored_range nr nc es i j Hwf). left. exact Li.
  - destruct (Nat.lt_ge_cases i nr) as [Li|Li].
    + apply entry_transpose_w. exact Li.
    + rewrite entry_overflow by (rewrite transpose_w_length; exact Li).
      rewrite (wf_entry_zero nr cols j i Hwf Li). reflexivity.
  - reflexivity.
  - reflexivity.
Qed.

(** Shape of the result. *)
Theorem to_csr_shape (c : container) :
  fst (to_csr c) = c_ncol c /\ length (snd (to_csr c)) = c_nrow c.
Proof.
  destruct c as [rows|nr nc es|nr cols|nc rows|nc rows]; cbn [to_csr fst snd c_ncol c_nrow];
    split; try reflexivity.
  - apply map_length.
  - rewrite map_length, seq_length. reflexivity.
  - apply transpose_w_length.
Qed.

(** * C01: the output is in canonical format for every container but CSR *)

Lemma dense_row_sorted_from (s : nat) (r : list Q) :
  StronglySorted lt (map fst (filter (fun e : nat * Q => qnz (snd e)) (combine (seq s (length r)) r))).
Proof.
  revert s; induction r as [|a r IH]; intros s; [constructor|].
  cbn [length seq combine filter snd]. destruct (qnz a); [|apply IH].
  cbn [map fst]. constructor; [apply IH|].
  rewrite Forall_forall. intros y Hy. apply in_map_iff in Hy. destruct Hy as [[k v] [<- He]].
  apply filter_In in He. destruct He as [He _]. apply in_combine_l in He. apply in_seq in He.
  cbn [fst]. lia.
Qed.

Theorem to_csr_sorted (c : container) :
  is_csr c = false -> canonical c -> rows_sorted (snd (to_csr c)).
Proof.
  destruct c as [rows|nr nc es|nr cols|nc rows|nc rows]; cbn [to_csr snd is_csr canonical];
    intros Hc Hcan; try discriminate; unfold rows_sorted.
  - rewrite Forall_forall. intros r Hr. apply in_map_iff in Hr. destruct Hr as [r0 [<- _]].
    apply dense_row_sorted_from.
  - rewrite Forall_forall. intros r Hr. apply in_map_iff in Hr. destruct Hr as [i [<- _]].
    unfold row_sorted, coo_row. rewrite map_map. cbn [fst]. rewrite map_id.
    apply StronglySorted_filter. apply StronglySorted_seq.
  - rewrite Forall_forall. intros r Hr. unfold transpose_w in Hr. apply in_map_iff in Hr.
    destruct Hr as [k [<- _]]. apply tr_row_sorted. exact Hcan.
  - exact Hcan.
Qed.

(** * C01: the order of the stored indices and duplicates are invisible to BFS and get_dag *)

Definition same_rows (g g' : graph) : Prop :=
  length g = length g' /\ forall u v, In v (row g u) <-> In v (row g' u).

Lemma memn_same (v : nat) (l l' : list nat) :
  (In v l <-> In v l') -> memn v l = memn v l'.
Proof.
  intros H. destruct (memn v l) eqn:E1, (memn v l') eqn:E2; auto.
  - apply memn_In in E1. apply H in E1. apply memn_In in E1. congruence.
  - apply memn_In in E2. apply H in E2. apply memn_In in E2. congruence.
Qed.

Lemma frontier_same (g g' : graph) (reach : list bool) :
  same_rows g g' -> frontier g reach = frontier g' reach.
Proof.
  intros [HL HR]. unfold frontier. rewrite <- HL. apply map_ext. intros v. f_equal.
  apply existsb_ext'. intros u _. f_equal. apply memn_same. apply HR.
Qed.

Lemma bfs_loop_same (g g' : graph) :
  same_rows g g' ->
  forall fuel d reach dist, bfs_loop fuel g d reach dist = bfs_loop fuel g' d reach dist.
Proof.
  intros H. induction fuel as [|f IH]; intros d reach dist; [reflexivity|].
  cbn [bfs_loop]. rewrite <- (frontier_same g g' reach H).
  destruct (existsb (fun b : bool => b) (frontier g reach)); [apply IH|reflexivity].
Qed.

Theorem bfs_row_order_irrelevant (g g' : graph) :
  same_rows g g' ->
  (forall src, bfs g src = bfs g' src) /\
  (forall order, same_rows (get_dag g order) (get_dag g' order)).
Proof.
  intros H. split.
  - intros src. unfold bfs. destruct H as [HL HR]. rewrite <- HL.
    apply bfs_loop_same. split; assumption.
  - intros order. destruct H as [HL HR]. split; [rewrite !get_dag_length; exact HL|].
    intros u v. destruct (Nat.lt_ge_cases u (length g)) as [L|L].
    + rewrite !row_get_dag by lia. rewrite !filter_In, HR. reflexivity.
    + unfold row. rewrite !nth_overflow by (rewrite get_dag_length; lia). reflexivity.
Qed.

(** * C02: the permutation action *)

Section Perm.
Context (n : nat) (p : list nat) (Hp : Permutation p (seq 0 n)).

Lemma perm_length : length p = n.
Proof. rewrite (Permutation_length Hp). apply seq_length. Qed.

Lemma perm_NoDup : NoDup p.
Proof. apply (Permutation_NoDup (Permutation_sym Hp)). apply seq_NoDup. Qed.

Lemma perm_In (k : nat) : In k p <-> k < n.
Proof.
  split.
  - intros H. apply (Permutation_in _ Hp) in H. apply in_seq in H. lia.
  - intros H. apply (Permutation_in _ (Permutation_sym Hp)). apply in_seq. lia.
Qed.

Lemma perm_lt (i : nat) : i < n -> nthn p i < n.
Proof. intros H. apply perm_In. unfold nthn. apply nth_In. rewrite perm_length. exact H. Qed.

Lemma perm_inj (i j : nat) : i < n -> j < n -> nthn p i = nthn p j -> i = j.
Proof.
  intros Hi Hj E. unfold nthn in E.
  apply (proj1 (NoDup_nth p 0) perm_NoDup); rewrite ?perm_length; assumption.
Qed.

Lemma index_of_In (l : list nat) (k : nat) :
  In k l -> index_of k l < length l /\ nthn l (index_of k l) = k.
Proof.
  induction l as [|a l IH]; intros H; [destruct H|].
  simpl. destruct (Nat.eqb_spec a k) as [E|Ne].
  - split; [lia|]. exact E.
  - destruct H as [E|H]; [contradiction|]. destruct (IH H) as [H1 H2]. split; [lia|exact H2].
Qed.

Lemma index_of_nth (l : list nat) (i : nat) :
  NoDup l -> i < length l -> index_of (nthn l i) l = i.
Proof.
  intros Hnd Hi.
  assert (Hin : In (nthn l i) l) by (unfold nthn; apply nth_In; exact Hi).
  destruct (index_of_In l _ Hin) as [H1 H2].
  unfold nthn in H2. apply (proj1 (NoDup_nth l 0) Hnd); assumption.
Qed.

Lemma perm_index_lt (k : nat) : k < n -> index_of k p < n.
Proof.
  intros H. pose proof (index_of_In p k (proj2 (perm_In k) H)) as [H1 _].
  rewrite perm_length in H1. exact H1.
Qed.

Lemma perm_index_nth (k : nat) : k < n -> nthn p (index_of k p) = k.
Proof. intros H. apply index_of_In. apply perm_In. exact H. Qed.

Lemma perm_index_of (i : nat) : i < n -> index_of (nthn p i) p = i.
Proof. intros H. apply index_of_nth; [exact perm_NoDup | rewrite perm_length; exact H]. Qed.

Lemma perm_vec_length {A} (d : A) (v : list A) : length (perm_vec d p v) = n.
Proof. unfold perm_vec. rewrite map_length, seq_length. exact perm_length. Qed.

(** Characterisation of [perm_vec]: entry p[i] of the new vector is entry i of the old one. *)
Theorem perm_vec_nth {A} (d : A) (v : list A) (i : nat) :
  i < n -> nth (nthn p i) (perm_vec d p v) d = nth i v d.
Proof.
  intros Hi. unfold perm_vec. rewrite perm_length.
  rewrite nth_map_seq by (apply perm_lt; exact Hi). rewrite perm_index_of by exact Hi. reflexivity.
Qed.

(** ... and, read the other way, entry k of the new vector is entry p^-1[k] of the old one. *)
Lemma perm_vec_nth_inv {A} (d : A) (v : list A) (k : nat) :
  k < n -> nth k (perm_vec d p v) d = nth (index_of k p) v d.
Proof.
  intros Hk. unfold perm_vec. rewrite perm_length.
  apply (nth_map_seq (fun k0 => nth (index_of k0 p) v d)). exact Hk.
Qed.

Lemma perm_graph_length (g : graph) : length (perm_graph p g) = n.
Proof. unfold perm_graph. rewrite map_length, seq_length. exact perm_length. Qed.

Theorem perm_graph_row (g : graph) (i : nat) :
  i < n -> row (perm_graph p g) (nthn p i) = map (nthn p) (row g i).
Proof.
  intros Hi. unfold row at 1, perm_graph. rewrite perm_length.
  rewrite nth_map_seq by (apply perm_lt; exact Hi). rewrite perm_index_of by exact Hi. reflexivity.
Qed.

Lemma perm_graph_wf (g : graph) : length g = n -> wf_graph g -> wf_graph (perm_graph p g).
Proof.
  intros HL Hwf u v Hin. rewrite perm_graph_length.
  pose proof (row_nonempty_lt _ _ _ Hin) as Hu. rewrite perm_graph_length in Hu.
  rewrite <- (perm_index_nth u Hu) in Hin. rewrite perm_graph_row in Hin by (apply perm_index_lt; exact Hu).
  apply in_map_iff in Hin. destruct Hin as [w [<- Hw]]. apply perm_lt.
  rewrite <- HL. exact (Hwf _ _ Hw).
Qed.

(** ** Hop distances *)

Theorem reachk_equivariant (g : graph) (src : list bool) (k v : nat) :
  length g = n -> wf_graph g -> v < n ->
  (reachk (perm_graph p g) (perm_vecb p src) k (nthn p v) <-> reachk g src k v).
Proof.
  intros HL Hwf. revert v. induction k as [|k IH]; intros v Hv.
  - simpl. unfold nthb, perm_vecb. rewrite perm_vec_nth by exact Hv. reflexivity.
  - simpl. split.
    + intros [u' [Hr Hin]].
      pose proof (row_nonempty_lt _ _ _ Hin) as Hu. rewrite perm_graph_length in Hu.
      rewrite <- (perm_index_nth u' Hu) in Hr, Hin.
      pose proof (perm_index_lt u' Hu) as Hu0.
      apply IH in Hr; [|exact Hu0]. rewrite perm_graph_row in Hin by exact Hu0.
      apply in_map_iff in Hin. destruct Hin as [w [E Hw]].
      assert (Hwn : w < n) by (rewrite <- HL; exact (Hwf _ _ Hw)).
      apply perm_inj in E; [|assumption|assumption]. subst w.
      exists (index_of u' p). split; assumption.
    + intros [u [Hr Hin]].
      assert (Hu : u < n) by (rewrite <- HL; exact (row_nonempty_lt _ _ _ Hin)).
      exists (nthn p u). split; [apply IH; assumption|].
      rewrite perm_graph_row by exact Hu. apply in_map. exact Hin.
Qed.

Lemma hop_equivariant (g : graph) (src : list bool) (k v : nat) :
  length g = n -> wf_graph g -> v < n ->
  (hop (perm_graph p g) (perm_vecb p src) (nthn p v) k <-> hop g src v k).
Proof.
  intros HL Hwf Hv. unfold hop. rewrite reachk_equivariant by assumption.
  split; intros [H1 H2]; split; auto; intros j Hj Hr; apply (H2 j Hj).
  - apply (proj2 (reachk_equivariant g src j v HL Hwf Hv)). exact Hr.
  - apply (proj1 (reachk_equivariant g src j v HL Hwf Hv)). exact Hr.
Qed.

End Perm.

(** The distances returned by [bfs] are >= -1 (not part of BfsProofs.bfs_exact). *)
Lemma bfs_loop_range (g : graph) (src : list bool) :
  forall fuel r reach dist dist',
    Inv g src r reach dist ->
    bfs_loop fuel g (Z.of_nat (S r)) reach dist = Some dist' ->
    forall v, v < length g -> (-1 <= nthz dist' v)%Z.
Proof.
  induction fuel as [|f IH]; intros r reach dist dist' HI Hb v Hv; [discriminate|].
  cbn [bfs_loop] in Hb.
  destruct (existsb (fun b : bool => b) (frontier g reach)) eqn:E.
  - replace (Z.of_nat (S r) + 1)%Z with (Z.of_nat (S (S r))) in Hb by lia.
    exact (IH _ _ _ _ (inv_step _ _ _ _ _ HI) Hb v Hv).
  - injection Hb as <-. destruct (nthb reach v) eqn:Er.
    + destruct (inv_dist_t _ _ _ _ _ HI v Hv Er) as [k [Hk _]]. lia.
    + rewrite (inv_dist_f _ _ _ _ _ HI v Hv Er). lia.
Qed.

Lemma bfs_range (g : graph) (src : list bool) (dist : list Z) :
  length src = length g -> bfs g src = Some dist ->
  forall v, v < length g -> (-1 <= nthz dist v)%Z.
Proof.
  intros Hs Hb. unfold bfs in Hb. change 1%Z with (Z.of_nat (S 0)) in Hb.
  exact (bfs_loop_range g src _ _ _ _ _ (inv_init g src Hs) Hb).
Qed.

Theorem bfs_equivariant (n : nat) (p : list nat) (g : graph) (src : list bool) (dist : list Z) :
  Permutation p (seq 0 n) -> length g = n -> wf_graph g -> length src = n ->
  bfs g src = Some dist ->
  bfs (perm_graph p g) (perm_vecb p src) = Some (perm_vecz p dist).
Proof.
  intros Hp HL Hwf Hs Hb.
  destruct (bfs_exact g src) as [dist0 [Hb0 [Hl0 Hf0]]]; [lia|].
  rewrite Hb in Hb0. injection Hb0 as <-.
  assert (Hs' : length (perm_vecb p src) = length (perm_graph p g)).
  { unfold perm_vecb. rewrite (perm_vec_length n p Hp), (perm_graph_length n p Hp). reflexivity. }
  destruct (bfs_exact (perm_graph p g) (perm_vecb p src) Hs') as [dist' [Hb' [Hl' Hf']]].
  rewrite Hb'. f_equal. rewrite (perm_graph_length n p Hp) in Hl', Hf'.
  apply nth_ext with (d := 0%Z) (d' := 0%Z).
  - unfold perm_vecz. rewrite (perm_vec_length n p Hp). exact Hl'.
  - intros w Hw. rewrite Hl' in Hw.
    rewrite <- (perm_index_nth n p Hp w Hw).
    pose proof (perm_index_lt n p Hp w Hw) as Hv. set (v := index_of w p) in *.
    unfold perm_vecz. rewrite (perm_vec_nth n p Hp) by exact Hv.
    fold (nthz dist' (nthn p v)). fold (nthz dist v).
    pose proof (bfs_range g src dist ltac:(lia) Hb v ltac:(lia)) as Hrange.
    destruct (Hf0 v ltac:(lia)) as [Hk0 Hm0].
    destruct (Hf' (nthn p v) (perm_lt n p Hp v Hv)) as [Hk' Hm'].
    destruct (Z.eq_dec (nthz dist v) (-1)%Z) as [E|Ne].
    + rewrite E. apply Hm'. intros k Hr.
      apply (proj1 (reachk_equivariant n p Hp g src k v HL Hwf Hv)) in Hr.
      exact (proj1 Hm0 E k Hr).
    + assert (Ek : nthz dist v = Z.of_nat (Z.to_nat (nthz dist v))) by lia.
      rewrite Ek. apply Hk'. apply (proj2 (hop_equivariant n p Hp g src _ v HL Hwf Hv)).
      apply Hk0. exact Ek.
Qed.

(** ** get_dag *)

Theorem get_dag_equivariant (n : nat) (p : list nat) (g : graph) (order : list Z) (i j : nat) :
  Permutation p (seq 0 n) -> length g = n -> wf_graph g -> length order = n ->
  i < n -> j < n ->
  (In (nthn p j) (row (get_dag (perm_graph p g) (perm_vecz p order)) (nthn p i)) <->
   In j (row (get_dag g order) i)).
Proof.
  intros Hp HL Hwf Ho Hi Hj.
  rewrite (get_dag_exact (perm_graph p g)).
  - rewrite (get_dag_exact g order i j Hwf) by lia.
    rewrite (perm_graph_row n p Hp) by exact Hi.
    unfold nthz, perm_vecz. rewrite !(perm_vec_nth n p Hp) by assumption.
    split; intros [H1 H2]; (split; [|exact H2]).
    + apply in_map_iff in H1. destruct H1 as [w [E Hw]].
      assert (Hwn : w < n) by (rewrite <- HL; exact (Hwf _ _ Hw)).
      apply (perm_inj n p Hp) in E; [subst w; exact Hw|assumption|assumption].
    + apply in_map. exact H1.
  - apply (perm_graph_wf n p Hp); assumption.
  - unfold perm_vecz. rewrite (perm_vec_length n p Hp), (perm_graph_length n p Hp). reflexivity.
  - rewrite (perm_graph_length n p Hp). apply (perm_lt n p Hp). exact Hi.
Qed.

(** ** Linear algebra *)

Lemma sumq_Permutation (u v : list Q) : Permutation u v -> (sumq u == sumq v)%Q.
Proof.
  intros H; induction H as [|x l l' H IH|x y l|l l' l'' H1 IH1 H2 IH2]; simpl.
  - reflexivity.
  - rewrite IH. reflexivity.
  - ring.
  - rewrite IH1. exact IH2.
Qed.

Lemma perm_vec_Permutation {A} (n : nat) (p : list nat) (d : A) (v : list A) :
  Permutation p (seq 0 n) -> length v = n -> Permutation (perm_vec d p v) v.
Proof.
  intros Hp Hv. unfold perm_vec. rewrite (perm_length n p Hp).
  apply Permutation_trans with (map (fun k => nth (index_of k p) v d) p).
  - apply Permutation_map. apply Permutation_sym. exact Hp.
  - replace (map (fun k => nth (index_of k p) v d) p) with v; [apply Permutation_refl|].
    apply nth_ext with (d := d) (d' := d).
    + rewrite map_length, (perm_length n p Hp). exact Hv.
    + intros i Hi. rewrite Hv in Hi.
      rewrite (nth_map_lt (fun k => nth (index_of k p) v d) p i 0 d)
        by (rewrite (perm_length n p Hp); exact Hi).
      fold (nthn p i). rewrite (perm_index_of n p Hp) by exact Hi. reflexivity.
Qed.

Theorem sum_perm (n : nat) (p : list nat) (v : list Q) :
  Permutation p (seq 0 n) -> length v = n -> (sumq (perm_vecq p v) == sumq v)%Q.
Proof. intros Hp Hv. apply sumq_Permutation. apply (perm_vec_Permutation n); assumption. Qed.

Lemma perm_bip_row (nr : nat) (pr pc : list nat) (b : wrows) (i : nat) :
  Permutation pr (seq 0 nr) -> i < nr ->
  nth (nthn pr i) (perm_bip pr pc b) [] =
  map (fun e : nat * Q => (nthn pc (fst e), snd e)) (nth i b []).
Proof.
  intros Hp Hi. unfold perm_bip. rewrite (perm_length nr pr Hp).
  rewrite nth_map_seq by (apply (perm_lt nr pr Hp); exact Hi).
  rewrite (perm_index_of nr pr Hp) by exact Hi. reflexivity.
Qed.

Lemma wf_rows_nth (nc : nat) (b : wrows) (i : nat) (e : nat * Q) :
  wf_rows nc b -> In e (nth i b []) -> fst e < nc.
Proof.
  intros Hwf He. destruct (Nat.lt_ge_cases i (length b)) as [L|L].
  - unfold wf_rows in Hwf. rewrite Forall_forall in Hwf. specialize (Hwf _ (nth_In b [] L)).
    rewrite Forall_forall in Hwf. exact (Hwf _ He).
  - rewrite nth_overflow in He by exact L. destruct He.
Qed.

(** (P_r B P_c^T)(P_c x) = P_r (B x), term by term (Leibniz equality, not only [==]). *)
Theorem matvec_perm_bip (nr nc : nat) (pr pc : list nat) (b : wrows) (x : list Q) :
  Permutation pr (seq 0 nr) -> Permutation pc (seq 0 nc) -> wf_rows nc b ->
  matvec (perm_bip pr pc b) (perm_vecq pc x) = perm_vecq pr (matvec b x).
Proof.
  intros Hpr Hpc Hwf. unfold matvec at 1, perm_bip, perm_vecq, perm_vec at 2.
  rewrite map_map. apply map_ext. intros k.
  set (r := nth (index_of k pr) b []).
  assert (Er : nth (index_of k pr) (matvec b x) 0%Q =
               sumq (map (fun e : nat * Q => (snd e * nthq x (fst e))%Q) r)).
  { unfold matvec, r.
    exact (map_nth (fun r0 : wrow => sumq (map (fun e : nat * Q => (snd e * nthq x (fst e))%Q) r0))
                   b [] (index_of k pr)). }
  rewrite Er, map_map. f_equal. apply map_ext_in. intros e He. cbn [fst snd]. f_equal.
  unfold nthq. apply (perm_vec_nth nc pc Hpc). exact (wf_rows_nth nc b _ e Hwf He).
Qed.

Theorem matvec_perm (n : nat) (p : list nat) (a : wrows) (x : list Q) :
  Permutation p (seq 0 n) -> wf_rows n a ->
  matvec (perm_wrows p a) (perm_vecq p x) = perm_vecq p (matvec a x).
Proof. intros Hp Hwf. apply (matvec_perm_bip n n); assumption. Qed.

(** Pointwise operations commute with renumbering. *)
Lemma map2_map_seq {A B C} (f : A -> B -> C) (fa : nat -> A) (fb : nat -> B) (l : list nat) :
  map2 f (map fa l) (map fb l) = map (fun k => f (fa k) (fb k)) l.
Proof. induction l as [|a l IH]; simpl; [reflexivity|]. f_equal. exact IH. Qed.

Theorem map2_perm {A B C} (n : nat) (p : list nat) (f : A -> B -> C) (da : A) (db : B) (dc : C)
        (u : list A) (v : list B) :
  Permutation p (seq 0 n) -> length u = n -> length v = n ->
  map2 f (perm_vec da p u) (perm_vec db p v) = perm_vec dc p (map2 f u v).
Proof.
  intros Hp Hu Hv. unfold perm_vec. rewrite map2_map_seq. apply map_ext_in. intros k Hk.
  apply in_seq in Hk. rewrite (perm_length n p Hp) in Hk.
  pose proof (perm_index_lt n p Hp k ltac:(lia)) as Hi.
  symmetry. apply nth_map2; lia.
Qed.

Theorem map_perm {A B} (n : nat) (p : list nat) (f : A -> B) (da : A) (db : B) (u : list A) :
  Permutation p (seq 0 n) -> length u = n ->
  map f (perm_vec da p u) = perm_vec db p (map f u).
Proof.
  intros Hp Hu. unfold perm_vec. rewrite map_map. apply map_ext_in. intros k Hk.
  apply in_seq in Hk. rewrite (perm_length n p Hp) in Hk.
  pose proof (perm_index_lt n p Hp k ltac:(lia)) as Hi.
  symmetry. apply nth_map_lt. lia.
Qed.

(** * C01: canonical form - equal denotations convert to equal CSR matrices *)

Lemma entry_row_filter_nz (r : wrow) (j : nat) :
  (entry_row (filter (fun e : nat * Q => qnz (snd e)) r) j == entry_row r j)%Q.
Proof.
  induction r as [|e r IH]; [reflexivity|].
  simpl filter. destruct (qnz (snd e)) eqn:E.
  - rewrite !entry_row_cons. destruct (Nat.eqb (fst e) j); [rewrite IH; reflexivity|exact IH].
  - rewrite entry_row_cons. apply qnz_false in E.
    destruct (Nat.eqb (fst e) j); [rewrite IH, E; ring|exact IH].
Qed.

Lemma row_sorted_filter (f : nat * Q -> bool) (r : wrow) : row_sorted r -> row_sorted (filter f r).
Proof.
  unfold row_sorted. induction r as [|e r IH]; simpl; intros H; [constructor|].
  inversion H as [|a l Hs Ha]; subst.
  destruct (f e); [|apply IH; exact Hs]. simpl. constructor; [apply IH; exact Hs|].
  rewrite Forall_forall in *. intros y Hy. apply Ha.
  apply in_map_iff in Hy. destruct Hy as [e' [<- He']]. apply filter_In in He'.
  apply in_map. tauto.
Qed.

Lemma row_sorted_tail_notin (e : nat * Q) (t : wrow) (k : nat) :
  row_sorted (e :: t) -> k <= fst e -> ~ In k (map fst t).
Proof.
  unfold row_sorted. simpl. intros H Hk Hin. inversion H as [|a l Hs Ha]; subst.
  rewrite Forall_forall in Ha. specialize (Ha _ Hin). lia.
Qed.

Lemma entry_row_head (e : nat * Q) (t : wrow) :
  row_sorted (e :: t) -> (entry_row (e :: t) (fst e) == snd e)%Q.
Proof.
  intros H. rewrite entry_row_cons, Nat.eqb_refl.
  rewrite (entry_row_notin t) by (apply (row_sorted_tail_notin e); [exact H|lia]). ring.
Qed.

Lemma entry_row_below (e : nat * Q) (t : wrow) (k : nat) :
  row_sorted (e :: t) -> k < fst e -> entry_row (e :: t) k = 0%Q.
Proof.
  intros H Hk. rewrite entry_row_cons.
  destruct (Nat.eqb_spec (fst e) k) as [E|Ne]; [lia|].
  apply entry_row_notin. apply (row_sorted_tail_notin e); [exact H|lia].
Qed.

Lemma row_sorted_tail (e : nat * Q) (t : wrow) : row_sorted (e :: t) -> row_sorted t.
Proof. unfold row_sorted. simpl. intros H. inversion H; assumption. Qed.

Lemma sorted_rows_eq (r1 r2 : wrow) :
  row_sorted r1 -> row_sorted r2 ->
  (forall e, In e r1 -> ~ (snd e == 0)%Q) -> (forall e, In e r2 -> ~ (snd e == 0)%Q) ->
  (forall j, (entry_row r1 j == entry_row r2 j)%Q) ->
  row_eq r1 r2.
Proof.
  revert r2; induction r1 as [|e1 t1 IH]; intros r2 S1 S2 N1 N2 HE.
  - destruct r2 as [|e2 t2]; [split; constructor|].
    exfalso. apply (N2 e2); [left; reflexivity|].
    rewrite <- (entry_row_head e2 t2 S2), <- HE. reflexivity.
  - destruct r2 as [|e2 t2].
    { exfalso. apply (N1 e1); [left; reflexivity|].
      rewrite <- (entry_row_head e1 t1 S1), HE. reflexivity. }
    destruct (Nat.lt_trichotomy (fst e1) (fst e2)) as [L|[E|L]].
    + exfalso. apply (N1 e1); [left; reflexivity|].
      rewrite <- (entry_row_head e1 t1 S1), HE, (entry_row_below e2 t2 _ S2 L). reflexivity.
    + assert (Hv : (snd e1 == snd e2)%Q).
      { rewrite <- (entry_row_head e1 t1 S1), HE, E. apply entry_row_head. exact S2. }
      assert (Ht : row_eq t1 t2).
      { apply IH.
        - exact (row_sorted_tail _ _ S1).
        - exact (row_sorted_tail _ _ S2).
        - intros e He. apply N1. right. exact He.
        - intros e He. apply N2. right. exact He.
        - intros j. specialize (HE j). rewrite !entry_row_cons in HE.
          destruct (Nat.eqb_spec (fst e1) j) as [E1|Ne1].
          + rewrite (entry_row_notin t1), (entry_row_notin t2); [reflexivity| |].
            * apply (row_sorted_tail_notin e2); [exact S2|lia].
            * apply (row_sorted_tail_notin e1); [exact S1|lia].
          + rewrite <- E in HE. destruct (Nat.eqb_spec (fst e1) j) as [E1|_]; [contradiction|].
            exact HE. }
      destruct Ht as [Hk Hvs]. split; simpl.
      * rewrite E, Hk. reflexivity.
      * constructor; assumption.
    + exfalso. apply (N2 e2); [left; reflexivity|].
      rewrite <- (entry_row_head e2 t2 S2), <- HE, (entry_row_below e1 t1 _ S1 L). reflexivity.
Qed.

Lemma Forall2_nth_intro {A} (R : list A -> list A -> Prop) (a b : list (list A)) :
  length a = length b -> (forall i, i < length a -> R (nth i a []) (nth i b [])) -> Forall2 R a b.
Proof.
  revert b; induction a as [|x a IH]; intros [|y b] HL H; simpl in HL; try discriminate; constructor.
  - apply (H 0). simpl. lia.
  - apply IH; [lia|]. intros i Hi. apply (H (S i)). simpl. lia.
Qed.

Lemma nth_eliminate_zeros (rows : wrows) (i : nat) :
  nth i (eliminate_zeros rows) [] = filter (fun e : nat * Q => qnz (snd e)) (nth i rows []).
Proof.
  unfold eliminate_zeros.
  apply (nth_map_nil (fun r : wrow => filter (fun e : nat * Q => qnz (snd e)) r)). reflexivity.
Qed.

Lemma entry_eliminate_zeros (rows : wrows) (i j : nat) :
  (entry (eliminate_zeros rows) i j == entry rows i j)%Q.
Proof. unfold entry. rewrite nth_eliminate_zeros. apply entry_row_filter_nz. Qed.

(** Two containers (any of Dense / Coo / Csc / Lil) of the same shape standing for the same matrix
    convert to the same CSR matrix once stored zeros are dropped: same column lists, [==] values.
    ([eliminate_zeros] is needed: COO duplicates that cancel stay stored, see the example below.) *)
Theorem to_csr_canonical (c1 c2 : container) :
  is_csr c1 = false -> is_csr c2 = false ->
  wf_shape c1 -> wf_shape c2 -> canonical c1 -> canonical c2 ->
  c_nrow c1 = c_nrow c2 -> c_ncol c1 = c_ncol c2 ->
  (forall i j, (den c1 i j == den c2 i j)%Q) ->
  fst (to_csr c1) = fst (to_csr c2) /\
  rows_eq (eliminate_zeros (snd (to_csr c1))) (eliminate_zeros (snd (to_csr c2))).
Proof.
  intros K1 K2 W1 W2 C1 C2 Hr Hc Hden.
  destruct (to_csr_shape c1) as [Sc1 Sr1]. destruct (to_csr_shape c2) as [Sc2 Sr2].
  split; [congruence|].
  pose proof (to_csr_sorted c1 K1 C1) as So1. pose proof (to_csr_sorted c2 K2 C2) as So2.
  unfold rows_eq. apply Forall2_nth_intro.
  - unfold eliminate_zeros. rewrite !map_length.
    exact (eq_trans Sr1 (eq_trans Hr (eq_sym Sr2))).
  - intros i Hi. unfold eliminate_zeros in Hi. rewrite map_length in Hi.
    rewrite !nth_eliminate_zeros. apply sorted_rows_eq.
    + apply row_sorted_filter. unfold rows_sorted in So1. rewrite Forall_forall in So1.
      apply So1. apply nth_In. exact Hi.
    + apply row_sorted_filter. unfold rows_sorted in So2. rewrite Forall_forall in So2.
      apply So2. apply nth_In.
      exact (eq_ind _ (fun m => i < m) Hi _ (eq_trans Sr1 (eq_trans Hr (eq_sym Sr2)))).
    + intros e He. apply filter_In in He. apply qnz_true. tauto.
    + intros e He. apply filter_In in He. apply qnz_true. tauto.
    + intros j. rewrite !entry_row_filter_nz.
      change (entry (snd (to_csr c1)) i j == entry (snd (to_csr c2)) i j)%Q.
      rewrite !to_csr_denotation by assumption. apply Hden.
Qed.

(** Without [eliminate_zeros] the statement is false: a COO matrix whose duplicates cancel keeps a
    stored zero that the dense array of the same values does not have. *)
Lemma to_csr_canonical_needs_eliminate_zeros :
  exists c1 c2,
    is_csr c1 = false /\ is_csr c2 = false /\ wf_shape c1 /\ wf_shape c2 /\
    c_nrow c1 = c_nrow c2 /\ c_ncol c1 = c_ncol c2 /\
    (forall i j, (den c1 i j == den c2 i j)%Q) /\
    map (map fst) (snd (to_csr c1)) <> map (map fst) (snd (to_csr c2)).
Proof.
  exists (Coo 1 1 [(0, 0, 1%Q); (0, 0, (-1)%Q)]), (Dense [[0%Q]]).
  repeat split; try discriminate.
  - repeat constructor.
  - repeat constructor.
  - intros [|i] [|j]; try reflexivity; simpl; unfold nthq; try destruct i; try destruct j; reflexivity.
Qed.

(** A dense array never produces a stored zero. *)
Lemma eliminate_zeros_dense (rows : list (list Q)) :
  eliminate_zeros (snd (to_csr (Dense rows))) = snd (to_csr (Dense rows)).
Proof.
  cbn [to_csr snd]. unfold eliminate_zeros. rewrite map_map. apply map_ext. intros r.
  unfold dense_row. apply filter_all. intros e He. apply filter_In in He. tauto.
Qed.

(** * C01: CSR with shuffled rows (unsorted indices) has the same denotation and pattern *)

Lemma entry_row_Permutation (r r' : wrow) (j : nat) :
  Permutation r r' -> (entry_row r j == entry_row r' j)%Q.
Proof.
  intros H. unfold entry_row. apply sumq_Permutation. apply Permutation_map. apply perm_filter. exact H.
Qed.

Lemma Forall2_nth_elim {A} (R : list A -> list A -> Prop) (a b : list (list A)) (i : nat) :
  R [] [] -> Forall2 R a b -> R (nth i a []) (nth i b []).
Proof.
  intros H0 H. revert i; induction H as [|x y a b Hxy Hab IH]; intros [|i]; simpl; auto.
Qed.

Theorem csr_shuffle_invariant (rows rows' : wrows) :
  Forall2 (@Permutation (nat * Q)) rows rows' ->
  (forall i j, (entry rows i j == entry rows' i j)%Q) /\
  same_rows (pattern rows) (pattern rows').
Proof.
  intros H. split.
  - intros i j. unfold entry. apply entry_row_Permutation.
    apply (Forall2_nth_elim (@Permutation (nat * Q))); [constructor|exact H].
  - split.
    + rewrite !pattern_length. clear -H. induction H; simpl; auto.
    + intros u v. rewrite !row_pattern.
      assert (HP : Permutation (nth u rows []) (nth u rows' []))
        by (apply (Forall2_nth_elim (@Permutation (nat * Q))); [constructor|exact H]).
      split; apply Permutation_in; apply Permutation_map; apply perm_filter;
        [exact HP | apply Permutation_sym; exact HP].
Qed.

Print Assumptions block_denotation.
Print Assumptions fit_bipartite_eq_block.
Print Assumptions to_csr_denotation.
Print Assumptions to_csr_canonical.
Print Assumptions bfs_equivariant.
Print Assumptions get_dag_equivariant.
Print Assumptions matvec_perm_bip.

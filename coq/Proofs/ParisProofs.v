(** Proofs about Model/Paris.v (property C07: the hierarchical algorithms return a valid dendrogram).

    1. [paris_rows_valid]: for ANY rounding, any input, with or without the clamp, a run that ends normally returns
       rows that form a valid dendrogram over n leaves (component-joining rows included).
    2. [paris_next_cluster]: next_cluster = n + number of merges along the run.
    3. [merge_bookkeeping], [merge_symmetric], [init_symmetric]: sizes and weights add, the neighbour maps stay
       symmetric (Leibniz equality of the stored weights) for any rounding.
    4. [paris_clamped_hmono]: the proposed repair of D25 (clamp) gives [hmono] for any rounding. *)
From Coq Require Import Permutation Lia QArith Lqa.
From SKN Require Import Base.Util Model.Dendrogram Model.Cuts Model.Hierarchy Model.Paris Proofs.DendroBase Proofs.HierarchyBase.
Set Warnings "-deprecated-hint-without-locality".

(** * Small list facts *)
Lemma aremove_app_in {A} k (l1 l2 : list (nat * A)) v :
  alookup k l1 = Some v -> aremove k (l1 ++ l2) = aremove k l1 ++ l2.
Proof.
  induction l1 as [|[k' v'] t IH]; simpl; [discriminate|].
  destruct (Nat.eqb k k'); [reflexivity|]. intros H. simpl. f_equal. now apply IH.
Qed.

Lemma nth_error_snoc_cases {A} (l : list A) x t r :
  nth_error (l ++ [x]) t = Some r -> (t < length l /\ nth_error l t = Some r) \/ (t = length l /\ r = x).
Proof.
  intros H. destruct (Nat.lt_ge_cases t (length l)) as [Hlt|Hge].
  - left. split; [exact Hlt|]. now rewrite nth_error_app1 in H.
  - right. rewrite nth_error_app2 in H by exact Hge.
    destruct (t - length l) as [|d] eqn:E; simpl in H.
    + split; [lia | congruence].
    + destruct d; discriminate.
Qed.

Lemma rev_cons_inv {A} (l : list A) x tl : rev l = x :: tl -> l = rev tl ++ [x].
Proof. intros H. rewrite <- (rev_involutive l), H. reflexivity. Qed.

(** * The static invariant: rows done so far and the dict of live clusters *)
Record rinv (n : nat) (done : dendrogram) (L : list (nat * nat)) : Prop := {
  ri_nd : NoDup (flat_map children done);
  ri_lt : ids_lt n done;
  ri_sz : sizes_add n done;
  ri_linv : linv n done L;
  ri_ok : sizes_ok n done L }.

Lemma linv_perm k done L L' : Permutation L L' -> linv k done L -> linv k done L'.
Proof.
  intros P (H1 & H2 & H3).
  assert (PK : Permutation (akeys L) (akeys L')) by (apply Permutation_map; exact P).
  split; [|split].
  - exact (Permutation_NoDup PK H1).
  - intros x. rewrite <- H2. split; intros Hx.
    + exact (Permutation_in _ (Permutation_sym PK) Hx).
    + exact (Permutation_in _ PK Hx).
  - exact H3.
Qed.

Lemma rinv_perm n done L L' : Permutation L L' -> rinv n done L -> rinv n done L'.
Proof.
  intros P [H1 H2 H3 H4 H5]. split; try assumption.
  - exact (linv_perm _ _ _ _ P H4).
  - intros x s Hin. apply (H5 x s). exact (Permutation_in _ (Permutation_sym P) Hin).
Qed.

Lemma rinv_ext n done L i j h si sj :
  rinv n done L -> alookup i L = Some si -> alookup j L = Some sj -> i <> j ->
  rinv n (done ++ [(i, j, h, si + sj)]) (aremove j (aremove i L) ++ [(n + length done, si + sj)]).
Proof.
  intros [Hnd Hlt Hsz Hlinv Hok] Hi Hj Hne.
  assert (Hstep := valid_run_step n done L (i, j, h, si + sj) Hlinv si sj Hi Hj Hne (si + sj)).
  unfold r_left, r_right in Hstep. simpl in Hstep.
  destruct Hlinv as (Hndk & Hkeys & Hch).
  assert (Hik := alookup_key _ _ _ Hi). assert (Hjk := alookup_key _ _ _ Hj).
  apply Hkeys in Hik. apply Hkeys in Hjk. destruct Hik as [Hi1 Hi2]. destruct Hjk as [Hj1 Hj2].
  assert (Esi := Hok _ _ (alookup_In _ _ _ Hi)). assert (Esj := Hok _ _ (alookup_In _ _ _ Hj)).
  split.
  - rewrite flat_map_app. simpl. unfold r_left, r_right. simpl.
    replace (flat_map children done ++ [i; j]) with ((flat_map children done ++ [i]) ++ [j])
      by (rewrite <- app_assoc; reflexivity).
    apply NoDup_snoc; [apply NoDup_snoc; assumption|].
    rewrite in_app_iff. simpl. intros [Hc|[Hc|[]]]; [tauto | congruence].
  - intros t r Hr. apply nth_error_snoc_cases in Hr. destruct Hr as [[Ht Hr]|[-> ->]].
    + exact (Hlt t r Hr).
    + unfold r_left, r_right. simpl. split; assumption.
  - intros t r Hr. apply nth_error_snoc_cases in Hr. destruct Hr as [[Ht Hr]|[-> ->]].
    + destruct (Hlt t r Hr) as [Hl Hrr]. rewrite !csize_app by lia. exact (Hsz t r Hr).
    + unfold r_left, r_right, r_size. simpl. rewrite !csize_app by lia. congruence.
  - exact Hstep.
  - intros x sx Hin. apply in_app_iff in Hin. destruct Hin as [Hin|[Hin|[]]].
    + apply aremove_In in Hin. apply aremove_In in Hin.
      assert (Hx : In x (akeys L)) by (unfold akeys; apply in_map_iff; exists (x, sx); split; [reflexivity|exact Hin]).
      apply Hkeys in Hx. rewrite csize_app by lia. exact (Hok _ _ Hin).
    + injection Hin as E1 E2. subst x sx. symmetry.
      apply (csize_node n (done ++ [(i, j, h, si + sj)]) (length done) (i, j, h, si + sj)).
      apply nth_error_app_length.
Qed.

(** * One step of the loop, classified *)
Inductive step_kind (R : rounding) (clamp : bool) (st st' : Paris.pstate) : Prop :=
| sk_same :
    p_ag st' = p_ag st -> p_rows st' = p_rows st -> p_comps st' = p_comps st -> p_hgt st' = p_hgt st ->
    step_kind R clamp st st'
| sk_comp (node s : nat) :
    alookup node (ag_size (p_ag st)) = Some s ->
    ag_next (p_ag st') = ag_next (p_ag st) ->
    ag_size (p_ag st') = aremove node (ag_size (p_ag st)) ->
    p_rows st' = p_rows st -> p_comps st' = p_comps st ++ [(node, s)] -> p_hgt st' = p_hgt st ->
    ag_nb (p_ag st') = ag_nb (p_ag st) ->
    step_kind R clamp st st'
| sk_merge (node nn : nat) (h0 : Q) (s1 s2 : nat) :
    alookup node (ag_size (p_ag st)) = Some s1 ->
    alookup nn (ag_size (p_ag st)) = Some s2 ->
    ag_merge R (p_ag st) node nn = Ok (p_ag st') ->
    p_rows st' = p_rows st ++
      [(node, nn, if clamp then qmaxq h0 (qmaxq (getq (p_hgt st) node) (getq (p_hgt st) nn)) else h0, s1 + s2)] ->
    p_comps st' = p_comps st ->
    p_hgt st' = (ag_next (p_ag st),
                 if clamp then qmaxq h0 (qmaxq (getq (p_hgt st) node) (getq (p_hgt st) nn)) else h0) :: p_hgt st ->
    step_kind R clamp st st'.

Lemma paris_step_cases R clamp st :
  match paris_step R clamp st with
  | Running st' => step_kind R clamp st st'
  | Finished st' => st' = st /\ ag_size (p_ag st) = []
  | Failed _ => True
  end.
Proof.
  unfold paris_step.
  destruct (p_chain st) as [|node chain] eqn:Ech.
  - destruct (ag_size (p_ag st)) as [|[node s] sz] eqn:Esz.
    + split; reflexivity.
    + apply sk_same; reflexivity.
  - destruct (alookup node (ag_nb (p_ag st))) as [row|] eqn:Erow; [|exact I].
    destruct (filter (fun c => negb (Nat.eqb c node)) (akeys row)) as [|c0 nbrs] eqn:Enb.
    + destruct (alookup node (ag_size (p_ag st))) as [s|] eqn:Es; [|exact I].
      apply (sk_comp R clamp _ _ node s); simpl; try reflexivity. exact Es.
    + match goal with |- context [nn_search ?a ?b] => destruct (nn_search a b) as [nn mx] eqn:Enn end.
      destruct chain as [|lst chain'].
      * apply sk_same; reflexivity.
      * destruct (Nat.eqb lst nn) eqn:Eeq.
        -- destruct (alookup node (ag_size (p_ag st))) as [s1|] eqn:Es1; [|exact I].
           destruct (alookup nn (ag_size (p_ag st))) as [s2|] eqn:Es2; [|exact I].
           destruct (ag_merge R (p_ag st) node nn) as [g'|e] eqn:Em; [|exact I].
           apply (sk_merge R clamp _ _ node nn (match mx with Some m => r64 R (1 / m) | None => 0%Q end) s1 s2);
             simpl; try reflexivity; assumption.
        -- apply sk_same; reflexivity.
Qed.

Lemma paris_run_ind R clamp (P : Paris.pstate -> Prop) :
  (forall st st', P st -> step_kind R clamp st st' -> P st') ->
  forall fuel st st', P st -> paris_run R clamp fuel st = Some (Ok st') -> P st' /\ ag_size (p_ag st') = [].
Proof.
  intros Hstep. induction fuel as [|fuel IH]; intros st st' HP H; simpl in H; [discriminate|].
  assert (C := paris_step_cases R clamp st).
  destruct (paris_step R clamp st) as [st1|st1|e].
  - apply (IH st1); [exact (Hstep _ _ HP C) | exact H].
  - inversion H; subst st'. destruct C as [-> E]. split; assumption.
  - discriminate.
Qed.

(** * What [ag_merge] returns *)
Lemma ag_merge_inv R g a b g' :
  ag_merge R g a b = Ok g' ->
  exists ra rb s1 s2,
    alookup a (ag_nb g) = Some ra /\ alookup b (ag_nb g) = Some rb /\
    alookup a (ag_size g) = Some s1 /\ alookup b (ag_size g) = Some s2 /\ a <> b /\
    g' = {| ag_next := S (ag_next g);
            ag_nb := map (fun p => (fst p, row_replace R a b (ag_next g) (snd p)))
                         (filter (fun p => negb (Nat.eqb (fst p) a) && negb (Nat.eqb (fst p) b)) (ag_nb g)) ++
                     [(ag_next g, (ag_next g, self_weight R a b ra rb) :: row_union R a b ra rb)];
            ag_size := aremove b (aremove a (ag_size g)) ++ [(ag_next g, s1 + s2)];
            ag_wout := aremove b (aremove a (ag_wout g)) ++ [(ag_next g, r64 R (getq (ag_wout g) a + getq (ag_wout g) b))];
            ag_win := aremove b (aremove a (ag_win g)) ++ [(ag_next g, r64 R (getq (ag_win g) a + getq (ag_win g) b))] |}.
Proof.
  unfold ag_merge. intros H.
  destruct (alookup a (ag_nb g)) as [ra|] eqn:E1; [|discriminate].
  destruct (alookup b (ag_nb g)) as [rb|] eqn:E2; [|discriminate].
  destruct (alookup a (ag_size g)) as [s1|] eqn:E3; [|discriminate].
  destruct (alookup b (ag_size g)) as [s2|] eqn:E4; [|discriminate].
  destruct (Nat.eqb a b) eqn:E5; [discriminate|]. apply Nat.eqb_neq in E5.
  exists ra, rb, s1, s2. inversion H. repeat (split; [reflexivity || assumption|]). reflexivity.
Qed.

(** * The invariant of the run *)
Record pinv (n : nat) (st : Paris.pstate) : Prop := {
  pi_next : ag_next (p_ag st) = n + length (p_rows st);
  pi_rinv : rinv n (p_rows st) (ag_size (p_ag st) ++ p_comps st);
  pi_len : length (ag_size (p_ag st)) + length (p_comps st) + length (p_rows st) = n }.

Lemma pinv_step R clamp n st st' : pinv n st -> step_kind R clamp st st' -> pinv n st'.
Proof.
  intros [Hnext Hrinv Hlen] [Hag Hrows Hcomps _ | node s Hs Hnx Hsz Hrows Hcomps _ | node nn h0 s1 s2 Hs1 Hs2 Hm Hrows Hcomps _].
  - split; rewrite ?Hag, ?Hrows, ?Hcomps; assumption.
  - split; rewrite ?Hnx, ?Hsz, ?Hrows, ?Hcomps.
    + exact Hnext.
    + refine (rinv_perm _ _ _ _ _ Hrinv).
      transitivity (((node, s) :: aremove node (ag_size (p_ag st))) ++ p_comps st).
      * apply Permutation_app_tail. apply aremove_perm. exact Hs.
      * simpl. rewrite app_assoc. apply Permutation_cons_append.
    + rewrite app_length. simpl. assert (E := aremove_length _ _ _ Hs). lia.
  - destruct (ag_merge_inv _ _ _ _ _ Hm) as (ra & rb & t1 & t2 & _ & _ & Et1 & Et2 & Hne & Eg).
    rewrite Hs1 in Et1. rewrite Hs2 in Et2. inversion Et1; inversion Et2; subst t1 t2. clear Et1 Et2.
    assert (Hs2' : alookup nn (aremove node (ag_size (p_ag st))) = Some s2)
      by (rewrite alookup_aremove_neq; [exact Hs2 | congruence]).
    split; rewrite Hrows, ?Hcomps, Eg; cbn [ag_next ag_size].
    + rewrite app_length. simpl. lia.
    + set (h := if clamp then _ else _).
      assert (Hi : alookup node (ag_size (p_ag st) ++ p_comps st) = Some s1) by (rewrite alookup_app, Hs1; reflexivity).
      assert (Hj : alookup nn (ag_size (p_ag st) ++ p_comps st) = Some s2) by (rewrite alookup_app, Hs2; reflexivity).
      assert (E := rinv_ext n _ _ node nn h s1 s2 Hrinv Hi Hj Hne).
      rewrite (aremove_app_in _ _ _ _ Hs1), (aremove_app_in _ _ _ _ Hs2') in E.
      rewrite Hnext. refine (rinv_perm _ _ _ _ _ E).
      rewrite <- !app_assoc. apply Permutation_app_head. apply Permutation_app_comm.
    + rewrite !app_length. simpl.
      assert (E1 := aremove_length _ _ _ Hs1). assert (E2 := aremove_length _ _ _ Hs2'). lia.
Qed.

Lemma akeys_map_const {A} (f : nat -> A) l : akeys (map (fun i => (i, f i)) l) = l.
Proof. unfold akeys. rewrite map_map. simpl. apply map_id. Qed.

Lemma pinv_init R n G wout win : pinv n (paris_init (ag_init R n G wout win)).
Proof.
  split; simpl.
  - lia.
  - rewrite app_nil_r. split.
    + constructor.
    + intros t r Hr. destruct t; discriminate.
    + intros t r Hr. destruct t; discriminate.
    + unfold linv. rewrite (akeys_map_const (fun _ => 1)). simpl. split; [apply seq_NoDup|]. split.
      * intros x. rewrite in_seq. lia.
      * tauto.
    + intros x s Hin. apply in_map_iff in Hin. destruct Hin as [i [E Hi]]. inversion E; subst.
      apply in_seq in Hi. rewrite csize_leaf by lia. reflexivity.
  - rewrite map_length, seq_length. lia.
Qed.

(** * Joining the components *)
Lemma join_comps_length hinf : forall cs node csz next, length (join_comps hinf node csz next cs) = length cs.
Proof. induction cs as [|[nx ns] rest IH]; intros; simpl; [reflexivity|]. now rewrite IH. Qed.

Lemma join_rinv n hinf : forall cs done node csz L,
  rinv n done L -> Permutation L ((node, csz) :: cs) ->
  exists L', rinv n (done ++ join_comps hinf node csz (n + length done) cs) L'.
Proof.
  induction cs as [|[nx ns] rest IH]; intros done node csz L Hr P; simpl.
  - rewrite app_nil_r. now exists L.
  - assert (Hndk : NoDup (akeys L)) by (destruct Hr as [_ _ _ (H & _) _]; exact H).
    assert (Hi : alookup node L = Some csz).
    { apply In_alookup; [exact Hndk|]. apply (Permutation_in _ (Permutation_sym P)). now left. }
    assert (Hj : alookup nx L = Some ns).
    { apply In_alookup; [exact Hndk|]. apply (Permutation_in _ (Permutation_sym P)). right. now left. }
    assert (Hne : node <> nx).
    { assert (PK : Permutation (akeys L) (akeys ((node, csz) :: (nx, ns) :: rest))) by (apply Permutation_map; exact P).
      apply (Permutation_NoDup PK) in Hndk. simpl in Hndk. inversion Hndk as [|? ? Hn _]; subst.
      intros E. apply Hn. rewrite E. now left. }
    assert (E := rinv_ext n done L node nx hinf csz ns Hr Hi Hj Hne).
    assert (P1 : Permutation (aremove node L) ((nx, ns) :: rest)).
    { apply (Permutation_cons_inv (a := (node, csz))). rewrite <- P. symmetry. apply aremove_perm. exact Hi. }
    assert (Hj' : alookup nx (aremove node L) = Some ns) by (rewrite alookup_aremove_neq; [exact Hj | congruence]).
    assert (P2 : Permutation (aremove nx (aremove node L)) rest).
    { apply (Permutation_cons_inv (a := (nx, ns))). rewrite <- P1. symmetry. apply aremove_perm. exact Hj'. }
    destruct (IH (done ++ [(node, nx, hinf, csz + ns)]) (n + length done) (csz + ns) _ E) as [L' HL'].
    { rewrite <- Permutation_cons_append. now constructor. }
    exists L'. rewrite app_length in HL'. simpl in HL'.
    replace (n + (length done + 1)) with (S (n + length done)) in HL' by lia.
    rewrite <- app_assoc in HL'. exact HL'.
Qed.

Lemma paris_finish_inv hinf st D :
  paris_finish hinf st = Ok D ->
  exists node cs tl, p_comps st = rev tl ++ [(node, cs)] /\
                     D = p_rows st ++ join_comps hinf node cs (ag_next (p_ag st)) (rev tl).
Proof.
  unfold paris_finish. intros H. destruct (rev (p_comps st)) as [|[node cs] tl] eqn:E; [discriminate|].
  apply rev_cons_inv in E. exists node, cs, tl. split; [exact E|]. inversion H. rewrite E, removelast_last. reflexivity.
Qed.

Lemma paris_core_inv R clamp hinf n G wout win D m t :
  paris_core R clamp hinf n G wout win = Some (Ok (D, m, t)) ->
  exists st, paris_run R clamp (paris_fuel n) (paris_init (ag_init R n G wout win)) = Some (Ok st) /\
             paris_finish hinf st = Ok D.
Proof.
  unfold paris_core. intros H.
  destruct (paris_run R clamp (paris_fuel n) (paris_init (ag_init R n G wout win))) as [[st|e]|]; try discriminate.
  destruct (paris_finish hinf st) as [D'|e] eqn:E; [|discriminate]. inversion H; subst. now exists st.
Qed.

Lemma finish_wf n hinf st D :
  pinv n st -> ag_size (p_ag st) = [] -> paris_finish hinf st = Ok D -> wf_dend n D.
Proof.
  intros [Hnext Hrinv Hlen] Hsz Hfin.
  destruct (paris_finish_inv _ _ _ Hfin) as (node & cs & tl & Ec & ED).
  rewrite Hsz in Hrinv, Hlen. simpl in Hrinv, Hlen. rewrite Ec in Hrinv, Hlen.
  rewrite Hnext in ED.
  destruct (join_rinv n hinf (rev tl) (p_rows st) node cs _ Hrinv) as [L' [H1 H2 H3 _ _]].
  { symmetry. apply Permutation_cons_append. }
  rewrite <- ED in *. split; try assumption.
  rewrite ED, app_length, join_comps_length. rewrite app_length in Hlen. simpl in Hlen. lia.
Qed.

(** * Theorem 1: the rows form a valid dendrogram *)
Theorem paris_rows_valid : forall R clamp hinf n G wout win D m t,
  paris_core R clamp hinf n G wout win = Some (Ok (D, m, t)) -> valid n D = true.
Proof.
  intros R clamp hinf n G wout win D m t H.
  destruct (paris_core_inv _ _ _ _ _ _ _ _ _ _ H) as (st & Hrun & Hfin).
  destruct (paris_run_ind R clamp (pinv n) (fun a b Ha Hs => pinv_step R clamp n a b Ha Hs) _ _ _
              (pinv_init R n G wout win) Hrun) as [Hinv Hsz].
  apply wf_valid. exact (finish_wf n hinf st D Hinv Hsz Hfin).
Qed.

Theorem paris_rows_sizes : forall R clamp hinf n G wout win D m t,
  paris_core R clamp hinf n G wout win = Some (Ok (D, m, t)) ->
  S (length D) = n /\ (forall k r, nth_error D k = Some r -> r_size r = length (leaves n D (n + k))) /\
  (D <> [] -> r_size (last D drow0) = n).
Proof.
  intros R clamp hinf n G wout win D m t H. apply paris_rows_valid in H.
  split; [exact (proj1 (valid_rows n D H))|]. split; [exact (valid_size_leaves n D H)|].
  intros Hne. unfold valid, validw in H. apply andb_true_iff in H. destruct H as [_ H].
  destruct D as [|r0 D0]; [congruence|]. apply Nat.eqb_eq in H. now rewrite sumn_repeat1 in H.
Qed.

(** * Theorem 2: next_cluster = n + number of merges *)
Theorem paris_next_cluster : forall R clamp fuel n G wout win st,
  paris_run R clamp fuel (paris_init (ag_init R n G wout win)) = Some (Ok st) ->
  ag_next (p_ag st) = n + length (p_rows st).
Proof.
  intros R clamp fuel n G wout win st Hrun.
  destruct (paris_run_ind R clamp (pinv n) (fun a b Ha Hs => pinv_step R clamp n a b Ha Hs) _ _ _
              (pinv_init R n G wout win) Hrun) as [Hinv _].
  exact (pi_next _ _ Hinv).
Qed.

(** * Theorem 4: with the clamp no merge is lower than the merges that created its children *)
Lemma qmaxq_l a b : (a <= qmaxq a b)%Q.
Proof.
  unfold qmaxq. destruct (Qle_bool a b) eqn:E.
  - now apply Qle_bool_iff.
  - apply Qle_refl.
Qed.

Lemma qmaxq_r a b : (b <= qmaxq a b)%Q.
Proof.
  unfold qmaxq. destruct (Qle_bool a b) eqn:E.
  - apply Qle_refl.
  - apply Qlt_le_weak, Qnot_le_lt. intros Hc. apply Qle_bool_iff in Hc. congruence.
Qed.

Definition hok (n : nat) (rows : dendrogram) : Prop :=
  forall t r, nth_error rows t = Some r ->
    child_height_ok n rows (r_height r) (r_left r) = true /\ child_height_ok n rows (r_height r) (r_right r) = true.

(** [p_hgt] maps every created id n + k to the height of row k (Leibniz). *)
Definition hgt_ok (n : nat) (rows : dendrogram) (hgt : list (nat * Q)) : Prop :=
  forall k r, nth_error rows k = Some r -> alookup (n + k) hgt = Some (r_height r).

Lemma cho_app n D1 D2 h c : c < n + length D1 -> child_height_ok n (D1 ++ D2) h c = child_height_ok n D1 h c.
Proof.
  intros H. unfold child_height_ok. destruct (Nat.ltb c n) eqn:E; [reflexivity|]. apply Nat.ltb_ge in E.
  rewrite nth_error_app1 by lia. reflexivity.
Qed.

Lemma hok_hmono n D : hok n D -> hmono n D = true.
Proof.
  intros H. unfold hmono. apply forallb_forall. intros r Hr. apply In_nth_error in Hr. destruct Hr as [t Ht].
  destruct (H t r Ht) as [H1 H2]. now rewrite H1, H2.
Qed.

Lemma ids_lt_snoc n rows r :
  ids_lt n rows -> r_left r < n + length rows -> r_right r < n + length rows -> ids_lt n (rows ++ [r]).
Proof.
  intros Hlt Hl Hr t r0 Ht. apply nth_error_snoc_cases in Ht. destruct Ht as [[Ht Hr0]|[-> ->]].
  - exact (Hlt t r0 Hr0).
  - split; assumption.
Qed.

Lemma hok_snoc n rows r :
  ids_lt n rows -> hok n rows -> r_left r < n + length rows -> r_right r < n + length rows ->
  child_height_ok n rows (r_height r) (r_left r) = true -> child_height_ok n rows (r_height r) (r_right r) = true ->
  hok n (rows ++ [r]).
Proof.
  intros Hlt Hok Hl Hr H1 H2 t r0 Ht. apply nth_error_snoc_cases in Ht. destruct Ht as [[Ht Hr0]|[-> ->]].
  - destruct (Hlt t r0 Hr0) as [Ha Hb]. rewrite !cho_app by lia. exact (Hok t r0 Hr0).
  - rewrite !cho_app by assumption. split; assumption.
Qed.

Lemma clamp_child n rows hgt c h :
  hgt_ok n rows hgt -> c < n + length rows -> (getq hgt c <= h)%Q -> child_height_ok n rows h c = true.
Proof.
  intros Hh Hc Hle. unfold child_height_ok. destruct (Nat.ltb c n) eqn:E; [reflexivity|]. apply Nat.ltb_ge in E.
  destruct (nth_error rows (c - n)) as [r|] eqn:Er; [|apply nth_error_None in Er; lia].
  apply Qle_bool_iff. assert (Ea := Hh _ _ Er). replace (n + (c - n)) with c in Ea by lia.
  unfold getq in Hle. rewrite Ea in Hle. exact Hle.
Qed.

Definition hinv (n : nat) (st : Paris.pstate) : Prop :=
  pinv n st /\ hok n (p_rows st) /\ hgt_ok n (p_rows st) (p_hgt st).

Lemma hinv_init R n G wout win : hinv n (paris_init (ag_init R n G wout win)).
Proof.
  split; [apply pinv_init|]. split; intros t r Hr; destruct t; discriminate.
Qed.

Lemma hinv_step R n st st' : hinv n st -> step_kind R true st st' -> hinv n st'.
Proof.
  intros (Hp & Hok & Hh) Hs. assert (Hp' := pinv_step R true n st st' Hp Hs). split; [exact Hp'|]. clear Hp'.
  destruct Hs as [Hag Hrows Hcomps Hhgt | node s Hs Hnx Hsz Hrows Hcomps Hhgt
                  | node nn h0 s1 s2 Hs1 Hs2 Hm Hrows Hcomps Hhgt].
  - rewrite Hrows, Hhgt. split; assumption.
  - rewrite Hrows, Hhgt. split; assumption.
  - rewrite Hrows, Hhgt.
    set (h := qmaxq h0 (qmaxq (getq (p_hgt st) node) (getq (p_hgt st) nn))).
    destruct Hp as [Hnext [Hnd Hlt Hsz (Hndk & Hkeys & Hch) Hsok] Hlen].
    assert (Hnode : node < n + length (p_rows st)).
    { assert (K : In node (akeys (ag_size (p_ag st) ++ p_comps st))).
      { apply (alookup_key _ _ s1). rewrite alookup_app, Hs1. reflexivity. }
      apply Hkeys in K. tauto. }
    assert (Hnn : nn < n + length (p_rows st)).
    { assert (K : In nn (akeys (ag_size (p_ag st) ++ p_comps st))).
      { apply (alookup_key _ _ s2). rewrite alookup_app, Hs2. reflexivity. }
      apply Hkeys in K. tauto. }
    split.
    + apply hok_snoc; try assumption.
      * apply (clamp_child n _ (p_hgt st)); [exact Hh | exact Hnode |].
        exact (Qle_trans _ _ _ (qmaxq_l _ _) (qmaxq_r h0 _)).
      * apply (clamp_child n _ (p_hgt st)); [exact Hh | exact Hnn |].
        exact (Qle_trans _ _ _ (qmaxq_r _ _) (qmaxq_r h0 _)).
    + intros k r Hk. apply nth_error_snoc_cases in Hk. destruct Hk as [[Hk Hr]|[-> ->]]; simpl.
      * destruct (Nat.eqb (n + k) (ag_next (p_ag st))) eqn:E; [apply Nat.eqb_eq in E; lia|]. exact (Hh k r Hr).
      * rewrite Hnext, Nat.eqb_refl. reflexivity.
Qed.

Lemma join_hok n hinf : forall cs done node csz,
  ids_lt n done -> hok n done -> node < n + length done ->
  child_height_ok n done hinf node = true ->
  (forall x, In x (akeys cs) -> x < n + length done /\ child_height_ok n done hinf x = true) ->
  hok n (done ++ join_comps hinf node csz (n + length done) cs).
Proof.
  induction cs as [|[nx ns] rest IH]; intros done node csz Hlt Hok Hnode Hcn Hcs; simpl.
  - now rewrite app_nil_r.
  - destruct (Hcs nx (or_introl eq_refl)) as [Hnx Hcx].
    set (r := (node, nx, hinf, csz + ns)).
    assert (Hok' : hok n (done ++ [r])) by (apply hok_snoc; [exact Hlt|exact Hok|exact Hnode|exact Hnx|exact Hcn|exact Hcx]).
    assert (Hlt' : ids_lt n (done ++ [r])) by (apply ids_lt_snoc; [exact Hlt|exact Hnode|exact Hnx]).
    specialize (IH (done ++ [r]) (n + length done) (csz + ns) Hlt' Hok').
    rewrite app_length in IH. simpl in IH.
    replace (n + (length done + 1)) with (S (n + length done)) in IH by lia.
    rewrite <- app_assoc in IH. apply IH.
    + lia.
    + unfold child_height_ok.
      replace (Nat.ltb (n + length done) n) with false by (symmetry; apply Nat.ltb_ge; lia).
      replace (n + length done - n) with (length done) by lia.
      rewrite nth_error_app_length. apply Qle_bool_iff. apply Qle_refl.
    + intros x Hx. destruct (Hcs x (or_intror Hx)) as [Hx1 Hx2]. split; [lia|].
      rewrite cho_app by exact Hx1. exact Hx2.
Qed.

Theorem paris_clamped_hmono : forall R hinf n G wout win D m t,
  paris_core R true hinf n G wout win = Some (Ok (D, m, t)) ->
  (forall r, In r D -> Qle (r_height r) hinf) -> hmono n D = true.
Proof.
  intros R hinf n G wout win D m t H Hle.
  destruct (paris_core_inv _ _ _ _ _ _ _ _ _ _ H) as (st & Hrun & Hfin).
  destruct (paris_run_ind R true (hinv n) (hinv_step R n) _ _ _ (hinv_init R n G wout win) Hrun)
    as [(Hp & Hok & Hh) Hsz].
  destruct (paris_finish_inv _ _ _ Hfin) as (node & cs & tl & Ec & ED).
  apply hok_hmono.
  destruct Hp as [Hnext [Hnd Hlt Hsza (Hndk & Hkeys & Hch) Hsok] Hlen].
  rewrite Hsz in Hkeys. simpl in Hkeys. rewrite Ec in Hkeys.
  assert (Hroot : forall x, In x (akeys (rev tl ++ [(node, cs)])) ->
                            x < n + length (p_rows st) /\ child_height_ok n (p_rows st) hinf x = true).
  { intros x Hx. apply Hkeys in Hx. destruct Hx as [Hx _]. split; [exact Hx|].
    unfold child_height_ok. destruct (Nat.ltb x n) eqn:E; [reflexivity|]. apply Nat.ltb_ge in E.
    destruct (nth_error (p_rows st) (x - n)) as [r|] eqn:Er; [|apply nth_error_None in Er; lia].
    apply Qle_bool_iff. apply Hle. rewrite ED. apply in_app_iff. left. exact (nth_error_In _ _ Er). }
  rewrite ED, Hnext.
  assert (Hn : In node (akeys (rev tl ++ [(node, cs)]))) by (rewrite akeys_app, in_app_iff; right; now left).
  apply join_hok; try assumption.
  - exact (proj1 (Hroot node Hn)).
  - exact (proj2 (Hroot node Hn)).
  - intros x Hx. apply Hroot. rewrite akeys_app, in_app_iff. now left.
Qed.

(** * Non-vacuity: the path graph 0-1-2-3 (one component), and two disjoint edges (components joined) *)
Definition ex_path : entries := [(0, 1, 1%Q); (1, 0, 1%Q); (1, 2, 1%Q); (2, 1, 1%Q); (2, 3, 1%Q); (3, 2, 1%Q)].
Definition ex_path_w : list Q := [(1 # 6)%Q; (2 # 6)%Q; (2 # 6)%Q; (1 # 6)%Q].

Example paris_example :
  match paris_core exact false (1000 # 1)%Q 4 ex_path ex_path_w ex_path_w with
  | Some (Ok (D, _, _)) => valid 4 D
  | _ => false
  end = true.
Proof. vm_compute. reflexivity. Qed.

Definition ex_two : entries := [(0, 1, 1%Q); (1, 0, 1%Q); (2, 3, 1%Q); (3, 2, 1%Q)].
Definition ex_two_w : list Q := [(1 # 4)%Q; (1 # 4)%Q; (1 # 4)%Q; (1 # 4)%Q].

Example paris_example_components :
  match paris_core exact true (1000 # 1)%Q 4 ex_two ex_two_w ex_two_w with
  | Some (Ok (D, _, _)) => valid 4 D && hmono 4 D && Nat.eqb (length D) 3
  | _ => false
  end = true.
Proof. vm_compute. reflexivity. Qed.

(** * Theorem 3: merge bookkeeping; the neighbour maps stay symmetric for any rounding *)
Definition nbw (g : agraph) (x y : nat) : option Q :=
  match alookup x (ag_nb g) with Some r => alookup y r | None => None end.

(** Leibniz equality of the stored weights. *)
Definition nb_symmetric (g : agraph) : Prop := forall x y, nbw g x y = nbw g y x.

(** The dict of dicts is well formed: no key twice (outer and inner), every key (outer and inner) below [ag_next]. *)
Record nb_wf (g : agraph) : Prop := {
  nw_nd : NoDup (akeys (ag_nb g));
  nw_rows : forall x r, In (x, r) (ag_nb g) -> NoDup (akeys r);
  nw_lt : forall x, In x (akeys (ag_nb g)) -> x < ag_next g;
  nw_rlt : forall x r y, In (x, r) (ag_nb g) -> In y (akeys r) -> y < ag_next g }.

Lemma getq_fresh (l : list (nat * Q)) a b new v :
  ~ In new (akeys l) -> getq (aremove b (aremove a l) ++ [(new, v)]) new = v.
Proof.
  intros Hn. unfold getq. rewrite alookup_app.
  assert (E : alookup new (aremove b (aremove a l)) = None).
  { apply alookup_None. intros Hc. apply Hn. apply akeys_aremove_In in Hc. now apply akeys_aremove_In in Hc. }
  rewrite E. simpl. now rewrite Nat.eqb_refl.
Qed.

Theorem merge_bookkeeping : forall R g a b g' sa sb,
  ag_merge R g a b = Ok g' -> alookup a (ag_size g) = Some sa -> alookup b (ag_size g) = Some sb ->
  a <> b /\ ag_next g' = S (ag_next g) /\
  ag_size g' = aremove b (aremove a (ag_size g)) ++ [(ag_next g, sa + sb)] /\
  (~ In (ag_next g) (akeys (ag_wout g)) ->
   getq (ag_wout g') (ag_next g) = r64 R (getq (ag_wout g) a + getq (ag_wout g) b)) /\
  (~ In (ag_next g) (akeys (ag_win g)) ->
   getq (ag_win g') (ag_next g) = r64 R (getq (ag_win g) a + getq (ag_win g) b)).
Proof.
  intros R g a b g' sa sb Hm Ha Hb.
  destruct (ag_merge_inv _ _ _ _ _ Hm) as (ra & rb & s1 & s2 & _ & _ & E1 & E2 & Hne & Eg).
  rewrite Ha in E1. rewrite Hb in E2. inversion E1; inversion E2; subst s1 s2. subst g'. cbn [ag_next ag_size ag_wout ag_win].
  split; [exact Hne|]. split; [reflexivity|]. split; [reflexivity|]. split; intros Hn; apply getq_fresh; exact Hn.
Qed.

(** ** Association-list facts used for the neighbour maps *)
Definition nk (a b y : nat) : bool := negb (Nat.eqb y a) && negb (Nat.eqb y b).

Lemma alookup_filter_key {A} (P : nat * A -> bool) (K : nat -> bool) y (l : list (nat * A)) :
  (forall p, P p = K (fst p)) -> alookup y (filter P l) = if K y then alookup y l else None.
Proof.
  intros HP. induction l as [|[k v] t IH]; simpl; [now destruct (K y)|].
  rewrite HP. simpl. destruct (Nat.eqb y k) eqn:E.
  - apply Nat.eqb_eq in E. subst k. destruct (K y) eqn:EK; simpl.
    + now rewrite Nat.eqb_refl.
    + rewrite IH. try rewrite EK. reflexivity.
  - destruct (K k); simpl; [rewrite E|]; exact IH.
Qed.

Lemma alookup_map_val {A B} (f : nat -> A -> B) y (l : list (nat * A)) :
  alookup y (map (fun p => (fst p, f (fst p) (snd p))) l) =
  match alookup y l with Some v => Some (f y v) | None => None end.
Proof.
  induction l as [|[k v] t IH]; simpl; [reflexivity|].
  destruct (Nat.eqb y k) eqn:E; [|exact IH]. apply Nat.eqb_eq in E. now subst k.
Qed.

Lemma alookup_map_snd {A B} (f : A -> B) y (l : list (nat * A)) :
  alookup y (map (fun p => (fst p, f (snd p))) l) = option_map f (alookup y l).
Proof.
  induction l as [|[k v] t IH]; simpl; [reflexivity|].
  destruct (Nat.eqb y k); [reflexivity | exact IH].
Qed.

Lemma akeys_map_fst {A B} (f : nat * A -> nat * B) (l : list (nat * A)) :
  (forall p, fst (f p) = fst p) -> akeys (map f l) = akeys l.
Proof. intros H. unfold akeys. rewrite map_map. apply map_ext. exact H. Qed.

Lemma In_akeys_filter {A} (P : nat * A -> bool) (l : list (nat * A)) x : In x (akeys (filter P l)) -> In x (akeys l).
Proof.
  unfold akeys. intros H. apply in_map_iff in H. destruct H as [p [E Hp]]. apply filter_In in Hp.
  apply in_map_iff. exists p. tauto.
Qed.

Lemma NoDup_akeys_filter {A} (P : nat * A -> bool) (l : list (nat * A)) : NoDup (akeys l) -> NoDup (akeys (filter P l)).
Proof.
  induction l as [|p t IH]; simpl; intros H; [constructor|]. inversion H as [|? ? Hn Hnd]; subst.
  destruct (P p); [|now apply IH]. simpl. constructor; [|now apply IH].
  intros Hc. apply Hn. exact (In_akeys_filter P t _ Hc).
Qed.

Lemma NoDup_app_intro {A} (l1 l2 : list A) :
  NoDup l1 -> NoDup l2 -> (forall x, In x l1 -> ~ In x l2) -> NoDup (l1 ++ l2).
Proof.
  induction l1 as [|a l1 IH]; simpl; intros H1 H2 Hd; [exact H2|].
  inversion H1 as [|? ? Hn Hnd]; subst. constructor.
  - rewrite in_app_iff. intros [Hc|Hc]; [tauto|]. exact (Hd a (or_introl eq_refl) Hc).
  - apply IH; [exact Hnd | exact H2 |]. intros x Hx. apply Hd. now right.
Qed.

(** ** The rows built by [merge] *)
Definition ocomb (R : rounding) (o1 o2 : option Q) : option Q :=
  match o1, o2 with
  | Some x, Some y => Some (r64 R (x + y))
  | Some x, None => Some x
  | None, Some y => Some y
  | None, None => None
  end.

Lemma alookup_row_union R a b ra rb y :
  alookup y (row_union R a b ra rb) = if nk a b y then ocomb R (alookup y ra) (alookup y rb) else None.
Proof.
  unfold row_union. set (ra' := filter (not2 a b) ra). set (rb' := filter (not2 a b) rb).
  rewrite alookup_app.
  set (F := fun (k : nat) (v : Q) => match alookup k rb' with Some w => r64 R (v + w) | None => v end).
  rewrite (map_ext _ (fun p => (fst p, F (fst p) (snd p)))).
  2: { intros [k v]. unfold F. simpl. destruct (alookup k rb'); reflexivity. }
  rewrite (alookup_map_val F). unfold F.
  assert (Ea : alookup y ra' = if nk a b y then alookup y ra else None) by (apply alookup_filter_key; reflexivity).
  assert (Eb : alookup y rb' = if nk a b y then alookup y rb else None) by (apply alookup_filter_key; reflexivity).
  rewrite (alookup_filter_key (fun p => negb (amem (fst p) ra')) (fun k => negb (amem k ra')) y rb') by reflexivity.
  unfold amem. rewrite Ea, Eb. destruct (nk a b y); [|reflexivity].
  destruct (alookup y ra), (alookup y rb); reflexivity.
Qed.

Lemma alookup_row_replace_new R a b new rc :
  ~ In new (akeys rc) -> alookup new (row_replace R a b new rc) = ocomb R (alookup a rc) (alookup b rc).
Proof.
  intros Hn. apply alookup_None in Hn.
  assert (E0 : alookup new (filter (not2 a b) rc) = None).
  { rewrite (alookup_filter_key _ (nk a b)) by reflexivity. rewrite Hn. now destruct (nk a b new). }
  unfold row_replace.
  destruct (alookup a rc), (alookup b rc); cbn [ocomb]; rewrite ?alookup_app, ?E0; simpl; rewrite ?Nat.eqb_refl;
    try reflexivity. exact Hn.
Qed.

Lemma alookup_row_replace_other R a b new rc y :
  y <> new -> alookup y (row_replace R a b new rc) = if nk a b y then alookup y rc else None.
Proof.
  intros Hy.
  assert (E0 : forall v, alookup y (filter (not2 a b) rc ++ [(new, v)]) = if nk a b y then alookup y rc else None).
  { intros v. rewrite alookup_app, (alookup_filter_key _ (nk a b)) by reflexivity. simpl.
    apply Nat.eqb_neq in Hy. rewrite Hy. destruct (nk a b y); [destruct (alookup y rc)|]; reflexivity. }
  unfold row_replace. destruct (alookup a rc) eqn:Ea, (alookup b rc) eqn:Eb; rewrite ?E0; try reflexivity.
  unfold nk. destruct (Nat.eqb y a) eqn:E1; [apply Nat.eqb_eq in E1; subst; simpl; exact Ea|].
  destruct (Nat.eqb y b) eqn:E2; [apply Nat.eqb_eq in E2; subst; simpl; exact Eb|]. reflexivity.
Qed.

Lemma row_replace_keys R a b new rc y :
  In y (akeys (row_replace R a b new rc)) -> In y (akeys rc) \/ y = new.
Proof.
  unfold row_replace. destruct (alookup a rc), (alookup b rc); try (intros H; now left);
    rewrite akeys_app, in_app_iff; simpl; (intros [H|[H|[]]]; [left; exact (In_akeys_filter _ _ _ H) | right; congruence]).
Qed.

Lemma row_replace_NoDup R a b new rc :
  NoDup (akeys rc) -> ~ In new (akeys rc) -> NoDup (akeys (row_replace R a b new rc)).
Proof.
  intros Hnd Hn.
  assert (E : forall v, NoDup (akeys (filter (not2 a b) rc ++ [(new, v)]))).
  { intros v. apply NoDup_akeys_app_fresh; [now apply NoDup_akeys_filter|]. intros Hc. apply Hn.
    exact (In_akeys_filter _ _ _ Hc). }
  unfold row_replace. destruct (alookup a rc), (alookup b rc); try apply E. exact Hnd.
Qed.

Lemma row_union_keys R a b ra rb y :
  In y (akeys (row_union R a b ra rb)) -> In y (akeys ra) \/ In y (akeys rb).
Proof.
  unfold row_union. rewrite akeys_app, in_app_iff. intros [H|H].
  - left. rewrite akeys_map_fst in H.
    + exact (In_akeys_filter _ _ _ H).
    + intros [k v]. simpl. destruct (alookup k (filter (not2 a b) rb)); reflexivity.
  - right. apply In_akeys_filter in H. exact (In_akeys_filter _ _ _ H).
Qed.

Lemma row_union_NoDup R a b ra rb :
  NoDup (akeys ra) -> NoDup (akeys rb) -> NoDup (akeys (row_union R a b ra rb)).
Proof.
  intros Ha Hb. unfold row_union. set (ra' := filter (not2 a b) ra). set (rb' := filter (not2 a b) rb).
  rewrite akeys_app.
  assert (Ek : akeys (map (fun p => match alookup (fst p) rb' with
                                    | Some w => (fst p, r64 R (snd p + w))
                                    | None => p
                                    end) ra') = akeys ra').
  { apply akeys_map_fst. intros [k v]. simpl. destruct (alookup k rb'); reflexivity. }
  rewrite Ek. apply NoDup_app_intro.
  - now apply NoDup_akeys_filter.
  - apply NoDup_akeys_filter. now apply NoDup_akeys_filter.
  - intros x Hx Hc. unfold akeys in Hc. apply in_map_iff in Hc. destruct Hc as [p [E Hp]].
    apply filter_In in Hp. destruct Hp as [_ Hp]. rewrite E in Hp. unfold amem in Hp.
    destruct (alookup x ra') eqn:El; [discriminate|]. apply alookup_None in El. exact (El Hx).
Qed.

(** The neighbour dict after [merge]. *)
Lemma alookup_nb_merge R a b new (row : nrow) (nb : list (nat * nrow)) x :
  ~ In new (akeys nb) ->
  alookup x (map (fun p => (fst p, row_replace R a b new (snd p)))
                 (filter (fun p => negb (Nat.eqb (fst p) a) && negb (Nat.eqb (fst p) b)) nb) ++ [(new, row)]) =
  if Nat.eqb x new then Some row
  else if nk a b x then option_map (row_replace R a b new) (alookup x nb) else None.
Proof.
  intros Hn. rewrite alookup_app, alookup_map_snd, (alookup_filter_key _ (nk a b)) by reflexivity. simpl.
  destruct (Nat.eqb x new) eqn:E.
  - apply Nat.eqb_eq in E. subst x. apply alookup_None in Hn. rewrite Hn. now destruct (nk a b new).
  - destruct (nk a b x); [destruct (alookup x nb)|]; reflexivity.
Qed.

Theorem merge_symmetric : forall R g a b g',
  nb_wf g -> nb_symmetric g -> ag_merge R g a b = Ok g' -> nb_wf g' /\ nb_symmetric g'.
Proof.
  intros R g a b g' [Hnd Hrows Hlt Hrlt] Hsym Hm.
  destruct (ag_merge_inv _ _ _ _ _ Hm) as (ra & rb & s1 & s2 & Ha & Hb & _ & _ & Hne & Eg).
  remember (ag_next g) as new eqn:Enew in *.
  assert (Hfresh : ~ In new (akeys (ag_nb g))) by (intros Hc; apply Hlt in Hc; lia).
  assert (Hrfresh : forall x rc, In (x, rc) (ag_nb g) -> ~ In new (akeys rc)).
  { intros x rc Hin Hc. apply (Hrlt _ _ _ Hin) in Hc. lia. }
  assert (Hain := alookup_In _ _ _ Ha). assert (Hbin := alookup_In _ _ _ Hb).
  split.
  - (* well-formedness *)
    subst g'. split; cbn [ag_nb ag_next].
    + rewrite akeys_app. rewrite akeys_map_fst by reflexivity. simpl. apply NoDup_snoc.
      * now apply NoDup_akeys_filter.
      * intros Hc. apply Hfresh. exact (In_akeys_filter _ _ _ Hc).
    + intros x r Hin. apply in_app_iff in Hin. destruct Hin as [Hin|[Hin|[]]].
      * apply in_map_iff in Hin. destruct Hin as [[k rc] [E Hp]]. simpl in E. inversion E; subst x r.
        apply filter_In in Hp. destruct Hp as [Hp _].
        apply row_replace_NoDup; [exact (Hrows _ _ Hp) | exact (Hrfresh _ _ Hp)].
      * inversion Hin; subst x r. simpl. constructor.
        -- intros Hc. apply row_union_keys in Hc. destruct Hc as [Hc|Hc]; [exact (Hrfresh _ _ Hain Hc) | exact (Hrfresh _ _ Hbin Hc)].
        -- apply row_union_NoDup; [exact (Hrows _ _ Hain) | exact (Hrows _ _ Hbin)].
    + intros x Hx. rewrite akeys_app, akeys_map_fst in Hx by reflexivity. apply in_app_iff in Hx.
      destruct Hx as [Hx|[Hx|[]]].
      * apply In_akeys_filter in Hx. apply Hlt in Hx. lia.
      * subst x. simpl. lia.
    + intros x r y Hin Hy. apply in_app_iff in Hin. destruct Hin as [Hin|[Hin|[]]].
      * apply in_map_iff in Hin. destruct Hin as [[k rc] [E Hp]]. simpl in E. inversion E; subst x r.
        apply filter_In in Hp. destruct Hp as [Hp _]. apply row_replace_keys in Hy. destruct Hy as [Hy|Hy].
        -- apply (Hrlt _ _ _ Hp) in Hy. lia.
        -- subst y. lia.
      * inversion Hin; subst x r. simpl in Hy. destruct Hy as [Hy|Hy]; [subst y; lia|].
        apply row_union_keys in Hy. destruct Hy as [Hy|Hy].
        -- apply (Hrlt _ _ _ Hain) in Hy. lia.
        -- apply (Hrlt _ _ _ Hbin) in Hy. lia.
  - (* symmetry *)
    assert (Hrow : forall y rc, alookup y (ag_nb g) = Some rc ->
                                alookup y ra = alookup a rc /\ alookup y rb = alookup b rc).
    { intros y rc Ey. split.
      - assert (E := Hsym a y). unfold nbw in E. now rewrite Ha, Ey in E.
      - assert (E := Hsym b y). unfold nbw in E. now rewrite Hb, Ey in E. }
    assert (Hrow0 : forall y, alookup y (ag_nb g) = None -> alookup y ra = None /\ alookup y rb = None).
    { intros y Ey. split.
      - assert (E := Hsym a y). unfold nbw in E. now rewrite Ha, Ey in E.
      - assert (E := Hsym b y). unfold nbw in E. now rewrite Hb, Ey in E. }
    assert (Hnew : forall y, y <> new -> nbw g' new y = nbw g' y new).
    { intros y Hy. subst g'. unfold nbw. cbn [ag_nb]. rewrite !alookup_nb_merge by exact Hfresh.
      rewrite Nat.eqb_refl. apply Nat.eqb_neq in Hy. rewrite Hy. simpl. rewrite Hy.
      rewrite alookup_row_union. destruct (nk a b y); [|reflexivity].
      destruct (alookup y (ag_nb g)) as [rc|] eqn:Ey; simpl.
      - rewrite alookup_row_replace_new by exact (Hrfresh _ _ (alookup_In _ _ _ Ey)).
        destruct (Hrow y rc Ey) as [-> ->]. reflexivity.
      - destruct (Hrow0 y Ey) as [-> ->]. reflexivity. }
    assert (Hold : forall x y, x <> new -> y <> new ->
                               nbw g' x y = if nk a b x then if nk a b y then nbw g x y else None else None).
    { intros x y Hx Hy. subst g'. unfold nbw. cbn [ag_nb]. rewrite alookup_nb_merge by exact Hfresh.
      apply Nat.eqb_neq in Hx. rewrite Hx. destruct (nk a b x); [|reflexivity].
      destruct (alookup x (ag_nb g)) as [rc|] eqn:Ex; simpl.
      - now rewrite alookup_row_replace_other by exact Hy.
      - now destruct (nk a b y). }
    intros x y. destruct (Nat.eq_dec x new) as [->|Hx], (Nat.eq_dec y new) as [->|Hy].
    + reflexivity.
    + now apply Hnew.
    + symmetry. now apply Hnew.
    + rewrite (Hold x y Hx Hy), (Hold y x Hy Hx), (Hsym x y).
      destruct (nk a b x), (nk a b y); reflexivity.
Qed.

(** ** The initial graph *)
Lemma alookup_map_keyed_in {A} (F : nat -> A) l x : In x l -> alookup x (map (fun i => (i, F i)) l) = Some (F x).
Proof.
  induction l as [|k t IH]; simpl; [tauto|]. intros H. destruct (Nat.eqb x k) eqn:E.
  - apply Nat.eqb_eq in E. now subst.
  - apply Nat.eqb_neq in E. destruct H as [H|H]; [congruence | now apply IH].
Qed.

Lemma alookup_map_keyed_out {A} (F : nat -> A) l x : ~ In x l -> alookup x (map (fun i => (i, F i)) l) = None.
Proof. intros H. apply alookup_None. now rewrite akeys_map_const. Qed.

Lemma NoDup_row_keys (G : entries) x :
  NoDup (map (fun e => (e_i e, e_j e)) G) -> NoDup (map e_j (filter (fun e => Nat.eqb (e_i e) x) G)).
Proof.
  induction G as [|e t IH]; simpl; intros H; [constructor|]. inversion H as [|? ? Hn Hnd]; subst.
  destruct (Nat.eqb (e_i e) x) eqn:E; [|now apply IH]. simpl. constructor; [|now apply IH].
  intros Hc. apply Hn. apply in_map_iff in Hc. destruct Hc as [e' [Ej Hf]]. apply filter_In in Hf.
  destruct Hf as [Hin Ei]. apply Nat.eqb_eq in E, Ei. apply in_map_iff. exists e'. split; [|exact Hin]. congruence.
Qed.

Theorem init_symmetric : forall R n G wout win,
  NoDup (map (fun e => (e_i e, e_j e)) G) -> (forall i j w, In (i, j, w) G -> In (j, i, w) G /\ i < n /\ j < n) ->
  nb_wf (ag_init R n G wout win) /\ nb_symmetric (ag_init R n G wout win).
Proof.
  intros R n G wout win Hnd HG.
  set (f := fun w : Q => r64 R (w / r32 R (total G))).
  set (ROW := fun i => map (fun e => (e_j e, f (e_v e))) (filter (fun e => Nat.eqb (e_i e) i) G)).
  assert (Enb : ag_nb (ag_init R n G wout win) = map (fun i => (i, ROW i)) (seq 0 n)) by reflexivity.
  assert (Hrk : forall i, akeys (ROW i) = map e_j (filter (fun e => Nat.eqb (e_i e) i) G)).
  { intros i. unfold ROW, akeys. rewrite map_map. reflexivity. }
  assert (HA : forall x y v, nbw (ag_init R n G wout win) x y = Some v -> exists w, In (x, y, w) G /\ v = f w).
  { intros x y v H. unfold nbw in H. rewrite Enb in H.
    destruct (alookup x _) as [r|] eqn:Ex in H; [|discriminate].
    assert (Er : r = ROW x).
    { apply alookup_In in Ex. apply in_map_iff in Ex. destruct Ex as [i [E _]]. now inversion E. }
    subst r. apply alookup_In in H. apply in_map_iff in H. destruct H as [[[i j] w] [E Hf]].
    apply filter_In in Hf. destruct Hf as [Hin Ei]. unfold e_i, e_j, e_v in *. simpl in *.
    apply Nat.eqb_eq in Ei. inversion E; subst. now exists w. }
  assert (HB : forall x y w, In (x, y, w) G -> nbw (ag_init R n G wout win) x y = Some (f w)).
  { intros x y w Hin. unfold nbw. rewrite Enb.
    rewrite (alookup_map_keyed_in ROW) by (apply in_seq; destruct (HG _ _ _ Hin); lia).
    apply In_alookup.
    - rewrite Hrk. now apply NoDup_row_keys.
    - unfold ROW. apply in_map_iff. exists (x, y, w). split; [reflexivity|]. apply filter_In. split; [exact Hin|].
      unfold e_i. simpl. apply Nat.eqb_refl. }
  split.
  - split; rewrite ?Enb; cbn [ag_next ag_init].
    + rewrite akeys_map_const. apply seq_NoDup.
    + intros x r Hin. apply in_map_iff in Hin. destruct Hin as [i [E _]]. inversion E; subst.
      rewrite Hrk. now apply NoDup_row_keys.
    + intros x Hx. rewrite akeys_map_const in Hx. apply in_seq in Hx. lia.
    + intros x r y Hin Hy. apply in_map_iff in Hin. destruct Hin as [i [E _]]. inversion E; subst.
      rewrite Hrk in Hy. apply in_map_iff in Hy. destruct Hy as [[[i' j] w] [Ej Hf]]. apply filter_In in Hf.
      destruct Hf as [Hin _]. unfold e_j in Ej. simpl in Ej. subst j. destruct (HG _ _ _ Hin). lia.
  - intros x y. destruct (nbw (ag_init R n G wout win) x y) as [v|] eqn:E1.
    + destruct (HA _ _ _ E1) as [w [Hin ->]]. symmetry. apply HB. now apply HG.
    + destruct (nbw (ag_init R n G wout win) y x) as [v|] eqn:E2; [|reflexivity].
      destruct (HA _ _ _ E2) as [w [Hin ->]]. apply HG in Hin. destruct Hin as [Hin _].
      rewrite (HB _ _ _ Hin) in E1. discriminate.
Qed.

(** The neighbour maps stay well formed and symmetric along the whole run, for any rounding. *)
Theorem paris_run_symmetric : forall R clamp fuel n G wout win st,
  NoDup (map (fun e => (e_i e, e_j e)) G) -> (forall i j w, In (i, j, w) G -> In (j, i, w) G /\ i < n /\ j < n) ->
  paris_run R clamp fuel (paris_init (ag_init R n G wout win)) = Some (Ok st) ->
  nb_wf (p_ag st) /\ nb_symmetric (p_ag st).
Proof.
  intros R clamp fuel n G wout win st Hnd HG Hrun.
  assert (H0 : nb_wf (p_ag (paris_init (ag_init R n G wout win))) /\
               nb_symmetric (p_ag (paris_init (ag_init R n G wout win))))
    by exact (init_symmetric R n G wout win Hnd HG).
  refine (proj1 (paris_run_ind R clamp (fun s => nb_wf (p_ag s) /\ nb_symmetric (p_ag s)) _ _ _ _ H0 Hrun)).
  clear H0 Hrun.
  intros s s' [Hwf Hsym] [Hag _ _ _ | node sz _ Hnx _ _ _ _ Hnb | node nn h0 s1 s2 _ _ Hm _ _ _].
  - rewrite Hag. now split.
  - destruct Hwf as [H1 H2 H3 H4]. split.
    + split; rewrite ?Hnx, ?Hnb; assumption.
    + intros x y. unfold nbw. rewrite Hnb. exact (Hsym x y).
  - exact (merge_symmetric R _ _ _ _ Hwf Hsym Hm).
Qed.

Print Assumptions paris_rows_valid.
Print Assumptions paris_rows_sizes.
Print Assumptions paris_next_cluster.
Print Assumptions merge_bookkeeping.
Print Assumptions merge_symmetric.
Print Assumptions init_symmetric.
Print Assumptions paris_run_symmetric.
Print Assumptions paris_clamped_hmono.
Print Assumptions paris_example.
Print Assumptions paris_example_components.

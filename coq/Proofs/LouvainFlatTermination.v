(** The flat (checked-access) model of optimize_core in Model/Safety.v SIMULATES the model of
    Model/Louvain.v: on a well-formed CSR input, node by node, both take the same decisions and keep
    the same labels and (up to equality of rationals) the same arrays. The termination bound of
    Proofs/LouvainTermination.v therefore holds for the flat model: with tol > 0 and
    fuel >= ceil((B - objective(start)) / tol) + 1 it never returns OutOfFuel. *)
From Coq Require Import Lqa Setoid Morphisms.
From SKN Require Import Base.Util Model.Safety Proofs.SafetyProofs Model.Modularity Model.Louvain Proofs.ModularityProofs Proofs.LouvainProofs Proofs.LouvainTermination.

Local Open Scope Q_scope.

(** * The weighted graph denoted by CSR arrays *)
Definition csr_row (indptr indices : list nat) (data : list Q) (i : nat) : wrow :=
  map (fun j => (nth j indices 0%nat, nth j data 0))
      (seq (ip indptr i) (ip indptr (S i) - ip indptr i)).
Definition csr_graph (n : nat) (indptr indices : list nat) (data : list Q) : wgraph :=
  map (csr_row indptr indices data) (seq 0 n).

Lemma csr_graph_length n indptr indices data : length (csr_graph n indptr indices data) = n.
Proof. unfold csr_graph. rewrite map_length, seq_length. reflexivity. Qed.

Lemma csr_graph_row n indptr indices data i :
  (i < n)%nat -> wrow_of (csr_graph n indptr indices data) i = csr_row indptr indices data i.
Proof. intros H. unfold csr_graph. apply wrow_of_map_seq. exact H. Qed.

Lemma csr_graph_wf n indptr indices data :
  csr_pat_wf n indptr indices -> wf_wgraph (csr_graph n indptr indices data).
Proof.
  intros Hwf i j w Hin. rewrite csr_graph_length.
  destruct (Nat.lt_ge_cases i n) as [Hi|Hi].
  - rewrite csr_graph_row in Hin by exact Hi. unfold csr_row in Hin.
    apply in_map_iff in Hin. destruct Hin as [k [E Hk]]. injection E as <- _.
    pose proof (row_range_lt n indptr indices i Hwf Hi k Hk) as Hlt.
    destruct Hwf as (_ & _ & _ & _ & Hidx). apply Hidx. exact Hlt.
  - rewrite wrow_of_overflow in Hin by (rewrite csr_graph_length; exact Hi). destruct Hin.
Qed.

(** * Arrays up to equality of rationals *)
Definition qeql (a b : list Q) : Prop := length a = length b /\ forall i, nthq a i == nthq b i.

Lemma qeql_refl a : qeql a a.
Proof. split; [reflexivity|intros i; reflexivity]. Qed.

Lemma set_nth_upd {A} (l : list A) i x : set_nth l i x = upd l i x.
Proof. revert i; induction l as [|a t IH]; intros [|i]; simpl; auto; rewrite IH; reflexivity. Qed.

Lemma qeql_upd a b i x y : qeql a b -> x == y -> qeql (upd a i x) (upd b i y).
Proof.
  intros [Hl He] Hxy. split; [rewrite !upd_length; exact Hl|]. intros j.
  destruct (Nat.eq_dec j i) as [->|Hne].
  - destruct (Nat.lt_ge_cases i (length a)) as [H|H].
    + rewrite !nthq_upd_same by lia. exact Hxy.
    + unfold nthq. rewrite !nth_overflow by (rewrite upd_length; lia). reflexivity.
  - rewrite !nthq_upd_other by exact Hne. apply He.
Qed.

Lemma vote_set_insert x s : Vote.set_insert x s = set_insert x s.
Proof. induction s as [|y t IH]; simpl; [reflexivity|]. rewrite IH. reflexivity. Qed.

Lemma remove_set_erase x l : remove Nat.eq_dec x l = set_erase x l.
Proof.
  unfold set_erase. induction l as [|y t IH]; simpl; [reflexivity|].
  destruct (Nat.eq_dec x y) as [E|E].
  - subst y. rewrite Nat.eqb_refl. simpl. exact IH.
  - assert (H : Nat.eqb y x = false) by (apply Nat.eqb_neq; congruence). rewrite H. simpl.
    rewrite IH. reflexivity.
Qed.

Lemma rdq_ok (l : list Q) i : (i < length l)%nat -> rd l i = KOk (nthq l i).
Proof. apply rd_ok. Qed.
Lemma rdn_ok (l : list nat) i : (i < length l)%nat -> rd l i = KOk (nthn l i).
Proof. apply rd_ok. Qed.

Ltac rq := rewrite rdq_ok by (rewrite ?upd_length; lia); cbn [kbind].
Ltac rn := rewrite rdn_ok by (rewrite ?upd_length; lia); cbn [kbind].
Lemma wr_upd {A} (l : list A) i x : (i < length l)%nat -> wr l i x = KOk (upd l i x).
Proof. intros H. rewrite (wr_ok l i x H), set_nth_upd. reflexivity. Qed.
Ltac wq := rewrite wr_upd by (rewrite ?upd_length; lia); cbn [kbind].

Lemma Qltb_false x y : Qltb x y = false <-> y <= x.
Proof.
  split; intros H.
  - destruct (Qlt_le_dec x y) as [Hl|Hl]; [|exact Hl]. apply Qltb_lt in Hl. congruence.
  - destruct (Qltb x y) eqn:E; [|reflexivity]. apply Qltb_lt in E. lra.
Qed.

(** * The neighbour loop *)
Lemma lv_gather_sim n indices (data : list Q) labels :
  length data = length indices -> length labels = n -> Forall (fun l => (l < n)%nat) labels ->
  (forall k, (k < length indices)%nat -> (nth k indices 0 < n)%nat) ->
  forall js lset cwf cwm,
    (forall k, In k js -> (k < length indices)%nat) -> length cwf = n -> qeql cwf cwm ->
    exists cwf',
      lv_gather js indices data labels lset cwf
      = KOk (fst (fold_left (nb_step labels) (map (fun j => (nth j indices 0%nat, nth j data 0)) js) (lset, cwm)), cwf') /\
      length cwf' = n /\
      qeql cwf' (snd (fold_left (nb_step labels) (map (fun j => (nth j indices 0%nat, nth j data 0)) js) (lset, cwm))).
Proof.
  intros Hd Hl HF Hidx. induction js as [|j t IH]; intros lset cwf cwm Hjs Hcw Hq;
    cbn [lv_gather map fold_left].
  - exists cwf. simpl. auto.
  - assert (Hj : (j < length indices)%nat) by (apply Hjs; left; reflexivity).
    rewrite (rdn_ok indices j Hj). cbn [kbind].
    assert (Hjj : (nthn indices j < n)%nat) by (apply Hidx; exact Hj).
    rewrite (rdn_ok labels (nthn indices j)) by lia. cbn [kbind].
    set (lt0 := nthn labels (nthn indices j)).
    assert (Hlt0 : (lt0 < n)%nat).
    { unfold lt0. rewrite Forall_forall in HF. apply HF. unfold nthn at 1. apply nth_In. rewrite Hl. exact Hjj. }
    rq. rq. wq. rewrite vote_set_insert.
    change (nb_step labels (lset, cwm) (nth j indices 0%nat, nth j data 0))
      with (set_insert lt0 lset, upd cwm lt0 (qn (nthq cwm lt0 + nthq data j))).
    apply IH.
    + intros k Hk. apply Hjs. right. exact Hk.
    + rewrite upd_length. exact Hcw.
    + apply qeql_upd; [exact Hq|]. rewrite qn_eq. rewrite (proj2 Hq lt0). reflexivity.
Qed.

(** * The target loop *)
Lemma lv_select_sim n res ow iw delta deltam icw ocw icwm ocwm :
  delta == deltam -> qeql icw icwm -> qeql ocw ocwm -> length icw = n -> length ocw = n ->
  forall ls cwf dbest lbest a,
    Forall (fun l => (l < n)%nat) ls -> length cwf = n -> qeql cwf (t_cw a) ->
    dbest == t_best a -> lbest = t_label a ->
    exists db cwf',
      lv_select ls res ow iw delta icw ocw cwf dbest lbest
      = KOk (db, t_label (fold_left (tgt_step res ow iw deltam ocwm icwm) ls a), cwf') /\
      db == t_best (fold_left (tgt_step res ow iw deltam ocwm icwm) ls a) /\
      length cwf' = n /\
      qeql cwf' (t_cw (fold_left (tgt_step res ow iw deltam ocwm icwm) ls a)).
Proof.
  intros Hdl Qi Qo Li Lo. induction ls as [|t ls IH]; intros cwf dbest lbest a Hls Hcw Hq Hb Hlb;
    cbn [lv_select fold_left].
  - exists dbest, cwf. subst lbest. auto.
  - apply Forall_cons_iff in Hls. destruct Hls as [Ht Hls].
    rq. rq. rq. wq.
    set (dlf := 2 * nthq cwf t - res * ow * nthq icw t - res * iw * nthq ocw t - delta).
    set (dlm := qn (delta_local res ow iw deltam ocwm icwm (t_cw a) t)).
    assert (Edl : dlf == dlm).
    { unfold dlf, dlm, delta_local. rewrite qn_eq.
      rewrite (proj2 Hq t), (proj2 Qi t), (proj2 Qo t), Hdl. reflexivity. }
    assert (Hq' : qeql (upd cwf t 0) (upd (t_cw a) t 0)) by (apply qeql_upd; [exact Hq|reflexivity]).
    unfold tgt_step at 2 4 6. fold dlm.
    destruct (Qlt_le_dec dbest dlf) as [Hlt|Hle].
    + assert (E : Qltb (t_best a) dlm = true) by (apply Qltb_lt; lra). rewrite E.
      apply IH; cbn [t_cw t_best t_label]; auto. rewrite upd_length. exact Hcw.
    + assert (E : Qltb (t_best a) dlm = false) by (apply Qltb_false; lra). rewrite E.
      apply IH; cbn [t_cw t_best t_label]; auto. rewrite upd_length. exact Hcw.
Qed.

Lemma Forall_upd {A} (P : A -> Prop) (l : list A) i x : Forall P l -> P x -> Forall P (upd l i x).
Proof. rewrite <- set_nth_upd. apply Forall_set_nth. Qed.

(** * One node, one pass, the pass loop *)
Section FlatSim.
  Context (n : nat) (indptr indices : list nat) (data ows iws sls : list Q) (res : Q).
  Context (Hcsr : csr_wf n indptr indices data).
  Context (How : length ows = n) (Hiw : length iws = n) (Hsl : length sls = n).
  Let g := csr_graph n indptr indices data.

  (** same labels, same arrays up to [==] *)
  Definition arel (sf : lstate) (sm : kstate) : Prop :=
    l_labels sf = k_labels sm /\ qeql (l_ocw sf) (k_out_cw sm) /\ qeql (l_icw sf) (k_in_cw sm) /\
    qeql (l_cw sf) (k_cw sm).

  Lemma lv_node_sim i sf sm :
    (i < n)%nat -> linv n sf -> arel sf sm -> l_inc sf == k_inc_pass sm ->
    exists sf', lv_node indptr indices data ows iws sls res i sf = KOk sf' /\ linv n sf' /\
                arel sf' (node_step g ows iws sls res sm i) /\
                l_inc sf' == k_inc_pass (node_step g ows iws sls res sm i).
  Proof.
    intros Hi (HL & HF & HO & HI & HC) (EL & QO & QI & QC) Einc.
    pose proof Hcsr as [Hpat Hd]. pose proof Hpat as (Hipl & _ & _ & _ & Hidx).
    unfold lv_node, node_step. cbv zeta. rewrite <- EL.
    unfold g. rewrite (csr_graph_row n indptr indices data i Hi). unfold csr_row, neighbours.
    rn. rn. rn.
    set (labels := l_labels sf) in *. set (label := nthn labels i).
    assert (Hlab : (label < n)%nat).
    { unfold label, nthn. rewrite Forall_forall in HF. apply HF. apply nth_In. lia. }
    change (nthn indptr i) with (ip indptr i). change (nthn indptr (S i)) with (ip indptr (S i)).
    set (js := seq (ip indptr i) (ip indptr (S i) - ip indptr i)).
    assert (Hjs : forall k, In k js -> (k < length indices)%nat) by (apply (row_range_lt n); auto).
    destruct (lv_gather_sim n indices data labels Hd HL HF Hidx js [] (l_cw sf) (k_cw sm) Hjs HC QC)
      as (cwf1 & Eg & Lc1 & Qc1).
    destruct (lv_gather_ok n indptr indices data labels Hcsr HL HF js [] (l_cw sf) Hjs (Forall_nil _) HC)
      as (lset0 & cw0 & Eg0 & Hls0 & _).
    set (nb := fold_left (nb_step labels) (map (fun j => (nth j indices 0%nat, nth j data 0)) js)
                         ([], k_cw sm)) in *.
    rewrite Eg in Eg0. assert (Elset : lset0 = fst nb) by congruence. subst lset0. clear Eg0 cw0.
    rewrite Eg. cbn [kbind fst snd]. rewrite remove_set_erase.
    destruct (set_erase label (fst nb)) as [|t0 s'] eqn:Es.
    - (* no neighbouring cluster *)
      cbn [kbind l_labels l_ocw l_icw l_cw l_inc]. wq.
      eexists. split; [reflexivity|]. split; [|split].
      + unfold linv; cbn [l_labels l_ocw l_icw l_cw]. rewrite upd_length. auto.
      + unfold arel; cbn [l_labels l_ocw l_icw l_cw k_labels k_out_cw k_in_cw k_cw].
        split; [reflexivity|]. split; [exact QO|]. split; [exact QI|].
        apply qeql_upd; [exact Qc1|reflexivity].
      + cbn [l_inc k_inc_pass]. exact Einc.
    - assert (Hls : Forall (fun l => (l < n)%nat) (t0 :: s')).
      { rewrite <- Es. apply Forall_forall. intros u Hu. apply set_erase_In in Hu. destruct Hu as [Hu _].
        rewrite Forall_forall in Hls0. apply Hls0. exact Hu. }
      do 6 rq.
      set (ow := nthq ows i). set (iw := nthq iws i).
      set (deltaf := 2 * (nthq cwf1 label - nthq sls i) - res * ow * (nthq (l_icw sf) label - iw)
                     - res * iw * (nthq (l_ocw sf) label - ow)).
      set (deltam := qn (delta_leave res ow iw (nthq sls i) (k_out_cw sm) (k_in_cw sm) (snd nb) label)).
      assert (D : deltaf == deltam).
      { unfold deltaf, deltam, delta_leave. rewrite qn_eq.
        rewrite (proj2 Qc1 label), (proj2 QI label), (proj2 QO label). reflexivity. }
      set (a0 := {| t_cw := snd nb; t_best := 0; t_label := label; t_margin := k_margin sm |}).
      destruct (lv_select_sim n res ow iw deltaf deltam (l_icw sf) (l_ocw sf) (k_in_cw sm) (k_out_cw sm)
                  D QI QO HI HO (t0 :: s') cwf1 0 label a0 Hls Lc1 Qc1 (Qeq_refl 0) eq_refl)
        as (db & cwf2 & Es2 & Edb & Lc2 & Qc2).
      destruct (lv_select_ok n res ow iw deltaf (l_icw sf) (l_ocw sf) HI HO (t0 :: s') cwf1 0 label
                  Hls Lc1 Hlab) as (db' & lb' & cw2' & Es3 & Hlb' & _).
      set (ts := fold_left (tgt_step res ow iw deltam (k_out_cw sm) (k_in_cw sm)) (t0 :: s') a0) in *.
      rewrite Es2 in Es3. assert (Elb : lb' = t_label ts) by congruence. subst lb'. clear Es3 db' cw2'.
      rewrite Es2. cbn [kbind fst snd].
      destruct (Nat.eqb_spec (t_label ts) label) as [Eb|Eb]; cbn [negb].
      + (* stays *)
        cbn [kbind l_labels l_ocw l_icw l_cw l_inc]. wq.
        eexists. split; [reflexivity|]. split; [|split].
        * unfold linv; cbn [l_labels l_ocw l_icw l_cw]. rewrite upd_length. auto.
        * unfold arel; cbn [l_labels l_ocw l_icw l_cw k_labels k_out_cw k_in_cw k_cw].
          split; [reflexivity|]. split; [exact QO|]. split; [exact QI|].
          apply qeql_upd; [exact Qc2|reflexivity].
        * cbn [l_inc k_inc_pass]. exact Einc.
      + (* moves to t_label ts *)
        set (best := t_label ts) in *.
        assert (Q1o : qeql (upd (l_ocw sf) label (nthq (l_ocw sf) label - ow))
                           (upd (k_out_cw sm) label (qn (nthq (k_out_cw sm) label - ow)))).
        { apply qeql_upd; [exact QO|]. rewrite qn_eq, (proj2 QO label). reflexivity. }
        assert (Q1i : qeql (upd (l_icw sf) label (nthq (l_icw sf) label - iw))
                           (upd (k_in_cw sm) label (qn (nthq (k_in_cw sm) label - iw)))).
        { apply qeql_upd; [exact QI|]. rewrite qn_eq, (proj2 QI label). reflexivity. }
        repeat first [rq | wq]. cbn [kbind l_labels l_ocw l_icw l_cw l_inc]. wq.
        eexists. split; [reflexivity|]. split; [|split].
        * unfold linv; cbn [l_labels l_ocw l_icw l_cw]. rewrite !upd_length.
          repeat split; auto. apply Forall_upd; auto.
        * unfold arel; cbn [l_labels l_ocw l_icw l_cw k_labels k_out_cw k_in_cw k_cw].
          split; [reflexivity|]. split; [|split].
          -- apply qeql_upd; [exact Q1o|]. rewrite qn_eq, (proj2 Q1o best). reflexivity.
          -- apply qeql_upd; [exact Q1i|]. rewrite qn_eq, (proj2 Q1i best). reflexivity.
          -- apply qeql_upd; [exact Qc2|reflexivity].
        * cbn [l_inc k_inc_pass]. rewrite qn_eq, Edb, Einc. reflexivity.
  Qed.

  Lemma lv_pass_sim : forall nodes sf sm,
    (forall i, In i nodes -> (i < n)%nat) -> linv n sf -> arel sf sm -> l_inc sf == k_inc_pass sm ->
    exists sf', lv_pass nodes indptr indices data ows iws sls res sf = KOk sf' /\ linv n sf' /\
                arel sf' (fold_left (node_step g ows iws sls res) nodes sm) /\
                l_inc sf' == k_inc_pass (fold_left (node_step g ows iws sls res) nodes sm).
  Proof.
    induction nodes as [|i t IH]; intros sf sm Hn Hinv Hrel Hinc; cbn [lv_pass fold_left].
    - exists sf. auto.
    - destruct (lv_node_sim i sf sm (Hn i (or_introl eq_refl)) Hinv Hrel Hinc) as (sf1 & E1 & I1 & R1 & C1).
      rewrite E1. cbn [kbind]. apply IH; auto. intros i' Hi'. apply Hn. right. exact Hi'.
  Qed.

  (** Whenever the pass loop of Model/Louvain.v returns within [fuel] passes, so does the flat loop,
      with the same labels and the same total increase. *)
  Lemma lv_loop_sim tol : forall fuel sf sm incf incm passes st' inc',
    linv n sf -> arel sf sm -> incf == incm ->
    opt_loop fuel g ows iws sls res tol sm incm = Some (st', inc') ->
    exists incf' passes',
      lv_loop fuel n indptr indices data ows iws sls res tol sf incf passes = KOk (k_labels st', incf', passes') /\
      incf' == inc'.
  Proof.
    induction fuel as [|f IH]; intros sf sm incf incm passes st' inc' Hinv Hrel Hinc H;
      cbn [opt_loop lv_loop] in *; [discriminate|].
    pose proof Hinv as (HL & _). pose proof Hrel as (EL & QO & QI & QC).
    set (sf0 := {| l_labels := l_labels sf; l_ocw := l_ocw sf; l_icw := l_icw sf; l_cw := l_cw sf;
                   l_inc := 0 |}).
    unfold one_pass in H. rewrite <- EL, HL in H.
    set (sm0 := {| k_labels := l_labels sf; k_out_cw := k_out_cw sm; k_in_cw := k_in_cw sm;
                   k_cw := k_cw sm; k_inc_pass := 0; k_margin := k_margin sm |}) in H.
    destruct (lv_pass_sim (seq 0 n) sf0 sm0) as (sf1 & E1 & I1 & R1 & C1).
    { intros i Hi. apply in_seq in Hi. lia. }
    { exact Hinv. }
    { unfold arel; cbn [sf0 sm0 l_labels l_ocw l_icw l_cw k_labels k_out_cw k_in_cw k_cw]. auto. }
    { reflexivity. }
    rewrite E1. cbn [kbind].
    set (st1 := fold_left (node_step g ows iws sls res) (seq 0 n) sm0) in *.
    destruct (Qlt_le_dec tol (l_inc sf1)) as [Hlt|Hle].
    - assert (E : Qle_bool (k_inc_pass st1) tol = false).
      { destruct (Qle_bool (k_inc_pass st1) tol) eqn:E; [|reflexivity]. apply Qle_bool_iff in E. lra. }
      rewrite E in H.
      refine (IH sf1 _ _ _ _ _ _ I1 _ _ H).
      + destruct R1 as (R1a & R1b & R1c & R1d). unfold arel; cbn [k_labels k_out_cw k_in_cw k_cw]. auto.
      + rewrite qn_eq, Hinc, C1. reflexivity.
    - assert (E : Qle_bool (k_inc_pass st1) tol = true) by (apply Qle_bool_iff; lra).
      rewrite E in H.
      match type of H with Some (?sx, ?qx) = _ =>
        assert (Es : st' = sx) by congruence; assert (Eq : inc' = qx) by congruence end.
      subst st' inc'. cbn [k_labels].
      exists (incf + l_inc sf1), (S passes). split.
      + rewrite (proj1 R1). reflexivity.
      + rewrite qn_eq, Hinc, C1. reflexivity.
  Qed.
End FlatSim.

(** * optimize_core (flat): refinement and termination *)

(** The flat kernel returns whatever the model returns. Contract of the caller (Louvain._optimize /
    Leiden._optimize): labels < n; out/in_cluster_weights are the sums of the node weights per label;
    cluster_weights is zero-filled; all arrays have n entries. *)
Lemma optimize_core_flat_refines fuel n labels indices indptr
      (data ows iws ocw icw cw sls : list Q) res tol st' inc' :
  csr_wf n indptr indices data ->
  length labels = n -> Forall (fun l => (l < n)%nat) labels ->
  length ows = n -> length iws = n -> length ocw = n -> length icw = n -> length cw = n ->
  length sls = n ->
  opt_loop fuel (csr_graph n indptr indices data) ows iws sls res tol
           {| k_labels := labels; k_out_cw := ocw; k_in_cw := icw; k_cw := cw; k_inc_pass := 0;
              k_margin := marg0 |} 0 = Some (st', inc') ->
  exists incf passes,
    optimize_core fuel labels indices indptr data ows iws ocw icw cw sls res tol
    = KOk (k_labels st', incf, passes) /\ incf == inc'.
Proof.
  intros Hcsr HL HF How Hiw Hocw Hicw Hcw Hsl H. unfold optimize_core. rewrite HL.
  refine (lv_loop_sim n indptr indices data ows iws sls res Hcsr How Hiw Hsl tol fuel _ _ 0 0 0%nat st' inc'
            _ _ (Qeq_refl 0) H).
  - unfold linv; cbn [l_labels l_ocw l_icw l_cw]. auto.
  - unfold arel; cbn [l_labels l_ocw l_icw l_cw k_labels k_out_cw k_in_cw k_cw].
    split; [reflexivity|]. repeat split; intros; reflexivity.
Qed.

(** For tol > 0 and any upper bound B of the objective, ceil((B - objective(labels)) / tol) + 1 passes
    suffice: the flat kernel does not run out of fuel. The graph must be symmetric (Louvain hands the
    kernel A + A^T) and self_loops its diagonal. *)
Theorem optimize_core_flat_terminates_ok fuel n labels indices indptr
        (data ows iws ocw icw cw sls : list Q) res tol B :
  csr_wf n indptr indices data ->
  let g := csr_graph n indptr indices data in
  wsymmetric g ->
  (forall i, (i < n)%nat -> nthq sls i == entry g i i) ->
  length labels = n -> Forall (fun l => (l < n)%nat) labels ->
  length ows = n -> length iws = n -> length ocw = n -> length icw = n -> length cw = n ->
  length sls = n ->
  (forall c, (c < n)%nat -> nthq ocw c == csum g labels ows c) ->
  (forall c, (c < n)%nat -> nthq icw c == csum g labels iws c) ->
  (forall c, (c < n)%nat -> nthq cw c == 0) ->
  0 < tol -> (forall l, objective g ows iws res l <= B) ->
  (pass_fuel B (objective g ows iws res labels) tol <= fuel)%nat ->
  exists labels' increase passes,
    optimize_core fuel labels indices indptr data ows iws ocw icw cw sls res tol
    = KOk (labels', increase, passes).
Proof.
  intros Hcsr g Hsym Hdiag HL HF How Hiw Hocw Hicw Hcw Hsl Co Ci Cz Htol HB Hf.
  assert (Hg : length g = n) by apply csr_graph_length.
  assert (Hwf : wf_wgraph g) by (apply csr_graph_wf; exact (proj1 Hcsr)).
  set (sm0 := {| k_labels := labels; k_out_cw := ocw; k_in_cw := icw; k_cw := cw; k_inc_pass := 0;
                 k_margin := marg0 |}).
  assert (K0 : kinv g ows iws n sm0).
  { constructor; cbn [sm0 k_labels k_out_cw k_in_cw k_cw]; auto.
    - congruence.
    - intros x Hx. rewrite Hg in Hx. unfold lab, nthn. rewrite Forall_forall in HF. apply HF.
      apply nth_In. lia. }
  destruct (opt_loop_terminates g ows iws sls res n Hwf Hsym) with (tol := tol) (B := B) (fuel := fuel)
    (st := sm0) (inc := 0) as (st' & inc' & E); auto.
  { intros i Hi. apply Hdiag. lia. }
  { cbn [sm0 k_labels]. apply pass_fuel_gap; assumption. }
  destruct (optimize_core_flat_refines fuel n labels indices indptr data ows iws ocw icw cw sls res tol
              st' inc' Hcsr HL HF How Hiw Hocw Hicw Hcw Hsl E) as (incf & passes & Ef & _).
  exists (k_labels st'), incf, passes. exact Ef.
Qed.

(** Louvain._optimize's call: labels = arange(n), cluster weights = copies of the node weights,
    cluster_weights = zeros(n); fuel computed from the inputs. *)
Theorem optimize_core_flat_louvain_terminates_ok fuel n indices indptr (data ows iws sls : list Q) res tol :
  csr_wf n indptr indices data ->
  let g := csr_graph n indptr indices data in
  wsymmetric g ->
  (forall i, (i < n)%nat -> nthq sls i == entry g i i) ->
  length ows = n -> length iws = n -> length sls = n ->
  0 < tol ->
  (pass_fuel (objective_bound g ows iws res) (objective g ows iws res (seq 0 n)) tol <= fuel)%nat ->
  optimize_core fuel (seq 0 n) indices indptr data ows iws ows iws (repeat 0 n) sls res tol <> OutOfFuel.
Proof.
  intros Hcsr g Hsym Hdiag How Hiw Hsl Htol Hf.
  assert (Hg : length g = n) by apply csr_graph_length.
  destruct (optimize_core_flat_terminates_ok fuel n (seq 0 n) indices indptr data ows iws ows iws
              (repeat 0 n) sls res tol (objective_bound g ows iws res) Hcsr Hsym Hdiag)
    as (l' & inc & ps & E); auto.
  - apply seq_length.
  - apply Forall_forall. intros x Hx. apply in_seq in Hx. lia.
  - apply repeat_length.
  - intros c Hc. pose proof (csum_singletons g ows c) as Hs. rewrite Hg in Hs. apply Hs. exact Hc.
  - intros c Hc. pose proof (csum_singletons g iws c) as Hs. rewrite Hg in Hs. apply Hs. exact Hc.
  - intros c Hc. rewrite nthq_repeat by exact Hc. reflexivity.
  - intros l. apply objective_abs_bounded.
  - rewrite E. discriminate.
Qed.

(** Proofs about Model/Topology.v (C11): triangle counting, schedule independence, core numbers,
    clustering coefficient, clique counting. *)
From SKN Require Import Base.Util Model.Bfs Model.Topology Proofs.BfsProofs.
From Coq Require Import Permutation Sorted Lia QArith Lqa.
Close Scope Q_scope.
Open Scope nat_scope.

(** * Generic list / sum lemmas *)

Definition b2n (b : bool) : nat := if b then 1 else 0.

Lemma sumn_app l1 l2 : sumn (l1 ++ l2) = sumn l1 + sumn l2.
Proof. induction l1 as [|a t IH]; simpl; auto. rewrite IH. lia. Qed.

Lemma sumn_map_ext_in {A} (f h : A -> nat) (l : list A) :
  (forall x, In x l -> f x = h x) -> sumn (map f l) = sumn (map h l).
Proof.
  induction l as [|a t IH]; simpl; intros H; [reflexivity|].
  rewrite (H a) by (left; reflexivity). rewrite IH; [reflexivity|].
  intros x Hx. apply H. right. exact Hx.
Qed.

Lemma sumn_perm l1 l2 : Permutation l1 l2 -> sumn l1 = sumn l2.
Proof. induction 1; simpl; lia. Qed.

Lemma sumn_concat {A} (f : A -> nat) (ll : list (list A)) :
  sumn (map (fun c => sumn (map f c)) ll) = sumn (map f (concat ll)).
Proof.
  induction ll as [|c t IH]; simpl; auto.
  rewrite map_app, sumn_app, IH. reflexivity.
Qed.

Lemma length_filter_sum {A} (p : A -> bool) (l : list A) :
  length (filter p l) = sumn (map (fun x => b2n (p x)) l).
Proof. induction l as [|a t IH]; simpl; auto. destruct (p a); simpl; rewrite IH; reflexivity. Qed.

Lemma sumn_map_filter {A} (p : A -> bool) (f : A -> nat) (l : list A) :
  sumn (map f (filter p l)) = sumn (map (fun x => b2n (p x) * f x) l).
Proof.
  induction l as [|a t IH]; simpl; auto.
  destruct (p a); simpl; rewrite IH; lia.
Qed.

Lemma length_filter_flat_map {A B} (p : B -> bool) (f : A -> list B) (l : list A) :
  length (filter p (flat_map f l)) = sumn (map (fun x => length (filter p (f x))) l).
Proof.
  induction l as [|a t IH]; simpl; auto.
  rewrite filter_app, app_length, IH. reflexivity.
Qed.

Lemma filter_map_comm {A B} (p : B -> bool) (f : A -> B) (l : list A) :
  filter p (map f l) = map f (filter (fun x => p (f x)) l).
Proof. induction l as [|a t IH]; simpl; auto. destruct (p (f a)); simpl; rewrite IH; reflexivity. Qed.

Lemma filter_filter {A} (p q : A -> bool) (l : list A) :
  filter p (filter q l) = filter (fun x => q x && p x) l.
Proof.
  induction l as [|a t IH]; simpl; auto.
  destruct (q a); simpl; [destruct (p a); simpl|]; rewrite IH; reflexivity.
Qed.

Lemma b2n_mul_sum {A} (b : bool) (f : A -> nat) (l : list A) :
  b2n b * sumn (map f l) = sumn (map (fun x => b2n b * f x) l).
Proof. induction l as [|a t IH]; simpl; [lia|]. rewrite <- IH. lia. Qed.

Lemma b2n_and a b : b2n a * b2n b = b2n (a && b).
Proof. destruct a, b; reflexivity. Qed.

Lemma memn_cons x a l : memn x (a :: l) = (x =? a) || memn x l.
Proof. reflexivity. Qed.

Lemma memn_filter x p l : memn x (filter p l) = p x && memn x l.
Proof.
  induction l as [|a t IH]; simpl.
  - rewrite andb_false_r. reflexivity.
  - destruct (p a) eqn:E; rewrite ?memn_cons, IH.
    + destruct (Nat.eqb_spec x a) as [->|Ne]; simpl; [rewrite E; reflexivity|reflexivity].
    + destruct (Nat.eqb_spec x a) as [->|Ne]; simpl; [rewrite E; reflexivity|reflexivity].
Qed.

Lemma memn_seq x n : x < n -> memn x (seq 0 n) = true.
Proof. intros H. apply memn_In. apply in_seq. lia. Qed.

Lemma row_overflow (g : graph) u : length g <= u -> row g u = [].
Proof. intros H. unfold row. apply nth_overflow. exact H. Qed.

Lemma sorted_seq a n : StronglySorted lt (seq a n).
Proof.
  revert a; induction n as [|n IH]; intros a; simpl; constructor; auto.
  apply Forall_forall. intros x Hx. apply in_seq in Hx. lia.
Qed.

Lemma sorted_filter {A} (R : A -> A -> Prop) (p : A -> bool) (l : list A) :
  StronglySorted R l -> StronglySorted R (filter p l).
Proof.
  induction 1 as [|a t Ht IH Ha]; simpl; [constructor|].
  destruct (p a); auto. constructor; auto.
  rewrite Forall_forall in *. intros x Hx. apply filter_In in Hx. apply Ha. tauto.
Qed.

(** * 1. The two-pointer merge loop computes |l1 /\ l2| on strictly sorted lists *)

Lemma merge_count_inter (fuel : nat) (l1 l2 : list nat) :
  StronglySorted lt l1 -> StronglySorted lt l2 -> length l1 + length l2 <= fuel ->
  merge_count fuel l1 l2 = length (filter (fun x => memn x l2) l1).
Proof.
  revert l1 l2. induction fuel as [|f IH]; intros l1 l2 S1 S2 Hf.
  - destruct l1; simpl in *; [reflexivity|lia].
  - destruct l1 as [|a t1]; [reflexivity|].
    destruct l2 as [|b t2].
    + simpl. rewrite filter_none; [reflexivity|]. intros x _. reflexivity.
    + pose proof (StronglySorted_inv S1) as [S1t S1a].
      pose proof (StronglySorted_inv S2) as [S2t S2b].
      rewrite Forall_forall in S1a, S2b.
      cbn [merge_count].
      destruct (Nat.eqb_spec a b) as [E|Ne].
      * subst b. rewrite IH by (auto; simpl in Hf; lia).
        cbn [filter]. rewrite memn_cons, Nat.eqb_refl. cbn [orb length]. f_equal.
        f_equal. apply filter_ext_in. intros x Hx. rewrite memn_cons.
        specialize (S1a x Hx). destruct (Nat.eqb_spec x a); [lia|reflexivity].
      * destruct (Nat.ltb_spec a b) as [L|L].
        -- rewrite IH by (auto; simpl in *; lia).
           cbn [filter]. rewrite memn_cons.
           destruct (Nat.eqb_spec a b) as [E|_]; [contradiction|]. cbn [orb].
           assert (Hm : memn a t2 = false).
           { destruct (memn a t2) eqn:M; auto. apply memn_In in M. specialize (S2b a M). lia. }
           rewrite Hm. reflexivity.
        -- rewrite IH by (auto; simpl in *; lia).
           f_equal. apply filter_ext_in. intros x Hx. rewrite memn_cons.
           assert (Hx' : a <= x). { destruct Hx as [->|Hx]; [lia|]. specialize (S1a x Hx). lia. }
           destruct (Nat.eqb_spec x b); [lia|reflexivity].
Qed.

(** Per-node count = sum over out-neighbours v of |N+(u) /\ N+(v)|. *)
Theorem count_local_correct (d : graph) (u : nat) :
  (forall v, StronglySorted lt (row d v)) ->
  count_local d u =
  sumn (map (fun v => length (filter (fun x => memn x (row d v)) (row d u))) (row d u)).
Proof.
  intros HS. unfold count_local. apply sumn_map_ext_in. intros v _.
  apply merge_count_inter; auto.
Qed.

(** * 2. Schedule independence of the prange reduction *)

Lemma fold_left_add {A} (f : A -> nat) (l : list A) (acc : nat) :
  fold_left (fun a x => a + f x) l acc = acc + sumn (map f l).
Proof. revert acc; induction l as [|x t IH]; intros acc; simpl; [lia|]. rewrite IH. lia. Qed.

Theorem count_triangles_schedule_independent (d : graph) (sched : list (list nat)) :
  Permutation (concat sched) (seq 0 (length d)) ->
  count_triangles_sched d sched = count_triangles_from_dag d.
Proof.
  intros HP. unfold count_triangles_sched, count_triangles_from_dag.
  rewrite (sumn_map_ext_in _ (fun c => sumn (map (count_local d) c))).
  - rewrite sumn_concat. apply sumn_perm. apply Permutation_map. exact HP.
  - intros c _. rewrite fold_left_add. reflexivity.
Qed.

(** * 3. count_triangles = number of triples a < b < c pairwise adjacent *)

Definition out_p (g : graph) (u j : nat) : bool := (u <? j) && adjb g u j.

Lemma sym_rows_length g : length (sym_rows g) = length g.
Proof. unfold sym_rows. rewrite map_length, seq_length. reflexivity. Qed.

Lemma row_sym_rows g u : u < length g -> row (sym_rows g) u = filter (adjb g u) (seq 0 (length g)).
Proof. intros H. unfold row, sym_rows. rewrite nth_map_seq by exact H. reflexivity. Qed.

Lemma tri_dag_length g : length (tri_dag g) = length g.
Proof. unfold tri_dag. rewrite get_dag_length, sym_rows_length. reflexivity. Qed.

Lemma nthz_id_order n u : u < n -> nthz (id_order n) u = Z.of_nat u.
Proof.
  intros H. unfold nthz, id_order. rewrite nth_map_lt with (da := 0) by (rewrite seq_length; exact H).
  rewrite seq_nth by exact H. reflexivity.
Qed.

Lemma id_order_length n : length (id_order n) = n.
Proof. unfold id_order. rewrite map_length, seq_length. reflexivity. Qed.

Lemma row_tri_dag g u : u < length g ->
  row (tri_dag g) u = filter (out_p g u) (seq 0 (length g)).
Proof.
  intros Hu. unfold tri_dag. rewrite row_get_dag by (rewrite sym_rows_length; exact Hu).
  rewrite row_sym_rows by exact Hu. rewrite filter_filter.
  apply filter_ext_in. intros j Hj. apply in_seq in Hj. unfold out_p.
  rewrite andb_comm. f_equal.
  set (o := id_order (length g)).
  destruct (dag_removed o (nodup Z.eq_dec o) u j) eqn:E.
  - simpl. symmetry. apply Nat.ltb_ge.
    destruct (Nat.lt_ge_cases u j) as [L|L]; auto. exfalso.
    assert (F : dag_removed o (nodup Z.eq_dec o) u j = false).
    { apply dag_removed_false; [unfold o; rewrite id_order_length; exact Hu|].
      unfold o. rewrite !nthz_id_order by lia. lia. }
    congruence.
  - simpl. symmetry. apply Nat.ltb_lt.
    apply dag_removed_false in E; [|unfold o; rewrite id_order_length; exact Hu].
    unfold o in E. rewrite !nthz_id_order in E by lia. lia.
Qed.

Lemma tri_dag_sorted g v : StronglySorted lt (row (tri_dag g) v).
Proof.
  destruct (Nat.lt_ge_cases v (length g)) as [L|L].
  - rewrite row_tri_dag by exact L. apply sorted_filter. apply sorted_seq.
  - rewrite row_overflow by (rewrite tri_dag_length; exact L). constructor.
Qed.

Lemma triangles_spec_sum adj n :
  triangles_spec adj n =
  sumn (map (fun a => sumn (map (fun b => sumn (map (fun c =>
    b2n ((a <? b) && (b <? c) && adj a b && adj a c && adj b c)) (seq 0 n))) (seq 0 n))) (seq 0 n)).
Proof.
  unfold triangles_spec, all_triples.
  rewrite length_filter_flat_map. apply sumn_map_ext_in. intros a _.
  rewrite length_filter_flat_map. apply sumn_map_ext_in. intros b _.
  rewrite filter_map_comm, map_length, length_filter_sum. reflexivity.
Qed.

Theorem count_triangles_exact (g : graph) :
  count_triangles g = triangles_spec (adjb g) (length g).
Proof.
  rewrite triangles_spec_sum.
  unfold count_triangles, count_triangles_from_dag. rewrite tri_dag_length.
  apply sumn_map_ext_in. intros u Hu. apply in_seq in Hu.
  rewrite count_local_correct by (apply tri_dag_sorted).
  rewrite row_tri_dag by lia.
  rewrite sumn_map_filter. apply sumn_map_ext_in. intros v Hv. apply in_seq in Hv.
  rewrite length_filter_sum, sumn_map_filter, b2n_mul_sum.
  apply sumn_map_ext_in. intros w Hw. apply in_seq in Hw.
  rewrite row_tri_dag by lia. rewrite memn_filter, memn_seq by lia.
  rewrite andb_true_r, !b2n_and. f_equal. unfold out_p.
  destruct (Nat.ltb_spec u v), (Nat.ltb_spec v w), (Nat.ltb_spec u w);
    destruct (adjb g u v), (adjb g u w), (adjb g v w); simpl; try reflexivity; lia.
Qed.

(** * 4. Core decomposition, level L1: every admissible peeling sequence yields the core numbers *)

Lemma upd_nil {A} i (x : A) : upd [] i x = [].
Proof. unfold upd. destruct i; reflexivity. Qed.

Lemma upd_cons_0 {A} (a : A) l x : upd (a :: l) 0 x = x :: l.
Proof. reflexivity. Qed.

Lemma upd_cons_S {A} (a : A) l i x : upd (a :: l) (S i) x = a :: upd l i x.
Proof. reflexivity. Qed.

Lemma upd_length {A} (l : list A) i x : length (upd l i x) = length l.
Proof.
  revert i; induction l as [|a t IH]; intros i.
  - rewrite upd_nil. reflexivity.
  - destruct i; [reflexivity|]. rewrite upd_cons_S. simpl. rewrite IH. reflexivity.
Qed.

Lemma nth_upd_same {A} (l : list A) i x d : i < length l -> nth i (upd l i x) d = x.
Proof.
  revert i; induction l as [|a t IH]; intros i H; simpl in H; [lia|].
  destruct i; [reflexivity|]. rewrite upd_cons_S. simpl. apply IH. lia.
Qed.

Lemma nth_upd_other {A} (l : list A) i j x d : i <> j -> nth j (upd l i x) d = nth j l d.
Proof.
  revert i j; induction l as [|a t IH]; intros i j H.
  - rewrite upd_nil. reflexivity.
  - destruct i.
    + destruct j; [contradiction|]. reflexivity.
    + rewrite upd_cons_S. destruct j; [reflexivity|]. simpl. apply IH. lia.
Qed.

Lemma length_filter_le {A} (p q : A -> bool) (l : list A) :
  (forall x, In x l -> p x = true -> q x = true) -> length (filter p l) <= length (filter q l).
Proof.
  induction l as [|a t IH]; intros H; simpl; [lia|].
  assert (IH' : length (filter p t) <= length (filter q t)).
  { apply IH. intros x Hx. apply H. right. exact Hx. }
  destruct (p a) eqn:Ep.
  - rewrite (H a (or_introl eq_refl) Ep). simpl. lia.
  - destruct (q a); simpl; lia.
Qed.

Lemma deg_in_mono g (t a : list nat) v :
  (forall w, In w t -> In w a) -> deg_in g t v <= deg_in g a v.
Proof.
  intros H. unfold deg_in. apply length_filter_le.
  intros x _ Hx. apply memn_In. apply H. apply memn_In. exact Hx.
Qed.

Lemma in_core_mono g k k' v : k' <= k -> in_core g k v -> in_core g k' v.
Proof.
  intros Hk [s [Hv Hs]]. exists s. split; [exact Hv|].
  intros u Hu. specialize (Hs u Hu). lia.
Qed.

Lemma deg_in_overflow g s v : length g <= v -> deg_in g s v = 0.
Proof. intros H. unfold deg_in. rewrite row_overflow by exact H. reflexivity. Qed.

Lemma peel_run_inv (g : graph) (choice : list nat) :
  forall alive c labels out,
  peel_run g choice alive c labels = Some out ->
  (exists s, (forall v, In v alive -> In v s) /\ kcore_set g c s) ->
  (forall k t, c < k -> kcore_set g k t -> forall v, In v t -> In v alive) ->
  length out = length labels /\
  forall v, v < length labels ->
    (In v alive -> core_number g v (nthn out v)) /\
    (~ In v alive -> nthn out v = nthn labels v).
Proof.
  induction choice as [|v0 rest IH]; intros alive c labels out Hrun Ha Hb.
  - simpl in Hrun. destruct alive as [|x xs]; [|discriminate].
    injection Hrun as <-. split; [reflexivity|]. intros v _. split; [intros []|reflexivity].
  - simpl in Hrun.
    destruct (memn v0 alive && forallb (fun u => deg_in g alive v0 <=? deg_in g alive u) alive) eqn:Eg;
      [|discriminate].
    apply andb_true_iff in Eg. destruct Eg as [Hmem Hmin].
    apply memn_In in Hmem. rewrite forallb_forall in Hmin.
    set (d := deg_in g alive v0) in *.
    set (c' := Nat.max c d) in *.
    (* a witness for c' containing the whole current alive set *)
    assert (Ha' : exists s, (forall v, In v alive -> In v s) /\ kcore_set g c' s).
    { destruct (Nat.le_gt_cases d c) as [L|L].
      - replace c' with c by (unfold c'; lia). exact Ha.
      - replace c' with d by (unfold c'; lia). exists alive. split; [auto|].
        intros u Hu. specialize (Hmin u Hu). apply Nat.leb_le in Hmin. exact Hmin. }
    (* nothing outside alive (and not v0 either) lies in a k-core witness for k > c' *)
    assert (Hb0 : forall k t, c' < k -> kcore_set g k t -> forall v, In v t -> In v alive).
    { intros k t Hk Ht v Hv. apply (Hb k t); auto. unfold c' in Hk. lia. }
    assert (Hv0 : forall k t, c' < k -> kcore_set g k t -> ~ In v0 t).
    { intros k t Hk Ht Hin.
      pose proof (Ht v0 Hin) as H1.
      pose proof (deg_in_mono g t alive v0 (Hb0 k t Hk Ht)) as H2.
      fold d in H2. unfold c' in Hk. lia. }
    specialize (IH (remove Nat.eq_dec v0 alive) c' (upd labels v0 c') out Hrun).
    destruct IH as [Hlen Hout].
    { destruct Ha' as [s [Hs1 Hs2]]. exists s. split; [|exact Hs2].
      intros v Hv. apply in_remove in Hv. apply Hs1. tauto. }
    { intros k t Hk Ht v Hv. apply in_in_remove.
      - intros E. subst v. exact (Hv0 k t Hk Ht Hv).
      - exact (Hb0 k t Hk Ht v Hv). }
    rewrite upd_length in Hlen, Hout. split; [exact Hlen|].
    intros v Hv. specialize (Hout v Hv). destruct Hout as [Hin Hnot]. split.
    + intros Hal. destruct (Nat.eq_dec v v0) as [E|Ne].
      * subst v. rewrite Hnot by (apply remove_In).
        unfold nthn. rewrite nth_upd_same by exact Hv. split.
        -- destruct Ha' as [s [Hs1 Hs2]]. exists s. split; [apply Hs1; exact Hal|exact Hs2].
        -- intros k' [t [Ht1 Ht2]].
           destruct (Nat.le_gt_cases k' c') as [L|L]; [exact L|].
           exfalso. exact (Hv0 k' t L Ht2 Ht1).
      * apply Hin. apply in_in_remove; auto.
    + intros Hal. rewrite Hnot.
      * unfold nthn. apply nth_upd_other. intros E. subst v. contradiction.
      * intros Hr. apply in_remove in Hr. tauto.
Qed.

Theorem peel_is_core_number (g : graph) (choice labels : list nat) :
  peel g choice = Some labels ->
  length labels = length g /\ forall v, v < length g -> core_number g v (nthn labels v).
Proof.
  intros Hrun. unfold peel in Hrun.
  apply peel_run_inv in Hrun.
  - destruct Hrun as [Hlen Hout]. rewrite repeat_length in Hlen, Hout. split; [exact Hlen|].
    intros v Hv. apply (Hout v Hv). apply in_seq. lia.
  - exists (seq 0 (length g)). split; [auto|]. intros u _. lia.
  - intros k t Hk Ht v Hv. apply in_seq.
    destruct (Nat.lt_ge_cases v (length g)) as [L|L]; [lia|].
    specialize (Ht v Hv). rewrite deg_in_overflow in Ht by exact L. lia.
Qed.

(** An admissible sequence always exists and uses every node exactly once (so the theorem above is
    not vacuous and the labels are total): stated for the run itself. *)
Lemma core_number_unique g v k1 k2 : core_number g v k1 -> core_number g v k2 -> k1 = k2.
Proof.
  intros [A1 B1] [A2 B2]. apply Nat.le_antisymm; auto.
Qed.

(** * 5. Clustering coefficient *)

Lemma sym_degrees_spec g :
  sym_degrees g = map (degree_spec (adjb g) (length g)) (seq 0 (length g)).
Proof. unfold sym_degrees, sym_rows. rewrite map_map. reflexivity. Qed.

Lemma sum_dd1_spec g : sum_dd1 (sym_degrees g) = triples_spec2 (adjb g) (length g).
Proof.
  rewrite sym_degrees_spec. unfold sum_dd1, triples_spec2.
  rewrite filter_map_comm, map_map, sumn_map_filter.
  apply sumn_map_ext_in. intros v _. cbv zeta.
  destruct (1 <? degree_spec (adjb g) (length g) v); simpl; lia.
Qed.

Lemma qnat_zero n : (qnat n == 0)%Q -> n = 0.
Proof. unfold qnat, Qeq. simpl. lia. Qed.

Theorem clustering_coefficient_def (g : graph) :
  match clustering_coefficient g with
  | Some q => triples_spec2 (adjb g) (length g) <> 0 /\ (q == clustering_spec (adjb g) (length g))%Q
  | None => triples_spec2 (adjb g) (length g) = 0
  end.
Proof.
  unfold clustering_coefficient, n_edge_pairs, clustering_spec.
  rewrite sum_dd1_spec, count_triangles_exact.
  set (P := triples_spec2 (adjb g) (length g)).
  destruct (Qeq_bool (qnat P / 2) 0) eqn:E.
  - apply Qeq_bool_iff in E. apply qnat_zero.
    assert (H : (qnat P == (qnat P / 2) * 2)%Q) by field.
    rewrite H, E. reflexivity.
  - split.
    + intros HP. rewrite HP in E. vm_compute in E. discriminate.
    + apply Qred_correct.
Qed.

(** Proofs about Model/Topology.v (C11): triangle counting, schedule independence, core numbers,
    clustering coefficient, clique counting. *)
From SKN Require Import Base.Util Model.Bfs Model.Topology Proofs.BfsProofs.
From Coq Require Import Permutation Sorted Lia QArith Lqa.
Close Scope Q_scope.
Open Scope nat_scope.

(** * Generic list / sum lemmas *)

Definition b2n (b : bool) : nat := if b then 1 else 0.

Lemma sumn_app l1 l2 : sumn (l1 ++ l2) = sumn l1 + sumn l2.
Proof. induction l1 as [|a t IH]; simpl; auto. rewrite IH. lia. Qed.

Lemma sumn_cons a l : sumn (a :: l) = a + sumn l.
Proof. reflexivity. Qed.

Lemma sumn_map_ext_in {A} (f h : A -> nat) (l : list A) :
  (forall x, In x l -> f x = h x) -> sumn (map f l) = sumn (map h l).
Proof.
  induction l as [|a t IH]; simpl; intros H; [reflexivity|].
  rewrite (H a) by (left; reflexivity). rewrite IH; [reflexivity|].
  intros x Hx. apply H. right. exact Hx.
Qed.

Lemma sumn_perm l1 l2 : Permutation l1 l2 -> sumn l1 = sumn l2.
Proof. induction 1; simpl; lia. Qed.

Lemma sumn_concat {A} (f : A -> nat) (ll : list (list A)) :
  sumn (map (fun c => sumn (map f c)) ll) = sumn (map f (concat ll)).
Proof.
  induction ll as [|c t IH]; simpl; auto.
  rewrite map_app, sumn_app, IH. reflexivity.
Qed.

Lemma length_filter_sum {A} (p : A -> bool) (l : list A) :
  length (filter p l) = sumn (map (fun x => b2n (p x)) l).
Proof. induction l as [|a t IH]; simpl; auto. destruct (p a); simpl; rewrite IH; reflexivity. Qed.

Lemma sumn_map_filter {A} (p : A -> bool) (f : A -> nat) (l : list A) :
  sumn (map f (filter p l)) = sumn (map (fun x => b2n (p x) * f x) l).
Proof.
  induction l as [|a t IH]; simpl; auto.
  destruct (p a); simpl; rewrite IH; lia.
Qed.

Lemma length_filter_flat_map {A B} (p : B -> bool) (f : A -> list B) (l : list A) :
  length (filter p (flat_map f l)) = sumn (map (fun x => length (filter p (f x))) l).
Proof.
  induction l as [|a t IH]; simpl; auto.
  rewrite filter_app, app_length, IH. reflexivity.
Qed.

Lemma filter_map_comm {A B} (p : B -> bool) (f : A -> B) (l : list A) :
  filter p (map f l) = map f (filter (fun x => p (f x)) l).
Proof. induction l as [|a t IH]; simpl; auto. destruct (p (f a)); simpl; rewrite IH; reflexivity. Qed.

Lemma filter_filter {A} (p q : A -> bool) (l : list A) :
  filter p (filter q l) = filter (fun x => q x && p x) l.
Proof.
  induction l as [|a t IH]; simpl; auto.
  destruct (q a); simpl; [destruct (p a); simpl|]; rewrite IH; reflexivity.
Qed.

Lemma b2n_mul_sum {A} (b : bool) (f : A -> nat) (l : list A) :
  b2n b * sumn (map f l) = sumn (map (fun x => b2n b * f x) l).
Proof. induction l as [|a t IH]; simpl; [lia|]. rewrite <- IH. lia. Qed.

Lemma b2n_and a b : b2n a * b2n b = b2n (a && b).
Proof. destruct a, b; reflexivity. Qed.

Lemma memn_cons x a l : memn x (a :: l) = (x =? a) || memn x l.
Proof. reflexivity. Qed.

Lemma memn_filter x p l : memn x (filter p l) = p x && memn x l.
Proof.
  induction l as [|a t IH]; simpl.
  - rewrite andb_false_r. reflexivity.
  - destruct (p a) eqn:E; rewrite ?memn_cons, IH.
    + destruct (Nat.eqb_spec x a) as [->|Ne]; simpl; [rewrite E; reflexivity|reflexivity].
    + destruct (Nat.eqb_spec x a) as [->|Ne]; simpl; [rewrite E; reflexivity|reflexivity].
Qed.

Lemma memn_seq x n : x < n -> memn x (seq 0 n) = true.
Proof. intros H. apply memn_In. apply in_seq. lia. Qed.

Lemma row_overflow (g : graph) u : length g <= u -> row g u = [].
Proof. intros H. unfold row. apply nth_overflow. exact H. Qed.

Lemma sorted_seq a n : StronglySorted lt (seq a n).
Proof.
  revert a; induction n as [|n IH]; intros a; simpl; constructor; auto.
  apply Forall_forall. intros x Hx. apply in_seq in Hx. lia.
Qed.

Lemma sorted_filter {A} (R : A -> A -> Prop) (p : A -> bool) (l : list A) :
  StronglySorted R l -> StronglySorted R (filter p l).
Proof.
  induction 1 as [|a t Ht IH Ha]; simpl; [constructor|].
  destruct (p a); auto. constructor; auto.
  rewrite Forall_forall in *. intros x Hx. apply filter_In in Hx. apply Ha. tauto.
Qed.

(** * 1. The two-pointer merge loop computes |l1 /\ l2| on strictly sorted lists *)

Lemma merge_count_inter (fuel : nat) (l1 l2 : list nat) :
  StronglySorted lt l1 -> StronglySorted lt l2 -> length l1 + length l2 <= fuel ->
  merge_count fuel l1 l2 = length (filter (fun x => memn x l2) l1).
Proof.
  revert l1 l2. induction fuel as [|f IH]; intros l1 l2 S1 S2 Hf.
  - destruct l1; simpl in *; [reflexivity|lia].
  - destruct l1 as [|a t1]; [reflexivity|].
    destruct l2 as [|b t2].
    + simpl. rewrite filter_none; [reflexivity|]. intros x _. reflexivity.
    + pose proof (StronglySorted_inv S1) as [S1t S1a].
      pose proof (StronglySorted_inv S2) as [S2t S2b].
      rewrite Forall_forall in S1a, S2b.
      cbn [merge_count].
      destruct (Nat.eqb_spec a b) as [E|Ne].
      * subst b. rewrite IH by (auto; simpl in Hf; lia).
        cbn [filter]. rewrite memn_cons, Nat.eqb_refl. cbn [orb length]. f_equal.
        f_equal. apply filter_ext_in. intros x Hx. rewrite memn_cons.
        specialize (S1a x Hx). destruct (Nat.eqb_spec x a); [lia|reflexivity].
      * destruct (Nat.ltb_spec a b) as [L|L].
        -- rewrite IH by (auto; simpl in *; lia).
           cbn [filter]. rewrite memn_cons.
           destruct (Nat.eqb_spec a b) as [E|_]; [contradiction|]. cbn [orb].
           assert (Hm : memn a t2 = false).
           { destruct (memn a t2) eqn:M; auto. apply memn_In in M. specialize (S2b a M). lia. }
           rewrite Hm. reflexivity.
        -- rewrite IH by (auto; simpl in *; lia).
           f_equal. apply filter_ext_in. intros x Hx. rewrite memn_cons.
           assert (Hx' : a <= x). { destruct Hx as [->|Hx]; [lia|]. specialize (S1a x Hx). lia. }
           destruct (Nat.eqb_spec x b); [lia|reflexivity].
Qed.

(** Per-node count = sum over out-neighbours v of |N+(u) /\ N+(v)|. *)
Theorem count_local_correct (d : graph) (u : nat) :
  (forall v, StronglySorted lt (row d v)) ->
  count_local d u =
  sumn (map (fun v => length (filter (fun x => memn x (row d v)) (row d u))) (row d u)).
Proof.
  intros HS. unfold count_local. apply sumn_map_ext_in. intros v _.
  apply merge_count_inter; auto.
Qed.

(** * 2. Schedule independence of the prange reduction *)

Lemma fold_left_add {A} (f : A -> nat) (l : list A) (acc : nat) :
  fold_left (fun a x => a + f x) l acc = acc + sumn (map f l).
Proof. revert acc; induction l as [|x t IH]; intros acc; simpl; [lia|]. rewrite IH. lia. Qed.

Theorem count_triangles_schedule_independent (d : graph) (sched : list (list nat)) :
  Permutation (concat sched) (seq 0 (length d)) ->
  count_triangles_sched d sched = count_triangles_from_dag d.
Proof.
  intros HP. unfold count_triangles_sched, count_triangles_from_dag.
  rewrite (sumn_map_ext_in _ (fun c => sumn (map (count_local d) c))).
  - rewrite sumn_concat. apply sumn_perm. apply Permutation_map. exact HP.
  - intros c _. rewrite fold_left_add. reflexivity.
Qed.

(** * 3. count_triangles = number of triples a < b < c pairwise adjacent *)

Definition out_p (g : graph) (u j : nat) : bool := (u <? j) && adjb g u j.

Lemma sym_rows_length g : length (sym_rows g) = length g.
Proof. unfold sym_rows. rewrite map_length, seq_length. reflexivity. Qed.

Lemma row_sym_rows g u : u < length g -> row (sym_rows g) u = filter (adjb g u) (seq 0 (length g)).
Proof. intros H. unfold row, sym_rows. rewrite nth_map_seq by exact H. reflexivity. Qed.

Lemma tri_dag_length g : length (tri_dag g) = length g.
Proof. unfold tri_dag. rewrite get_dag_length, sym_rows_length. reflexivity. Qed.

Lemma nthz_id_order n u : u < n -> nthz (id_order n) u = Z.of_nat u.
Proof.
  intros H. unfold nthz, id_order. rewrite nth_map_lt with (da := 0) by (rewrite seq_length; exact H).
  rewrite seq_nth by exact H. reflexivity.
Qed.

Lemma id_order_length n : length (id_order n) = n.
Proof. unfold id_order. rewrite map_length, seq_length. reflexivity. Qed.

Lemma row_tri_dag g u : u < length g ->
  row (tri_dag g) u = filter (out_p g u) (seq 0 (length g)).
Proof.
  intros Hu. unfold tri_dag. rewrite row_get_dag by (rewrite sym_rows_length; exact Hu).
  rewrite row_sym_rows by exact Hu. rewrite filter_filter.
  apply filter_ext_in. intros j Hj. apply in_seq in Hj. unfold out_p.
  rewrite andb_comm. f_equal.
  set (o := id_order (length g)).
  destruct (dag_removed o (nodup Z.eq_dec o) u j) eqn:E.
  - simpl. symmetry. apply Nat.ltb_ge.
    destruct (Nat.lt_ge_cases u j) as [L|L]; auto. exfalso.
    assert (F : dag_removed o (nodup Z.eq_dec o) u j = false).
    { apply dag_removed_false; [unfold o; rewrite id_order_length; exact Hu|].
      unfold o. rewrite !nthz_id_order by lia. lia. }
    congruence.
  - simpl. symmetry. apply Nat.ltb_lt.
    apply dag_removed_false in E; [|unfold o; rewrite id_order_length; exact Hu].
    unfold o in E. rewrite !nthz_id_order in E by lia. lia.
Qed.

Lemma tri_dag_sorted g v : StronglySorted lt (row (tri_dag g) v).
Proof.
  destruct (Nat.lt_ge_cases v (length g)) as [L|L].
  - rewrite row_tri_dag by exact L. apply sorted_filter. apply sorted_seq.
  - rewrite row_overflow by (rewrite tri_dag_length; exact L). constructor.
Qed.

Lemma triangles_spec_sum adj n :
  triangles_spec adj n =
  sumn (map (fun a => sumn (map (fun b => sumn (map (fun c =>
    b2n ((a <? b) && (b <? c) && adj a b && adj a c && adj b c)) (seq 0 n))) (seq 0 n))) (seq 0 n)).
Proof.
  unfold triangles_spec, all_triples.
  rewrite length_filter_flat_map. apply sumn_map_ext_in. intros a _.
  rewrite length_filter_flat_map. apply sumn_map_ext_in. intros b _.
  rewrite filter_map_comm, map_length, length_filter_sum. reflexivity.
Qed.

Theorem count_triangles_exact (g : graph) :
  count_triangles g = triangles_spec (adjb g) (length g).
Proof.
  rewrite triangles_spec_sum.
  unfold count_triangles, count_triangles_from_dag. rewrite tri_dag_length.
  apply sumn_map_ext_in. intros u Hu. apply in_seq in Hu.
  rewrite count_local_correct by (apply tri_dag_sorted).
  rewrite row_tri_dag by lia.
  rewrite sumn_map_filter. apply sumn_map_ext_in. intros v Hv. apply in_seq in Hv.
  rewrite length_filter_sum, sumn_map_filter, b2n_mul_sum.
  apply sumn_map_ext_in. intros w Hw. apply in_seq in Hw.
  rewrite row_tri_dag by lia. rewrite memn_filter, memn_seq by lia.
  rewrite andb_true_r, !b2n_and. f_equal. unfold out_p.
  destruct (Nat.ltb_spec u v), (Nat.ltb_spec v w), (Nat.ltb_spec u w);
    destruct (adjb g u v), (adjb g u w), (adjb g v w); simpl; try reflexivity; lia.
Qed.

(** * 4. Core decomposition, level L1: every admissible peeling sequence yields the core numbers *)

Lemma upd_nil {A} i (x : A) : upd [] i x = [].
Proof. unfold upd. destruct i; reflexivity. Qed.

Lemma upd_cons_0 {A} (a : A) l x : upd (a :: l) 0 x = x :: l.
Proof. reflexivity. Qed.

Lemma upd_cons_S {A} (a : A) l i x : upd (a :: l) (S i) x = a :: upd l i x.
Proof. reflexivity. Qed.

Lemma upd_length {A} (l : list A) i x : length (upd l i x) = length l.
Proof.
  revert i; induction l as [|a t IH]; intros i.
  - rewrite upd_nil. reflexivity.
  - destruct i; [reflexivity|]. rewrite upd_cons_S. simpl. rewrite IH. reflexivity.
Qed.

Lemma nth_upd_same {A} (l : list A) i x d : i < length l -> nth i (upd l i x) d = x.
Proof.
  revert i; induction l as [|a t IH]; intros i H; simpl in H; [lia|].
  destruct i; [reflexivity|]. rewrite upd_cons_S. simpl. apply IH. lia.
Qed.

Lemma nth_upd_other {A} (l : list A) i j x d : i <> j -> nth j (upd l i x) d = nth j l d.
Proof.
  revert i j; induction l as [|a t IH]; intros i j H.
  - rewrite upd_nil. reflexivity.
  - destruct i.
    + destruct j; [contradiction|]. reflexivity.
    + rewrite upd_cons_S. destruct j; [reflexivity|]. simpl. apply IH. lia.
Qed.

Lemma length_filter_le {A} (p q : A -> bool) (l : list A) :
  (forall x, In x l -> p x = true -> q x = true) -> length (filter p l) <= length (filter q l).
Proof.
  induction l as [|a t IH]; intros H; simpl; [lia|].
  assert (IH' : length (filter p t) <= length (filter q t)).
  { apply IH. intros x Hx. apply H. right. exact Hx. }
  destruct (p a) eqn:Ep.
  - rewrite (H a (or_introl eq_refl) Ep). simpl. lia.
  - destruct (q a); simpl; lia.
Qed.

Lemma deg_in_mono g (t a : list nat) v :
  (forall w, In w t -> In w a) -> deg_in g t v <= deg_in g a v.
Proof.
  intros H. unfold deg_in. apply length_filter_le.
  intros x _ Hx. apply memn_In. apply H. apply memn_In. exact Hx.
Qed.

Lemma in_core_mono g k k' v : k' <= k -> in_core g k v -> in_core g k' v.
Proof.
  intros Hk [s [Hv Hs]]. exists s. split; [exact Hv|].
  intros u Hu. specialize (Hs u Hu). lia.
Qed.

Lemma deg_in_overflow g s v : length g <= v -> deg_in g s v = 0.
Proof. intros H. unfold deg_in. rewrite row_overflow by exact H. reflexivity. Qed.

Lemma peel_run_inv (g : graph) (choice : list nat) :
  forall alive c labels out,
  peel_run g choice alive c labels = Some out ->
  (exists s, (forall v, In v alive -> In v s) /\ kcore_set g c s) ->
  (forall k t, c < k -> kcore_set g k t -> forall v, In v t -> In v alive) ->
  length out = length labels /\
  forall v, v < length labels ->
    (In v alive -> core_number g v (nthn out v)) /\
    (~ In v alive -> nthn out v = nthn labels v).
Proof.
  induction choice as [|v0 rest IH]; intros alive c labels out Hrun Ha Hb.
  - simpl in Hrun. destruct alive as [|x xs]; [|discriminate].
    injection Hrun as <-. split; [reflexivity|]. intros v _. split; [intros []|reflexivity].
  - simpl in Hrun.
    destruct (memn v0 alive && forallb (fun u => deg_in g alive v0 <=? deg_in g alive u) alive) eqn:Eg;
      [|discriminate].
    apply andb_true_iff in Eg. destruct Eg as [Hmem Hmin].
    apply memn_In in Hmem. rewrite forallb_forall in Hmin.
    set (d := deg_in g alive v0) in *.
    set (c' := Nat.max c d) in *.
    (* a witness for c' containing the whole current alive set *)
    assert (Ha' : exists s, (forall v, In v alive -> In v s) /\ kcore_set g c' s).
    { destruct (Nat.le_gt_cases d c) as [L|L].
      - replace c' with c by (unfold c'; lia). exact Ha.
      - replace c' with d by (unfold c'; lia). exists alive. split; [auto|].
        intros u Hu. specialize (Hmin u Hu). apply Nat.leb_le in Hmin. exact Hmin. }
    (* nothing outside alive (and not v0 either) lies in a k-core witness for k > c' *)
    assert (Hb0 : forall k t, c' < k -> kcore_set g k t -> forall v, In v t -> In v alive).
    { intros k t Hk Ht v Hv. apply (Hb k t); auto. unfold c' in Hk. lia. }
    assert (Hv0 : forall k t, c' < k -> kcore_set g k t -> ~ In v0 t).
    { intros k t Hk Ht Hin.
      pose proof (Ht v0 Hin) as H1.
      pose proof (deg_in_mono g t alive v0 (Hb0 k t Hk Ht)) as H2.
      fold d in H2. unfold c' in Hk. lia. }
    specialize (IH (remove Nat.eq_dec v0 alive) c' (upd labels v0 c') out Hrun).
    destruct IH as [Hlen Hout].
    { destruct Ha' as [s [Hs1 Hs2]]. exists s. split; [|exact Hs2].
      intros v Hv. apply in_remove in Hv. apply Hs1. tauto. }
    { intros k t Hk Ht v Hv. apply in_in_remove.
      - intros E. subst v. exact (Hv0 k t Hk Ht Hv).
      - exact (Hb0 k t Hk Ht v Hv). }
    rewrite upd_length in Hlen, Hout. split; [exact Hlen|].
    intros v Hv. specialize (Hout v Hv). destruct Hout as [Hin Hnot]. split.
    + intros Hal. destruct (Nat.eq_dec v v0) as [E|Ne].
      * subst v. rewrite Hnot by (apply remove_In).
        unfold nthn. rewrite nth_upd_same by exact Hv. split.
        -- destruct Ha' as [s [Hs1 Hs2]]. exists s. split; [apply Hs1; exact Hal|exact Hs2].
        -- intros k' [t [Ht1 Ht2]].
           destruct (Nat.le_gt_cases k' c') as [L|L]; [exact L|].
           exfalso. exact (Hv0 k' t L Ht2 Ht1).
      * apply Hin. apply in_in_remove; auto.
    + intros Hal. rewrite Hnot.
      * unfold nthn. apply nth_upd_other. intros E. subst v. contradiction.
      * intros Hr. apply in_remove in Hr. tauto.
Qed.

Theorem peel_is_core_number (g : graph) (choice labels : list nat) :
  peel g choice = Some labels ->
  length labels = length g /\ forall v, v < length g -> core_number g v (nthn labels v).
Proof.
  intros Hrun. unfold peel in Hrun.
  apply peel_run_inv in Hrun.
  - destruct Hrun as [Hlen Hout]. rewrite repeat_length in Hlen, Hout. split; [exact Hlen|].
    intros v Hv. apply (Hout v Hv). apply in_seq. lia.
  - exists (seq 0 (length g)). split; [auto|]. intros u _. lia.
  - intros k t Hk Ht v Hv. apply in_seq.
    destruct (Nat.lt_ge_cases v (length g)) as [L|L]; [lia|].
    specialize (Ht v Hv). rewrite deg_in_overflow in Ht by exact L. lia.
Qed.

(** An admissible sequence always exists and uses every node exactly once (so the theorem above is
    not vacuous and the labels are total): stated for the run itself. *)
Lemma core_number_unique g v k1 k2 : core_number g v k1 -> core_number g v k2 -> k1 = k2.
Proof.
  intros [A1 B1] [A2 B2]. apply Nat.le_antisymm; auto.
Qed.

(** * 5. Clustering coefficient *)

Lemma sym_degrees_spec g :
  sym_degrees g = map (degree_spec (adjb g) (length g)) (seq 0 (length g)).
Proof. unfold sym_degrees, sym_rows. rewrite map_map. reflexivity. Qed.

Lemma sum_dd1_spec g : sum_dd1 (sym_degrees g) = triples_spec2 (adjb g) (length g).
Proof.
  rewrite sym_degrees_spec. unfold sum_dd1, triples_spec2.
  rewrite filter_map_comm, map_map, sumn_map_filter.
  apply sumn_map_ext_in. intros v _. cbv zeta.
  destruct (1 <? degree_spec (adjb g) (length g) v); simpl; lia.
Qed.

Lemma qnat_zero n : (qnat n == 0)%Q -> n = 0.
Proof. unfold qnat, Qeq. simpl. lia. Qed.

Theorem clustering_coefficient_def (g : graph) :
  match clustering_coefficient g with
  | Some q => triples_spec2 (adjb g) (length g) <> 0 /\ (q == clustering_spec (adjb g) (length g))%Q
  | None => triples_spec2 (adjb g) (length g) = 0
  end.
Proof.
  unfold clustering_coefficient, n_edge_pairs, clustering_spec.
  rewrite sum_dd1_spec, count_triangles_exact.
  set (P := triples_spec2 (adjb g) (length g)).
  destruct (Qeq_bool (qnat P / 2) 0) eqn:E.
  - apply Qeq_bool_iff in E. apply qnat_zero.
    assert (H : (qnat P == (qnat P / 2) * 2)%Q) by field.
    rewrite H, E. reflexivity.
  - split.
    + intros HP. rewrite HP in E. vm_compute in E. discriminate.
    + apply Qred_correct.
Qed.

(** The denominator is the number of connected triples: sum_v d_v (d_v - 1) = 2 #{b - v - c, b < c}. *)
From Coq Require Import Psatz.
Lemma pairs_sorted (p : nat -> bool) (l : list nat) :
  StronglySorted lt l ->
  2 * sumn (map (fun b => sumn (map (fun c => b2n ((b <? c) && p b && p c)) l)) l) =
  length (filter p l) * (length (filter p l) - 1).
Proof.
  induction 1 as [|a t Ht IH Ha]; [reflexivity|].
  rewrite Forall_forall in Ha.
  set (f := fun b c => b2n ((b <? c) && p b && p c)).
  change (2 * sumn (map (fun b => sumn (map (f b) (a :: t))) (a :: t)) =
          length (filter p (a :: t)) * (length (filter p (a :: t)) - 1)).
  change (2 * sumn (map (fun b => sumn (map (f b) t)) t) =
          length (filter p t) * (length (filter p t) - 1)) in IH.
  rewrite map_cons, sumn_cons. rewrite map_cons, sumn_cons.
  assert (Haa : f a a = 0) by (unfold f; rewrite Nat.ltb_irrefl; reflexivity).
  rewrite Haa.
  rewrite (sumn_map_ext_in (fun b => sumn (map (f b) (a :: t))) (fun b => sumn (map (f b) t)) t).
  2:{ intros b Hb. rewrite map_cons, sumn_cons. specialize (Ha b Hb). unfold f at 1.
      destruct (Nat.ltb_spec b a); [lia|]. reflexivity. }
  rewrite (sumn_map_ext_in (f a) (fun c => b2n (p a) * b2n (p c)) t).
  2:{ intros c Hc. specialize (Ha c Hc). unfold f. destruct (Nat.ltb_spec a c); [|lia]. rewrite b2n_and. reflexivity. }
  rewrite <- b2n_mul_sum, <- length_filter_sum.
  cbn [filter]. destruct (p a); cbn [b2n length]; nia.
Qed.

Lemma sumn_map_mul2 {A} (f : A -> nat) l : 2 * sumn (map f l) = sumn (map (fun x => 2 * f x) l).
Proof. induction l as [|a t IH]; [reflexivity|]. cbn [map]. rewrite !sumn_cons, <- IH. lia. Qed.

Theorem connected_triples_spec adj n : 2 * connected_triples adj n = triples_spec2 adj n.
Proof.
  unfold connected_triples, all_triples, triples_spec2.
  rewrite length_filter_flat_map, sumn_map_mul2. apply sumn_map_ext_in. intros v _.
  rewrite length_filter_flat_map.
  rewrite (sumn_map_ext_in _ (fun b => sumn (map (fun c => b2n ((b <? c) && adj v b && adj v c)) (seq 0 n)))).
  2:{ intros b _. rewrite filter_map_comm, map_length, length_filter_sum. reflexivity. }
  rewrite pairs_sorted by apply sorted_seq.
  cbv zeta. unfold degree_spec.
  destruct (length (filter (adj v) (seq 0 n))) as [|[|d]]; reflexivity.
Qed.

(** * 6. Cliques, level L1: the recursion counts the k-subsets that are cliques *)

Lemma sublists_k_0 l : sublists_k 0 l = [[]].
Proof. destruct l; reflexivity. Qed.

Lemma filter_forallb_sublists (p : nat -> bool) (l : list nat) :
  forall k, filter (forallb p) (sublists_k k l) = sublists_k k (filter p l).
Proof.
  induction l as [|a t IH]; intros k.
  - destruct k; reflexivity.
  - destruct k as [|k].
    + rewrite !sublists_k_0. reflexivity.
    + change (sublists_k (S k) (a :: t)) with (map (cons a) (sublists_k k t) ++ sublists_k (S k) t).
      rewrite filter_app, filter_map_comm. cbn [filter forallb].
      destruct (p a) eqn:E.
      * cbn [andb]. change (fun x => forallb p x) with (forallb p).
        rewrite !IH. reflexivity.
      * rewrite (filter_none (fun x => false && forallb p x)) by (intros; reflexivity).
        rewrite IH. reflexivity.
Qed.

Lemma count_sub_0 adj l : count_sub adj 0 l = 1.
Proof. unfold count_sub. rewrite sublists_k_0. reflexivity. Qed.

Lemma count_sub_S_nil adj k : count_sub adj (S k) [] = 0.
Proof. reflexivity. Qed.

Lemma count_sub_cons adj k a t :
  count_sub adj (S k) (a :: t) = count_sub adj k (filter (adj a) t) + count_sub adj (S k) t.
Proof.
  unfold count_sub.
  change (sublists_k (S k) (a :: t)) with (map (cons a) (sublists_k k t) ++ sublists_k (S k) t).
  rewrite filter_app, app_length, filter_map_comm, map_length. f_equal.
  rewrite <- filter_forallb_sublists, filter_filter. reflexivity.
Qed.

Lemma count_sub_1 adj l : count_sub adj 1 l = length l.
Proof.
  induction l as [|a t IH]; [reflexivity|].
  rewrite count_sub_cons, count_sub_0, IH. reflexivity.
Qed.

Lemma filter_comm {A} (p q : A -> bool) (l : list A) :
  filter p (filter q l) = filter q (filter p l).
Proof. rewrite !filter_filter. apply filter_ext. intros x. apply andb_comm. Qed.

Lemma count_sub_perm adj :
  (forall a b, adj a b = adj b a) ->
  forall k (l l' : list nat), Permutation l l' -> count_sub adj k l = count_sub adj k l'.
Proof.
  intros Hsym. induction k as [|k IHk]; intros l l' HP.
  - rewrite !count_sub_0. reflexivity.
  - induction HP as [|x l l' HP IH|x y l|l l' l'' HP1 IH1 HP2 IH2].
    + reflexivity.
    + rewrite !count_sub_cons, IH. f_equal. apply IHk. apply perm_filter. exact HP.
    + assert (E : adj y x = adj x y) by apply Hsym.
      rewrite !count_sub_cons. cbn [filter]. rewrite E.
      destruct (adj x y); [|lia].
      destruct k as [|k]; [rewrite !count_sub_0; lia|].
      rewrite !count_sub_cons. rewrite (filter_comm (adj x) (adj y) l). lia.
    + rewrite IH1, IH2. reflexivity.
Qed.

(** cliques_rec only depends on its node list up to permutation. *)
Lemma memn_perm x (s s' : list nat) : Permutation s s' -> memn x s = memn x s'.
Proof.
  intros HP. destruct (memn x s) eqn:E1, (memn x s') eqn:E2; auto.
  - apply memn_In in E1. apply (Permutation_in _ HP) in E1. apply memn_In in E1. congruence.
  - apply memn_In in E2. apply (Permutation_in _ (Permutation_sym HP)) in E2. apply memn_In in E2. congruence.
Qed.

Lemma inter_perm l (s s' : list nat) : Permutation s s' -> inter l s = inter l s'.
Proof. intros HP. unfold inter. apply filter_ext. intros w. apply memn_perm. exact HP. Qed.

(** [hc d j s]: what the recursion computes on a candidate list at depth j (0: its length). *)
Definition hc (d : graph) (j : nat) (s : list nat) : nat :=
  match j with O => length s | S j' => cliques_rec d j' s end.

Lemma cliques_rec_hc d j s :
  cliques_rec d j s = sumn (map (fun u => hc d j (inter (row d u) s)) s).
Proof. destruct j; reflexivity. Qed.

(** The DAG [d] orients the symmetric relation [adj] on the nodes < n by the injective key [ord]. *)
Definition dag_of (adj : nat -> nat -> bool) (ord : nat -> nat) (n : nat) (d : graph) : Prop :=
  (forall a b, adj a b = adj b a) /\
  (forall a b, a < n -> b < n -> ord a = ord b -> a = b) /\
  (forall u, u < n -> NoDup (row d u) /\
     forall w, In w (row d u) <-> (w < n /\ adj u w = true /\ ord u < ord w)).

(** Insertion sort by key, to put a candidate list in orientation order. *)
Fixpoint ins (ord : nat -> nat) (a : nat) (l : list nat) : list nat :=
  match l with
  | [] => [a]
  | b :: t => if ord a <=? ord b then a :: b :: t else b :: ins ord a t
  end.
Definition isort (ord : nat -> nat) (l : list nat) : list nat := fold_right (ins ord) [] l.

Lemma ins_perm ord a l : Permutation (a :: l) (ins ord a l).
Proof.
  induction l as [|b t IH]; simpl; [reflexivity|].
  destruct (ord a <=? ord b); [reflexivity|].
  eapply perm_trans; [apply perm_swap|]. apply perm_skip. exact IH.
Qed.

Lemma isort_perm ord l : Permutation l (isort ord l).
Proof.
  induction l as [|a t IH]; simpl; [reflexivity|].
  eapply perm_trans; [apply perm_skip; exact IH|]. apply ins_perm.
Qed.

Definition ole (ord : nat -> nat) (a b : nat) : Prop := ord a <= ord b.

Lemma ins_sorted ord a l : StronglySorted (ole ord) l -> StronglySorted (ole ord) (ins ord a l).
Proof.
  induction 1 as [|b t Ht IH Hb]; simpl; [repeat constructor|].
  destruct (Nat.leb_spec (ord a) (ord b)) as [L|L].
  - constructor; [constructor; auto|]. constructor; [exact L|].
    rewrite Forall_forall in *. intros x Hx. specialize (Hb x Hx). unfold ole in *. lia.
  - constructor; [exact IH|]. rewrite Forall_forall in *. intros x Hx.
    apply (Permutation_in _ (Permutation_sym (ins_perm ord a t))) in Hx.
    destruct Hx as [<-|Hx]; [unfold ole; lia|]. apply Hb. exact Hx.
Qed.

Lemma isort_sorted ord l : StronglySorted (ole ord) (isort ord l).
Proof. induction l as [|a t IH]; simpl; [constructor|]. apply ins_sorted. exact IH. Qed.

Lemma inter_nodup l s : NoDup l -> NoDup (inter l s).
Proof. intros H. unfold inter. apply NoDup_filter. exact H. Qed.

Lemma in_inter x l s : In x (inter l s) <-> In x l /\ In x s.
Proof. unfold inter. rewrite filter_In, memn_In. reflexivity. Qed.

(** Key step on a list in orientation order. *)
Lemma cliques_step_sorted adj ord n d :
  dag_of adj ord n d ->
  forall k s, StronglySorted (ole ord) s -> NoDup s -> (forall x, In x s -> x < n) ->
  sumn (map (fun u => count_sub adj k (inter (row d u) s)) s) = count_sub adj (S k) s.
Proof.
  intros [Hsym [Hinj HR]] k s HS. induction HS as [|a t Ht IH Ha]; intros Hnd Hlt.
  - reflexivity.
  - rewrite count_sub_cons. cbn [map]. rewrite sumn_cons.
    apply NoDup_cons_iff in Hnd. destruct Hnd as [Hat Hndt].
    assert (Han : a < n) by (apply Hlt; left; reflexivity).
    assert (Hltt : forall x, In x t -> x < n) by (intros x Hx; apply Hlt; right; exact Hx).
    rewrite Forall_forall in Ha.
    assert (Hlt_a : forall w, In w t -> ord a < ord w).
    { intros w Hw. specialize (Ha w Hw). unfold ole in Ha.
      destruct (Nat.eq_dec (ord a) (ord w)) as [E|Ne]; [|lia].
      apply Hinj in E; auto. subst w. contradiction. }
    f_equal.
    + (* the head: its candidates are exactly the later neighbours *)
      apply count_sub_perm; [exact Hsym|].
      destruct (HR a Han) as [Hnda Hrow].
      apply NoDup_Permutation; [apply inter_nodup; exact Hnda|apply NoDup_filter; exact Hndt|].
      intros w. rewrite in_inter, filter_In, Hrow. split.
      * intros [[Hwn [Hadj Hord]] [E|Hw]]; [subst w; lia|]. split; assumption.
      * intros [Hw Hadj]. split; [|right; exact Hw].
        split; [apply Hltt; exact Hw|]. split; [exact Hadj|apply Hlt_a; exact Hw].
    + (* the tail: a is not an out-neighbour of any later node *)
      rewrite <- IH by assumption.
      apply sumn_map_ext_in. intros u Hu. f_equal.
      unfold inter. apply filter_ext_in. intros w Hw. rewrite memn_cons.
      destruct (Nat.eqb_spec w a) as [E|Ne]; [|reflexivity]. exfalso. subst w.
      destruct (HR u (Hltt u Hu)) as [_ Hrow]. apply Hrow in Hw.
      specialize (Hlt_a u Hu). lia.
Qed.

Lemma cliques_step adj ord n d :
  dag_of adj ord n d ->
  forall k s, NoDup s -> (forall x, In x s -> x < n) ->
  sumn (map (fun u => count_sub adj k (inter (row d u) s)) s) = count_sub adj (S k) s.
Proof.
  intros Hd k s Hnd Hlt.
  pose proof (isort_perm ord s) as HP.
  rewrite (count_sub_perm adj (proj1 Hd) (S k) s (isort ord s) HP).
  rewrite <- (cliques_step_sorted adj ord n d Hd k (isort ord s)).
  - rewrite (sumn_perm _ _ (Permutation_map _ HP)).
    apply sumn_map_ext_in. intros u _. rewrite (inter_perm _ _ _ HP). reflexivity.
  - apply isort_sorted.
  - apply (Permutation_NoDup HP). exact Hnd.
  - intros x Hx. apply Hlt. apply (Permutation_in _ (Permutation_sym HP)). exact Hx.
Qed.

Lemma hc_count_sub adj ord n d :
  dag_of adj ord n d ->
  forall j s, NoDup s -> (forall x, In x s -> x < n) -> hc d j s = count_sub adj (S j) s.
Proof.
  intros Hd. induction j as [|j IH]; intros s Hnd Hlt.
  - simpl. rewrite count_sub_1. reflexivity.
  - change (hc d (S j) s) with (cliques_rec d j s). rewrite cliques_rec_hc.
    rewrite <- (cliques_step adj ord n d Hd (S j) s Hnd Hlt).
    apply sumn_map_ext_in. intros u Hu. apply IH.
    + apply inter_nodup. destruct Hd as [_ [_ HR]]. apply (HR u). apply Hlt. exact Hu.
    + intros x Hx. apply in_inter in Hx. apply Hlt. tauto.
Qed.

(** L1 recursion = number of k-subsets of the nodes that are cliques, for every k >= 2 and every
    orientation of the edges by an injective key. *)
Theorem cliques_L1_exact adj ord (d : graph) (k : nat) :
  dag_of adj ord (length d) d -> 2 <= k ->
  count_cliques_from_dag_L1 d k = cliques_spec adj (length d) k.
Proof.
  intros Hd Hk. unfold count_cliques_from_dag_L1, cliques_spec.
  replace k with (S (S (k - 2))) at 2 by lia.
  rewrite <- (hc_count_sub adj ord (length d) d Hd (S (k - 2))).
  - reflexivity.
  - apply seq_NoDup.
  - intros x Hx. apply in_seq in Hx. lia.
Qed.

Lemma adjb_sym g a b : adjb g a b = adjb g b a.
Proof. unfold adjb. apply orb_comm. Qed.

Lemma nthz_map_of_nat (l : list nat) u : nthz (map Z.of_nat l) u = Z.of_nat (nthn l u).
Proof. unfold nthz, nthn. change 0%Z with (Z.of_nat 0). apply map_nth. Qed.

Lemma dag_of_get_dag (g : graph) (argsort : list nat) :
  wf_graph g -> (forall u, NoDup (row g u)) -> (forall u v, In v (row g u) -> In u (row g v)) ->
  NoDup argsort -> length argsort = length g ->
  dag_of (adjb g) (nthn argsort) (length g) (get_dag g (map Z.of_nat argsort)).
Proof.
  intros Hwf Hnd Hsym Hnda Hlen. split; [apply adjb_sym|]. split.
  - intros a b Ha Hb E. unfold nthn in E.
    apply (proj1 (NoDup_nth argsort 0) Hnda a b); [lia|lia|exact E].
  - intros u Hu. split.
    + rewrite row_get_dag by exact Hu. apply NoDup_filter. apply Hnd.
    + intros w. rewrite get_dag_exact; [|exact Hwf|rewrite map_length; exact Hlen|exact Hu].
      rewrite !nthz_map_of_nat. split.
      * intros [Hin [_ Hlt]]. split; [exact (Hwf _ _ Hin)|]. split; [|lia].
        unfold adjb. apply orb_true_iff. left. apply memn_In. exact Hin.
      * intros [_ [Hadj Hlt]]. split; [|lia].
        unfold adjb in Hadj. apply orb_true_iff in Hadj.
        destruct Hadj as [H|H]; apply memn_In in H; [exact H|apply Hsym; exact H].
Qed.

(** count_cliques at level L1 on an undirected graph (symmetric pattern, duplicate-free rows), for
    every answer of argsort that is a permutation of the nodes, and every k >= 2. *)
Theorem count_cliques_L1_exact (g : graph) (k : nat) (argsort : list nat) :
  wf_graph g -> (forall u, NoDup (row g u)) -> (forall u v, In v (row g u) -> In u (row g v)) ->
  NoDup argsort -> length argsort = length g -> 2 <= k ->
  count_cliques_L1 g k argsort = Ok (cliques_spec (adjb g) (length g) k).
Proof.
  intros Hwf Hnd Hsym Hnda Hlen Hk. unfold count_cliques_L1.
  destruct (Nat.ltb_spec k 2) as [L|_]; [lia|]. f_equal.
  pose proof (dag_of_get_dag g argsort Hwf Hnd Hsym Hnda Hlen) as Hd.
  rewrite <- (get_dag_length g (map Z.of_nat argsort)) in Hd at 1.
  rewrite (cliques_L1_exact (adjb g) (nthn argsort) _ k Hd Hk).
  rewrite get_dag_length. reflexivity.
Qed.

(** * MinHeap, level L0 (partial): under the heap invariant the popped node has minimum score *)

Lemma parent_lt (i : nat) : 0 < i -> Z.to_nat (parent i) < i.
Proof.
  intros H. unfold parent.
  assert (H1 : ((Z.of_nat i - 1) / 2 <= Z.of_nat i - 1)%Z) by (apply Z.div_le_upper_bound; lia).
  assert (H2 : (0 <= (Z.of_nat i - 1) / 2)%Z) by (apply Z.div_pos; lia).
  lia.
Qed.

Lemma parent_0 : parent 0 = (-1)%Z.
Proof. reflexivity. Qed.

Lemma heap_root_min (h : heap) (scores : list Z) :
  heap_ok h scores -> forall i, i < h_size h -> (score_at h scores 0 <= score_at h scores i)%Z.
Proof.
  intros [_ [_ Hord]] i. induction i as [i IH] using lt_wf_ind. intros Hi.
  destruct (Nat.eq_dec i 0) as [->|Ne]; [lia|].
  pose proof (parent_lt i ltac:(lia)) as Hp.
  specialize (Hord i ltac:(lia) Hi).
  specialize (IH _ Hp ltac:(lia)). lia.
Qed.

Lemma pop_min_root (h : heap) (scores : list Z) : fst (pop_min h scores) = nthn (h_val h) 0.
Proof. unfold pop_min. destruct (h_size h =? 1); reflexivity. Qed.

Theorem heap_pop_is_min_partial (h : heap) (scores : list Z) :
  heap_ok h scores -> 0 < h_size h ->
  let m := fst (pop_min h scores) in
  m = nthn (h_val h) 0 /\
  forall i, i < h_size h -> (nthz scores m <= nthz scores (nthn (h_val h) i))%Z.
Proof.
  intros Hok Hs. cbv zeta. rewrite pop_min_root. split; [reflexivity|].
  intros i Hi. exact (heap_root_min h scores Hok i Hi).
Qed.

(** A popped node keeps pos = 0 (the code never clears it): decrease_key on it does nothing. *)
Theorem decrease_key_stale_noop (h : heap) (i : nat) (scores : list Z) :
  nthn (h_pos h) i = 0 -> decrease_key h i scores = h.
Proof.
  intros H. unfold decrease_key. rewrite H. destruct (0 <? h_size h); reflexivity.
Qed.

Lemma heap_ok_b_sound (h : heap) (scores : list Z) : heap_ok_b h scores = true -> heap_ok h scores.
Proof.
  unfold heap_ok_b. intros H. apply andb_true_iff in H. destruct H as [H H3].
  apply andb_true_iff in H. destruct H as [H1 H2].
  rewrite forallb_forall in H2, H3. split; [apply Nat.leb_le; exact H1|]. split.
  - intros i Hi. specialize (H2 i ltac:(apply in_seq; lia)).
    apply andb_true_iff in H2. destruct H2 as [A B].
    apply Nat.ltb_lt in A. apply Nat.eqb_eq in B. split; assumption.
  - intros i Hi0 Hi. specialize (H3 i ltac:(apply in_seq; lia)). apply Z.leb_le in H3. exact H3.
Qed.

(** End-to-end statements of property C07, composed from the per-unit theorems. *)
From Coq Require Import Permutation Lia QArith Lqa.
From SKN Require Import Base.Util Model.Dendrogram Model.Cuts Model.Hierarchy Model.Paris Proofs.DendroBase
     Proofs.HierarchyBase Proofs.HierarchyProofs Proofs.GetDendrogramProofs Proofs.TreeBuildProofs Proofs.SplitProofs
     Proofs.ParisProofs Proofs.ParisReducible Proofs.ParisTotal Gen.ParisSrc.
Close Scope Q_scope.

(** What the property demands of one dendrogram attribute over n nodes: it is valid (n - 1 rows, row t merges two
    distinct clusters existing at step t, each merged once, last size n), the size column counts the leaves
    below each merge, and the heights never decrease. *)
Definition good_dendrogram (n : nat) (D : dendrogram) : Prop :=
  valid n D = true /\
  (forall k r, nth_error D k = Some r -> r_size r = length (leaves n D (n + k))) /\
  sortedq (heights D) = true.

Lemma good_of_valid_sorted n D : valid n D = true -> sortedq (heights D) = true -> good_dendrogram n D.
Proof. intros Hv Hs. split; [exact Hv|]. split; [exact (valid_size_leaves n D Hv) | exact Hs]. Qed.

Lemma tleaves_pos t : tree_shape t = true -> 1 <= length (tleaves t).
Proof.
  induction t as [i|ts IH] using ptree_ind2; intros Hs; [simpl; lia|].
  cbn [tree_shape] in Hs. apply andb_true_iff in Hs. destruct Hs as [H2 Hall]. apply Nat.leb_le in H2.
  destruct ts as [|a ts]; [simpl in H2; lia|].
  cbn [tleaves flat_map]. rewrite app_length. inversion IH as [|? ? Ha _]; subst.
  cbn [forallb] in Hall. apply andb_true_iff in Hall. destruct Hall as [Hsa _]. specialize (Ha Hsa). lia.
Qed.

Lemma tree_ok_two n t : tree_ok n t -> 2 <= n.
Proof.
  intros (Hsh & Hp & ts & ->). apply Permutation_length in Hp. rewrite seq_length in Hp. rewrite <- Hp.
  cbn [tree_shape] in Hsh. apply andb_true_iff in Hsh. destruct Hsh as [H2 Hall]. apply Nat.leb_le in H2.
  destruct ts as [|a [|b ts]]; [simpl in H2; lia | simpl in H2; lia |].
  cbn [forallb] in Hall. apply andb_true_iff in Hall. destruct Hall as [Ha Hall].
  apply andb_true_iff in Hall. destruct Hall as [Hb _].
  cbn [tleaves flat_map]. rewrite !app_length. assert (X := tleaves_pos a Ha). assert (Y := tleaves_pos b Hb). lia.
Qed.

(** tree -> rows -> shifted heights -> reordered: the post-processing shared by the two Louvain hierarchies. *)
Lemma postprocess_valid n t : tree_ok n t -> exists D, postprocess t = Ok D /\ good_dendrogram n D.
Proof.
  intros Ht. destruct (get_dendrogram_valid n t Ht) as (D0 & E0 & Hv0 & Hm0 & _).
  assert (Hn := tree_ok_two n t Ht).
  assert (Hne : D0 <> []).
  { intros ->. apply valid_wf in Hv0. destruct Hv0 as [Hlen _ _ _]. simpl in Hlen. lia. }
  destruct (shift_heights_valid n D0 Hv0 Hne) as (D1 & E1 & Hv1 & Hm1 & _).
  destruct (reorder_valid n D1 Hv1 (Hm1 Hm0)) as (D2 & E2 & Hv2 & Hs2 & _).
  exists D2. split; [|now apply good_of_valid_sorted].
  unfold postprocess. rewrite E0, E1. exact E2.
Qed.

(** LouvainHierarchy.fit for ANY answers of the Louvain oracle that respect its contract ([levels_ok]). *)
Theorem louvain_hierarchy_valid n levels t :
  2 <= n -> levels_ok n levels -> lh_tree n levels = Ok t ->
  exists D, louvain_hierarchy_fit n levels = Ok D /\ good_dendrogram n D.
Proof.
  intros Hn Hl Ht. assert (Hok : tree_ok n t) by exact (lh_tree_ok n levels t Hn Hl Ht).
  destruct (postprocess_valid n t Hok) as (D & E & Hg). exists D. split; [|exact Hg].
  unfold louvain_hierarchy_fit. rewrite Ht. exact E.
Qed.

(** LouvainIteration.fit for ANY Louvain oracle returning one label per node, any depth: never fails, valid. *)
Theorem louvain_iteration_valid oracle has_edge depth n :
  2 <= n -> (forall l, length (oracle l) = length l) ->
  exists D, louvain_iteration_fit oracle has_edge depth n = Ok D /\ good_dendrogram n D.
Proof.
  intros Hn Ho.
  assert (Hne : seq 0 n <> []) by (destruct n; [lia | discriminate]).
  destruct (ri_total oracle has_edge depth (seq 0 n) Ho Hne) as [t Ht]. rewrite seq_length in Ht.
  destruct (ri_tree_ok (S n) oracle has_edge depth (seq 0 n) t Ho (seq_NoDup n 0) Ht) as (Hs & Hp & Hnode).
  rewrite seq_length in Hnode.
  assert (Hok : tree_ok n t) by (split; [exact Hs | split; [exact Hp | exact (Hnode Hn)]]).
  destruct (postprocess_valid n t Hok) as (D & E & Hg). exists D. split; [|exact Hg].
  unfold louvain_iteration_fit. rewrite Ht. exact E.
Qed.

(** Paris in exact arithmetic with reorder = True: whenever the run ends, the output is a good dendrogram. *)
Theorem paris_exact_valid hinf n G wout win D m t :
  graph_ok n G -> weights_ok n wout -> weights_ok n win ->
  paris_core exact false hinf n G wout win = Some (Ok (D, m, t)) ->
  (forall r, In r D -> (r_height r <= hinf)%Q) ->
  exists D', reorder_dendrogram D = Ok D' /\ good_dendrogram n D' /\ Permutation (merge_view n D) (merge_view n D').
Proof.
  intros HG Ho Hi Hrun Hinf.
  assert (Hv := paris_rows_valid exact false hinf n G wout win D m t Hrun).
  assert (Hm := paris_reducible hinf n G wout win D m t HG Ho Hi Hrun Hinf).
  destruct (reorder_valid n D Hv Hm) as (D' & E & Hv' & Hs' & Hp).
  exists D'. split; [exact E|]. split; [now apply good_of_valid_sorted | exact Hp].
Qed.

(** Total version: on every admissible input the exact model ends normally within its fuel (never KeyError, never out
    of fuel), its rows are a valid dendrogram, and with reorder = True the output is a good dendrogram. *)
Theorem paris_exact_total_valid hinf n G wout win :
  1 <= n -> graph_ok n G -> weights_ok n wout -> weights_ok n win ->
  exists D m t, paris_core exact false hinf n G wout win = Some (Ok (D, m, t)) /\ valid n D = true /\
    ((forall r, In r D -> (r_height r <= hinf)%Q) ->
     exists D', reorder_dendrogram D = Ok D' /\ good_dendrogram n D' /\ Permutation (merge_view n D) (merge_view n D')).
Proof.
  intros Hn HG Ho Hi. destruct (paris_total hinf n G wout win Hn HG Ho Hi) as (D & m & t & Hrun).
  exists D, m, t. split; [exact Hrun|]. split; [exact (paris_rows_valid exact false hinf n G wout win D m t Hrun)|].
  intros Hinf. exact (paris_exact_valid hinf n G wout win D m t HG Ho Hi Hrun Hinf).
Qed.

(** The proposed repair of D25 (clamped heights), for ANY rounding: valid and sorted after reordering. *)
Theorem paris_clamped_valid R hinf n G wout win D m t :
  paris_core R true hinf n G wout win = Some (Ok (D, m, t)) ->
  (forall r, In r D -> (r_height r <= hinf)%Q) ->
  exists D', reorder_dendrogram D = Ok D' /\ good_dendrogram n D'.
Proof.
  intros Hrun Hinf.
  assert (Hv := paris_rows_valid R true hinf n G wout win D m t Hrun).
  assert (Hm := paris_clamped_hmono R hinf n G wout win D m t Hrun Hinf).
  destruct (reorder_valid n D Hv Hm) as (D' & E & Hv' & Hs' & _).
  exists D'. split; [exact E | now apply good_of_valid_sorted].
Qed.

(** The same statement about the model of the CURRENT source ([paris_src_clamp] is regenerated from paris.pyx on
    every run, harness/translators/paris.py): for any rounding — in particular the IEEE one of the compiled code —
    the output is a good dendrogram PROVIDED the source clamps the heights.  On a tree where it does not (defect
    D25) the hypothesis is false and [paris_float_inversion] shows that it is needed. *)
Theorem paris_source_valid R hinf n G wout win D m t :
  paris_src_clamp = true ->
  paris_core R paris_src_clamp hinf n G wout win = Some (Ok (D, m, t)) ->
  (forall r, In r D -> (r_height r <= hinf)%Q) ->
  exists D', reorder_dendrogram D = Ok D' /\ good_dendrogram n D'.
Proof. intros Hc. rewrite Hc. apply paris_clamped_valid. Qed.

(** The source's tie branch is the exact test with the smallest-index choice (generated fact; [reflexivity] fails —
    and with it this file — as soon as paris.pyx uses any other tie rule). *)
Lemma paris_source_tie_exact : paris_src_tie_exact = true.
Proof. reflexivity. Qed.

(** Bipartite input (_split_vars): from a good full dendrogram over n1 + n2 nodes, the row and column dendrograms are
    good dendrograms over the rows / the columns and show exactly the merges of the full one restricted to each side. *)
Theorem split_vars_valid D n1 n2 :
  1 <= n1 -> 1 <= n2 -> good_dendrogram (n1 + n2) D ->
  exists Dr Dc, split_dendrogram D n1 n2 = Ok (Dr, Dc) /\ good_dendrogram n1 Dr /\ good_dendrogram n2 Dc /\
                own_view n1 Dr = restrict_view (n1 + n2) D 0 n1 /\ own_view n2 Dc = restrict_view (n1 + n2) D n1 n2.
Proof.
  intros H1 H2 (Hv & _ & Hs).
  destruct (split_dendrogram_valid D n1 n2 H1 H2 Hv) as (Dr & Dc & E & Hvr & Hvc).
  destruct (split_dendrogram_agrees D n1 n2 Dr Dc H1 H2 Hv E) as [Ar Ac].
  exists Dr, Dc. split; [exact E|].
  assert (Er : split_side D n1 n2 0 n1 = Ok Dr /\ split_side D n1 n2 n1 n2 = Ok Dc).
  { unfold split_dendrogram in E. destruct (split_side D n1 n2 0 n1) as [a|e1]; destruct (split_side D n1 n2 n1 n2) as [b|e2];
      try discriminate. inversion E; subst. split; reflexivity. }
  destruct Er as [Er Ec].
  split; [apply good_of_valid_sorted; [exact Hvr | exact (split_side_sorted D n1 n2 0 n1 Dr Hv H1 ltac:(lia) Er Hs)]|].
  split; [apply good_of_valid_sorted; [exact Hvc | exact (split_side_sorted D n1 n2 n1 n2 Dc Hv H2 ltac:(lia) Ec Hs)]|].
  split; [exact Ar | exact Ac].
Qed.

(** [valid] (a replay) against its static description. *)
Theorem valid_characterisation n D :
  valid n D = true <->
  (S (length D) = n /\ NoDup (flat_map children D) /\ ids_lt n D /\ sizes_add n D).
Proof.
  split.
  - intros H. destruct (valid_wf n D H) as [a b c d]. tauto.
  - intros (a & b & c & d). apply wf_valid. now split.
Qed.

(** Row validity of Paris with its corollaries, in one statement. *)
Theorem paris_rows_valid_full R clamp hinf n G wout win D m t :
  paris_core R clamp hinf n G wout win = Some (Ok (D, m, t)) ->
  valid n D = true /\ S (length D) = n /\
  (forall k r, nth_error D k = Some r -> r_size r = length (leaves n D (n + k))) /\
  (D <> [] -> r_size (last D drow0) = n).
Proof.
  intros H. split; [exact (paris_rows_valid R clamp hinf n G wout win D m t H)|].
  exact (paris_rows_sizes R clamp hinf n G wout win D m t H).
Qed.

Print Assumptions louvain_hierarchy_valid.
Print Assumptions louvain_iteration_valid.
Print Assumptions paris_exact_valid.
Print Assumptions paris_clamped_valid.
Print Assumptions paris_exact_total_valid.
Print Assumptions split_vars_valid.

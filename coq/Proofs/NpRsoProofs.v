(** C04 about the term regenerated from sknetwork/linalg/ppr_solver.py (Gen/NpRso.v, language and semantics of
    Model/NpVec.v), over R: RandomSurferOperator(adjacency, seeds, damping)._matvec is the operator shared by the
    piteration, lanczos and bicgstab solvers.  For every non-negative adjacency matrix (as an index function), restart
    distribution, damping factor and vector: the operator preserves the total mass, and a fixed point of total mass 1
    satisfies the PageRank equation x = a P'^T x + (1 - a) y, where P' is the transition matrix in which a node without
    out-links restarts from y. *)
From SKN Require Import Base.Util Model.Gnn Model.NpExpr Model.NpVec Gen.NpRso Proofs.NpVecProofs Proofs.NpModularityProofs.
Set Warnings "-notation-overridden,-ambiguous-paths".
From Coq Require Import Reals Lra String.
Local Open Scope R_scope.
Local Open Scope string_scope.

Definition env_rso (n : nat) (A : nat -> nat -> R) (s x : nat -> R) (alpha : R) : venv :=
  ("adjacency", WM n n A) :: ("seeds", WV n s) :: ("damping_factor", WS alpha) :: ("x", WV n x) :: nil.

(** 1 when node j has outgoing weight, else 0 — as the code computes it: adjacency.dot(ones).astype(bool) *)
Definition has_out (n : nat) (A : nat -> nat -> R) (j : nat) : R :=
  if Reqb (lsum (seq 0 n) (fun k => A j k * 1)) 0 then 0 else 1.
(** the operator as the term denotes it *)
Definition rso (n : nat) (A : nat -> nat -> R) (s : nat -> R) (alpha : R) (x : nat -> R) (i : nat) : R :=
  lsum (seq 0 n) (fun j => alpha * nrow n A j i * x j) +
  s i * lsum (seq 0 n) (fun j => (1 - alpha * has_out n A j) * x j).
(** transition probability j -> i when a node without out-links restarts from s *)
Definition patched (n : nat) (A : nat -> nat -> R) (s : nat -> R) (j i : nat) : R :=
  if Reqb (lsum (seq 0 n) (A j)) 0 then s i else nrow n A j i.

Lemma src_rso_denotes n A s x alpha :
  rvdenote (env_rso n A s x alpha) src_rso_matvec = Some (WV n (rso n A s alpha x)).
Proof. unfold rvdenote, env_rso, src_rso_matvec. repeat (cbn; rewrite ?Nat.eqb_refl). reflexivity. Qed.

Lemma out_sum n (A : nat -> nat -> R) j : lsum (seq 0 n) (fun k => A j k * 1) = lsum (seq 0 n) (A j).
Proof. apply lsum_ext. intros; lra. Qed.

(** the row of normalize(A) at j sums to has_out j *)
Lemma nrow_sum_has_out n A j : nonneg_mat n A -> (j < n)%nat -> lsum (seq 0 n) (nrow n A j) = has_out n A j.
Proof.
  intros HA Hj. unfold has_out. rewrite out_sum.
  destruct (rsum_nonneg_cases n (A j)) as [H0|Hpos]; [intros k Hk; apply HA; assumption| |].
  - change (rsum n (A j)) with (lsum (seq 0 n) (A j)) in H0. rewrite H0.
    replace (Reqb 0 0) with true by (symmetry; apply Reqb_true; reflexivity).
    apply lsum_zero. intros k Hk. apply in_seq0 in Hk. apply nrow_zero; assumption.
  - pose proof (nrow_sum_1 n A j HA Hj Hpos) as H1. change (rsum n (nrow n A j)) with (lsum (seq 0 n) (nrow n A j)) in H1.
    change (rsum n (A j)) with (lsum (seq 0 n) (A j)) in Hpos.
    destruct (Reqb (lsum (seq 0 n) (A j)) 0) eqn:E; [apply Reqb_true in E; lra | exact H1].
Qed.

Theorem rso_preserves_mass n A s alpha x :
  nonneg_mat n A -> lsum (seq 0 n) s = 1 ->
  lsum (seq 0 n) (rso n A s alpha x) = lsum (seq 0 n) x.
Proof.
  intros HA Hs. unfold rso. rewrite lsum_add.
  (* first part: swap, then the column sums of alpha * normalize(A)^T are alpha * has_out *)
  rewrite lsum_swap.
  rewrite (lsum_ext (seq 0 n) (fun j => lsum (seq 0 n) (fun i => alpha * nrow n A j i * x j))
                    (fun j => alpha * has_out n A j * x j)).
  2:{ intros j Hj. apply in_seq0 in Hj. rewrite lsum_scale_r.
      rewrite lsum_scale. rewrite (nrow_sum_has_out n A j HA Hj). reflexivity. }
  rewrite lsum_scale_r, Hs, Rmult_1_l. rewrite <- lsum_add. apply lsum_ext. intros j _. ring.
Qed.

Theorem rso_fixed_point_is_pagerank n A s alpha x :
  nonneg_mat n A ->
  (forall i, (i < n)%nat -> rso n A s alpha x i = x i) -> lsum (seq 0 n) x = 1 ->
  forall i, (i < n)%nat ->
    x i = alpha * lsum (seq 0 n) (fun j => patched n A s j i * x j) + (1 - alpha) * s i.
Proof.
  intros HA Hfix Hx i Hi. rewrite <- (Hfix i Hi) at 1. unfold rso.
  (* split the patched sum into the normalised part and the sink part *)
  assert (Hp : forall j, (j < n)%nat -> patched n A s j i = nrow n A j i + s i * (1 - has_out n A j)).
  { intros j Hj. unfold patched, has_out. rewrite out_sum.
    destruct (Reqb (lsum (seq 0 n) (A j)) 0) eqn:E.
    - apply Reqb_true in E. rewrite (nrow_zero n A j HA Hj E i Hi). lra.
    - lra. }
  rewrite (lsum_ext (seq 0 n) (fun j => patched n A s j i * x j)
                    (fun j => nrow n A j i * x j + s i * ((1 - has_out n A j) * x j)))
    by (intros j Hj; apply in_seq0 in Hj; rewrite (Hp j Hj); ring).
  rewrite lsum_add, lsum_scale.
  rewrite (lsum_ext (seq 0 n) (fun j => alpha * nrow n A j i * x j) (fun j => alpha * (nrow n A j i * x j)))
    by (intros; ring).
  rewrite lsum_scale.
  replace ((1 - alpha) * s i) with ((1 - alpha) * s i * lsum (seq 0 n) x) by (rewrite Hx; ring).
  rewrite <- (lsum_scale (seq 0 n) ((1 - alpha) * s i) x).
  assert (E : s i * lsum (seq 0 n) (fun j => (1 - alpha * has_out n A j) * x j) =
              alpha * (s i * lsum (seq 0 n) (fun j => (1 - has_out n A j) * x j)) + lsum (seq 0 n) (fun j => (1 - alpha) * s i * x j)).
  { rewrite <- !lsum_scale. rewrite <- lsum_add. apply lsum_ext. intros j _. ring. }
  rewrite E. ring.
Qed.

(** The two statements about the source term itself. *)
Theorem source_rso_mass_and_fixed_point n A s alpha x :
  nonneg_mat n A -> rsum n s = 1 ->
  exists f, rvdenote (env_rso n A s x alpha) src_rso_matvec = Some (WV n f) /\
    rsum n f = rsum n x /\
    ((forall i, (i < n)%nat -> f i = x i) -> rsum n x = 1 ->
     forall i, (i < n)%nat -> x i = alpha * rsum n (fun j => patched n A s j i * x j) + (1 - alpha) * s i).
Proof.
  intros HA Hs. exists (rso n A s alpha x). split; [apply src_rso_denotes|]. split.
  - exact (rso_preserves_mass n A s alpha x HA Hs).
  - intros Hfix Hx. exact (rso_fixed_point_is_pagerank n A s alpha x HA Hfix Hx).
Qed.

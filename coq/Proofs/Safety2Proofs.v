(** C17 — proofs about the checked flat models of Model/Safety2.v (WL colouring, Brandes, Leiden refinement),
    the termination of the push work-list loop of Model/Safety.v, and the link to the totality theorem of
    the Paris model. *)
From Coq Require Import Lia Qabs Lqa.
From SKN Require Import Base.Util Model.Vote Proofs.VoteProofs Model.Safety Proofs.SafetyProofs Model.Safety2.
Set Warnings "-notation-overridden". (* keep: a line with a parenthesis after the imports *)

(** * Small facts *)

Lemma Forall_app_one {A} (P : A -> Prop) l x : Forall P l -> P x -> Forall P (l ++ [x]).
Proof. intros H Hx. apply Forall_app. split; [exact H|]. constructor; [exact Hx|constructor]. Qed.

Lemma Forall_In {A} (P : A -> Prop) l x : Forall P l -> In x l -> P x.
Proof. intros H Hin. rewrite Forall_forall in H. apply H. exact Hin. Qed.

Lemma In_tail {A} (P : A -> Prop) (a : A) t : (forall x, In x (a :: t) -> P x) -> forall x, In x t -> P x.
Proof. intros H x Hx. apply H. right. exact Hx. Qed.

(** * 1. weisfeiler_lehman_core.pyx *)

Section WL.
  Context (n m : nat) (indptr indices : list nat) (powers : list Q).
  Context (Hwf : csr_pat_wf n indptr indices) (Hm : length powers = m) (Hnm : n <= m).

  Definition wl_inv (labels : list nat) : Prop := length labels = n /\ Forall (fun l => l < m) labels.
  Definition tuples_ok (l : list wtuple) : Prop := Forall (fun t : wtuple => snd t < n) l.

  Lemma wl_hash_ok labels : wl_inv labels ->
    forall jjs h, (forall k, In k jjs -> k < length indices) ->
      exists h', wl_hash jjs indices labels powers h = KOk h'.
  Proof.
    intros [HL HF]. induction jjs as [|jj t IH]; intros h Hjs; cbn [wl_hash]; [eexists; reflexivity|].
    destruct (csr_rd_indices _ _ _ jj Hwf (Hjs jj (or_introl eq_refl))) as [Hr Hlt].
    rewrite Hr. cbn [kbind].
    destruct (rd_Forall _ labels (nth jj indices 0) HF ltac:(lia)) as (l & Hr2 & Hl).
    rewrite Hr2. cbn [kbind].
    rewrite (rd_ok powers l 0%Q) by lia. cbn [kbind].
    apply IH. exact (In_tail _ _ _ Hjs).
  Qed.

  Lemma wl_collect_ok labels : wl_inv labels ->
    forall nodes acc, (forall i, In i nodes -> i < n) -> tuples_ok acc ->
      exists nl, wl_collect nodes indptr indices labels powers acc = KOk nl /\
                 length nl = length acc + length nodes /\ tuples_ok nl.
  Proof.
    intros Hinv. pose proof Hinv as [HL HF].
    induction nodes as [|i t IH]; intros acc Hn Hacc; cbn [wl_collect].
    - exists acc. split; [reflexivity|]. split; [simpl; lia|exact Hacc].
    - assert (Hi : i < n) by (apply Hn; left; reflexivity).
      rewrite (csr_rd_indptr _ _ _ i Hwf) by lia. cbn [kbind].
      rewrite (csr_rd_indptr _ _ _ (S i) Hwf) by lia. cbn [kbind].
      destruct (wl_hash_ok labels Hinv (seq (ip indptr i) (ip indptr (S i) - ip indptr i)) 0%Q)
        as (h & Hh).
      { apply (row_range_lt n); auto. }
      rewrite Hh. cbn [kbind].
      rewrite (rd_ok labels i 0) by lia. cbn [kbind].
      destruct (IH (acc ++ [(nth i labels 0, h, i)])) as (nl & E & Hlen & Hok).
      + exact (In_tail _ _ _ Hn).
      + apply Forall_app_one; [exact Hacc | exact Hi].
      + exists nl. split; [exact E|]. split; [|exact Hok]. rewrite Hlen, app_length. simpl. lia.
  Qed.

  Lemma wl_relabel_ok sorted eps : tuples_ok sorted ->
    forall js labels tn label changed,
      (forall j, In j js -> j < length sorted) -> wl_inv labels -> label + length js < m ->
      exists labels' ch, wl_relabel js sorted eps labels tn label changed = KOk (labels', ch) /\
                         wl_inv labels'.
  Proof.
    intros Hs. induction js as [|j t IH]; intros labels tn label changed Hjs [HL HF] Hlab; cbn [wl_relabel].
    - exists labels, changed. split; [reflexivity|split; assumption].
    - destruct (rd_Forall _ sorted j Hs (Hjs j (or_introl eq_refl))) as (tnew & Hr & Htn).
      rewrite Hr. cbn [kbind]. destruct tn as [[label_ref hash_ref] x]. destruct tnew as [[label_new hash_new] i].
      cbn [snd] in Htn.
      set (label' := if Qlt_le_dec eps (Qabs (hash_new - hash_ref)) then S label
                     else if label_new =? label_ref then label else S label).
      assert (Hl' : label' <= S label).
      { unfold label'. destruct (Qlt_le_dec _ _); [lia|]. destruct (label_new =? label_ref); lia. }
      rewrite (rd_ok labels i 0) by lia. cbn [kbind].
      rewrite wr_ok by lia. cbn [kbind].
      apply IH.
      + exact (In_tail _ _ _ Hjs).
      + split; [rewrite set_nth_length; exact HL|]. apply Forall_set_nth; [exact HF|]. simpl in Hlab. lia.
      + simpl in Hlab. lia.
  Qed.

  Lemma wl_round_ok sort eps labels :
    sort_contract sort -> 1 <= n -> wl_inv labels ->
    exists labels' ch, wl_round sort n indptr indices powers eps labels = KOk (labels', ch) /\
                       wl_inv labels'.
  Proof.
    intros Hsort Hn Hinv. pose proof Hinv as [HL HF]. unfold wl_round.
    destruct (wl_collect_ok labels Hinv (seq 0 n) []) as (nl & E & Hlen & Hok).
    { intros i Hi. apply in_seq in Hi. lia. }
    { constructor. }
    rewrite E. cbn [kbind]. rewrite seq_length in Hlen. simpl in Hlen.
    destruct (Hsort nl) as [Hslen Hsin].
    assert (Hsok : tuples_ok (sort nl)).
    { apply Forall_forall. intros t Ht. exact (Forall_In _ _ _ Hok (Hsin t Ht)). }
    destruct (rd_Forall _ (sort nl) 0 Hsok ltac:(lia)) as (t0 & Hr & Ht0).
    rewrite Hr. cbn [kbind]. rewrite wr_ok by lia. cbn [kbind].
    apply (wl_relabel_ok (sort nl) eps Hsok).
    - intros j Hj. apply in_seq in Hj. lia.
    - split; [rewrite set_nth_length; exact HL|]. apply Forall_set_nth; [exact HF|lia].
    - rewrite seq_length. lia.
  Qed.

  Lemma wl_loop_eq fuel sort eps max_iter iteration labels changed :
    wl_loop fuel sort n indptr indices powers eps max_iter iteration labels changed =
    if (iteration <? max_iter) && changed then
      match fuel with
      | O => OutOfFuel
      | S f => do r <- wl_round sort n indptr indices powers eps labels ;;
               wl_loop f sort n indptr indices powers eps max_iter (S iteration) (fst r) (snd r)
      end
    else KOk (labels, changed, iteration).
  Proof. destruct fuel; reflexivity. Qed.

  (** the fuel max_iter - iteration suffices; the loop counter never passes max_iter *)
  Lemma wl_loop_ok sort eps max_iter :
    sort_contract sort -> (max_iter = 0 \/ 1 <= n) ->
    forall fuel iteration labels changed, wl_inv labels -> max_iter - iteration <= fuel ->
      exists labels' ch it,
        wl_loop fuel sort n indptr indices powers eps max_iter iteration labels changed
        = KOk (labels', ch, it) /\ wl_inv labels' /\ it <= Nat.max iteration max_iter.
  Proof.
    intros Hsort Hn. induction fuel as [|f IH]; intros iteration labels changed Hinv Hf; rewrite wl_loop_eq.
    - assert (E : iteration <? max_iter = false) by (apply Nat.ltb_ge; lia). rewrite E. cbn [andb].
      exists labels, changed, iteration. split; [reflexivity|]. split; [exact Hinv|lia].
    - destruct (iteration <? max_iter) eqn:E; cbn [andb];
        [|exists labels, changed, iteration; split; [reflexivity|]; split; [exact Hinv|lia]].
      apply Nat.ltb_lt in E.
      destruct changed; [|exists labels, false, iteration; split; [reflexivity|]; split; [exact Hinv|lia]].
      destruct Hn as [Hn|Hn]; [lia|].
      destruct (wl_round_ok sort eps labels Hsort Hn Hinv) as (l1 & c1 & E1 & Hinv1).
      rewrite E1. cbn [kbind fst snd].
      destruct (IH (S iteration) l1 c1 Hinv1 ltac:(lia)) as (l2 & c2 & it & E2 & Hinv2 & Hit).
      exists l2, c2, it. split; [exact E2|]. split; [exact Hinv2|lia].
  Qed.

  (** for EVERY fuel: never out of bounds *)
  Lemma wl_loop_safe sort eps max_iter :
    sort_contract sort -> (max_iter = 0 \/ 1 <= n) ->
    forall fuel iteration labels changed, wl_inv labels ->
      wl_loop fuel sort n indptr indices powers eps max_iter iteration labels changed <> OOB.
  Proof.
    intros Hsort Hn. induction fuel as [|f IH]; intros iteration labels changed Hinv; rewrite wl_loop_eq;
      (destruct (iteration <? max_iter) eqn:E; cbn [andb]; [|discriminate]);
      (destruct changed; [|discriminate]); [discriminate|].
    apply Nat.ltb_lt in E. destruct Hn as [Hn|Hn]; [lia|].
    destruct (wl_round_ok sort eps labels Hsort Hn Hinv) as (l1 & c1 & E1 & Hinv1).
    rewrite E1. cbn [kbind fst snd]. apply IH. exact Hinv1.
  Qed.
End WL.

(** Contract of the callers (color_weisfeiler_lehman, are_isomorphic): [labels] has n entries, all valid
    indices of [powers] (zeros, or the output of a previous call), [powers] has at least n entries (n in the
    callers), and [max_iter <= n] — so that max_iter = 0 when the graph has no node. *)
Theorem wl_kernel_safe_ok fuel sort n indptr indices labels (powers : list Q) max_iter :
  csr_pat_wf n indptr indices -> length labels = n -> n <= length powers ->
  Forall (fun l => l < length powers) labels -> sort_contract sort -> (max_iter = 0 \/ 1 <= n) ->
  wl_kernel fuel sort indptr indices labels powers max_iter <> OOB.
Proof.
  intros Hwf HL Hp HF Hsort Hn. unfold wl_kernel. pose proof Hwf as (Hlen & _).
  replace (length indptr - 1) with n by lia.
  apply (wl_loop_safe n (length powers)); auto. split; assumption.
Qed.

Theorem wl_kernel_terminates_ok sort n indptr indices labels (powers : list Q) max_iter :
  csr_pat_wf n indptr indices -> length labels = n -> n <= length powers ->
  Forall (fun l => l < length powers) labels -> sort_contract sort -> (max_iter = 0 \/ 1 <= n) ->
  exists labels' changed rounds,
    wl_kernel max_iter sort indptr indices labels powers max_iter = KOk (labels', changed, rounds) /\
    rounds <= max_iter /\ length labels' = n /\ Forall (fun l => l < length powers) labels'.
Proof.
  intros Hwf HL Hp HF Hsort Hn. unfold wl_kernel. pose proof Hwf as (Hlen & _).
  replace (length indptr - 1) with n by lia.
  destruct (wl_loop_ok n (length powers) indptr indices powers Hwf eq_refl Hp sort wl_eps max_iter Hsort Hn
              max_iter 0 labels true) as (l' & c & it & E & [HL' HF'] & Hit).
  { split; assumption. }
  { lia. }
  exists l', c, it. split; [exact E|]. split; [lia|]. split; assumption.
Qed.

(** Outside the callers' contract: the kernel called directly on the graph without nodes with
    max_iter >= 1 reads [new_labels[0]] of an empty vector. *)
Theorem wl_kernel_no_node_oob fuel sort max_iter :
  sort_contract sort -> wl_kernel (S fuel) sort [0] [] [] [] (S max_iter) = OOB.
Proof.
  intros Hsort. unfold wl_kernel. cbn [length Nat.sub wl_loop Nat.ltb Nat.leb andb].
  unfold wl_round. cbn [seq wl_collect kbind].
  destruct (Hsort []) as [Hl _]. destruct (sort []) as [|x t]; [reflexivity|discriminate].
Qed.

(** * 2. betweenness.pyx (Brandes) *)

(** number of nodes not yet discovered ([dists[v] < 0]) *)
Definition negs (dists : list Z) : nat := length (filter (fun d => (d <? 0)%Z) dists).

Lemma negs_set : forall (l : list Z) j v,
  j < length l -> (nth j l 0 < 0)%Z -> (0 <= v)%Z -> negs (set_nth l j v) + 1 = negs l.
Proof.
  unfold negs. induction l as [|a t IH]; intros j v Hj Hn Hv; [simpl in Hj; lia|].
  destruct j as [|j]; cbn [set_nth filter nth] in *.
  - assert (E1 : (v <? 0)%Z = false) by (apply Z.ltb_ge; lia).
    assert (E2 : (a <? 0)%Z = true) by (apply Z.ltb_lt; lia).
    rewrite E1, E2. simpl. lia.
  - simpl in Hj. specialize (IH j v ltac:(lia) Hn Hv).
    destruct (a <? 0)%Z; simpl; lia.
Qed.

Lemma negs_repeat n : negs (repeat (-1)%Z n) = n.
Proof. unfold negs. induction n as [|n IH]; simpl; [reflexivity|]. rewrite IH. reflexivity. Qed.

Lemma nth_set_nth_same {A} (l : list A) i x d : i < length l -> nth i (set_nth l i x) d = x.
Proof. revert i; induction l as [|a t IH]; intros [|i] H; simpl in *; try lia; auto. apply IH. lia. Qed.

Lemma nth_set_nth_other {A} (l : list A) i j x d : j <> i -> nth j (set_nth l i x) d = nth j l d.
Proof.
  revert i j; induction l as [|a t IH]; intros [|i] [|j] H; simpl; auto; try lia; try (apply IH; lia).
Qed.

Section Brandes.
  Context (n : nat) (indptr indices : list nat).
  Context (Hwf : csr_pat_wf n indptr indices).

  Definition binv (st : fbstate) : Prop :=
    length (fb_dists st) = n /\ length (fb_sigma st) = n /\ length (fb_preds st) = n /\
    Forall (fun v => v < n) (fb_queue st) /\
    Forall (fun v => (0 <= nth v (fb_dists st) 0)%Z) (fb_queue st) /\
    Forall (Forall (fun v => v < n)) (fb_preds st).

  Definition bmeasure (st : fbstate) : nat := length (fb_queue st) + negs (fb_dists st).

  Lemma br_row_ok i : i < n ->
    forall jjs st, (forall k, In k jjs -> k < length indices) -> binv st -> (0 <= nth i (fb_dists st) 0)%Z ->
      exists st', br_row jjs indices i st = KOk st' /\ binv st' /\ (0 <= nth i (fb_dists st') 0)%Z /\
                  bmeasure st' = bmeasure st.
  Proof.
    intros Hi. induction jjs as [|jj t IH]; intros st Hjs Hinv Hdi; cbn [br_row].
    - exists st. auto.
    - destruct Hinv as (HD & HS & HP & HQ & HQd & HPp).
      destruct (csr_rd_indices _ _ _ jj Hwf (Hjs jj (or_introl eq_refl))) as [Hr Hj]. rewrite Hr. cbn [kbind].
      set (j := nth jj indices 0) in *.
      rewrite (rd_ok (fb_dists st) j 0%Z) by lia. cbn [kbind].
      (* first test *)
      match goal with |- exists st', (do st1 <- ?X ;; _) = _ /\ _ =>
        assert (H1 : exists st1, X = KOk st1 /\ binv st1 /\ (0 <= nth i (fb_dists st1) 0)%Z /\
                                 bmeasure st1 = bmeasure st) end.
      { destruct (nth j (fb_dists st) 0 <? 0)%Z eqn:Ed.
        - apply Z.ltb_lt in Ed.
          rewrite (rd_ok (fb_dists st) i 0%Z) by lia. cbn [kbind]. rewrite wr_ok by lia. cbn [kbind].
          eexists. split; [reflexivity|].
          assert (Hji : j <> i) by (intros ->; lia).
          split; [|split].
          + unfold binv; cbn [fb_queue fb_dists fb_sigma fb_preds]. rewrite set_nth_length.
            split; [exact HD|]. split; [exact HS|]. split; [exact HP|].
            split; [apply Forall_app_one; assumption|]. split; [|exact HPp].
            apply Forall_app_one.
            * apply Forall_forall. intros v Hv. pose proof (Forall_In _ _ _ HQd Hv) as Hvd. cbn beta in Hvd.
              destruct (Nat.eq_dec v j) as [->|Hne]; [lia|]. rewrite nth_set_nth_other by exact Hne. exact Hvd.
            * rewrite nth_set_nth_same by lia. lia.
          + cbn [fb_dists]. rewrite nth_set_nth_other by congruence. exact Hdi.
          + unfold bmeasure; cbn [fb_queue fb_dists]. rewrite app_length. simpl.
            pose proof (negs_set (fb_dists st) j (nth i (fb_dists st) 0 + 1)%Z ltac:(lia) Ed ltac:(lia)). lia.
        - exists st. split; [reflexivity|]. split; [|split; [exact Hdi|reflexivity]].
          unfold binv. auto 10. }
      destruct H1 as (st1 & E1 & Hinv1 & Hdi1 & Hm1). rewrite E1. cbn [kbind].
      destruct Hinv1 as (HD1 & HS1 & HP1 & HQ1 & HQd1 & HPp1).
      rewrite (rd_ok (fb_dists st1) j 0%Z) by lia. cbn [kbind].
      rewrite (rd_ok (fb_dists st1) i 0%Z) by lia. cbn [kbind].
      match goal with |- exists st', (do st2 <- ?X ;; _) = _ /\ _ =>
        assert (H2 : exists st2, X = KOk st2 /\ binv st2 /\ (0 <= nth i (fb_dists st2) 0)%Z /\
                                 bmeasure st2 = bmeasure st1) end.
      { destruct (nth j (fb_dists st1) 0 =? nth i (fb_dists st1) 0 + 1)%Z.
        - rewrite (rd_ok (fb_sigma st1) j 0%Z) by lia. cbn [kbind].
          rewrite (rd_ok (fb_sigma st1) i 0%Z) by lia. cbn [kbind].
          rewrite wr_ok by lia. cbn [kbind].
          destruct (rd_Forall _ (fb_preds st1) j HPp1 ltac:(lia)) as (pj & Hrp & Hpj).
          rewrite Hrp. cbn [kbind]. rewrite wr_ok by lia. cbn [kbind].
          eexists. split; [reflexivity|]. split; [|split; [exact Hdi1|reflexivity]].
          unfold binv; cbn [fb_queue fb_dists fb_sigma fb_preds]. rewrite !set_nth_length.
          repeat split; auto. apply Forall_set_nth; [exact HPp1|]. apply Forall_app_one; assumption.
        - exists st1. split; [reflexivity|]. split; [|split; [exact Hdi1|reflexivity]].
          unfold binv. auto 10. }
      destruct H2 as (st2 & E2 & Hinv2 & Hdi2 & Hm2). rewrite E2. cbn [kbind].
      destruct (IH st2 (In_tail _ _ _ Hjs) Hinv2 Hdi2) as (st' & E & Hinv' & Hdi' & Hm').
      exists st'. split; [exact E|]. split; [exact Hinv'|]. split; [exact Hdi'|]. lia.
  Qed.

  (** The BFS loop: never out of bounds; with fuel >= |queue| + #undiscovered it returns, after at most
      that many pops, each of which pushed one node on [seen]. *)
  Lemma br_bfs_ok : forall fuel st seen pops,
    binv st -> Forall (fun v => v < n) seen ->
    (br_bfs fuel indptr indices st seen pops = OutOfFuel /\ fuel < bmeasure st) \/
    (exists st' seen' k,
       br_bfs fuel indptr indices st seen pops = KOk (st', seen', pops + k) /\
       binv st' /\ Forall (fun v => v < n) seen' /\ length seen' = length seen + k /\ k <= bmeasure st).
  Proof.
    induction fuel as [|f IH]; intros st seen pops Hinv Hseen; cbn [br_bfs];
      destruct (fb_queue st) as [|i q] eqn:Eq.
    - right. exists st, seen, 0. rewrite Nat.add_0_r. split; [reflexivity|]. split; [exact Hinv|]. split; [exact Hseen|]. split; lia.
    - left. split; [reflexivity|]. unfold bmeasure. rewrite Eq. simpl. lia.
    - right. exists st, seen, 0. rewrite Nat.add_0_r. split; [reflexivity|]. split; [exact Hinv|]. split; [exact Hseen|]. split; lia.
    - destruct Hinv as (HD & HS & HP & HQ & HQd & HPp). rewrite Eq in HQ, HQd.
      apply Forall_cons_iff in HQ. destruct HQ as [Hi HQ].
      apply Forall_cons_iff in HQd. destruct HQd as [Hdi HQd].
      rewrite (csr_rd_indptr _ _ _ i Hwf) by lia. cbn [kbind].
      rewrite (csr_rd_indptr _ _ _ (S i) Hwf) by lia. cbn [kbind].
      set (st0 := {| fb_queue := q; fb_dists := fb_dists st; fb_sigma := fb_sigma st; fb_preds := fb_preds st |}).
      destruct (br_row_ok i Hi (seq (ip indptr i) (ip indptr (S i) - ip indptr i)) st0)
        as (st1 & E1 & Hinv1 & _ & Hm1).
      { apply (row_range_lt n); auto. }
      { unfold binv, st0; cbn [fb_queue fb_dists fb_sigma fb_preds]. auto 10. }
      { exact Hdi. }
      rewrite E1. cbn [kbind].
      assert (Hm0 : bmeasure st = S (bmeasure st0)).
      { unfold bmeasure, st0; cbn [fb_queue fb_dists]. rewrite Eq. simpl. reflexivity. }
      destruct (IH st1 (i :: seen) (S pops) Hinv1 ltac:(constructor; assumption))
        as [[E Hlt] | (st' & seen' & k & E & Hinv' & Hseen' & Hlen & Hk)].
      + left. split; [exact E|]. lia.
      + right. exists st', seen', (S k). split; [rewrite E; f_equal; f_equal; lia|].
        split; [exact Hinv'|]. split; [exact Hseen'|]. simpl in Hlen. split; lia.
  Qed.

  Lemma br_back_preds_ok sigma j : length sigma = n -> j < n ->
    forall ps delta, Forall (fun v => v < n) ps -> length delta = n ->
      exists delta', br_back_preds ps sigma delta j = KOk delta' /\ length delta' = n.
  Proof.
    intros HS Hj. induction ps as [|i t IH]; intros delta Hps Hd; cbn [br_back_preds].
    - exists delta. auto.
    - apply Forall_cons_iff in Hps. destruct Hps as [Hi Hps].
      rewrite (rd_ok delta i 0%Q) by lia. cbn [kbind].
      rewrite (rd_ok sigma i 0%Z) by lia. cbn [kbind].
      rewrite (rd_ok sigma j 0%Z) by lia. cbn [kbind].
      rewrite (rd_ok delta j 0%Q) by lia. cbn [kbind].
      rewrite wr_ok by lia. cbn [kbind].
      apply IH; [exact Hps|]. rewrite set_nth_length. exact Hd.
  Qed.

  (** the back-propagation loop pops every seen node exactly once *)
  Lemma br_back_ok source sigma preds :
    length sigma = n -> length preds = n -> Forall (Forall (fun v => v < n)) preds ->
    forall fuel seen delta scores pops,
      Forall (fun v => v < n) seen -> length delta = n -> length scores = n -> length seen <= fuel ->
      exists scores', br_back fuel source sigma preds seen delta scores pops
                      = KOk (scores', pops + length seen) /\ length scores' = n.
  Proof.
    intros HS HP HPp. induction fuel as [|f IH]; intros seen delta scores pops Hseen Hd Hsc Hf;
      destruct seen as [|j rest]; cbn [br_back]; try (simpl in Hf; lia);
      try (exists scores; rewrite Nat.add_0_r; auto; fail).
    apply Forall_cons_iff in Hseen. destruct Hseen as [Hj Hrest].
    destruct (rd_Forall _ preds j HPp ltac:(lia)) as (pj & Hr & Hpj). rewrite Hr. cbn [kbind].
    destruct (br_back_preds_ok sigma j HS Hj pj delta Hpj Hd) as (delta' & E1 & Hd'). rewrite E1. cbn [kbind].
    assert (H2 : exists scores1,
               (if j =? source then KOk scores
                else do sj <- rd scores j ;; do dj <- rd delta' j ;; wr scores j (sj + dj)%Q) = KOk scores1 /\
               length scores1 = n).
    { destruct (j =? source); [exists scores; auto|].
      rewrite (rd_ok scores j 0%Q) by lia. cbn [kbind].
      rewrite (rd_ok delta' j 0%Q) by lia. cbn [kbind].
      rewrite wr_ok by lia. eexists. split; [reflexivity|]. rewrite set_nth_length. exact Hsc. }
    destruct H2 as (scores1 & E2 & Hsc1). rewrite E2. cbn [kbind].
    destruct (IH rest delta' scores1 (S pops) Hrest Hd' Hsc1 ltac:(simpl in Hf; lia)) as (scores' & E & Hsc').
    exists scores'. split; [|exact Hsc']. rewrite E. simpl. f_equal. f_equal. lia.
  Qed.

  Lemma binv_init source : source < n ->
    binv {| fb_queue := [source]; fb_dists := set_nth (repeat (-1)%Z n) source 0%Z;
            fb_sigma := set_nth (repeat 0%Z n) source 1%Z; fb_preds := repeat [] n |} /\
    bmeasure {| fb_queue := [source]; fb_dists := set_nth (repeat (-1)%Z n) source 0%Z;
                fb_sigma := set_nth (repeat 0%Z n) source 1%Z; fb_preds := repeat [] n |} = n.
  Proof.
    intros Hs. split.
    - unfold binv; cbn [fb_queue fb_dists fb_sigma fb_preds]. rewrite !set_nth_length, !repeat_length.
      repeat split; auto.
      + constructor; [rewrite nth_set_nth_same by (rewrite repeat_length; lia); lia|constructor].
      + apply Forall_forall. intros x Hx. apply repeat_spec in Hx. subst x. constructor.
    - unfold bmeasure; cbn [fb_queue fb_dists length].
      pose proof (negs_set (repeat (-1)%Z n) source 0%Z) as H. rewrite repeat_length, negs_repeat in H.
      assert (Hn1 : nth source (repeat (-1)%Z n) 0%Z = (-1)%Z).
      { apply (repeat_spec n). apply nth_In. rewrite repeat_length. exact Hs. }
      specialize (H Hs). rewrite Hn1 in H. specialize (H ltac:(lia) ltac:(lia)). lia.
  Qed.

  (** One source: with any BFS fuel either the BFS reports OutOfFuel (only when fuel < n) or the body
      returns; never OOB. The back loop pops as many nodes as the BFS did. *)
  Lemma br_source_ok bfs_fuel scores source :
    source < n -> length scores = n ->
    (br_source bfs_fuel n indptr indices scores source = OutOfFuel /\ bfs_fuel < n) \/
    (exists scores' p, br_source bfs_fuel n indptr indices scores source = KOk (scores', (p, p)) /\
                       length scores' = n /\ p <= n).
  Proof.
    intros Hs Hsc. unfold br_source.
    rewrite wr_ok by (rewrite repeat_length; lia). cbn [kbind].
    rewrite wr_ok by (rewrite repeat_length; lia). cbn [kbind].
    destruct (binv_init source Hs) as [Hinv0 Hm0].
    destruct (br_bfs_ok bfs_fuel _ [] 0 Hinv0 (Forall_nil _))
      as [[E Hlt] | (st' & seen' & k & E & Hinv' & Hseen' & Hlen & Hk)].
    - left. rewrite E. cbn [kbind]. split; [reflexivity|]. lia.
    - right. rewrite E. cbn [kbind]. destruct Hinv' as (HD & HS & HP & _ & _ & HPp).
      destruct (br_back_ok source (fb_sigma st') (fb_preds st') HS HP HPp (length seen') seen'
                  (repeat 0%Q n) scores 0 Hseen' (repeat_length _ _) Hsc (le_n _)) as (scores' & Eb & Hsc').
      rewrite Eb. cbn [kbind fst snd]. simpl in Hlen. rewrite Hlen. simpl.
      exists scores', k. split; [reflexivity|]. split; [exact Hsc'|lia].
  Qed.

  Lemma br_sources_ok bfs_fuel : forall srcs scores log,
    (forall s, In s srcs -> s < n) -> length scores = n ->
    (br_sources bfs_fuel srcs n indptr indices scores log = OutOfFuel /\ bfs_fuel < n) \/
    (exists scores' log', br_sources bfs_fuel srcs n indptr indices scores log = KOk (scores', log ++ log') /\
                          length scores' = n /\ length log' = length srcs /\
                          Forall (fun pq => fst pq <= n /\ snd pq = fst pq) log').
  Proof.
    induction srcs as [|s t IH]; intros scores log Hs Hsc; cbn [br_sources].
    - right. exists scores, []. rewrite app_nil_r. auto.
    - destruct (br_source_ok bfs_fuel scores s (Hs s (or_introl eq_refl)) Hsc)
        as [[E Hlt] | (scores1 & p & E & Hsc1 & Hp)]; rewrite E; cbn [kbind fst snd].
      + left. auto.
      + destruct (IH scores1 (log ++ [(p, p)]) (In_tail _ _ _ Hs) Hsc1)
          as [[E2 Hlt] | (scores' & log' & E2 & Hsc' & Hlen & Hlog)].
        * left. auto.
        * right. exists scores', ((p, p) :: log'). rewrite <- app_assoc in E2. split; [exact E2|].
          split; [exact Hsc'|]. split; [simpl; lia|]. constructor; [simpl; auto|exact Hlog].
  Qed.
End Brandes.

(** Betweenness.fit, all sources, for EVERY BFS fuel: no access to indptr / indices / dists / sigma /
    preds / delta / scores out of range, neither queue nor stack popped when empty. *)
Theorem brandes_safe_ok bfs_fuel n indptr indices scores :
  csr_pat_wf n indptr indices -> length scores = n ->
  br_sources bfs_fuel (seq 0 n) n indptr indices scores [] <> OOB.
Proof.
  intros Hwf Hsc.
  destruct (br_sources_ok n indptr indices Hwf bfs_fuel (seq 0 n) scores [])
    as [[E _] | (s' & l' & E & _)]; auto.
  - intros s Hs. apply in_seq in Hs. lia.
  - rewrite E. discriminate.
  - rewrite E. discriminate.
Qed.

(** With BFS fuel n per source the whole computation returns; for every source the BFS loop performs
    p <= n pops (each node is enqueued at most once) and the back-propagation exactly the same number. *)
Theorem brandes_terminates_ok n indptr indices :
  csr_pat_wf n indptr indices ->
  exists scores log, brandes_flat indptr indices = KOk (scores, log) /\ length scores = n /\
                     length log = n /\ Forall (fun pq => fst pq <= n /\ snd pq = fst pq) log.
Proof.
  intros Hwf. unfold brandes_flat. pose proof Hwf as (Hlen & _).
  replace (length indptr - 1) with n by lia.
  destruct (br_sources_ok n indptr indices Hwf n (seq 0 n) (repeat 0%Q n) [])
    as [[_ Hlt] | (s' & l' & E & Hs' & Hl' & HF)]; try lia.
  - intros s Hs. apply in_seq in Hs. lia.
  - apply repeat_length.
  - exists s', l'. rewrite seq_length in Hl'. auto.
Qed.

(** * 5. push.pyx: the work-list loop terminates

    Residuals are never reset and every increment [residuals[vertex] * (1 - damping) / degrees[vertex]] is
    >= 0, so residuals only grow. A node is pushed only when its residual crosses [tol] upwards
    ([residuals[neighbor] > tol > tmp]); afterwards it stays above tol: after the initial n entries every
    node enters the queue at most once. Potential: |worklist| + #{v : residuals[v] <= tol}. *)

Definition lows (tol : Q) (residuals : list Q) : nat := length (filter (fun r => Qle_bool r tol) residuals).

Lemma lows_le_length tol l : lows tol l <= length l.
Proof. unfold lows. induction l as [|a t IH]; simpl; [lia|]. destruct (Qle_bool a tol); simpl; lia. Qed.

Lemma lows_set_grow tol : forall (l : list Q) j v,
  j < length l -> (nth j l 0 <= v)%Q -> lows tol (set_nth l j v) <= lows tol l.
Proof.
  unfold lows. induction l as [|a t IH]; intros j v Hj Hv; [simpl in Hj; lia|].
  destruct j as [|j]; cbn [set_nth filter nth] in *.
  - destruct (Qle_bool v tol) eqn:E1; destruct (Qle_bool a tol) eqn:E2; simpl; try lia.
    apply Qle_bool_iff in E1. assert (H : (a <= tol)%Q) by lra. apply Qle_bool_iff in H. congruence.
  - simpl in Hj. specialize (IH j v ltac:(lia) Hv). destruct (Qle_bool a tol); simpl; lia.
Qed.

Lemma lows_set_cross tol : forall (l : list Q) j v,
  j < length l -> (nth j l 0 < tol)%Q -> (tol < v)%Q -> lows tol (set_nth l j v) + 1 = lows tol l.
Proof.
  unfold lows. induction l as [|a t IH]; intros j v Hj Hlo Hv; [simpl in Hj; lia|].
  destruct j as [|j]; cbn [set_nth filter nth] in *.
  - assert (E1 : Qle_bool v tol = false).
    { destruct (Qle_bool v tol) eqn:E; [|reflexivity]. apply Qle_bool_iff in E. lra. }
    assert (E2 : Qle_bool a tol = true) by (apply Qle_bool_iff; lra).
    rewrite E1, E2. simpl. lia.
  - simpl in Hj. specialize (IH j v ltac:(lia) Hlo Hv). destruct (Qle_bool a tol); simpl; lia.
Qed.

Lemma qdiv_nonneg a b : (0 <= a)%Q -> (0 <= b)%Q -> (0 <= a / b)%Q.
Proof. intros Ha Hb. unfold Qdiv. apply Qmult_le_0_compat; [exact Ha|]. apply Qinv_le_0_compat. exact Hb. Qed.

Lemma inject_nat_nonneg k : (0 <= inject_Z (Z.of_nat k))%Q.
Proof. change 0%Q with (inject_Z 0). rewrite <- Zle_Qle. lia. Qed.

Definition qnn (l : list Q) : Prop := Forall (fun r => (0 <= r)%Q) l.

Section Push.
  Context (n : nat) (indptr indices degrees : list nat) (damping tol : Q).
  Context (Hwf : csr_pat_wf n indptr indices) (Hdg : length degrees = n).
  Context (Hd0 : (0 <= damping)%Q) (Hd1 : (damping <= 1)%Q).

  Lemma push_row_progress vertex : vertex < n ->
    forall js residuals worklist,
      (forall k, In k js -> k < length indices) -> length residuals = n -> qnn residuals ->
      Forall (fun v => v < n) worklist ->
      exists r w, push_row js indices degrees damping tol vertex residuals worklist = KOk (r, w) /\
                  length r = n /\ qnn r /\ Forall (fun v => v < n) w /\
                  length w + lows tol r <= length worklist + lows tol residuals.
  Proof.
    intros Hv. induction js as [|j t IH]; intros residuals worklist Hjs Hr Hnn Hw; cbn [push_row].
    - exists residuals, worklist. auto.
    - destruct (csr_rd_indices _ _ _ j Hwf (Hjs j (or_introl eq_refl))) as [Hrd Hlt].
      rewrite Hrd. cbn [kbind]. set (nb := nth j indices 0) in *.
      rewrite (rd_ok residuals nb 0%Q) by lia. cbn [kbind].
      rewrite (rd_ok residuals vertex 0%Q) by lia. cbn [kbind].
      rewrite (rd_ok degrees vertex 0) by lia. cbn [kbind].
      rewrite wr_ok by lia. cbn [kbind].
      set (tmp := nth nb residuals 0%Q).
      set (new := (tmp + nth vertex residuals 0 * (1 - damping) / inject_Z (Z.of_nat (nth vertex degrees 0%nat)))%Q).
      rewrite (rd_ok (set_nth residuals nb new) nb 0%Q) by (rewrite set_nth_length; lia). cbn [kbind].
      rewrite nth_set_nth_same by lia.
      assert (Htmp : (0 <= tmp)%Q) by (apply (Forall_nth_lt _ residuals nb 0%Q Hnn); lia).
      assert (Hrv : (0 <= nth vertex residuals 0)%Q) by (apply (Forall_nth_lt _ residuals vertex 0%Q Hnn); lia).
      assert (Hinc : (tmp <= new)%Q).
      { unfold new.
        assert (H : (0 <= nth vertex residuals 0 * (1 - damping) / inject_Z (Z.of_nat (nth vertex degrees 0%nat)))%Q).
        { apply qdiv_nonneg; [|apply inject_nat_nonneg]. apply Qmult_le_0_compat; [exact Hrv|lra]. }
        lra. }
      assert (Hnn' : qnn (set_nth residuals nb new)) by (apply Forall_set_nth; [exact Hnn|lra]).
      assert (Hr' : length (set_nth residuals nb new) = n) by (rewrite set_nth_length; exact Hr).
      match goal with |- context [push_row t _ _ _ _ _ _ ?W] => set (w1 := W) end.
      assert (Hw1 : Forall (fun v => v < n) w1 /\
                    length w1 + lows tol (set_nth residuals nb new) <= length worklist + lows tol residuals).
      { unfold w1. destruct (Qlt_le_dec tol new) as [H1|H1].
        - destruct (Qlt_le_dec tmp tol) as [H2|H2].
          + split; [apply Forall_app_one; assumption|]. rewrite app_length. simpl.
            pose proof (lows_set_cross tol residuals nb new ltac:(lia) H2 H1). lia.
          + split; [exact Hw|]. pose proof (lows_set_grow tol residuals nb new ltac:(lia) Hinc). lia.
        - split; [exact Hw|]. pose proof (lows_set_grow tol residuals nb new ltac:(lia) Hinc). lia. }
      destruct Hw1 as [Hw1 Hm1].
      destruct (IH (set_nth residuals nb new) w1 (In_tail _ _ _ Hjs) Hr' Hnn' Hw1)
        as (r & w & E & Hlr & Hnr & Hwr & Hm).
      exists r, w. split; [exact E|]. repeat split; auto. lia.
  Qed.

  (** |worklist| + #{residual <= tol} units of fuel suffice *)
  Lemma push_loop_terminates : forall fuel scores residuals worklist,
    length scores = n -> length residuals = n -> qnn residuals -> Forall (fun v => v < n) worklist ->
    length worklist + lows tol residuals <= fuel ->
    exists scores', push_loop fuel indptr indices degrees damping tol scores residuals worklist = KOk scores' /\
                    length scores' = n.
  Proof.
    induction fuel as [|f IH]; intros scores residuals worklist Hs Hr Hnn Hw Hf;
      destruct worklist as [|v rest]; cbn [push_loop]; try (exists scores; auto; fail);
      [simpl in Hf; lia|].
    apply Forall_cons_iff in Hw. destruct Hw as [Hv Hrest].
    rewrite (rd_ok scores v 0%Q) by lia. cbn [kbind].
    rewrite (rd_ok residuals v 0%Q) by lia. cbn [kbind].
    rewrite wr_ok by lia. cbn [kbind].
    rewrite (csr_rd_indptr _ _ _ v Hwf) by lia. cbn [kbind].
    rewrite (csr_rd_indptr _ _ _ (S v) Hwf) by lia. cbn [kbind].
    destruct (push_row_progress v Hv (seq (ip indptr v) (ip indptr (S v) - ip indptr v)) residuals rest)
      as (r & w & E & Hlr & Hnr & Hwr & Hm); auto.
    { apply (row_range_lt n); auto. }
    rewrite E. cbn [kbind fst snd]. apply IH; auto.
    - rewrite set_nth_length. exact Hs.
    - simpl in Hf. lia.
  Qed.
End Push.

(** the initial residuals are non-negative *)
Lemma push_init_row_nn n rev_indptr rev_indices degrees vertex :
  csr_pat_wf n rev_indptr rev_indices -> length degrees = n -> vertex < n ->
  forall js residuals, (forall k, In k js -> k < length rev_indices) -> length residuals = n -> qnn residuals ->
    exists r, push_init_row js rev_indices degrees residuals vertex = KOk r /\ length r = n /\ qnn r.
Proof.
  intros Hwf Hdg Hv. induction js as [|j t IH]; intros residuals Hjs Hr Hnn; cbn [push_init_row].
  - exists residuals. auto.
  - destruct (csr_rd_indices _ _ _ j Hwf (Hjs j (or_introl eq_refl))) as [Hrd Hlt].
    rewrite Hrd. cbn [kbind].
    rewrite (rd_ok degrees _ 0) by lia. cbn [kbind].
    rewrite (rd_ok residuals vertex 0%Q) by lia. cbn [kbind].
    rewrite wr_ok by lia. cbn [kbind].
    apply IH.
    + exact (In_tail _ _ _ Hjs).
    + rewrite set_nth_length. exact Hr.
    + apply Forall_set_nth; [exact Hnn|].
      pose proof (Forall_nth_lt _ residuals vertex 0%Q Hnn ltac:(lia)) as H0. cbn beta in H0.
      pose proof (Qinv_le_0_compat _ (inject_nat_nonneg (nth (nth j rev_indices 0) degrees 0))). lra.
Qed.

Lemma push_init_nn n rev_indptr rev_indices degrees (seeds : list Q) damping :
  csr_pat_wf n rev_indptr rev_indices -> length degrees = n -> length seeds = n ->
  (0 <= damping)%Q -> (damping <= 1)%Q -> Forall (fun s => (- (1) <= s)%Q) seeds ->
  forall vs residuals, (forall v, In v vs -> v < n) -> length residuals = n -> qnn residuals ->
    exists r, push_init vs rev_indptr rev_indices degrees seeds damping residuals = KOk r /\
              length r = n /\ qnn r.
Proof.
  intros Hwf Hdg Hsd Hd0 Hd1 Hseeds. induction vs as [|v t IH]; intros residuals Hvs Hr Hnn; cbn [push_init].
  - exists residuals. auto.
  - assert (Hv : v < n) by (apply Hvs; left; reflexivity).
    rewrite (csr_rd_indptr _ _ _ v Hwf) by lia. cbn [kbind].
    rewrite (csr_rd_indptr _ _ _ (S v) Hwf) by lia. cbn [kbind].
    destruct (push_init_row_nn n rev_indptr rev_indices degrees v Hwf Hdg Hv
                (seq (ip rev_indptr v) (ip rev_indptr (S v) - ip rev_indptr v)) residuals)
      as (res1 & H1 & Hl1 & Hn1); auto.
    { apply (row_range_lt n); auto. }
    rewrite H1. cbn [kbind].
    rewrite (rd_ok res1 v 0%Q) by lia. cbn [kbind].
    rewrite (rd_ok seeds v 0%Q) by lia. cbn [kbind].
    rewrite wr_ok by lia. cbn [kbind].
    apply IH.
    + exact (In_tail _ _ _ Hvs).
    + rewrite set_nth_length. exact Hl1.
    + apply Forall_set_nth; [exact Hn1|].
      pose proof (Forall_nth_lt _ res1 v 0%Q Hn1 ltac:(lia)) as H0. cbn beta in H0.
      pose proof (Forall_nth_lt _ seeds v 0%Q Hseeds ltac:(lia)) as Hs. cbn beta in Hs.
      apply Qmult_le_0_compat; [exact H0|]. apply Qmult_le_0_compat; [|lra].
      apply Qmult_le_0_compat; lra.
Qed.

(** push_pagerank returns within 2 n pops of the work-list: the n entries of the argsort answer plus at
    most one later entry per node. Contract: 0 <= damping <= 1, seeds >= -1 (the caller passes a
    probability vector), the argsort answer lists at most n node indices. *)
Theorem push_terminates_ok fuel n degrees indptr indices rev_indptr rev_indices (seeds : list Q)
        damping tol argsort :
  csr_pat_wf n indptr indices -> csr_pat_wf n rev_indptr rev_indices ->
  length degrees = n -> length seeds = n ->
  (0 <= damping)%Q -> (damping <= 1)%Q -> Forall (fun s => (- (1) <= s)%Q) seeds ->
  (forall r, Forall (fun v => v < n) (argsort r)) -> (forall r, length (argsort r) <= length r) ->
  push_fuel n <= fuel ->
  exists scores,
    push_pagerank fuel n degrees indptr indices rev_indptr rev_indices seeds damping tol argsort = KOk scores /\
    length scores = n.
Proof.
  intros Hwf Hrev Hdg Hsd Hd0 Hd1 Hseeds Harg Hargl Hf. unfold push_pagerank.
  destruct (push_init_nn n rev_indptr rev_indices degrees seeds damping Hrev Hdg Hsd Hd0 Hd1 Hseeds
              (seq 0 n) (repeat 0%Q n)) as (res & H1 & Hl1 & Hn1).
  { intros v Hv. apply in_seq in Hv. lia. }
  { apply repeat_length. }
  { apply Forall_forall. intros x Hx. apply repeat_spec in Hx. subst x. lra. }
  rewrite H1. cbn [kbind].
  apply (push_loop_terminates n indptr indices degrees damping tol Hwf Hdg Hd1); auto.
  - apply repeat_length.
  - pose proof (Hargl res). pose proof (lows_le_length tol res). unfold push_fuel in Hf. lia.
Qed.

(** * 3. leiden_core.pyx: optimize_refine_core — accesses in range, for every [rand()] stream *)

Definition rinv (n m : nat) (st : rstate) : Prop :=
  length (r_lr st) = n /\ Forall (fun l => l < m) (r_lr st) /\
  length (r_ocw st) = m /\ length (r_icw st) = m /\ length (r_cw st) = m.

Lemma Forall_set_insert m x s :
  x < m -> Forall (fun l => l < m) s -> Forall (fun l => l < m) (set_insert x s).
Proof.
  intros Hx Hs. apply Forall_forall. intros u Hu. apply set_insert_In in Hu.
  destruct Hu as [->|Hu]; [exact Hx | exact (Forall_In _ _ _ Hs Hu)].
Qed.

Lemma ld_pick_Forall (P : nat -> Prop) : forall ls k cur, Forall P ls -> P cur -> P (ld_pick ls k cur).
Proof.
  induction ls as [|lt t IH]; intros k cur Hls Hc; cbn [ld_pick]; [exact Hc|].
  apply Forall_cons_iff in Hls. destruct Hls as [Hlt Ht].
  destruct (k - 1 =? 0)%Z; [exact Hlt|]. apply IH; assumption.
Qed.

Lemma ld_gather_ok n m indptr indices (data : list Q) labels lr label :
  csr_wf n indptr indices data -> length labels = n -> length lr = n -> Forall (fun l => l < m) lr ->
  forall js lset cw, (forall k, In k js -> k < length indices) ->
    Forall (fun l => l < m) lset -> length cw = m ->
    exists lset' cw', ld_gather js indices data labels lr label lset cw = KOk (lset', cw') /\
                      Forall (fun l => l < m) lset' /\ length cw' = m.
Proof.
  intros [Hwf Hd] HL HR HF. induction js as [|j t IH]; intros lset cw Hjs Hls Hcw; cbn [ld_gather].
  - exists lset, cw. auto.
  - assert (Hj : j < length indices) by (apply Hjs; left; reflexivity).
    destruct (csr_rd_indices _ _ _ j Hwf Hj) as [Hr Hlt]. rewrite Hr. cbn [kbind].
    rewrite (rd_ok labels _ 0) by lia. cbn [kbind].
    destruct (nth (nth j indices 0) labels 0 =? label); [|apply IH; auto; exact (In_tail _ _ _ Hjs)].
    cbn [kbind].
    destruct (rd_Forall _ lr (nth j indices 0) HF ltac:(lia)) as (lt & Hr2 & Hlt2).
    rewrite Hr2. cbn [kbind].
    step_rd 0%Q. step_rd 0%Q. step_wr.
    apply IH.
    + exact (In_tail _ _ _ Hjs).
    + apply Forall_set_insert; assumption.
    + rewrite set_nth_length. exact Hcw.
Qed.

Lemma ld_targets_ok m res ow iw delta icw ocw :
  length icw = m -> length ocw = m ->
  forall ls cw tset, Forall (fun l => l < m) ls -> length cw = m -> Forall (fun l => l < m) tset ->
    exists tset' cw', ld_targets ls res ow iw delta icw ocw cw tset = KOk (tset', cw') /\
                      Forall (fun l => l < m) tset' /\ length cw' = m.
Proof.
  intros Hi Ho. induction ls as [|lt t IH]; intros cw tset Hls Hcw Hts; cbn [ld_targets].
  - exists tset, cw. auto.
  - apply Forall_cons_iff in Hls. destruct Hls as [Hlt Hls].
    step_rd 0%Q. step_rd 0%Q. step_rd 0%Q. step_wr.
    destruct (Qlt_le_dec 0 _); apply IH; auto; try (rewrite set_nth_length; exact Hcw).
    apply Forall_set_insert; assumption.
Qed.

Lemma ld_node_ok n m rnd indptr indices (data ow_ iw_ sl_ : list Q) labels res i st :
  csr_wf n indptr indices data -> length labels = n ->
  length ow_ = n -> length iw_ = n -> length sl_ = n ->
  i < n -> rinv n m st ->
  exists st', ld_node rnd indptr indices data ow_ iw_ sl_ labels res i st = KOk st' /\ rinv n m st'.
Proof.
  intros Hwf Hlab How Hiw Hsl Hi (HL & HF & HO & HI & HC). pose proof Hwf as [Hpat Hd].
  unfold ld_node.
  rewrite (rd_ok labels i 0) by lia. cbn [kbind].
  destruct (rd_Forall _ (r_lr st) i HF ltac:(lia)) as (lref & Hr & Hlref). rewrite Hr. cbn [kbind].
  rewrite (csr_rd_indptr _ _ _ i Hpat) by lia. cbn [kbind].
  rewrite (csr_rd_indptr _ _ _ (S i) Hpat) by lia. cbn [kbind].
  destruct (ld_gather_ok n m indptr indices data labels (r_lr st) (nth i labels 0) Hwf Hlab HL HF
              (seq (ip indptr i) (ip indptr (S i) - ip indptr i)) [] (r_cw st))
    as (lset0 & cw1 & Hg & Hls0 & Hcw1); auto.
  { apply (row_range_lt n); auto. }
  rewrite Hg. cbn [kbind fst snd].
  pose proof (Forall_remove m lref lset0 Hls0) as Hls.
  match goal with |- exists st', (do st1 <- ?X ;; _) = _ /\ _ =>
    assert (H1 : exists st1, X = KOk st1 /\ rinv n m st1) end.
  { destruct (remove Nat.eq_dec lref lset0) as [|l0 lrest] eqn:Erm.
    - eexists. split; [reflexivity|]. unfold rinv; cbn [r_lr r_ocw r_icw r_cw]. auto.
    - step_rd 0%Q. step_rd 0%Q. step_rd 0%Q. step_rd 0%Q. step_rd 0%Q. step_rd 0%Q.
      match goal with |- context [ld_targets ?ls ?r ?o ?w ?d ?ic ?oc ?c ?ts] =>
        destruct (ld_targets_ok m r o w d ic oc HI HO ls c ts Hls Hcw1 (Forall_nil _))
          as (tset & cw2 & Hs & Hts & Hcw2) end.
      rewrite Hs. cbn [kbind fst snd].
      destruct tset as [|t0 trest].
      + eexists. split; [reflexivity|]. unfold rinv; cbn [r_lr r_ocw r_icw r_cw]. auto.
      + match goal with |- context [ld_pick ?ls ?k ?c] =>
          pose proof (ld_pick_Forall (fun l => l < m) ls k c Hts
                        ltac:(apply Forall_cons_iff in Hts; exact (proj1 Hts))) as Hpick;
          set (lt := ld_pick ls k c) in * end.
        cbn beta in Hpick.
        repeat first [step_rd 0%Q | step_wr].
        eexists. split; [reflexivity|]. unfold rinv; cbn [r_lr r_ocw r_icw r_cw].
        rewrite !set_nth_length. repeat split; auto. apply Forall_set_nth; auto. }
  destruct H1 as (st1 & E1 & (HL1 & HF1 & HO1 & HI1 & HC1)). rewrite E1. cbn [kbind].
  step_wr. eexists. split; [reflexivity|]. unfold rinv; cbn [r_lr r_ocw r_icw r_cw].
  rewrite set_nth_length. auto.
Qed.

Lemma ld_pass_ok n m rnd indptr indices (data ow_ iw_ sl_ : list Q) labels res :
  csr_wf n indptr indices data -> length labels = n ->
  length ow_ = n -> length iw_ = n -> length sl_ = n ->
  forall nodes st, (forall i, In i nodes -> i < n) -> rinv n m st ->
    exists st', ld_pass nodes rnd indptr indices data ow_ iw_ sl_ labels res st = KOk st' /\ rinv n m st'.
Proof.
  intros Hwf Hlab How Hiw Hsl. induction nodes as [|i t IH]; intros st Hn Hinv; cbn [ld_pass].
  - exists st. auto.
  - destruct (ld_node_ok n m rnd indptr indices data ow_ iw_ sl_ labels res i st Hwf Hlab How Hiw Hsl
                (Hn i (or_introl eq_refl)) Hinv) as (st1 & H1 & Hinv1).
    rewrite H1. cbn [kbind]. apply IH; auto. exact (In_tail _ _ _ Hn).
Qed.

Lemma ld_loop_safe n m rnd indptr indices (data ow_ iw_ sl_ : list Q) labels res :
  csr_wf n indptr indices data -> length labels = n ->
  length ow_ = n -> length iw_ = n -> length sl_ = n ->
  forall fuel st passes, rinv n m st ->
    ld_loop fuel n rnd indptr indices data ow_ iw_ sl_ labels res st passes <> OOB.
Proof.
  intros Hwf Hlab How Hiw Hsl. induction fuel as [|f IH]; intros st passes Hinv; cbn [ld_loop];
    [discriminate|].
  destruct (ld_pass_ok n m rnd indptr indices data ow_ iw_ sl_ labels res Hwf Hlab How Hiw Hsl (seq 0 n)
              {| r_lr := r_lr st; r_ocw := r_ocw st; r_icw := r_icw st; r_cw := r_cw st;
                 r_inc := false; r_draws := r_draws st |}) as (st' & H1 & Hinv').
  { intros i Hi. apply in_seq in Hi. lia. }
  { exact Hinv. }
  rewrite H1. cbn [kbind]. destruct (r_inc st'); [apply IH; exact Hinv'|discriminate].
Qed.

(** optimize_refine_core: no access out of bounds, for every fuel and every stream of rand() values.
    Contract of the caller (Leiden._optimize_refine): [labels], [labels_refined] and the per-node arrays
    have n entries; the three cluster arrays have m entries and every refined label is < m
    (m = n: labels_refined = arange(n), cluster arrays built by get_membership(labels_refined)). *)
Theorem leiden_refine_safe_ok fuel rnd n m labels labels_refined indices indptr
        (data ow_ iw_ ocw icw cw sl_ : list Q) res :
  csr_wf n indptr indices data -> length labels = n -> length labels_refined = n ->
  Forall (fun l => l < m) labels_refined ->
  length ow_ = n -> length iw_ = n -> length ocw = m -> length icw = m -> length cw = m ->
  length sl_ = n ->
  optimize_refine_core fuel rnd labels labels_refined indices indptr data ow_ iw_ ocw icw cw sl_ res <> OOB.
Proof.
  intros Hwf HL HLR HF How Hiw Hocw Hicw Hcw Hsl. unfold optimize_refine_core. rewrite HL.
  apply (ld_loop_safe n m); auto. unfold rinv; cbn [r_lr r_ocw r_icw r_cw]. auto.
Qed.

(** * 3b. leiden_core.pyx: optimize_refine_core terminates (exact arithmetic)

    Every accepted move has [delta_local > 0]. Under the refinement invariant (a refined cluster never
    straddles two coarse clusters: true for labels_refined = arange(n) and preserved by every move) the
    scratch array holds, for the node's own refined cluster and for every candidate, the full weight between
    the node and that cluster, so [delta_local] IS the change of the objective
    sum_ij (A_ij - res out_i in_j) delta(lr_i, lr_j) (same algebra as Louvain: LouvainProofs.move_gain).
    A pass that sets [increase] therefore strictly increases the objective, which takes at most m^n values:
    the [while increase] loop ends within m^n + 1 passes, whatever rand() returns. As for Louvain with
    tol = 0 this is a statement about exact arithmetic: in float32 a "gain" can be rounding noise. *)
From Coq Require Import Sorted Setoid Morphisms.
From SKN Require Import Model.Modularity Model.Louvain Proofs.ModularityProofs Proofs.LouvainProofs Proofs.LouvainTermination Proofs.LouvainFlatTermination.
Set Warnings "-notation-overridden". (* keep: a line with a parenthesis after the imports *)
Local Open Scope Q_scope.

Lemma nthq_upd_any (l : list Q) i j v : (i < length l)%nat ->
  nthq (upd l i v) j = if Nat.eqb j i then v else nthq l j.
Proof.
  intros H. destruct (Nat.eqb_spec j i) as [->|Hne]; [apply nthq_upd_same; exact H|apply nthq_upd_other; exact Hne].
Qed.

Section LeidenTerm.
  Context (n m : nat) (indptr indices : list nat) (data ows iws sls : list Q) (labels : list nat) (res : Q)
          (rnd : nat -> nat).
  Context (Hcsr : csr_wf n indptr indices data) (Hlab : length labels = n).
  Context (How : length ows = n) (Hiw : length iws = n) (Hsl : length sls = n).
  Let g := csr_graph n indptr indices data.
  Context (Hsym : wsymmetric g) (Hdiag : forall i, (i < n)%nat -> nthq sls i == entry g i i).

  Let Hg : length g = n := csr_graph_length n indptr indices data.
  Let Hgwf : wf_wgraph g := csr_graph_wf n indptr indices data (proj1 Hcsr).

  Definition robj (lr : list nat) : Q := objective g ows iws res lr.

  (** the quantity compared by the kernel is the change of the objective, as soon as the scratch array holds
      the weights between node i and the two clusters involved *)
  Lemma refine_gain lr ocw icw cw1 i t :
    (i < n)%nat -> length lr = n -> t <> lab lr i ->
    nthq cw1 t == qsum n (fun y => entry g i y * ind (Nat.eqb (lab lr y) t)) ->
    nthq cw1 (lab lr i) == qsum n (fun y => entry g i y * ind (Nat.eqb (lab lr y) (lab lr i))) ->
    nthq ocw t == csum g lr ows t -> nthq ocw (lab lr i) == csum g lr ows (lab lr i) ->
    nthq icw t == csum g lr iws t -> nthq icw (lab lr i) == csum g lr iws (lab lr i) ->
    delta_local res (nthq ows i) (nthq iws i)
       (delta_leave res (nthq ows i) (nthq iws i) (nthq sls i) ocw icw cw1 (lab lr i)) ocw icw cw1 t
    == robj (upd lr i t) - robj lr.
  Proof.
    intros Hi Hlen Hne C1 C2 O1 O2 I1 I2. unfold robj.
    rewrite !objective_objF. rewrite Hg.
    rewrite (objF_ext n (Fk g ows iws res) (lab (upd lr i t)) (fun x => if Nat.eqb x i then t else lab lr x))
      by (intros x _; apply lab_upd; lia).
    rewrite (move_gain n (Fk g ows iws res) (lab lr) i t Hi Hne).
    transitivity (qsum n (fun y => (2 * entry g i y - res * nthq ows i * nthq iws y - res * nthq iws i * nthq ows y)
                                   * (ind (Nat.eqb (lab lr y) t) - ind (Nat.eqb (lab lr y) (lab lr i))))
                  + 2 * Fk g ows iws res i i).
    2:{ apply Qplus_comp; [|reflexivity]. apply qsum_ext. intros y Hy. unfold Fk.
        rewrite (Hsym y i ltac:(lia) ltac:(lia)). ring. }
    rewrite lin6. unfold delta_local, delta_leave.
    rewrite C1, C2, O1, O2, I1, I2. rewrite (Hdiag i Hi). unfold csum, membership_T_dot, Fk. rewrite Hg. ring.
  Qed.

  (** ** the neighbour loop *)
  Definition rrow (js : list nat) : wrow := map (fun j => (nth j indices 0%nat, nth j data 0)) js.

  Lemma ld_gather_spec lr label : length lr = n -> Forall (fun l => (l < m)%nat) lr ->
    forall js lset cw, (forall k, In k js -> (k < length indices)%nat) -> length cw = m ->
      Forall (fun l => (l < m)%nat) lset -> StronglySorted lt lset ->
      exists lset' cw', ld_gather js indices data labels lr label lset cw = KOk (lset', cw') /\
        length cw' = m /\ Forall (fun l => (l < m)%nat) lset' /\ StronglySorted lt lset' /\
        (forall t, In t lset' <-> In t lset \/
                   exists j, In j js /\ lab labels (nth j indices 0%nat) = label /\ lab lr (nth j indices 0%nat) = t) /\
        (forall c, nthq cw' c == nthq cw c +
                   rsum (rrow js) (fun y => ind (Nat.eqb (lab labels y) label) * ind (Nat.eqb (lab lr y) c))).
  Proof.
    intros HLR HF. pose proof Hcsr as [Hpat Hd]. pose proof Hpat as (_ & _ & _ & _ & Hidx).
    induction js as [|j t IH]; intros lset cw Hjs Hcw Hls Hss; cbn [ld_gather rrow map rsum].
    - exists lset, cw. split; [reflexivity|]. split; [exact Hcw|]. split; [exact Hls|]. split; [exact Hss|].
      split; [|intros c; ring]. intros u. split; [auto|]. intros [H|[j [[] _]]]. exact H.
    - assert (Hj : (j < length indices)%nat) by (apply Hjs; left; reflexivity).
      pose proof (Hidx j Hj) as Hjj.
      rewrite (rdn_ok indices j Hj). cbn [kbind]. change (nthn indices j) with (nth j indices 0%nat).
      set (y := nth j indices 0%nat) in *.
      rewrite (rdn_ok labels y) by lia. cbn [kbind]. change (nthn labels y) with (lab labels y).
      destruct (Nat.eqb_spec (lab labels y) label) as [El|El].
      + assert (Hlt : (lab lr y < m)%nat).
        { unfold lab, nthn. apply (Forall_nth_lt _ lr y 0%nat HF). lia. }
        rewrite (rdn_ok lr y) by lia. cbn [kbind]. change (nthn lr y) with (lab lr y).
        rq. rq. wq. rewrite vote_set_insert.
        destruct (IH (set_insert (lab lr y) lset) (upd cw (lab lr y) (nthq cw (lab lr y) + nthq data j)))
          as (lset' & cw' & E & Hl' & Hf' & Hs' & Hin' & Hcw').
        * exact (In_tail _ _ _ Hjs).
        * rewrite upd_length. exact Hcw.
        * apply Forall_forall. intros u Hu. apply set_insert_In in Hu.
          destruct Hu as [->|Hu]; [exact Hlt|exact (Forall_In _ _ _ Hls Hu)].
        * apply set_insert_sorted. exact Hss.
        * exists lset', cw'. split; [exact E|]. split; [exact Hl'|]. split; [exact Hf'|]. split; [exact Hs'|].
          split.
          -- intros u. rewrite Hin'. rewrite set_insert_In. split.
             ++ intros [[->|H]|[j' [Hj' HH]]].
                ** right. exists j. split; [left; reflexivity|]. split; [exact El|reflexivity].
                ** left. exact H.
                ** right. exists j'. split; [right; exact Hj'|exact HH].
             ++ intros [H|[j' [[->|Hj'] [H1 H2]]]].
                ** left. right. exact H.
                ** left. left. symmetry. exact H2.
                ** right. exists j'. auto.
          -- intros c. rewrite Hcw'. fold (rrow t). rewrite nthq_upd_any by lia.
             change (nth j data 0) with (nthq data j).
             cbn [ind].
             destruct (Nat.eqb_spec c (lab lr y)) as [->|Hne].
             ++ rewrite Nat.eqb_refl. cbn [ind]. ring.
             ++ rewrite (ind_false (Nat.eqb (lab lr y) c)) by (apply Nat.eqb_neq; congruence). ring.
      + destruct (IH lset cw (In_tail _ _ _ Hjs) Hcw Hls Hss) as (lset' & cw' & E & Hl' & Hf' & Hs' & Hin' & Hcw').
        exists lset', cw'. split; [exact E|]. split; [exact Hl'|]. split; [exact Hf'|]. split; [exact Hs'|].
        split.
        * intros u. rewrite Hin'. split.
          -- intros [H|[j' [Hj' HH]]]; [left; exact H|right; exists j'; split; [right; exact Hj'|exact HH]].
          -- intros [H|[j' [[->|Hj'] [H1 H2]]]]; [left; exact H|contradiction|right; exists j'; auto].
        * intros c. rewrite Hcw'. fold (rrow t).
          cbn [ind]. ring.
  Qed.

  (** ** the target loop *)
  Lemma ld_targets_spec ow iw delta icw ocw cw1 : length icw = m -> length ocw = m ->
    forall ls cw tset, NoDup ls -> Forall (fun l => (l < m)%nat) ls -> length cw = m ->
      (forall t, In t ls -> nthq cw t = nthq cw1 t) ->
      exists tset' cw', ld_targets ls res ow iw delta icw ocw cw tset = KOk (tset', cw') /\
        length cw' = m /\
        (forall t, In t tset' -> In t tset \/ (In t ls /\ 0 < delta_local res ow iw delta ocw icw cw1 t)) /\
        (forall c, In c ls -> nthq cw' c = 0) /\ (forall c, ~ In c ls -> nthq cw' c = nthq cw c).
  Proof.
    intros Hi Ho. induction ls as [|lt t IH]; intros cw tset Hnd Hls Hcw Heq; cbn [ld_targets].
    - exists tset, cw. split; [reflexivity|]. split; [exact Hcw|]. split; [auto|]. split; [intros c []|reflexivity].
    - apply Forall_cons_iff in Hls. destruct Hls as [Hlt Hls]. apply NoDup_cons_iff in Hnd. destruct Hnd as [Hnotin Hnd'].
      rq. rq. rq. wq.
      assert (Edl : 2 * nthq cw lt - res * ow * nthq icw lt - res * iw * nthq ocw lt - delta
                    = delta_local res ow iw delta ocw icw cw1 lt).
      { unfold delta_local. rewrite (Heq lt (or_introl eq_refl)). reflexivity. }
      rewrite Edl.
      assert (Heq' : forall u, In u t -> nthq (upd cw lt 0) u = nthq cw1 u).
      { intros u Hu. rewrite nthq_upd_other by (intros ->; contradiction). apply Heq. right. exact Hu. }
      assert (Hfin : forall tset0,
                (forall u, In u tset0 -> In u tset \/ (u = lt /\ 0 < delta_local res ow iw delta ocw icw cw1 lt)) ->
                exists tset' cw', ld_targets t res ow iw delta icw ocw (upd cw lt 0) tset0 = KOk (tset', cw') /\
                  length cw' = m /\
                  (forall u, In u tset' -> In u tset \/ (In u (lt :: t) /\ 0 < delta_local res ow iw delta ocw icw cw1 u)) /\
                  (forall c, In c (lt :: t) -> nthq cw' c = 0) /\ (forall c, ~ In c (lt :: t) -> nthq cw' c = nthq cw c)).
      { intros tset0 H0.
        destruct (IH (upd cw lt 0) tset0 Hnd' Hls ltac:(rewrite upd_length; exact Hcw) Heq')
          as (tset' & cw' & E & Hl' & Hin' & Hz' & Hnz').
        exists tset', cw'. split; [exact E|]. split; [exact Hl'|]. split; [|split].
        - intros u Hu. destruct (Hin' u Hu) as [H|[H1 H2]].
          + destruct (H0 u H) as [H'|[-> H']]; [left; exact H'|right; split; [left; reflexivity|exact H']].
          + right. split; [right; exact H1|exact H2].
        - intros c [<-|Hc]; [|apply Hz'; exact Hc].
          rewrite (Hnz' lt Hnotin). apply nthq_upd_same. lia.
        - intros c Hc. rewrite Hnz' by (intros H; apply Hc; right; exact H).
          apply nthq_upd_other. intros ->. apply Hc. left. reflexivity. }
      destruct (Qlt_le_dec 0 (delta_local res ow iw delta ocw icw cw1 lt)) as [Hpos|Hneg].
      + apply Hfin. intros u Hu. rewrite vote_set_insert in Hu. apply set_insert_In in Hu.
        destruct Hu as [->|Hu]; [right; split; [reflexivity|exact Hpos]|left; exact Hu].
      + apply Hfin. intros u Hu. left. exact Hu.
  Qed.

  (** ** cluster weight arrays under a move (flat form) *)
  Lemma cluster_move_flat lr (arr v : list Q) i best :
    (i < n)%nat -> length lr = n -> length arr = m ->
    (forall c, (c < m)%nat -> nthq arr c == csum g lr v c) ->
    (lab lr i < m)%nat -> (best < m)%nat -> best <> lab lr i ->
    let arr1 := upd arr (lab lr i) (nthq arr (lab lr i) - nthq v i) in
    let arr2 := upd arr1 best (nthq arr1 best + nthq v i) in
    forall c, (c < m)%nat -> nthq arr2 c == csum g (upd lr i best) v c.
  Proof.
    intros Hi Hlen Hal Harr Hlk Hbk Hne arr1 arr2 c Hc.
    rewrite (csum_move g lr v i best c ltac:(lia) ltac:(lia)).
    unfold arr2. rewrite nthq_upd_any by (unfold arr1; rewrite upd_length; lia).
    unfold arr1. rewrite !nthq_upd_any by lia.
    destruct (Nat.eqb_spec c best) as [->|Hcb].
    - assert (E : Nat.eqb best (lab lr i) = false) by (apply Nat.eqb_neq; exact Hne). rewrite E.
      rewrite (Harr best Hbk). rewrite Nat.eqb_refl.
      rewrite (ind_false (Nat.eqb (lab lr i) best)) by (apply Nat.eqb_neq; congruence). cbn [ind]. ring.
    - rewrite (ind_false (Nat.eqb best c)) by (apply Nat.eqb_neq; congruence).
      destruct (Nat.eqb_spec c (lab lr i)) as [->|Hcl].
      + rewrite (Harr (lab lr i) Hlk). rewrite Nat.eqb_refl. cbn [ind]. ring.
      + rewrite (Harr c Hc). rewrite (ind_false (Nat.eqb (lab lr i) c)) by (apply Nat.eqb_neq; congruence).
        cbn [ind]. ring.
  Qed.

  (** ** one node *)
  Definition refines (lr : list nat) : Prop :=
    forall x y, (x < n)%nat -> (y < n)%nat -> lab lr x = lab lr y -> lab labels x = lab labels y.

  Record rJ (st : rstate) : Prop := mk_rJ {
    rj_inv : rinv n m st;
    rj_ocw : forall c, (c < m)%nat -> nthq (r_ocw st) c == csum g (r_lr st) ows c;
    rj_icw : forall c, (c < m)%nat -> nthq (r_icw st) c == csum g (r_lr st) iws c;
    rj_cw : forall c, (c < m)%nat -> nthq (r_cw st) c == 0;
    rj_ref : refines (r_lr st) }.

  Lemma ld_node_progress i st : (i < n)%nat -> rJ st ->
    exists st', ld_node rnd indptr indices data ows iws sls labels res i st = KOk st' /\ rJ st' /\
      ((r_lr st' = r_lr st /\ r_inc st' = r_inc st) \/
       (robj (r_lr st) < robj (r_lr st') /\ r_inc st' = true)).
  Proof.
    intros Hi [Hinv Hocw Hicw Hcw Href]. destruct Hinv as (HL & HF & HO & HI & HC).
    pose proof Hcsr as [Hpat Hd]. pose proof Hpat as (Hipl & _ & _ & _ & Hidx).
    unfold ld_node. rn. rn. rn. rn.
    set (lr := r_lr st) in *. change (nthn labels i) with (lab labels i). change (nthn lr i) with (lab lr i).
    set (label := lab labels i). set (lref := lab lr i).
    assert (Hlref : (lref < m)%nat) by (unfold lref, lab, nthn; apply (Forall_nth_lt _ lr i 0%nat HF); lia).
    change (nthn indptr i) with (ip indptr i). change (nthn indptr (S i)) with (ip indptr (S i)).
    set (js := seq (ip indptr i) (ip indptr (S i) - ip indptr i)).
    assert (Hjs : forall k, In k js -> (k < length indices)%nat) by (apply (row_range_lt n); auto).
    destruct (ld_gather_spec lr label HL HF js [] (r_cw st) Hjs HC (Forall_nil _) (SSorted_nil lt))
      as (lset0 & cw1 & Eg & Lc1 & Hls0 & Hss0 & Hin0 & Hcw1).
    rewrite Eg. cbn [kbind fst snd]. rewrite remove_set_erase.
    assert (Hrow : wrow_of g i = rrow js).
    { unfold g. rewrite (csr_graph_row n indptr indices data i Hi). reflexivity. }
    assert (Hin0' : forall t, In t lset0 <->
              exists j, In j js /\ lab labels (nth j indices 0%nat) = label /\ lab lr (nth j indices 0%nat) = t).
    { intros t. rewrite Hin0. split; [intros [[]|H]; exact H|intros H; right; exact H]. }
    assert (Hwit : forall c, c = lref \/ In c lset0 ->
              exists z, (z < n)%nat /\ lab lr z = c /\ lab labels z = label).
    { intros c [->|Hc]; [exists i; auto|].
      apply Hin0' in Hc. destruct Hc as (j & Hj & H1 & H2).
      exists (nth j indices 0%nat). split; [apply Hidx; apply Hjs; exact Hj|]. auto. }
    assert (CW : forall c, (c < m)%nat -> c = lref \/ In c lset0 ->
              nthq cw1 c == qsum n (fun y => entry g i y * ind (Nat.eqb (lab lr y) c))).
    { intros c Hc Hw. destruct (Hwit c Hw) as (z & Hz & Hz1 & Hz2).
      rewrite Hcw1, (Hcw c Hc). rewrite <- Hrow. rewrite (rsum_row_entries g i _ Hgwf). rewrite Hg.
      rewrite Qplus_0_l. apply qsum_ext. intros y Hy.
      destruct (Nat.eqb_spec (lab lr y) c) as [E|E]; cbn [ind]; [|ring].
      assert (El : lab labels y = label) by (rewrite <- Hz2; apply Href; auto; congruence).
      rewrite El. unfold label. rewrite Nat.eqb_refl. cbn [ind]. ring. }
    set (s := set_erase lref lset0).
    assert (Hs_in : forall t, In t s <-> In t lset0 /\ t <> lref) by (intros t; apply set_erase_In).
    assert (Hs_nd : NoDup s) by (apply set_erase_NoDup, sorted_NoDup; exact Hss0).
    assert (Hs_lt : Forall (fun l => (l < m)%nat) s).
    { apply Forall_forall. intros t Ht. apply Hs_in in Ht. exact (Forall_In _ _ _ Hls0 (proj1 Ht)). }
    assert (CZ : forall c, (c < m)%nat -> c <> lref -> ~ In c s -> nthq cw1 c == 0).
    { intros c Hc Hne Hnin. rewrite Hcw1, (Hcw c Hc). rewrite rsum_zero; [ring|].
      intros y w Hyw. unfold rrow in Hyw. apply in_map_iff in Hyw. destruct Hyw as (j & E & Hj).
      assert (Ey : y = nth j indices 0%nat) by congruence. subst y.
      destruct (Nat.eqb_spec (lab labels (nth j indices 0%nat)) label) as [E1|E1]; cbn [ind]; [|ring].
      destruct (Nat.eqb_spec (lab lr (nth j indices 0%nat)) c) as [E2|E2]; cbn [ind]; [|ring].
      exfalso. apply Hnin. apply Hs_in. split; [|exact Hne]. apply Hin0'. exists j. auto. }
    assert (Hzero : forall cwF, length cwF = m -> (forall c, In c s -> nthq cwF c = 0) ->
                      (forall c, ~ In c s -> nthq cwF c = nthq cw1 c) ->
                      forall c, (c < m)%nat -> nthq (upd cwF lref 0) c == 0).
    { intros cwF HlF Hz Hnz c Hc. rewrite nthq_upd_any by lia.
      destruct (Nat.eqb_spec c lref) as [->|Hne]; [reflexivity|].
      destruct (in_dec Nat.eq_dec c s) as [Hin|Hnin]; [rewrite (Hz c Hin); reflexivity|].
      rewrite (Hnz c Hnin). apply CZ; assumption. }
    fold s. destruct s as [|t0 s'] eqn:Es.
    - (* no neighbouring refined cluster inside the coarse cluster *)
      cbn [kbind r_lr r_ocw r_icw r_cw r_inc r_draws]. wq.
      eexists. split; [reflexivity|]. split; [|left; cbn [r_lr r_inc]; auto].
      constructor; cbn [r_lr r_ocw r_icw r_cw]; [|exact Hocw|exact Hicw| |exact Href].
      + unfold rinv; cbn [r_lr r_ocw r_icw r_cw]. rewrite upd_length. auto.
      + apply Hzero; auto. intros c [].
    - do 6 rq.
      set (ow := nthq ows i). set (iw := nthq iws i).
      set (dlt := 2 * (nthq cw1 lref - nthq sls i) - res * ow * (nthq (r_icw st) lref - iw)
                  - res * iw * (nthq (r_ocw st) lref - ow)).
      assert (Edlt : dlt = delta_leave res ow iw (nthq sls i) (r_ocw st) (r_icw st) cw1 lref) by reflexivity.
      destruct (ld_targets_spec ow iw dlt (r_icw st) (r_ocw st) cw1 HI HO (t0 :: s') cw1 [] Hs_nd Hs_lt Lc1
                  (fun _ _ => eq_refl)) as (tset & cw2 & Et & Lc2 & Hin_t & Hz & Hnz).
      rewrite Et. cbn [kbind fst snd].
      destruct tset as [|u0 urest] eqn:Ets.
      + (* no strictly positive gain *)
        cbn [kbind r_lr r_ocw r_icw r_cw r_inc r_draws]. wq.
        eexists. split; [reflexivity|]. split; [|left; cbn [r_lr r_inc]; auto].
        constructor; cbn [r_lr r_ocw r_icw r_cw]; [|exact Hocw|exact Hicw| |exact Href].
        * unfold rinv; cbn [r_lr r_ocw r_icw r_cw]. rewrite upd_length. auto.
        * apply Hzero; auto.
      + (* a move *)
        set (kk := Z.of_nat (rnd (r_draws st) mod length (u0 :: urest))).
        set (lt := ld_pick (u0 :: urest) kk u0).
        assert (Hpick : In lt (u0 :: urest)).
        { apply (ld_pick_Forall (fun x => In x (u0 :: urest))); [|left; reflexivity].
          apply Forall_forall. auto. }
        destruct (Hin_t lt Hpick) as [[]|[Hlt_in Hpos]].
        assert (Hlt_s : In lt lset0 /\ lt <> lref) by (apply Hs_in; exact Hlt_in).
        destruct Hlt_s as [Hlt0 Hltne].
        assert (Hltm : (lt < m)%nat) by exact (Forall_In _ _ _ Hls0 Hlt0).
        repeat first [rq | wq]. cbn [kbind r_lr r_ocw r_icw r_cw r_inc r_draws]. wq.
        eexists. split; [reflexivity|]. cbn [r_lr r_ocw r_icw r_cw r_inc r_draws]. fold lr.
        split; [|right; split; [|reflexivity]].
        * constructor; cbn [r_lr r_ocw r_icw r_cw].
          -- unfold rinv; cbn [r_lr r_ocw r_icw r_cw]. rewrite !upd_length.
             repeat split; auto. apply Forall_upd; auto.
          -- exact (cluster_move_flat lr (r_ocw st) ows i lt Hi HL HO Hocw Hlref Hltm Hltne).
          -- exact (cluster_move_flat lr (r_icw st) iws i lt Hi HL HI Hicw Hlref Hltm Hltne).
          -- apply Hzero; auto.
          -- destruct (Hwit lt (or_intror Hlt0)) as (z & Hz0 & Hz1 & Hz2).
             intros x y Hx Hy. rewrite !lab_upd by lia.
             destruct (Nat.eqb_spec x i) as [->|Hxi]; destruct (Nat.eqb_spec y i) as [->|Hyi]; intros E.
             ++ reflexivity.
             ++ fold label. rewrite <- Hz2. apply Href; auto. congruence.
             ++ fold label. rewrite <- Hz2. apply Href; auto. congruence.
             ++ apply Href; auto.
        * rewrite Edlt in Hpos.
          pose proof (refine_gain lr (r_ocw st) (r_icw st) cw1 i lt Hi HL Hltne
                        (CW lt Hltm (or_intror Hlt0)) (CW lref Hlref (or_introl eq_refl))
                        (Hocw lt Hltm) (Hocw lref Hlref) (Hicw lt Hltm) (Hicw lref Hlref)) as Hgain.
          unfold ow, iw, lref in Hpos. lra.
  Qed.

  (** ** one pass, the loop *)
  Lemma ld_pass_progress : forall nodes st, (forall i, In i nodes -> (i < n)%nat) -> rJ st ->
    exists st', ld_pass nodes rnd indptr indices data ows iws sls labels res st = KOk st' /\ rJ st' /\
      robj (r_lr st) <= robj (r_lr st') /\
      (r_inc st' = true -> r_inc st = true \/ robj (r_lr st) < robj (r_lr st')).
  Proof.
    induction nodes as [|i t IH]; intros st Hn HJ; cbn [ld_pass].
    - exists st. split; [reflexivity|]. split; [exact HJ|]. split; [apply Qle_refl|auto].
    - destruct (ld_node_progress i st (Hn i (or_introl eq_refl)) HJ) as (st1 & E1 & HJ1 & Hp1).
      rewrite E1. cbn [kbind].
      destruct (IH st1 (In_tail _ _ _ Hn) HJ1) as (st' & E & HJ' & Hle & Hinc).
      exists st'. split; [exact E|]. split; [exact HJ'|].
      destruct Hp1 as [[El Ei]|[Hlt Ei]].
      + rewrite El in *. rewrite Ei in *. auto.
      + split; [lra|]. intros _. right. lra.
  Qed.

  Lemma rJ_kinv st : rJ st ->
    kinv g ows iws m {| k_labels := r_lr st; k_out_cw := r_ocw st; k_in_cw := r_icw st; k_cw := r_cw st;
                        k_inc_pass := 0; k_margin := marg0 |}.
  Proof.
    intros [(HL & HF & HO & HI & HC) Hocw Hicw Hcw _].
    constructor; cbn [k_labels k_out_cw k_in_cw k_cw]; auto.
    - congruence.
    - intros x Hx. unfold lab, nthn. apply (Forall_nth_lt _ (r_lr st) x 0%nat HF). lia.
  Qed.

  Definition rabove (x : Q) : nat := above g ows iws res m x.

  Lemma ld_loop_terminates : forall fuel st passes, rJ st ->
    (rabove (robj (r_lr st)) < fuel)%nat ->
    exists lr' p, ld_loop fuel n rnd indptr indices data ows iws sls labels res st passes = KOk (lr', p) /\
      (p <= passes + S (rabove (robj (r_lr st))))%nat /\
      length lr' = n /\ Forall (fun l => (l < m)%nat) lr' /\ refines lr' /\ robj (r_lr st) <= robj lr'.
  Proof.
    induction fuel as [|f IH]; intros st passes HJ Hf; [lia|]. cbn [ld_loop].
    set (st0 := {| r_lr := r_lr st; r_ocw := r_ocw st; r_icw := r_icw st; r_cw := r_cw st; r_inc := false;
                   r_draws := r_draws st |}).
    assert (HJ0 : rJ st0) by (destruct HJ as [H1 H2 H3 H4 H5]; constructor; assumption).
    destruct (ld_pass_progress (seq 0 n) st0) as (st' & E & HJ' & Hle & Hinc); [|exact HJ0|].
    { intros i Hi. apply in_seq in Hi. lia. }
    rewrite E. cbn [kbind]. cbn [st0 r_lr r_inc] in Hle, Hinc.
    destruct (r_inc st') eqn:Ei.
    - destruct (Hinc eq_refl) as [H|Hlt]; [discriminate|].
      pose proof (above_decr g ows iws res m _ (robj (r_lr st)) (rJ_kinv st' HJ') Hlt) as Hd.
      cbn [k_labels] in Hd. fold (robj (r_lr st')) in Hd. fold (rabove (robj (r_lr st'))) in Hd.
      fold (rabove (robj (r_lr st))) in Hd.
      destruct (IH st' (S passes) HJ' ltac:(lia)) as (lr' & p & E2 & Hp & H1 & H2 & H3 & H4).
      exists lr', p. split; [exact E2|]. split; [lia|]. repeat split; auto. lra.
    - exists (r_lr st'), (S passes). split; [reflexivity|]. split; [lia|].
      destruct HJ' as [(HL & HF & _) _ _ _ Hr]. auto.
  Qed.
End LeidenTerm.

Theorem leiden_refine_terminates_ok fuel rnd n m labels lr indices indptr
        (data ows iws ocw icw cw sls : list Q) res :
  csr_wf n indptr indices data ->
  let g := csr_graph n indptr indices data in
  wsymmetric g ->
  (forall i, (i < n)%nat -> nthq sls i == entry g i i) ->
  length labels = n -> length lr = n -> Forall (fun l => (l < m)%nat) lr ->
  length ows = n -> length iws = n -> length ocw = m -> length icw = m -> length cw = m -> length sls = n ->
  (forall c, (c < m)%nat -> nthq ocw c == csum g lr ows c) ->
  (forall c, (c < m)%nat -> nthq icw c == csum g lr iws c) ->
  (forall c, (c < m)%nat -> nthq cw c == 0) ->
  (forall x y, (x < n)%nat -> (y < n)%nat -> lab lr x = lab lr y -> lab labels x = lab labels y) ->
  (S (m ^ n) <= fuel)%nat ->
  exists lr' passes,
    optimize_refine_core fuel rnd labels lr indices indptr data ows iws ocw icw cw sls res = KOk (lr', passes) /\
    (passes <= S (m ^ n))%nat /\ length lr' = n /\ Forall (fun l => (l < m)%nat) lr' /\
    (forall x y, (x < n)%nat -> (y < n)%nat -> lab lr' x = lab lr' y -> lab labels x = lab labels y) /\
    objective g ows iws res lr <= objective g ows iws res lr'.
Proof.
  intros Hcsr g Hsym Hdiag HL HLR HF How Hiw Hocw Hicw Hcw Hsl Co Ci Cz Href Hf.
  unfold optimize_refine_core. rewrite HL.
  set (st := {| r_lr := lr; r_ocw := ocw; r_icw := icw; r_cw := cw; r_inc := true; r_draws := 0 |}).
  assert (HJ : rJ n m indptr indices data ows iws labels st).
  { constructor; cbn [st r_lr r_ocw r_icw r_cw]; auto. unfold rinv; cbn [r_lr r_ocw r_icw r_cw]. auto. }
  pose proof (above_le g ows iws res m (objective g ows iws res lr)) as Hab.
  replace (length g) with n in Hab by (symmetry; apply csr_graph_length).
  destruct (ld_loop_terminates n m indptr indices data ows iws sls labels res rnd Hcsr HL How Hiw Hsl Hsym
              Hdiag fuel st 0%nat HJ) as (lr' & p & E & Hp & H1 & H2 & H3 & H4).
  { unfold rabove, robj. cbn [st r_lr]. fold g. lia. }
  exists lr', p. split; [exact E|]. split; [|auto].
  unfold rabove, robj in Hp. cbn [st r_lr] in Hp. fold g in Hp. lia.
Qed.

(** The call made by Leiden._optimize_refine: labels_refined = arange(n), cluster weights = node weights
    (get_membership(arange(n)).T.dot(w) = w), cluster_weights = zeros(n). *)
Theorem leiden_refine_call_terminates_ok fuel rnd n labels indices indptr (data ows iws sls : list Q) res :
  csr_wf n indptr indices data ->
  let g := csr_graph n indptr indices data in
  wsymmetric g ->
  (forall i, (i < n)%nat -> nthq sls i == entry g i i) ->
  length labels = n -> length ows = n -> length iws = n -> length sls = n ->
  (S (n ^ n) <= fuel)%nat ->
  exists lr' passes,
    optimize_refine_core fuel rnd labels (seq 0 n) indices indptr data ows iws ows iws (repeat 0 n) sls res
    = KOk (lr', passes) /\ (passes <= S (n ^ n))%nat /\
    (forall x y, (x < n)%nat -> (y < n)%nat -> lab lr' x = lab lr' y -> lab labels x = lab labels y).
Proof.
  intros Hcsr g Hsym Hdiag HL How Hiw Hsl Hf.
  assert (Hg : length g = n) by apply csr_graph_length.
  destruct (leiden_refine_terminates_ok fuel rnd n n labels (seq 0 n) indices indptr data ows iws ows iws
              (repeat 0 n) sls res Hcsr Hsym Hdiag HL) as (lr' & p & E & Hp & _ & _ & Hr & _); auto.
  - apply seq_length.
  - apply Forall_forall. intros x Hx. apply in_seq in Hx. lia.
  - apply repeat_length.
  - intros c Hc. pose proof (csum_singletons g ows c) as Hs. rewrite Hg in Hs. apply Hs. exact Hc.
  - intros c Hc. pose proof (csum_singletons g iws c) as Hs. rewrite Hg in Hs. apply Hs. exact Hc.
  - intros c Hc. rewrite nthq_repeat by exact Hc. reflexivity.
  - intros x y Hx Hy. rewrite !lab_seq by assumption. intros ->. reflexivity.
  - exists lr', p. auto.
Qed.
